(* C09: main theorems *)
From Coq Require Import List NArith Bool Lia.
From K.Model Require Import C09.
From K.Proof Require Import C09_base C09_inv C09_frame C09_reads C09_client C09_worker.
Import ListNotations.
Local Open Scope N_scope.

Lemma inv_init : Inv init [].
Proof.
  split; [cbn; auto|]. intros k. split.
  - unfold gen_inv. cbn. repeat split; intros; discriminate.
  - cbn. auto.
Qed.

Lemma step_inv : forall s g o, Inv s g -> guard s o = true ->
  let '(s', r) := step s o in
  let '(g', ok) := gstep g o r in ok = true /\ Inv s' g'.
Proof.
  intros s g o HI HG. destruct o; cbn [step].
  - apply inv_create; auto.
  - pose proof (inv_open s g k sc HI HG) as L. cbn [cstep gstep] in *.
    destruct (get k (mem s)); [destruct (oos _ _)|destruct (get k (disk s)); [destruct (oos _ _)|]]; cbn [snd] in L; split; auto.
  - pose proof (inv_has s g k sc HI HG) as L. cbn [cstep gstep] in *.
    destruct (get k (mem s)); [|destruct (get k (disk s))]; cbn [snd] in L; split; auto.
  - pose proof (inv_list s g sc HI HG) as L. cbn [cstep gstep snd] in *. split; auto.
  - apply inv_delete; auto.
  - apply inv_markcomplete; auto.
  - apply inv_setmd; auto.
  - apply inv_delmd; auto.
  - pose proof (inv_getmd s g k s0 sc HI HG) as L. cbn [cstep gstep] in *.
    destruct (get k (mem s)); [destruct (oos _ _)|destruct (get k (disk s)); [destruct (oos _ _)|]]; cbn [snd] in L; split; auto.
  - cbn [cstep gstep]. split; auto.
  - apply inv_evictmem; auto.
  - apply inv_evictdisk; auto.
  - pose proof (inv_work s g nospace HI) as L. destruct (wstep s nospace) as [s' e]. exact L.
Qed.

(* the invariant along a run, together with the verdict of the property oracle *)
Lemma run_inv : forall ops s g, Inv s g -> sched_ok s ops = true ->
  snd (grun g ops (snd (run s ops))) = true /\
  Inv (fst (run s ops)) (fst (grun g ops (snd (run s ops)))).
Proof.
  induction ops as [|o t IH]; intros s g HI HS; cbn [run grun].
  - cbn. auto.
  - cbn [sched_ok] in HS. apply andb_true_iff in HS as [HG HS].
    pose proof (step_inv s g o HI HG) as L.
    destruct (step s o) as [s1 r] eqn:ES. cbn [fst] in HS.
    destruct (gstep g o r) as [g1 ok1] eqn:EG. destruct L as [-> HI1].
    specialize (IH s1 g1 HI1 HS).
    destruct (run s1 t) as [s2 rs] eqn:ER. cbn [fst snd] in *. rewrite EG.
    destruct (grun g1 t rs) as [g2 ok2] eqn:EGR. cbn [fst snd] in *. destruct IH as [-> HI2]. auto.
Qed.

(* ---- C09_partial: under H1, H2, H3 every observation along every interleaving is one the
   property allows *)
Theorem check_sound_partial : forall ops,
  sched_ok init ops = true -> C09_check ops (snd (run init ops)) = true.
Proof. intros ops HS. unfold C09_check. apply (run_inv ops init [] inv_init HS). Qed.


Theorem reach_inv : forall ops, sched_ok init ops = true -> Inv (fst (run init ops)) (ghost_after ops).
Proof. intros ops HS. apply (run_inv ops init [] inv_init HS). Qed.

(* the clauses of the statement, on the state reached by any admissible schedule *)
Theorem live_bytes : forall ops k d mds sc,
  sched_ok init ops = true -> gget (ghost_after ops) k = GLive d mds -> sc <> SIncomplete ->
  snd (step (fst (run init ops)) (Open k sc)) = OBytes d.
Proof.
  intros ops k d mds sc HS HL Hsc. pose proof (reach_inv ops HS) as HI.
  destruct (live_view _ _ k d mds HI HL) as [[m [A [B [C D]]]]|[A [e [B [C [D F]]]]]]; cbn; rewrite A.
  - rewrite B, oos_true. destruct sc; try congruence; cbn; congruence.
  - rewrite B, C, oos_true. destruct sc; try congruence; cbn; congruence.
Qed.

Theorem live_metadata : forall ops k d mds x sc,
  sched_ok init ops = true -> gget (ghost_after ops) k = GLive d mds -> sc <> SIncomplete ->
  snd (step (fst (run init ops)) (GetMd k x sc)) = OMd (get x mds).
Proof.
  intros ops k d mds x sc HS HL Hsc. pose proof (reach_inv ops HS) as HI.
  destruct (live_view _ _ k d mds HI HL) as [[m [A [B [C D]]]]|[A [e [B [C [D F]]]]]]; cbn; rewrite A.
  - rewrite B, oos_true. destruct sc; try congruence; cbn; rewrite D; auto.
  - rewrite B, C, oos_true. destruct sc; try congruence; cbn; rewrite F; auto.
Qed.

Theorem deleted_absent : forall ops k,
  sched_ok init ops = true -> gget (ghost_after ops) k = GAbsent ->
  let s := fst (run init ops) in
  in_window3 s k = false ->
  snd (step s (Has k SAny)) = OHas false false /\
  snd (step s (Open k SAny)) = OErr ENotExist /\
  (forall d, won (wpc s) k = false -> snd (step s (Create k d PMem)) = OOk).
Proof.
  intros ops k HS HA s HW. pose proof (reach_inv ops HS) as HI.
  destruct (absent_clear _ _ k HI HA HW) as [A [B _]]. fold s in A, B.
  cbn. rewrite A, B. auto.
Qed.

(* the key invariant in the form DESIGN states it: a live blob is banned from eviction in
   memory, or it is complete on disk with nothing dirty *)
Theorem banned_or_flushed : forall ops k d mds,
  sched_ok init ops = true -> gget (ghost_after ops) k = GLive d mds ->
  let s := fst (run init ops) in
  (exists m, get k (mem s) = Some m /\ m_banned m = true) \/
  (exists e, get k (disk s) = Some e /\ d_complete e = true /\ d_data e = d /\
             (forall x, get x (d_mds e) = get x mds) /\ get k (fblobs s) = None).
Proof.
  intros ops k d mds HS HL s. pose proof (reach_inv ops HS) as [_ H]. fold s in H.
  destruct (H k) as [_ X]. rewrite HL in X. cbn in X. unfold live_inv in X.
  destruct (get k (mem s)) as [m|].
  - destruct X as [_ [_ [_ [X|[X _]]]]].
    + right. destruct X as [e X]. exists e. tauto.
    + left. eauto.
  - right. destruct X as [e X]. exists e. tauto.
Qed.

(* ---- the hypotheses one by one, and why each is needed *)
Lemma guard_split : forall s o, guard s o = h1 s o && h2 s o && h3 s o.
Proof. intros s o. destruct o; cbn; rewrite ?andb_true_r; auto. Qed.

Lemma sched_ok_by : forall ops s, sched_ok s ops = sched_by (fun s o => h1 s o && h2 s o && h3 s o) s ops.
Proof. induction ops as [|o t IH]; intros s; cbn; auto. rewrite guard_split, IH. auto. Qed.

Theorem check_sound_partial_by : forall ops,
  sched_by (fun s o => h1 s o && h2 s o && h3 s o) init ops = true ->
  C09_check ops (snd (run init ops)) = true.
Proof. intros ops H. apply check_sound_partial. rewrite sched_ok_by. auto. Qed.


(* (a) SetMetadata between delete(f.blobs,k) and UnbanEviction(k): the update is lost *)

Theorem unban_window_refuted :
  sched_by (fun s o => h2 s o && h3 s o) init wit_unban_window = true /\
  sched_by h1 init wit_unban_window = false /\
  C09_check wit_unban_window (snd (run init wit_unban_window)) = false /\
  last (snd (run init wit_unban_window)) OBad = OMd None.
Proof. vm_compute. auto. Qed.

(* (b) Delete + Create + MarkComplete of k while the flush of the earlier incarnation is in
   flight: the stale flush unmarks and unbans the NEW blob, which is then lost *)

Theorem recreate_refuted :
  sched_by (fun s o => h1 s o && h3 s o) init wit_recreate = true /\
  sched_by h2 init wit_recreate = false /\
  C09_check wit_recreate (snd (run init wit_recreate)) = false /\
  last (snd (run init wit_recreate)) OBad = OErr ENotExist.
Proof. vm_compute. auto. Qed.

(* (c) Delete of k between the worker's memOpen(k) and disk.Create(k): the entry created by the
   aborted flush is visible (and blocks Create) until the worker's abort check *)

Theorem resurface_refuted :
  sched_by (fun s o => h1 s o) init wit_resurface = true /\
  sched_by h3 init wit_resurface = false /\
  C09_check wit_resurface (snd (run init wit_resurface)) = false /\
  skipn 6 (snd (run init wit_resurface)) = [OHas true true; OErr EExist].
Proof. vm_compute. auto. Qed.

(* non-vacuity: an admissible schedule with metadata updates in the middle of a flush, a
   metadata-only flush, eviction from memory and reads served from disk *)

Lemma nonvacuous :
  sched_ok init wit_ok = true /\
  C09_check wit_ok (snd (run init wit_ok)) = true /\
  skipn 35 (snd (run init wit_ok)) =
    [OOk; OBytes [7; 7]; OMd (Some [3]); OMd None; OOk; OHas false false; OOk; OOk; OBytes [5]].
Proof. vm_compute. auto. Qed.
