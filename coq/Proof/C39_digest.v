(* C39: core/digest.go — digest text, hex form, JSON form, digest lists *)
From Coq Require Import List NArith ZArith Bool Lia ZifyBool ZifyN ZifyNat.
From K.Model Require Import C39.
From K.Proof Require Import C39_hex.
Import ListNotations.
Local Open Scope N_scope.

(* ---- strings.Split on one byte ---- *)

Fixpoint join (sep : N) (l : list (list N)) : list N :=
  match l with
  | [] => []
  | [p] => p
  | p :: t => p ++ sep :: join sep t
  end.

Lemma split_on_nonempty : forall sep s, split_on sep s <> [].
Proof.
  intros sep s. destruct s as [|c t]; cbn [split_on]; [discriminate|].
  destruct (c =? sep); [discriminate|]. destruct (split_on sep t); discriminate.
Qed.

Lemma join_cons : forall sep p q t, join sep (p :: q :: t) = p ++ sep :: join sep (q :: t).
Proof. reflexivity. Qed.

Lemma split_on_join : forall sep s, join sep (split_on sep s) = s.
Proof.
  intros sep s. induction s as [|c t IH]; [reflexivity|].
  cbn [split_on]. destruct (c =? sep) eqn:E.
  - apply N.eqb_eq in E. subst c.
    destruct (split_on sep t) as [|q ps] eqn:S; [exfalso; eapply split_on_nonempty; eauto|].
    rewrite join_cons, IH. reflexivity.
  - destruct (split_on sep t) as [|q ps] eqn:S; [exfalso; eapply split_on_nonempty; eauto|].
    destruct ps as [|q' ps'].
    + cbn [join] in *. congruence.
    + rewrite join_cons in *. cbn [app]. congruence.
Qed.

Lemma split_on_parts_clean : forall sep s, Forall (fun p => ~ In sep p) (split_on sep s).
Proof.
  intros sep s. induction s as [|c t IH]; cbn [split_on].
  - constructor; [intros []|constructor].
  - destruct (c =? sep) eqn:E.
    + constructor; [intros []|exact IH].
    + destruct (split_on sep t) as [|q ps]; [constructor; [|constructor]|].
      * intros [H|[]]. subst. rewrite N.eqb_refl in E. discriminate.
      * inversion IH; subst. constructor; [|assumption].
        intros [H|H]; [subst; rewrite N.eqb_refl in E; discriminate | auto].
Qed.

Lemma split_on_none : forall sep s, ~ In sep s -> split_on sep s = [s].
Proof.
  intros sep s. induction s as [|c t IH]; intro H; [reflexivity|].
  cbn [split_on]. destruct (c =? sep) eqn:E.
  - apply N.eqb_eq in E. exfalso. apply H. left. congruence.
  - rewrite IH; [reflexivity|]. intro K. apply H. right. exact K.
Qed.

Lemma split_on_app : forall sep a h, ~ In sep a -> split_on sep (a ++ sep :: h) = a :: split_on sep h.
Proof.
  intros sep a h. induction a as [|c t IH]; intro H.
  - cbn [app split_on]. rewrite N.eqb_refl. reflexivity.
  - cbn [app split_on]. destruct (c =? sep) eqn:E.
    + apply N.eqb_eq in E. exfalso. apply H. left. congruence.
    + rewrite IH; [reflexivity|]. intro K. apply H. right. exact K.
Qed.

(* exactly two parts <-> exactly one separator *)
Theorem split_on_two : forall sep s a h,
  split_on sep s = [a; h] <-> (s = a ++ sep :: h /\ ~ In sep a /\ ~ In sep h).
Proof.
  intros sep s a h. split.
  - intro H. pose proof (split_on_join sep s) as J. pose proof (split_on_parts_clean sep s) as C.
    rewrite H in J, C. cbn [join] in J. inversion C as [|? ? Ca C']; subst. inversion C' as [|? ? Ch ?]; subst.
    auto.
  - intros (E & Ha & Hh). subst s. rewrite split_on_app by assumption. rewrite split_on_none by assumption. reflexivity.
Qed.

(* ---- ValidateSHA256 ---- *)

Lemma even_64 : Nat.even 64 = true. Proof. reflexivity. Qed.

Theorem validate_sha256_iff : forall h, validate_sha256 h = id_text_wfb 64 h.
Proof.
  intro h. unfold validate_sha256, id_text_wfb.
  destruct (Nat.eqb (length h) 64) eqn:L; [|reflexivity]. cbn [andb].
  apply Nat.eqb_eq in L.
  destruct (hex_decode h) as [b|] eqn:D.
  - symmetry. apply (hex_decode_sound _ _ D).
  - destruct (forallb is_hex h) eqn:X; [|reflexivity].
    destruct (proj2 (hex_decode_accepts h)) as [b Hb]; [rewrite L; auto|]. congruence.
Qed.

Lemma is_hex_not_colon : forall h, forallb is_hex h = true -> ~ In colon h.
Proof.
  intros h X K. rewrite forallb_forall in X. apply X in K. discriminate.
Qed.

Lemma sha256_no_colon : ~ In colon sha256_str.
Proof. intro H. repeat (destruct H as [H|H]; [discriminate|]). exact H. Qed.

(* ---- ParseSHA256Digest ---- *)

Lemma digest_text_shape : forall raw, digest_text_wfb raw = true ->
  raw = sha256_str ++ colon :: skipn 7 raw /\ id_text_wfb 64 (skipn 7 raw) = true.
Proof.
  intros raw H. unfold digest_text_wfb in H.
  apply andb_true_iff in H. destruct H as [H X]. apply andb_true_iff in H. destruct H as [P L].
  apply leqb_eq in P. split.
  - rewrite <- (firstn_skipn 7 raw) at 1. rewrite P. reflexivity.
  - unfold id_text_wfb. rewrite L, X. reflexivity.
Qed.

Lemma digest_text_of_shape : forall h, id_text_wfb 64 h = true -> digest_text_wfb (sha256_str ++ colon :: h) = true.
Proof.
  intros h H. unfold id_text_wfb in H. apply andb_true_iff in H. destruct H as [L X].
  unfold digest_text_wfb. cbn [sha256_str app firstn skipn]. rewrite L, X. reflexivity.
Qed.

Lemma digest_parse_unfold : forall raw, raw <> [] ->
  digest_parse raw =
  match split_on colon raw with
  | [algo; hex] =>
      if leqb algo sha256_str then if validate_sha256 hex then Ok (mkd algo hex raw) else Err else Err
  | _ => Err
  end.
Proof. intros raw H. destruct raw; [congruence|reflexivity]. Qed.

(* the parser accepts exactly "sha256:" + 64 hexadecimal characters, and keeps the text *)
Theorem digest_parse_iff : forall raw d,
  digest_parse raw = Ok d <-> (digest_text_wfb raw = true /\ d = mkd sha256_str (skipn 7 raw) raw).
Proof.
  intros raw d. split.
  - intro H. assert (NE : raw <> []) by (intro E; subst raw; discriminate).
    rewrite digest_parse_unfold in H by assumption.
    destruct (split_on colon raw) as [|algo [|hex [|x l]]] eqn:S; try discriminate.
    destruct (leqb algo sha256_str) eqn:A; [|discriminate].
    destruct (validate_sha256 hex) eqn:V; [|discriminate].
    inversion H; subst d. clear H.
    apply leqb_eq in A. subst algo. apply split_on_two in S. destruct S as (E & _ & _).
    rewrite validate_sha256_iff in V. subst raw.
    split; [apply digest_text_of_shape; assumption|]. reflexivity.
  - intros [W E]. subst d. destruct (digest_text_shape _ W) as [S V].
    assert (NE : raw <> []) by (intro E; subst raw; discriminate).
    rewrite digest_parse_unfold by assumption.
    assert (Sp : split_on colon raw = [sha256_str; skipn 7 raw]).
    { apply split_on_two. split; [exact S|]. split; [apply sha256_no_colon|].
      apply is_hex_not_colon. unfold id_text_wfb in V. apply andb_true_iff in V. tauto. }
    rewrite Sp, leqb_refl, validate_sha256_iff, V. reflexivity.
Qed.

Theorem digest_accepts_wellformed_only : forall raw,
  (exists d, digest_parse raw = Ok d) <-> digest_text_wfb raw = true.
Proof.
  intro raw. split.
  - intros [d H]. apply digest_parse_iff in H. tauto.
  - intro W. eexists. apply digest_parse_iff. split; [exact W|reflexivity].
Qed.

(* the independent well-formedness predicate says what the statement says *)
Theorem digest_text_wfb_spec : forall raw,
  digest_text_wfb raw = true <->
  exists h, raw = sha256_str ++ colon :: h /\ length h = 64%nat /\ Forall (fun c => is_hex c = true) h.
Proof.
  intro raw. split.
  - intro W. destruct (digest_text_shape _ W) as [S V]. exists (skipn 7 raw). split; [exact S|].
    unfold id_text_wfb in V. apply andb_true_iff in V. destruct V as [L X].
    split; [apply Nat.eqb_eq; exact L|]. apply Forall_forall. apply forallb_forall. exact X.
  - intros (h & E & L & F). subst raw. apply digest_text_of_shape. unfold id_text_wfb.
    rewrite L. cbn [Nat.eqb andb]. apply forallb_forall. apply Forall_forall. exact F.
Qed.

(* ---- the digests the constructors produce ---- *)

Lemma dg_wfb_shape : forall d, dg_wfb d = true <->
  (id_text_wfb 64 (d_hex d) = true /\ d = mkd sha256_str (d_hex d) (sha256_str ++ colon :: d_hex d)).
Proof.
  intro d. unfold dg_wfb. rewrite validate_sha256_iff. destruct d as [a h r]. cbn [d_algo d_hex d_raw]. split.
  - intro H. apply andb_true_iff in H. destruct H as [H R]. apply andb_true_iff in H. destruct H as [A V].
    apply leqb_eq in A. apply leqb_eq in R. subst. auto.
  - intros [V E]. inversion E as [[Ea Er]]. rewrite !leqb_refl, V. reflexivity.
Qed.

Theorem digest_parse_wf : forall raw d, digest_parse raw = Ok d -> dg_wfb d = true /\ digest_string d = raw.
Proof.
  intros raw d H. apply digest_parse_iff in H. destruct H as [W E]. subst d.
  destruct (digest_text_shape _ W) as [S V]. split; [|reflexivity].
  apply dg_wfb_shape. cbn [d_hex]. split; [exact V|]. rewrite <- S. reflexivity.
Qed.

(* print then parse *)
Theorem digest_roundtrip : forall d, dg_wfb d = true -> digest_parse (digest_string d) = Ok d.
Proof.
  intros d H. apply dg_wfb_shape in H. destruct H as [V E].
  apply digest_parse_iff. unfold digest_string. rewrite E. cbn [d_raw d_hex].
  split; [apply digest_text_of_shape; assumption|]. reflexivity.
Qed.

(* parse then print gives back the very text *)
Theorem digest_parse_print : forall raw d, digest_parse raw = Ok d -> digest_string d = raw.
Proof. intros raw d H. apply (digest_parse_wf _ _ H). Qed.

(* NewSHA256DigestFromHex / Hex *)
Theorem digest_from_hex_iff : forall h d,
  digest_from_hex h = Ok d <-> (id_text_wfb 64 h = true /\ d = mkd sha256_str h (sha256_str ++ colon :: h)).
Proof.
  intros h d. unfold digest_from_hex. rewrite validate_sha256_iff.
  destruct (id_text_wfb 64 h); split.
  - intro H. inversion H. auto.
  - intros [_ E]. subst. reflexivity.
  - discriminate.
  - intros [H _]. discriminate.
Qed.

Theorem digest_from_hex_wf : forall h d, digest_from_hex h = Ok d -> dg_wfb d = true /\ d_hex d = h.
Proof.
  intros h d H. apply digest_from_hex_iff in H. destruct H as [V E]. subst d. split; [|reflexivity].
  apply dg_wfb_shape. cbn [d_hex]. auto.
Qed.

Theorem digest_hex_roundtrip : forall d, dg_wfb d = true -> digest_from_hex (d_hex d) = Ok d.
Proof.
  intros d H. apply dg_wfb_shape in H. destruct H as [V E]. apply digest_from_hex_iff. auto.
Qed.

(* both constructors build the same digest from the same hex *)
Theorem digest_constructors_agree : forall h d,
  digest_from_hex h = Ok d -> digest_parse (sha256_str ++ colon :: h) = Ok d.
Proof.
  intros h d H. destruct (digest_from_hex_wf _ _ H) as [W E].
  apply digest_from_hex_iff in H. destruct H as [V D]. subst d. apply (digest_roundtrip _ W).
Qed.

(* ---- JSON strings ---- *)

Definition plainb (c : N) : bool := negb (c =? quote) && negb (c <? 32) && negb (c =? 92).

Lemma jstr_plain_step : forall c t, plainb c = true ->
  jstr (c :: t) = match jstr t with Some (r, rest) => Some (c :: r, rest) | None => None end.
Proof.
  intros c t H. unfold plainb in H. apply andb_true_iff in H. destruct H as [H H3].
  apply andb_true_iff in H. destruct H as [H1 H2].
  apply negb_true_iff in H1, H2, H3. cbn [jstr]. rewrite H1, H2, H3. reflexivity.
Qed.

Lemma jstr_plain : forall raw rest, forallb plainb raw = true -> jstr (raw ++ quote :: rest) = Some (raw, rest).
Proof.
  induction raw as [|c t IH]; intros rest H.
  - reflexivity.
  - cbn [forallb] in H. apply andb_true_iff in H. destruct H as [Hc Ht].
    cbn [app]. rewrite jstr_plain_step by assumption. rewrite IH by assumption. reflexivity.
Qed.

Lemma is_hex_plain : forall c, is_hex c = true -> plainb c = true.
Proof.
  intros c H. unfold is_hex, hexval in H. unfold plainb, quote.
  destruct ((48 <=? c) && (c <=? 57)) eqn:E1; [lia|].
  destruct ((97 <=? c) && (c <=? 102)) eqn:E2; [lia|].
  destruct ((65 <=? c) && (c <=? 70)) eqn:E3; [lia|]. discriminate.
Qed.

Lemma dg_raw_plain : forall d, dg_wfb d = true -> forallb plainb (d_raw d) = true.
Proof.
  intros d H. apply dg_wfb_shape in H. destruct H as [V E]. rewrite E. cbn [d_raw d_hex].
  rewrite forallb_app. cbn [forallb]. apply andb_true_iff. split; [reflexivity|].
  apply andb_true_iff. split; [reflexivity|].
  unfold id_text_wfb in V. apply andb_true_iff in V. destruct V as [_ X].
  apply forallb_forall. intros c Hc. apply is_hex_plain. rewrite forallb_forall in X. auto.
Qed.

(* Digest.Value then Digest.Scan *)
Theorem digest_json_roundtrip : forall d, dg_wfb d = true -> digest_json_parse (digest_json_print d) = Ok d.
Proof.
  intros d H. unfold digest_json_parse, digest_json_print, json_string_doc.
  cbn [skip_ws]. change (is_ws quote) with false. cbv iota. rewrite N.eqb_refl.
  rewrite jstr_plain by (apply dg_raw_plain; assumption). cbn [all_ws forallb].
  apply (digest_roundtrip _ H).
Qed.

(* whatever JSON spelling is accepted, the value is a well-formed digest *)
Theorem digest_json_accepts_wf_only : forall s d, digest_json_parse s = Ok d -> dg_wfb d = true.
Proof.
  intros s d. unfold digest_json_parse. destruct (json_string_doc s) as [raw|]; [|discriminate].
  intro H. apply (digest_parse_wf _ _ H).
Qed.

Theorem digest_json_parse_print : forall s d,
  digest_json_parse s = Ok d -> digest_json_parse (digest_json_print d) = Ok d.
Proof. intros s d H. apply digest_json_roundtrip. apply (digest_json_accepts_wf_only _ _ H). Qed.

(* ---- digest lists ---- *)

Lemma skip_ws_quote : forall t, skip_ws (quote :: t) = quote :: t.
Proof. reflexivity. Qed.

Lemma dl_join_starts : forall d l, exists t, dl_join (d :: l) = quote :: t.
Proof. intros d l. destruct l; cbn [dl_join]; unfold digest_json_print; cbn [app]; eexists; reflexivity. Qed.

Lemma dl_join_cons2 : forall d d' l, dl_join (d :: d' :: l) = digest_json_print d ++ 44 :: dl_join (d' :: l).
Proof. reflexivity. Qed.

Lemma dl_elems_step : forall f t,
  dl_elems (S f) (quote :: t) =
  match jstr t with
  | Some (raw, rest) =>
      match digest_parse raw with
      | Ok d =>
          match skip_ws rest with
          | k :: r =>
              if k =? 44 then match dl_elems f (skip_ws r) with Ok l => Ok (d :: l) | _ => Err end
              else if k =? 93 then if all_ws r then Ok [d] else Err
              else Err
          | [] => Err
          end
      | _ => Err
      end
  | None => Err
  end.
Proof. reflexivity. Qed.

Lemma dl_elems_roundtrip : forall l fuel tail,
  l <> [] -> forallb dg_wfb l = true -> (length l <= fuel)%nat -> all_ws tail = true ->
  dl_elems fuel (dl_join l ++ 93 :: tail) = Ok l.
Proof.
  induction l as [|d l IH]; intros fuel tail NE W F T; [congruence|].
  cbn [forallb] in W. apply andb_true_iff in W. destruct W as [Wd Wl].
  destruct fuel as [|f]; [cbn [length] in F; lia|].
  destruct l as [|d' l'].
  - cbn [dl_join digest_json_print app]. rewrite dl_elems_step.
    rewrite <- app_assoc. cbn [app]. rewrite jstr_plain by (apply dg_raw_plain; assumption).
    pose proof (digest_roundtrip _ Wd) as R. unfold digest_string in R. rewrite R.
    cbn [skip_ws]. change (is_ws 93) with false. cbv iota. change (93 =? 44) with false. cbv iota.
    rewrite N.eqb_refl, T. reflexivity.
  - rewrite dl_join_cons2. unfold digest_json_print at 1. cbn [app]. rewrite dl_elems_step.
    rewrite <- !app_assoc. cbn [app]. rewrite jstr_plain by (apply dg_raw_plain; assumption).
    pose proof (digest_roundtrip _ Wd) as R. unfold digest_string in R. rewrite R.
    cbn [skip_ws]. change (is_ws 44) with false. cbv iota. rewrite N.eqb_refl.
    destruct (dl_join_starts d' l') as [t E]. rewrite E. cbn [app]. rewrite skip_ws_quote.
    change (quote :: t ++ 93 :: tail) with ((quote :: t) ++ 93 :: tail). rewrite <- E.
    rewrite IH; [reflexivity|discriminate|assumption|cbn [length] in *; lia|assumption].
Qed.

Lemma dl_join_length : forall l, (length l <= length (dl_join l))%nat.
Proof.
  induction l as [|d l IH]; [cbn; lia|].
  destruct l as [|d' l'].
  - cbn [dl_join digest_json_print length]. lia.
  - rewrite dl_join_cons2. rewrite app_length. cbn [length] in *. unfold digest_json_print. cbn [length]. lia.
Qed.

(* DigestList.Value then DigestList.Scan: nil stays nil, empty stays empty, order and elements kept *)
Theorem digestlist_roundtrip : forall l,
  match l with Some l' => forallb dg_wfb l' = true | None => True end ->
  dl_parse (dl_print l) = Ok l.
Proof.
  intros [l|] W; [|reflexivity].
  destruct l as [|d l]; [reflexivity|].
  unfold dl_print, dl_parse. cbn [skip_ws]. change (is_ws 91) with false. cbv iota.
  change (91 =? 91) with true. cbv iota.
  destruct (dl_join_starts d l) as [t E]. rewrite E. cbn [app]. rewrite skip_ws_quote.
  change (quote =? 93) with false. cbv iota.
  change (quote :: t ++ [93]) with ((quote :: t) ++ 93 :: []). rewrite <- E.
  rewrite dl_elems_roundtrip; [reflexivity|discriminate|assumption| |reflexivity].
  cbn [length]. rewrite app_length. pose proof (dl_join_length (d :: l)). cbn [length] in *. lia.
Qed.

Lemma dl_elems_wf : forall fuel s l, dl_elems fuel s = Ok l -> forallb dg_wfb l = true /\ l <> [].
Proof.
  induction fuel as [|f IH]; intros s l H; [discriminate|].
  destruct s as [|c t]; [discriminate|].
  cbn [dl_elems] in H. destruct (c =? quote); [|discriminate].
  destruct (jstr t) as [[raw rest]|]; [|discriminate].
  destruct (digest_parse raw) as [d| |] eqn:D; try discriminate.
  apply digest_parse_wf in D. destruct D as [Wd _].
  destruct (skip_ws rest) as [|k r]; [discriminate|].
  destruct (k =? 44).
  - destruct (dl_elems f (skip_ws r)) as [l'| |] eqn:R; try discriminate.
    inversion H; subst. apply IH in R. destruct R as [Wl _]. cbn [forallb]. rewrite Wd, Wl.
    split; [reflexivity|discriminate].
  - destruct (k =? 93); [|discriminate]. destruct (all_ws r); [|discriminate].
    inversion H; subst. cbn [forallb]. rewrite Wd. split; [reflexivity|discriminate].
Qed.

(* whatever JSON spelling is accepted, every element is a well-formed digest *)
Theorem digestlist_accepts_wf_only : forall s l, dl_parse s = Ok l ->
  match l with Some l' => forallb dg_wfb l' = true | None => True end.
Proof.
  intros s l. unfold dl_parse. destruct (skip_ws s) as [|c t]; [discriminate|].
  destruct (c =? 91).
  - destruct (skip_ws t) as [|k r]; [discriminate|]. destruct (k =? 93).
    + destruct (all_ws r); [|discriminate]. intro H. inversion H. reflexivity.
    + destruct (dl_elems (length s) (k :: r)) as [l'| |] eqn:R; try discriminate.
      intro H. inversion H; subst. apply (dl_elems_wf _ _ _ R).
  - destruct (c =? 110); [|discriminate].
    destruct (leqb (firstn 3 t) [117; 108; 108]); [|discriminate].
    destruct (all_ws (skipn 3 t)); [|discriminate].
    intro H. inversion H. exact I.
Qed.

Theorem digestlist_parse_print : forall s l, dl_parse s = Ok l -> dl_parse (dl_print l) = Ok l.
Proof. intros s l H. apply digestlist_roundtrip. apply (digestlist_accepts_wf_only _ _ H). Qed.
