(* C14 — proofs, part 2: the handshake of the patched code; the theorems over all histories of handshakes,
   messages and hang-ups: never a panic, every allocation bounded, every index / file access inside the torrent. *)
From Coq Require Import List ZArith Bool Lia.
From K.Model Require Import C14.
From K.Proof Require Import C14.
Import ListNotations.
Local Open Scope Z_scope.

Lemma length_bits_of_word : forall w, length (bits_of_word w) = 64%nat.
Proof. intros. unfold bits_of_word. rewrite map_length. reflexivity. Qed.

Lemma length_bits_of_words : forall ws, length (bits_of_words ws) = (64 * length ws)%nat.
Proof.
  induction ws as [|w ws IH]; [reflexivity|].
  unfold bits_of_words in *. cbn [flat_map]. rewrite app_length, length_bits_of_word, IH. simpl length. lia.
Qed.

Lemma zlen_pad_to : forall bs n, zlen bs <= n -> zlen (pad_to bs n) = n.
Proof. intros bs n H. unfold pad_to. rewrite zlen_app, zlen_repeat. rewrite Z2Nat.id; lia. Qed.

Definition AllocsBelow (sz : Z) (es : list eff) : Prop := Forall (fun e => exists n, e = EAlloc n /\ n < sz) es.

Lemma max_msg_val : max_msg = 32768.
Proof. reflexivity. Qed.

(* the patched unmarshalBitfield: never panics; allocates less than the frame it arrived in; the result has
   exactly the words its bit count needs *)
Lemma parse_bf_fixed : forall r sz, rawbf_fits sz r = true -> sz <= max_msg ->
  match parse_bf gfixed r with
  | BPanic => False
  | BReject es => AllocsBelow sz es
  | BOk es b => AllocsBelow sz es /\ zlen (bbits b) = 64 * ((blen b + 63) / 64)
  end.
Proof.
  intros [[[L ws] db]|] sz Hf Hsz; [|simpl; constructor].
  unfold parse_bf. cbn [g_bfprefix gfixed andb].
  unfold rawbf_fits in Hf. rewrite !andb_true_iff, !Z.leb_le in Hf. destruct Hf as [[HL0 Hd0] Hd1].
  rewrite max_msg_val in Hsz.
  destruct (8 * db <? L) eqn:EL; [constructor|]. apply Z.ltb_ge in EL.
  assert (Hw : words_needed L = (L + 63) / 64).
  { unfold words_needed. replace (two64 - 64 <? L) with false; [reflexivity|].
    symmetry. apply Z.ltb_ge. unfold two64. lia. }
  rewrite Hw. set (nw := (L + 63) / 64).
  assert (Hnw : 8 * nw <= db + 7).
  { assert (nw <= (8 * db + 63) / 64) by (apply Z.div_le_mono; lia).
    assert (64 * ((8 * db + 63) / 64) <= 8 * db + 63) by (apply Z.mul_div_le; lia). lia. }
  assert (HA : AllocsBelow sz [EAlloc (8 * nw); EAlloc (8 * nw)]).
  { repeat constructor; exists (8 * nw); split; auto; lia. }
  destruct (max_alloc <? 8 * nw); [constructor|].
  destruct (nw =? 0) eqn:E0.
  - apply Z.eqb_eq in E0. split; [repeat constructor; exists 0; split; auto; lia|]. cbn [bbits blen]. fold nw. rewrite E0. reflexivity.
  - destruct (db <? 8 * nw) eqn:Ed; [exact HA|]. split; [exact HA|]. cbn [bbits blen]. fold nw.
    apply zlen_pad_to. unfold zlen. rewrite length_bits_of_words.
    assert (length (firstn (Z.to_nat nw) ws) <= Z.to_nat nw)%nat by apply firstn_le_length.
    apply Z.eqb_neq in E0. apply Z.ltb_ge in Ed.
    assert (0 <= nw) by (apply Z.div_pos; lia). lia.
Qed.

Lemma AllocsBelow_app : forall sz a b, AllocsBelow sz a -> AllocsBelow sz b -> AllocsBelow sz (a ++ b).
Proof. intros; unfold AllocsBelow in *; apply Forall_app; auto. Qed.

Lemma parse_rbs_fixed : forall rs sz es, forallb (fun '(_, r) => rawbf_fits sz r) rs = true -> sz <= max_msg ->
  AllocsBelow sz es ->
  exists es' ok, parse_rbs gfixed rs es = Some (es', ok) /\ AllocsBelow sz es'.
Proof.
  induction rs as [|[kok r] rs IH]; intros sz es Hf Hsz Hes; simpl.
  - eauto.
  - simpl in Hf. apply andb_true_iff in Hf. destruct Hf as [Hf1 Hf2].
    destruct kok; simpl; [|eauto].
    pose proof (parse_bf_fixed r sz Hf1 Hsz) as Hp. destruct (parse_bf gfixed r) as [|es'|es' b].
    + contradiction.
    + do 2 eexists; split; [reflexivity|]. now apply AllocsBelow_app.
    + apply IH; auto. apply AllocsBelow_app; tauto.
Qed.

Section WithTorrent.
Variable t : torrent.
Hypothesis WF : wf_torrent t = true.

Lemma allocs_ok : forall sz es, sz <= max_msg -> AllocsBelow sz es -> EffsOk t es.
Proof.
  intros sz es Hsz H. unfold AllocsBelow, EffsOk in *. eapply Forall_impl; [|exact H].
  intros e [n [-> Hn]]. simpl. apply Z.leb_le. unfold alloc_bound. lia.
Qed.

(* dispatcher.go addPeer with the size guard *)
Lemma add_peer_good : forall s q b dup es, Inv t s -> EffsOk t es ->
  zlen (bbits b) = 64 * ((blen b + 63) / 64) ->
  match add_peer gfixed t s q b dup es with
  | HPanic => False
  | HReject _ es' => es' = es
  | HAccept a => Good t a
  end.
Proof.
  intros s q b dup es HI HE Hlen. unfold add_peer. simpl.
  destruct ((blen b =? t_n t) && forallb (fun i => i <? t_n t) (set_idxs b)) eqn:Hg; simpl; [|reflexivity].
  destruct dup; [reflexivity|]. destruct (find_peer (d_peers s) q); [reflexivity|].
  apply andb_true_iff in Hg. destruct Hg as [Hg1 Hg2]. apply Z.eqb_eq in Hg1.
  assert (Hc : clean (t_n t) (mkb (blen b) (bbits b)) = true).
  { apply clean_spec. simpl. rewrite <- Hg1 at 2. repeat split; auto.
    intros i Hi. rewrite forallb_forall in Hg2. specialize (Hg2 i Hi). now apply Z.ltb_lt in Hg2. }
  match goal with |- context [cnt_add_all ?x _ _] => assert (G1 : Good t x) end.
  { destruct HI as [H1 [H2 H3]]. repeat split; simpl; auto. apply Forall_app; split; auto. }
  destruct (cnt_add_all_good t (set_idxs b) _ 1 G1) as [a2 [E2 [G2 _]]].
  { intros i Hi. apply (clean_idx _ _ _ Hc). exact Hi. }
  rewrite E2. now apply request_more_good.
Qed.

Lemma handshake_good : forall s q h, Inv t s -> wf_hs h = true ->
  match handshake gfixed t s q h with
  | HPanic => False
  | HReject _ es => EffsOk t es
  | HAccept a => Good t a
  end.
Proof.
  intros s q h HI Hwf. unfold handshake.
  destruct (max_msg <? h_size h) eqn:Es; [constructor|]. apply Z.ltb_ge in Es.
  assert (A0 : AllocsBelow (h_size h + 1) [EAlloc (h_size h)]) by (repeat constructor; eexists; split; eauto; lia).
  assert (E0 : EffsOk t [EAlloc (h_size h)]).
  { repeat constructor. simpl. apply Z.leb_le. unfold alloc_bound. lia. }
  destruct (h_ok h); simpl; [|exact E0].
  destruct ((h_ty h =? 0) && h_body h); simpl; [|exact E0].
  destruct (h_peer h && h_hash h && h_name h); simpl; [|exact E0].
  unfold wf_hs in Hwf. apply andb_true_iff in Hwf. destruct Hwf as [Hw1 Hw2].
  pose proof (parse_bf_fixed (h_bf h) (h_size h) Hw1 Es) as Hp.
  assert (Up : forall es, AllocsBelow (h_size h) es -> AllocsBelow (h_size h + 1) es).
  { intros es H. eapply Forall_impl; [|exact H]. intros e [n [-> Hn]]. eexists; split; eauto; lia. }
  destruct (parse_bf gfixed (h_bf h)) as [|es'|es' b]; [contradiction| |].
  - change (EffsOk t ([EAlloc (h_size h)] ++ es')).
    apply Forall_app; split; auto. eapply allocs_ok; [|exact Hp]; auto.
  - destruct Hp as [Hp1 Hp2].
    assert (E1 : EffsOk t ([EAlloc (h_size h)] ++ es')).
    { apply Forall_app; split; auto. eapply allocs_ok; [|exact Hp1]; auto. }
    (* remote bitfields: the accumulated effects are those so far plus allocations below the frame size *)
    assert (R : forall rs es, forallb (fun '(_, r) => rawbf_fits (h_size h) r) rs = true -> EffsOk t es ->
                exists es2 ok, parse_rbs gfixed rs es = Some (es2, ok) /\ EffsOk t es2).
    { induction rs as [|[kok r] rs IH]; intros es Hf He; simpl; [eauto|].
      simpl in Hf. apply andb_true_iff in Hf. destruct Hf as [Hf1 Hf2]. destruct kok; simpl; [|eauto].
      pose proof (parse_bf_fixed r (h_size h) Hf1 Es) as Hq. destruct (parse_bf gfixed r) as [|e2|e2 b2]; [contradiction| |].
      - do 2 eexists; split; [reflexivity|]. apply Forall_app; split; auto. eapply allocs_ok; [|exact Hq]; auto.
      - apply IH; auto. apply Forall_app; split; auto. eapply allocs_ok; [|apply Hq]; auto. }
    destruct (R (h_rb h) _ Hw2 E1) as [es2 [ok [X2 E2]]]. cbn [app] in X2. rewrite X2.
    destruct ok; [|exact E2]. destruct (h_known h); simpl; [|exact E2].
    pose proof (add_peer_good s q b (h_dup h) es2 HI E2 Hp2) as Ha.
    destruct (add_peer gfixed t s q b (h_dup h) es2); auto. now subst.
Qed.

(* ------------------------------------------------------------------ histories *)
Lemma apply_event_good : forall s e, Inv t s -> wf_event e = true ->
  exists s' es, apply_event gfixed t s e = Some (s', es) /\ Inv t s' /\ EffsOk t es.
Proof.
  intros s [q h|q m|q] HI Hwf; simpl.
  - pose proof (handshake_good s q h HI Hwf) as H. destruct (handshake gfixed t s q h) as [|st es|a].
    + contradiction.
    + eauto.
    + destruct H; eauto.
  - destruct (step_good t WF s q m HI) as [a [E [G1 G2]]]. rewrite E. eauto.
  - destruct (hangup_good t s q HI) as [a [E [G1 G2]]]. rewrite E. eauto.
Qed.

Theorem run_events_good : forall evs s, Inv t s -> forallb wf_event evs = true ->
  exists s' es, run_events gfixed t s evs = Some (s', es) /\ Inv t s' /\ EffsOk t es.
Proof.
  induction evs as [|e evs IH]; intros s HI Hwf; simpl.
  - do 2 eexists; split; [reflexivity|]. split; auto. constructor.
  - simpl in Hwf. apply andb_true_iff in Hwf. destruct Hwf as [Hw1 Hw2].
    destruct (apply_event_good s e HI Hw1) as [s1 [es1 [E1 [I1 O1]]]]. rewrite E1.
    destruct (IH s1 I1 Hw2) as [s2 [es2 [E2 [I2 O2]]]]. rewrite E2.
    do 2 eexists; split; [reflexivity|]. split; auto. apply Forall_app; split; auto.
Qed.

End WithTorrent.

(* ------------------------------------------------------------------ the statements used by Properties/C14.v *)
Lemma init_inv : forall t have, wf_torrent t = true -> zlen have = t_n t -> Inv t (init t have).
Proof.
  intros t have WF Hl. unfold init. repeat split; simpl; auto.
  rewrite zlen_repeat. destruct (wf_facts t WF). rewrite Z2Nat.id; lia.
Qed.

(* no history of handshakes, messages and hang-ups, from any peers, with any field values, makes the peer panic *)
Theorem total : forall t s evs, wf_torrent t = true -> inv t s = true -> forallb wf_event evs = true ->
  run_events gfixed t s evs <> None.
Proof.
  intros t s evs WF HI Hw. apply inv_iff in HI.
  destruct (run_events_good t WF evs s HI Hw) as [s' [es [E _]]]. congruence.
Qed.

Theorem inv_preserved : forall t s evs s' es, wf_torrent t = true -> inv t s = true -> forallb wf_event evs = true ->
  run_events gfixed t s evs = Some (s', es) -> inv t s' = true.
Proof.
  intros t s evs s' es WF HI Hw E. apply inv_iff in HI.
  destruct (run_events_good t WF evs s HI Hw) as [s2 [es2 [E2 [I2 _]]]]. apply inv_iff. congruence.
Qed.

Theorem effects_ok : forall t s evs s' es e, wf_torrent t = true -> inv t s = true -> forallb wf_event evs = true ->
  run_events gfixed t s evs = Some (s', es) -> In e es -> eff_ok t e = true.
Proof.
  intros t s evs s' es e WF HI Hw E Hin. apply inv_iff in HI.
  destruct (run_events_good t WF evs s HI Hw) as [s2 [es2 [E2 [_ O2]]]].
  assert (es2 = es) by congruence. subst. unfold EffsOk in O2. rewrite Forall_forall in O2. auto.
Qed.

(* every allocation whose size comes from the wire is bounded by max(maxMessageSize, piece length) *)
Theorem alloc_bounded : forall t s evs s' es n, wf_torrent t = true -> inv t s = true -> forallb wf_event evs = true ->
  run_events gfixed t s evs = Some (s', es) -> In (EAlloc n) es -> n <= Z.max max_msg (t_p t).
Proof.
  intros t s evs s' es n WF HI Hw E Hin. pose proof (effects_ok t s evs s' es _ WF HI Hw E Hin) as H.
  simpl in H. now apply Z.leb_le in H.
Qed.

(* every piece-table, counter and bitfield index lies inside the torrent *)
Theorem index_in_bounds : forall t s evs s' es i, wf_torrent t = true -> inv t s = true -> forallb wf_event evs = true ->
  run_events gfixed t s evs = Some (s', es) -> In (EPiece i) es \/ In (ECounter i) es \/ In (EBit i) es ->
  0 <= i < t_n t.
Proof.
  intros t s evs s' es i WF HI Hw E Hin. apply in_range_iff.
  destruct Hin as [H|[H|H]]; apply (effects_ok t s evs s' es _ WF HI Hw E H).
Qed.

(* every read and write of the blob file lies inside the blob *)
Theorem file_in_bounds : forall t s evs s' es off len, wf_torrent t = true -> inv t s = true -> forallb wf_event evs = true ->
  run_events gfixed t s evs = Some (s', es) -> In (EFileRd off len) es \/ In (EFileWr off len) es ->
  0 <= off /\ 0 <= len /\ off + len <= t_len t.
Proof.
  intros t s evs s' es off len WF HI Hw E Hin.
  assert (H : (0 <=? off) && (0 <=? len) && (off + len <=? t_len t) = true).
  { destruct Hin as [H|H]; apply (effects_ok t s evs s' es _ WF HI Hw E H). }
  rewrite !andb_true_iff, !Z.leb_le in H. tauto.
Qed.

(* everything the peer sends names a piece of the torrent with that piece's length *)
Theorem sends_in_bounds : forall t s evs s' es q r, wf_torrent t = true -> inv t s = true -> forallb wf_event evs = true ->
  run_events gfixed t s evs = Some (s', es) -> In (ESend q r) es -> reply_ok t r = true.
Proof.
  intros t s evs s' es q r WF HI Hw E Hin. apply (effects_ok t s evs s' es _ WF HI Hw E Hin).
Qed.

Lemma init_inv_b : forall t have, wf_torrent t = true -> zlen have = t_n t -> inv t (init t have) = true.
Proof. intros. apply inv_iff. now apply init_inv. Qed.
