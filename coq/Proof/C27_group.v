(* C27: the regions that run under one group's g.mu keep peerList and peerMap in agreement
   (the double index, local.go:49-50) and never drop an entry whose expiry lies ahead. *)
From Coq Require Import List NArith ZArith Bool Arith Lia Permutation.
From K.Model Require Import C27.
From K.Proof Require Import C27_base.
Import ListNotations.

Definition eid (ents : list entry) (p : nat) : N := p_id (e_peer (nth p ents dummy_entry)).
Definition idof (G : group) (p : nat) : N := eid (g_ents G) p.

(* peerList has no pointer twice, peerMap no key twice, and peerMap maps id to p exactly when
   p is in peerList and the entry p points to carries that id *)
Definition idx_ok (ents : list entry) (l : list nat) (m : list (N * nat)) : Prop :=
  NoDup l /\ NoDup (map fst m) /\ forall i p, In (i, p) m <-> In p l /\ eid ents p = i.

Record gwf (G : group) : Prop := mk_gwf {
  w_idx : idx_ok (g_ents G) (g_list G) (g_map G);
  w_ptr : forall p, In p (g_list G) -> p < length (g_ents G);
  w_last : forall p, In p (g_list G) -> (e_exp (entry_at G p) <= g_last G)%N
}.

Lemma idx_ids_inj : forall ents l m p q, idx_ok ents l m ->
  In p l -> In q l -> eid ents p = eid ents q -> p = q.
Proof.
  intros ents l m p q (ND & NK & HM) Hp Hq E.
  assert (A : In (eid ents p, p) m) by (apply HM; auto).
  assert (B : In (eid ents p, q) m) by (apply HM; auto).
  eapply nodup_keys_inj; eauto.
Qed.

Lemma idx_ids_nodup : forall ents l m, idx_ok ents l m -> NoDup (map (eid ents) l).
Proof.
  intros ents l m H. pose proof H as (ND & _ & _).
  assert (INJ : forall p q, In p l -> In q l -> eid ents p = eid ents q -> p = q)
    by (intros; eapply idx_ids_inj; eauto).
  clear H. induction l as [|a t IH]; cbn; [constructor|].
  inversion ND as [|? ? Hn ND']; subst. constructor.
  - intros Hin. apply in_map_iff in Hin as [q [E Hq]].
    assert (q = a) by (apply INJ; cbn; auto). subst. tauto.
  - apply IH; auto. intros; apply INJ; cbn; auto.
Qed.

Lemma nodup_snd {A B} : forall (m : list (A * B)),
  NoDup (map fst m) -> (forall i j p, In (i, p) m -> In (j, p) m -> i = j) -> NoDup (map snd m).
Proof.
  induction m as [|[i p] t IH]; cbn; intros NK H; [constructor|].
  inversion NK as [|? ? Hn NK']; subst. constructor.
  - intros Hin. apply in_map_iff in Hin as [[j q] [E Hq]]. cbn in E; subst q.
    assert (j = i) by (apply (H j i p); auto). subst.
    apply Hn. now apply (in_map fst) in Hq.
  - apply IH; auto. intros; eapply H; eauto.
Qed.

Lemma idx_length : forall ents l m, idx_ok ents l m -> length m = length l.
Proof.
  intros ents l m (ND & NK & HM).
  assert (P : Permutation (map snd m) l).
  { apply NoDup_Permutation; auto.
    - apply nodup_snd; auto. intros i j p Hi Hj. apply HM in Hi. apply HM in Hj.
      destruct Hi as [_ Hi], Hj as [_ Hj]. congruence.
    - intros p. rewrite in_map_iff. split.
      + intros [[i q] [E H]]. cbn in E; subst. apply HM in H. tauto.
      + intros H. exists (eid ents p, p). split; auto. apply HM. auto. }
  rewrite <- (Permutation_length P). now rewrite map_length.
Qed.

(* ---------- update entry (local.go:123-137) ---------- *)

Lemma update_fields : forall nw t G pr,
  let G' := update_entry nw t G pr in
  g_hash G' = g_hash G /\ g_deleted G' = g_deleted G /\ g_deadlog G' = g_deadlog G /\ g_last G' = (nw + t)%N.
Proof. intros. subst G'. unfold update_entry. destruct (assoc (p_id pr) (g_map G)); cbn; auto. Qed.

Lemma update_char : forall nw t G pr, gwf G ->
  let G' := update_entry nw t G pr in
  exists ptr,
    In ptr (g_list G') /\ entry_at G' ptr = mkent pr (nw + t) /\
    (forall q, In q (g_list G) -> In q (g_list G')) /\
    (forall q, In q (g_list G') -> q <> ptr ->
       In q (g_list G) /\ entry_at G' q = entry_at G q /\ idof G q <> p_id pr) /\
    (In ptr (g_list G) -> idof G ptr = p_id pr).
Proof.
  intros nw t G pr WF G'. subst G'. destruct WF as [IDX PTR LAST]. pose proof IDX as (ND & NK & HM).
  unfold update_entry. destruct (assoc (p_id pr) (g_map G)) as [ptr|] eqn:E.
  - apply assoc_in in E. apply HM in E. destruct E as [Hin Hid].
    exists ptr. cbn. unfold entry_at; cbn.
    split; [exact Hin|]. split; [apply nth_set_nth_eq; auto|]. split; [auto|]. split; [|auto].
    intros q Hq Hne. split; [exact Hq|]. split; [apply nth_set_nth_neq; auto|].
    intros Hq2. apply Hne. eapply idx_ids_inj; eauto. unfold idof in Hq2. congruence.
  - apply assoc_none in E.
    exists (length (g_ents G)). cbn. unfold entry_at; cbn.
    split; [apply in_or_app; right; cbn; auto|].
    split; [rewrite app_nth2, Nat.sub_diag; auto|].
    split; [intros q Hq; apply in_or_app; auto|].
    split.
    + intros q Hq Hne. apply in_app_or in Hq. destruct Hq as [Hq|[Hq|[]]]; [|congruence].
      split; [exact Hq|]. split; [apply app_nth1; auto|].
      intros Hq2. apply E. replace (p_id pr) with (fst (p_id pr, q)) by reflexivity.
      apply in_map. apply HM. auto.
    + intros H. apply PTR in H. lia.
Qed.

Lemma update_gwf : forall nw t G pr, gwf G -> (g_last G <= nw + t)%N -> gwf (update_entry nw t G pr).
Proof.
  intros nw t G pr WF LE. pose proof WF as [IDX PTR LAST]. pose proof IDX as (ND & NK & HM).
  unfold update_entry. destruct (assoc (p_id pr) (g_map G)) as [ptr|] eqn:E.
  - apply assoc_in in E. apply HM in E. destruct E as [Hin Hid].
    assert (EID : forall q, eid (set_nth ptr (mkent pr (nw + t)) (g_ents G)) q = eid (g_ents G) q).
    { intros q. unfold eid. destruct (Nat.eq_dec ptr q) as [->|Hne].
      - rewrite nth_set_nth_eq by auto. cbn. symmetry. exact Hid.
      - rewrite nth_set_nth_neq by auto. reflexivity. }
    constructor; cbn.
    + split; [exact ND|]. split; [exact NK|]. intros i p. rewrite EID. apply HM.
    + intros p Hp. rewrite set_nth_length. auto.
    + intros p Hp. unfold entry_at; cbn. destruct (Nat.eq_dec ptr p) as [->|Hne].
      * rewrite nth_set_nth_eq by auto. cbn. lia.
      * rewrite nth_set_nth_neq by auto. specialize (LAST p Hp). unfold entry_at in LAST. lia.
  - apply assoc_none in E.
    assert (FRESH : ~ In (length (g_ents G)) (g_list G)) by (intros H; apply PTR in H; lia).
    assert (EID : forall q, q < length (g_ents G) ->
                  eid (g_ents G ++ [mkent pr (nw + t)]) q = eid (g_ents G) q).
    { intros q Hq. unfold eid. now rewrite app_nth1. }
    assert (EIDN : eid (g_ents G ++ [mkent pr (nw + t)]) (length (g_ents G)) = p_id pr).
    { unfold eid. rewrite app_nth2 by lia. rewrite Nat.sub_diag. reflexivity. }
    constructor; cbn.
    + split; [|split].
      * apply NoDup_snoc; auto.
      * constructor; auto.
      * intros i p. split.
        -- intros [H|H].
           ++ inversion H; subst. split; [apply in_or_app; right; cbn; auto|exact EIDN].
           ++ apply HM in H. destruct H as [H1 H2]. split; [apply in_or_app; auto|]. rewrite EID; auto.
        -- intros [H1 H2]. apply in_app_or in H1. destruct H1 as [H1|[H1|[]]].
           ++ right. apply HM. rewrite EID in H2; auto.
           ++ subst p. left. rewrite EIDN in H2. congruence.
    + intros p Hp. rewrite app_length. cbn. apply in_app_or in Hp. destruct Hp as [Hp|[Hp|[]]]; [apply PTR in Hp|]; lia.
    + intros p Hp. unfold entry_at; cbn. apply in_app_or in Hp. destruct Hp as [Hp|[Hp|[]]].
      * rewrite app_nth1 by auto. specialize (LAST p Hp). unfold entry_at in LAST. lia.
      * subst p. rewrite app_nth2, Nat.sub_diag by auto. cbn. lia.
Qed.

(* ---------- remove with re-check (local.go:215-240) ---------- *)

Lemma remove_loop_spec : forall nw ents ex l m l' m',
  idx_ok ents l m -> remove_loop nw ents ex l m = (l', m') ->
  idx_ok ents l' m' /\ (forall p, In p l' -> In p l) /\
  (forall p, In p l -> ~ In p l' -> (e_exp (nth p ents dummy_entry) <= nw)%N).
Proof.
  intros nw ents ex. induction ex as [|i rest IH]; intros l m l' m' OK H; cbn in H.
  - inversion H; subst. split; [exact OK|]. split; [auto|]. intros p Hp Hn. tauto.
  - destruct (Nat.leb (length l) i) eqn:Eb; [eapply IH; eauto|].
    apply Nat.leb_gt in Eb.
    destruct (N.ltb nw (e_exp (nth (nth i l 0) ents dummy_entry))) eqn:Et; [eapply IH; eauto|].
    apply N.ltb_ge in Et.
    set (p0 := nth i l 0) in *.
    assert (Hp0 : In p0 l) by (apply nth_In; exact Eb).
    pose proof OK as (ND & NK & HM).
    destruct (swap_remove_spec i l Eb ND) as [ND1 HL1]. fold p0 in HL1.
    assert (OK1 : idx_ok ents (swap_remove i l) (adel (p_id (e_peer (nth p0 ents dummy_entry))) m)).
    { split; [exact ND1|]. split; [apply adel_keys_nodup; exact NK|].
      intros j q. rewrite in_adel, HM, HL1. fold (eid ents p0). split.
      - intros [[H1 H2] H3]. split; [|exact H2]. split; [exact H1|]. intros ->. congruence.
      - intros [[H1 H2] H3]. split; [auto|]. intros E. apply H2.
        eapply idx_ids_inj; eauto. congruence. }
    destruct (IH _ _ _ _ OK1 H) as (OK' & SUB & EXP).
    split; [exact OK'|]. split.
    + intros p Hp. apply SUB in Hp. apply HL1 in Hp. tauto.
    + intros p Hp Hn. destruct (Nat.eq_dec p p0) as [->|Hne]; [exact Et|].
      apply EXP; auto. apply HL1. auto.
Qed.

Lemma remove_fields : forall nw G ex,
  let G' := remove_expired nw G ex in
  g_hash G' = g_hash G /\ g_deleted G' = g_deleted G /\ g_deadlog G' = g_deadlog G /\
  g_last G' = g_last G /\ g_ents G' = g_ents G.
Proof.
  intros. subst G'. unfold remove_expired.
  destruct (remove_loop nw (g_ents G) (rev ex) (g_list G) (g_map G)); cbn; auto.
Qed.

Lemma remove_char : forall nw G ex, gwf G ->
  let G' := remove_expired nw G ex in
  gwf G' /\ (forall p, In p (g_list G') -> In p (g_list G)) /\
  (forall p, entry_at G' p = entry_at G p) /\
  (forall p, In p (g_list G) -> ~ In p (g_list G') -> (e_exp (entry_at G p) <= nw)%N).
Proof.
  intros nw G ex WF G'. subst G'. destruct WF as [IDX PTR LAST]. unfold remove_expired.
  destruct (remove_loop nw (g_ents G) (rev ex) (g_list G) (g_map G)) as [l' m'] eqn:E.
  destruct (remove_loop_spec _ _ _ _ _ _ _ IDX E) as (OK' & SUB & EXP).
  split; [|split; [exact SUB|split; [reflexivity|exact EXP]]].
  constructor; cbn; auto.
  intros p Hp. apply SUB in Hp. apply LAST in Hp. exact Hp.
Qed.

(* a scan marks exactly the positions whose entry is past its expiry (local.go:202-206);
   only needed to show that the recorded positions are harmless whatever they are *)
Lemma scan_from_bound : forall nw ents l i x, In x (scan_from nw ents l i) -> i <= x < i + length l.
Proof.
  intros nw ents l. induction l as [|p t IH]; intros i x H; cbn in *; [tauto|].
  destruct (N.ltb (e_exp (nth p ents dummy_entry)) nw).
  - destruct H as [H|H]; [lia|]. apply IH in H. lia.
  - apply IH in H. lia.
Qed.
