(* C27: the regions that run under one group's g.mu keep peerList and peerMap in agreement
   (the double index, local.go:49-50) and never drop an entry whose expiry lies ahead. *)
From Coq Require Import List NArith ZArith Bool Arith Lia Permutation.
From K.Model Require Import C27.
From K.Proof Require Import C27_base.
Import ListNotations.

Definition eid (ents : list entry) (p : nat) : N := p_id (e_peer (nth p ents dummy_entry)).
Definition idof (G : group) (p : nat) : N := eid (g_ents G) p.

(* peerList has no pointer twice, peerMap no key twice, and peerMap maps id to p exactly when
   p is in peerList and the entry p points to carries that id *)
Definition idx_ok (ents : list entry) (l : list nat) (m : list (N * nat)) : Prop :=
  NoDup l /\ NoDup (map fst m) /\ forall i p, In (i, p) m <-> In p l /\ eid ents p = i.

Record gwf (G : group) : Prop := mk_gwf {
  w_idx : idx_ok (g_ents G) (g_list G) (g_map G);
  w_ptr : forall p, In p (g_list G) -> p < length (g_ents G);
  w_last : forall p, In p (g_list G) -> (e_exp (entry_at G p) <= g_last G)%N
}.

Lemma idx_ids_inj : forall ents l m p q, idx_ok ents l m ->
  In p l -> In q l -> eid ents p = eid ents q -> p = q.
Proof.
  intros ents l m p q (ND & NK & HM) Hp Hq E.
  assert (A : In (eid ents p, p) m) by (apply HM; auto).
  assert (B : In (eid ents p, q) m) by (apply HM; auto).
  eapply nodup_keys_inj; eauto.
Qed.

Lemma idx_ids_nodup : forall ents l m, idx_ok ents l m -> NoDup (map (eid ents) l).
Proof.
  intros ents l m H. pose proof H as (ND & _ & _).
  assert (INJ : forall p q, In p l -> In q l -> eid ents p = eid ents q -> p = q)
    by (intros; eapply idx_ids_inj; eauto).
  clear H. induction l as [|a t IH]; cbn; [constructor|].
  inversion ND as [|? ? Hn ND']; subst. constructor.
  - intros Hin. apply in_map_iff in Hin as [q [E Hq]].
    assert (q = a) by (apply INJ; cbn; auto). subst. tauto.
  - apply IH; auto. intros; apply INJ; cbn; auto.
Qed.

Lemma nodup_snd {A B} : forall (m : list (A * B)),
  NoDup (map fst m) -> (forall i j p, In (i, p) m -> In (j, p) m -> i = j) -> NoDup (map snd m).
Proof.
  induction m as [|[i p] t IH]; cbn; intros NK H; [constructor|].
  inversion NK as [|? ? Hn NK']; subst. constructor.
  - intros Hin. apply in_map_iff in Hin as [[j q] [E Hq]]. cbn in E; subst q.
    assert (j = i) by (apply (H j i p); auto). subst.
    apply Hn. now apply (in_map fst) in Hq.
  - apply IH; auto. intros; eapply H; eauto.
Qed.

Lemma idx_length : forall ents l m, idx_ok ents l m -> length m = length l.
Proof.
  intros ents l m (ND & NK & HM).
  assert (P : Permutation (map snd m) l).
  { apply NoDup_Permutation; auto.
    - apply nodup_snd; auto. intros i j p Hi Hj. apply HM in Hi. apply HM in Hj.
      destruct Hi as [_ Hi], Hj as [_ Hj]. congruence.
    - intros p. rewrite in_map_iff. split.
      + intros [[i q] [E H]]. cbn in E; subst. apply HM in H. tauto.
      + intros H. exists (eid ents p, p). split; auto. apply HM. auto. }
  rewrite <- (Permutation_length P). now rewrite map_length.
Qed.

(* ---------- update entry (local.go:123-137) ---------- *)

Lemma update_fields : forall nw t G pr,
  let G' := update_entry nw t G pr in
  g_hash G' = g_hash G /\ g_deleted G' = g_deleted G /\ g_deadlog G' = g_deadlog G /\ g_last G' = (nw + t)%N.
Proof. intros. subst G'. unfold update_entry. destruct (assoc (p_id pr) (g_map G)); cbn; auto. Qed.

Lemma update_char : forall nw t G pr, gwf G ->
  let G' := update_entry nw t G pr in
  exists ptr,
    In ptr (g_list G') /\ entry_at G' ptr = mkent pr (nw + t) /\
    (forall q, In q (g_list G) -> In q (g_list G')) /\
    (forall q, In q (g_list G') -> q <> ptr ->
       In q (g_list G) /\ entry_at G' q = entry_at G q /\ idof G q <> p_id pr) /\
    (In ptr (g_list G) -> idof G ptr = p_id pr).
Proof.
  intros nw t G pr WF G'. subst G'. destruct WF as [IDX PTR LAST]. pose proof IDX as (ND & NK & HM).
  unfold update_entry. destruct (assoc (p_id pr) (g_map G)) as [ptr|] eqn:E.
  - apply assoc_in in E. apply HM in E. destruct E as [Hin Hid].
    exists ptr. cbn. unfold entry_at; cbn.
    split; [exact Hin|]. split; [apply nth_set_nth_eq; auto|]. split; [auto|]. split; [|auto].
    intros q Hq Hne. split; [exact Hq|]. split; [apply nth_set_nth_neq; auto|].
    intros Hq2. apply Hne. eapply idx_ids_inj; eauto. unfold idof in Hq2. congruence.
  - apply assoc_none in E.
    exists (length (g_ents G)). cbn. unfold entry_at; cbn.
    split; [apply in_or_app; right; cbn; auto|].
    split; [rewrite app_nth2, Nat.sub_diag; auto|].
    split; [intros q Hq; apply in_or_app; auto|].
    split.
    + intros q Hq Hne. apply in_app_or in Hq. destruct Hq as [Hq|[Hq|[]]]; [|congruence].
      split; [exact Hq|]. split; [apply app_nth1; auto|].
      intros Hq2. apply E. replace (p_id pr) with (fst (p_id pr, q)) by reflexivity.
      apply in_map. apply HM. auto.
    + intros H. apply PTR in H. lia.
Qed.

Lemma update_gwf : forall nw t G pr, gwf G -> (g_last G <= nw + t)%N -> gwf (update_entry nw t G pr).
Proof.
  intros nw t G pr WF LE. pose proof WF as [IDX PTR LAST]. pose proof IDX as (ND & NK & HM).
  unfold update_entry. destruct (assoc (p_id pr) (g_map G)) as [ptr|] eqn:E.
  - apply assoc_in in E. apply HM in E. destruct E as [Hin Hid].
    assert (EID : forall q, eid (set_nth ptr (mkent pr (nw + t)) (g_ents G)) q = eid (g_ents G) q).
    { intros q. unfold eid. destruct (Nat.eq_dec ptr q) as [->|Hne].
      - rewrite nth_set_nth_eq by auto. cbn. symmetry. exact Hid.
      - rewrite nth_set_nth_neq by auto. reflexivity. }
    constructor; cbn.
    + split; [exact ND|]. split; [exact NK|]. intros i p. rewrite EID. apply HM.
    + intros p Hp. rewrite set_nth_length. auto.
    + intros p Hp. unfold entry_at; cbn. destruct (Nat.eq_dec ptr p) as [->|Hne].
      * rewrite nth_set_nth_eq by auto. cbn. lia.
      * rewrite nth_set_nth_neq by auto. specialize (LAST p Hp). unfold entry_at in LAST. lia.
  - apply assoc_none in E.
    assert (FRESH : ~ In (length (g_ents G)) (g_list G)) by (intros H; apply PTR in H; lia).
    assert (EID : forall q, q < length (g_ents G) ->
                  eid (g_ents G ++ [mkent pr (nw + t)]) q = eid (g_ents G) q).
    { intros q Hq. unfold eid. now rewrite app_nth1. }
    assert (EIDN : eid (g_ents G ++ [mkent pr (nw + t)]) (length (g_ents G)) = p_id pr).
    { unfold eid. rewrite app_nth2 by lia. rewrite Nat.sub_diag. reflexivity. }
    constructor; cbn.
    + split; [|split].
      * apply NoDup_app; [exact ND|repeat constructor; cbn; tauto|].
        intros x Hx [Hx2|[]]. subst. tauto.
      * constructor; auto.
      * intros i p. split.
        -- intros [H|H].
           ++ inversion H; subst. split; [apply in_or_app; right; cbn; auto|exact EIDN].
           ++ apply HM in H. destruct H as [H1 H2]. split; [apply in_or_app; auto|]. rewrite EID; auto.
        -- intros [H1 H2]. apply in_app_or in H1. destruct H1 as [H1|[H1|[]]].
           ++ right. apply HM. rewrite EID in H2; auto.
           ++ subst p. left. rewrite EIDN in H2. congruence.
    + intros p Hp. rewrite app_length. cbn. apply in_app_or in Hp. destruct Hp as [Hp|[Hp|[]]]; [apply PTR in Hp|]; lia.
    + intros p Hp. unfold entry_at; cbn. apply in_app_or in Hp. destruct Hp as [Hp|[Hp|[]]].
      * rewrite app_nth1 by auto. specialize (LAST p Hp). unfold entry_at in LAST. lia.
      * subst p. rewrite app_nth2, Nat.sub_diag by auto. cbn. lia.
Qed.
