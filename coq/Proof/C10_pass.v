(* C10, part 2: what one cleanup scan does to every file, when the file map has room for all
   files (no LRU eviction can interfere): the TTL/TTI pass removes exactly the due files. *)
From Coq Require Import List NArith ZArith Bool Lia.
From K.Gen Require Import C10_consts.
From K.Model Require Import C10.
From K.Proof Require Import C10_base.
Import ListNotations.
Local Open Scope Z_scope.

Definition roomy_s (s : st) : Prop := cap s <= 0 \/ Z.of_nat (length (dk s)) <= cap s.

Lemma roomy_iff : forall s, roomy (cap s) (dk s) = true <-> roomy_s s.
Proof.
  intros. unfold roomy, roomy_s. rewrite orb_true_iff, !Z.leb_le. tauto.
Qed.

Lemma evict_noop : forall s, cap s <= 0 \/ Z.of_nat (length (fm s)) <= cap s -> evict s = s.
Proof.
  intros s H. unfold evict.
  destruct ((0 <? cap s) && (cap s <? Z.of_nat (length (fm s)))) eqn:E; auto.
  apply andb_true_iff in E. destruct E as [E1 E2]. apply Z.ltb_lt in E1, E2. lia.
Qed.

Lemma keys_length {V} : forall l : list (N * V), length (keys l) = length l.
Proof. intros. unfold keys. apply map_length. Qed.

Lemma fm_le_dk : forall s, wf s -> (length (fm s) <= length (dk s))%nat.
Proof.
  intros s (A & B & C). rewrite <- (keys_length (fm s)), <- (keys_length (dk s)).
  apply NoDup_incl_length; auto.
Qed.

Lemma seen_persisted : forall b nw f, is_persisted (seen b nw f) = is_persisted f.
Proof. intros. unfold seen. destruct (f_lat f); auto. destruct b; auto. Qed.

Lemma seen_true : forall nw f, seen true nw f = f.
Proof. intros. unfold seen. destruct (f_lat f); auto. Qed.

(* effect of a peek (GetFileStat / GetFileMetadata) when nothing can be evicted *)
Record peek_spec (n : N) (s s1 : st) (ok : bool) : Prop := {
  ps_ok : ok = amem n (dk s);
  ps_dk : forall m, aget m (dk s1) =
                    if N.eqb m n then option_map (seen (amem n (fm s)) (now s)) (aget n (dk s))
                    else aget m (dk s);
  ps_fm : forall m, m <> n -> amem m (fm s1) = amem m (fm s);
  ps_fmn : amem n (fm s1) = amem n (dk s);
  ps_now : now s1 = now s;
  ps_cap : cap s1 = cap s;
  ps_len : length (dk s1) = length (dk s) }.

Lemma amem_front : forall n m fmm, amem m (front n fmm) = amem m fmm.
Proof.
  intros. unfold front. destruct (aget n fmm) eqn:E; auto. unfold amem.
  destruct (N.eq_dec m n) as [->|Ne].
  - cbn. rewrite N.eqb_refl, E. reflexivity.
  - cbn. destruct (N.eqb m n) eqn:E2; [apply N.eqb_eq in E2; contradiction|].
    rewrite aget_arem_neq; auto.
Qed.

Lemma peek_roomy : forall n s, wf s -> roomy_s s ->
  peek_spec n s (fst (peek n s)) (snd (peek n s)).
Proof.
  intros n s W R. pose proof W as (A & B & C). unfold peek, reload.
  destruct (amem n (fm s)) eqn:Em.
  - (* already in the map *)
    assert (Hd : amem n (dk s) = true).
    { apply amem_In. apply C. apply amem_In. exact Em. }
    cbn. constructor; cbn; auto.
    + intros m. destruct (N.eqb m n) eqn:E; auto. apply N.eqb_eq in E. subst m.
      rewrite Em. destruct (aget n (dk s)); cbn; auto. rewrite seen_true. reflexivity.
    + intros m _. apply amem_front.
    + rewrite amem_front. congruence.
  - destruct (aget n (dk s)) as [f|] eqn:Ed.
    + (* reloaded from disk *)
      assert (Hin : In n (keys (dk s))) by (apply In_keys_aget; congruence).
      assert (Hnm : ~ In n (keys (fm s))) by (apply amem_false_In; exact Em).
      assert (Hlen : (S (length (fm s)) <= length (dk s))%nat).
      { rewrite <- (keys_length (fm s)), <- (keys_length (dk s)).
        change (S (length (keys (fm s)))) with (length (n :: keys (fm s))).
        apply NoDup_incl_length; [constructor; auto|].
        intros x [<-|Hx]; auto. }
      set (f1 := seen false (now s) f).
      assert (Hf1 : (let '(f1, t) := match f_lat f with
                                     | Some l => (f, l * NS)
                                     | None => (set_lat f (Some (lat_secs (now s))), now s)
                                     end in
                     (evict (mkst (aput n f1 (dk s)) ((n, t) :: fm s) (now s) (cap s)), true))
                    = (mkst (aput n f1 (dk s))
                            ((n, match f_lat f with Some l => l * NS | None => now s end) :: fm s)
                            (now s) (cap s), true)).
      { unfold f1, seen. destruct (f_lat f); rewrite evict_noop; auto; cbn [cap fm dk length];
          (destruct R as [R|R]; [left; auto | right; lia]). }
      rewrite Hf1. cbn [fst snd dk fm now cap].
      constructor; cbn [fst snd dk fm now cap]; auto.
      * unfold amem. rewrite Ed. reflexivity.
      * intros m. rewrite aget_aput. destruct (N.eqb m n); auto.
        rewrite Em, Ed. reflexivity.
      * intros m Ne. rewrite amem_front. unfold amem. cbn.
        destruct (N.eqb m n) eqn:E; auto. apply N.eqb_eq in E. contradiction.
      * rewrite amem_front. unfold amem. cbn. rewrite N.eqb_refl, Ed. reflexivity.
      * apply length_aput_in; auto.
    + (* not on disk *)
      cbn. constructor; cbn; auto.
      * unfold amem. rewrite Ed. reflexivity.
      * intros m. destruct (N.eqb m n) eqn:E; auto. apply N.eqb_eq in E. subst. rewrite Ed. reflexivity.
      * rewrite Em. unfold amem. rewrite Ed. reflexivity.
Qed.

(* effect of DeleteFile on a file that is in the map *)
Lemma delete_file_inmap : forall n s,
  amem n (fm s) = true ->
  delete_file n s =
  (mkst (if persisted n (dk s) then dk s else arem n (dk s)) (arem n (fm s)) (now s) (cap s),
   if persisted n (dk s) then RPersisted else ROk).
Proof.
  intros n s H. unfold delete_file, reload. rewrite H. unfold entry_delete.
  destruct (persisted n (dk s)); reflexivity.
Qed.

Lemma roomy_shrink : forall s s', roomy_s s -> cap s' = cap s ->
  (length (dk s') <= length (dk s))%nat -> roomy_s s'.
Proof. unfold roomy_s. intros s s' [H|H] Hc Hl; rewrite Hc; [left; auto | right; lia]. Qed.

Lemma amem_arem_neq {V} : forall m n (l : list (N * V)), m <> n -> amem m (arem n l) = amem m l.
Proof. intros. unfold amem. rewrite aget_arem_neq; auto. Qed.

Lemma memb_cons_neq : forall m n t, m <> n -> memb m (n :: t) = memb m t.
Proof.
  intros. unfold memb. cbn. destruct (N.eqb m n) eqn:E; auto. apply N.eqb_eq in E. contradiction.
Qed.

Lemma memb_cons_eq : forall n t, memb n (n :: t) = true.
Proof. intros. unfold memb. cbn. rewrite N.eqb_refl. reflexivity. Qed.

Theorem ttl_loop_exact : forall tti ttl used low scan scanned s,
  wf s -> roomy_s s -> NoDup scan ->
  let s' := fst (ttl_loop tti ttl false used low scan scanned s) in
  (forall m, aget m (dk s') = ttl_after tti ttl scan s m) /\ now s' = now s /\ cap s' = cap s.
Proof.
  intros tti ttl used low scan. induction scan as [|n t IH]; intros scanned s W R ND.
  - cbn. repeat split; auto. intros m. unfold ttl_after. destruct (aget m (dk s)); auto.
  - inversion ND as [|? ? Hnt NDt]; subst.
    cbn [ttl_loop]. pose proof (peek_roomy n s W R) as P. pose proof (peek_wf n s W) as W1.
    destruct (peek n s) as [s1 ok]. cbn [fst snd] in P, W1.
    assert (R1 : roomy_s s1).
    { eapply roomy_shrink; [exact R | apply (ps_cap _ _ _ _ P) | rewrite (ps_len _ _ _ _ P); lia]. }
    destruct (if ok then aget n (dk s1) else None) as [f1|] eqn:Ef.
    + (* the file is there: f1 is what the scan sees *)
      assert (Hok : ok = true) by (destruct ok; [auto | discriminate]). subst ok.
      pose proof (ps_dk _ _ _ _ P n) as Hn. rewrite N.eqb_refl, Ef in Hn.
      destruct (aget n (dk s)) as [f|] eqn:Ed; [|discriminate]. cbn in Hn.
      injection Hn as Hf1.
      assert (Hinm : amem n (fm s1) = true).
      { rewrite (ps_fmn _ _ _ _ P). unfold amem. rewrite Ed. reflexivity. }
      replace (false && (to_u64 (used - to_u64 scanned) <=? low)) with false by reflexivity.
      rewrite andb_true_r.
      set (s2 := if ready tti ttl (now s1) f1 then fst (delete_file n s1) else s1).
      assert (W2 : wf s2) by (unfold s2; destruct (ready tti ttl (now s1) f1); auto; apply delete_file_wf; auto).
      assert (E2 : (forall m, m <> n -> aget m (dk s2) = aget m (dk s) /\ amem m (fm s2) = amem m (fm s))
                   /\ aget n (dk s2) = ttl_after tti ttl (n :: t) s n
                   /\ now s2 = now s /\ cap s2 = cap s /\ (length (dk s2) <= length (dk s))%nat).
      { unfold s2. destruct (ready tti ttl (now s1) f1) eqn:Er.
        - rewrite delete_file_inmap; auto. cbn [fst dk fm now cap].
          assert (Hp : persisted n (dk s1) = is_persisted f).
          { unfold persisted. rewrite Ef, Hf1. apply seen_persisted. }
          rewrite Hp. repeat split.
          + destruct (is_persisted f); [|rewrite aget_arem_neq; auto];
              rewrite (ps_dk _ _ _ _ P m); destruct (N.eqb m n) eqn:E; auto;
              apply N.eqb_eq in E; contradiction.
          + rewrite amem_arem_neq; auto. apply (ps_fm _ _ _ _ P); auto.
          + unfold ttl_after, ttl_due. rewrite Ed, memb_cons_eq.
            rewrite (ps_now _ _ _ _ P) in Er. rewrite <- Hf1. rewrite Er, andb_true_r.
            destruct (is_persisted f); cbn.
            * rewrite Ef. reflexivity.
            * apply aget_arem_eq.
          + apply (ps_now _ _ _ _ P).
          + apply (ps_cap _ _ _ _ P).
          + rewrite <- (ps_len _ _ _ _ P). destruct (is_persisted f); auto. apply length_arem_le.
        - repeat split.
          + rewrite (ps_dk _ _ _ _ P m). destruct (N.eqb m n) eqn:E; auto.
            apply N.eqb_eq in E. contradiction.
          + apply (ps_fm _ _ _ _ P); auto.
          + unfold ttl_after, ttl_due. rewrite Ed, memb_cons_eq.
            rewrite (ps_now _ _ _ _ P) in Er. rewrite <- Hf1. rewrite Er, andb_false_r.
            rewrite Ef. reflexivity.
          + apply (ps_now _ _ _ _ P).
          + apply (ps_cap _ _ _ _ P).
          + rewrite (ps_len _ _ _ _ P). lia. }
      destruct E2 as (Eo & En & Enow & Ecap & Elen).
      assert (R2 : roomy_s s2) by (apply (roomy_shrink s s2 R Ecap Elen)).
      specialize (IH (scanned + f_size f1) s2 W2 R2 NDt). cbn zeta in IH.
      destruct IH as (IHd & IHn & IHc). repeat split; try congruence.
      intros m. rewrite IHd. destruct (N.eq_dec m n) as [->|Ne].
      * unfold ttl_after at 1. destruct (memb n t) eqn:Emt; [apply memb_In in Emt; contradiction|].
        rewrite <- En. destruct (aget n (dk s2)); auto.
      * destruct (Eo m Ne) as [E1 E2]. unfold ttl_after. rewrite E1, E2, Enow, memb_cons_neq; auto.
    + (* the file is not there *)
      assert (Hnone : aget n (dk s) = None).
      { pose proof (ps_dk _ _ _ _ P n) as Hn. rewrite N.eqb_refl in Hn.
        pose proof (ps_ok _ _ _ _ P) as Hok. unfold amem in Hok.
        destruct (aget n (dk s)) as [f|] eqn:Ed; auto. subst ok. rewrite Hn in Ef. discriminate. }
      specialize (IH scanned s1 W1 R1 NDt). cbn zeta in IH. destruct IH as (IHd & IHn & IHc).
      repeat split.
      * intros m. rewrite IHd. unfold ttl_after.
        rewrite (ps_dk _ _ _ _ P m). destruct (N.eqb m n) eqn:E.
        -- apply N.eqb_eq in E. subst m. rewrite Hnone. reflexivity.
        -- apply N.eqb_neq in E. rewrite (ps_fm _ _ _ _ P m E), (ps_now _ _ _ _ P), memb_cons_neq; auto.
      * rewrite IHn. apply (ps_now _ _ _ _ P).
      * rewrite IHc. apply (ps_cap _ _ _ _ P).
Qed.

(* cleanup.go:263 with no lower threshold (the normal, periodic pass): exactly the scanned,
   unprotected files that are idle or expired disappear; the others only may get their missing
   LAT sidecar *)
Theorem ttl_pass_exact : forall tti ttl u scan s,
  wf s -> roomy_s s -> NoDup scan ->
  forall m, aget m (dk (ttl_pass tti ttl 0 u scan s)) = ttl_after tti ttl scan s m.
Proof.
  intros tti ttl u scan s W R ND m. unfold ttl_pass. cbn.
  apply (ttl_loop_exact tti ttl 0 0 scan 0 s W R ND).
Qed.
