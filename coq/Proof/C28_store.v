(* C28, part 2: time windows, the collapse of identities, the sampling loop. *)
From Coq Require Import List NArith ZArith Bool Lia.
From K.Model Require Import C28.
From K.Proof Require Import C28_codec.
Import ListNotations.
Local Open Scope Z_scope.

(* ---------- truncated division (Go's % on int64) ---------- *)
Lemma quot_spec W t : 1 <= W ->
  t = W * (t ÷ W) + Z.rem t W /\
  (0 <= t -> 0 <= Z.rem t W < W /\ 0 <= W * (t ÷ W)) /\
  (t <= 0 -> - W < Z.rem t W <= 0 /\ W * (t ÷ W) <= 0).
Proof.
  intros HW. split; [apply Z.quot_rem'|].
  pose proof (Z.rem_bound_abs t W ltac:(lia)) as Hb. split; intros Ht.
  - pose proof (Z.rem_nonneg t W ltac:(lia) Ht). pose proof (Z.quot_pos t W Ht ltac:(lia)).
    split; [lia|nia].
  - pose proof (Z.rem_nonpos t W ltac:(lia) Ht).
    assert (t ÷ W <= 0).
    { rewrite <- (Z.opp_involutive t), Z.quot_opp_l by lia.
      pose proof (Z.quot_pos (-t) W ltac:(lia) ltac:(lia)). lia. }
    split; [lia|nia].
Qed.
Lemma mul_small W x : 1 <= W -> W * x < W -> x <= 0.
Proof. intros. nia. Qed.
Lemma mul_small' W x : 1 <= W -> - W < W * x -> 0 <= x.
Proof. intros. nia. Qed.
Ltac qr W t HW := let E := fresh "E" in let P := fresh "P" in let N := fresh "N" in
  destruct (quot_spec W t HW) as (E & P & N).

Lemma quot_window W t0 t k :
  1 <= W -> 0 <= k -> t0 <= t -> t <= t0 + k * W -> 0 <= t ÷ W - t0 ÷ W <= k.
Proof.
  intros HW Hk H1 H2. qr W t HW. qr W t0 HW. split.
  - apply (mul_small' W); [lia|].
    destruct (Z.le_ge_cases 0 t0); destruct (Z.le_ge_cases 0 t); lia.
  - assert (t ÷ W - t0 ÷ W - k <= 0); [|lia]. apply (mul_small W); [lia|].
    destruct (Z.le_ge_cases 0 t0); destruct (Z.le_ge_cases 0 t); lia.
Qed.
Lemma quot_next W t : 1 <= W -> t < W * (t ÷ W + 1).
Proof. intros HW. qr W t HW. destruct (Z.le_ge_cases 0 t); lia. Qed.
Lemma quot_far W t0 t k :
  1 <= W -> 0 <= t0 -> t0 + k * W <= t -> 0 <= k -> k <= t ÷ W - t0 ÷ W.
Proof.
  intros HW H0 H1 Hk. qr W t HW. qr W t0 HW.
  assert (H : - W < W * (t ÷ W - t0 ÷ W - k)) by lia. apply (mul_small' W) in H; lia.
Qed.
Lemma quot_upper W t q0 m : 1 <= W -> t ÷ W - q0 < m -> t < W * (q0 + m).
Proof.
  intros HW H. pose proof (quot_next W t HW). assert (t ÷ W + 1 <= q0 + m) by lia. nia.
Qed.
Lemma quot_lower W t q0 m : 1 <= W -> 0 <= t -> m <= t ÷ W - q0 -> W * (q0 + m) <= t.
Proof. intros HW H0 H. qr W t HW. assert (q0 + m <= t ÷ W) by lia. nia. Qed.

(* ---------- windows ---------- *)
Lemma cfg_ok_spec c : cfg_ok c = true -> 1 <= W c /\ (1 <= M c)%nat.
Proof.
  unfold cfg_ok. rewrite andb_true_iff, Z.leb_le, Nat.leb_le. tauto.
Qed.

Lemma curw_quot c t : 1 <= W c -> curw c t = W c * (t ÷ W c).
Proof. intros HW. unfold curw. pose proof (Z.quot_rem' t (W c)). lia. Qed.

Lemma windows_In c t w :
  In w (windows c t) <-> exists i, (i < M c)%nat /\ w = curw c t - Z.of_nat i * W c.
Proof.
  unfold windows. rewrite in_map_iff. split.
  - intros [i [H1 H2]]. exists i. apply in_seq in H2. split; [lia | congruence].
  - intros [i [H1 H2]]. exists i. split; [congruence | apply in_seq; lia].
Qed.

(* the window an announcement went to is among those a reader looks at
   iff fewer than M window boundaries lie between them *)
Lemma visible_iff c t0 t : 1 <= W c -> (In (curw c t0) (windows c t) <-> visible c t0 t = true).
Proof.
  intros HW. rewrite windows_In, !curw_quot by exact HW. unfold visible.
  rewrite andb_true_iff, Z.leb_le, Z.ltb_lt. split.
  - intros [i [Hi He]]. assert (t0 ÷ W c = t ÷ W c - Z.of_nat i) by nia. lia.
  - intros [H1 H2]. exists (Z.to_nat (t ÷ W c - t0 ÷ W c)). split; [lia|].
    rewrite Z2Nat.id by lia. lia.
Qed.

Lemma visible_existsb c t0 t :
  1 <= W c -> existsb (Z.eqb (curw c t0)) (windows c t) = visible c t0 t.
Proof.
  intros HW. apply eq_true_iff_eq. rewrite <- visible_iff by exact HW. rewrite existsb_exists. split.
  - intros [w [Hw He]]. apply Z.eqb_eq in He. subst. exact Hw.
  - intros H. exists (curw c t0). split; [exact H | apply Z.eqb_refl].
Qed.

(* retention: an announcement stays within reach for at least (M-1) window lengths *)
Theorem retention c t0 t :
  cfg_ok c = true -> t0 <= t -> t <= t0 + (Z.of_nat (M c) - 1) * W c -> visible c t0 t = true.
Proof.
  intros Hc H1 H2. destruct (cfg_ok_spec c Hc) as [HW HM]. unfold visible.
  pose proof (quot_window (W c) t0 t (Z.of_nat (M c) - 1) HW ltac:(lia) H1 H2).
  apply andb_true_iff. rewrite Z.leb_le, Z.ltb_lt. lia.
Qed.

(* after M window lengths it is out of reach (clock after 1970) *)
Theorem forgotten c t0 t :
  cfg_ok c = true -> 0 <= t0 -> t0 + Z.of_nat (M c) * W c <= t -> visible c t0 t = false.
Proof.
  intros Hc H0 H1. destruct (cfg_ok_spec c Hc) as [HW HM]. unfold visible.
  pose proof (quot_far (W c) t0 t (Z.of_nat (M c)) HW H0 H1 ltac:(lia)).
  apply andb_false_iff. right. apply Z.ltb_ge. lia.
Qed.

(* Redis does not drop a key while a reader can still reach its window ... *)
Theorem expiry_not_early c t0 t :
  cfg_ok c = true -> visible c t0 t = true -> t < expire_at c (curw c t0).
Proof.
  intros Hc Hv. destruct (cfg_ok_spec c Hc) as [HW HM]. unfold visible in Hv.
  apply andb_true_iff in Hv. rewrite Z.leb_le, Z.ltb_lt in Hv. destruct Hv as [_ Hv].
  unfold expire_at. rewrite curw_quot by exact HW.
  pose proof (quot_upper (W c) t (t0 ÷ W c) (Z.of_nat (M c)) HW Hv). lia.
Qed.

(* ... and drops it exactly when no later reader can (clock after 1970) *)
Theorem expiry_tight c t0 t :
  cfg_ok c = true -> 0 <= t0 -> t0 <= t -> visible c t0 t = false -> expire_at c (curw c t0) <= t.
Proof.
  intros Hc H0 H1 Hv. destruct (cfg_ok_spec c Hc) as [HW HM]. unfold visible in Hv.
  pose proof (quot_window (W c) t0 t (t - t0) HW ltac:(lia) H1 ltac:(nia)) as Hq.
  apply andb_false_iff in Hv. destruct Hv as [Hv|Hv]; [apply Z.leb_gt in Hv; lia|].
  apply Z.ltb_ge in Hv. unfold expire_at. rewrite curw_quot by exact HW.
  pose proof (quot_lower (W c) t (t0 ÷ W c) (Z.of_nat (M c)) HW ltac:(lia) Hv). lia.
Qed.

Definition live (c : cfg) (t w : Z) : Prop := t < expire_at c w.

Lemma windows_live c t w : cfg_ok c = true -> In w (windows c t) -> live c t w.
Proof.
  intros Hc Hw. destruct (cfg_ok_spec c Hc) as [HW HM]. apply windows_In in Hw.
  destruct Hw as [i [Hi ->]]. unfold live, expire_at. rewrite curw_quot by exact HW.
  pose proof (quot_next (W c) t HW). nia.
Qed.

Lemma curw_live c t : cfg_ok c = true -> live c t (curw c t).
Proof.
  intros Hc. apply windows_live; [exact Hc|]. apply windows_In. exists 0%nat.
  destruct (cfg_ok_spec c Hc). split; [lia|]. cbn. lia.
Qed.

Lemma windows_NoDup c t : 1 <= W c -> NoDup (windows c t).
Proof.
  intros HW. unfold windows.
  assert (H : forall l, NoDup l -> NoDup (map (fun i => curw c t - Z.of_nat i * W c) l)).
  { induction l as [|x l IH]; intros Hl; cbn [map]; [constructor|].
    inversion Hl as [|? ? Hx Hl']; subst. constructor; [|apply IH; exact Hl'].
    intros Hin. apply in_map_iff in Hin. destruct Hin as [y [He Hy]].
    assert (y = x) by nia. subst. contradiction. }
  apply H. apply seq_NoDup.
Qed.

(* ---------- collapse ---------- *)
Definition any_c (l : list peer) (i : ident) : bool :=
  existsb (fun q => ident_eqb (fst q) i && snd q) l.

Lemma has_ident_In i l : has_ident i l = true <-> exists c, In (i, c) l.
Proof.
  unfold has_ident. rewrite existsb_exists. split.
  - intros [[j c] [Hin He]]. cbn [fst] in He. apply ident_eqb_eq in He. subst. exists c. exact Hin.
  - intros [c Hin]. exists (i, c). split; [exact Hin | apply ident_eqb_refl].
Qed.

Lemma any_c_In l i : any_c l i = true <-> In (i, true) l.
Proof.
  unfold any_c. rewrite existsb_exists. split.
  - intros [[j c] [Hin He]]. cbn [fst snd] in He. apply andb_true_iff in He. destruct He as [He ->].
    apply ident_eqb_eq in He. subst. exact Hin.
  - intros Hin. exists (i, true). split; [exact Hin|]. cbn [fst snd]. rewrite ident_eqb_refl. reflexivity.
Qed.

Lemma has_peer_In p l : has_peer p l = true <-> In p l.
Proof.
  unfold has_peer. rewrite existsb_exists. split.
  - intros [[j c] [Hin He]]. cbn [fst snd] in He. apply andb_true_iff in He. destruct He as [H1 H2].
    apply ident_eqb_eq in H1. apply eqb_prop in H2. destruct p as [i c']. cbn [fst snd] in *. subst. exact Hin.
  - intros Hin. exists p. split; [exact Hin|]. rewrite ident_eqb_refl, eqb_reflx. reflexivity.
Qed.

Lemma any_c_has_ident l i : any_c l i = true -> has_ident i l = true.
Proof. rewrite any_c_In, has_ident_In. intros H. exists true. exact H. Qed.

Lemma ident_eqb_sym a b : ident_eqb a b = ident_eqb b a.
Proof.
  apply eq_true_iff_eq. rewrite !ident_eqb_eq. split; congruence.
Qed.

Lemma merge1_has_ident sel p i :
  has_ident i (merge1 sel p) = has_ident i sel || ident_eqb (fst p) i.
Proof.
  induction sel as [|q t IH]; cbn [merge1 has_ident existsb].
  - rewrite orb_false_r. reflexivity.
  - destruct (ident_eqb (fst q) (fst p)) eqn:E.
    + apply ident_eqb_eq in E. cbn [existsb fst]. fold (has_ident i t). rewrite <- E.
      destruct (ident_eqb (fst q) i), (has_ident i t); reflexivity.
    + cbn [existsb]. fold (has_ident i (merge1 t p)) (has_ident i t). rewrite IH.
      rewrite orb_assoc. reflexivity.
Qed.

Lemma merge1_any_c sel p i :
  any_c (merge1 sel p) i = any_c sel i || (ident_eqb (fst p) i && snd p).
Proof.
  induction sel as [|q t IH]; cbn [merge1 any_c existsb].
  - rewrite orb_false_r. reflexivity.
  - destruct (ident_eqb (fst q) (fst p)) eqn:E.
    + apply ident_eqb_eq in E. cbn [existsb fst snd]. fold (any_c t i). rewrite <- E.
      destruct (ident_eqb (fst q) i), (snd q), (snd p), (any_c t i); reflexivity.
    + cbn [existsb]. fold (any_c (merge1 t p) i) (any_c t i). rewrite IH.
      rewrite orb_assoc. reflexivity.
Qed.

Lemma merge1_nodup sel p : nodup_ident sel = true -> nodup_ident (merge1 sel p) = true.
Proof.
  induction sel as [|q t IH]; cbn [merge1 nodup_ident]; intros H; [reflexivity|].
  apply andb_true_iff in H. destruct H as [H1 H2].
  destruct (ident_eqb (fst q) (fst p)) eqn:E; cbn [nodup_ident fst].
  - rewrite H1, H2. reflexivity.
  - rewrite merge1_has_ident, (ident_eqb_sym (fst p)), E, orb_false_r, H1. cbn [andb]. apply IH. exact H2.
Qed.

Lemma merge1_length sel p : (length (merge1 sel p) <= S (length sel))%nat.
Proof.
  induction sel as [|q t IH]; cbn [merge1 length]; [lia|].
  destruct (ident_eqb (fst q) (fst p)); cbn [length]; lia.
Qed.

Lemma collapse_into_has_ident l : forall sel i,
  has_ident i (collapse_into sel l) = has_ident i sel || has_ident i l.
Proof.
  unfold collapse_into. induction l as [|p l IH]; intros sel i; cbn [fold_left].
  - cbn. rewrite orb_false_r. reflexivity.
  - rewrite IH, merge1_has_ident. cbn [has_ident existsb]. fold (has_ident i l).
    rewrite orb_assoc. reflexivity.
Qed.

Lemma collapse_into_any_c l : forall sel i,
  any_c (collapse_into sel l) i = any_c sel i || any_c l i.
Proof.
  unfold collapse_into. induction l as [|p l IH]; intros sel i; cbn [fold_left].
  - cbn. rewrite orb_false_r. reflexivity.
  - rewrite IH, merge1_any_c. cbn [any_c existsb]. fold (any_c l i).
    rewrite orb_assoc. reflexivity.
Qed.

Lemma collapse_into_nodup l : forall sel,
  nodup_ident sel = true -> nodup_ident (collapse_into sel l) = true.
Proof.
  unfold collapse_into. induction l as [|p l IH]; intros sel H; cbn [fold_left]; [exact H|].
  apply IH. apply merge1_nodup. exact H.
Qed.

Lemma collapse_into_length l : forall sel,
  (length (collapse_into sel l) <= length sel + length l)%nat.
Proof.
  unfold collapse_into. induction l as [|p l IH]; intros sel; cbn [fold_left length]; [lia|].
  pose proof (IH (merge1 sel p)). pose proof (merge1_length sel p). lia.
Qed.

(* in a list without repeated identities an entry is determined by its identity *)
Lemma nodup_ident_In R : nodup_ident R = true ->
  forall i c, In (i, c) R <-> has_ident i R = true /\ c = any_c R i.
Proof.
  induction R as [|p t IH]; intros Hn i c.
  - cbn. split; [intros [] | intros [H _]; discriminate].
  - cbn [nodup_ident] in Hn. apply andb_true_iff in Hn. destruct Hn as [Hp Ht].
    apply negb_true_iff in Hp. specialize (IH Ht).
    cbn [In has_ident any_c existsb]. fold (has_ident i t) (any_c t i).
    destruct (ident_eqb (fst p) i) eqn:E.
    + apply ident_eqb_eq in E. destruct p as [j cp]. cbn [fst snd] in *. subst j.
      assert (Ha : any_c t i = false).
      { destruct (any_c t i) eqn:Ha; [|reflexivity].
        apply any_c_has_ident in Ha. congruence. }
      rewrite Ha, orb_false_r. cbn [orb andb]. split.
      * intros [He|Hin]; [inversion He; subst; split; reflexivity|].
        exfalso. assert (has_ident i t = true) by (apply has_ident_In; exists c; exact Hin).
        congruence.
      * intros [_ ->]. left. reflexivity.
    + cbn [orb andb]. rewrite <- IH. split.
      * intros [He|Hin]; [|exact Hin]. subst p. cbn [fst] in E. rewrite ident_eqb_refl in E. discriminate.
      * intros Hin. right. exact Hin.
Qed.

Lemma collapse_nodup l : nodup_ident (collapse l) = true.
Proof. apply collapse_into_nodup. reflexivity. Qed.

(* one entry per identity; complete iff some occurrence was complete *)
Theorem collapse_spec l i c :
  In (i, c) (collapse l) <-> (exists c0, In (i, c0) l) /\ (c = true <-> In (i, true) l).
Proof.
  rewrite (nodup_ident_In _ (collapse_nodup l)). unfold collapse.
  rewrite collapse_into_has_ident, collapse_into_any_c. cbn [has_ident any_c existsb orb].
  fold (has_ident i l) (any_c l i). rewrite has_ident_In, <- any_c_In.
  split; intros [H1 H2]; (split; [exact H1|]).
  - subst c. tauto.
  - destruct c, (any_c l i); intuition congruence.
Qed.

Lemma collapse_ext a b : (forall p, In p a <-> In p b) -> forall p, In p (collapse a) <-> In p (collapse b).
Proof.
  intros H [i c]. rewrite !collapse_spec. split; intros [[c0 H1] H2].
  - split; [exists c0; apply H; exact H1 | rewrite <- H; exact H2].
  - split; [exists c0; apply H; exact H1 | rewrite H; exact H2].
Qed.

Lemma collapse_length l : (length (collapse l) <= length l)%nat.
Proof. apply (collapse_into_length l []). Qed.

(* a collapsed entry is an entry of the list, flag included *)
Lemma collapse_sub l p : In p (collapse l) -> In p l.
Proof.
  destruct p as [i c]. rewrite collapse_spec. intros [[c0 H0] Hc]. destruct c.
  - apply Hc. reflexivity.
  - destruct c0; [|exact H0]. exfalso. assert (false = true) by (apply Hc; exact H0). discriminate.
Qed.

Lemma peers_subset_incl a b : peers_subset a b = true <-> incl a b.
Proof.
  unfold peers_subset, incl. rewrite forallb_forall. split; intros H p Hp.
  - apply has_peer_In. apply H. exact Hp.
  - apply has_peer_In. apply H. exact Hp.
Qed.

Lemma peers_seteq_intro a b :
  nodup_ident a = true -> nodup_ident b = true -> (forall p, In p a <-> In p b) -> peers_seteq a b = true.
Proof.
  intros Ha Hb H. unfold peers_seteq. rewrite Ha, Hb, !andb_true_r. apply andb_true_iff.
  split; apply peers_subset_incl; intros p Hp; apply H; exact Hp.
Qed.

(* ---------- the sampling loop ---------- *)
(* closure of [collapse_into] under a set of entries *)
Lemma collapse_into_sub entries sel l :
  nodup_ident sel = true -> incl sel entries -> incl l entries -> incl (collapse_into sel l) entries.
Proof.
  intros Hn Hs Hl [i c] Hin.
  apply (nodup_ident_In _ (collapse_into_nodup l sel Hn)) in Hin.
  rewrite collapse_into_has_ident, collapse_into_any_c in Hin. destruct Hin as [Hi Hc].
  destruct c.
  - symmetry in Hc. apply orb_true_iff in Hc. destruct Hc as [Hc|Hc]; apply any_c_In in Hc; auto.
  - symmetry in Hc. apply orb_false_iff in Hc. destruct Hc as [Hc1 Hc2].
    apply orb_true_iff in Hi. destruct Hi as [Hi|Hi]; apply has_ident_In in Hi; destruct Hi as [c0 Hi].
    + destruct c0; [apply any_c_In in Hi; congruence | auto].
    + destruct c0; [apply any_c_In in Hi; congruence | auto].
Qed.

(* whatever windows are visited in whatever order and whatever SRANDMEMBER returns, as long as
   every batch consists of members a reader can see: at most n peers, one per identity, each
   with an identity and flag that some visible entry carries *)
Theorem sample_sound n entries orc : forall sel res,
  (forall ss, In ss orc -> incl (decode_all ss) entries) ->
  nodup_ident sel = true -> incl sel entries -> Z.of_nat (length sel) <= Z.max n 0 ->
  sample_run n sel orc = Some res -> legal_sample n entries res = true.
Proof.
  induction orc as [|ss rest IH]; intros sel res Ho Hn Hs Hl Hr.
  - cbn [sample_run] in Hr. inversion Hr; subst res. unfold legal_sample.
    rewrite Hn. apply andb_true_iff. split; [apply andb_true_iff; split; [apply Z.leb_le; exact Hl|reflexivity]|].
    apply forallb_forall. intros p Hp. apply has_peer_In. apply Hs. exact Hp.
  - cbn [sample_run] in Hr. destruct (Z.ltb_spec (Z.of_nat (length sel)) n) as [Hlt|Hge].
    + destruct (Z.leb_spec (Z.of_nat (length ss)) (n - Z.of_nat (length sel))) as [Hb|Hb]; [|discriminate].
      apply (IH (collapse_into sel (decode_all ss)) res); try assumption.
      * intros ss' Hin. apply Ho. right. exact Hin.
      * apply collapse_into_nodup. exact Hn.
      * apply collapse_into_sub; [exact Hn | exact Hs | apply Ho; left; reflexivity].
      * pose proof (collapse_into_length (decode_all ss) sel). pose proof (decode_all_length ss). lia.
    + inversion Hr; subst res. unfold legal_sample.
      rewrite Hn. apply andb_true_iff. split; [apply andb_true_iff; split; [apply Z.leb_le; exact Hl|reflexivity]|].
      apply forallb_forall. intros p Hp. apply has_peer_In. apply Hs. exact Hp.
Qed.

Lemma legal_sample_mono n e1 e2 res :
  incl e1 e2 -> legal_sample n e1 res = true -> legal_sample n e2 res = true.
Proof.
  intros Hi. unfold legal_sample. rewrite !andb_true_iff. intros [H1 H2]. split; [exact H1|].
  rewrite forallb_forall in *. intros p Hp. apply has_peer_In. apply Hi. apply has_peer_In. apply H2. exact Hp.
Qed.

Lemma decode_all_app a b : decode_all (a ++ b) = decode_all a ++ decode_all b.
Proof.
  induction a as [|s a IH]; cbn [app decode_all]; [reflexivity|].
  destruct (deserialize s); cbn [app]; rewrite IH; reflexivity.
Qed.

Lemma collapse_into_app sel a b : collapse_into sel (a ++ b) = collapse_into (collapse_into sel a) b.
Proof. unfold collapse_into. apply fold_left_app. Qed.

(* n at least the number of members offered: nothing is cut, no window is skipped *)
Lemma sample_run_full orc : forall n sel,
  Z.of_nat (length sel) + Z.of_nat (length (concat orc)) <= n ->
  sample_run n sel orc = Some (collapse_into sel (decode_all (concat orc))).
Proof.
  induction orc as [|ss rest IH]; intros n sel H; cbn [sample_run concat].
  - reflexivity.
  - cbn [concat] in H. rewrite app_length in H.
    destruct (Z.ltb_spec (Z.of_nat (length sel)) n) as [Hlt|Hge].
    + destruct (Z.leb_spec (Z.of_nat (length ss)) (n - Z.of_nat (length sel))) as [Hb|Hb]; [|lia].
      rewrite IH.
      * rewrite decode_all_app, collapse_into_app. reflexivity.
      * pose proof (collapse_into_length (decode_all ss) sel). pose proof (decode_all_length ss). lia.
    + assert (Hz : length (ss ++ concat rest) = 0%nat) by (rewrite app_length; lia).
      apply length_zero_iff_nil in Hz. rewrite Hz. reflexivity.
Qed.

(* the deterministic full read is what the loop computes, for any window order, once n is at
   least the number of members offered *)
Theorem full_read_is_loop c d h t n orc :
  (forall x, In x (concat orc) <-> In x (visible_members c d h t)) ->
  Z.of_nat (length (concat orc)) <= n ->
  exists res, sample_run n [] orc = Some res /\ nodup_ident res = true /\
              forall p, In p res <-> In p (collapse (decode_all (visible_members c d h t))).
Proof.
  intros Hm Hn. exists (collapse (decode_all (concat orc))). split; [|split].
  - apply (sample_run_full orc n []). cbn [length]. lia.
  - apply collapse_nodup.
  - apply collapse_ext. intros p. rewrite !decode_all_In. split; intros [x [Hx Hd]]; exists x; (split; [apply Hm; exact Hx | exact Hd]).
Qed.
