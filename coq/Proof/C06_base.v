(* C06 — basic lemmas: association lists, decimal round trip, per-key projection of call lists,
   directory enumeration, sums. *)
From Coq Require Import List NArith Bool Lia Permutation.
From K.Model Require Import C06.
Import ListNotations.
Local Open Scope N_scope.

(* ---------------------------------------------------------------- upd / association lists *)
Lemma upd_eq : forall {V} (f : N -> V) k v, upd f k v k = v.
Proof. intros. unfold upd. now rewrite N.eqb_refl. Qed.
Lemma upd_neq : forall {V} (f : N -> V) k v y, y <> k -> upd f k v y = f y.
Proof. intros. unfold upd. destruct (N.eqb_spec y k); congruence. Qed.

Lemma aget_adel_eq : forall {V} k (m : list (N * V)), aget k (adel k m) = None.
Proof.
  intros V k m. induction m as [|[k' v] t IH]; cbn; [reflexivity|].
  destruct (N.eqb_spec k' k) as [E|E]; cbn; [exact IH|].
  destruct (N.eqb_spec k' k); [congruence|exact IH].
Qed.
Lemma aget_adel_neq : forall {V} k k2 (m : list (N * V)), k2 <> k -> aget k2 (adel k m) = aget k2 m.
Proof.
  intros V k k2 m H. induction m as [|[k' v] t IH]; cbn; [reflexivity|].
  destruct (N.eqb_spec k' k) as [E|E]; cbn.
  - subst. destruct (N.eqb_spec k k2); [congruence|exact IH].
  - destruct (N.eqb_spec k' k2); [reflexivity|exact IH].
Qed.
Lemma aget_aset_eq : forall {V} k (v : V) m, aget k (aset k v m) = Some v.
Proof. intros. unfold aset. cbn. now rewrite N.eqb_refl. Qed.
Lemma aget_aset_neq : forall {V} k k2 (v : V) m, k2 <> k -> aget k2 (aset k v m) = aget k2 m.
Proof.
  intros. unfold aset. cbn. destruct (N.eqb_spec k k2); [congruence|]. now apply aget_adel_neq.
Qed.
Lemma aget_adel_sub : forall {V} k k2 (m : list (N * V)) v, aget k2 (adel k m) = Some v -> aget k2 m = Some v.
Proof.
  intros V k k2 m v H. destruct (N.eq_dec k2 k) as [->|E].
  - rewrite aget_adel_eq in H. discriminate.
  - now rewrite aget_adel_neq in H.
Qed.

(* ---------------------------------------------------------------- decimal round trip *)
Lemma val_digits : forall fuel n, (N.to_nat n < fuel)%nat -> val_lsf (digits_lsf fuel n) = n.
Proof.
  induction fuel as [|f IH]; intros n H; [lia|]. cbn [digits_lsf val_lsf].
  destruct (N.eqb_spec (n / 10) 0) as [E|E].
  - cbn [val_lsf]. pose proof (N.div_mod n 10 ltac:(lia)). lia.
  - rewrite IH.
    + pose proof (N.div_mod n 10 ltac:(lia)). lia.
    + assert (n <> 0) by (intros ->; apply E; reflexivity).
      assert (n / 10 < n) by (apply N.div_lt; lia). lia.
Qed.
Lemma digits_lt10 : forall fuel n, Forall (fun d => d < 10) (digits_lsf fuel n).
Proof.
  induction fuel as [|f IH]; intros n; cbn; [constructor|]. constructor.
  - apply N.mod_lt. lia.
  - destruct (n / 10 =? 0); [constructor|apply IH].
Qed.
Lemma undec_dec : forall n, undec (dec n) = Some n.
Proof.
  intros n. unfold undec, dec.
  set (ds := digits_lsf (S (N.to_nat n)) n).
  assert (Hne : ds <> []) by (unfold ds; cbn; discriminate).
  assert (Hlt : Forall (fun d => d < 10) ds) by apply digits_lt10.
  assert (Hval : val_lsf ds = n) by (apply val_digits; lia).
  destruct (rev (map (fun d => 48 + d) ds)) eqn:Er.
  - exfalso. apply (f_equal (@rev N)) in Er. rewrite rev_involutive in Er. cbn in Er.
    destruct ds; [congruence|discriminate].
  - rewrite <- Er.
    assert (Hd : forallb is_digit (rev (map (fun d => 48 + d) ds)) = true).
    { apply forallb_forall. intros x Hx. apply in_rev in Hx. apply in_map_iff in Hx.
      destruct Hx as [d [<- Hd]]. rewrite Forall_forall in Hlt. specialize (Hlt d Hd).
      unfold is_digit. apply andb_true_intro. split; apply N.leb_le; lia. }
    rewrite Hd. rewrite rev_involutive. rewrite map_map. f_equal.
    rewrite <- Hval. f_equal. rewrite <- (map_id ds) at 2. apply map_ext_in.
    intros a _. lia.
Qed.
Lemma dec_nonempty : forall n, dec n <> [].
Proof. intros n H. pose proof (undec_dec n) as U. rewrite H in U. discriminate. Qed.

(* ---------------------------------------------------------------- files of a blob directory *)
Lemma fget_fset_none : forall f d, fget f (fset f None d) = None.
Proof. intros [] d; cbn; try reflexivity; apply aget_adel_eq. Qed.
Lemma fname_eq_dec : forall a b : fname, {a = b} + {a <> b}.
Proof. decide equality; apply N.eq_dec. Qed.
Lemma fget_fset_other : forall f g c d, f <> g -> fget f (fset g c d) = fget f d.
Proof.
  intros f g c d H. destruct f, g; cbn; try reflexivity; try congruence.
  - destruct c; [apply aget_aset_neq|apply aget_adel_neq]; congruence.
  - destruct c; [apply aget_aset_neq|apply aget_adel_neq]; congruence.
Qed.

(* ---------------------------------------------------------------- exec, per-key projection *)
Lemma exec_app : forall a b f, exec (a ++ b) f = exec b (exec a f).
Proof. intros. unfold exec. apply fold_left_app. Qed.
Lemma kexec_app : forall a b v, kexec (a ++ b) v = kexec b (kexec a v).
Proof. intros. unfold kexec. apply fold_left_app. Qed.

Lemma blobs_apply : forall f c y,
  blobs (apply_call f c) y = if touches y c then kapply (blobs f y) c else blobs f y.
Proof.
  intros f c y. unfold touches, kapply.
  destruct c; cbn [apply_call call_key blobs]; try reflexivity;
    match goal with |- context [?k =? y] => destruct (N.eqb_spec k y) as [E|E] end;
    try subst y;
    match goal with
    | |- context [kstep ?c (blobs f ?k)] => destruct (kstep c (blobs f k)) eqn:K
    end; cbn [blobs]; try reflexivity; try (now rewrite upd_eq);
    try (rewrite upd_neq; [reflexivity|congruence]).
Qed.

Lemma blobs_exec : forall cs f y, blobs (exec cs f) y = kexec (filter (touches y) cs) (blobs f y).
Proof.
  induction cs as [|c t IH]; intros f y; cbn [exec fold_left filter]; [reflexivity|].
  change (fold_left apply_call t (apply_call f c)) with (exec t (apply_call f c)).
  rewrite IH, blobs_apply. destruct (touches y c); reflexivity.
Qed.

Lemma sdirs_blob_call : forall f c, call_key c <> None -> sdirs (apply_call f c) = sdirs f.
Proof. intros f c H. destruct c; cbn in *; congruence. Qed.

(* ---------------------------------------------------------------- prefixes *)
Definition prefix {A} (p l : list A) : Prop := exists q, l = p ++ q.
Lemma prefix_firstn : forall {A} k (l : list A), prefix (firstn k l) l.
Proof. intros. exists (skipn k l). symmetry. apply firstn_skipn. Qed.
Lemma prefix_filter : forall {A} (P : A -> bool) p l, prefix p l -> prefix (filter P p) (filter P l).
Proof. intros A P p l [q ->]. exists (filter P q). apply filter_app. Qed.
Lemma prefix_nil : forall {A} (p : list A), prefix p [] -> p = [].
Proof. intros A p [q H]. destruct p; [reflexivity|discriminate]. Qed.
Lemma prefix_cons : forall {A} (p : list A) a l, prefix p (a :: l) -> p = [] \/ exists p', p = a :: p' /\ prefix p' l.
Proof.
  intros A p a l [q H]. destruct p as [|b p']; [now left|right].
  cbn in H. injection H as <- ->. exists p'. split; [reflexivity|now exists q].
Qed.
Lemma prefix_app_cases : forall {A} (p a b : list A), prefix p (a ++ b) ->
  prefix p a \/ exists p', p = a ++ p' /\ prefix p' b.
Proof.
  intros A p a. revert p. induction a as [|x a IH]; intros p b H.
  - right. exists p. split; [reflexivity|exact H].
  - cbn in H. apply prefix_cons in H. destruct H as [->|[p' [-> H]]].
    + left. now exists (x :: a).
    + destruct (IH _ _ H) as [[q ->]|[p2 [-> H2]]].
      * left. now exists q.
      * right. exists p2. split; [reflexivity|exact H2].
Qed.

(* ---------------------------------------------------------------- the key enumeration *)
Lemma addk_in : forall k l x, In x (addk k l) <-> x = k \/ In x l.
Proof.
  intros k l x. unfold addk. destruct (existsb (N.eqb k) l) eqn:E.
  - split; [now right|]. intros [->|H]; [|exact H].
    apply existsb_exists in E. destruct E as [z [Hz Ez]]. apply N.eqb_eq in Ez. now subst.
  - cbn. split; intros [H|H]; auto.
Qed.
Lemma addk_nodup : forall k l, NoDup l -> NoDup (addk k l).
Proof.
  intros k l H. unfold addk. destruct (existsb (N.eqb k) l) eqn:E; [exact H|].
  constructor; [|exact H]. intro Hin.
  assert (existsb (N.eqb k) l = true) by (apply existsb_exists; exists k; split; [exact Hin|apply N.eqb_refl]).
  congruence.
Qed.
Lemma dom_apply : forall f c x, In x (dom (apply_call f c)) <-> In x (dom f) \/ call_key c = Some x.
Proof.
  intros f c x. destruct c; cbn [apply_call call_key dom]; try (rewrite addk_in);
    try (split; [intros [->|H]; [now right|now left]|intros [H|H]; [now right|left; congruence]]);
    split; try tauto; intros [H|H]; try exact H; discriminate.
Qed.
Lemma dom_apply_nodup : forall f c, NoDup (dom f) -> NoDup (dom (apply_call f c)).
Proof. intros f c H. destruct c; cbn [apply_call call_key dom]; try exact H; now apply addk_nodup. Qed.
Lemma dom_exec : forall cs f x, In x (dom (exec cs f)) <-> In x (dom f) \/ exists c, In c cs /\ call_key c = Some x.
Proof.
  induction cs as [|c t IH]; intros f x; cbn [exec fold_left].
  - split; [now left|]. intros [H|[c [[] _]]]. exact H.
  - change (fold_left apply_call t (apply_call f c)) with (exec t (apply_call f c)).
    rewrite IH, dom_apply. split.
    + intros [[H|H]|[c' [H1 H2]]]; [now left| |].
      * right. exists c. split; [now left|exact H].
      * right. exists c'. split; [now right|exact H2].
    + intros [H|[c' [[<-|H1] H2]]]; [left; now left|left; now right|].
      right. now exists c'.
Qed.
Lemma dom_exec_nodup : forall cs f, NoDup (dom f) -> NoDup (dom (exec cs f)).
Proof.
  induction cs as [|c t IH]; intros f H; cbn [exec fold_left]; [exact H|].
  apply IH. now apply dom_apply_nodup.
Qed.

(* a directory exists only for enumerated keys *)
Definition dom_ok (f : fs) : Prop := forall x, blobs f x <> (None, None) -> In x (dom f).
Lemma dom_ok_exec : forall cs f, dom_ok f -> dom_ok (exec cs f).
Proof.
  induction cs as [|c t IH]; intros f H; cbn [exec fold_left]; [exact H|].
  apply IH. intros x Hx. apply dom_apply. rewrite blobs_apply in Hx.
  unfold touches in Hx. destruct (call_key c) as [k|] eqn:K.
  - destruct (N.eqb_spec k x) as [->|E]; [now right|left; now apply H].
  - left. now apply H.
Qed.

(* ---------------------------------------------------------------- sums over the enumeration *)
Lemma sum_le : forall (a b : N -> option ment) l,
  (forall y, In y l -> size_of (a y) <= size_of (b y)) -> sum_sizes a l <= sum_sizes b l.
Proof.
  intros a b l. induction l as [|y t IH]; intros H; cbn; [lia|].
  pose proof (H y (or_introl eq_refl)). assert (sum_sizes a t <= sum_sizes b t) by (apply IH; intros; apply H; now right).
  unfold sum_sizes in *. lia.
Qed.
Lemma sum_ext : forall (a b : N -> option ment) l,
  (forall y, In y l -> size_of (a y) = size_of (b y)) -> sum_sizes a l = sum_sizes b l.
Proof.
  intros a b l H. apply N.le_antisymm; apply sum_le; intros y Hy; rewrite (H y Hy); lia.
Qed.
Lemma sum_perm : forall (a : N -> option ment) l1 l2, Permutation l1 l2 -> sum_sizes a l1 = sum_sizes a l2.
Proof.
  intros a l1 l2 P. induction P; unfold sum_sizes in *; cbn; lia.
Qed.
Lemma sum_filter_support : forall (a : N -> option ment) l,
  sum_sizes a l = sum_sizes a (filter (fun y => isSome (a y)) l).
Proof.
  intros a l. induction l as [|y t IH]; cbn; [reflexivity|].
  destruct (a y) eqn:E; cbn; rewrite ?E; unfold sum_sizes in *; cbn; lia.
Qed.
(* the sum does not depend on which duplicate-free superset of the map's support is enumerated *)
Lemma sum_support : forall (a : N -> option ment) l1 l2,
  NoDup l1 -> NoDup l2 -> (forall x, a x <> None -> In x l1) -> (forall x, a x <> None -> In x l2) ->
  sum_sizes a l1 = sum_sizes a l2.
Proof.
  intros a l1 l2 N1 N2 H1 H2. rewrite (sum_filter_support a l1), (sum_filter_support a l2).
  apply sum_perm. apply NoDup_Permutation; try (apply NoDup_filter; assumption).
  intros x. rewrite !filter_In. split; intros [_ Hs]; (split; [|exact Hs]);
    [apply H2|apply H1]; intro E; rewrite E in Hs; discriminate.
Qed.
Lemma sum_upd_notin : forall (a : N -> option ment) x v l, ~ In x l -> sum_sizes (upd a x v) l = sum_sizes a l.
Proof.
  intros a x v l H. apply sum_ext. intros y Hy. rewrite upd_neq; [reflexivity|]. intro; subst; contradiction.
Qed.
Lemma sum_upd_in : forall (a : N -> option ment) x v l, NoDup l -> In x l ->
  sum_sizes (upd a x v) l + size_of (a x) = sum_sizes a l + size_of v.
Proof.
  intros a x v l. induction l as [|y t IH]; intros ND Hin; [destruct Hin|].
  inversion ND as [|? ? Hy NDt]; subst. cbn [sum_sizes fold_right].
  change (fold_right (fun y acc => size_of (upd a x v y) + acc) 0 t) with (sum_sizes (upd a x v) t).
  change (fold_right (fun y acc => size_of (a y) + acc) 0 t) with (sum_sizes a t).
  destruct Hin as [->|Hin].
  - rewrite upd_eq, sum_upd_notin by assumption. lia.
  - rewrite upd_neq by (intro; subst; contradiction). specialize (IH NDt Hin). lia.
Qed.

Lemma sum_ge_one : forall (a : N -> option ment) x l, In x l -> size_of (a x) <= sum_sizes a l.
Proof.
  intros a x l. induction l as [|y t IH]; intros H; [destruct H|]. cbn.
  change (fold_right (fun y acc => size_of (a y) + acc) 0 t) with (sum_sizes a t).
  destruct H as [->|H]; [lia|]. specialize (IH H). lia.
Qed.
Lemma sum_incl_le : forall (a : N -> option ment) l1 l2, NoDup l1 -> incl l1 l2 -> sum_sizes a l1 <= sum_sizes a l2.
Proof.
  intros a l1. induction l1 as [|x t IH]; intros l2 ND I; cbn; [lia|].
  change (fold_right (fun y acc => size_of (a y) + acc) 0 t) with (sum_sizes a t).
  inversion ND as [|? ? Hx NDt]; subst.
  assert (Hin : In x l2) by (apply I; now left).
  apply in_split in Hin. destruct Hin as [u [w ->]].
  assert (I' : incl t (u ++ w)).
  { intros y Hy. assert (In y (u ++ x :: w)) by (apply I; now right).
    apply in_app_or in H. apply in_or_app. destruct H as [H|[H|H]]; auto. subst. contradiction. }
  specialize (IH _ NDt I').
  rewrite (sum_perm a (u ++ x :: w) (x :: u ++ w)) by (symmetry; apply Permutation_middle).
  cbn. change (fold_right (fun y acc => size_of (a y) + acc) 0 (u ++ w)) with (sum_sizes a (u ++ w)). lia.
Qed.
Lemma prefix_map : forall {A B} (f : A -> B) p l, prefix p (map f l) -> exists l', p = map f l' /\ prefix l' l.
Proof.
  intros A B f p l. revert p. induction l as [|a t IH]; intros p H; cbn in H.
  - apply prefix_nil in H. subst. exists []. split; [reflexivity|now exists []].
  - apply prefix_cons in H. destruct H as [->|[p' [-> H]]].
    + exists []. split; [reflexivity|now exists (a :: t)].
    + destruct (IH _ H) as [l' [-> [q ->]]]. exists (a :: l'). split; [reflexivity|now exists q].
Qed.
Lemma prefix_refl : forall {A} (l : list A), prefix l l.
Proof. intros. exists []. now rewrite app_nil_r. Qed.
