(* C06 — preservation of the invariant by operations, recovery of crashed disks. *)
From Coq Require Import List NArith Bool Lia.
From K.Model Require Import C06.
From K.Proof Require Import C06_base C06_inv C06_crash.
Import ListNotations.
Local Open Scope N_scope.
#[local] Opaque dec.

(* ---------------------------------------------------------------- operations preserve DI *)
Lemma create_final : forall c x sz,
  kexec ([CMkBlob AInc x; COpen AInc x FData OExcl]
         ++ (if c_ri c then [COpen AInc x FSize OExcl; CWrite AInc x FSize 0 (dec sz)] else [])) (None, None)
  = (None, Some (mkbdir (Some []) (if c_ri c then Some (dec sz) else None) false [] [])).
Proof.
  intros c x sz. destruct (c_ri c); cbn [app]; rewrite !kexec_cons; unfold kapply; cbn [kstep vget vset fst snd fget fset empty_dir d_data d_sizef d_ban d_md d_tmp];
    rewrite ?write_at_nil; reflexivity.
Qed.

Lemma step_DI : forall c s o, DI c s -> wf_op c s o = true -> DI c (st_of (step c s o)).
Proof.
  intros c s o D W.
  pose proof (step_ckeys c s o) as CK.
  destruct (step_shape c s o D W) as
    [Hs Hc | x sz sh Ho M V F Hsh Hc Hst | x e d ord Hr Ht M V L Hc Hst | x e d sh Ho M C V Hsh Hc Hst
     | x e d body e' d1 Ht Hr Hmc M V Hk Hc Hm Hms Hsz Hco Hfin Hpre OK].
  - now rewrite Hs.
  - subst o. cbn [target] in CK. rewrite Hst.
    set (body := [CMkBlob AInc x; COpen AInc x FData OExcl]
                 ++ (if c_ri c then [COpen AInc x FSize OExcl; CWrite AInc x FSize 0 (dec sz)] else [])) in *.
    assert (Kb : konly x body) by (unfold body; destruct (c_ri c); repeat constructor).
    apply (DI_update c s x (Some (mkment sz false false))); auto.
    + rewrite Hc, (blobs_exec_target x sh body) by assumption. rewrite V. unfold body. rewrite create_final.
      exists (mkbdir (Some []) (if c_ri c then Some (dec sz) else None) false [] []). split; [reflexivity|].
      exists []. cbn [d_data d_ban d_sizef e_size e_banned e_complete length]. split; [reflexivity|]. split; [lia|]. split; [reflexivity|].
      intros _ RI. rewrite RI. exists (dec sz). split; [reflexivity|apply undec_dec].
    + intros _. apply dom_exec. right. exists (CMkBlob AInc x). split; [|reflexivity].
      rewrite Hc. apply in_or_app. right. unfold body. now left.
    + rewrite M. cbn. lia.
  - rewrite Ht in CK. rewrite Hst.
    assert (Hin : In x (dom (disk s))) by (eapply di_support; eauto; congruence).
    pose proof (sum_ge_one (mem s) x _ Hin) as Hge. rewrite <- (di_sum c s D), M in Hge. cbn in Hge.
    apply (DI_update c s x None); auto.
    + rewrite Hc, blobs_exec, (filter_konly x (rm_calls (area_of e) x ord (Some d))) by apply konly_rm_calls.
      rewrite (kexec_rm_calls _ _ _ _ _ L V).
      pose proof (di_keys c s D x) as K. rewrite M in K. destruct K as [d0 [-> _]]. destruct (area_of e); reflexivity.
    + congruence.
    + rewrite M. cbn. lia.
    + pose proof (di_cap c s D). lia.
  - subst o. cbn [target] in CK. rewrite Hst.
    assert (Kb : konly x (CRenDir x :: map (fun sfx => CUnlink AComp x (FMd sfx)) (immovables c d)))
      by (constructor; [reflexivity|apply konly_map_unlink]).
    pose proof (di_keys c s D x) as K. rewrite M in K. destruct K as [d0 [Hv0 [b [Hd [Hl [Hb Hsf]]]]]].
    unfold area_of in Hv0. rewrite C in Hv0. cbn in Hv0. rewrite V in Hv0. injection Hv0 as <-.
    apply (DI_update c s x (Some (mkment (e_size e) true (e_banned e)))); auto.
    + rewrite Hc, (blobs_exec_target x sh _) by assumption. rewrite V, kexec_cons. unfold kapply. cbn [kstep snd fst].
      rewrite kexec_unlink_mds. destruct (rm_mds_spec (immovables c d) d) as [R1 [R2 [R3 R4]]].
      exists (rm_mds (immovables c d) d). split; [reflexivity|]. exists b. cbn. rewrite R1, R3. repeat split; auto. discriminate.
    + intros _. apply dom_exec. left. eapply di_support; eauto. congruence.
    + rewrite M. cbn. lia.
    + apply (di_cap c s D).
  - rewrite Ht in CK.
    assert (Est : st_of (step c s o) = mkst (mem (st_of (step c s o))) (msize (st_of (step c s o))) (exec (calls_of (step c s o)) (disk s))).
    { rewrite <- step_disk. destruct (st_of (step c s o)); reflexivity. }
    rewrite Est. apply (DI_update c s x (Some e')); auto.
    + rewrite Hc, blobs_exec, (filter_konly x body) by exact Hk. rewrite Hfin.
      pose proof (di_keys c s D x) as K. rewrite M in K. destruct K as [d0 [-> _]].
      exists d1. split; [|exact OK]. unfold area_of. rewrite Hco. destruct (e_complete e); reflexivity.
    + intros _. apply dom_exec. left. eapply di_support; eauto. congruence.
    + rewrite Hms, M. cbn. lia.
    + rewrite Hms. apply (di_cap c s D).
Qed.

(* ---------------------------------------------------------------- recovery of one key's directories *)
Lemma veq_none : forall w, veq w (None, None) -> w = (None, None).
Proof. intros [[a|] [b|]] [H1 H2]; cbn in *; try contradiction. reflexivity. Qed.
Lemma veq_comp : forall w d, veq w (Some d, None) -> exists dw, w = (Some dw, None) /\ deq dw d.
Proof. intros [[a|] [b|]] d [H1 H2]; cbn in *; try contradiction. now exists a. Qed.
Lemma veq_inc : forall w d, veq w (None, Some d) -> exists dw, w = (None, Some dw) /\ deq dw d.
Proof. intros [[a|] [b|]] d [H1 H2]; cbn in *; try contradiction. now exists b. Qed.

Lemma rec_inc_none : forall ri, rec_inc ri None = (None, None).
Proof. intros []; reflexivity. Qed.

(* a complete blob (as the invariant describes it) is recovered complete, with its bytes' length as size *)
Lemma rec_complete : forall c e v w, di_key c (Some e) v -> e_complete e = true -> veq w v ->
  exists d dw b, v = (Some d, None) /\ w = (Some dw, None) /\ deq dw d /\ d_data dw = Some b /\
    N.of_nat (length b) <= e_size e /\ d_ban dw = e_banned e /\
    rec_view (c_ri c) w = (Some (mkment (N.of_nat (length b)) true (d_ban dw)), (Some dw, None)).
Proof.
  intros c e v w [d [Hv [b [Hd [Hl [Hb Hs]]]]]] C E. unfold area_of in Hv. rewrite C in Hv. cbn in Hv. subst v.
  apply veq_comp in E. destruct E as [dw [-> [E1 [E2 [E3 E4]]]]].
  exists d, dw, b. repeat split; auto; try congruence.
  unfold rec_view. cbn [fst snd rec_comp]. rewrite E1, Hd, rec_inc_none. reflexivity.
Qed.
(* an incomplete one is restored with its reserved size, or dropped, as configured *)
Lemma rec_incomplete : forall c e v w, di_key c (Some e) v -> e_complete e = false -> veq w v ->
  exists d dw b, v = (None, Some d) /\ w = (None, Some dw) /\ deq dw d /\ d_data dw = Some b /\
    N.of_nat (length b) <= e_size e /\ d_ban dw = e_banned e /\
    rec_view (c_ri c) w = if c_ri c then (Some (mkment (e_size e) false (d_ban dw)), (None, Some dw))
                          else (None, (None, None)).
Proof.
  intros c e v w [d [Hv [b [Hd [Hl [Hb Hs]]]]]] C E. unfold area_of in Hv. rewrite C in Hv. cbn in Hv. subst v.
  apply veq_inc in E. destruct E as [dw [-> [E1 [E2 [E3 E4]]]]].
  exists d, dw, b. repeat split; auto; try congruence.
  unfold rec_view. cbn [fst snd rec_comp]. destruct (c_ri c) eqn:RI; [|reflexivity].
  destruct (Hs C eq_refl) as [sb [S1 S2]]. cbn [rec_inc]. rewrite E1, Hd, E2, S1, S2. reflexivity.
Qed.
Lemma rec_absent : forall ri, rec_view ri (None, None) = (None, (None, None)).
Proof. intros []; reflexivity. Qed.

(* what recovery makes of a key's directories is again consistent (memory <-> disk) *)
Definition vok (c : cfg) (w : kview) : Prop :=
  di_key c (fst (rec_view (c_ri c) w)) (snd (rec_view (c_ri c) w)).
Definition rsz (c : cfg) (w : kview) : N := size_of (fst (rec_view (c_ri c) w)).

Lemma dir_ok_complete : forall c d b, d_data d = Some b -> dir_ok c (mkment (N.of_nat (length b)) true (d_ban d)) d.
Proof. intros c d b H. exists b. cbn. split; [exact H|]. split; [lia|]. split; [reflexivity|]. discriminate. Qed.

Lemma vok_di : forall c e v w, di_key c e v -> veq w v -> vok c w /\ rsz c w <= size_of e.
Proof.
  intros c [e|] v w K E.
  - destruct (e_complete e) eqn:C.
    + destruct (rec_complete c e v w K C E) as [d [dw [b [_ [-> [_ [Hd [Hl [Hb R]]]]]]]]].
      unfold vok, rsz. rewrite R. cbn [fst snd size_of e_size]. split; [|exact Hl].
      exists dw. split; [reflexivity|now apply dir_ok_complete].
    + destruct (rec_incomplete c e v w K C E) as [d [dw [b [Hv [-> [Ed [Hd [Hl [Hb R]]]]]]]]].
      unfold vok, rsz. rewrite R. destruct (c_ri c) eqn:RI; cbn [fst snd size_of e_size]; [|split; [reflexivity|lia]].
      split; [|lia]. exists dw. split; [reflexivity|]. exists b. cbn. repeat split; auto.
      intros _ _. destruct K as [d0 [Hv0 [b0 [_ [_ [_ Hs]]]]]]. unfold area_of in Hv0. rewrite C in Hv0. cbn in Hv0.
      rewrite Hv in Hv0. injection Hv0 as <-. destruct (Hs C RI) as [sb [S1 S2]].
      exists sb. destruct Ed as [_ [E2 _]]. split; congruence.
  - cbn in K. subst v. apply veq_none in E. subst w. unfold vok, rsz. rewrite rec_absent. cbn. split; [reflexivity|lia].
Qed.

(* partially removed directory *)
Lemma vok_rm : forall c e d d', dir_ok c e d -> dsub d' d ->
  vok c (vset (area_of e) (Some d') (None, None)) /\ rsz c (vset (area_of e) (Some d') (None, None)) <= e_size e.
Proof.
  intros c e d d' [b [Hd [Hl [Hb Hs]]]] [S1 [S2 [S3 S4]]]. unfold vok, rsz, area_of.
  destruct (e_complete e) eqn:C; cbn [vset fst snd].
  - unfold rec_view. cbn [fst snd rec_comp]. rewrite rec_inc_none.
    destruct S1 as [S1|S1]; rewrite S1, ?Hd; cbn [fst snd size_of e_size].
    + split; [|exact Hl]. exists d'. split; [reflexivity|]. apply dir_ok_complete. congruence.
    + split; [reflexivity|lia].
  - unfold rec_view. cbn [fst snd rec_comp]. destruct (c_ri c) eqn:RI; cbn [rec_inc]; [|cbn; split; [reflexivity|lia]].
    destruct (Hs eq_refl eq_refl) as [sb [T1 T2]].
    destruct S1 as [S1|S1]; rewrite S1, ?Hd; [|cbn; split; [reflexivity|lia]].
    destruct S2 as [S2|S2]; rewrite S2, ?T1, ?T2; [|cbn; split; [reflexivity|lia]].
    cbn [fst snd size_of e_size]. split; [|lia]. exists d'. split; [reflexivity|].
    exists b. cbn. repeat split; auto; try congruence. intros _ _. exists sb. split; congruence.
Qed.

(* ---------------------------------------------------------------- every key of every crashed disk *)
Definition post (c : cfg) (s : state) (o : op) : state := st_of (step c s o).

Lemma crash_key : forall c s o k y, DI c s -> wf_op c s o = true ->
  let w := blobs (crash c s o k) y in
  vok c w /\ (y <> target o -> rsz c w <= size_of (mem s y))
          /\ (y = target o -> rsz c w <= N.max (size_of (mem s y)) (size_of (mem (post c s o) y))).
Proof.
  intros c s o k y D W. cbv zeta.
  destruct (N.eq_dec y (target o)) as [->|Hy].
  - pose proof (crash_class c s o k D W) as CC. set (w := blobs (crash c s o k) (target o)) in *.
    assert (G : vok c w /\ rsz c w <= N.max (size_of (mem s (target o))) (size_of (mem (post c s o) (target o)))).
    { pose proof (step_DI c s o D W) as D'.
      destruct CC as [E|E|e d d' Hr M V Hw S|sz d' Ho M Hw R|e d d' Ho M C V Hw Hd Hb Hmd].
      - destruct (vok_di c _ _ w (di_keys c s D (target o)) E). split; [auto|lia].
      - destruct (vok_di c _ _ w (di_keys c _ D' (target o)) E). split; [auto|]. unfold post. lia.
      - pose proof (di_keys c s D (target o)) as K. rewrite M in K. destruct K as [d0 [Hv OK]].
        rewrite Hv in V, Hw. rewrite vget_vset in V. injection V as ->. rewrite vset_vset in Hw. rewrite Hw.
        destruct (vok_rm c e d d' OK S). split; [auto|]. rewrite M. cbn [size_of]. lia.
      - rewrite Hw. unfold vok, rsz, rec_view. cbn [fst snd rec_comp]. rewrite R. cbn. split; [reflexivity|lia].
      - pose proof (di_keys c s D (target o)) as K. rewrite M in K. destruct K as [d0 [Hv [b [Hd0 [Hl _]]]]].
        unfold area_of in Hv. rewrite C in Hv. cbn in Hv. rewrite V in Hv. injection Hv as <-.
        rewrite Hw. unfold vok, rsz, rec_view. cbn [fst snd rec_comp]. rewrite Hd, Hd0, rec_inc_none. cbn [fst snd size_of e_size].
        split; [|rewrite M; cbn [size_of]; lia].
        exists d'. split; [reflexivity|]. apply dir_ok_complete. congruence. }
    destruct G. repeat split; auto. intros H'. now elim H'.
  - rewrite crash_other by exact Hy.
    destruct (vok_di c _ _ (blobs (disk s) y) (di_keys c s D y) (veq_refl _)). repeat split; auto. intros; contradiction.
Qed.

Lemma crash_dom : forall c s o k, DI c s -> dom_ok (crash c s o k) /\ NoDup (dom (crash c s o k)) /\
  incl (dom (disk s)) (dom (crash c s o k)) /\ incl (dom (crash c s o k)) (dom (disk (post c s o))).
Proof.
  intros c s o k D. unfold crash. repeat split.
  - apply dom_ok_exec, (di_dom c s D).
  - apply dom_exec_nodup, (di_nodup c s D).
  - intros x H. apply dom_exec. now left.
  - intros x H. unfold post. rewrite step_disk. apply dom_exec in H. apply dom_exec.
    destruct H as [H|[cl [H1 H2]]]; [now left|right]. exists cl. split; [|exact H2].
    rewrite <- (firstn_skipn k (calls_of (step c s o))). apply in_or_app. now left.
Qed.

(* ---------------------------------------------------------------- reopening succeeds and re-establishes DI *)
Lemma recover_some : forall c s o k, DI c s -> wf_op c s o = true -> exists s', recover c (crash c s o k) = Some s'.
Proof.
  intros c s o k D W. unfold recover.
  set (f := crash c s o k). set (m := fun y => fst (rec_view (c_ri c) (blobs f y))).
  destruct (crash_dom c s o k D) as [DO [ND [I1 I2]]]. fold f in DO, ND, I1, I2.
  pose proof (step_DI c s o D W) as D'. fold (post c s o) in D'.
  assert (B : sum_sizes m (dom f) <= c_cap c).
  { destruct (N.le_ge_cases (size_of (mem (post c s o) (target o))) (size_of (mem s (target o)))) as [L|L].
    - (* bounded by the state before *)
      apply N.le_trans with (sum_sizes (mem s) (dom f)).
      + apply sum_le. intros y _. destruct (crash_key c s o k y D W) as [_ [K1 K2]]. fold f in K1, K2.
        unfold m. change (size_of (fst (rec_view (c_ri c) (blobs f y)))) with (rsz c (blobs f y)).
        destruct (N.eq_dec y (target o)) as [->|Hy]; [specialize (K2 eq_refl); lia|auto].
      + rewrite (sum_support (mem s) (dom f) (dom (disk s))); auto using (di_nodup c s D).
        * rewrite <- (di_sum c s D). apply (di_cap c s D).
        * intros x Hx. apply I1. eapply di_support; eauto.
        * intros x Hx. eapply di_support; eauto.
    - (* bounded by the state after *)
      apply N.le_trans with (sum_sizes (mem (post c s o)) (dom f)).
      + apply sum_le. intros y _. destruct (crash_key c s o k y D W) as [_ [K1 K2]]. fold f in K1, K2.
        unfold m. change (size_of (fst (rec_view (c_ri c) (blobs f y)))) with (rsz c (blobs f y)).
        destruct (N.eq_dec y (target o)) as [->|Hy]; [specialize (K2 eq_refl); lia|].
        unfold post. rewrite step_mem_other by exact Hy. auto.
      + apply N.le_trans with (sum_sizes (mem (post c s o)) (dom (disk (post c s o)))).
        * now apply sum_incl_le.
        * rewrite <- (di_sum c _ D'). apply (di_cap c _ D'). }
  apply N.leb_le in B. rewrite B. eauto.
Qed.

Lemma recover_DI : forall c f s', (forall y, vok c (blobs f y)) -> dom_ok f -> NoDup (dom f) ->
  recover c f = Some s' -> DI c s'.
Proof.
  intros c f s' V DO ND R. unfold recover in R.
  destruct (sum_sizes _ (dom f) <=? c_cap c) eqn:B; [|discriminate]. injection R as <-.
  constructor; cbn [mem msize disk blobs dom].
  - intros x. apply V.
  - intros x H. apply DO. intro E. apply H. cbn [blobs]. rewrite E. destruct (c_ri c); reflexivity.
  - exact ND.
  - reflexivity.
  - now apply N.leb_le.
Qed.

Lemma crash_recover_DI : forall c s o k s', DI c s -> wf_op c s o = true ->
  recover c (crash c s o k) = Some s' -> DI c s'.
Proof.
  intros c s o k s' D W R. destruct (crash_dom c s o k D) as [DO [ND _]].
  eapply recover_DI; eauto. intros y. now destruct (crash_key c s o k y D W).
Qed.

Theorem reach_DI : forall c s, reach c s -> DI c s.
Proof.
  intros c s H. induction H.
  - apply DI_init.
  - now apply step_DI.
  - eapply crash_recover_DI; eauto.
Qed.
