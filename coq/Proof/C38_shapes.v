(* C38: what a path accepted by each pattern looks like (declarative matches in flat form).
   These are the "paths that do not follow the layout are rejected" statements: a match exists
   only for  prefix "/" keyword "/" components...  with the captured text at the named place. *)
From Coq Require Import List NArith Arith Bool Lia.
From K.Gen Require Import C38_consts.
From K.Model Require Import C38.
From K.Proof Require Import C38_engine C38_segs C38_tac.
Import ListNotations.
Local Open Scope N_scope.

Definition cls (cs : cset) (u : list N) : Prop := u <> [] /\ forallb (cs_in cs) u = true.
Definition pre_ok (pre : list N) : Prop := pre <> [] /\ forallb (cs_in Dot) pre = true.

Ltac norm := unfold sls, sl; rewrite ?app_nil_r; repeat (progress (rewrite <- ?app_assoc; cbn [app])).
Ltac ssolve :=
  repeat match goal with
  | |- _ /\ _ => split
  | |- exists _, _ => eexists
  | |- _ = _ => reflexivity
  | |- _ <> _ => eassumption
  | |- forallb _ _ = true => eassumption
  | |- length _ = _ => eassumption
  | |- _ \/ _ => first [ left; solve [ssolve] | right; solve [ssolve] ]
  end.
Ltac shape H := dD H; subst; unfold cls, pre_ok; norm; solve [ssolve].

(* hashstates/<algo>[/<offset>] at the end of the path *)
Definition sh_hs (tail : list N) : Prop :=
  (exists a, tail = s_hashstates ++ SL :: a /\ cls cs_alnum a)
  \/ (exists a o, tail = s_hashstates ++ SL :: a ++ SL :: o /\ cls cs_alnum a /\ cls cs_digit o).
Lemma shape_hs t1 t2 c : D hs_tail t1 t2 c -> t2 = [] /\ c = [] /\ sh_hs t1.
Proof. intros H. unfold sh_hs. shape H. Qed.

(* GetUploadUUID *)
Definition sh_uuid (t1 t2 : list N) (c : list (list N)) : Prop :=
  t2 = [] /\ exists pre u tail, t1 = pre ++ SL :: s_uploads ++ SL :: u ++ SL :: tail /\ c = [u] /\ pre_ok pre /\ cls cs_noslash u
    /\ (tail = s_data \/ tail = s_startedat \/ sh_hs tail).
Lemma shape_uuid t1 t2 c : D ast_get_upload_uuid t1 t2 c -> sh_uuid t1 t2 c.
Proof. intros H. unfold sh_uuid, sh_hs. shape H. Qed.

(* matchUploadsPath, first pattern (not anchored at the end after `hashstates`) *)
Definition sh_mu (t1 t2 : list N) (c : list (list N)) : Prop :=
  exists pre u st, t1 = pre ++ SL :: s_uploads ++ SL :: u ++ SL :: st /\ c = [st] /\ pre_ok pre /\ cls cs_noslash u
    /\ ((st = s_data /\ t2 = []) \/ (st = s_startedat /\ t2 = []) \/ st = s_hashstates).
Lemma shape_mu t1 t2 c : D ast_match_uploads t1 t2 c -> sh_mu t1 t2 c.
Proof. intros H. unfold sh_mu. shape H. Qed.

(* matchUploadsPath, second pattern *)
Definition sh_muh (t1 t2 : list N) (c : list (list N)) : Prop :=
  t2 = [] /\ exists pre u tail, t1 = pre ++ SL :: s_uploads ++ SL :: u ++ SL :: tail /\ c = [] /\ pre_ok pre /\ cls cs_noslash u /\ sh_hs tail.
Lemma shape_muh t1 t2 c : D ast_match_uploads_hashstates t1 t2 c -> sh_muh t1 t2 c.
Proof. intros H. unfold sh_muh, sh_hs. shape H. Qed.

(* GetUploadAlgoAndOffset *)
Definition sh_algo (t1 t2 : list N) (c : list (list N)) : Prop :=
  t2 = [] /\ exists pre u a o, t1 = pre ++ SL :: s_uploads ++ SL :: u ++ SL :: s_hashstates ++ SL :: a ++ SL :: o /\ c = [a; o]
    /\ pre_ok pre /\ cls cs_noslash u /\ cls cs_alnum a /\ cls cs_digit o.
Lemma shape_algo t1 t2 c : D ast_get_upload_algo_offset t1 t2 c -> sh_algo t1 t2 c.
Proof. intros H. unfold sh_algo. shape H. Qed.

(* matchManifestsPath *)
Definition sh_mm (t1 t2 : list N) (c : list (list N)) : Prop :=
  t2 = [] /\ exists pre st, c = [st]
    /\ (t1 = pre ++ SL :: s_manifests ++ SL :: st
        \/ exists mid, t1 = pre ++ SL :: s_manifests ++ SL :: st ++ SL :: mid ++ SL :: s_link /\ pre_ok mid)
    /\ pre_ok pre /\ (st = s_tags \/ st = s_revisions).
Lemma shape_mm t1 t2 c : D ast_match_manifests t1 t2 c -> sh_mm t1 t2 c.
Proof. intros H. unfold sh_mm. shape H. Qed.

(* GetManifestTag *)
Definition sh_tag (t1 t2 : list N) (c : list (list N)) : Prop :=
  t2 = [] /\ exists pre t x, c = [t; x]
    /\ ((x = s_current /\ t1 = pre ++ SL :: s_manifests ++ SL :: s_tags ++ SL :: t ++ SL :: s_current ++ SL :: s_link)
        \/ exists h, x = s_index ++ SL :: s_sha256 ++ SL :: h
             /\ t1 = pre ++ SL :: s_manifests ++ SL :: s_tags ++ SL :: t ++ SL :: s_index ++ SL :: s_sha256 ++ SL :: h ++ SL :: s_link
             /\ cls c09az h)
    /\ pre_ok pre /\ cls cs_noslash t.
Lemma shape_tag t1 t2 c : D ast_get_manifest_tag t1 t2 c -> sh_tag t1 t2 c.
Proof. intros H. unfold sh_tag. shape H. Qed.

(* GetManifestDigest *)
Definition sh_mdigest (t1 t2 : list N) (c : list (list N)) : Prop :=
  t2 = [] /\ exists pre h, c = [h]
    /\ (t1 = pre ++ SL :: s_manifests ++ SL :: s_revisions ++ SL :: s_sha256 ++ SL :: h ++ SL :: s_link
        \/ exists mid, t1 = pre ++ SL :: s_manifests ++ SL :: s_tags ++ SL :: mid ++ SL :: s_index ++ SL :: s_sha256 ++ SL :: h ++ SL :: s_link
             /\ pre_ok mid)
    /\ pre_ok pre /\ cls c09az h.
Lemma shape_mdigest t1 t2 c : D ast_get_manifest_digest t1 t2 c -> sh_mdigest t1 t2 c.
Proof. intros H. unfold sh_mdigest. shape H. Qed.

(* GetLayerDigest / matchLayersPath *)
Definition sh_layer (t1 t2 : list N) (h x : list N) : Prop :=
  t2 = [] /\ exists pre, t1 = pre ++ SL :: s_layers ++ SL :: s_sha256 ++ SL :: h ++ SL :: x
    /\ pre_ok pre /\ cls c09az h /\ (x = s_link \/ x = s_data).
Lemma shape_layer_digest t1 t2 c : D ast_get_layer_digest t1 t2 c -> exists h x, c = [h] /\ sh_layer t1 t2 h x.
Proof. intros H. unfold sh_layer. shape H. Qed.
Lemma shape_ml t1 t2 c : D ast_match_layers t1 t2 c -> exists h x, c = [x] /\ sh_layer t1 t2 h x.
Proof. intros H. unfold sh_layer. shape H. Qed.

(* GetBlobDigest / matchBlobsPath *)
Definition sh_blob (t1 t2 : list N) (h : list N) : Prop :=
  t2 = [] /\ exists pre h2, t1 = pre ++ SL :: s_blobs ++ SL :: s_sha256 ++ SL :: h2 ++ SL :: h ++ SL :: s_data
    /\ pre_ok pre /\ length h2 = 2%nat /\ forallb (cs_in c09az) h2 = true /\ cls c09az h.
Lemma shape_blob_digest t1 t2 c : D ast_get_blob_digest t1 t2 c -> exists h, c = [h] /\ sh_blob t1 t2 h.
Proof. intros H. unfold sh_blob. shape H. Qed.
Lemma shape_mb t1 t2 c : D ast_match_blobs t1 t2 c -> exists h, c = [] /\ sh_blob t1 t2 h.
Proof. intros H. unfold sh_blob. shape H. Qed.

(* GetRepo: the same declarative shape for the greedy (shipped) and the lazy (fixed) pattern *)
Definition sh_repo (t1 : list N) (c : list (list N)) : Prop :=
  exists pre repo kw, t1 = pre ++ SL :: s_repositories ++ SL :: repo ++ SL :: kw /\ c = [repo]
    /\ pre_ok pre /\ pre_ok repo /\ (kw = s_manifests \/ kw = s_layers \/ kw = s_uploads).
Lemma shape_repo t1 t2 c : D ast_get_repo t1 t2 c -> sh_repo t1 c.
Proof. intros H. unfold sh_repo. shape H. Qed.
Lemma shape_repo_prefix t1 t2 c : D ast_get_repo_prefix t1 t2 c -> sh_repo t1 c.
Proof. intros H. unfold sh_repo. shape H. Qed.

(* break a shape hypothesis into its components *)
Ltac dS H :=
  unfold sh_uuid, sh_mu, sh_muh, sh_algo, sh_mm, sh_tag, sh_mdigest, sh_layer, sh_blob, sh_repo, sh_hs, cls, pre_ok in H;
  repeat match goal with
  | H : exists _, _ |- _ => destruct H
  | H : _ /\ _ |- _ => destruct H
  | H : _ \/ _ |- _ => destruct H
  end.
