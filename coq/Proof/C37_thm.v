(* C37 — the readable corollaries: answers after any guarded history, last upload wins, not found,
   sizes, listings exactly once; witnesses outside the domain. *)
From Coq Require Import List NArith Bool Lia PeanoNat.
From K.Model Require Import C37.
From K.Proof Require Import PathLib C37_base C37_pages C37_engines C37_lists C37.
Import ListNotations.
Local Open Scope N_scope.

(* ------------------------------------------------------------------ prefixes of guarded histories *)

Lemma allowed_app : forall c ns ea eb sd a b,
  allowed c ns ea eb sd (a ++ b) <-> allowed c ns ea eb sd a /\ allowed c ns ea eb sd b.
Proof.
  intros c ns ea eb sd a b. induction a as [|o t IH]; cbn [app allowed]; [tauto|]. rewrite IH. tauto.
Qed.

Lemma names_of_app : forall a b, names_of (a ++ b) = names_of a ++ names_of b.
Proof.
  induction a as [|o t IH]; intros b; [reflexivity|].
  destruct o; cbn [app names_of]; rewrite IH; reflexivity.
Qed.

Lemma stores_from_app : forall a b sa sb,
  stores_from sa sb (a ++ b) = stores_from (fst (stores_from sa sb a)) (snd (stores_from sa sb a)) b.
Proof.
  induction a as [|o t IH]; intros b sa sb; [reflexivity|].
  destruct o as [n v|n|n|p md zss|k v|[|] n v]; cbn [app stores_from]; apply IH.
Qed.

(* after any prefix of a guarded history the state holds the contract's stores *)
Lemma holds_prefix : forall c ops ops2, guard c (ops ++ ops2) = true ->
  holds c (names_of (ops ++ ops2)) (fst (run c (init c) ops)) (spec_stores ops).
Proof.
  intros c ops ops2 H. unfold guard in H. unfold init, holds, spec_stores.
  set (ns := names_of (ops ++ ops2)). destruct (c_bk c) as [e|a b] eqn:Eb.
  - apply andb_true_iff in H. destruct H as [H Hs]. destruct (guard_e_props c e _ H) as [G [Hc Hr]].
    assert (Ha : allowed c ns e e false (ops ++ ops2)).
    { apply allowed_of_bools; [apply incl_refl|intros v Hv; split; apply Hc; exact Hv|exact Hr|intros _; exact Hs]. }
    apply allowed_app in Ha. destruct Ha as [Ha _].
    destruct (run_single c e ns false G ltac:(discriminate) ops (einit e) [] Ha (ERel_init c _ e)) as [_ [x' [I2 [I3 I4]]]].
    rewrite I2. auto.
  - apply andb_true_iff in H. destruct H as [Ha Hb].
    destruct (guard_e_props c a _ Ha) as [GA [Hca Hr]]. destruct (guard_e_props c b _ Hb) as [GB [Hcb _]].
    assert (Hal : allowed c ns a b true (ops ++ ops2)).
    { apply allowed_of_bools; [apply incl_refl|intros v Hv; split; [apply Hca|apply Hcb]; exact Hv|exact Hr|discriminate]. }
    apply allowed_app in Hal. destruct Hal as [Hal _].
    destruct (run_shadow c a b ns false GA GB ltac:(discriminate) ops (einit a) (einit b) [] [] Hal
                (ERel_init c _ a) (ERel_init c _ b)) as [_ [xa [xb [I2 [I3 I4]]]]].
    rewrite I2. auto.
Qed.

Lemma guard_parts : forall c ops, guard c ops = true ->
  EGuard c (active c) (names_of ops) /\
  match c_bk c with Single _ => True | Shadow _ b => EGuard c b (names_of ops) end /\
  (forall v, In v (contents_of ops) -> cont_ok c (active c) v = true /\
     match c_bk c with Single _ => True | Shadow _ b => cont_ok c b v = true end).
Proof.
  intros c ops H. unfold guard in H. unfold active. destruct (c_bk c) as [e|a b].
  - apply andb_true_iff in H. destruct H as [H _]. destruct (guard_e_props c e _ H) as [G [Hc _]].
    split; [exact G|]. split; [exact I|]. intros v Hv. split; [apply Hc; exact Hv|exact I].
  - apply andb_true_iff in H. destruct H as [Ha Hb].
    destruct (guard_e_props c a _ Ha) as [GA [Hca _]]. destruct (guard_e_props c b _ Hb) as [GB [Hcb _]].
    split; [exact GA|]. split; [exact GB|]. intros v Hv. split; [apply Hca|apply Hcb]; exact Hv.
Qed.

Lemma in_names_last : forall ops o n,
  (o = Download n \/ o = Stat n \/ (exists v, o = Upload n v)) -> In n (names_of (ops ++ [o])).
Proof.
  intros ops o n H. rewrite names_of_app. apply in_or_app. right.
  destruct H as [->|[->|[v ->]]]; left; reflexivity.
Qed.

(* ------------------------------------------------------------------ the answer to the next operation *)

Theorem download_refines : forall c ops n, guard c (ops ++ [Download n]) = true ->
  snd (step c (fst (run c (init c) ops)) (Download n)) = get_spec (sget n (fst (spec_stores ops))).
Proof.
  intros c ops n H. pose proof (holds_prefix c ops _ H) as Hh. destruct (guard_parts c _ H) as [GA [GB _]].
  assert (Hn : In n (names_of (ops ++ [Download n]))) by (apply in_names_last; auto).
  set (ns := names_of (ops ++ [Download n])) in *.
  unfold holds, active in *. destruct (c_bk c) as [e|a b]; destruct (fst (run c (init c) ops)) as [x|xa xb]; try contradiction.
  - destruct Hh as [R _]. cbn [step]. rewrite (estep_download c _ e x _ n GA R Hn). reflexivity.
  - destruct Hh as [RA _]. cbn [step].
    rewrite (shadow_download (estep c) (estep c) (ERel c _ a) (fun n0 => In n0 ns)
               (fun x s n R Hn => estep_download c _ a x s n GA R Hn) xa xb _ n RA Hn). reflexivity.
Qed.

Theorem stat_refines : forall c ops n, guard c (ops ++ [Stat n]) = true ->
  snd (step c (fst (run c (init c) ops)) (Stat n)) =
  match sget n (snd (spec_stores ops)) with
  | Some _ => stat_spec (tracks_size (active c)) (sget n (fst (spec_stores ops)))
  | None => ONotFound
  end.
Proof.
  intros c ops n H. pose proof (holds_prefix c ops _ H) as Hh. destruct (guard_parts c _ H) as [GA [GB _]].
  assert (Hn : In n (names_of (ops ++ [Stat n]))) by (apply in_names_last; auto).
  set (ns := names_of (ops ++ [Stat n])) in *.
  unfold holds, active in *. destruct (c_bk c) as [e|a b]; destruct (fst (run c (init c) ops)) as [x|xa xb]; try contradiction.
  - destruct Hh as [R E]. cbn [step]. rewrite (estep_stat c _ e x _ n GA R Hn). cbn [snd]. rewrite E.
    destruct (sget n (fst (spec_stores ops))); reflexivity.
  - destruct Hh as [RA RB]. cbn [step].
    rewrite (shadow_stat_both (estep c) (estep c) (ERel c _ a) (ERel c _ b) (fun n0 => In n0 ns)
               (tracks_size a) (tracks_size b)
               (fun x s n R Hn => estep_stat c _ a x s n GA R Hn)
               (fun x s n R Hn => estep_stat c _ b x s n GB R Hn) xa xb _ _ n RA RB Hn). reflexivity.
Qed.

Theorem upload_refines : forall c ops n v, guard c (ops ++ [Upload n v]) = true ->
  snd (step c (fst (run c (init c) ops)) (Upload n v)) = OOk.
Proof.
  intros c ops n v H. pose proof (holds_prefix c ops _ H) as Hh. destruct (guard_parts c _ H) as [GA [GB Hc]].
  assert (Hn : In n (names_of (ops ++ [Upload n v]))) by (apply in_names_last; right; right; eauto).
  assert (Hv : In v (contents_of (ops ++ [Upload n v]))).
  { clear. induction ops as [|o t IH]; [left; reflexivity|]. destruct o; cbn [app contents_of]; auto; right; exact IH. }
  specialize (Hc v Hv). destruct Hc as [Hca Hcb].
  unfold holds, active in *. destruct (c_bk c) as [e|a b]; destruct (fst (run c (init c) ops)) as [x|xa xb]; try contradiction.
  - destruct Hh as [R _]. cbn [step]. destruct (estep_upload c _ e x _ n v GA R Hn Hca) as [x' [E _]]. rewrite E. reflexivity.
  - destruct Hh as [RA RB]. cbn [step].
    destruct (estep_upload c _ a xa _ n v GA RA Hn Hca) as [xa' [Ea _]].
    destruct (estep_upload c _ b xb _ n v GB RB Hn Hcb) as [xb' [Eb _]].
    cbn [shadow_step]. rewrite Ea, Eb. reflexivity.
Qed.

Theorem list_refines : forall c ops p md zss,
  guard c (ops ++ [List p md zss]) = true -> guard_list c (active c) (ops ++ [List p md zss]) = true ->
  list_ok (active c) md (expected c (active c) p (fst (spec_stores ops)))
          (snd (step c (fst (run c (init c) ops)) (List p md zss))) = true.
Proof.
  intros c ops p md zss H Hl. pose proof (holds_prefix c ops _ H) as Hh. destruct (guard_parts c _ H) as [GA _].
  pose proof (guard_list_props c _ _ Hl) as Hr.
  unfold holds, active in *. destruct (c_bk c) as [e|a b]; destruct (fst (run c (init c) ops)) as [x|xa xb]; try contradiction.
  - destruct Hh as [R _]. cbn [step]. destruct (estep_list c _ e x _ p md zss GA R Hr) as [r [E1 E2]]. rewrite E1. exact E2.
  - destruct Hh as [RA _]. cbn [step shadow_step].
    destruct (estep_list c _ a xa _ p md zss GA RA Hr) as [r [E1 E2]]. rewrite E1. exact E2.
Qed.

(* ------------------------------------------------------------------ facts about the contract's stores *)

(* no later write to n in the store read by Download (active) / in the store also consulted by Stat (shadow) *)
Definition untouched_a (n : str) (ops : list op) : bool :=
  forallb (fun o => match o with
                    | Upload n' _ | SideUpload false n' _ => negb (str_eqb n' n)
                    | _ => true end) ops.
Definition untouched_b (n : str) (ops : list op) : bool :=
  forallb (fun o => match o with
                    | Upload n' _ | SideUpload true n' _ => negb (str_eqb n' n)
                    | _ => true end) ops.

Lemma sget_sset_same : forall n v s, sget n (sset n v s) = Some v.
Proof. intros. apply (aget_aset_same str_eqb str_eqb_eq). Qed.
Lemma sget_sset_other : forall n n' v s, n' <> n -> sget n (sset n' v s) = sget n s.
Proof. intros. apply (aget_aset_other str_eqb str_eqb_eq). assumption. Qed.

Lemma untouched_a_get : forall n ops sa sb, untouched_a n ops = true ->
  sget n (fst (stores_from sa sb ops)) = sget n sa.
Proof.
  intros n. induction ops as [|o t IH]; intros sa sb H; [reflexivity|].
  unfold untouched_a in *. cbn [forallb] in H. apply andb_true_iff in H. destruct H as [H1 H2].
  destruct o as [n' v|n'|n'|p md zss|k v|[|] n' v]; cbn [stores_from]; rewrite (IH _ _ H2); try reflexivity;
    apply sget_sset_other; apply str_eqb_neq; apply negb_true_iff; exact H1.
Qed.

Lemma untouched_b_get : forall n ops sa sb, untouched_b n ops = true ->
  sget n (snd (stores_from sa sb ops)) = sget n sb.
Proof.
  intros n. induction ops as [|o t IH]; intros sa sb H; [reflexivity|].
  unfold untouched_b in *. cbn [forallb] in H. apply andb_true_iff in H. destruct H as [H1 H2].
  destruct o as [n' v|n'|n'|p md zss|k v|[|] n' v]; cbn [stores_from]; rewrite (IH _ _ H2); try reflexivity;
    apply sget_sset_other; apply str_eqb_neq; apply negb_true_iff; exact H1.
Qed.

Lemma spec_after_upload : forall ops n v ops',
  untouched_a n ops' = true ->
  sget n (fst (spec_stores (ops ++ Upload n v :: ops'))) = Some v.
Proof.
  intros ops n v ops' H. unfold spec_stores. rewrite stores_from_app. cbn [stores_from].
  rewrite (untouched_a_get _ _ _ _ H). apply sget_sset_same.
Qed.

Lemma spec_after_upload_b : forall ops n v ops',
  untouched_b n ops' = true ->
  sget n (snd (spec_stores (ops ++ Upload n v :: ops'))) = Some v.
Proof.
  intros ops n v ops' H. unfold spec_stores. rewrite stores_from_app. cbn [stores_from].
  rewrite (untouched_b_get _ _ _ _ H). apply sget_sset_same.
Qed.

(* ------------------------------------------------------------------ the clauses of the property *)

(* exactly the bytes last uploaded under the name *)
Theorem last_upload_wins : forall c ops n v ops',
  guard c ((ops ++ Upload n v :: ops') ++ [Download n]) = true -> untouched_a n ops' = true ->
  snd (step c (fst (run c (init c) (ops ++ Upload n v :: ops'))) (Download n)) = OBytes v.
Proof.
  intros c ops n v ops' G U. rewrite (download_refines c _ n G), (spec_after_upload ops n v ops' U). reflexivity.
Qed.

(* that size from Stat, where the client tracks sizes (sql reports 0) *)
Theorem stat_size : forall c ops n v ops',
  guard c ((ops ++ Upload n v :: ops') ++ [Stat n]) = true ->
  untouched_a n ops' = true -> untouched_b n ops' = true ->
  snd (step c (fst (run c (init c) (ops ++ Upload n v :: ops'))) (Stat n)) =
  OSize (if tracks_size (active c) then len v else 0).
Proof.
  intros c ops n v ops' G Ua Ub.
  rewrite (stat_refines c _ n G), (spec_after_upload ops n v ops' Ua), (spec_after_upload_b ops n v ops' Ub). reflexivity.
Qed.

(* not found for names never uploaded *)
Theorem never_uploaded_download : forall c ops n,
  guard c (ops ++ [Download n]) = true -> untouched_a n ops = true ->
  snd (step c (fst (run c (init c) ops)) (Download n)) = ONotFound.
Proof.
  intros c ops n G U. rewrite (download_refines c _ n G). unfold spec_stores.
  rewrite (untouched_a_get n ops [] [] U). reflexivity.
Qed.

Theorem never_uploaded_stat : forall c ops n,
  guard c (ops ++ [Stat n]) = true -> untouched_a n ops = true ->
  snd (step c (fst (run c (init c) ops)) (Stat n)) = ONotFound.
Proof.
  intros c ops n G U. rewrite (stat_refines c _ n G). unfold spec_stores.
  rewrite (untouched_a_get n ops [] [] U). cbn. destruct (sget n _); reflexivity.
Qed.

(* ---- listings, in propositional form *)

Lemma expected_in : forall c e p s x, (e = KSql -> p <> []) ->
  In x (expected c e p s) <-> sget x s <> None /\ under c e p x = true.
Proof.
  intros c e p s x Hp.
  assert (E : expected c e p s = filter (under c e p) (akeys s)).
  { unfold expected. destruct e; try reflexivity. destruct p; [exfalso; apply Hp; reflexivity|reflexivity]. }
  rewrite E, filter_In. unfold sget. split; intros [H1 H2]; (split; [|exact H2]).
  - destruct (aget_in_some str_eqb str_eqb_eq _ _ H1) as [v Hv]. congruence.
  - destruct (aget str_eqb x s) eqn:Eg; [eapply aget_some_in; [exact str_eqb_eq|exact Eg]|congruence].
Qed.

(* a paginated S3 listing: every stored name under the prefix exactly once across its pages,
   for every MaxKeys and every page-size oracle of every call *)
Theorem s3_listing_exactly_once : forall c ops p k zss,
  c_bk c = Single KS3 ->
  guard c (ops ++ [List p (Paged k) zss]) = true ->
  guard_list c KS3 (ops ++ [List p (Paged k) zss]) = true ->
  exists l, snd (step c (fst (run c (init c) ops)) (List p (Paged k) zss)) = OPages l /\
    last_tok l = 0 /\
    NoDup (concat (map fst l)) /\
    forall x, In x (concat (map fst l)) <->
              sget x (fst (spec_stores ops)) <> None /\ under c KS3 p x = true.
Proof.
  intros c ops p k zss Hb G Gl.
  assert (Ha : active c = KS3) by (unfold active; rewrite Hb; reflexivity).
  pose proof (list_refines c ops p (Paged k) zss G) as H. rewrite Ha in H. specialize (H Gl).
  destruct (snd (step c (fst (run c (init c) ops)) (List p (Paged k) zss))) as [| | | | | |l]; try discriminate.
  exists l. split; [reflexivity|]. cbn [list_ok] in H. apply andb_true_iff in H. destruct H as [H1 H2].
  apply N.eqb_eq in H1. apply same_names_iff in H2. destruct H2 as [H2 H3].
  split; [exact H1|]. split; [exact H2|]. intros x. rewrite H3. apply expected_in. discriminate.
Qed.

(* a non-paginated listing of testfs / sql (one page): exactly the stored names under the prefix *)
Theorem single_page_listing_exact : forall c e ops p l zss,
  c_bk c = Single e -> (e = KSql -> p <> []) ->
  guard c (ops ++ [List p Unpaged zss]) = true ->
  guard_list c e (ops ++ [List p Unpaged zss]) = true ->
  snd (step c (fst (run c (init c) ops)) (List p Unpaged zss)) = OPages [(l, 0)] ->
  NoDup l /\ forall x, In x l <-> sget x (fst (spec_stores ops)) <> None /\ under c e p x = true.
Proof.
  intros c e ops p l zss Hb Hp G Gl Ho.
  assert (Ha : active c = e) by (unfold active; rewrite Hb; reflexivity).
  pose proof (list_refines c ops p Unpaged zss G) as H. rewrite Ha in H. specialize (H Gl). rewrite Ho in H.
  assert (Hs : same_names l (expected c e p (fst (spec_stores ops))) = true) by (destruct e; exact H).
  apply same_names_iff in Hs. destruct Hs as [H1 H2]. split; [exact H1|].
  intros x. rewrite H2. apply expected_in. exact Hp.
Qed.
