(* C17, part 1: list facts, the component form of the invariant and the primitive
   state updates that preserve it. *)
From Coq Require Import List NArith Bool Lia Permutation PeanoNat.
From K.Model Require Import C17.
Import ListNotations.
Local Open Scope N_scope.

(* ---------- small list facts ---------- *)
Lemma memb_In x l : memb x l = true <-> In x l.
Proof.
  unfold memb. rewrite existsb_exists. split.
  - intros [y [Hy He]]. apply N.eqb_eq in He. subst. exact Hy.
  - intros H. exists x. split; [exact H | apply N.eqb_refl].
Qed.

Lemma nodupb_NoDup l : nodupb l = true <-> NoDup l.
Proof.
  induction l as [|x t IH]; cbn [nodupb].
  - split; [constructor | reflexivity].
  - rewrite andb_true_iff, negb_true_iff, IH. split.
    + intros [Hm Hn]. constructor; [|exact Hn]. intros Hi. apply memb_In in Hi. congruence.
    + intros H. inversion H as [|? ? Hni Hnd]; subst. split; [|exact Hnd].
      destruct (memb x t) eqn:E; [|reflexivity]. apply memb_In in E. contradiction.
Qed.

Lemma map_fst_tag (r : res) ws : map fst (map (fun w : N => (w, r)) ws) = ws.
Proof. induction ws as [|w t IH]; cbn; [reflexivity | now rewrite IH]. Qed.

Lemma map_fst_deliver ws r rs : map fst (deliver ws r rs) = map fst rs ++ ws.
Proof. unfold deliver. now rewrite map_app, map_fst_tag. Qed.

Lemma in_deliver w r0 ws r rs :
  In (w, r0) (deliver ws r rs) <-> In (w, r0) rs \/ (r0 = r /\ In w ws).
Proof.
  unfold deliver. rewrite in_app_iff, in_map_iff. split.
  - intros [H|[x [He Hi]]]; [now left|]. inversion He; subst. now right.
  - intros [H|[-> Hi]]; [now left|]. right. now exists w.
Qed.

(* permutations of concatenations, by counting *)
Lemma perm_count (l1 l2 : list N) :
  (forall x, count_occ N.eq_dec l1 x = count_occ N.eq_dec l2 x) -> Permutation l1 l2.
Proof. intros H. apply (Permutation_count_occ N.eq_dec). exact H. Qed.

Ltac perm_solve :=
  apply perm_count; intro;
  repeat (rewrite ?count_occ_app; cbn [count_occ]);
  repeat match goal with |- context [N.eq_dec ?a ?b] => destruct (N.eq_dec a b) end;
  lia.

(* ---------- waiters ---------- *)
Lemma all_waiters_app a b : all_waiters (a ++ b) = all_waiters a ++ all_waiters b.
Proof. induction a as [|c t IH]; cbn [all_waiters app]; [reflexivity|]. now rewrite IH, app_assoc. Qed.

Lemma in_all_waiters w cs : In w (all_waiters cs) <-> exists c, In c cs /\ In w (c_errors c).
Proof.
  induction cs as [|c t IH]; cbn [all_waiters].
  - split; [intros [] | intros [c [[] _]]].
  - rewrite in_app_iff, IH. split.
    + intros [H|[c' [Hc Hw]]]; [exists c; split; [now left|exact H] | exists c'; split; [now right|exact Hw]].
    + intros [c' [[->|Hc] Hw]]; [now left | right; now exists c'].
Qed.

Lemma all_waiters_clear cs :
  all_waiters (map (fun c => mkC (c_hash c) (c_disp c) [] (c_lastw c) (c_lastr c)) cs) = [].
Proof. induction cs as [|c t IH]; cbn [all_waiters map c_errors app]; [reflexivity | exact IH]. Qed.

(* ---------- controls are keyed by hash ---------- *)
Lemma find_ctrl_hash h cs c : find_ctrl h cs = Some c -> c_hash c = h /\ In c cs.
Proof.
  induction cs as [|a t IH]; cbn [find_ctrl]; [discriminate|].
  destruct (N.eqb_spec (c_hash a) h) as [E|E].
  - intros H. inversion H; subst. split; [reflexivity | now left].
  - intros H. destruct (IH H) as [H1 H2]. split; [exact H1 | now right].
Qed.

Lemma find_ctrl_none h cs : find_ctrl h cs = None <-> ~ In h (map c_hash cs).
Proof.
  induction cs as [|a t IH]; cbn [find_ctrl map In].
  - split; [intros _ [] | reflexivity].
  - destruct (N.eqb_spec (c_hash a) h) as [E|E].
    + split; [discriminate | intros H; exfalso; apply H; now left].
    + rewrite IH. split; [intros H [H1|H1]; [contradiction | contradiction] | intros H H1; apply H; now right].
Qed.

Lemma drop_ctrl_notin h cs : ~ In h (map c_hash cs) -> drop_ctrl h cs = cs.
Proof.
  induction cs as [|a t IH]; [reflexivity|]. change (drop_ctrl h (a :: t)) with
    (if negb (N.eqb (c_hash a) h) then a :: drop_ctrl h t else drop_ctrl h t). cbn [map In].
  intros H. destruct (N.eqb_spec (c_hash a) h) as [E|E]; [exfalso; apply H; now left|].
  cbn [negb]. f_equal. apply IH. intros H1. apply H. now right.
Qed.

Lemma replace_ctrl_cons c' a t :
  replace_ctrl c' (a :: t) = (if N.eqb (c_hash a) (c_hash c') then c' else a) :: replace_ctrl c' t.
Proof. reflexivity. Qed.
Lemma drop_ctrl_cons h a t :
  drop_ctrl h (a :: t) = if negb (N.eqb (c_hash a) h) then a :: drop_ctrl h t else drop_ctrl h t.
Proof. reflexivity. Qed.

Lemma replace_ctrl_notin c' cs : ~ In (c_hash c') (map c_hash cs) -> replace_ctrl c' cs = cs.
Proof.
  induction cs as [|a t IH]; [reflexivity|]. rewrite replace_ctrl_cons. cbn [map In].
  intros H. destruct (N.eqb_spec (c_hash a) (c_hash c')) as [E|E]; [exfalso; apply H; now left|].
  f_equal. apply IH. intros H1. apply H. now right.
Qed.

Lemma find_ctrl_split h cs c : find_ctrl h cs = Some c -> NoDup (map c_hash cs) ->
  exists l1 l2, cs = l1 ++ c :: l2 /\ c_hash c = h /\ drop_ctrl h cs = l1 ++ l2 /\
    (forall c', c_hash c' = h -> replace_ctrl c' cs = l1 ++ c' :: l2).
Proof.
  induction cs as [|a t IH]; cbn [find_ctrl]; [discriminate|].
  intros H Hnd. cbn [map] in Hnd. inversion Hnd as [|? ? Hni Hnd']; subst.
  destruct (N.eqb_spec (c_hash a) h) as [E|E].
  - inversion H; subst. exists [], t. cbn [app]. repeat split.
    + rewrite drop_ctrl_cons, N.eqb_refl. cbn [negb]. now apply drop_ctrl_notin.
    + intros c' Hc'. rewrite replace_ctrl_cons, Hc', N.eqb_refl. f_equal.
      apply replace_ctrl_notin. now rewrite Hc'.
  - destruct (IH H Hnd') as [l1 [l2 [H1 [H2 [H3 H4]]]]]. exists (a :: l1), l2. cbn [app]. repeat split.
    + now rewrite H1.
    + exact H2.
    + rewrite drop_ctrl_cons. destruct (N.eqb_spec (c_hash a) h); [contradiction|]. cbn [negb].
      f_equal. exact H3.
    + intros c' Hc'. rewrite replace_ctrl_cons. destruct (N.eqb_spec (c_hash a) (c_hash c')); [congruence|].
      f_equal. now apply H4.
Qed.

Lemma In_find_ctrl cs c : NoDup (map c_hash cs) -> In c cs -> find_ctrl (c_hash c) cs = Some c.
Proof.
  induction cs as [|a t IH]; cbn [find_ctrl map]; [intros _ []|].
  intros Hnd [->|Hi].
  - now rewrite N.eqb_refl.
  - inversion Hnd as [|? ? Hni Hnd']; subst.
    destruct (N.eqb_spec (c_hash a) (c_hash c)) as [E|E].
    + exfalso. apply Hni. rewrite E. now apply in_map.
    + now apply IH.
Qed.

Lemma ctrl_unique cs a b : NoDup (map c_hash cs) -> In a cs -> In b cs -> c_hash a = c_hash b -> a = b.
Proof.
  intros Hnd Ha Hb E. pose proof (In_find_ctrl cs a Hnd Ha) as H1.
  pose proof (In_find_ctrl cs b Hnd Hb) as H2. rewrite E in H1. congruence.
Qed.

Lemma NoDup_hash_mid l1 (c c' : ctrl) l2 : c_hash c' = c_hash c ->
  NoDup (map c_hash (l1 ++ c :: l2)) -> NoDup (map c_hash (l1 ++ c' :: l2)).
Proof. intros E. rewrite !map_app. cbn [map]. now rewrite E. Qed.

Lemma NoDup_hash_drop l1 (c : ctrl) l2 :
  NoDup (map c_hash (l1 ++ c :: l2)) -> NoDup (map c_hash (l1 ++ l2)).
Proof. rewrite !map_app. cbn [map]. apply NoDup_remove_1. Qed.

Lemma drop_ctrl_incl h cs : incl (drop_ctrl h cs) cs.
Proof. intros c H. unfold drop_ctrl in H. now apply filter_In in H. Qed.

Lemma in_drop_ctrl h cs c : In c (drop_ctrl h cs) <-> In c cs /\ c_hash c <> h.
Proof.
  unfold drop_ctrl. rewrite filter_In, negb_true_iff, N.eqb_neq. tauto.
Qed.

Lemma find_drop_ctrl h cs : find_ctrl h (drop_ctrl h cs) = None.
Proof. apply find_ctrl_none. rewrite in_map_iff. intros [c [E H]]. apply in_drop_ctrl in H. tauto. Qed.

(* ---------- parked events ---------- *)
Lemma pending_callers_app a b : pending_callers (a ++ b) = pending_callers a ++ pending_callers b.
Proof.
  induction a as [|e t IH]; cbn [pending_callers app]; [reflexivity|].
  destruct e; cbn [app]; now rewrite ?IH.
Qed.

Lemma in_pending_callers w p : In w (pending_callers p) <-> exists t, In (PNew w t) p.
Proof.
  induction p as [|e l IH]; cbn [pending_callers].
  - split; [intros [] | intros [t []]].
  - destruct e; cbn [In]; rewrite ?IH; split;
      try (intros [t H]; exists t; now right);
      try (intros [t [H|H]]; [discriminate | now exists t]).
    + intros [->|[t0 H]]; [exists t; now left | exists t0; now right].
    + intros [t0 [H|H]]; [inversion H; now left | right; now exists t0].
Qed.

Lemma pev_eqb_eq a b : pev_eqb a b = true <-> a = b.
Proof.
  destruct a, b; cbn [pev_eqb]; rewrite ?andb_true_iff, ?N.eqb_eq;
    split; intros H; try discriminate; try reflexivity; try (destruct H; congruence);
    try (inversion H; auto).
Qed.

Lemma remove_first_split e p p' : remove_first_pev (pev_eqb e) p = Some p' ->
  exists l1 l2, p = l1 ++ e :: l2 /\ p' = l1 ++ l2.
Proof.
  revert p'. induction p as [|x t IH]; cbn [remove_first_pev]; [discriminate|].
  intros p'. destruct (pev_eqb e x) eqn:E.
  - intros H. inversion H; subst. apply pev_eqb_eq in E. subst. now exists [], p'.
  - destruct (remove_first_pev (pev_eqb e) t) eqn:R; [|discriminate].
    intros H. inversion H; subst. destruct (IH _ eq_refl) as [l1 [l2 [H1 H2]]]. subst.
    now exists (x :: l1), l2.
Qed.

Lemma remove_first_some e p : In e p -> exists p', remove_first_pev (pev_eqb e) p = Some p'.
Proof.
  induction p as [|x t IH]; cbn [remove_first_pev In]; [intros []|].
  intros H. destruct (pev_eqb e x) eqn:E; [now eexists|].
  destruct H as [->|H]; [assert (pev_eqb e e = true) by (now apply pev_eqb_eq); congruence|].
  destruct (IH H) as [p' ->]. now eexists.
Qed.

Lemma take_new_split w p t p' : take_new w p = Some (t, p') ->
  exists l1 l2, p = l1 ++ PNew w t :: l2 /\ p' = l1 ++ l2.
Proof.
  revert p'. induction p as [|x l IH]; cbn [take_new]; [discriminate|].
  intros p'. destruct (is_new w x) eqn:E.
  - intros H. inversion H; subst. destruct x; cbn [is_new] in E; try discriminate.
    destruct (N.eqb_spec w w0); [|discriminate]. inversion E; subst. now exists [], p'.
  - destruct (take_new w l) as [[t0 l']|] eqn:R; [|discriminate].
    intros H. inversion H; subst. destruct (IH _ eq_refl) as [l1 [l2 [H1 H2]]]. subst.
    now exists (x :: l1), l2.
Qed.

Lemma take_new_some w t p : In (PNew w t) p -> exists t' p', take_new w p = Some (t', p').
Proof.
  induction p as [|x l IH]; cbn [take_new In]; [intros []|].
  intros H. destruct (is_new w x) eqn:E; [now eexists; eexists|].
  destruct H as [->|H]; [cbn [is_new] in E; rewrite N.eqb_refl in E; discriminate|].
  destruct (IH H) as [t' [p' ->]]. now eexists; eexists.
Qed.

Lemma in_mid_other {A} (e x : A) l1 l2 : In x (l1 ++ e :: l2) -> x <> e -> In x (l1 ++ l2).
Proof. rewrite !in_app_iff. cbn [In]. intros [H|[H|H]] Hn; [now left | congruence | now right]. Qed.

Lemma in_mid_incl {A} (e x : A) l1 l2 : In x (l1 ++ l2) -> In x (l1 ++ e :: l2).
Proof. rewrite !in_app_iff. cbn [In]. tauto. Qed.

(* ---------- torrent objects ---------- *)
Definition tcomp (ts : list tor) (t : N) : bool :=
  match nth_error ts (N.to_nat t) with Some x => t_complete x | None => false end.
Definition thash (ts : list tor) (t : N) : N :=
  match nth_error ts (N.to_nat t) with Some x => t_hash x | None => 0 end.
Definition tvalid (ts : list tor) (t : N) : Prop := (N.to_nat t < length ts)%nat.

Lemma tc_eq s t : tor_complete s t = tcomp (tors s) t. Proof. reflexivity. Qed.
Lemma th_eq s t : tor_hash s t = thash (tors s) t. Proof. reflexivity. Qed.

Lemma tcomp_valid ts t : tcomp ts t = true -> tvalid ts t.
Proof.
  unfold tcomp, tvalid. destruct (nth_error ts (N.to_nat t)) eqn:E; [|discriminate].
  intros _. apply nth_error_Some. congruence.
Qed.

Lemma tcomp_app ts x t : tvalid ts t -> tcomp (ts ++ [x]) t = tcomp ts t.
Proof. unfold tcomp, tvalid. intros H. now rewrite nth_error_app1. Qed.
Lemma thash_app ts x t : tvalid ts t -> thash (ts ++ [x]) t = thash ts t.
Proof. unfold thash, tvalid. intros H. now rewrite nth_error_app1. Qed.
Lemma tvalid_app ts x t : tvalid ts t -> tvalid (ts ++ [x]) t.
Proof. unfold tvalid. rewrite app_length. cbn [length]. lia. Qed.

Lemma new_tor_facts ts x : let t := N.of_nat (length ts) in
  tvalid (ts ++ [x]) t /\ thash (ts ++ [x]) t = t_hash x /\ tcomp (ts ++ [x]) t = t_complete x.
Proof.
  cbv zeta. unfold tvalid, thash, tcomp. rewrite Nnat.Nat2N.id, app_length. cbn [length].
  rewrite nth_error_app2, Nat.sub_diag by lia. cbn [nth_error]. repeat split. lia.
Qed.

Lemma nth_set_complete ts : forall n k,
  nth_error (set_complete_at n ts) k =
  match nth_error ts k with
  | Some x => Some (if Nat.eqb k n then mkT (t_hash x) true else x)
  | None => None
  end.
Proof.
  induction ts as [|x r IH]; intros n k.
  - destruct n; now destruct k.
  - destruct n as [|n]; destruct k as [|k]; cbn [set_complete_at nth_error Nat.eqb]; try reflexivity.
    + destruct (nth_error r k); reflexivity.
    + apply IH.
Qed.

Lemma thash_set n ts t : thash (set_complete_at n ts) t = thash ts t.
Proof.
  unfold thash. rewrite nth_set_complete. destruct (nth_error ts (N.to_nat t)); [|reflexivity].
  now destruct (Nat.eqb _ _).
Qed.

Lemma length_set_complete ts : forall n, length (set_complete_at n ts) = length ts.
Proof.
  induction ts as [|x r IH]; intros n; [now destruct n|].
  destruct n; cbn [set_complete_at length]; [reflexivity | now rewrite IH].
Qed.

Lemma tvalid_set n ts t : tvalid (set_complete_at n ts) t <-> tvalid ts t.
Proof. unfold tvalid. now rewrite length_set_complete. Qed.

Lemma tcomp_set d ts t : tcomp (set_complete_at (N.to_nat d) ts) t = true <->
  tcomp ts t = true \/ (t = d /\ tvalid ts d).
Proof.
  unfold tcomp, tvalid. rewrite nth_set_complete.
  destruct (nth_error ts (N.to_nat t)) eqn:E.
  - destruct (Nat.eqb_spec (N.to_nat t) (N.to_nat d)) as [H|H]; cbn [t_complete].
    + apply Nnat.N2Nat.inj in H. subst. split; [intros _; right; split; [reflexivity|] | reflexivity].
      apply nth_error_Some. congruence.
    + split; [now left | intros [H1|[H1 _]]; [exact H1 | subst; contradiction]].
  - split; [discriminate | intros [H|[-> H]]; [discriminate|]].
    apply nth_error_Some in H. contradiction.
Qed.

(* ---------- the invariant, on the components of the state ---------- *)
Record CoreC (ts : list tor) (cs : list ctrl) (p : list pev) (rs : list (N * res))
             (cl : list (N * N)) (sn : list N) (nw : N) : Prop := mkCore {
  (* one control per info hash *)
  k_hashes : NoDup (map c_hash cs);
  (* a control carries the hash of its dispatcher's torrent object *)
  k_ctrl : forall c, In c cs -> c_hash c = thash ts (c_disp c) /\ tvalid ts (c_disp c) /\ c_lastw c <= nw;
  (* its waiters asked for that hash *)
  k_ctrl_calls : forall c w, In c cs -> In w (c_errors c) -> In (w, c_hash c) cl;
  (* once the dispatcher is complete the blob has been in the cache since the waiters called *)
  k_ctrl_seen : forall c w, In c cs -> In w (c_errors c) -> tcomp ts (c_disp c) = true -> In w sn;
  (* waiters of a complete dispatcher are covered by its parked completion notice *)
  k_ctrl_notice : forall c, In c cs -> c_errors c <> [] -> tcomp ts (c_disp c) = true ->
                  In (PComplete (c_disp c)) p;
  (* a parked newTorrentEvent *)
  k_new : forall w t, In (PNew w t) p ->
          tvalid ts t /\ In (w, thash ts t) cl /\ (tcomp ts t = true -> In w sn);
  (* a parked completion notice comes from a complete dispatcher *)
  k_complete : forall d, In (PComplete d) p -> tcomp ts d = true;
  (* success was only reported for blobs seen in the cache *)
  k_nil : forall w, In (w, RNil) rs -> In w sn
}.

Definition liveC (rs : list (N * res)) (cs : list ctrl) (p : list pev) : list N :=
  map fst rs ++ all_waiters cs ++ pending_callers p.

Section Prim.
Variables (ts : list tor) (cs : list ctrl) (p : list pev) (rs : list (N * res))
          (cl : list (N * N)) (sn : list N) (nw : N).
Hypothesis K : CoreC ts cs p rs cl sn nw.

Lemma core_deliver ws r : (r = RNil -> forall w, In w ws -> In w sn) ->
  CoreC ts cs p (deliver ws r rs) cl sn nw.
Proof.
  intros H. destruct K. constructor; try assumption.
  intros w Hw. apply in_deliver in Hw. destruct Hw as [Hw|[Hr Hw]]; [auto | now apply H].
Qed.

Lemma live_deliver ws r : Permutation (liveC (deliver ws r rs) cs p) (ws ++ liveC rs cs p).
Proof. unfold liveC. rewrite map_fst_deliver. perm_solve. Qed.

(* remove a control (its waiters must have been answered by the caller) *)
Lemma core_drop h c : find_ctrl h cs = Some c -> CoreC ts (drop_ctrl h cs) p rs cl sn nw.
Proof.
  intros F. destruct K. constructor; try assumption.
  - unfold drop_ctrl. clear -k_hashes0. induction cs as [|a t IH]; cbn [filter map]; [constructor|].
    cbn [map] in k_hashes0. inversion k_hashes0; subst.
    destruct (negb (c_hash a =? h)); [|auto]. cbn [map]. constructor; [|auto].
    intros Hi. apply in_map_iff in Hi. destruct Hi as [x [E Hx]]. apply filter_In in Hx.
    apply H1. rewrite <- E. apply in_map. tauto.
  - intros c0 H. apply k_ctrl0. now apply drop_ctrl_incl in H.
  - intros c0 w H. apply k_ctrl_calls0. now apply drop_ctrl_incl in H.
  - intros c0 w H. apply k_ctrl_seen0. now apply drop_ctrl_incl in H.
  - intros c0 H. apply k_ctrl_notice0. now apply drop_ctrl_incl in H.
Qed.

Lemma live_drop h c r : find_ctrl h cs = Some c ->
  Permutation (liveC (deliver (c_errors c) r rs) (drop_ctrl h cs) p) (liveC rs cs p).
Proof.
  intros F. destruct (find_ctrl_split h cs c F (k_hashes _ _ _ _ _ _ _ K)) as [l1 [l2 [H1 [H2 [H3 H4]]]]].
  unfold liveC. rewrite map_fst_deliver, H3, H1, !all_waiters_app. cbn [all_waiters]. perm_solve.
Qed.

(* state.go:68 addTorrent *)
Lemma core_add_ctrl h t lr : find_ctrl h cs = None -> h = thash ts t -> tvalid ts t ->
  CoreC ts (mkC h t [] nw lr :: cs) p rs cl sn nw.
Proof.
  intros F Hh Hv. destruct K. constructor; try assumption.
  - cbn [map c_hash]. constructor; [now apply find_ctrl_none | assumption].
  - intros c [<-|H]; [cbn [c_hash c_disp c_lastw]; repeat split; [assumption.. | lia] | auto].
  - intros c w [<-|H]; [intros [] | eauto].
  - intros c w [<-|H]; [intros [] | eauto].
  - intros c [<-|H]; [cbn [c_errors]; congruence | eauto].
Qed.

Lemma live_add_ctrl c0 : c_errors c0 = [] -> liveC rs (c0 :: cs) p = liveC rs cs p.
Proof. intros H. unfold liveC. cbn [all_waiters]. now rewrite H. Qed.

(* replace the control of hash h by one with other waiters / times *)
Lemma core_replace h c c' : find_ctrl h cs = Some c ->
  c_hash c' = h -> c_disp c' = c_disp c -> c_lastw c' <= nw ->
  (forall w, In w (c_errors c') -> In (w, h) cl) ->
  (tcomp ts (c_disp c) = true -> forall w, In w (c_errors c') -> In w sn) ->
  (c_errors c' <> [] -> tcomp ts (c_disp c) = true -> In (PComplete (c_disp c)) p) ->
  CoreC ts (replace_ctrl c' cs) p rs cl sn nw.
Proof.
  intros F Hh Hd Hl H1 H2 H3. pose proof K as K'. destruct K'.
  destruct (find_ctrl_split h cs c F k_hashes0) as [l1 [l2 [E1 [E2 [_ E4]]]]].
  rewrite (E4 c' Hh).
  assert (Hin : forall x, In x (l1 ++ c' :: l2) -> x = c' \/ In x cs).
  { intros x Hx. rewrite E1. rewrite in_app_iff in *. cbn [In] in *.
    destruct Hx as [Hx|[Hx|Hx]]; [right; now left | left; now symmetry | right; right; now right]. }
  assert (Hc : In c cs) by (rewrite E1; apply in_elt).
  constructor; try assumption.
  - apply NoDup_hash_mid with (c := c); [congruence | now rewrite <- E1].
  - intros x Hx. destruct (Hin x Hx) as [->|Hx']; [|auto].
    rewrite Hh, Hd. destruct (k_ctrl0 c Hc) as [A [B C]]. repeat split; [congruence | assumption..].
  - intros x w Hx. destruct (Hin x Hx) as [->|Hx']; [rewrite Hh; eauto | eauto].
  - intros x w Hx. destruct (Hin x Hx) as [->|Hx']; [rewrite Hd; intros; now apply H2 | eauto].
  - intros x Hx. destruct (Hin x Hx) as [->|Hx']; [rewrite Hd; eauto | eauto].
Qed.

Lemma live_replace h c c' : find_ctrl h cs = Some c -> c_hash c' = h ->
  Permutation (c_errors c ++ liveC rs (replace_ctrl c' cs) p) (c_errors c' ++ liveC rs cs p).
Proof.
  intros F Hh. destruct (find_ctrl_split h cs c F (k_hashes _ _ _ _ _ _ _ K)) as [l1 [l2 [H1 [H2 [H3 H4]]]]].
  unfold liveC. rewrite (H4 c' Hh). rewrite H1. rewrite !all_waiters_app. cbn [all_waiters]. perm_solve.
Qed.

(* a blocked send is added *)
Lemma core_push e :
  match e with
  | PNew w t => tvalid ts t /\ In (w, thash ts t) cl /\ (tcomp ts t = true -> In w sn)
  | PComplete d => tcomp ts d = true
  | _ => True
  end -> CoreC ts cs (p ++ [e]) rs cl sn nw.
Proof.
  intros H. destruct K. constructor; try assumption.
  - intros c Hc He Ht. apply in_or_app. left. eauto.
  - intros w t Hi. apply in_app_or in Hi. destruct Hi as [Hi|[Hi|[]]]; [eauto | subst e; exact H].
  - intros d Hi. apply in_app_or in Hi. destruct Hi as [Hi|[Hi|[]]]; [eauto | subst e; exact H].
Qed.

Lemma live_push e : liveC rs cs (p ++ [e]) = liveC rs cs p ++ pending_callers [e].
Proof. unfold liveC. now rewrite pending_callers_app, !app_assoc. Qed.

End Prim.

(* the event loop receives a parked event *)
Lemma core_pop ts cs l1 e l2 rs cl sn nw : CoreC ts cs (l1 ++ e :: l2) rs cl sn nw ->
  (forall c, In c cs -> c_errors c <> [] -> tcomp ts (c_disp c) = true -> e <> PComplete (c_disp c)) ->
  CoreC ts cs (l1 ++ l2) rs cl sn nw.
Proof.
  intros K H. destruct K. constructor; try assumption.
  - intros c Hc He Ht. apply in_mid_other with (e := e); [eauto|].
    intros E. apply (H c Hc He Ht). now symmetry.
  - intros w t Hi. apply k_new0. now apply in_mid_incl.
  - intros d Hi. apply k_complete0. now apply in_mid_incl.
Qed.

Lemma live_pop rs cs l1 e l2 :
  Permutation (liveC rs cs (l1 ++ e :: l2)) (pending_callers [e] ++ liveC rs cs (l1 ++ l2)).
Proof.
  unfold liveC. rewrite !pending_callers_app.
  change (e :: l2) with ([e] ++ l2). rewrite pending_callers_app. perm_solve.
Qed.

(* time passes; cache, download directory change: no component of the invariant involved,
   except that write times stay in the past *)
Lemma core_advance ts cs p rs cl sn nw nw' : CoreC ts cs p rs cl sn nw -> nw <= nw' ->
  CoreC ts cs p rs cl sn nw'.
Proof.
  intros K H. destruct K. constructor; try assumption.
  intros c Hc. destruct (k_ctrl0 c Hc) as [A [B C]]. repeat split; [assumption.. | lia].
Qed.

(* scheduler.go:233 CreateTorrent: a new torrent object, a new call *)
Lemma core_create ts cs p rs cl sn nw x w sn' :
  CoreC ts cs p rs cl sn nw -> incl sn sn' ->
  CoreC (ts ++ [x]) cs p rs ((w, t_hash x) :: cl) sn' nw.
Proof.
  intros K Hs. destruct K. constructor; try assumption.
  - intros c Hc. destruct (k_ctrl0 c Hc) as [A [B C]].
    rewrite thash_app by assumption. repeat split; [assumption | now apply tvalid_app | assumption].
  - intros c w0 Hc Hw. right. eauto.
  - intros c w0 Hc Hw. destruct (k_ctrl0 c Hc) as [A [B C]]. rewrite tcomp_app by assumption. eauto.
  - intros c Hc. destruct (k_ctrl0 c Hc) as [A [B C]]. rewrite tcomp_app by assumption. eauto.
  - intros w0 t Hi. destruct (k_new0 w0 t Hi) as [A [B C]].
    rewrite thash_app, tcomp_app by assumption. repeat split; [now apply tvalid_app | now right | eauto].
  - intros d Hi. pose proof (k_complete0 d Hi) as H. rewrite tcomp_app; [assumption | now apply tcomp_valid].
  - eauto.
Qed.

(* dispatcher.go:589 the last piece is written: blob committed to the cache, notice queued *)
Lemma core_feed ts cs p rs cl sn nw h x :
  CoreC ts cs p rs cl sn nw -> find_ctrl h cs = Some x ->
  CoreC (set_complete_at (N.to_nat (c_disp x)) ts) cs (p ++ [PComplete (c_disp x)]) rs cl
        (map fst (filter (fun q => N.eqb (snd q) h) cl) ++ sn) nw.
Proof.
  intros K F. destruct K. destruct (find_ctrl_hash h cs x F) as [Hh Hx].
  destruct (k_ctrl0 x Hx) as [XA [XB XC]].
  assert (Hnew : forall w, In (w, h) cl -> In w (map fst (filter (fun q => N.eqb (snd q) h) cl) ++ sn)).
  { intros w Hw. apply in_or_app. left. apply in_map_iff. exists (w, h). split; [reflexivity|].
    apply filter_In. split; [assumption | apply N.eqb_refl]. }
  constructor; try assumption.
  - intros c Hc. destruct (k_ctrl0 c Hc) as [A [B C]]. rewrite thash_set, tvalid_set. eauto.
  - intros c w Hc Hw Ht. apply tcomp_set in Ht. destruct Ht as [Ht|[Ht _]].
    + apply in_or_app. right. eauto.
    + apply Hnew. destruct (k_ctrl0 c Hc) as [A _]. pose proof (k_ctrl_calls0 c w Hc Hw) as H.
      rewrite A, Ht, <- XA, Hh in H. exact H.
  - intros c Hc He Ht. apply tcomp_set in Ht. apply in_or_app. destruct Ht as [Ht|[Ht _]].
    + left. eauto.
    + right. rewrite Ht. now left.
  - intros w t Hi. apply in_app_or in Hi. destruct Hi as [Hi|[Hi|[]]]; [|discriminate].
    destruct (k_new0 w t Hi) as [A [B C]]. rewrite thash_set, tvalid_set. repeat split; try assumption.
    intros Ht. apply tcomp_set in Ht. destruct Ht as [Ht|[Ht _]].
    + apply in_or_app. right. eauto.
    + apply Hnew. rewrite Ht, <- XA, Hh in B. exact B.
  - intros d Hi. apply tcomp_set. apply in_app_or in Hi. destruct Hi as [Hi|[Hi|[]]].
    + left. eauto.
    + inversion Hi; subst. right. split; [reflexivity | assumption].
  - intros w Hw. apply in_or_app. right. eauto.
Qed.

(* events.go:484 shutdownEvent: everybody waiting or parked is told *)
Lemma core_shutdown ts cs p rs cl sn nw ws :
  CoreC ts cs p rs cl sn nw ->
  CoreC ts (map (fun c => mkC (c_hash c) (c_disp c) [] (c_lastw c) (c_lastr c)) cs) []
        (deliver ws RStopped rs) cl sn nw.
Proof.
  intros K. destruct K. constructor.
  - rewrite map_map. cbn [c_hash]. exact k_hashes0.
  - intros c Hc. apply in_map_iff in Hc. destruct Hc as [c0 [<- Hc]]. cbn [c_hash c_disp c_lastw]. eauto.
  - intros c w Hc. apply in_map_iff in Hc. destruct Hc as [c0 [<- Hc]]. intros [].
  - intros c w Hc. apply in_map_iff in Hc. destruct Hc as [c0 [<- Hc]]. intros [].
  - intros c Hc. apply in_map_iff in Hc. destruct Hc as [c0 [<- Hc]]. cbn [c_errors]. congruence.
  - intros w t [].
  - intros d [].
  - intros w Hw. apply in_deliver in Hw. destruct Hw as [Hw|[Hw _]]; [eauto | discriminate].
Qed.
