(* C15: the two-index manager model refines the flat request-log specification. *)
From Coq Require Import List NArith ZArith Bool Lia Permutation.
From K.Model Require Import C15.
From K.Proof Require Import C15_base C15_inv.
Import ListNotations.
Local Open Scope N_scope.

Record SInv (t : sst) : Prop := mkSInv {
  S1 : NoDup (map r_id (sreqs t));
  S2 : forall r, In r (sreqs t) -> r_id r < snext t }.

Record Rel (c : cfg) (s : st) (t : sst) : Prop := mkRel {
  R_inv : Inv c s;
  R_sinv : SInv t;
  R_now : now s = snow t;
  R_next : next s = snext t;
  R_abs : forall r, In r (lreq s (r_piece r)) <-> In r (sreqs t) }.

Lemma rel_init c : Rel c init sinit.
Proof.
  constructor; try reflexivity.
  - apply inv_init.
  - constructor; cbn; [constructor|intros r []].
Qed.

Lemma abs_piece c s t i r : Rel c s t -> (In r (lreq s i) <-> In r (sreqs t) /\ r_piece r = i).
Proof.
  intros R. split.
  - intros H. pose proof (W2 _ _ (R_inv _ _ _ R) _ _ H) as Hp. subst i. split; auto. now apply (R_abs _ _ _ R).
  - intros [H <-]. now apply (R_abs _ _ _ R).
Qed.

(* ---------- preservation *)
Lemma rel_add c p s t i :
  Rel c s t ->
  (forall r, In r (lreq s i) -> r_peer r = p -> pu c (now s) r = false) ->
  Rel c (add_req p s i) (sadd p t i).
Proof.
  intros R Hv.
  assert (Hnew : mkreq (snext t) i p (snow t) SPending = new_req p s i).
  { unfold new_req. now rewrite (R_now _ _ _ R), (R_next _ _ _ R). }
  constructor.
  - apply inv_add; auto. apply R.
  - constructor; cbn [sadd sreqs snext].
    + rewrite map_app. apply NoDup_app_intro.
      * apply (S1 _ (R_sinv _ _ _ R)).
      * cbn. constructor; [intros []|constructor].
      * intros x Hx [<-|[]]. apply in_map_iff in Hx. destruct Hx as [r [Hr1 Hr2]].
        apply (S2 _ (R_sinv _ _ _ R)) in Hr2. cbn in Hr1. lia.
    + intros r. rewrite in_app_iff. intros [H|[<-|[]]].
      * apply (S2 _ (R_sinv _ _ _ R)) in H. lia.
      * cbn. lia.
  - cbn. apply R.
  - cbn. now rewrite (R_next _ _ _ R).
  - intros r. rewrite lreq_add. cbn [sadd sreqs]. rewrite Hnew, in_app_iff.
    destruct (N.eqb i (r_piece r)) eqn:E.
    + apply N.eqb_eq in E. rewrite in_app_iff. rewrite E at 1. rewrite (R_abs _ _ _ R). tauto.
    + apply N.eqb_neq in E. rewrite (R_abs _ _ _ R). split; [tauto|].
      intros [H|[<-|[]]]; auto. cbn in E. congruence.
Qed.

Lemma rel_fold c p choice : forall s t,
  Rel c s t -> NoDup choice ->
  (forall i, In i choice -> forall r, In r (lreq s i) -> r_peer r = p -> pu c (now s) r = false) ->
  Rel c (reserve_all p s choice) (fold_left (sadd p) choice t).
Proof.
  induction choice as [|i ch IH]; intros s t R ND Hv; cbn; auto.
  inversion ND as [|? ? Hnot ND']; subst.
  apply IH; auto.
  - apply rel_add; auto. apply Hv. now left.
  - intros j Hj r. rewrite lreq_add.
    destruct (N.eqb i j) eqn:E.
    + apply N.eqb_eq in E. subst. contradiction.
    + cbn [add_req now]. apply Hv. now right.
Qed.

Definition smark_fn (p i : N) (x : status) (r : req) : req :=
  if N.eqb (r_piece r) i && N.eqb (r_peer r) p then set_status x r else r.

Lemma smark_fn_eq p i x r :
  smark_fn p i x r = if N.eqb (r_piece r) i then mark_fn p x r else r.
Proof. unfold smark_fn, mark_fn. destruct (N.eqb (r_piece r) i), (N.eqb (r_peer r) p); reflexivity. Qed.

Lemma smark_fn_piece p i x r : r_piece (smark_fn p i x r) = r_piece r.
Proof. unfold smark_fn. destruct (_ && _); reflexivity. Qed.
Lemma smark_fn_id p i x r : r_id (smark_fn p i x r) = r_id r.
Proof. unfold smark_fn. destruct (_ && _); reflexivity. Qed.

Lemma rel_mark c s t p i x : x <> SPending -> Rel c s t -> Rel c (mark s p i x) (smark t p i x).
Proof.
  intros Hx R.
  assert (Hs : forall r', In r' (sreqs (smark t p i x)) <-> exists r0, smark_fn p i x r0 = r' /\ In r0 (sreqs t)).
  { intros r'. unfold smark. cbn [sreqs]. apply in_map_iff. }
  constructor.
  - apply inv_mark; auto. apply R.
  - constructor; cbn [smark sreqs snext].
    + rewrite map_map. erewrite map_ext; [apply (S1 _ (R_sinv _ _ _ R))|].
      intros a. apply (smark_fn_id p i x a).
    + intros r H. apply in_map_iff in H. destruct H as [r0 [<- H]].
      fold (smark_fn p i x r0). rewrite smark_fn_id. now apply (S2 _ (R_sinv _ _ _ R)).
  - unfold mark. destruct (aget i (requests s)); cbn; apply R.
  - unfold mark. destruct (aget i (requests s)); cbn; apply R.
  - intros r'. rewrite Hs, lreq_mark. destruct (N.eqb i (r_piece r')) eqn:E.
    + apply N.eqb_eq in E. rewrite in_map_iff. split.
      * intros [r0 [H1 H2]]. exists r0. pose proof H2 as H3.
        apply (abs_piece _ _ _ _ _ R) in H3. destruct H3 as [H3 H4].
        split; auto. rewrite smark_fn_eq, H4, N.eqb_refl. auto.
      * intros [r0 [H1 H2]]. exists r0.
        assert (Hp : r_piece r0 = i) by (rewrite <- (smark_fn_piece p i x r0), H1; auto).
        rewrite smark_fn_eq, Hp, N.eqb_refl in H1. split; auto.
        apply (abs_piece _ _ _ _ _ R). auto.
    + apply N.eqb_neq in E. rewrite (R_abs _ _ _ R). split.
      * intros H. exists r'. split; auto. rewrite smark_fn_eq.
        destruct (N.eqb (r_piece r') i) eqn:E2; auto. apply N.eqb_eq in E2. congruence.
      * intros [r0 [H1 H2]].
        assert (Hp : r_piece r0 = r_piece r') by (rewrite <- (smark_fn_piece p i x r0), H1; auto).
        rewrite smark_fn_eq in H1. destruct (N.eqb (r_piece r0) i) eqn:E2.
        -- apply N.eqb_eq in E2. congruence.
        -- now subst.
Qed.

Lemma rel_clear c s t i :
  Rel c s t ->
  Rel c (clear s i) (mksst (snow t) (snext t) (filter (fun r => negb (N.eqb (r_piece r) i)) (sreqs t))).
Proof.
  intros R. constructor.
  - apply inv_clear, R.
  - constructor; cbn [sreqs snext].
    + apply NoDup_map_filter, (S1 _ (R_sinv _ _ _ R)).
    + intros r H. apply filter_In in H. now apply (S2 _ (R_sinv _ _ _ R)).
  - cbn. apply R.
  - cbn. apply R.
  - intros r. rewrite lreq_clear. cbn [sreqs]. rewrite filter_In, negb_true_iff.
    destruct (N.eqb i (r_piece r)) eqn:E.
    + rewrite N.eqb_sym, E. split; [intros []|intros [_ H]; discriminate].
    + rewrite N.eqb_sym, E. rewrite (R_abs _ _ _ R). tauto.
Qed.

Lemma rel_clearpeer c s t p :
  Rel c s t ->
  Rel c (clearpeer s p) (mksst (snow t) (snext t) (filter (not_peer p) (sreqs t))).
Proof.
  intros R. constructor.
  - apply inv_clearpeer, R.
  - constructor; cbn [sreqs snext].
    + apply NoDup_map_filter, (S1 _ (R_sinv _ _ _ R)).
    + intros r H. apply filter_In in H. now apply (S2 _ (R_sinv _ _ _ R)).
  - cbn. apply R.
  - cbn. apply R.
  - intros r. rewrite lreq_clearpeer. cbn [sreqs]. rewrite !filter_In, (R_abs _ _ _ R). tauto.
Qed.

Lemma rel_tick c s t dt :
  Rel c s t ->
  Rel c (mkst (now s + dt) (next s) (requests s) (byPeer s)) (mksst (snow t + dt) (snext t) (sreqs t)).
Proof.
  intros R. constructor.
  - apply inv_tick, R.
  - constructor; apply (R_sinv _ _ _ R).
  - cbn. now rewrite (R_now _ _ _ R).
  - cbn. apply R.
  - intros r. apply (R_abs _ _ _ R).
Qed.

(* ---------- the complete index, flattened, is the log up to order *)
Lemma live_In c s r : Inv c s -> (In r (live s) <-> In r (lreq s (r_piece r))).
Proof.
  intros I. unfold live. rewrite in_flat_map. split.
  - intros [[i rs] [H1 H2]]. cbn in H2.
    apply (In_aget _ _ _ (K1 _ _ I)) in H1.
    assert (Hl : lreq s i = rs) by (unfold lreq, aget_list; now rewrite H1).
    assert (Hp : r_piece r = i) by (apply (W2 _ _ I); now rewrite Hl).
    now rewrite Hp, Hl.
  - intros H. unfold lreq, aget_list in H.
    destruct (aget (r_piece r) (requests s)) as [rs|] eqn:E; [|contradiction].
    exists (r_piece r, rs). split; auto. now apply aget_In.
Qed.

Lemma nodup_flat (l : list (N * list req)) :
  NoDup (keys l) ->
  (forall i rs, In (i, rs) l -> NoDup (map r_id rs) /\ forall r, In r rs -> r_piece r = i) ->
  NoDup (flat_map snd l).
Proof.
  induction l as [|[i rs] t IH]; cbn; intros ND H; [constructor|].
  inversion ND as [|? ? Hnot ND']; subst.
  destruct (H i rs (or_introl eq_refl)) as [H1 H2].
  apply NoDup_app_intro.
  - eapply NoDup_map_inv; eauto.
  - apply IH; auto; intros j rs' Hj; apply H; now right.
  - intros r Hr Hr'. apply in_flat_map in Hr'. destruct Hr' as [[j rs'] [Hj1 Hj2]]. cbn in Hj2.
    destruct (H j rs' (or_intror Hj1)) as [_ H3].
    apply H2 in Hr. apply H3 in Hj2. apply Hnot. rewrite <- Hr, Hj2.
    change j with (fst (j, rs')). now apply in_map.
Qed.

Lemma live_NoDup c s : Inv c s -> NoDup (live s).
Proof.
  intros I. apply nodup_flat; [apply (K1 _ _ I)|].
  intros i rs H. apply (In_aget _ _ _ (K1 _ _ I)) in H.
  assert (Hl : lreq s i = rs) by (unfold lreq, aget_list; now rewrite H).
  rewrite <- Hl. split; [apply (W3n _ _ I)|apply (W2 _ _ I)].
Qed.

Lemma live_perm c s t : Rel c s t -> Permutation (live s) (sreqs t).
Proof.
  intros R. apply NoDup_Permutation.
  - eapply live_NoDup, R.
  - eapply NoDup_map_inv, (S1 _ (R_sinv _ _ _ R)).
  - intros r. rewrite (live_In c) by apply R. apply (R_abs _ _ _ R).
Qed.

(* ---------- the failed report *)
Lemma failed_of_app c t l1 l2 : failed_of c t (l1 ++ l2) = failed_of c t l1 ++ failed_of c t l2.
Proof.
  induction l1 as [|r tl IH]; cbn; auto.
  destruct (failed_entry c t r); cbn; now rewrite IH.
Qed.

Lemma get_failed_live c s : get_failed c s = failed_of c (now s) (live s).
Proof.
  unfold get_failed, live. induction (requests s) as [|[i rs] tl IH]; cbn; auto.
  now rewrite failed_of_app, IH.
Qed.

Lemma failed_of_perm c t l1 l2 : Permutation l1 l2 -> Permutation (failed_of c t l1) (failed_of c t l2).
Proof.
  induction 1; cbn.
  - constructor.
  - destruct (failed_entry c t x); auto.
  - destruct (failed_entry c t x), (failed_entry c t y); auto. constructor.
  - eapply perm_trans; eauto.
Qed.

Lemma failed_of_In c t l e :
  In e (failed_of c t l) <-> exists r, In r l /\ failed_entry c t r = Some e.
Proof.
  induction l as [|r tl IH]; cbn.
  - split; [intros []|intros [r [[] _]]].
  - destruct (failed_entry c t r) eqn:E; cbn; rewrite IH; split.
    + intros [<-|[r0 [H1 H2]]]; [exists r; auto|exists r0; auto].
    + intros [r0 [[<-|H1] H2]]; [left; congruence|right; exists r0; auto].
    + intros [r0 [H1 H2]]. exists r0; auto.
    + intros [r0 [[<-|H1] H2]]; [congruence|exists r0; auto].
Qed.

Lemma failed_perm c s t : Rel c s t -> Permutation (failed_of c (snow t) (sreqs t)) (get_failed c s).
Proof.
  intros R. rewrite get_failed_live, (R_now _ _ _ R). apply failed_of_perm.
  apply Permutation_sym. eapply live_perm; eauto.
Qed.

(* ---------- validRequest *)
Lemma valid_eq c s t p i dup : Rel c s t -> valid c s p i dup = svalid c t p i dup.
Proof.
  intros R. unfold valid, svalid, valid_in. rewrite (R_now _ _ _ R).
  apply forallb_same_elems. intros r. fold (lreq s i).
  rewrite (abs_piece _ _ _ _ _ R), filter_In, N.eqb_eq. tauto.
Qed.

Lemma valid_facts c s p i dup r :
  valid c s p i dup = true -> In r (lreq s i) -> pu c (now s) r = true ->
  r_peer r <> p /\ dup = true.
Proof.
  unfold valid, valid_in. rewrite forallb_forall. intros H Hr Hpu.
  specialize (H r Hr). rewrite Hpu in H.
  destruct (N.eqb (r_peer r) p) eqn:E; [discriminate|]. apply N.eqb_neq in E. auto.
Qed.

(* ---------- requestQuota *)
Fixpoint pud (c : cfg) (s : st) (pm : list (N * N)) : list req :=
  match pm with
  | [] => []
  | (i, id) :: t => match deref s i id with
                    | Some r => if pu c (now s) r then r :: pud c s t else pud c s t
                    | None => pud c s t
                    end
  end.

Lemma quota_loop_spec c s pm : forall q,
  let n := Z.of_nat (length (pud c s pm)) in
  ((0 < q)%Z -> quota_loop c s pm q = Z.max 0 (q - n)) /\
  ((q <= 0)%Z -> quota_loop c s pm q = (q - n)%Z).
Proof.
  induction pm as [|[i id] tl IH]; intros q; cbn [quota_loop pud].
  - cbn. split; intros; lia.
  - destruct (deref s i id) as [r|]; [|apply IH].
    destruct (pu c (now s) r); [|apply IH].
    cbn [length]. rewrite Nat2Z.inj_succ.
    destruct (Z.eqb (q - 1) 0) eqn:E.
    + apply Z.eqb_eq in E. split; intros; lia.
    + apply Z.eqb_neq in E. destruct (IH (q - 1)%Z) as [IH1 IH2]. split; intros Hq.
      * rewrite IH1 by lia. lia.
      * rewrite IH2 by lia. lia.
Qed.

Lemma pud_In c s pm r :
  In r (pud c s pm) <-> exists i id, In (i, id) pm /\ deref s i id = Some r /\ pu c (now s) r = true.
Proof.
  induction pm as [|[i id] tl IH]; cbn [pud].
  - split; [intros []|intros [i [id [[] _]]]].
  - split.
    + intros H. destruct (deref s i id) as [r0|] eqn:D.
      * destruct (pu c (now s) r0) eqn:P.
        -- destruct H as [<-|H]; [exists i, id; cbn; auto|].
           apply IH in H. destruct H as [j [jd [H1 H2]]]. exists j, jd. cbn. auto.
        -- apply IH in H. destruct H as [j [jd [H1 H2]]]. exists j, jd. cbn. auto.
      * apply IH in H. destruct H as [j [jd [H1 H2]]]. exists j, jd. cbn. auto.
    + intros [j [jd [[[= <- <-]|H1] [H2 H3]]]].
      * rewrite H2, H3. now left.
      * assert (In r (pud c s tl)) by (apply IH; exists j, jd; auto).
        destruct (deref s i id) as [r0|]; auto. destruct (pu c (now s) r0); auto. now right.
Qed.

Lemma pud_NoDup c s pm :
  Inv c s -> NoDup (keys pm) -> NoDup (pud c s pm).
Proof.
  intros I. induction pm as [|[i id] tl IH]; cbn [pud]; intros ND; [constructor|].
  inversion ND as [|? ? Hnot ND']; subst.
  destruct (deref s i id) as [r|] eqn:D; auto.
  destruct (pu c (now s) r); auto.
  constructor; auto.
  intros H. apply pud_In in H. destruct H as [j [jd [H1 [H2 _]]]].
  rewrite deref_lreq in D, H2. apply find_some in D, H2.
  destruct D as [D _], H2 as [H2 _].
  apply (W2 _ _ I) in D, H2. apply Hnot. rewrite <- D, H2.
  change j with (fst (j, jd)). now apply in_map.
Qed.

Lemma pud_count c s t p :
  Rel c s t ->
  length (pud c s (aget_list p (byPeer s))) = count_pu_peer c (snow t) p (sreqs t).
Proof.
  intros R. pose proof (R_inv _ _ _ R) as I. unfold count_pu_peer.
  assert (HK : NoDup (keys (aget_list p (byPeer s)))).
  { unfold aget_list. destruct (aget p (byPeer s)) eqn:E; [|constructor].
    apply aget_In in E. eapply (K3 _ _ I); eauto. }
  apply NoDup_same_length.
  - apply pud_NoDup; auto.
  - apply NoDup_filter. eapply NoDup_map_inv, (S1 _ (R_sinv _ _ _ R)).
  - intros r. rewrite pud_In, filter_In, andb_true_iff, N.eqb_eq, <- (R_now _ _ _ R). split.
    + intros [i [id [H1 [H2 H3]]]].
      assert (Hb : bp_get s p i = Some id).
      { unfold bp_get. unfold aget_list in H1, HK. destruct (aget p (byPeer s)); [|contradiction].
        now apply In_aget. }
      destruct (W4 _ _ I _ _ _ Hb) as [r0 [H4 H5]]. rewrite H2 in H4. injection H4 as <-.
      rewrite deref_lreq in H2. apply find_some in H2. destruct H2 as [H2 _].
      apply (abs_piece _ _ _ _ _ R) in H2. tauto.
    + intros [H1 [H2 H3]]. apply (R_abs _ _ _ R) in H1.
      destruct (W5 _ _ I _ _ H1) as [id' [H4 [H5 H6]]].
      destruct H6 as [H6|[H6 _]]; [|congruence]. subst id'.
      exists (r_piece r), (r_id r). split; [|split; auto].
      * unfold bp_get in H4. rewrite H2 in H4. unfold aget_list.
        destruct (aget p (byPeer s)); [|discriminate]. now apply aget_In.
      * rewrite deref_lreq. apply (find_unique r_id); auto. apply (W3n _ _ I).
Qed.

Lemma quota_unfold c s p origin :
  quota c s p origin = quota_loop c s (aget_list p (byPeer s)) (limit_of c origin).
Proof. unfold quota, aget_list. destruct (aget p (byPeer s)); reflexivity. Qed.

(* what the model computes, including the `break`, in terms of the log *)
Lemma quota_spec c s t p origin :
  Rel c s t ->
  let q := squota c t p origin in
  ((0 < limit_of c origin)%Z -> quota c s p origin = Z.max 0 q) /\
  ((limit_of c origin <= 0)%Z -> quota c s p origin = q).
Proof.
  intros R q. rewrite quota_unfold.
  pose proof (quota_loop_spec c s (aget_list p (byPeer s)) (limit_of c origin)) as H.
  cbv zeta in H. rewrite (pud_count _ _ _ _ R) in H. exact H.
Qed.

Lemma forallb_ext' {A} (f g : A -> bool) l : (forall x, f x = g x) -> forallb f l = forallb g l.
Proof. intros H. induction l as [|a t IH]; cbn; auto. now rewrite H, IH. Qed.

Lemma legal_sel_ext q1 q2 f1 f2 cands ch :
  ((q1 <= 0)%Z <-> (q2 <= 0)%Z) -> ((0 < q1)%Z -> q1 = q2) ->
  (forall i, f1 i = f2 i) ->
  legal_sel q1 f1 cands ch = legal_sel q2 f2 cands ch.
Proof.
  intros H1 H2 H3. unfold legal_sel.
  destruct (Z.leb q1 0) eqn:E1; destruct (Z.leb q2 0) eqn:E2;
    try (apply Z.leb_le in E1); try (apply Z.leb_le in E2);
    try (apply Z.leb_gt in E1); try (apply Z.leb_gt in E2); auto; try lia.
  rewrite (H2 E1). f_equal. apply forallb_ext'. intros i. now rewrite H3.
Qed.

Lemma legal_eq c s t p origin cands dup ch :
  Rel c s t -> legal c s p origin cands dup ch = slegal c t p origin cands dup ch.
Proof.
  intros R. unfold legal, slegal.
  destruct (quota_spec c s t p origin R) as [Q1 Q2].
  apply legal_sel_ext.
  - destruct (Z.ltb 0 (limit_of c origin)) eqn:E.
    + apply Z.ltb_lt in E. rewrite (Q1 E). lia.
    + apply Z.ltb_ge in E. rewrite (Q2 E). lia.
  - destruct (Z.ltb 0 (limit_of c origin)) eqn:E.
    + apply Z.ltb_lt in E. rewrite (Q1 E). lia.
    + apply Z.ltb_ge in E. rewrite (Q2 E). lia.
  - intros i. now apply valid_eq.
Qed.

Lemma legal_sel_facts q f cands ch :
  legal_sel q f cands ch = true ->
  NoDup ch /\ (forall i, In i ch -> In i cands /\ f i = true) /\
  (ch <> [] -> (0 < q)%Z /\ (Z.of_nat (length ch) <= q)%Z).
Proof.
  unfold legal_sel. destruct (Z.leb q 0) eqn:E.
  - destruct ch; [|discriminate]. intros _. split; [constructor|]. split; [intros i []|congruence].
  - apply Z.leb_gt in E. rewrite !andb_true_iff. intros [[H1 H2] H3].
    apply Z.leb_le in H1. apply nodupb_NoDup in H2. rewrite forallb_forall in H3.
    split; auto. split.
    + intros i Hi. apply H3 in Hi. apply andb_true_iff in Hi. now rewrite <- memb_In.
    + intros _. auto.
Qed.

(* ---------- PendingPieces *)
Lemma pending_loop_In s pm i :
  In i (pending_loop s pm) <-> exists id r, In (i, id) pm /\ deref s i id = Some r /\ is_pending r = true.
Proof.
  induction pm as [|[j jd] tl IH]; cbn [pending_loop].
  - split; [intros []|intros [id [r [[] _]]]].
  - split.
    + intros H. destruct (deref s j jd) as [r0|] eqn:D.
      * destruct (is_pending r0) eqn:P.
        -- destruct H as [<-|H]; [exists jd, r0; cbn; auto|].
           apply IH in H. destruct H as [id [r [H1 H2]]]. exists id, r. cbn. auto.
        -- apply IH in H. destruct H as [id [r [H1 H2]]]. exists id, r. cbn. auto.
      * apply IH in H. destruct H as [id [r [H1 H2]]]. exists id, r. cbn. auto.
    + intros [id [r [[[= <- <-]|H1] [H2 H3]]]].
      * rewrite H2, H3. now left.
      * assert (In i (pending_loop s tl)) by (apply IH; exists id, r; auto).
        destruct (deref s j jd) as [r0|]; auto. destruct (is_pending r0); auto. now right.
Qed.

Lemma pending_loop_NoDup s pm : NoDup (keys pm) -> NoDup (pending_loop s pm).
Proof.
  induction pm as [|[j jd] tl IH]; cbn [pending_loop]; intros ND; [constructor|].
  inversion ND as [|? ? Hnot ND']; subst.
  destruct (deref s j jd) as [r0|]; auto. destruct (is_pending r0); auto.
  constructor; auto. intros H. apply pending_loop_In in H. destruct H as [id [r [H1 _]]].
  apply Hnot. change j with (fst (j, id)). now apply in_map.
Qed.

Lemma pending_perm c s t p : Rel c s t -> Permutation (spending t p) (pending_pieces s p).
Proof.
  intros R. pose proof (R_inv _ _ _ R) as I.
  assert (HK : NoDup (keys (aget_list p (byPeer s)))).
  { unfold aget_list. destruct (aget p (byPeer s)) eqn:E; [|constructor].
    apply aget_In in E. eapply (K3 _ _ I); eauto. }
  apply NoDup_Permutation.
  - apply dedup_NoDup.
  - now apply pending_loop_NoDup.
  - intros i. unfold spending, pending_pieces. rewrite dedup_In, in_map_iff, pending_loop_In. split.
    + intros [r [H1 H2]]. apply filter_In in H2. destruct H2 as [H2 H3].
      apply andb_true_iff in H3. destruct H3 as [H3 H4]. apply N.eqb_eq in H3.
      apply (R_abs _ _ _ R) in H2. rewrite H1 in H2.
      destruct (W5 _ _ I _ _ H2) as [id' [H5 [H6 H7]]].
      assert (HIn : In (i, id') (aget_list p (byPeer s))).
      { unfold bp_get in H5. rewrite H3 in H5. unfold aget_list.
        destruct (aget p (byPeer s)); [|discriminate]. now apply aget_In. }
      destruct H7 as [H7|[_ H7]].
      * exists id', r. split; auto. split; auto. subst id'.
        rewrite deref_lreq. apply (find_unique r_id); auto. apply (W3n _ _ I).
      * destruct (H7 H4) as [r' [H8 H9]]. exists id', r'. auto.
    + intros [id [r [H1 [H2 H3]]]].
      assert (Hb : bp_get s p i = Some id).
      { unfold bp_get. unfold aget_list in H1, HK. destruct (aget p (byPeer s)); [|contradiction].
        now apply In_aget. }
      destruct (W4 _ _ I _ _ _ Hb) as [r0 [H4 H5]]. rewrite H2 in H4. injection H4 as <-.
      rewrite deref_lreq in H2. apply find_some in H2. destruct H2 as [H2 _].
      apply (abs_piece _ _ _ _ _ R) in H2. destruct H2 as [H2 H6].
      exists r. split; auto. apply filter_In. split; auto.
      now rewrite H5, N.eqb_refl, H3.
Qed.

(* ---------- one step, then whole histories *)
Lemma step_rel c s t o :
  Rel c s t ->
  Rel c (fst (step c s o)) (fst (sstep c t o)) /\ out_eqb (snd (sstep c t o)) (snd (step c s o)) = true.
Proof.
  intros R. destruct o as [p origin cands dup ch|p i|p i|i|p|dt| |p]; cbn [step step_with sstep].
  - rewrite (legal_eq _ _ _ _ _ _ _ _ R).
    destruct (slegal c t p origin cands dup ch) eqn:L; cbn [fst snd]; [|auto].
    split; [|reflexivity].
    rewrite <- (legal_eq _ _ _ _ _ _ _ _ R) in L. apply legal_sel_facts in L.
    destruct L as [L1 [L2 _]].
    apply rel_fold; auto.
    intros i Hi r Hr Hp. destruct (L2 i Hi) as [_ Hv].
    destruct (pu c (now s) r) eqn:P; auto.
    destruct (valid_facts _ _ _ _ _ _ Hv Hr P) as [Hne _]. contradiction.
  - cbn [fst snd]. split; [|reflexivity]. apply rel_mark; auto. discriminate.
  - cbn [fst snd]. split; [|reflexivity]. apply rel_mark; auto. discriminate.
  - cbn [fst snd]. split; [|reflexivity]. now apply rel_clear.
  - cbn [fst snd]. split; [|reflexivity]. now apply rel_clearpeer.
  - cbn [fst snd]. split; [|reflexivity]. now apply rel_tick.
  - cbn [fst snd out_eqb]. split; auto. apply mset3_eqb_perm. now apply failed_perm.
  - cbn [fst snd out_eqb]. split; auto. apply msetN_eqb_perm. now apply (pending_perm c).
Qed.

Lemma run_cons c s o ops :
  run c s (o :: ops) = (fst (run c (fst (step c s o)) ops), snd (step c s o) :: snd (run c (fst (step c s o)) ops)).
Proof.
  unfold run. cbn [run_with]. destruct (step c s o) as [s1 r]. cbn [fst snd].
  destruct (run_with (step c) s1 ops). reflexivity.
Qed.

Lemma srun_cons c t o ops :
  srun c t (o :: ops) = (fst (srun c (fst (sstep c t o)) ops), snd (sstep c t o) :: snd (srun c (fst (sstep c t o)) ops)).
Proof.
  cbn [srun]. destruct (sstep c t o) as [t1 r]. cbn [fst snd].
  destruct (srun c t1 ops). reflexivity.
Qed.

Lemma run_rel c ops : forall s t,
  Rel c s t ->
  Rel c (fst (run c s ops)) (fst (srun c t ops)) /\ outs_eqb (snd (srun c t ops)) (snd (run c s ops)) = true.
Proof.
  induction ops as [|o ops IH]; intros s t R.
  - cbn. auto.
  - rewrite run_cons, srun_cons. cbn [fst snd outs_eqb].
    destruct (step_rel c s t o R) as [R1 E1]. destruct (IH _ _ R1) as [R2 E2].
    split; auto. now rewrite E1, E2.
Qed.

Lemma run_app c ops1 ops2 s :
  fst (run c s (ops1 ++ ops2)) = fst (run c (fst (run c s ops1)) ops2).
Proof.
  revert s. induction ops1 as [|o ops1 IH]; intros s; [reflexivity|].
  cbn [app]. rewrite !run_cons. cbn [fst]. apply IH.
Qed.

Lemma srun_app c ops1 ops2 t :
  fst (srun c t (ops1 ++ ops2)) = fst (srun c (fst (srun c t ops1)) ops2).
Proof.
  revert t. induction ops1 as [|o ops1 IH]; intros t; [reflexivity|].
  cbn [app]. rewrite !srun_cons. cbn [fst]. apply IH.
Qed.

Theorem reachable_rel c ops : Rel c (fst (run c init ops)) (fst (srun c sinit ops)).
Proof. apply run_rel, rel_init. Qed.

Theorem refines c ops : outs_eqb (snd (srun c sinit ops)) (snd (run c init ops)) = true.
Proof. apply run_rel, rel_init. Qed.
