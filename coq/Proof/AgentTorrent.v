(* Proofs about K.Model.AgentTorrent: list/geometry lemmas, the inductive invariant of the
   WritePiece transition system and its preservation by every atomic step of every caller. *)
From Coq Require Import List NArith ZArith Bool Arith Lia.
From K.Model Require Import AgentTorrent.
Import ListNotations.

(* ------------------------------------------------------------------ *)
(* generic list facts *)

Lemma length_upd : forall A i (v : A) l, length (upd i v l) = length l.
Proof. intros A i v l; revert i; induction l; destruct i; simpl; auto. Qed.

Lemma nth_upd_eq : forall A i (v d : A) l, i < length l -> nth i (upd i v l) d = v.
Proof. intros A i v d l; revert i; induction l; destruct i; simpl; intros; try lia; auto. apply IHl; lia. Qed.

Lemma nth_upd_neq : forall A i j (v d : A) l, i <> j -> nth j (upd i v l) d = nth j l d.
Proof.
  intros A i j v d l; revert i j; induction l; destruct i, j; simpl; intros; try lia; auto.
Qed.

Lemma upd_app : forall A (pre post : list A) t v,
  upd (length pre) v (pre ++ t :: post) = pre ++ v :: post.
Proof. induction pre; simpl; intros; auto. f_equal; auto. Qed.

Lemma nth_error_split_at : forall A (l : list A) k t,
  nth_error l k = Some t -> exists pre post, l = pre ++ t :: post /\ length pre = k.
Proof.
  intros A l k t H. apply nth_error_split in H. destruct H as (l1 & l2 & -> & <-). eauto.
Qed.

Lemma nth_firstn_skipn : forall (f : list N) a m j x,
  j < m -> nth j (firstn m (skipn a f)) x = nth (a + j) f x.
Proof.
  intros f a m j x Hj.
  rewrite <- (firstn_skipn m (skipn a f)) at 2 || idtac.
  assert (E : nth j (firstn m (skipn a f)) x = nth j (skipn a f) x).
  { revert j Hj. generalize (skipn a f) as l. induction m; intros l j Hj; [lia|].
    destruct l; simpl; [destruct j; reflexivity|]. destruct j; auto. apply IHm; lia. }
  rewrite E. clear E. revert f. induction a; intros f; simpl; auto.
  destruct f; simpl; auto. destruct j; reflexivity.
Qed.

Lemma length_firstn_skipn : forall (f : list N) a m,
  length (firstn m (skipn a f)) = Nat.min m (length f - a).
Proof. intros. rewrite firstn_length, skipn_length. reflexivity. Qed.

(* ------------------------------------------------------------------ *)
(* pwrite *)

Lemma pwrite_inside : forall f off d, off + length d <= length f ->
  pwrite f off d = firstn off f ++ d ++ skipn (off + length d) f.
Proof. intros. unfold pwrite. replace (off - length f) with 0 by lia. reflexivity. Qed.

Lemma length_pwrite : forall f off d, off + length d <= length f -> length (pwrite f off d) = length f.
Proof.
  intros. rewrite pwrite_inside by auto. rewrite !app_length, firstn_length, skipn_length. lia.
Qed.

Lemma nth_pwrite : forall f off d j x, off + length d <= length f ->
  nth j (pwrite f off d) x =
  if j <? off then nth j f x else if j <? off + length d then nth (j - off) d x else nth j f x.
Proof.
  intros f off d j x H. rewrite pwrite_inside by auto.
  assert (Hl : length (firstn off f) = off) by (rewrite firstn_length; lia).
  destruct (j <? off) eqn:E1.
  - apply Nat.ltb_lt in E1. rewrite app_nth1 by lia.
    rewrite <- (firstn_skipn off f) at 2. rewrite app_nth1 by lia. reflexivity.
  - apply Nat.ltb_ge in E1. rewrite app_nth2 by lia. rewrite Hl.
    destruct (j <? off + length d) eqn:E2.
    + apply Nat.ltb_lt in E2. rewrite app_nth1 by lia. reflexivity.
    + apply Nat.ltb_ge in E2. rewrite app_nth2 by lia.
      rewrite <- (firstn_skipn (off + length d) f) at 2.
      rewrite app_nth2 by (rewrite firstn_length; lia). rewrite firstn_length.
      f_equal. lia.
Qed.

(* a read of [m] bytes at [a] that does not overlap the written range is unchanged *)
Lemma pwrite_disjoint : forall f off d a m, off + length d <= length f ->
  a + m <= off \/ off + length d <= a ->
  firstn m (skipn a (pwrite f off d)) = firstn m (skipn a f).
Proof.
  intros f off d a m H Hd.
  apply nth_ext with (d := 0%N) (d' := 0%N).
  - rewrite !length_firstn_skipn, length_pwrite by auto. reflexivity.
  - intros j Hj. rewrite length_firstn_skipn in Hj.
    rewrite !nth_firstn_skipn by lia. rewrite nth_pwrite by auto.
    destruct (a + j <? off) eqn:E1; auto.
    destruct (a + j <? off + length d) eqn:E2; auto.
    apply Nat.ltb_ge in E1. apply Nat.ltb_lt in E2. lia.
Qed.

(* appending a chunk right after what was already written at [a] *)
Lemma pwrite_extend : forall f a done_ d,
  a + length done_ + length d <= length f ->
  firstn (length done_) (skipn a f) = done_ ->
  firstn (length done_ + length d) (skipn a (pwrite f (a + length done_) d)) = done_ ++ d.
Proof.
  intros f a dn d H Hd.
  apply nth_ext with (d := 0%N) (d' := 0%N).
  - rewrite length_firstn_skipn, length_pwrite, app_length by lia. lia.
  - intros j Hj. rewrite length_firstn_skipn, length_pwrite in Hj by lia.
    rewrite nth_firstn_skipn by lia. rewrite nth_pwrite by lia.
    destruct (a + j <? a + length dn) eqn:E1.
    + apply Nat.ltb_lt in E1. rewrite app_nth1 by lia.
      transitivity (nth j (firstn (length dn) (skipn a f)) 0%N);
        [rewrite nth_firstn_skipn by lia; reflexivity | rewrite Hd; reflexivity].
    + apply Nat.ltb_ge in E1. rewrite app_nth2 by lia.
      destruct (a + j <? a + length dn + length d) eqn:E2.
      * f_equal. lia.
      * apply Nat.ltb_ge in E2. lia.
Qed.

(* ------------------------------------------------------------------ *)
(* status vectors *)

Lemma pstatus_eqb_eq : forall a b, pstatus_eqb a b = true <-> a = b.
Proof. destruct a, b; simpl; split; intros; congruence. Qed.

Lemma pstatus_eqb_neq : forall a b, pstatus_eqb a b = false <-> a <> b.
Proof. destruct a, b; simpl; split; intros; congruence. Qed.

Lemma count_st_le : forall p l, count_st p l <= length l.
Proof. induction l; simpl; auto. destruct (pstatus_eqb a p); lia. Qed.

Lemma count_st_all : forall p l, count_st p l = length l -> forall i, i < length l -> nth i l Empty = p.
Proof.
  induction l; simpl; intros H i Hi; [lia|].
  pose proof (count_st_le p l). destruct (pstatus_eqb a p) eqn:E; [|lia].
  apply pstatus_eqb_eq in E. destruct i; auto. apply IHl; lia.
Qed.

Lemma count_st_upd : forall p v l i, i < length l ->
  count_st p (upd i v l) + (if pstatus_eqb (nth i l Empty) p then 1 else 0)
  = count_st p l + (if pstatus_eqb v p then 1 else 0).
Proof.
  induction l; simpl; intros i Hi; [lia|]. destruct i; simpl; [lia|].
  specialize (IHl i ltac:(lia)). lia.
Qed.

Lemma count_st_repeat_other : forall p q k, p <> q -> count_st p (repeat q k) = 0.
Proof.
  induction k; simpl; intros; auto. rewrite IHk by auto.
  destruct (pstatus_eqb q p) eqn:E; auto. apply pstatus_eqb_eq in E. congruence.
Qed.

(* ------------------------------------------------------------------ *)
(* geometry of a well-formed metainfo *)

Section Geometry.
Variable c : cfg.
Hypothesis Hwf : wf_cfg c = true.

Let pl := c_pl c.
Let L := c_len c.
Let n := npieces c.

Lemma wf_pl : 0 < c_pl c.
Proof. unfold wf_cfg in Hwf. apply andb_prop in Hwf as [H _]. apply Nat.ltb_lt in H. exact H. Qed.

Lemma wf_bounds : c_len c <= c_pl c * npieces c /\ (0 < npieces c -> c_pl c * (npieces c - 1) < c_len c).
Proof.
  pose proof wf_pl as Hp.
  unfold wf_cfg in Hwf. apply andb_prop in Hwf as [_ H]. apply Nat.eqb_eq in H.
  unfold count_pieces in H. destruct (c_pl c) eqn:E; [lia|]. rewrite <- E in *.
  pose proof (Nat.div_mod_eq (c_len c + c_pl c - 1) (c_pl c)) as Hd.
  pose proof (Nat.mod_upper_bound (c_len c + c_pl c - 1) (c_pl c) ltac:(lia)) as Hm.
  rewrite <- H in Hd.
  split.
  - nia.
  - intros Hn. destruct (npieces c) as [|k] eqn:Ek; [lia|].
    replace (S k - 1) with k by lia. nia.
Qed.

Lemma plen_le_pl : forall i, plen c i <= c_pl c.
Proof.
  intros i. unfold plen. destruct (i <? npieces c) eqn:E; [|lia].
  apply Nat.ltb_lt in E. destruct (S i =? npieces c) eqn:E2; [|lia].
  apply Nat.eqb_eq in E2. destruct wf_bounds as [H1 _]. rewrite <- E2 in H1. nia.
Qed.

Lemma region_in_file : forall i, i < npieces c -> poff c i + plen c i <= c_len c.
Proof.
  intros i Hi. unfold plen, poff. apply Nat.ltb_lt in Hi as Hi'. rewrite Hi'.
  destruct wf_bounds as [H1 H2]. specialize (H2 ltac:(lia)).
  destruct (S i =? npieces c) eqn:E2.
  - apply Nat.eqb_eq in E2. replace (npieces c - 1) with i in H2 by lia. lia.
  - apply Nat.eqb_neq in E2. assert (S i <= npieces c - 1) by lia. nia.
Qed.

Lemma regions_ordered : forall i j, i < j -> poff c i + plen c i <= poff c j.
Proof. intros i j H. pose proof (plen_le_pl i). unfold poff. nia. Qed.

Lemma region_length : forall f i, length f = c_len c -> i < npieces c -> length (region c f i) = plen c i.
Proof.
  intros f i Hf Hi. unfold region. rewrite length_firstn_skipn.
  pose proof (region_in_file i Hi). lia.
Qed.

(* a file is determined by its regions *)
Lemma regions_ext : forall f g, length f = c_len c -> length g = c_len c ->
  (forall i, i < npieces c -> region c f i = region c g i) -> f = g.
Proof.
  intros f g Hf Hg H. pose proof wf_pl as Hp.
  apply nth_ext with (d := 0%N) (d' := 0%N); [lia|].
  intros j Hj. rewrite Hf in Hj.
  pose proof (Nat.div_mod_eq j (c_pl c)) as Hd.
  pose proof (Nat.mod_upper_bound j (c_pl c) ltac:(lia)) as Hm.
  set (i := j / c_pl c) in *. set (r := j mod c_pl c) in *.
  destruct wf_bounds as [H1 H2].
  assert (Hi : i < npieces c) by nia.
  assert (Hr : r < plen c i).
  { unfold plen. apply Nat.ltb_lt in Hi as Hi'. rewrite Hi'.
    destruct (S i =? npieces c) eqn:E2; [|lia]. lia. }
  specialize (H i Hi). unfold region in H.
  assert (E : nth r (firstn (plen c i) (skipn (poff c i) f)) 0%N = nth r (firstn (plen c i) (skipn (poff c i) g)) 0%N)
    by (rewrite H; reflexivity).
  rewrite !nth_firstn_skipn in E by lia. unfold poff in E. rewrite <- Hd in E. exact E.
Qed.

End Geometry.

(* ------------------------------------------------------------------ *)
(* the invariant *)

Definition own1 (i : nat) (p : pc) : nat :=
  match owner p with Some j => if Nat.eqb j i then 1 else 0 | None => 0 end.

Fixpoint count_own (i : nat) (ths : list thread) : nat :=
  match ths with [] => 0 | t :: r => own1 i (t_pc t) + count_own i r end.

Definition marked1 (p : pc) : nat := match p with PMarked => 1 | _ => 0 end.

Fixpoint count_marked (ths : list thread) : nat :=
  match ths with [] => 0 | t :: r => marked1 (t_pc t) + count_marked r end.

Definition committing (p : pc) : Prop :=
  match p with PCounted | PMove | PStore => True | _ => False end.

Lemma count_own_app : forall i a b, count_own i (a ++ b) = count_own i a + count_own i b.
Proof. induction a; simpl; intros; auto. rewrite IHa. lia. Qed.

Lemma count_marked_app : forall a b, count_marked (a ++ b) = count_marked a + count_marked b.
Proof. induction a; simpl; intros; auto. rewrite IHa. lia. Qed.

Lemma count_own_zero : forall i l, count_own i l = 0 ->
  forall t, In t l -> owner (t_pc t) <> Some i.
Proof.
  induction l; simpl; intros H t Ht; [tauto|].
  destruct Ht as [<-|Ht].
  - unfold own1 in H. intros E. rewrite E, Nat.eqb_refl in H. lia.
  - apply IHl; auto. lia.
Qed.

Lemma own1_le : forall i p, own1 i p <= 1.
Proof. intros. unfold own1. destruct (owner p); [destruct (n =? i)|]; lia. Qed.

Lemma own1_owner : forall i p, owner p = Some i -> own1 i p = 1.
Proof. intros. unfold own1. rewrite H, Nat.eqb_refl. reflexivity. Qed.

Lemma own1_other : forall i p, owner p <> Some i -> own1 i p = 0.
Proof.
  intros. unfold own1. destruct (owner p) eqn:E; auto.
  destruct (n =? i) eqn:E2; auto. apply Nat.eqb_eq in E2. congruence.
Qed.

Section Invariant.
Variable c : cfg.
Variable ws : list winput.
Hypothesis Hwf : wf_cfg c = true.

(* PieceReader contract: the stream is not longer than Length() says *)
Definition honestP (w : winput) : Prop := (Z.of_nat (length (payload w)) <= w_decl w)%Z.
Hypothesis Hhonest : forall w, In w ws -> honestP w.

Let n := npieces c.

Definition valid_idx (w : winput) (i : nat) : Prop :=
  i < npieces c /\ w_idx w = Z.of_nat i /\ w_decl w = Z.of_nat (plen c i) /\
  length (payload w) <= plen c i /\ In w ws.

(* the bytes of [w] sit at the start of piece i's region *)
Definition written (s : tstate) (w : winput) (i : nat) : Prop :=
  firstn (length (payload w)) (skipn (poff c i) (file s)) = payload w.

(* piece i holds bytes that some caller streamed with a matching checksum *)
Definition verified (s : tstate) (i : nat) : Prop :=
  exists w, valid_idx w i /\ w_hsum w = psum c i /\ written s w i.

Definition holds (s : tstate) (i : nat) : Prop :=
  st_at s i = Dirty /\ nth i (sidecar s) 0%N <> 1%N.

Definition accepted (s : tstate) (w : winput) : Prop :=
  exists i, valid_idx w i /\ w_hsum w = psum c i /\ st_at s i = Complete.

Definition tinv (s : tstate) (w : winput) (p : pc) : Prop :=
  In w ws /\
  match p with
  | PStart => True
  | PChecked i | PNotComplete i | PNotDirty i => valid_idx w i
  | POwn i => valid_idx w i /\ holds s i
  | PWriting i pos rest =>
      valid_idx w i /\ holds s i /\
      exists dn, payload w = dn ++ concat rest /\ pos = poff c i + length dn /\
                 firstn (length dn) (skipn (poff c i) (file s)) = dn
  | PSummed i => valid_idx w i /\ holds s i /\ w_hsum w = psum c i /\ written s w i
  | PSidecar i => valid_idx w i /\ st_at s i = Dirty /\ nth i (sidecar s) 0%N = 1%N /\ w_hsum w = psum c i
  | PFailed i => valid_idx w i /\ holds s i /\ w_hsum w <> psum c i
  | PMarked | PCounted => accepted s w
  | PMove => accepted s w /\ ncomp s = npieces c
  | PStore => accepted s w /\ ncomp s = npieces c /\ incache s = true
  | PDone ROk => accepted s w
  | PDone RWriteErr => exists i, valid_idx w i /\ w_hsum w <> psum c i
  | PDone RComplete | PDone RConflict => exists i, valid_idx w i
  | PDone RMoveErr => False
  | PDone _ => True
  end.

Definition dirty01 (s : tstate) (i : nat) : nat := if pstatus_eqb (st_at s i) Dirty then 1 else 0.

Record Inv (s : tstate) (ths : list thread) : Prop := mkInv {
  I_inputs : map t_in ths = ws;
  I_len_st : length (status s) = npieces c;
  I_len_sc : length (sidecar s) = npieces c;
  I_len_f : length (file s) = c_len c;
  I_thr : Forall (fun th => tinv s (t_in th) (t_pc th)) ths;
  I_sc_complete : forall i, i < npieces c -> st_at s i = Complete -> nth i (sidecar s) 0%N = 1%N;
  I_sc_nonempty : forall i, i < npieces c -> nth i (sidecar s) 0%N = 1%N -> st_at s i <> Empty;
  I_verified : forall i, i < npieces c -> nth i (sidecar s) 0%N = 1%N -> verified s i;
  I_own : forall i, i < npieces c -> count_own i ths = dirty01 s i;
  I_count : ncomp s + count_marked ths = count_st Complete (status s);
  I_cache : incache s = true -> ncomp s = npieces c;
  I_comm : committed s = true -> incache s = true;
  I_live : ncomp s = npieces c -> committed s = true \/ Exists (fun th => committing (t_pc th)) ths
}.

(* ---- frames: what a step on piece i0 leaves alone ---- *)
Record frame (i0 : nat) (s s' : tstate) : Prop := mkFrame {
  F_st : forall j, j <> i0 -> st_at s' j = st_at s j;
  F_sc : forall j, j <> i0 -> nth j (sidecar s') 0%N = nth j (sidecar s) 0%N;
  F_file : forall j m, j <> i0 -> j < npieces c -> m <= plen c j ->
             firstn m (skipn (poff c j) (file s')) = firstn m (skipn (poff c j) (file s));
  F_ncomp : ncomp s' = ncomp s;
  F_cache : incache s' = incache s;
  F_comm : committed s' = committed s
}.

Lemma valid_idx_lt : forall w i, valid_idx w i -> i < npieces c.
Proof. intros w i H. apply H. Qed.

Lemma accepted_frame : forall i0 s s' w, frame i0 s s' -> st_at s i0 <> Complete ->
  accepted s w -> accepted s' w.
Proof.
  intros i0 s s' w F Hn (i & Hv & Hh & Hc). exists i. refine (conj Hv (conj Hh _)).
  destruct (Nat.eq_dec i i0) as [->|Hne]; [congruence|]. rewrite (F_st _ _ _ F) by auto. exact Hc.
Qed.

Lemma holds_frame : forall i0 s s' i, frame i0 s s' -> i <> i0 -> holds s i -> holds s' i.
Proof.
  intros i0 s s' i F Hne [H1 H2]. split.
  - rewrite (F_st _ _ _ F) by auto. exact H1.
  - rewrite (F_sc _ _ _ F) by auto. exact H2.
Qed.

Lemma written_frame : forall i0 s s' w i, frame i0 s s' -> i <> i0 -> valid_idx w i ->
  written s w i -> written s' w i.
Proof.
  intros i0 s s' w i F Hne Hv Hw. unfold written in *.
  rewrite (F_file _ _ _ F); auto; apply Hv.
Qed.

(* a caller that does not hold i0 is not disturbed by a step on piece i0 *)
Lemma tinv_frame : forall i0 s s' w p, frame i0 s s' -> st_at s i0 <> Complete ->
  owner p <> Some i0 -> tinv s w p -> tinv s' w p.
Proof.
  intros i0 s s' w p F Hn Ho [Hin H]. split; [exact Hin|].
  destruct p; simpl in *; auto.
  - destruct H as [Hv Hh]. split; auto. eapply holds_frame; eauto; congruence.
  - destruct H as (Hv & Hh & dn & E1 & E2 & E3). assert (i <> i0) by congruence.
    refine (conj Hv (conj _ _)); [eapply holds_frame; eauto|]. exists dn.
    refine (conj E1 (conj E2 _)).
    rewrite (F_file _ _ _ F); auto; [apply Hv|].
    destruct Hv as (_ & _ & _ & Hl & _). rewrite E1, app_length in Hl. lia.
  - destruct H as (Hv & Hh & Hs & Hw). assert (i <> i0) by congruence.
    refine (conj Hv (conj _ (conj Hs _))); [eapply holds_frame; eauto | eapply written_frame; eauto].
  - destruct H as (Hv & Hd & Hs & Hh). assert (i <> i0) by congruence.
    refine (conj Hv (conj _ (conj _ Hh))).
    + rewrite (F_st _ _ _ F); auto.
    + rewrite (F_sc _ _ _ F); auto.
  - eapply accepted_frame; eauto.
  - eapply accepted_frame; eauto.
  - destruct H. split; [eapply accepted_frame; eauto|]. rewrite (F_ncomp _ _ _ F). auto.
  - destruct H as (Ha & Hc & Hi). split; [eapply accepted_frame; eauto|].
    rewrite (F_ncomp _ _ _ F), (F_cache _ _ _ F). auto.
  - destruct H as (Hv & Hh & Hs). assert (i <> i0) by congruence.
    refine (conj Hv (conj _ Hs)). eapply holds_frame; eauto.
  - destruct r; auto. eapply accepted_frame; eauto.
Qed.

Lemma Forall_tinv_frame : forall i0 s s' l, frame i0 s s' -> st_at s i0 <> Complete ->
  count_own i0 l = 0 ->
  Forall (fun th => tinv s (t_in th) (t_pc th)) l ->
  Forall (fun th => tinv s' (t_in th) (t_pc th)) l.
Proof.
  intros i0 s s' l F Hn Hz H. rewrite Forall_forall in *. intros t Ht.
  eapply tinv_frame; eauto. eapply count_own_zero; eauto.
Qed.

Lemma verified_frame : forall i0 s s' i, frame i0 s s' -> i <> i0 -> verified s i -> verified s' i.
Proof.
  intros i0 s s' i F Hne (w & Hv & Hs & Hw). exists w. refine (conj Hv (conj Hs _)).
  eapply written_frame; eauto.
Qed.


(* ---- steps that touch only the counters / flags ---- *)
Lemma tinv_gframe : forall s s' w p,
  status s' = status s -> file s' = file s -> sidecar s' = sidecar s ->
  (incache s = true -> incache s' = true) ->
  (ncomp s = npieces c -> ncomp s' = npieces c) ->
  tinv s w p -> tinv s' w p.
Proof.
  intros s s' w p E1 E2 E3 Hc Hn [Hin H]. split; [exact Hin|].
  assert (Hst : forall i, st_at s' i = st_at s i) by (intros; unfold st_at; rewrite E1; reflexivity).
  assert (Hh : forall i, holds s i -> holds s' i).
  { intros i [A B]. split; [rewrite Hst; auto | rewrite E3; auto]. }
  assert (Hw : forall w i, written s w i -> written s' w i) by (intros; unfold written in *; rewrite E2; auto).
  assert (Ha : forall w, accepted s w -> accepted s' w).
  { intros w0 (i & A & B & C). exists i. refine (conj A (conj B _)). rewrite Hst; auto. }
  destruct p; simpl in *; auto.
  - destruct H; auto.
  - destruct H as (A & B & dn & C & D & E). refine (conj A (conj (Hh _ B) _)). exists dn. rewrite E2. auto.
  - destruct H as (A & B & C & D). auto.
  - destruct H as (A & B & C & D). rewrite Hst, E3. auto.
  - destruct H; auto.
  - destruct H as (A & B & C); auto.
  - destruct H as (A & B & C); auto.
  - destruct r; auto.
Qed.

(* ---- decomposition helpers ---- *)
Lemma inv_mid : forall s pre th post, Inv s (pre ++ th :: post) ->
  tinv s (t_in th) (t_pc th) /\
  Forall (fun th => tinv s (t_in th) (t_pc th)) pre /\
  Forall (fun th => tinv s (t_in th) (t_pc th)) post.
Proof.
  intros s pre th post I. pose proof (I_thr _ _ I) as H.
  apply Forall_app in H as [H1 H2]. inversion H2; subst. auto.
Qed.

Lemma others_not_own : forall s pre th post i, Inv s (pre ++ th :: post) -> i < npieces c ->
  owner (t_pc th) = Some i \/ st_at s i <> Dirty ->
  count_own i pre = 0 /\ count_own i post = 0.
Proof.
  intros s pre th post i I Hi H. pose proof (I_own _ _ I i Hi) as Ho.
  rewrite count_own_app in Ho. simpl in Ho. unfold dirty01 in Ho.
  destruct H as [H|H].
  - rewrite (own1_owner _ _ H) in Ho. destruct (pstatus_eqb (st_at s i) Dirty); lia.
  - apply pstatus_eqb_neq in H. rewrite H in Ho. lia.
Qed.

Lemma map_in_mid : forall pre post w p p',
  map t_in (pre ++ mkth w p' :: post) = map t_in (pre ++ mkth w p :: post).
Proof. intros. rewrite !map_app. reflexivity. Qed.

Lemma exists_mid : forall pre post w p p',
  (committing p -> committing p') ->
  Exists (fun th => committing (t_pc th)) (pre ++ mkth w p :: post) ->
  Exists (fun th => committing (t_pc th)) (pre ++ mkth w p' :: post).
Proof.
  intros pre post w p p' H E. apply Exists_app in E. apply Exists_app.
  destruct E as [E|E]; auto. right. inversion E; subst; [left; simpl in *; auto | right; auto].
Qed.

(* ---- a step that changes nothing shared ---- *)
Lemma inv_silent : forall s pre post w p p',
  Inv s (pre ++ mkth w p :: post) ->
  tinv s w p' ->
  (forall j, own1 j p' = own1 j p) -> marked1 p' = marked1 p ->
  (committing p -> committing p' \/ ncomp s <> npieces c) ->
  Inv s (pre ++ mkth w p' :: post).
Proof.
  intros s pre post w p p' I Ht Ho Hm Hc.
  destruct (inv_mid _ _ _ _ I) as (_ & Hpre & Hpost).
  constructor; try (apply I).
  - rewrite (map_in_mid pre post w p p'). apply I.
  - apply Forall_app. split; auto.
  - intros i Hi. rewrite <- (I_own _ _ I i Hi). rewrite !count_own_app. simpl. rewrite Ho. reflexivity.
  - rewrite <- (I_count _ _ I). rewrite !count_marked_app. simpl. rewrite Hm. reflexivity.
  - intros Hn. destruct (I_live _ _ I Hn) as [H|H]; auto. right.
    apply Exists_app in H. apply Exists_app. destruct H as [H|H]; auto. right.
    inversion H; subst; [|right; auto]. left. simpl in *. destruct (Hc H1); [auto|contradiction].
Qed.

(* ---- a step of the holder (or taker) of piece i0 ---- *)
Lemma inv_frame_step : forall s s' pre post w p p' i0,
  Inv s (pre ++ mkth w p :: post) ->
  i0 < npieces c -> st_at s i0 <> Complete ->
  count_own i0 pre = 0 -> count_own i0 post = 0 ->
  frame i0 s s' ->
  length (status s') = npieces c -> length (sidecar s') = npieces c -> length (file s') = c_len c ->
  tinv s' w p' ->
  (st_at s' i0 = Complete -> nth i0 (sidecar s') 0%N = 1%N) ->
  (nth i0 (sidecar s') 0%N = 1%N -> st_at s' i0 <> Empty) ->
  (nth i0 (sidecar s') 0%N = 1%N -> verified s' i0) ->
  own1 i0 p' = dirty01 s' i0 ->
  (forall j, j <> i0 -> own1 j p' = own1 j p) ->
  count_st Complete (status s') + marked1 p = count_st Complete (status s) + marked1 p' ->
  (committing p -> committing p') ->
  Inv s' (pre ++ mkth w p' :: post).
Proof.
  intros s s' pre post w p p' i0 I Hi0 Hnc Hz1 Hz2 F L1 L2 L3 Ht A1 A2 A3 Ho1 Ho2 Hcnt Hcm.
  destruct (inv_mid _ _ _ _ I) as (_ & Hpre & Hpost).
  constructor; auto.
  - rewrite (map_in_mid pre post w p p'). apply I.
  - apply Forall_app. split; [|constructor]; auto; eapply Forall_tinv_frame; eauto.
  - intros i Hi Hc. destruct (Nat.eq_dec i i0) as [->|Hne]; auto.
    rewrite (F_st _ _ _ F) in Hc by auto. rewrite (F_sc _ _ _ F) by auto. apply I; auto.
  - intros i Hi Hc. destruct (Nat.eq_dec i i0) as [->|Hne]; auto.
    rewrite (F_sc _ _ _ F) in Hc by auto. rewrite (F_st _ _ _ F) by auto. apply I; auto.
  - intros i Hi Hc. destruct (Nat.eq_dec i i0) as [->|Hne]; auto.
    rewrite (F_sc _ _ _ F) in Hc by auto. eapply verified_frame; eauto. apply I; auto.
  - intros i Hi. rewrite count_own_app. simpl.
    destruct (Nat.eq_dec i i0) as [->|Hne]; [lia|].
    rewrite Ho2 by auto. pose proof (I_own _ _ I i Hi) as H. rewrite count_own_app in H. simpl in H.
    rewrite H. unfold dirty01. rewrite (F_st _ _ _ F) by auto. reflexivity.
  - pose proof (I_count _ _ I) as H. rewrite count_marked_app in *. simpl in *.
    rewrite (F_ncomp _ _ _ F). lia.
  - rewrite (F_cache _ _ _ F), (F_ncomp _ _ _ F). apply I.
  - rewrite (F_cache _ _ _ F), (F_comm _ _ _ F). apply I.
  - rewrite (F_ncomp _ _ _ F), (F_comm _ _ _ F). intros Hn.
    destruct (I_live _ _ I Hn) as [H|H]; auto. right. eapply exists_mid; eauto.
Qed.


Lemma verified_ext : forall s s' i, file s' = file s -> verified s i -> verified s' i.
Proof.
  intros s s' i E (w & A & B & C). exists w. refine (conj A (conj B _)). unfold written in *. rewrite E. exact C.
Qed.

(* ---- a step on the counter / flags only ---- *)
Lemma inv_global_step : forall s s' pre post w p p',
  Inv s (pre ++ mkth w p :: post) ->
  status s' = status s -> file s' = file s -> sidecar s' = sidecar s ->
  (incache s = true -> incache s' = true) ->
  (ncomp s = npieces c -> ncomp s' = npieces c) ->
  tinv s' w p' ->
  (forall j, own1 j p' = own1 j p) ->
  ncomp s' + marked1 p' = ncomp s + marked1 p ->
  (incache s' = true -> ncomp s' = npieces c) ->
  (committed s' = true -> incache s' = true) ->
  (ncomp s' = npieces c -> committed s' = true \/ committing p') ->
  Inv s' (pre ++ mkth w p' :: post).
Proof.
  intros s s' pre post w p p' I E1 E2 E3 Hc Hn Ht Ho Hcnt Hca Hco Hl.
  destruct (inv_mid _ _ _ _ I) as (_ & Hpre & Hpost).
  assert (Hst : forall i, st_at s' i = st_at s i) by (intros; unfold st_at; rewrite E1; reflexivity).
  assert (HF : forall l, Forall (fun th => tinv s (t_in th) (t_pc th)) l ->
                         Forall (fun th => tinv s' (t_in th) (t_pc th)) l).
  { intros l H. rewrite Forall_forall in *. intros t Hin. eapply tinv_gframe; eauto. }
  constructor; auto.
  - rewrite (map_in_mid pre post w p p'). apply I.
  - rewrite E1. apply I.
  - rewrite E3. apply I.
  - rewrite E2. apply I.
  - apply Forall_app. split; [|constructor]; auto.
  - intros i Hi. rewrite Hst, E3. apply I; auto.
  - intros i Hi. rewrite Hst, E3. apply I; auto.
  - intros i Hi H. rewrite E3 in H. eapply verified_ext; eauto. apply I; auto.
  - intros i Hi. rewrite count_own_app. simpl. rewrite Ho.
    pose proof (I_own _ _ I i Hi) as H. rewrite count_own_app in H. simpl in H. rewrite H.
    unfold dirty01. rewrite Hst. reflexivity.
  - pose proof (I_count _ _ I) as H. rewrite count_marked_app in *. simpl in *. rewrite E1. lia.
  - intros H. destruct (Hl H) as [A|A]; auto. right. apply Exists_app. right. left. exact A.
Qed.

Lemma incache_all_complete : forall s ths, Inv s ths -> incache s = true ->
  forall i, i < npieces c -> st_at s i = Complete.
Proof.
  intros s ths I Hc i Hi. pose proof (I_cache _ _ I Hc) as Hn.
  pose proof (I_count _ _ I) as H. pose proof (count_st_le Complete (status s)) as Hle.
  rewrite (I_len_st _ _ I) in Hle.
  unfold st_at. apply count_st_all; [|rewrite (I_len_st _ _ I); auto].
  rewrite (I_len_st _ _ I). lia.
Qed.

Lemma st_at_upd_eq : forall s i v, i < length (status s) -> st_at (set_status s (upd i v (status s))) i = v.
Proof. intros. unfold st_at. simpl. apply nth_upd_eq. auto. Qed.

Lemma st_at_upd_neq : forall s i j v, j <> i -> st_at (set_status s (upd i v (status s))) j = st_at s j.
Proof. intros. unfold st_at. simpl. apply nth_upd_neq. auto. Qed.

Lemma frame_set_status : forall s i v, frame i s (set_status s (upd i v (status s))).
Proof. intros. constructor; simpl; auto. intros. apply st_at_upd_neq; auto. Qed.

Lemma dirty01_cases : forall s i, dirty01 s i = match st_at s i with Dirty => 1 | _ => 0 end.
Proof. intros. unfold dirty01. destruct (st_at s i); reflexivity. Qed.

Lemma own1_self : forall i p, owner p = Some i -> forall j, j <> i -> own1 j p = 0.
Proof. intros. unfold own1. rewrite H. destruct (i =? j) eqn:E; auto. apply Nat.eqb_eq in E. lia. Qed.

Lemma own1_none : forall p, owner p = None -> forall j, own1 j p = 0.
Proof. intros. unfold own1. rewrite H. reflexivity. Qed.

(* ---- every atomic step of every caller preserves the invariant ---- *)
Theorem inv_tstep : forall s s' pre post w p p',
  Inv s (pre ++ mkth w p :: post) ->
  tstep c s w p = (s', p') ->
  Inv s' (pre ++ mkth w p' :: post).
Proof.
  intros s s' pre post w p p' I Hs.
  destruct (inv_mid _ _ _ _ I) as ([Hin Ht] & _ & _). simpl in Hin, Ht.
  pose proof (I_len_st _ _ I) as Lst. pose proof (I_len_sc _ _ I) as Lsc. pose proof (I_len_f _ _ I) as Lf.
  destruct p; cbn [tstep] in Hs.
  - (* PStart *)
    destruct ((w_idx w <? 0)%Z || (Z.of_nat (length (status s)) <=? w_idx w)%Z) eqn:E1.
    { inversion Hs; subst. eapply inv_silent; eauto. split; simpl; auto. }
    apply orb_false_elim in E1 as [E1 E2]. apply Z.ltb_ge in E1. apply Z.leb_gt in E2.
    destruct (w_decl w =? Z.of_nat (plen c (Z.to_nat (w_idx w))))%Z eqn:E3.
    + inversion Hs; subst. eapply inv_silent; eauto. split; simpl; auto.
      apply Z.eqb_eq in E3. pose proof (Hhonest w Hin) as Hh. unfold honestP in Hh.
      unfold valid_idx. rewrite Z2Nat.id by lia. repeat split; auto; lia.
    + inversion Hs; subst. eapply inv_silent; eauto. split; simpl; auto.
  - (* PChecked *)
    simpl in Ht.
    destruct (pstatus_eqb (st_at s i) Complete); inversion Hs; subst;
      eapply inv_silent; eauto; split; simpl; eauto.
  - (* PNotComplete *)
    simpl in Ht.
    destruct (pstatus_eqb (st_at s i) Dirty); inversion Hs; subst;
      eapply inv_silent; eauto; split; simpl; eauto.
  - (* PNotDirty *)
    simpl in Ht. pose proof (valid_idx_lt _ _ Ht) as Hi.
    destruct (st_at s i) eqn:Est; inversion Hs; subst; clear Hs;
      [ | eapply inv_silent; eauto; split; simpl; eauto | eapply inv_silent; eauto; split; simpl; eauto ].
    assert (Hsc : nth i (sidecar s) 0%N <> 1%N).
    { intros H. apply (I_sc_nonempty _ _ I i Hi H). exact Est. }
    destruct (others_not_own s pre (mkth w (PNotDirty i)) post i I Hi) as [Z1 Z2];
      [right; rewrite Est; discriminate|].
    refine (inv_frame_step s _ pre post w _ _ i I Hi _ Z1 Z2 _ _ _ _ _ _ _ _ _ _ _ _).
    + rewrite Est. discriminate.
    + apply frame_set_status.
    + simpl. rewrite length_upd. auto.
    + exact Lsc.
    + exact Lf.
    + split; [exact Hin|]. simpl. split; auto. split; [apply st_at_upd_eq; lia | exact Hsc].
    + rewrite st_at_upd_eq by lia. discriminate.
    + rewrite st_at_upd_eq by lia. discriminate.
    + simpl. intros H. contradiction.
    + rewrite dirty01_cases, st_at_upd_eq by lia. apply own1_owner. reflexivity.
    + intros j Hj. rewrite (own1_self i (POwn i)) by auto. symmetry. apply own1_none. reflexivity.
    + simpl. pose proof (count_st_upd Complete Dirty (status s) i ltac:(lia)) as H.
      unfold st_at in Est. rewrite Est in H. simpl in H. lia.
    + simpl. auto.
  - (* POwn *)
    simpl in Ht. destruct Ht as [Hv Hh]. pose proof (valid_idx_lt _ _ Hv) as Hi.
    destruct (incache s) eqn:Ec.
    { pose proof (incache_all_complete _ _ I Ec i Hi) as H. destruct Hh as [Hd _]. congruence. }
    inversion Hs; subst. eapply inv_silent; eauto.
    split; [exact Hin|]. simpl. refine (conj Hv (conj Hh _)). exists []. simpl. repeat split; auto.
  - (* PWriting *)
    simpl in Ht. destruct Ht as (Hv & Hh & dn & Ep & Epos & Epre).
    pose proof (valid_idx_lt _ _ Hv) as Hi.
    destruct rest as [|ch rest].
    + (* EOF: compare the sum *)
      simpl in Ep. rewrite app_nil_r in Ep. subst dn.
      destruct (w_hsum w =? psum c i)%N eqn:Eh; inversion Hs; subst; eapply inv_silent; eauto;
        split; simpl; auto.
      * apply N.eqb_eq in Eh. refine (conj Hv (conj Hh (conj Eh _))). exact Epre.
      * apply N.eqb_neq in Eh. auto.
    + (* one write(2) *)
      inversion Hs; subst; clear Hs. simpl in Ep.
      pose proof (region_in_file c Hwf i Hi) as Hreg.
      assert (Hlen : length dn + length ch + length (concat rest) <= plen c i).
      { destruct Hv as (_ & _ & _ & Hl & _). rewrite Ep, !app_length in Hl. lia. }
      destruct Hh as [Hd Hsc].
      destruct (others_not_own s pre (mkth w (PWriting i (poff c i + length dn) (ch :: rest))) post i I Hi)
        as [Z1 Z2]; [left; reflexivity|].
      refine (inv_frame_step s _ pre post w _ _ i I Hi _ Z1 Z2 _ _ _ _ _ _ _ _ _ _ _ _).
      * rewrite Hd. discriminate.
      * constructor; simpl; auto. intros j m Hj Hjn Hm.
        apply pwrite_disjoint; [lia|].
        destruct (Nat.lt_ge_cases j i) as [Hlt|Hge].
        -- left. pose proof (regions_ordered c Hwf j i Hlt). lia.
        -- right. pose proof (regions_ordered c Hwf i j ltac:(lia)). lia.
      * exact Lst.
      * exact Lsc.
      * simpl. rewrite length_pwrite; lia.
      * split; [exact Hin|]. simpl. refine (conj Hv (conj (conj Hd Hsc) _)).
        exists (dn ++ ch). rewrite app_length. repeat split.
        -- rewrite Ep, app_assoc. reflexivity.
        -- lia.
        -- apply pwrite_extend; auto. lia.
      * unfold st_at in *. simpl. rewrite Hd. discriminate.
      * simpl. intros H. contradiction.
      * simpl. intros H. contradiction.
      * rewrite dirty01_cases. unfold st_at in *. simpl. rewrite Hd. apply own1_owner. reflexivity.
      * simpl. auto.
      * simpl. lia.
      * simpl. auto.
  - (* PSummed *)
    simpl in Ht. destruct Ht as (Hv & Hh & Hsum & Hw). pose proof (valid_idx_lt _ _ Hv) as Hi.
    destruct (incache s) eqn:Ec.
    { pose proof (incache_all_complete _ _ I Ec i Hi) as H. destruct Hh as [Hd _]. congruence. }
    assert (E : (i <? length (sidecar s)) = true) by (apply Nat.ltb_lt; lia). rewrite E in Hs.
    inversion Hs; subst; clear Hs. destruct Hh as [Hd Hsc].
    destruct (others_not_own s pre (mkth w (PSummed i)) post i I Hi) as [Z1 Z2]; [left; reflexivity|].
    refine (inv_frame_step s _ pre post w _ _ i I Hi _ Z1 Z2 _ _ _ _ _ _ _ _ _ _ _ _).
    + rewrite Hd. discriminate.
    + constructor; simpl; auto. intros. apply nth_upd_neq. auto.
    + exact Lst.
    + simpl. rewrite length_upd. auto.
    + exact Lf.
    + split; [exact Hin|]. simpl. refine (conj Hv (conj Hd (conj _ Hsum))). apply nth_upd_eq. lia.
    + simpl. intros _. apply nth_upd_eq. lia.
    + unfold st_at in *. simpl. rewrite Hd. discriminate.
    + intros _. exists w. refine (conj Hv (conj Hsum _)). exact Hw.
    + rewrite dirty01_cases. unfold st_at in *. simpl. rewrite Hd. apply own1_owner. reflexivity.
    + simpl. auto.
    + simpl. lia.
    + simpl. auto.
  - (* PSidecar *)
    simpl in Ht. destruct Ht as (Hv & Hd & Hsc & Hsum). pose proof (valid_idx_lt _ _ Hv) as Hi.
    inversion Hs; subst; clear Hs.
    destruct (others_not_own s pre (mkth w (PSidecar i)) post i I Hi) as [Z1 Z2]; [left; reflexivity|].
    refine (inv_frame_step s _ pre post w _ _ i I Hi _ Z1 Z2 _ _ _ _ _ _ _ _ _ _ _ _).
    + rewrite Hd. discriminate.
    + apply frame_set_status.
    + simpl. rewrite length_upd. auto.
    + exact Lsc.
    + exact Lf.
    + split; [exact Hin|]. simpl. exists i. refine (conj Hv (conj Hsum _)). apply st_at_upd_eq. lia.
    + intros _. exact Hsc.
    + rewrite st_at_upd_eq by lia. discriminate.
    + simpl. intros _. eapply verified_ext; [|apply (I_verified _ _ I i Hi Hsc)]. reflexivity.
    + rewrite dirty01_cases, st_at_upd_eq by lia. apply own1_none. reflexivity.
    + intros j Hj. rewrite (own1_self i (PSidecar i)) by auto. apply own1_none. reflexivity.
    + simpl. pose proof (count_st_upd Complete Complete (status s) i ltac:(lia)) as H.
      unfold st_at in Hd. rewrite Hd in H. simpl in H. lia.
    + simpl. auto.
  - (* PMarked *)
    simpl in Ht. inversion Hs; subst; clear Hs.
    assert (Hlt : ncomp s < npieces c).
    { pose proof (I_count _ _ I) as H. rewrite count_marked_app in H. simpl in H.
      pose proof (count_st_le Complete (status s)). lia. }
    assert (T : tinv (set_ncomp s (S (ncomp s))) w PCounted) by (split; auto).
    assert (C1 : incache (set_ncomp s (S (ncomp s))) = true -> ncomp (set_ncomp s (S (ncomp s))) = npieces c).
    { simpl. intros H. pose proof (I_cache _ _ I H). lia. }
    refine (inv_global_step s (set_ncomp s (S (ncomp s))) pre post w PMarked PCounted I
              eq_refl eq_refl eq_refl _ _ T _ _ C1 _ _); simpl; auto; try lia.
    apply I.
  - (* PCounted *)
    simpl in Ht.
    destruct (ncomp s =? length (status s)) eqn:E; inversion Hs; subst; clear Hs.
    + apply Nat.eqb_eq in E. refine (inv_silent s' pre post w PCounted PMove I _ _ _ _).
      * split; simpl; auto. split; auto. lia.
      * reflexivity.
      * reflexivity.
      * simpl. auto.
    + apply Nat.eqb_neq in E. refine (inv_silent s' pre post w PCounted (PDone ROk) I _ _ _ _).
      * split; simpl; auto.
      * reflexivity.
      * reflexivity.
      * simpl. intros _. right. lia.
  - (* PMove *)
    simpl in Ht. destruct Ht as [Ha Hn]. inversion Hs; subst; clear Hs.
    assert (T : tinv (set_incache s true) w PStore).
    { split; [exact Hin|]. simpl. destruct Ha as (i & A & B & C). split; [exists i; auto|auto]. }
    refine (inv_global_step s (set_incache s true) pre post w PMove PStore I
              eq_refl eq_refl eq_refl _ _ T _ _ _ _ _); simpl; auto.
  - (* PStore *)
    simpl in Ht. destruct Ht as (Ha & Hn & Hc). inversion Hs; subst; clear Hs.
    assert (T : tinv (set_committed s true) w (PDone ROk)).
    { split; [exact Hin|]. simpl. destruct Ha as (i & A & B & C). exists i; auto. }
    refine (inv_global_step s (set_committed s true) pre post w PStore (PDone ROk) I
              eq_refl eq_refl eq_refl _ _ T _ _ _ _ _); simpl; auto.
    (* all side conditions closed by auto *)
  - (* PFailed *)
    simpl in Ht. destruct Ht as (Hv & [Hd Hsc] & Hsum). pose proof (valid_idx_lt _ _ Hv) as Hi.
    inversion Hs; subst; clear Hs.
    destruct (others_not_own s pre (mkth w (PFailed i)) post i I Hi) as [Z1 Z2]; [left; reflexivity|].
    refine (inv_frame_step s _ pre post w _ _ i I Hi _ Z1 Z2 _ _ _ _ _ _ _ _ _ _ _ _).
    + rewrite Hd. discriminate.
    + apply frame_set_status.
    + simpl. rewrite length_upd. auto.
    + exact Lsc.
    + exact Lf.
    + split; [exact Hin|]. simpl. exists i. auto.
    + rewrite st_at_upd_eq by lia. discriminate.
    + simpl. intros H. contradiction.
    + simpl. intros H. contradiction.
    + rewrite dirty01_cases, st_at_upd_eq by lia. apply own1_none. reflexivity.
    + intros j Hj. rewrite (own1_self i (PFailed i)) by auto. apply own1_none. reflexivity.
    + simpl. pose proof (count_st_upd Complete Empty (status s) i ltac:(lia)) as H.
      unfold st_at in Hd. rewrite Hd in H. simpl in H. lia.
    + simpl. auto.
  - (* PDone *)
    inversion Hs; subst. exact I.
Qed.


(* ---- the system ---- *)
Definition SInv (S : sys) : Prop := Inv (s_st S) (s_ths S).

Lemma inv_sys_step : forall S k, SInv S -> SInv (sys_step c S k).
Proof.
  intros S k I. unfold sys_step. destruct (nth_error (s_ths S) k) as [th|] eqn:E; [|exact I].
  destruct (nth_error_split_at _ _ _ _ E) as (pre & post & Eths & Ek).
  destruct th as [w p]. simpl. destruct (tstep c (s_st S) w p) as [s' p'] eqn:Es.
  unfold SInv in *. simpl. rewrite Eths in *. rewrite <- Ek, upd_app.
  eapply inv_tstep; eauto.
Qed.

Lemma inv_run : forall sched S, SInv S -> SInv (run c S sched).
Proof.
  induction sched; simpl; intros S I; auto. apply IHsched. apply inv_sys_step. exact I.
Qed.

Lemma init_fresh_eq : init_fresh c =
  mkts (repeat Empty (npieces c)) (repeat 0%N (c_len c)) (repeat 0%N (npieces c)) 0
       (Nat.eqb 0 (npieces c)) (Nat.eqb 0 (npieces c)).
Proof.
  unfold init_fresh, new_torrent.
  assert (E : map deser_status (repeat 0%N (npieces c)) = repeat Empty (npieces c)).
  { induction (npieces c); simpl; auto. rewrite IHn0. reflexivity. }
  rewrite E. rewrite count_st_repeat_other by discriminate. rewrite repeat_length. reflexivity.
Qed.

Lemma count_own_start : forall i l, count_own i (map (fun w => mkth w PStart) l) = 0.
Proof. induction l; simpl; auto. Qed.

Lemma count_marked_start : forall l, count_marked (map (fun w => mkth w PStart) l) = 0.
Proof. induction l; simpl; auto. Qed.

Lemma nth_repeat_any : forall A (x d : A) k i, i < k -> nth i (repeat x k) d = x.
Proof. induction k; simpl; intros; [lia|]. destruct i; auto. apply IHk. lia. Qed.

Lemma inv_init : SInv (start (init_fresh c) ws).
Proof.
  unfold SInv, start. simpl. rewrite init_fresh_eq.
  constructor; simpl.
  - rewrite map_map. simpl. apply map_id.
  - apply repeat_length.
  - apply repeat_length.
  - apply repeat_length.
  - apply Forall_forall. intros th Hth. apply in_map_iff in Hth as (w & <- & Hw). split; simpl; auto.
  - intros i Hi H. unfold st_at in H. simpl in H. rewrite nth_repeat_any in H by auto. discriminate.
  - intros i Hi H. rewrite nth_repeat_any in H by auto. discriminate.
  - intros i Hi H. rewrite nth_repeat_any in H by auto. discriminate.
  - intros i Hi. rewrite count_own_start. unfold dirty01, st_at. simpl. rewrite nth_repeat_any by auto. reflexivity.
  - rewrite count_marked_start. rewrite count_st_repeat_other by discriminate. reflexivity.
  - intros H. destruct (npieces c); [reflexivity|discriminate].
  - auto.
  - intros H. left. rewrite <- H. reflexivity.
Qed.

Definition reachable (S : sys) : Prop := exists sched, S = run c (start (init_fresh c) ws) sched.

Theorem reachable_inv : forall S, reachable S -> SInv S.
Proof. intros S [sched ->]. apply inv_run. apply inv_init. Qed.

Lemma reachable_step : forall S k, reachable S -> reachable (sys_step c S k).
Proof.
  intros S k [sched ->]. exists (sched ++ [k]). unfold run. rewrite fold_left_app. reflexivity.
Qed.

Lemma reachable_run : forall sched S, reachable S -> reachable (run c S sched).
Proof. induction sched; simpl; intros; auto. apply IHsched. apply reachable_step. auto. Qed.

(* ---- consequences of the invariant ---- *)

Lemma complete_verified : forall S i, SInv S -> i < npieces c -> st_at (s_st S) i = Complete ->
  verified (s_st S) i.
Proof. intros S i I Hi H. apply (I_verified _ _ I i Hi). apply (I_sc_complete _ _ I i Hi H). Qed.

Lemma persisted_verified : forall S i, SInv S -> i < npieces c -> nth i (sidecar (s_st S)) 0%N = 1%N ->
  verified (s_st S) i.
Proof. intros S i I Hi H. apply (I_verified _ _ I i Hi H). Qed.

Lemma commit_all_complete : forall S, SInv S ->
  incache (s_st S) = true \/ committed (s_st S) = true ->
  forall i, i < npieces c -> st_at (s_st S) i = Complete.
Proof.
  intros S I H. eapply incache_all_complete; eauto.
  destruct H; auto. apply (I_comm _ _ I). auto.
Qed.

Lemma count_marked_done : forall ths, forallb thread_idle ths = true -> count_marked ths = 0.
Proof.
  induction ths; simpl; intros H; auto. apply andb_prop in H as [H1 H2]. rewrite IHths by auto.
  unfold thread_idle in H1. destruct (t_pc a); simpl; auto; discriminate.
Qed.

Lemma quiescent_idle : forall S, quiescent S = true -> idle S = true.
Proof.
  intros S H. unfold quiescent, idle in *. rewrite forallb_forall in *. intros t Ht.
  specialize (H t Ht). unfold thread_done in H. unfold thread_idle. destruct (t_pc t); auto.
Qed.

Lemma count_marked_le : forall ths, count_marked ths <= length ths.
Proof. induction ths; simpl; auto. destruct (t_pc a); simpl; lia. Qed.

Lemma progress_accounting : forall S, SInv S ->
  ncomp (s_st S) + count_marked (s_ths S) = count_st Complete (status (s_st S)).
Proof. intros S I. apply (I_count _ _ I). Qed.

Lemma progress_idle : forall S, SInv S -> idle S = true ->
  ncomp (s_st S) = count_st Complete (status (s_st S)).
Proof.
  intros S I Q. pose proof (I_count _ _ I) as H. unfold idle in Q.
  rewrite (count_marked_done _ Q) in H. lia.
Qed.

Lemma not_committing_done : forall ths, forallb thread_idle ths = true ->
  ~ Exists (fun th => committing (t_pc th)) ths.
Proof.
  intros ths H E. apply Exists_exists in E as (th & Hin & Hc).
  rewrite forallb_forall in H. specialize (H th Hin). unfold thread_idle in H.
  destruct (t_pc th); simpl in *; try discriminate; auto.
Qed.

(* nothing is lost: when every caller has returned and every piece is complete, the torrent
   is committed *)
Lemma commit_not_lost : forall S, SInv S -> idle S = true ->
  (forall i, i < npieces c -> st_at (s_st S) i = Complete) ->
  committed (s_st S) = true /\ incache (s_st S) = true.
Proof.
  intros S I Q Hall. pose proof (progress_idle S I Q) as Hn.
  assert (Hc : count_st Complete (status (s_st S)) = npieces c).
  { rewrite <- (I_len_st _ _ I). clear Hn. revert Hall. rewrite <- (I_len_st _ _ I).
    unfold st_at. generalize (status (s_st S)). induction l; simpl; intros H; auto.
    pose proof (H 0 ltac:(lia)) as H0. simpl in H0. subst a. simpl. f_equal. apply IHl.
    intros i Hi. apply (H (Datatypes.S i)). lia. }
  rewrite Hc in Hn. destruct (I_live _ _ I Hn) as [H|H].
  - split; auto. apply (I_comm _ _ I H).
  - exfalso. eapply not_committing_done; eauto.
Qed.

(* ---- what one step can change ---- *)
Lemma frame_pwrite : forall s i (dn ch : list N),
  i < npieces c -> length (file s) = c_len c -> length dn + length ch <= plen c i ->
  frame i s (set_file s (pwrite (file s) (poff c i + length dn) ch)).
Proof.
  intros s i dn ch Hi Lf Hlen. pose proof (region_in_file c Hwf i Hi) as Hreg.
  constructor; simpl; auto. intros j m Hj Hjn Hm.
  apply pwrite_disjoint; [lia|].
  destruct (Nat.lt_ge_cases j i) as [Hlt|Hge].
  - left. pose proof (regions_ordered c Hwf j i Hlt). lia.
  - right. pose proof (regions_ordered c Hwf i j ltac:(lia)). lia.
Qed.

Lemma frame_set_sidecar : forall s i v, frame i s (set_sidecar s (upd i v (sidecar s))).
Proof. intros. constructor; simpl; auto. intros. apply nth_upd_neq. auto. Qed.

Ltac eff_left := left; simpl; repeat split; auto; try discriminate; try congruence.

Lemma tstep_effect : forall s s' pre post w p p',
  Inv s (pre ++ mkth w p :: post) -> tstep c s w p = (s', p') ->
  (status s' = status s /\ file s' = file s /\ sidecar s' = sidecar s /\
   (incache s = true -> incache s' = true)) \/
  (exists i0, i0 < npieces c /\ st_at s i0 <> Complete /\ frame i0 s s').
Proof.
  intros s s' pre post w p p' I Hs.
  destruct (inv_mid _ _ _ _ I) as ([Hin Ht] & _ & _). simpl in Hin, Ht.
  pose proof (I_len_f _ _ I) as Lf.
  destruct p; cbn [tstep] in Hs.
  - destruct ((w_idx w <? 0)%Z || (Z.of_nat (length (status s)) <=? w_idx w)%Z);
      [|destruct (w_decl w =? Z.of_nat (plen c (Z.to_nat (w_idx w))))%Z]; inversion Hs; subst; eff_left.
  - destruct (pstatus_eqb (st_at s i) Complete); inversion Hs; subst; eff_left.
  - destruct (pstatus_eqb (st_at s i) Dirty); inversion Hs; subst; eff_left.
  - simpl in Ht. destruct (st_at s i) eqn:E; inversion Hs; subst; [|eff_left|eff_left].
    right. exists i. split; [apply Ht|]. split; [rewrite E; discriminate|]. apply frame_set_status.
  - destruct (incache s) eqn:Ec; inversion Hs; subst; eff_left.
  - simpl in Ht. destruct Ht as (Hv & [Hd Hsc] & dn & Ep & Epos & Epre).
    destruct rest as [|ch rest].
    + destruct (w_hsum w =? psum c i)%N; inversion Hs; subst; eff_left.
    + inversion Hs; subst. right. exists i. split; [apply Hv|]. split; [rewrite Hd; discriminate|].
      apply frame_pwrite; auto; [apply Hv|].
      destruct Hv as (_ & _ & _ & Hl & _). rewrite Ep in Hl. simpl in Hl. rewrite !app_length in Hl. lia.
  - simpl in Ht. destruct Ht as (Hv & [Hd Hsc] & _).
    destruct (incache s) eqn:Ec; [inversion Hs; subst; eff_left|].
    destruct (i <? length (sidecar s)); inversion Hs; subst; [|eff_left].
    right. exists i. split; [apply Hv|]. split; [rewrite Hd; discriminate|]. apply frame_set_sidecar.
  - simpl in Ht. destruct Ht as (Hv & Hd & _). inversion Hs; subst.
    right. exists i. split; [apply Hv|]. split; [rewrite Hd; discriminate|]. apply frame_set_status.
  - inversion Hs; subst; eff_left.
  - destruct (ncomp s =? length (status s)); inversion Hs; subst; eff_left.
  - inversion Hs; subst; eff_left.
  - inversion Hs; subst; eff_left.
  - simpl in Ht. destruct Ht as (Hv & [Hd _] & _). inversion Hs; subst.
    right. exists i. split; [apply Hv|]. split; [rewrite Hd; discriminate|]. apply frame_set_status.
  - inversion Hs; subst; eff_left.
Qed.

Lemma sys_step_effect : forall S k, SInv S ->
  let s := s_st S in let s' := s_st (sys_step c S k) in
  (status s' = status s /\ file s' = file s /\ sidecar s' = sidecar s /\
   (incache s = true -> incache s' = true)) \/
  (exists i0, i0 < npieces c /\ st_at s i0 <> Complete /\ frame i0 s s').
Proof.
  intros S k I. unfold sys_step. destruct (nth_error (s_ths S) k) as [th|] eqn:E; [|left; auto].
  destruct (nth_error_split_at _ _ _ _ E) as (pre & post & Eths & Ek).
  destruct th as [w p]. simpl. destruct (tstep c (s_st S) w p) as [s' p'] eqn:Es. simpl.
  unfold SInv in I. rewrite Eths in I. eapply tstep_effect; eauto.
Qed.

(* a complete piece stays complete and its bytes are never written again *)
Lemma complete_stable_step : forall S k i, SInv S -> i < npieces c ->
  st_at (s_st S) i = Complete ->
  st_at (s_st (sys_step c S k)) i = Complete /\
  region c (file (s_st (sys_step c S k))) i = region c (file (s_st S)) i.
Proof.
  intros S k i I Hi Hc. destruct (sys_step_effect S k I) as [(E1 & E2 & E3 & _)|(i0 & Hi0 & Hn & F)].
  - unfold st_at, region in *. rewrite E1, E2. auto.
  - assert (i <> i0) by congruence. split.
    + rewrite (F_st _ _ _ F); auto.
    + unfold region. apply (F_file _ _ _ F); auto.
Qed.

Lemma complete_stable : forall sched S i, SInv S -> i < npieces c ->
  st_at (s_st S) i = Complete ->
  st_at (s_st (run c S sched)) i = Complete /\
  region c (file (s_st (run c S sched))) i = region c (file (s_st S)) i.
Proof.
  induction sched; simpl; intros S i I Hi Hc; auto.
  destruct (complete_stable_step S a i I Hi Hc) as [H1 H2].
  destruct (IHsched (sys_step c S a) i (inv_sys_step _ _ I) Hi H1) as [H3 H4].
  split; auto. congruence.
Qed.

(* once the file is in the cache nothing writes to it any more *)
Lemma cached_frozen_step : forall S k, SInv S -> incache (s_st S) = true ->
  incache (s_st (sys_step c S k)) = true /\ file (s_st (sys_step c S k)) = file (s_st S).
Proof.
  intros S k I Hc. destruct (sys_step_effect S k I) as [(E1 & E2 & E3 & E4)|(i0 & Hi0 & Hn & F)]; auto.
  exfalso. apply Hn. eapply incache_all_complete; eauto.
Qed.

Lemma cached_frozen : forall sched S, SInv S -> incache (s_st S) = true ->
  incache (s_st (run c S sched)) = true /\ file (s_st (run c S sched)) = file (s_st S).
Proof.
  induction sched; simpl; intros S I Hc; auto.
  destruct (cached_frozen_step S a I Hc) as [H1 H2].
  destruct (IHsched (sys_step c S a) (inv_sys_step _ _ I) H1) as [H3 H4]. split; auto. congruence.
Qed.


(* ---- restart of an idle torrent restores exactly the in-memory state ---- *)
Lemma idle_no_dirty : forall S i, SInv S -> idle S = true -> i < npieces c -> st_at (s_st S) i <> Dirty.
Proof.
  intros S i I Q Hi Hd. pose proof (I_own _ _ I i Hi) as H. unfold dirty01 in H. rewrite Hd in H. simpl in H.
  assert (Z : count_own i (s_ths S) = 0).
  { unfold idle in Q. clear H. induction (s_ths S) as [|t l IH]; simpl in *; auto.
    apply andb_prop in Q as [Q1 Q2]. rewrite IH by auto. unfold thread_idle in Q1.
    destruct (t_pc t); simpl; auto; discriminate. }
  lia.
Qed.

Lemma tstate_ext : forall a b, status a = status b -> file a = file b -> sidecar a = sidecar b ->
  ncomp a = ncomp b -> committed a = committed b -> incache a = incache b -> a = b.
Proof. destruct a, b; simpl; intros; subst; reflexivity. Qed.

Lemma reopen_identity : forall S, SInv S -> idle S = true ->
  new_torrent c (file (s_st S)) (Some (sidecar (s_st S))) (incache (s_st S)) = s_st S.
Proof.
  intros S I Q. destruct S as [s ths]. simpl in *. unfold SInv in I. simpl in I.
  pose proof (I_len_st _ _ I) as Lst. pose proof (I_len_sc _ _ I) as Lsc.
  pose proof (progress_idle (mksys s ths) I Q) as Hn. simpl in Hn.
  assert (Hlive : ncomp s = npieces c -> committed s = true /\ incache s = true).
  { intros H. destruct (I_live _ _ I H) as [A|A].
    - split; auto. apply (I_comm _ _ I A).
    - exfalso. eapply not_committing_done; eauto. }
  unfold new_torrent. destruct (incache s) eqn:Ec.
  - pose proof (I_cache _ _ I Ec) as Hc. destruct (Hlive Hc) as [Hco _].
    apply tstate_ext; simpl; auto.
    apply nth_ext with (d := Empty) (d' := Empty); [rewrite repeat_length; auto|].
    intros i Hi. rewrite repeat_length in Hi. rewrite nth_repeat_any by auto.
    symmetry. apply (incache_all_complete _ _ I Ec i Hi).
  - assert (Est : map deser_status (sidecar s) = status s).
    { apply nth_ext with (d := Empty) (d' := Empty); [rewrite map_length; lia|].
      intros i Hi. rewrite map_length in Hi.
      change Empty with (deser_status 0%N) at 1. rewrite map_nth.
      pose proof (idle_no_dirty (mksys s ths) i I Q ltac:(lia)) as Hnd. simpl in Hnd.
      unfold deser_status. destruct (N.eqb (nth i (sidecar s) 0%N) 1) eqn:E.
      + apply N.eqb_eq in E. pose proof (I_sc_nonempty _ _ I i ltac:(lia) E) as H1.
        unfold st_at in *. destruct (nth i (status s) Empty); congruence.
      + apply N.eqb_neq in E. unfold st_at in *.
        destruct (nth i (status s) Empty) eqn:E2; auto; [|congruence].
        exfalso. apply E. apply (I_sc_complete _ _ I i ltac:(lia)). exact E2. }
    rewrite Est.
    assert (Eall : (ncomp s =? length (status s)) = committed s /\ (ncomp s =? length (status s)) = incache s).
    { rewrite Lst. destruct (ncomp s =? npieces c) eqn:E.
      - apply Nat.eqb_eq in E. destruct (Hlive E). split; congruence.
      - split; [|congruence].
        destruct (committed s) eqn:E2; auto. pose proof (I_comm _ _ I E2). congruence. }
    destruct Eall as [E1 E2].
    apply tstate_ext; simpl; auto; rewrite <- Hn; auto.
Qed.

(* ---- with the blob: collision-freedom on the payloads that occur ---- *)
Section Blob.
Variable blob : list N.
Hypothesis Hlen : c_len c = length blob.
(* the only occurring payload for piece i whose checksum equals the metainfo's is piece i of the blob *)
Hypothesis Hcf : forall w i, In w ws -> i < npieces c -> w_idx w = Z.of_nat i ->
  w_hsum w = psum c i -> payload w = region c blob i.

Lemma verified_is_blob : forall s i, length (file s) = c_len c -> i < npieces c ->
  verified s i -> region c (file s) i = region c blob i.
Proof.
  intros s i Lf Hi (w & Hv & Hs & Hw). destruct Hv as (_ & Hidx & _ & Hl & Hin).
  pose proof (Hcf w i Hin Hi Hidx Hs) as E.
  assert (El : length (payload w) = plen c i).
  { rewrite E. apply region_length; auto. }
  unfold written in Hw. rewrite El in Hw. unfold region at 1. rewrite Hw. exact E.
Qed.

Lemma complete_is_blob : forall S i, SInv S -> i < npieces c -> st_at (s_st S) i = Complete ->
  region c (file (s_st S)) i = region c blob i.
Proof. intros S i I Hi H. apply verified_is_blob; auto; [apply I | apply complete_verified; auto]. Qed.

Lemma persisted_is_blob : forall S i, SInv S -> i < npieces c -> nth i (sidecar (s_st S)) 0%N = 1%N ->
  region c (file (s_st S)) i = region c blob i.
Proof. intros S i I Hi H. apply verified_is_blob; auto; [apply I | apply persisted_verified; auto]. Qed.

Lemma all_complete_is_blob : forall S, SInv S ->
  (forall i, i < npieces c -> st_at (s_st S) i = Complete) -> file (s_st S) = blob.
Proof.
  intros S I H. apply (regions_ext c Hwf); auto; [apply I|].
  intros i Hi. apply complete_is_blob; auto.
Qed.

Lemma cached_is_blob : forall S, SInv S ->
  incache (s_st S) = true \/ committed (s_st S) = true -> file (s_st S) = blob.
Proof. intros S I H. apply all_complete_is_blob; auto. apply commit_all_complete; auto. Qed.

Lemma served_is_blob : forall S i d, SInv S -> get_piece c (s_st S) i = Some d -> d = region c blob i.
Proof.
  intros S i d I H. unfold get_piece in H.
  destruct (i <? length (status (s_st S))) eqn:E1; simpl in H; [|discriminate].
  destruct (pstatus_eqb (st_at (s_st S) i) Complete) eqn:E2; [|discriminate].
  inversion H; subst. apply Nat.ltb_lt in E1. rewrite (I_len_st _ _ I) in E1.
  apply pstatus_eqb_eq in E2. apply complete_is_blob; auto.
Qed.

Lemma accepted_is_blob : forall S w, SInv S -> In (mkth w (PDone ROk)) (s_ths S) ->
  exists i, i < npieces c /\ w_idx w = Z.of_nat i /\ payload w = region c blob i /\
            st_at (s_st S) i = Complete.
Proof.
  intros S w I Hin. pose proof (I_thr _ _ I) as H. rewrite Forall_forall in H.
  destruct (H _ Hin) as [Hw (i & Hv & Hs & Hc)]. simpl in *.
  exists i. destruct Hv as (Hi & Hidx & _ & _ & _). repeat split; auto.
Qed.

End Blob.

End Invariant.

(* ---- the checksum as a function: what the hypotheses above mean for a real metainfo ---- *)
Section Checksum.
Variable sum : list N -> N.
Variable c : cfg.
Variable blob : list N.
Variable ws : list winput.
(* the metainfo's piece sums are the checksums of the blob's pieces *)
Hypothesis Hsums : forall i, i < npieces c -> psum c i = sum (region c blob i).
(* h.Sum32() is the checksum of the streamed bytes *)
Hypothesis Hhsum : forall w, In w ws -> w_hsum w = sum (payload w).
(* collision-freedom of the checksum on the payloads that occur *)
Hypothesis Hcoll : forall w i, In w ws -> i < npieces c -> w_idx w = Z.of_nat i ->
  sum (payload w) = sum (region c blob i) -> payload w = region c blob i.

Lemma cf_of_checksum : forall w i, In w ws -> i < npieces c -> w_idx w = Z.of_nat i ->
  w_hsum w = psum c i -> payload w = region c blob i.
Proof.
  intros w i Hin Hi Hidx H. apply Hcoll; auto. rewrite <- Hhsum, <- Hsums; auto.
Qed.

End Checksum.
