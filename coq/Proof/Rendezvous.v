(* Lemmas about the shared rendezvous model (Model/Rendezvous.v), used by C21 and C22. *)
From Coq Require Import List NArith ZArith Bool Lia Permutation Sorted.
From K.Model Require Import Rendezvous.
Import ListNotations.

(* ---------- generic list facts ---------- *)

Lemma Permutation_filter_ {A} (p : A -> bool) (l l' : list A) :
  Permutation l l' -> Permutation (filter p l) (filter p l').
Proof.
  induction 1 as [|x l l' HP IH|x y l|l l' l'' H1 IH1 H2 IH2]; cbn.
  - constructor.
  - destruct (p x); auto.
  - destruct (p x), (p y); auto using perm_swap.
  - eauto using Permutation_trans.
Qed.

Lemma StronglySorted_filter {A} (R : A -> A -> Prop) (p : A -> bool) (l : list A) :
  StronglySorted R l -> StronglySorted R (filter p l).
Proof.
  induction 1 as [|x l HS IH HF]; cbn; [constructor|].
  destruct (p x); auto. constructor; auto.
  rewrite Forall_forall in *. intros y Hy. apply filter_In in Hy. apply HF, Hy.
Qed.

Lemma In_firstn_ {A} (n : nat) (l : list A) x : In x (firstn n l) -> In x l.
Proof. revert l. induction n as [|n IH]; intros [|y t]; cbn; try tauto. intros [->|H]; auto. Qed.

Lemma StronglySorted_firstn {A} (R : A -> A -> Prop) (n : nat) (l : list A) :
  StronglySorted R l -> StronglySorted R (firstn n l).
Proof.
  intros HS. revert n. induction HS as [|x l HS IH HF]; intros [|n]; cbn; try constructor; auto.
  rewrite Forall_forall in *. intros y Hy. apply HF. eapply In_firstn_, Hy.
Qed.

Lemma node_eqb_eq (a b : node) : node_eqb a b = true <-> a = b.
Proof.
  destruct a as [la wa], b as [lb wb]. unfold node_eqb; cbn. rewrite andb_true_iff, N.eqb_eq, Z.eqb_eq.
  split; [intros [-> ->]; reflexivity | intros H; inversion H; auto].
Qed.

Lemma node_eq_dec (a b : node) : {a = b} + {a <> b}.
Proof.
  destruct (node_eqb a b) eqn:E; [left; apply node_eqb_eq, E | right; intros H; apply node_eqb_eq in H; congruence].
Qed.

Lemma NoDup_labels_NoDup (ns : list node) : NoDup (map label ns) -> NoDup ns.
Proof. apply NoDup_map_inv. Qed.

(* RemoveNode on a node slice with distinct labels is "filter out that label" *)
Lemma remove_node_filter (l : N) (ns : list node) :
  NoDup (map label ns) ->
  remove_node l ns = filter (fun x => negb (N.eqb (label x) l)) ns.
Proof.
  induction ns as [|x t IH]; cbn; intros ND; [reflexivity|].
  inversion ND as [|? ? Hnin ND']; subst.
  destruct (N.eqb (label x) l) eqn:E; cbn.
  - apply N.eqb_eq in E. subst l.
    symmetry. rewrite (proj2 (filter_ext_in_iff _ (fun _ => true) t)).
    + clear. induction t; cbn; congruence.
    + intros y Hy. destruct (N.eqb (label y) (label x)) eqn:E2; [|reflexivity].
      apply N.eqb_eq in E2. exfalso. apply Hnin. rewrite <- E2. apply in_map, Hy.
  - rewrite IH; auto.
Qed.

Lemma remove_node_absent (l : N) (ns : list node) :
  ~ In l (map label ns) -> remove_node l ns = ns.
Proof.
  induction ns as [|x t IH]; cbn; intros H; [reflexivity|].
  destruct (N.eqb (label x) l) eqn:E.
  - apply N.eqb_eq in E. tauto.
  - rewrite IH; tauto.
Qed.

Lemma remove_added (n : node) (ns : list node) :
  ~ In (label n) (map label ns) -> remove_node (label n) (add_node n ns) = ns.
Proof.
  unfold add_node. induction ns as [|x t IH]; cbn; intros H.
  - rewrite N.eqb_refl. reflexivity.
  - destruct (N.eqb (label x) (label n)) eqn:E.
    + apply N.eqb_eq in E. tauto.
    + rewrite IH; tauto.
Qed.

Lemma remove_node_incl (l : N) (ns : list node) x : In x (remove_node l ns) -> In x ns.
Proof.
  induction ns as [|y t IH]; cbn; [tauto|]. destruct (N.eqb (label y) l); cbn; tauto.
Qed.

Lemma count_node_perm x l l' : Permutation l l' -> count_node x l = count_node x l'.
Proof. intros HP. unfold count_node. apply Permutation_length, Permutation_filter_, HP. Qed.

Lemma count_node_in x l : In x l -> (count_node x l > 0)%nat.
Proof.
  unfold count_node. induction l as [|y t IH]; cbn; [tauto|].
  intros [->|H].
  - rewrite (proj2 (node_eqb_eq x x) eq_refl). cbn. lia.
  - destruct (node_eqb x y); cbn; [lia|auto].
Qed.

Lemma count_node_notin x l : ~ In x l -> count_node x l = 0%nat.
Proof.
  unfold count_node. induction l as [|y t IH]; cbn; [reflexivity|]. intros H.
  destruct (node_eqb x y) eqn:E; [apply node_eqb_eq in E; subst; tauto|]. apply IH. tauto.
Qed.

Lemma count_node_nodup x l : NoDup l -> In x l -> count_node x l = 1%nat.
Proof.
  unfold count_node. induction 1 as [|y t Hnin ND IH]; cbn; [tauto|].
  intros [->|H].
  - rewrite (proj2 (node_eqb_eq x x) eq_refl). cbn. f_equal. apply count_node_notin, Hnin.
  - destruct (node_eqb x y) eqn:E; [apply node_eqb_eq in E; subst; tauto|auto].
Qed.

(* with distinct nodes, same_nodesb is exactly "is a permutation" *)
Lemma same_nodesb_perm l ns : NoDup ns -> same_nodesb l ns = true -> Permutation l ns.
Proof.
  unfold same_nodesb. rewrite andb_true_iff, forallb_forall, Nat.eqb_eq. intros ND [HL HC].
  apply Permutation_sym. apply NoDup_Permutation_bis; [exact ND|lia|].
  intros x Hx. specialize (HC _ Hx). apply Nat.eqb_eq in HC.
  rewrite (count_node_nodup x ns ND Hx) in HC.
  destruct (in_dec node_eq_dec x l) as [H|H]; [exact H|].
  rewrite (count_node_notin x l H) in HC. discriminate.
Qed.

Lemma perm_same_nodesb l ns : Permutation l ns -> same_nodesb l ns = true.
Proof.
  intros HP. unfold same_nodesb. rewrite andb_true_iff, forallb_forall, Nat.eqb_eq. split.
  - apply Permutation_length, HP.
  - intros x _. apply Nat.eqb_eq, count_node_perm, HP.
Qed.

Lemma labels_nodupb_spec ns : labels_nodupb ns = true <-> NoDup (map label ns).
Proof.
  unfold labels_nodupb. induction (map label ns) as [|x t IH].
  - split; [constructor|reflexivity].
  - rewrite andb_true_iff, IH, negb_true_iff. split.
    + intros [H ND]. constructor; [|exact ND]. intros Hin.
      assert (existsb (N.eqb x) t = true) by (apply existsb_exists; exists x; split; [exact Hin|apply N.eqb_refl]).
      congruence.
    + intros ND. inversion ND as [|? ? Hnin ND']; subst. split; [|exact ND'].
      destruct (existsb (N.eqb x) t) eqn:E; [|reflexivity].
      apply existsb_exists in E. destruct E as (y & Hy & E). apply N.eqb_eq in E. subst. tauto.
Qed.

(* ---------- the ordering ---------- *)
Section Facts.
  Variables key T : Type.
  Variable ltb : T -> T -> bool.
  Variable score : node -> key -> T.
  (* float64 `<` restricted to the scores that occur (no NaN, zero normalised) is a strict
     total order *)
  Hypothesis ltb_irrefl : forall a, ltb a a = false.
  Hypothesis ltb_trans : forall a b c, ltb a b = true -> ltb b c = true -> ltb a c = true.
  Hypothesis ltb_tricho : forall a b, ltb a b = false -> ltb b a = false -> a = b.

  Notation ordered := (ordered ltb score).
  Notation insert_desc := (insert_desc ltb score).

  Notation ge := (ge ltb score).
  Notation gt := (gt ltb score).
  Notation tie_free := (tie_free score).

  Lemma ltb_asym a b : ltb a b = true -> ltb b a = false.
  Proof.
    intros H. destruct (ltb b a) eqn:E; [|reflexivity].
    rewrite <- (ltb_irrefl a). symmetry. eapply ltb_trans; eauto.
  Qed.

  Lemma gt_ge k a b : gt k a b -> ge k a b.
  Proof. apply ltb_asym. Qed.

  Lemma ge_trans k a b c : ge k a b -> ge k b c -> ge k a c.
  Proof.
    unfold Rendezvous.ge. intros Hab Hbc. destruct (ltb (score a k) (score c k)) eqn:Hac; [|reflexivity].
    destruct (ltb (score b k) (score a k)) eqn:Hba.
    - rewrite (ltb_trans _ _ _ Hba Hac) in Hbc. discriminate.
    - rewrite <- (ltb_tricho _ _ Hab Hba) in Hbc. congruence.
  Qed.

  Lemma gt_trans k a b c : gt k a b -> gt k b c -> gt k a c.
  Proof. unfold Rendezvous.gt. intros H1 H2. eapply ltb_trans; eauto. Qed.

  Lemma insert_perm k x l : Permutation (insert_desc k x l) (x :: l).
  Proof.
    induction l as [|y t IH]; cbn; [reflexivity|].
    destruct (ltb (score x k) (score y k)); [|reflexivity].
    rewrite IH. apply perm_swap.
  Qed.

  Lemma ordered_perm ns k : Permutation (ordered ns k) ns.
  Proof.
    induction ns as [|x t IH]; cbn; [constructor|].
    rewrite insert_perm. constructor. exact IH.
  Qed.

  Lemma insert_sorted k x l : StronglySorted (ge k) l -> StronglySorted (ge k) (insert_desc k x l).
  Proof.
    induction 1 as [|y t HS IH HF]; cbn; [repeat constructor|].
    destruct (ltb (score x k) (score y k)) eqn:E.
    - constructor; [exact IH|].
      rewrite Forall_forall in *. intros z Hz.
      apply (Permutation_in _ (insert_perm k x t)) in Hz. destruct Hz as [<-|Hz]; [|auto].
      apply ltb_asym, E.
    - constructor; [constructor; auto|].
      constructor; [exact E|].
      rewrite Forall_forall in *. intros z Hz. eapply ge_trans; [exact E|auto].
  Qed.

  Lemma ordered_sorted ns k : StronglySorted (ge k) (ordered ns k).
  Proof. induction ns as [|x t IH]; cbn; [constructor|]. apply insert_sorted, IH. Qed.

  (* inserting changes nothing but the presence of the inserted node *)
  Lemma insert_split k x l : exists l1 l2, l = l1 ++ l2 /\ insert_desc k x l = l1 ++ x :: l2.
  Proof.
    induction l as [|y t (l1 & l2 & E1 & E2)]; cbn.
    - exists [], []. auto.
    - destruct (ltb (score x k) (score y k)).
      + exists (y :: l1), l2. cbn. rewrite E2. subst t. auto.
      + exists [], (y :: t). auto.
  Qed.

  Lemma tie_free_incl k l l' : (forall x, In x l -> In x l') -> tie_free k l' -> tie_free k l.
  Proof. unfold Rendezvous.tie_free. intros Hi H a b Ha Hb. apply H; auto. Qed.

  Lemma tie_free_perm k l l' : Permutation l l' -> tie_free k l' -> tie_free k l.
  Proof. intros HP. apply tie_free_incl. intros x. apply Permutation_in, HP. Qed.

  (* with distinct scores a weakly descending list is strictly descending *)
  Lemma ge_sorted_strict k l :
    NoDup l -> tie_free k l -> StronglySorted (ge k) l -> StronglySorted (gt k) l.
  Proof.
    intros ND TF HS. induction HS as [|x t HS IH HF]; [constructor|].
    inversion ND as [|? ? Hnin ND']; subst.
    constructor.
    - apply IH; [exact ND'|]. eapply tie_free_incl; [|exact TF]. intros; now right.
    - rewrite Forall_forall in *. intros z Hz. unfold Rendezvous.gt.
      destruct (ltb (score z k) (score x k)) eqn:E; [reflexivity|]. exfalso.
      assert (x = z) as ->; [|tauto].
      apply TF; [now left|now right|]. apply ltb_tricho; [apply HF, Hz|exact E].
  Qed.

  Lemma gt_sorted_NoDup k l : StronglySorted (gt k) l -> NoDup l.
  Proof.
    induction 1 as [|x t HS IH HF]; constructor; [|exact IH].
    intros Hin. rewrite Forall_forall in HF. specialize (HF _ Hin). unfold Rendezvous.gt in HF.
    rewrite ltb_irrefl in HF. discriminate.
  Qed.

  (* a strictly descending arrangement of a given multiset of nodes is unique *)
  Lemma gt_sorted_unique k l l' :
    StronglySorted (gt k) l -> StronglySorted (gt k) l' -> Permutation l l' -> l = l'.
  Proof.
    intros HS. revert l'. induction HS as [|x t HS IH HF]; intros l' HS' HP.
    - apply Permutation_nil in HP. congruence.
    - destruct l' as [|x' t']; [apply Permutation_sym, Permutation_nil in HP; discriminate|].
      inversion HS' as [|? ? HS'' HF']; subst.
      rewrite Forall_forall in HF, HF'.
      assert (x = x') as <-.
      { assert (In x (x' :: t')) as [E|Hx] by (eapply Permutation_in; [exact HP|now left]); [congruence|].
        assert (In x' (x :: t)) as [E|Hx'] by (eapply Permutation_in; [apply Permutation_sym, HP|now left]); [congruence|].
        specialize (HF _ Hx'). specialize (HF' _ Hx). unfold Rendezvous.gt in HF, HF'.
        rewrite (ltb_asym _ _ HF) in HF'. discriminate. }
      f_equal. apply IH; [exact HS''|]. eapply Permutation_cons_inv, HP.
  Qed.

  Lemma ordered_strict ns k : NoDup ns -> tie_free k ns -> StronglySorted (gt k) (ordered ns k).
  Proof.
    intros ND TF. apply ge_sorted_strict.
    - eapply Permutation_NoDup; [apply Permutation_sym, ordered_perm|exact ND].
    - eapply tie_free_perm; [apply ordered_perm|exact TF].
    - apply ordered_sorted.
  Qed.

  (* whatever algorithm sort.Sort uses: any permutation of the nodes that is sorted by
     descending score IS the model's list, provided the scores are distinct *)
  Theorem ordered_unique ns k l :
    NoDup ns -> tie_free k ns ->
    Permutation l ns -> StronglySorted (ge k) l -> l = ordered ns k.
  Proof.
    intros ND TF HP HS. apply (gt_sorted_unique k).
    - apply ge_sorted_strict; [eapply Permutation_NoDup; [apply Permutation_sym, HP|exact ND]| |exact HS].
      eapply tie_free_perm; eauto.
    - apply ordered_strict; assumption.
    - rewrite HP. apply Permutation_sym, ordered_perm.
  Qed.

  Theorem ordered_insertion_independent ns ns' k :
    NoDup ns -> tie_free k ns -> Permutation ns ns' -> ordered ns k = ordered ns' k.
  Proof.
    intros ND TF HP. symmetry. apply ordered_unique; auto.
    - rewrite ordered_perm. apply Permutation_sym, HP.
    - apply ordered_sorted.
  Qed.

  (* sorting commutes with dropping nodes *)
  Lemma ordered_filter ns k (p : node -> bool) :
    NoDup ns -> tie_free k ns -> ordered (filter p ns) k = filter p (ordered ns k).
  Proof.
    intros ND TF. symmetry. apply ordered_unique.
    - apply NoDup_filter, ND.
    - eapply tie_free_incl; [|exact TF]. intros x Hx. apply filter_In in Hx. tauto.
    - apply Permutation_filter_, ordered_perm.
    - apply StronglySorted_filter, ordered_sorted.
  Qed.

  Theorem ordered_remove ns k l :
    NoDup (map label ns) -> tie_free k ns ->
    ordered (remove_node l ns) k = remove_node l (ordered ns k).
  Proof.
    intros NDl TF.
    rewrite (remove_node_filter l ns NDl).
    rewrite (remove_node_filter l (ordered ns k)).
    - apply ordered_filter; [apply NoDup_labels_NoDup, NDl|exact TF].
    - eapply Permutation_NoDup; [|exact NDl]. apply Permutation_map, Permutation_sym, ordered_perm.
  Qed.

  Theorem ordered_add ns k n :
    NoDup (add_node n ns) -> tie_free k (add_node n ns) ->
    ordered (add_node n ns) k = insert_desc k n (ordered ns k).
  Proof.
    intros ND TF. change (insert_desc k n (ordered ns k)) with (ordered (n :: ns) k).
    apply ordered_insertion_independent; auto.
    unfold add_node. apply Permutation_sym, Permutation_cons_append.
  Qed.

  (* ---- the boolean forms used on observations mean what they say ---- *)

  Lemma sorted_descb_spec k l : sorted_descb ltb score k l = true <-> StronglySorted (ge k) l.
  Proof.
    induction l as [|x t IH]; cbn.
    - split; [constructor|reflexivity].
    - rewrite andb_true_iff, forallb_forall, IH. split.
      + intros [HF HS]. constructor; [exact HS|]. rewrite Forall_forall. intros y Hy.
        specialize (HF _ Hy). apply negb_true_iff in HF. exact HF.
      + intros HS. inversion HS as [|? ? HS' HF]; subst. split; [|exact HS'].
        rewrite Forall_forall in HF. intros y Hy. apply negb_true_iff, HF, Hy.
  Qed.

  Lemma tie_freeb_spec k ns : tie_freeb ltb score k ns = true -> NoDup ns /\ tie_free k ns.
  Proof.
    induction ns as [|x t IH]; cbn.
    - intros _. split; [constructor|]. intros a b [].
    - rewrite andb_true_iff, forallb_forall. intros [HF HT]. destruct (IH HT) as [ND TF].
      assert (Hne : forall y, In y t -> score x k <> score y k).
      { intros y Hy E. specialize (HF _ Hy). rewrite E, ltb_irrefl in HF. discriminate. }
      split.
      + constructor; [|exact ND]. intros Hin. apply (Hne _ Hin). reflexivity.
      + intros a b [<-|Ha] [<-|Hb] E; auto.
        * exfalso. eapply Hne; eauto.
        * exfalso. eapply Hne; eauto.
  Qed.

  Lemma tie_freeb_complete k ns : NoDup ns -> tie_free k ns -> tie_freeb ltb score k ns = true.
  Proof.
    induction ns as [|x t IH]; cbn; intros ND TF; [reflexivity|].
    inversion ND as [|? ? Hnin ND']; subst.
    rewrite andb_true_iff, forallb_forall. split.
    - intros y Hy. apply orb_true_iff.
      destruct (ltb (score x k) (score y k)) eqn:E1; [now left|right].
      destruct (ltb (score y k) (score x k)) eqn:E2; [reflexivity|exfalso].
      assert (x = y) as -> by (apply TF; [now left|now right|apply ltb_tricho; assumption]). tauto.
    - apply IH; [exact ND'|]. eapply tie_free_incl; [|exact TF]. intros; now right.
  Qed.

  (* the oracle accepts the model's own list, ties or not *)
  Lemma is_orderingb_ordered ns k : is_orderingb ltb score ns k (ordered ns k) = true.
  Proof.
    unfold is_orderingb. rewrite andb_true_iff. split.
    - apply perm_same_nodesb, ordered_perm.
    - apply sorted_descb_spec, ordered_sorted.
  Qed.

  (* and, without ties, accepts nothing else *)
  Theorem is_orderingb_unique ns k l :
    tie_freeb ltb score k ns = true -> is_orderingb ltb score ns k l = true -> l = ordered ns k.
  Proof.
    intros TF HO. destruct (tie_freeb_spec _ _ TF) as [ND TF'].
    unfold is_orderingb in HO. apply andb_true_iff in HO. destruct HO as [HP HS].
    apply ordered_unique; auto.
    - apply same_nodesb_perm; assumption.
    - apply sorted_descb_spec, HS.
  Qed.

End Facts.


(* N with N.ltb is a strict total order: the instance the drivers use (scores are passed as
   an order-preserving image of the float64 scores in N) *)
Lemma Nltb_irrefl (a : N) : N.ltb a a = false.
Proof. apply N.ltb_irrefl. Qed.
Lemma Nltb_trans (a b c : N) : N.ltb a b = true -> N.ltb b c = true -> N.ltb a c = true.
Proof. rewrite !N.ltb_lt. lia. Qed.
Lemma Nltb_tricho (a b : N) : N.ltb a b = false -> N.ltb b a = false -> a = b.
Proof. rewrite !N.ltb_ge. lia. Qed.
