(* C17: the results the scheduler sends are success or one of the four errors of the statement. *)
From Coq Require Import List NArith Bool.
From K.Model Require Import C17.
From K.Proof Require Import C17_base C17_inv.
Import ListNotations.
Local Open Scope N_scope.

Definition kinds (rs : list (N * res)) : Prop := forall w r, In (w, r) rs -> r <> ROther.

Lemma kinds_deliver ws r rs : kinds rs -> r <> ROther -> kinds (deliver ws r rs).
Proof.
  intros H Hr w r0 Hi. apply in_deliver in Hi. destruct Hi as [Hi|[-> _]]; [eauto | exact Hr].
Qed.

Lemma kinds_remove_torrent s h r : kinds (results s) -> r <> ROther -> kinds (results (remove_torrent s h r)).
Proof.
  intros H Hr. pose proof (remove_torrent_shape s h r) as Sh. destruct (find_ctrl h (ctrls s)).
  - destruct (view_inv _ _ _ _ _ _ _ _ _ Sh) as (_ & _ & _ & E & _). rewrite E. now apply kinds_deliver.
  - now rewrite Sh.
Qed.

Lemma kinds_apply_new s w t : kinds (results s) -> kinds (results (apply_new true s w t)).
Proof.
  intros H. rewrite apply_new_stages. set (h := tor_hash s t).
  assert (H1 : kinds (results (new1 s h t))).
  { unfold new1. destruct (find_ctrl h (ctrls s)); [|exact H].
    destruct (_ && _); [|exact H]. apply kinds_remove_torrent; [exact H | discriminate]. }
  assert (H2 : forall s1, kinds (results s1) -> kinds (results (new2 s1 h t))).
  { intros s1 Hs. unfold new2. destruct (find_ctrl h (ctrls s1)); [exact Hs|]. cbv zeta.
    destruct (tor_complete s1 t); exact Hs. }
  assert (H3 : forall s2, kinds (results s2) -> kinds (results (new3 s2 h w))).
  { intros s2 Hs. unfold new3. destruct (find_ctrl h (ctrls s2)); [|exact Hs].
    destruct (tor_complete s2 (c_disp c)); simp_st; [|exact Hs]. apply kinds_deliver; [exact Hs | discriminate]. }
  auto.
Qed.

Lemma kinds_apply_complete s d : kinds (results s) -> kinds (results (apply_complete true s d)).
Proof.
  intros H. unfold apply_complete. destruct (find_ctrl _ _); [|exact H].
  destruct (_ && _); simp_st; [exact H|]. apply kinds_deliver; [exact H | discriminate].
Qed.

Lemma kinds_tick_over c todo : forall s, kinds (results s) -> kinds (results (tick_over true c s todo)).
Proof.
  induction todo as [|x t IH]; intros s H; cbn [tick_over]; [exact H|].
  apply IH. destruct (idle c s x); [|exact H]. apply kinds_remove_torrent; [exact H | discriminate].
Qed.

Lemma kinds_step c s o : kinds (results s) -> kinds (results (step c s o)).
Proof.
  intros H. unfold step. destruct o; cbn [step_gen].
  - destruct (_ && _); simp_st; [apply kinds_deliver; [exact H | discriminate]|].
    destruct (stopped s); simp_st; [apply kinds_deliver; [exact H | discriminate] | exact H].
  - destruct (find_ctrl _ _); [|exact H]. destruct (_ || _); exact H.
  - destruct (stopped s); exact H.
  - exact H.
  - exact H.
  - destruct (stopped s); exact H.
  - destruct (_ || _); exact H.
  - destruct (take_new _ _) as [[t p']|]; [|exact H]. now apply kinds_apply_new.
  - destruct (remove_first_pev _ _); [|exact H]. now apply kinds_apply_complete.
  - destruct (remove_first_pev _ _); [|exact H]. unfold apply_remove. simp_st.
    apply kinds_remove_torrent; [exact H | discriminate].
  - destruct (remove_first_pev _ _); [|exact H]. unfold apply_tick. now apply kinds_tick_over.
  - destruct (remove_first_pev _ _); [|exact H]. unfold apply_shutdown. simp_st.
    apply kinds_deliver; [apply kinds_deliver; [exact H | discriminate] | discriminate].
Qed.

Theorem result_kinds c kn ops w r : In (w, r) (results (run c kn ops)) ->
  r = RNil \/ r = RNotFound \/ r = RTimeout \/ r = RRemoved \/ r = RStopped.
Proof.
  assert (H : kinds (results (run c kn ops))).
  { unfold run, run_gen. assert (H0 : kinds (results (init kn))) by (intros ? ? []).
    revert H0. generalize (init kn). induction ops as [|o t IH]; intros s Hs; cbn [fold_left]; [exact Hs|].
    apply IH. now apply (kinds_step c). }
  intros Hi. specialize (H w r Hi). destruct r; tauto.
Qed.
