(* C01 — concrete witnesses (refutations of the pinned code, non-vacuity), by computation. *)
From Coq Require Import List NArith ZArith Bool.
From K.Model Require Import C01.
Import ListNotations.
Local Open Scope N_scope.

(* a toy hash that separates the byte strings used below *)
Definition Hw (b : bytes) : N :=
  if bytes_eqb b [10; 11; 12; 13] then 1 else if bytes_eqb b [20; 21] then 2 else 77.

Definition blobA : bytes := [10; 11; 12; 13].
Definition blobA_corrupt : bytes := [10; 11; 12; 99].    (* same length, one byte flipped *)
Definition blobB : bytes := [20; 21].

(* memory cache on, verification on, DrainMaxRetries 1, TTL 20, piece length 4 *)
Definition cf_pinned : cfg := mkcfg true false false true 1 20 4%Z.   (* addToMemoryCache as pinned *)
Definition cf_fixed : cfg := mkcfg true false true true 1 20 4%Z.     (* with the fix *)
Definition cf_skip : cfg := mkcfg true true true true 1 20 4%Z.       (* SkipHashVerification *)

Definition w_of (b : bytes) : stream bytes := mkstream [b] false.

(* the backend announces 4 bytes and delivers 4 corrupted bytes *)
Definition ops_refuted : list (op bytes) := [Refresh 1 true 4 (w_of blobA_corrupt) (w_of blobA_corrupt) 4%Z].

Lemma mem_path_refuted :
  exists (H : bytes -> N) (cf : cfg) (ops : list (op bytes)) (name : N) (c : bytes),
    c_skip cf = false /\ c_memverify cf = false /\
    view_of (exec H cf init ops) name = mkview (Some c) (Some (len c)) (Some (name, c, 4%Z)) /\
    H c <> name.
Proof.
  exists Hw, cf_pinned, ops_refuted, 1, blobA_corrupt.
  repeat split; vm_compute; congruence.
Qed.

(* ... and on the pinned code it stays readable until the drain has used up its retries *)
Lemma mem_path_refuted_until_drain_gives_up :
  v_data (view_of (exec Hw cf_pinned init (ops_refuted ++ [Drain true])) 1) = Some blobA_corrupt /\
  v_data (view_of (exec Hw cf_pinned init (ops_refuted ++ [Drain true; Drain true])) 1) = None.
Proof. vm_compute. split; reflexivity. Qed.

(* the same history on the fixed code: the write fails, nothing is visible *)
Lemma mem_path_fixed_witness :
  snd (run Hw cf_fixed [1] init ops_refuted) = [(OErr, [mkview None None None], [mkview None None None])].
Proof. vm_compute. reflexivity. Qed.

(* SkipHashVerification is an explicit opt-out: with it the property does not hold (by design) *)
Lemma skip_refuted :
  exists (H : bytes -> N) (cf : cfg) (ops : list (op bytes)) (name : N) (c : bytes),
    c_skip cf = true /\ c_memverify cf = true /\
    v_data (view_of (exec H cf init ops) name) = Some c /\ H c <> name.
Proof.
  exists Hw, cf_skip, [Create 1 (w_of blobA_corrupt)], 1, blobA_corrupt.
  repeat split; vm_compute; congruence.
Qed.

(* non-vacuity: a history on the fixed code after which one blob is served from memory and another
   from the cache dir, both with metainfo; a corrupted refresh and a corrupted upload were rejected *)
Definition ops_nonvac : list (op bytes) :=
  [ Refresh 1 true 4 (w_of blobA_corrupt) (w_of blobA_corrupt) 4%Z;        (* rejected *)
    Refresh 1 true 4 (mkstream [[10]; [11; 12; 13]] false) (w_of blobA) 4%Z;  (* memory path *)
    UStart false 2 1; UPatch false 2 1 0 2 blobB; UCommit false 2 1;       (* transfer upload *)
    UStart true 2 2;                                                       (* conflict *)
    Drain false ].                                                         (* disk refuses: retry queued *)

Lemma nonvacuous_history :
  map (view_of (exec Hw cf_fixed init ops_nonvac)) [1; 2] =
    [ mkview (Some blobA) (Some 4) (Some (1, blobA, 4%Z));
      mkview (Some blobB) (Some 2) (Some (2, blobB, 4%Z)) ] /\
  map (fun p => fst p) (mem (exec Hw cf_fixed init ops_nonvac)) = [1] /\
  map (fun p => fst p) (disk (exec Hw cf_fixed init ops_nonvac)) = [2] /\
  map fst (snd (run Hw cf_fixed [] init ops_nonvac)) =
    [(OErr, []); (OOk, []); (OOk, []); (OOk, []); (OOk, []); (OConflict, []); (OOk, [])].
Proof. vm_compute. repeat split; reflexivity. Qed.

(* non-vacuity of clause 2's hypothesis: the three kinds of mismatching write *)
Lemma nonvacuous_bad_writes :
  bad_write Hw init (Refresh 1 true 4 (w_of blobA_corrupt) (w_of blobA_corrupt) 4%Z) = true /\
  bad_write Hw init (Create 1 (w_of blobB)) = true /\
  bad_write Hw (exec Hw cf_fixed init [UStart false 1 1; UPatch false 1 1 0 4 blobA_corrupt]) (UCommit false 1 1) = true /\
  bad_write Hw (exec Hw cf_fixed init [UStart false 1 1; UPatch false 1 1 0 4 blobA]) (UCommit false 1 1) = false.
Proof. vm_compute. repeat split; reflexivity. Qed.

(* a PATCH of the upload that is still delivering its body when the same upload is committed writes
   into the file after verify + rename: the fixed code, verification on, still serves bytes that do
   not hash to the name (known finding C01-late-patch; such histories are excluded by race_free) *)
Definition ops_late_patch : list (op bytes) :=
  [UStart false 1 1; UPatch false 1 1 0 4 blobA; UCommitRaced false 1 1 0 1 [99]].

Lemma late_patch_refuted :
  exists (H : bytes -> N) (cf : cfg) (ops : list (op bytes)) (name : N) (c : bytes),
    c_skip cf = false /\ c_memverify cf = true /\ race_free ops = false /\
    snd (run H cf [] init ops) = [(OOk, [], []); (OOk, [], []); (OOk, [], [])] /\
    v_data (view_of (exec H cf init ops) name) = Some c /\ H c <> name.
Proof.
  exists Hw, cf_fixed, ops_late_patch, 1, [99; 11; 12; 13].
  repeat split; vm_compute; congruence.
Qed.
