(* C21 — proofs: the selection loop against the statement, the ring invariant over all
   Refresh histories, host independence, soundness of the oracle. *)
From Coq Require Import List NArith ZArith Bool Lia Permutation Sorted.
From K.Model Require Import C21.
From K.Gen Require Import C21_consts.
From K.Proof Require Import Rendezvous.
Import ListNotations.

(* ---------- small facts about the set operations ---------- *)
Lemma memb_spec a s : memb a s = true <-> In a s.
Proof.
  unfold memb. rewrite existsb_exists. split.
  - intros (x & Hx & E). apply N.eqb_eq in E. subst. exact Hx.
  - intros H. exists a. split; [exact H|apply N.eqb_refl].
Qed.

Lemma subsetb_spec a b : subsetb a b = true <-> (forall x, In x a -> In x b).
Proof.
  unfold subsetb. rewrite forallb_forall. split; intros H x Hx; apply memb_spec, H, Hx.
Qed.

Lemma nodupb_spec l : nodupb l = true <-> NoDup l.
Proof.
  induction l as [|x t IH]; cbn.
  - split; [constructor|reflexivity].
  - change ((fix go (l : list N) : bool := match l with [] => true | x :: t => negb (memb x t) && go t end) t)
      with (nodupb t).
    rewrite andb_true_iff, negb_true_iff, IH. split.
    + intros [H ND]. constructor; [|exact ND]. intros Hin. apply memb_spec in Hin. congruence.
    + intros ND. inversion ND as [|? ? Hnin ND']; subst. split; [|exact ND'].
      destruct (memb x t) eqn:E; [apply memb_spec in E; tauto|reflexivity].
Qed.

Lemma set_eqb_perm a b : NoDup a -> set_eqb a b = true -> Permutation a b.
Proof.
  unfold set_eqb. rewrite andb_true_iff, Nat.eqb_eq, subsetb_spec. intros ND [HL HI].
  apply NoDup_Permutation_bis; [exact ND|lia|exact HI].
Qed.

Lemma last_cons {A} (s : A) t d : last (s :: t) d = last t s.
Proof. revert s d. induction t as [|u t IH]; intros s d; [reflexivity|]. change (last (s :: u :: t) d) with (last (u :: t) d). rewrite !IH. reflexivity. Qed.

Lemma ext3 {A} (p q : A -> bool) l : (forall x, p x = q x) ->
  existsb p l = existsb q l /\ filter p l = filter q l /\ find p l = find q l.
Proof.
  intros E. induction l as [|x t (I1 & I2 & I3)]; cbn; [auto|]. rewrite E, I1, I2, I3. auto.
Qed.

Lemma filter_length_le_ {A} (p : A -> bool) l : (length (filter p l) <= length l)%nat.
Proof. induction l as [|x t IH]; cbn; [lia|]. destruct (p x); cbn; lia. Qed.

Lemma existsb_find {A} (p : A -> bool) l : existsb p l = true -> exists x, find p l = Some x.
Proof.
  induction l as [|y t IH]; cbn; [discriminate|]. destruct (p y); [eauto|]. exact IH.
Qed.

(* ---------- ring.go:210-213 ---------- *)
Lemma build_hash_eq order : build_hash order = member_nodes order.
Proof.
  unfold build_hash. change (member_nodes order) with ([] ++ member_nodes order).
  generalize (@nil node). induction order as [|a t IH]; intros acc; cbn.
  - rewrite app_nil_r. reflexivity.
  - rewrite IH. unfold add_node. rewrite <- app_assoc. reflexivity.
Qed.

Lemma member_nodes_labels l : map label (member_nodes l) = l.
Proof. unfold member_nodes. rewrite map_map. cbn. apply map_id. Qed.

(* ---------- ring.go:133-138: the loop is the statement ---------- *)
Notation is_h h := (fun x : node => memb (label x) h).

Lemma loop_nonempty maxr h nodes : forall i locs, locs <> [] ->
  loc_loop maxr h nodes i locs = locs ++ map label (filter (is_h h) (firstn (Z.to_nat (maxr - i)) nodes)).
Proof.
  induction nodes as [|x t IH]; intros i locs Hne; cbn [loc_loop].
  - rewrite firstn_nil. cbn. rewrite app_nil_r. reflexivity.
  - destruct locs as [|l0 lt]; [congruence|]. cbn [orb].
    destruct (i <? maxr)%Z eqn:E.
    + apply Z.ltb_lt in E.
      replace (Z.to_nat (maxr - i)) with (S (Z.to_nat (maxr - (i + 1)))) by lia.
      cbn [firstn filter]. destruct (memb (label x) h) eqn:Hx.
      * rewrite IH by (destruct lt; discriminate). rewrite <- app_assoc. reflexivity.
      * rewrite IH by discriminate. reflexivity.
    + apply Z.ltb_ge in E. replace (Z.to_nat (maxr - i)) with 0%nat by lia. cbn. rewrite app_nil_r. reflexivity.
Qed.

Lemma loop_empty maxr h nodes : forall i,
  loc_loop maxr h nodes i [] =
  match filter (is_h h) (firstn (Z.to_nat (maxr - i)) nodes) with
  | [] => match find (is_h h) nodes with Some x => [label x] | None => [] end
  | top => map label top
  end.
Proof.
  induction nodes as [|x t IH]; intros i; cbn [loc_loop].
  - rewrite firstn_nil. reflexivity.
  - cbn [orb find]. destruct (memb (label x) h) eqn:Hx.
    + cbn [app]. rewrite loop_nonempty by discriminate.
      destruct (Z.to_nat (maxr - i)) as [|n] eqn:En.
      * replace (Z.to_nat (maxr - (i + 1))) with 0%nat by lia. reflexivity.
      * cbn [firstn filter]. rewrite Hx. replace (Z.to_nat (maxr - (i + 1))) with n by lia. reflexivity.
    + rewrite IH. destruct (Z.to_nat (maxr - i)) as [|n] eqn:En.
      * replace (Z.to_nat (maxr - (i + 1))) with 0%nat by lia. reflexivity.
      * cbn [firstn filter]. rewrite Hx. replace (Z.to_nat (maxr - (i + 1))) with n by lia. reflexivity.
Qed.

(* what ring.go:128-139 computes on the rank order, exactly (no hypothesis) *)
Definition code_result (maxr : Z) (healthy : list N) (ranked : list node) : list N :=
  match healthy with
  | [] => match ranked with x :: _ => [label x] | [] => [] end
  | _ => loc_loop maxr healthy ranked 0%Z []
  end.

Lemma code_eq_spec maxr healthy ranked :
  (forall a, In a healthy -> In a (map label ranked)) ->
  code_result maxr healthy ranked = spec_locations maxr healthy ranked.
Proof.
  intros Sub. unfold code_result, spec_locations. destruct healthy as [|h0 ht].
  - assert (existsb (is_h []) ranked = false) as ->; [|reflexivity].
    clear. induction ranked; cbn; auto.
  - assert (existsb (is_h (h0 :: ht)) ranked = true) as ->.
    { specialize (Sub h0 (or_introl eq_refl)). apply in_map_iff in Sub. destruct Sub as (x & E & Hx).
      apply existsb_exists. exists x. split; [exact Hx|]. apply memb_spec. rewrite E. now left. }
    rewrite loop_empty. rewrite Z.sub_0_r. reflexivity.
Qed.

(* ---------- facts about the statement function ---------- *)
Section SpecFacts.
  Variables (maxr : Z) (healthy : list N) (ranked : list node).
  Notation S := (spec_locations maxr healthy ranked).

  Lemma spec_nonempty : ranked <> [] -> S <> [].
  Proof.
    intros Hne. unfold spec_locations. destruct (existsb _ ranked) eqn:E.
    - destruct (filter _ (firstn _ ranked)) eqn:F; [|discriminate].
      destruct (existsb_find _ _ E) as (x & ->). discriminate.
    - destruct ranked; [congruence|discriminate].
  Qed.

  Lemma spec_subset a : In a S -> In a (map label ranked).
  Proof.
    unfold spec_locations. destruct (existsb _ ranked) eqn:E.
    - destruct (filter _ (firstn _ ranked)) as [|y top] eqn:F.
      + destruct (find _ ranked) as [x|] eqn:Fd; [|intros []].
        intros [<-|[]]. apply in_map. apply (find_some _ _ Fd).
      + rewrite <- F. intros H. apply in_map_iff in H. destruct H as (x & <- & Hx).
        apply filter_In in Hx. apply in_map. eapply In_firstn_, Hx.
    - destruct ranked as [|x t]; [intros []|]. intros [<-|[]]. now left.
  Qed.

  Lemma spec_healthy a : existsb (is_h healthy) ranked = true -> In a S -> In a healthy.
  Proof.
    intros E. unfold spec_locations. rewrite E.
    destruct (filter _ (firstn _ ranked)) as [|y top] eqn:F.
    - destruct (find _ ranked) as [x|] eqn:Fd; [|intros []].
      intros [<-|[]]. apply memb_spec. apply (find_some _ _ Fd).
    - rewrite <- F. intros H. apply in_map_iff in H. destruct H as (x & <- & Hx).
      apply filter_In in Hx. apply memb_spec. apply Hx.
  Qed.

  Lemma spec_bounded : (length S <= Nat.max 1 (Z.to_nat maxr))%nat.
  Proof.
    unfold spec_locations. destruct (existsb _ ranked).
    - destruct (filter _ (firstn _ ranked)) as [|y top] eqn:F.
      + destruct (find _ ranked); cbn [length]; lia.
      + rewrite <- F, map_length.
        pose proof (filter_length_le_ (is_h healthy) (firstn (Z.to_nat maxr) ranked)).
        pose proof (firstn_le_length (Z.to_nat maxr) ranked). lia.
    - destruct ranked; cbn [length]; lia.
  Qed.

  (* reading the three cases of the statement off the function *)
  Lemma spec_none_healthy :
    existsb (is_h healthy) ranked = false -> S = match ranked with x :: _ => [label x] | [] => [] end.
  Proof. intros E. unfold spec_locations. rewrite E. reflexivity. Qed.

  Lemma spec_top_healthy :
    filter (is_h healthy) (firstn (Z.to_nat maxr) ranked) <> [] ->
    S = map label (filter (is_h healthy) (firstn (Z.to_nat maxr) ranked)).
  Proof.
    intros F. unfold spec_locations.
    assert (existsb (is_h healthy) ranked = true) as ->.
    { destruct (filter _ (firstn _ ranked)) as [|y top] eqn:E; [congruence|].
      assert (In y (y :: top)) as Hy by now left. rewrite <- E in Hy. apply filter_In in Hy.
      apply existsb_exists. exists y. split; [eapply In_firstn_, Hy|apply Hy]. }
    destruct (filter _ (firstn _ ranked)); [congruence|reflexivity].
  Qed.

  (* none of the top MaxReplica healthy: the first healthy member in rank order, alone *)
  Lemma spec_next_healthy :
    existsb (is_h healthy) ranked = true ->
    filter (is_h healthy) (firstn (Z.to_nat maxr) ranked) = [] ->
    exists l1 x l2, ranked = l1 ++ x :: l2 /\ S = [label x] /\
                    memb (label x) healthy = true /\ forall y, In y l1 -> memb (label y) healthy = false.
  Proof.
    intros E F. unfold spec_locations. rewrite E, F. clear F.
    induction ranked as [|y t IH]; cbn in *; [discriminate|].
    destruct (memb (label y) healthy) eqn:Hy.
    - exists [], y, t. repeat split; auto. intros ? [].
    - cbn in E. destruct (IH E) as (l1 & x & l2 & E1 & E2 & E3 & E4).
      exists (y :: l1), x, l2. subst t. repeat split; auto.
      intros z [<-|Hz]; auto.
  Qed.
End SpecFacts.

Lemma spec_ext maxr h1 h2 ranked : (forall a, memb a h1 = memb a h2) ->
  spec_locations maxr h1 ranked = spec_locations maxr h2 ranked.
Proof.
  intros E. unfold spec_locations.
  destruct (ext3 (is_h h1) (is_h h2) ranked (fun x => E (label x))) as (-> & _ & ->).
  destruct (ext3 (is_h h1) (is_h h2) (firstn (Z.to_nat maxr) ranked) (fun x => E (label x))) as (_ & -> & _).
  reflexivity.
Qed.

(* ---------- the ring invariant over Refresh histories ---------- *)
Definition ring_ok (r : ring) : Prop :=
  (exists ns, r_hash r = Some ns /\ ns = member_nodes (map label ns) /\
              Permutation (map label ns) (r_addrs r)) /\
  NoDup (r_addrs r) /\ r_addrs r <> [] /\
  (forall a, In a (r_healthy r) -> In a (r_addrs r)).

Lemma step_wf_spec s : step_wf s = true ->
  fst s <> [] /\ NoDup (fst s) /\ NoDup (snd s) /\ (forall x, In x (snd s) -> In x (fst s)).
Proof.
  unfold step_wf. rewrite !andb_true_iff, !nodupb_spec, subsetb_spec. intros [[[H1 H2] H3] H4].
  repeat split; auto. destruct (fst s); [discriminate|discriminate].
Qed.

Lemma refresh_ok r latest healthy :
  r_addrs r = [] \/ ring_ok r -> step_wf (latest, healthy) = true -> ring_ok (refresh r latest healthy).
Proof.
  intros Hr Hwf. apply step_wf_spec in Hwf. cbn [fst snd] in Hwf. destruct Hwf as (Hne & ND & _ & Sub).
  unfold refresh, ring_ok. cbn [r_hash r_addrs r_healthy]. repeat split; auto.
  destruct (set_eqb (r_addrs r) latest) eqn:E.
  - destruct Hr as [H0|((ns & Hh & Hw & HP) & NDa & Hne' & _)].
    + exfalso. rewrite H0 in E. unfold set_eqb in E. apply andb_true_iff in E. destruct E as [E _].
      apply Nat.eqb_eq in E. destruct latest; [congruence|discriminate].
    + exists ns. repeat split; auto. rewrite HP. apply set_eqb_perm; assumption.
  - exists (member_nodes latest). rewrite build_hash_eq, member_nodes_labels. repeat split; auto.
Qed.

Lemma refresh_proj r latest healthy :
  r_max (refresh r latest healthy) = r_max r /\ r_addrs (refresh r latest healthy) = latest /\
  r_healthy (refresh r latest healthy) = healthy.
Proof. unfold refresh. cbn. auto. Qed.

Lemma fold_ok steps : forall r, ring_ok r -> forallb step_wf steps = true ->
  let r' := fold_left (fun r s => refresh r (fst s) (snd s)) steps r in
  ring_ok r' /\ r_max r' = r_max r /\ (r_addrs r', r_healthy r') = last steps (r_addrs r, r_healthy r).
Proof.
  induction steps as [|s t IH]; intros r Hr Hwf; cbn zeta.
  - cbn. auto.
  - cbn [forallb] in Hwf. apply andb_true_iff in Hwf. destruct Hwf as [Hs Ht].
    cbn [fold_left]. rewrite last_cons.
    assert (Hs' : step_wf (fst s, snd s) = true) by (destruct s; exact Hs).
    destruct (IH (refresh r (fst s) (snd s)) (refresh_ok r _ _ (or_intror Hr) Hs') Ht) as (H1 & H2 & H3).
    split; [exact H1|]. split; [rewrite H2; apply refresh_proj|].
    rewrite H3. destruct (refresh_proj r (fst s) (snd s)) as (_ & -> & ->). destruct s; reflexivity.
Qed.

Lemma run_ok maxr first steps : history_wf first steps = true ->
  let r := run_ring maxr first steps in
  ring_ok r /\ r_max r = apply_defaults maxr /\ (r_addrs r, r_healthy r) = last_step first steps.
Proof.
  unfold history_wf. rewrite andb_true_iff. intros [Hf Hs]. unfold run_ring, last_step.
  assert (Hf' : step_wf (fst first, snd first) = true) by (destruct first; exact Hf).
  pose proof (refresh_ok (mkring (apply_defaults maxr) [] None []) (fst first) (snd first) (or_introl eq_refl) Hf') as H0.
  destruct (fold_ok steps _ H0 Hs) as (H1 & H2 & H3). unfold new_ring.
  split; [exact H1|]. split; [rewrite H2; reflexivity|].
  rewrite H3. cbn [refresh r_addrs r_healthy]. destruct first; reflexivity.
Qed.

(* ---------- Locations on a ring that satisfies the invariant ---------- *)
Section Loc.
  Variables key T : Type.
  Variable ltb : T -> T -> bool.
  Variable score : node -> key -> T.
  Notation ordered := (ordered ltb score).
  Notation locations := (locations ltb score).

  Lemma locations_ok r k :
    ring_ok r ->
    exists ns, r_hash r = Some ns /\ Permutation ns (member_nodes (r_addrs r)) /\
               locations r k = Locs (spec_locations (r_max r) (r_healthy r) (ordered ns k)).
  Proof.
    intros ((ns & Hh & Hw & HP) & ND & Hne & Sub). exists ns. split; [exact Hh|]. split.
    { rewrite Hw. unfold member_nodes. apply Permutation_map, HP. }
    unfold C21.locations. rewrite Hh. unfold get_ordered_nodes.
    pose proof (ordered_perm _ _ ltb score ns k) as HPo.
    assert (HL : length (ordered ns k) = length (r_addrs r)).
    { rewrite (Permutation_length HPo), <- (Permutation_length HP), map_length. reflexivity. }
    rewrite firstn_all2 by lia. rewrite HL, Nat.eqb_refl. cbn [negb].
    rewrite <- code_eq_spec.
    - unfold code_result. destruct (r_healthy r); [|reflexivity].
      destruct (ordered ns k) eqn:E; [|reflexivity].
      exfalso. cbn in HL. destruct (r_addrs r); [congruence|discriminate].
    - intros a Ha. apply Sub in Ha. eapply Permutation_in; [|exact Ha].
      rewrite <- HP. apply Permutation_map, Permutation_sym, HPo.
  Qed.

  (* every clause of the statement, for every well-formed history and every key *)
  Theorem history_locations maxr first steps k :
    history_wf first steps = true ->
    let members := fst (last_step first steps) in
    let healthy := snd (last_step first steps) in
    exists ns l,
      Permutation ns (member_nodes members) /\
      locations (run_ring maxr first steps) k = Locs l /\
      l = spec_locations (apply_defaults maxr) healthy (ordered ns k) /\
      l <> [] /\
      (forall a, In a l -> In a members) /\
      (healthy <> [] -> forall a, In a l -> In a healthy) /\
      (length l <= Nat.max 1 (Z.to_nat (apply_defaults maxr)))%nat.
  Proof.
    intros Hwf. destruct (run_ok maxr first steps Hwf) as (Hok & Hmax & Hlast). cbn zeta.
    set (r := run_ring maxr first steps) in *.
    assert (Hm : fst (last_step first steps) = r_addrs r) by (rewrite <- Hlast; reflexivity).
    assert (Hh : snd (last_step first steps) = r_healthy r) by (rewrite <- Hlast; reflexivity).
    rewrite Hm, Hh, <- Hmax.
    destruct (locations_ok r k Hok) as (ns & Hhash & HP & HL).
    destruct Hok as (_ & ND & Hne & Sub).
    pose proof (ordered_perm _ _ ltb score ns k) as HPo.
    assert (Hlab : Permutation (map label (ordered ns k)) (r_addrs r)).
    { rewrite HPo, HP. rewrite member_nodes_labels. reflexivity. }
    exists ns, (spec_locations (r_max r) (r_healthy r) (ordered ns k)).
    split; [exact HP|]. split; [exact HL|]. split; [reflexivity|]. split; [|split; [|split]].
    - apply spec_nonempty. intros E. rewrite E in Hlab. cbn in Hlab.
      apply Permutation_nil in Hlab. congruence.
    - intros a Ha. apply spec_subset in Ha. eapply Permutation_in; eauto.
    - intros Hhne a Ha. eapply spec_healthy; [|exact Ha].
      destruct (r_healthy r) as [|h0 ht] eqn:Eh; [congruence|].
      assert (In h0 (map label (ordered ns k))) as Hin.
      { eapply Permutation_in; [apply Permutation_sym, Hlab|]. apply Sub. now left. }
      apply in_map_iff in Hin. destruct Hin as (x & E & Hx).
      apply existsb_exists. exists x. split; [exact Hx|]. apply memb_spec. rewrite E. now left.
    - apply spec_bounded.
  Qed.

  Hypothesis ST : strict_total ltb.

  (* the rank order, hence the answer, is a function of the membership SET: any arrangement
     [ms] of the members gives the same list *)
  Theorem history_locations_set maxr first steps k ms :
    history_wf first steps = true ->
    Permutation ms (member_nodes (fst (last_step first steps))) ->
    tie_free score k ms ->
    locations (run_ring maxr first steps) k =
    Locs (spec_locations (apply_defaults maxr) (snd (last_step first steps)) (ordered ms k)).
  Proof.
    intros Hwf HPm TF. destruct ST as (I & Tr & Tc).
    destruct (history_locations maxr first steps k Hwf) as (ns & l & HP & HL & El & _).
    rewrite HL, El. f_equal. f_equal.
    symmetry. apply ordered_insertion_independent; auto.
    - eapply Permutation_NoDup; [apply Permutation_sym, HPm|].
      unfold member_nodes. apply FinFun.Injective_map_NoDup.
      + intros a b E. inversion E. reflexivity.
      + destruct (run_ok maxr first steps Hwf) as ((_ & ND & _) & _ & Hlast).
        replace (fst (last_step first steps)) with (r_addrs (run_ring maxr first steps)) by (rewrite <- Hlast; reflexivity).
        exact ND.
    - rewrite HPm. apply Permutation_sym, HP.
  Qed.

  (* two processes, any two histories (any discovery orders): same membership set, same healthy
     set, same MaxReplica => the same ordered replica set *)
  Theorem order_independent maxr f1 s1 f2 s2 k :
    history_wf f1 s1 = true -> history_wf f2 s2 = true ->
    Permutation (fst (last_step f1 s1)) (fst (last_step f2 s2)) ->
    (forall a, In a (snd (last_step f1 s1)) <-> In a (snd (last_step f2 s2))) ->
    tie_free score k (member_nodes (fst (last_step f1 s1))) ->
    locations (run_ring maxr f1 s1) k = locations (run_ring maxr f2 s2) k.
  Proof.
    intros W1 W2 HPm HH TF.
    rewrite (history_locations_set maxr f1 s1 k (member_nodes (fst (last_step f1 s1)))); auto.
    rewrite (history_locations_set maxr f2 s2 k (member_nodes (fst (last_step f1 s1)))); auto.
    - f_equal. apply spec_ext. intros a.
      destruct (memb a (snd (last_step f1 s1))) eqn:E1, (memb a (snd (last_step f2 s2))) eqn:E2; auto.
      + apply memb_spec, HH, memb_spec in E1. congruence.
      + apply memb_spec, HH, memb_spec in E2. congruence.
    - unfold member_nodes. apply Permutation_map, HPm.
  Qed.
End Loc.

(* ---------- outside the contracts ---------- *)
(* empty membership: the ring never built a hash (nil dereference) ... *)
Lemma empty_membership_panics (key T : Type) (ltb : T -> T -> bool) (score : node -> key -> T) maxr healthy k :
  locations ltb score (new_ring maxr [] healthy) k = Panic.
Proof. reflexivity. Qed.
(* ... or built an empty one (index out of range at nodes[0]) *)
Lemma emptied_membership_panics (key T : Type) (ltb : T -> T -> bool) (score : node -> key -> T) maxr k :
  locations ltb score (run_ring maxr ([0; 1]%N, [0]%N) [([], [])]) k = Panic.
Proof. reflexivity. Qed.

(* a Filter answering with a non-member: the replica set is EMPTY (len(healthy) != 0, no member passes) *)
Lemma foreign_healthy_empty (key T : Type) (ltb : T -> T -> bool) (score : node -> key -> T) k :
  locations ltb score (new_ring 0 [0; 1]%N [2]%N) k = Locs [].
Proof.
  unfold locations, new_ring, refresh. cbn [r_hash r_addrs set_eqb length Nat.eqb andb].
  unfold build_hash. cbn [fold_left add_node app]. unfold get_ordered_nodes, ordered.
  cbn [fold_right insert_desc]. destruct (ltb _ _); reflexivity.
Qed.

(* ---------- the executed instance: the oracle accepts the model ---------- *)
Lemma subsetb_of_incl a b : (forall x, In x a -> In x b) -> subsetb a b = true.
Proof. apply subsetb_spec. Qed.

Lemma insert_asc_perm a l : Permutation (insert_asc a l) (a :: l).
Proof.
  induction l as [|b t IH]; cbn; [reflexivity|]. destruct (N.leb a b); [reflexivity|].
  rewrite IH. apply perm_swap.
Qed.
Lemma sort_asc_perm l : Permutation (sort_asc l) l.
Proof. induction l as [|a t IH]; cbn; [constructor|]. rewrite insert_asc_perm. constructor. exact IH. Qed.

Lemma res_eqb_refl o : res_eqb o o = true.
Proof. destruct o as [| |l]; cbn; auto. induction l as [|a t IH]; [reflexivity|]. rewrite N.eqb_refl. exact IH. Qed.

Theorem check_sound maxr first steps r :
  C21_check maxr first steps r (locations_run maxr first steps r) = true.
Proof.
  unfold C21_check. destruct (history_wf first steps) eqn:Hwf; [|reflexivity]. cbn [negb].
  destruct (last_step first steps) as [members healthy] eqn:El.
  destruct (history_locations _ _ N.ltb tscore maxr first steps r Hwf) as (ns & l & HP & HL & Es & Hne & Hsub & Hh & Hb).
  rewrite El in *. cbn [fst snd] in *.
  unfold locations_run. rewrite HL.
  rewrite !andb_true_iff. repeat split.
  - destruct l; [congruence|reflexivity].
  - apply subsetb_of_incl, Hsub.
  - destruct healthy as [|h0 ht]; [reflexivity|]. apply subsetb_of_incl, Hh. discriminate.
  - apply Nat.leb_le, Hb.
  - destruct (tie_freeb N.ltb tscore r (member_nodes (sort_asc members))) eqn:TF; [|reflexivity].
    destruct (tie_freeb_spec _ _ N.ltb tscore Nltb_irrefl r _ TF) as [ND TFp].
    pose proof (history_locations_set _ _ N.ltb tscore
                  (conj Nltb_irrefl (conj Nltb_trans Nltb_tricho)) maxr first steps r
                  (member_nodes (sort_asc members)) Hwf) as HS.
    rewrite El in HS. cbn [fst snd] in HS. unfold locations_run in *.
    rewrite <- HL, HS; [apply res_eqb_refl| |exact TFp].
    unfold member_nodes. apply Permutation_map, sort_asc_perm.
Qed.

(* ---------- the clauses one by one (projections of history_locations) ---------- *)
Section Clauses.
  Variables key T : Type.
  Variable ltb : T -> T -> bool.
  Variable score : node -> key -> T.
  Variables (maxr : Z) (first : list N * list N) (steps : list (list N * list N)) (k : key).
  Hypothesis WF : history_wf first steps = true.
  Notation loc := (locations ltb score (run_ring maxr first steps) k).

  Lemma cl_nonempty : exists l, loc = Locs l /\ l <> [].
  Proof. destruct (history_locations _ _ ltb score maxr first steps k WF) as (ns & l & _ & HL & _ & Hne & _). eauto. Qed.

  Lemma cl_subset_members l : loc = Locs l -> forall a, In a l -> In a (fst (last_step first steps)).
  Proof.
    destruct (history_locations _ _ ltb score maxr first steps k WF) as (ns & l' & _ & HL & _ & _ & Hs & _).
    rewrite HL. intros E. inversion E. subst. exact Hs.
  Qed.

  Lemma cl_all_healthy l : loc = Locs l -> snd (last_step first steps) <> [] ->
    forall a, In a l -> In a (snd (last_step first steps)).
  Proof.
    destruct (history_locations _ _ ltb score maxr first steps k WF) as (ns & l' & _ & HL & _ & _ & _ & Hh & _).
    rewrite HL. intros E. inversion E. subst. exact Hh.
  Qed.

  Lemma cl_bounded l : loc = Locs l -> (length l <= Nat.max 1 (Z.to_nat (apply_defaults maxr)))%nat.
  Proof.
    destruct (history_locations _ _ ltb score maxr first steps k WF) as (ns & l' & _ & HL & _ & _ & _ & _ & Hb).
    rewrite HL. intros E. inversion E. subst. exact Hb.
  Qed.

  Lemma cl_characterisation :
    exists ns, Permutation ns (member_nodes (fst (last_step first steps))) /\
               loc = Locs (spec_locations (apply_defaults maxr) (snd (last_step first steps)) (ordered ltb score ns k)).
  Proof.
    destruct (history_locations _ _ ltb score maxr first steps k WF) as (ns & l & HP & HL & El & _).
    exists ns. split; [exact HP|]. rewrite HL, El. reflexivity.
  Qed.
End Clauses.

Lemma shard_only {T : Type} (ltb : T -> T -> bool) (score : node -> list N -> T) r h1 h2 :
  firstn 4 h1 = firstn 4 h2 -> locations_digest ltb score r h1 = locations_digest ltb score r h2.
Proof. unfold locations_digest, shard_id. intros ->. reflexivity. Qed.

(* with tied scores two discovery orders of the same membership disagree: the hypothesis of
   order_independent cannot be dropped (on the real ring this needs a 64-bit murmur3 collision) *)
Lemma order_independent_ties_refuted :
  exists r, locations N.ltb tscore (new_ring 1 [0; 1]%N [0; 1]%N) r <> locations N.ltb tscore (new_ring 1 [1; 0]%N [0; 1]%N) r.
Proof. exists [5; 5]%N. vm_compute. discriminate. Qed.
