(* Proofs for C02, part 2: Serialize / DeserializeMetaInfo round trip. *)
From Coq Require Import String.
From Coq Require Import List NArith ZArith Bool Lia ZifyBool ZifyN ZifyNat DecimalN DecimalPos.
From K.Model Require Import C02.
From K.Proof Require Import C02.
Import ListNotations.
Local Open Scope N_scope.

Lemma expect_app l r : expect l (l ++ r) = Some r.
Proof. induction l as [|a l IH]; cbn [expect app]; [now destruct r|]. now rewrite N.eqb_refl. Qed.

Lemma expect_self l : expect l l = Some [].
Proof. rewrite <- (app_nil_r l) at 2. apply expect_app. Qed.

(* ------------------------------------------------------------------ decimal numbers *)
Definition nondigit_head (s : list N) : Prop :=
  match s with [] => True | c :: _ => is_digit c = false end.

Lemma read_uint_codes d : forall rest, nondigit_head rest -> read_uint (uint_codes d ++ rest) = (d, rest).
Proof.
  induction d as [|d IH|d IH|d IH|d IH|d IH|d IH|d IH|d IH|d IH|d IH]; intros rest H;
    cbn [uint_codes app read_uint];
    try (change (is_digit 48) with true; change (is_digit 49) with true; change (is_digit 50) with true;
         change (is_digit 51) with true; change (is_digit 52) with true; change (is_digit 53) with true;
         change (is_digit 54) with true; change (is_digit 55) with true; change (is_digit 56) with true;
         change (is_digit 57) with true; cbv iota; rewrite (IH rest H); reflexivity).
  destruct rest as [|c t]; [reflexivity|]. cbn [read_uint]. cbn in H. now rewrite H.
Qed.

Lemma uint_beq_refl d : Decimal.uint_beq d d = true.
Proof. now apply Decimal.internal_uint_dec_lb. Qed.

Lemma parse_nat_print n rest : nondigit_head rest -> parse_nat (print_N n ++ rest) = Some (n, rest).
Proof.
  intros H. unfold parse_nat, print_N. rewrite read_uint_codes by assumption.
  rewrite DecimalN.Unsigned.of_to. now rewrite uint_beq_refl.
Qed.

Lemma uint_codes_head d : d <> Decimal.Nil -> exists c t, uint_codes d = c :: t /\ is_digit c = true.
Proof. destruct d; intros H; [congruence|..]; cbn [uint_codes]; eexists; eexists; split; reflexivity. Qed.

Lemma print_N_head n : exists c t, print_N n = c :: t /\ is_digit c = true.
Proof.
  unfold print_N. apply uint_codes_head. destruct n as [|p]; [discriminate|].
  apply DecimalPos.Unsigned.to_uint_nonnil.
Qed.

Lemma print_N_length n : (1 <= length (print_N n))%nat.
Proof. destruct (print_N_head n) as (c & t & E & _). rewrite E. cbn. lia. Qed.

Lemma parse_int64_print z rest : in_i64P z -> nondigit_head rest ->
  parse_int64 (print_Z z ++ rest) = Some (z, rest).
Proof.
  intros Hz H. unfold parse_int64, print_Z, in_i64P in *. destruct (Z.ltb_spec z 0) as [Hneg|Hpos].
  - cbn [app tl]. rewrite N.eqb_refl. rewrite parse_nat_print by assumption.
    destruct (N.leb_spec (Z.abs_N z) 9223372036854775808); [|lia]. f_equal. f_equal. lia.
  - destruct (print_N_head (Z.to_N z)) as (c & t & E & Hd). rewrite E. cbn [app].
    assert (Hc : (c =? 45) = false). { unfold is_digit in Hd. lia. }
    rewrite Hc. change (c :: t ++ rest) with ((c :: t) ++ rest). rewrite <- E.
    rewrite parse_nat_print by assumption.
    destruct (N.ltb_spec (Z.to_N z) 9223372036854775808); [|lia]. f_equal. f_equal. lia.
Qed.

Lemma parse_uint32_print n rest : n < 4294967296 -> nondigit_head rest ->
  parse_uint32 (print_N n ++ rest) = Some (n, rest).
Proof.
  intros Hn H. unfold parse_uint32. rewrite parse_nat_print by assumption.
  destruct (N.ltb_spec n 4294967296); [reflexivity|lia].
Qed.

(* ------------------------------------------------------------------ the PieceSums array *)
Lemma parse_elems_print : forall l fuel rest, l <> [] -> sums_ok l -> (length l <= fuel)%nat ->
  parse_elems fuel (print_elems l ++ 93 :: rest) = Some (l, rest).
Proof.
  induction l as [|x l IH]; intros fuel rest Hne Hok Hf; [congruence|].
  inversion Hok as [|? ? Hx Hok']; subst.
  destruct fuel as [|fuel]; [cbn in Hf; lia|]. cbn [parse_elems].
  destruct l as [|y l].
  - cbn [print_elems]. rewrite parse_uint32_print; [|assumption|reflexivity].
    change (93 =? 44) with false. now rewrite N.eqb_refl.
  - change (print_elems (x :: y :: l)) with (print_N x ++ 44 :: print_elems (y :: l)).
    rewrite <- app_assoc. cbn [app]. rewrite parse_uint32_print; [|assumption|reflexivity].
    rewrite N.eqb_refl. rewrite IH; [reflexivity|discriminate|assumption|cbn [length] in *; lia].
Qed.

Lemma print_elems_length l : (length l <= length (print_elems l))%nat.
Proof.
  induction l as [|x l IH]; [cbn; lia|]. destruct l as [|y l].
  - cbn [print_elems length]. pose proof (print_N_length x). lia.
  - change (print_elems (x :: y :: l)) with (print_N x ++ 44 :: print_elems (y :: l)).
    rewrite app_length. cbn [length] in *. pose proof (print_N_length x). lia.
Qed.

Lemma print_elems_head x l : exists c t, print_elems (x :: l) = c :: t /\ is_digit c = true.
Proof.
  destruct (print_N_head x) as (c & t & E & Hd). destruct l as [|y l].
  - cbn [print_elems]. eauto.
  - change (print_elems (x :: y :: l)) with (print_N x ++ 44 :: print_elems (y :: l)).
    rewrite E. cbn [app]. eauto.
Qed.

Lemma parse_sums_print sums enn rest : sums_ok sums -> (enn = true -> sums = []) ->
  parse_sums (print_sums sums enn ++ rest) = Some (sums, (match sums with [] => enn | _ => false end), rest).
Proof.
  intros Hok Henn. unfold parse_sums, print_sums. destruct sums as [|x l].
  - destruct enn.
    + reflexivity.
    + now rewrite expect_app.
  - destruct (print_elems_head x l) as (c & t & E & Hd).
    cbn [app]. change (expect (codes "null") (91 :: (print_elems (x :: l) ++ [93]) ++ rest)) with (@None (list N)).
    cbv iota. rewrite N.eqb_refl. rewrite <- app_assoc. cbn [app].
    rewrite E at 1. cbn [app].
    assert (Hc : (c =? 93) = false). { unfold is_digit in Hd. lia. }
    rewrite Hc. rewrite parse_elems_print; [reflexivity|discriminate|assumption|].
    rewrite app_length. pose proof (print_elems_length (x :: l)). lia.
Qed.

(* ------------------------------------------------------------------ the Name string *)
Lemma read_name_print name : forall tail, Forall name_char_ok name -> (exists t, tail = 34 :: t) ->
  read_name (name ++ tail) = Some (name, tail).
Proof.
  induction name as [|c name IH]; intros tail Hok (t & ->).
  - reflexivity.
  - inversion Hok as [|? ? (H1 & H2 & H3 & H4) Hok']; subst. cbn [app read_name].
    destruct (N.eqb_spec c 34); [congruence|]. destruct (N.eqb_spec c 92); [congruence|].
    destruct (N.ltb_spec c 32); [lia|]. destruct (N.ltb_spec 127 c); [lia|]. cbn [orb].
    rewrite IH; [reflexivity|assumption|eauto].
Qed.

Lemma hex_char_ok c : is_hex_char c = true -> name_char_ok c.
Proof. unfold is_hex_char, name_char_ok. lia. Qed.

Lemma valid_name_ok name : valid_name name = true -> Forall name_char_ok name.
Proof.
  unfold valid_name. intros H. apply andb_true_iff in H. destruct H as [_ H].
  rewrite forallb_forall in H. apply Forall_forall. intros c Hc. apply hex_char_ok. now apply H.
Qed.

(* ------------------------------------------------------------------ the whole document *)
Theorem parse_info_print i : wf_info i -> parse_info (serialize_info i) = Some i.
Proof.
  intros [Hpl Hlen Hsums Hname Henn]. unfold parse_info, serialize_info.
  rewrite expect_app.
  rewrite parse_int64_print; [|assumption|reflexivity].
  rewrite expect_app.
  rewrite parse_sums_print by assumption.
  rewrite expect_app.
  rewrite read_name_print; [|assumption|eexists; reflexivity].
  rewrite expect_app.
  rewrite parse_int64_print; [|assumption|reflexivity].
  rewrite expect_self.
  destruct i as [pl sums name len enn]. cbn [i_pl i_sums i_name i_len i_enn] in *.
  destruct sums; [reflexivity|]. destruct enn; [|reflexivity].
  specialize (Henn eq_refl). discriminate.
Qed.

(* ------------------------------------------------------------------ everything the parser accepts is well formed *)
Lemma parse_int64_range s z r : parse_int64 s = Some (z, r) -> in_i64P z.
Proof.
  unfold parse_int64, in_i64P. destruct (match s with c :: _ => c =? 45 | [] => false end).
  - destruct (parse_nat (tl s)) as [[n r']|]; [|discriminate].
    destruct (N.leb_spec n 9223372036854775808); [|discriminate]. intros [= <- _]. lia.
  - destruct (parse_nat s) as [[n r']|]; [|discriminate].
    destruct (N.ltb_spec n 9223372036854775808); [|discriminate]. intros [= <- _]. lia.
Qed.

Lemma parse_uint32_range s n r : parse_uint32 s = Some (n, r) -> n < 4294967296.
Proof.
  unfold parse_uint32. destruct (parse_nat s) as [[m r']|]; [|discriminate].
  destruct (N.ltb_spec m 4294967296); [|discriminate]. now intros [= <- _].
Qed.

Lemma parse_elems_ok : forall fuel s l r, parse_elems fuel s = Some (l, r) -> sums_ok l.
Proof.
  induction fuel as [|fuel IH]; intros s l r; cbn [parse_elems]; [discriminate|].
  destruct (parse_uint32 s) as [[n r1]|] eqn:E; [|discriminate].
  apply parse_uint32_range in E. destruct r1 as [|c r2]; [discriminate|].
  destruct (c =? 44).
  - destruct (parse_elems fuel r2) as [[l' r3]|] eqn:E2; [|discriminate].
    intros [= <- _]. constructor; [assumption|]. eapply IH; eassumption.
  - destruct (c =? 93); [|discriminate]. intros [= <- _]. constructor; [assumption|constructor].
Qed.

Lemma parse_sums_ok s l enn r : parse_sums s = Some (l, enn, r) -> sums_ok l /\ (enn = true -> l = []).
Proof.
  unfold parse_sums. destruct (expect (codes "null") s).
  - intros [= <- <- _]. split; [constructor|reflexivity].
  - destruct s as [|c r0]; [discriminate|]. destruct (c =? 91); [|discriminate].
    destruct (match r0 with c2 :: _ => c2 =? 93 | [] => false end).
    + intros [= <- <- _]. split; [constructor|reflexivity].
    + destruct (parse_elems (length r0) r0) as [[l' r']|] eqn:E; [|discriminate].
      intros [= <- <- _]. split; [eapply parse_elems_ok; eassumption|discriminate].
Qed.

Lemma read_name_ok : forall s n r, read_name s = Some (n, r) -> Forall name_char_ok n.
Proof.
  induction s as [|c s IH]; intros n r; cbn [read_name]; [discriminate|].
  destruct (N.eqb_spec c 34); [intros [= <- _]; constructor|].
  destruct (N.eqb_spec c 92); [discriminate|]. destruct (N.ltb_spec c 32); [discriminate|].
  destruct (N.ltb_spec 127 c); [discriminate|]. cbn [orb].
  destruct (read_name s) as [[n' r']|] eqn:E; [|discriminate]. intros [= <- _].
  constructor; [unfold name_char_ok; lia|]. eapply IH; reflexivity.
Qed.

Theorem parse_info_wf raw i : parse_info raw = Some i -> wf_info i.
Proof.
  unfold parse_info.
  destruct (expect _ raw) as [s1|]; [|discriminate].
  destruct (parse_int64 s1) as [[pl s2]|] eqn:E1; [|discriminate].
  destruct (expect _ s2) as [s3|]; [|discriminate].
  destruct (parse_sums s3) as [[[sums enn] s4]|] eqn:E2; [|discriminate].
  destruct (expect _ s4) as [s5|]; [|discriminate].
  destruct (read_name s5) as [[name s6]|] eqn:E3; [|discriminate].
  destruct (expect _ s6) as [s7|]; [|discriminate].
  destruct (parse_int64 s7) as [[len s8]|] eqn:E4; [|discriminate].
  destruct (expect _ s8) as [[|? ?]|]; try discriminate. intros [= <-].
  apply parse_int64_range in E1, E4. apply parse_sums_ok in E2. apply read_name_ok in E3.
  destruct E2 as [Hs He]. constructor; assumption.
Qed.

Section Hash.
Variable sha1 : list N -> list N.

(* parsing what Serialize printed gives back the same info, hence the same bencoding, the
   same info hash, and the digest named by the (valid) name *)
Theorem deserialize_serialize mi :
  wf_info (mi_info mi) -> valid_name (i_name (mi_info mi)) = true ->
  deserialize sha1 (serialize mi) =
    Ok (mkmi (mi_info mi) (info_hash sha1 (mi_info mi)) (i_name (mi_info mi))).
Proof.
  intros Hwf Hname. unfold deserialize, serialize. rewrite parse_info_print by assumption.
  now rewrite Hname.
Qed.

Theorem deserialize_invalid_name mi :
  wf_info (mi_info mi) -> valid_name (i_name (mi_info mi)) = false ->
  deserialize sha1 (serialize mi) = Err.
Proof.
  intros Hwf Hname. unfold deserialize, serialize. rewrite parse_info_print by assumption.
  now rewrite Hname.
Qed.

(* whatever document parses, the result is internally consistent *)
Theorem deserialize_consistent raw mi : deserialize sha1 raw = Ok mi ->
  mi_ih mi = info_hash sha1 (mi_info mi) /\ mi_digest mi = i_name (mi_info mi)
  /\ valid_name (mi_digest mi) = true.
Proof.
  unfold deserialize. destruct (parse_info raw) as [i|]; [|discriminate].
  destruct (valid_name (i_name i)) eqn:E; [|discriminate]. intros [= <-]. auto.
Qed.

(* hence: whatever DeserializeMetaInfo accepts survives Serialize + DeserializeMetaInfo unchanged *)
Theorem reserialize_stable raw mi : deserialize sha1 raw = Ok mi ->
  deserialize sha1 (serialize mi) = Ok mi.
Proof.
  unfold deserialize at 1. destruct (parse_info raw) as [i|] eqn:E; [|discriminate].
  destruct (valid_name (i_name i)) eqn:Hn; [|discriminate]. intros [= <-].
  apply deserialize_serialize; cbn [mi_info]; [now apply (parse_info_wf raw)|assumption].
Qed.

Section Sum.
Variable sum : list N -> N.
Hypothesis sum_u32 : forall b, sum b < 4294967296.

Lemma expected_wf d data pl :
  (0 < pl < 9223372036854775808)%Z -> (lenZ data < 9223372036854775808)%Z -> valid_name d = true ->
  wf_info (mi_info (expected sum sha1 d data pl)).
Proof.
  intros Hpl Hlen Hd. unfold expected, assemble. cbn [mi_info]. constructor; cbn [i_pl i_len i_sums i_name i_enn].
  - unfold in_i64P. lia.
  - unfold in_i64P, lenZ in *. lia.
  - unfold sums_ok. apply Forall_forall. intros x Hx. apply in_map_iff in Hx. destruct Hx as (p & <- & _). apply sum_u32.
  - now apply valid_name_ok.
  - discriminate.
Qed.

(* Serialize then DeserializeMetaInfo is the identity on generated metainfo *)
Theorem roundtrip_generated d data pl :
  (0 < pl < 9223372036854775808)%Z -> (lenZ data < 9223372036854775808)%Z -> valid_name d = true ->
  deserialize sha1 (serialize (expected sum sha1 d data pl)) = Ok (expected sum sha1 d data pl).
Proof.
  intros Hpl Hlen Hd. rewrite deserialize_serialize.
  - reflexivity.
  - now apply expected_wf.
  - assumption.
Qed.

Theorem roundtrip_generated_invalid_name d data pl :
  (0 < pl < 9223372036854775808)%Z -> (lenZ data < 9223372036854775808)%Z ->
  Forall name_char_ok d -> valid_name d = false ->
  deserialize sha1 (serialize (expected sum sha1 d data pl)) = Err.
Proof.
  intros Hpl Hlen Hok Hd. apply deserialize_invalid_name; [|assumption].
  unfold expected, assemble. cbn [mi_info]. constructor; cbn [i_pl i_len i_sums i_name i_enn].
  - unfold in_i64P. lia.
  - unfold in_i64P, lenZ in *. lia.
  - unfold sums_ok. apply Forall_forall. intros x Hx. apply in_map_iff in Hx. destruct Hx as (p & <- & _). apply sum_u32.
  - assumption.
  - discriminate.
Qed.

End Sum.
End Hash.

(* ------------------------------------------------------------------ the executable checksum is a uint32 and streams *)
Lemma crc32_u32 b : crc32 b < 4294967296.
Proof.
  unfold crc32. change 0xFFFFFFFF with (N.ones 32). rewrite N.land_ones.
  apply N.mod_lt. discriminate.
Qed.

Lemma crc_update_app c a b : crc_update (crc_update c a) b = crc_update c (a ++ b).
Proof. unfold crc_update. now rewrite fold_left_app. Qed.
