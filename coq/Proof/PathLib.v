(* Facts about the shared path library (Model/PathLib.v). *)
From Coq Require Import List NArith Bool Lia PeanoNat.
From K.Model Require Import PathLib.
Import ListNotations.
Local Open Scope N_scope.

(* ---- byte strings *)

Lemma str_eqb_eq : forall a b, str_eqb a b = true <-> a = b.
Proof.
  induction a as [|x a IH]; destruct b as [|y b]; cbn; split; intro H; try congruence; try discriminate.
  - apply andb_true_iff in H as [H1 H2]. apply N.eqb_eq in H1. apply IH in H2. congruence.
  - inversion H; subst. rewrite N.eqb_refl. cbn. apply IH. reflexivity.
Qed.

Lemma str_eqb_refl : forall a, str_eqb a a = true.
Proof. intro a. apply str_eqb_eq. reflexivity. Qed.

Lemma prefixb_app : forall p s, prefixb p (p ++ s) = true.
Proof. induction p as [|x p IH]; intro s; cbn; [reflexivity|]. rewrite N.eqb_refl. apply IH. Qed.

Lemma skipn_app_len : forall (p s : str), skipn (length p) (p ++ s) = s.
Proof. induction p as [|x p IH]; intro s; cbn; [reflexivity|apply IH]. Qed.

Lemma firstn_app_len : forall (p s : str), firstn (length (p ++ s) - length s) (p ++ s) = p.
Proof.
  intros p s. rewrite app_length. replace (length p + length s - length s)%nat with (length p) by lia.
  rewrite firstn_app, Nat.sub_diag, firstn_all. cbn. apply app_nil_r.
Qed.

(* ---- split / join *)

Lemma split_on_nonempty : forall c s, split_on c s <> [].
Proof.
  intros c s. destruct s as [|x t]; cbn; [discriminate|].
  destruct (x =? c); [discriminate|]. destruct (split_on c t); discriminate.
Qed.

Lemma split_on_app : forall c a b, split_on c (a ++ c :: b) = split_on c a ++ split_on c b.
Proof.
  intros c a b. induction a as [|x a IH]; cbn.
  - rewrite N.eqb_refl. reflexivity.
  - destruct (x =? c); [rewrite IH; reflexivity|].
    rewrite IH. destruct (split_on c a) as [|h r] eqn:E; [exfalso; eapply split_on_nonempty; eauto|].
    reflexivity.
Qed.

Lemma join_on_split : forall c s, join_on c (split_on c s) = s.
Proof.
  intros c s. induction s as [|x t IH]; cbn; [reflexivity|].
  destruct (x =? c) eqn:E.
  - apply N.eqb_eq in E; subst. destruct (split_on c t) as [|h r] eqn:E2; [exfalso; eapply split_on_nonempty; eauto|].
    cbn in *. rewrite IH. reflexivity.
  - destruct (split_on c t) as [|h r] eqn:E2; [exfalso; eapply split_on_nonempty; eauto|].
    destruct r; cbn in *; rewrite <- IH; reflexivity.
Qed.

Definition nochar (c : N) (x : str) : Prop := ~ In c x.

Lemma split_on_nochar : forall c x, nochar c x -> split_on c x = [x].
Proof.
  intros c x. induction x as [|y x IH]; intro H; cbn; [reflexivity|].
  destruct (y =? c) eqn:E; [apply N.eqb_eq in E; subst; exfalso; apply H; left; reflexivity|].
  rewrite IH; [reflexivity|]. intro Hin. apply H. right. exact Hin.
Qed.

Lemma split_on_join : forall c l, l <> [] -> Forall (nochar c) l -> split_on c (join_on c l) = l.
Proof.
  intros c l. induction l as [|x t IH]; intros Hne Hall; [congruence|].
  inversion Hall as [|? ? Hx Ht]; subst. destruct t as [|y t'].
  - cbn. apply split_on_nochar. exact Hx.
  - change (join_on c (x :: y :: t')) with (x ++ c :: join_on c (y :: t')).
    rewrite split_on_app, split_on_nochar by exact Hx. rewrite IH; [reflexivity|discriminate|exact Ht].
Qed.

Lemma split_on_elems_nochar : forall c s, Forall (nochar c) (split_on c s).
Proof.
  intros c s. induction s as [|x t IH]; cbn.
  - constructor; [intros []|constructor].
  - destruct (x =? c) eqn:E.
    + constructor; [intros []|exact IH].
    + destruct (split_on c t) as [|h r]; [constructor; [|constructor]|].
      * intros [H|[]]. subst. rewrite N.eqb_refl in E. discriminate.
      * inversion IH; subst. constructor; [|assumption].
        intros [H|H]; [subst; rewrite N.eqb_refl in E; discriminate|]. contradiction.
Qed.

Lemma split_two : forall c s a b, split_on c s = [a; b] -> s = a ++ c :: b.
Proof. intros c s a b H. rewrite <- (join_on_split c s), H. reflexivity. Qed.

Lemma join_on_app : forall c l1 l2, l1 <> [] -> l2 <> [] ->
  join_on c (l1 ++ l2) = join_on c l1 ++ c :: join_on c l2.
Proof.
  intros c l1 l2 H1 H2. induction l1 as [|x t IH]; [congruence|].
  destruct t as [|y t'].
  - cbn. destruct l2; [congruence|reflexivity].
  - change ((x :: y :: t') ++ l2) with (x :: (y :: t') ++ l2).
    change (join_on c (x :: (y :: t') ++ l2)) with (x ++ c :: join_on c ((y :: t') ++ l2)).
    rewrite IH by discriminate. change (join_on c (x :: y :: t')) with (x ++ c :: join_on c (y :: t')).
    rewrite <- app_assoc. reflexivity.
Qed.

(* ---- path elements *)

Lemma comps_app : forall a b, comps (a ++ slash :: b) = comps a ++ comps b.
Proof. intros. apply split_on_app. Qed.

Lemma join_comps : forall s, join_slash (comps s) = s.
Proof. intros. apply join_on_split. Qed.

Lemma is_normal_nonnil : forall c, is_normal c = true -> c <> [].
Proof. intros c H. destruct c; [discriminate|discriminate]. Qed.

Lemma push_normal : forall r st c, is_normal c = true -> push r st c = c :: st.
Proof.
  intros r st c H. unfold is_normal in H. unfold push.
  destruct (is_nil c); [discriminate|]. destruct (is_dot c); [discriminate|].
  destruct (is_dotdot c); [discriminate|]. reflexivity.
Qed.

Lemma fold_push_normal : forall r cs st, forallb is_normal cs = true ->
  fold_left (push r) cs st = rev cs ++ st.
Proof.
  intros r cs. induction cs as [|c cs IH]; intros st H; [reflexivity|].
  cbn in H. apply andb_true_iff in H as [H1 H2]. cbn [fold_left rev].
  rewrite push_normal by exact H1. rewrite IH by exact H2. rewrite <- app_assoc. reflexivity.
Qed.

(* a stack Clean can have produced: ordinary elements, below them (relative paths only) ".." elements *)
Fixpoint stable (r : bool) (st : list str) : bool :=
  match st with
  | [] => true
  | c :: st' => if is_normal c then stable r st' else is_dotdot c && negb r && forallb is_dotdot st'
  end.

Lemma dotdot_not_normal : forall c, is_dotdot c = true -> is_normal c = false.
Proof. intros c H. unfold is_normal. rewrite H. rewrite andb_false_r. reflexivity. Qed.

Lemma push_stable : forall r st c, stable r st = true -> stable r (push r st c) = true.
Proof.
  intros r st c H. unfold push.
  destruct (is_nil c) eqn:En; [exact H|]. destruct (is_dot c) eqn:Ed; [exact H|].
  destruct (is_dotdot c) eqn:Edd.
  - destruct st as [|top st'].
    + destruct r; [reflexivity|]. cbn. rewrite (dotdot_not_normal _ Edd), Edd. reflexivity.
    + destruct (is_dotdot top) eqn:Et.
      * cbn in H. rewrite (dotdot_not_normal _ Et), Et in H. cbn in H.
        apply andb_true_iff in H as [Hr Hall].
        cbn. rewrite (dotdot_not_normal _ Edd), Edd, Hr, Et, Hall. reflexivity.
      * cbn in H. destruct (is_normal top); [exact H|]. rewrite Et in H. discriminate.
  - cbn. unfold is_normal. rewrite En, Ed, Edd. exact H.
Qed.

Lemma fold_push_stable : forall r cs st, stable r st = true -> stable r (fold_left (push r) cs st) = true.
Proof.
  intros r cs. induction cs as [|c cs IH]; intros st H; [exact H|].
  cbn. apply IH. apply push_stable. exact H.
Qed.

Lemma fold_rev_stable : forall r st, stable r st = true -> fold_left (push r) (rev st) [] = st.
Proof.
  intros r st. induction st as [|c st IH]; intro H; [reflexivity|].
  cbn [rev]. rewrite fold_left_app. cbn [fold_left]. cbn in H.
  destruct (is_normal c) eqn:En.
  - rewrite IH by exact H. apply push_normal. exact En.
  - apply andb_true_iff in H as [H Hall]. apply andb_true_iff in H as [Hdd Hr].
    assert (Hst : stable r st = true).
    { clear - Hall Hr. induction st as [|x st IH]; [reflexivity|]. cbn in *.
      apply andb_true_iff in Hall as [Hx Hall]. rewrite (dotdot_not_normal _ Hx), Hx, Hr, Hall. reflexivity. }
    rewrite IH by exact Hst. unfold push.
    assert (is_nil c = false) by (destruct c; [discriminate|reflexivity]).
    assert (is_dot c = false).
    { apply str_eqb_eq in Hdd. subst. reflexivity. }
    rewrite H, H0, Hdd. destruct st as [|top st'].
    + destruct r; [discriminate|reflexivity].
    + cbn in Hall. apply andb_true_iff in Hall as [Ht _]. rewrite Ht. reflexivity.
Qed.

(* stack elements are non-empty and free of '/' *)
Definition elem_ok (x : str) : Prop := x <> [] /\ nochar slash x.

Lemma push_elem_ok : forall r st c, nochar slash c -> Forall elem_ok st -> Forall elem_ok (push r st c).
Proof.
  intros r st c Hc Hst. unfold push.
  destruct (is_nil c) eqn:En; [exact Hst|]. destruct (is_dot c); [exact Hst|].
  assert (Hok : elem_ok c) by (split; [destruct c; [discriminate|discriminate]|exact Hc]).
  destruct (is_dotdot c).
  - destruct st as [|top st'].
    + destruct r; constructor; [exact Hok|constructor].
    + destruct (is_dotdot top); [constructor; assumption|]. inversion Hst; assumption.
  - constructor; assumption.
Qed.

Lemma fold_push_elem_ok : forall r cs st, Forall (nochar slash) cs -> Forall elem_ok st ->
  Forall elem_ok (fold_left (push r) cs st).
Proof.
  intros r cs. induction cs as [|c cs IH]; intros st Hcs Hst; [exact Hst|].
  inversion Hcs; subst. cbn. apply IH; [assumption|]. apply push_elem_ok; assumption.
Qed.

Lemma cstack_elem_ok : forall r s, Forall elem_ok (cstack r s).
Proof.
  intros. unfold cstack. apply fold_push_elem_ok; [apply split_on_elems_nochar|constructor].
Qed.

Lemma cstack_stable : forall r s, stable r (cstack r s) = true.
Proof. intros. unfold cstack. apply fold_push_stable. reflexivity. Qed.

Lemma elem_ok_nochar : forall l, Forall elem_ok l -> Forall (nochar slash) l.
Proof. intros l H. eapply Forall_impl; [|exact H]. intros a [_ Ha]. exact Ha. Qed.

Lemma is_rooted_app : forall a b, a <> [] -> is_rooted (a ++ b) = is_rooted a.
Proof. intros [|x a] b H; [congruence|reflexivity]. Qed.

Lemma join_slash_head : forall l, l <> [] -> Forall elem_ok l -> is_rooted (join_slash l) = false.
Proof.
  intros [|x t] Hne H; [congruence|]. inversion H as [|? ? [Hx Hns] _]; subst.
  destruct x as [|c x]; [congruence|].
  assert (Hc : (c =? slash) = false).
  { apply N.eqb_neq. intro; subst. apply Hns. left. reflexivity. }
  destruct t; cbn; exact Hc.
Qed.

Lemma is_rooted_render : forall r l, Forall elem_ok l -> is_rooted (render r l) = r.
Proof.
  intros r l H. unfold render. destruct r; [reflexivity|].
  destruct l as [|x t]; [reflexivity|]. apply join_slash_head; [discriminate|exact H].
Qed.

Lemma render_nonnil_ok : forall r l, Forall elem_ok l -> render r l <> [].
Proof.
  intros r l H. unfold render. destruct r; [discriminate|]. destruct l as [|x t]; [discriminate|].
  inversion H as [|? ? [Hx _] _]; subst. destruct x; [congruence|]. destruct t; cbn; discriminate.
Qed.

(* the stack of a rendered stable stack is that stack *)
Lemma cstack_render : forall r st, stable r st = true -> Forall elem_ok st ->
  cstack r (render r (rev st)) = st.
Proof.
  intros r st Hs Hok. unfold cstack, render.
  assert (Hl : Forall (nochar slash) (rev st)).
  { apply elem_ok_nochar. apply Forall_rev. exact Hok. }
  destruct (rev st) as [|x t] eqn:E.
  - assert (st = []) by (destruct st; [reflexivity|]; cbn in E; destruct (rev st); discriminate). subst.
    destruct r; reflexivity.
  - assert (Hc : comps (join_slash (x :: t)) = x :: t) by (apply split_on_join; [discriminate|exact Hl]).
    destruct r.
    + change (comps (slash :: join_slash (x :: t))) with (split_on slash ([] ++ slash :: join_slash (x :: t))).
      rewrite split_on_app. fold (comps (join_slash (x :: t))). rewrite Hc.
      change (split_on slash [] ++ x :: t) with ([] :: x :: t).
      change (fold_left (push true) ([] :: x :: t) []) with (fold_left (push true) (x :: t) []).
      rewrite <- E. apply fold_rev_stable. exact Hs.
    + rewrite Hc, <- E. apply fold_rev_stable. exact Hs.
Qed.

Lemma clean_eq : forall s, clean s = render (is_rooted s) (rev (cstack (is_rooted s) s)).
Proof. reflexivity. Qed.

Lemma is_rooted_clean : forall s, is_rooted (clean s) = is_rooted s.
Proof. intro s. rewrite clean_eq. apply is_rooted_render. apply Forall_rev. apply cstack_elem_ok. Qed.

Lemma cstack_clean : forall s, cstack (is_rooted s) (clean s) = cstack (is_rooted s) s.
Proof.
  intro s. rewrite clean_eq. apply cstack_render; [apply cstack_stable|apply cstack_elem_ok].
Qed.

Theorem clean_idem : forall s, clean (clean s) = clean s.
Proof.
  intro s. rewrite (clean_eq (clean s)), is_rooted_clean, cstack_clean. reflexivity.
Qed.

Lemma clean_nonnil : forall s, clean s <> [].
Proof. intro s. rewrite clean_eq. apply render_nonnil_ok. apply Forall_rev. apply cstack_elem_ok. Qed.

(* Clean distributes over a cleaned left part: Clean(Clean(x) + "/" + y) = Clean(x + "/" + y), x non-empty *)
Lemma cstack_app : forall r a b, cstack r (a ++ slash :: b) = fold_left (push r) (comps b) (cstack r a).
Proof. intros. unfold cstack. rewrite comps_app, fold_left_app. reflexivity. Qed.

Theorem clean_clean_app : forall x y, x <> [] -> clean (clean x ++ slash :: y) = clean (x ++ slash :: y).
Proof.
  intros x y Hx. rewrite (clean_eq (clean x ++ _)), (clean_eq (x ++ _)).
  rewrite !is_rooted_app by (try apply clean_nonnil; exact Hx). rewrite is_rooted_clean.
  rewrite !cstack_app, cstack_clean. reflexivity.
Qed.

Lemma render_app : forall r l q, l <> [] -> q <> [] ->
  render r (l ++ q) = render r l ++ slash :: join_slash q.
Proof.
  intros r l q Hl Hq. unfold render. destruct r.
  - unfold join_slash. rewrite join_on_app by assumption. reflexivity.
  - destruct l as [|x t]; [congruence|]. cbn [app]. change (x :: t ++ q) with ((x :: t) ++ q).
    unfold join_slash. rewrite join_on_app by assumption. reflexivity.
Qed.

Lemma normal_path_nonnil : forall q, normal_path q = true -> q <> [].
Proof. intros [|c q] H; [discriminate|discriminate]. Qed.

(* appending a clean relative path of ordinary elements to a cleaned path that is neither "/" nor "." *)
Theorem clean_app_normal : forall x q,
  cstack (is_rooted x) x <> [] -> normal_path q = true ->
  clean (clean x ++ slash :: q) = clean x ++ slash :: q.
Proof.
  intros x q Hst Hq.
  rewrite (clean_eq (clean x ++ _)). rewrite is_rooted_app by apply clean_nonnil.
  rewrite is_rooted_clean, cstack_app, cstack_clean.
  unfold normal_path in Hq. rewrite fold_push_normal by exact Hq.
  rewrite rev_app_distr, rev_involutive.
  rewrite render_app.
  - rewrite join_comps. reflexivity.
  - intro H. apply Hst. destruct (cstack (is_rooted x) x); [reflexivity|]. cbn in H.
    destruct (rev l); discriminate.
  - apply split_on_nonempty.
Qed.

(* same for a rooted path that cleans to "/" *)
Theorem clean_app_normal_root : forall x q,
  is_rooted x = true -> cstack true x = [] -> normal_path q = true ->
  clean x = [slash] /\ clean (clean x ++ slash :: q) = slash :: q.
Proof.
  intros x q Hr Hst Hq.
  assert (Hc : clean x = [slash]) by (rewrite clean_eq, Hr, Hst; reflexivity).
  split; [exact Hc|].
  rewrite (clean_eq (clean x ++ _)). rewrite is_rooted_app by apply clean_nonnil.
  rewrite is_rooted_clean, cstack_app, cstack_clean, Hr, Hst.
  unfold normal_path in Hq. rewrite fold_push_normal by exact Hq.
  rewrite app_nil_r, rev_involutive. unfold render. rewrite join_comps. reflexivity.
Qed.

Lemma normal_path_app : forall a b, normal_path a = true -> normal_path b = true ->
  normal_path (a ++ slash :: b) = true.
Proof.
  intros a b Ha Hb. unfold normal_path in *. rewrite comps_app, forallb_app, Ha, Hb. reflexivity.
Qed.

Lemma normal_path_single : forall c, is_normal c = true -> nochar slash c -> normal_path c = true.
Proof.
  intros c Hn Hs. unfold normal_path, comps. rewrite split_on_nochar by exact Hs. cbn. rewrite Hn. reflexivity.
Qed.

(* ---- Join *)

Lemma join_two_nonnil : forall a b, a <> [] -> b <> [] -> join [a; b] = clean (a ++ slash :: b).
Proof. intros [|x a] [|y b] Ha Hb; try congruence. reflexivity. Qed.

Lemma join_nil_l : forall b, b <> [] -> join [[]; b] = clean b.
Proof. intros [|y b] Hb; [congruence|reflexivity]. Qed.

(* Join(root, lit) for a literal clean relative path: a cleaned path whose stack is not empty *)
Lemma join_root_lit : forall root lit, normal_path lit = true ->
  exists X, join [root; lit] = clean X /\ cstack (is_rooted X) X <> [].
Proof.
  intros root lit Hl. pose proof (normal_path_nonnil _ Hl) as Hne.
  assert (Hc : comps lit <> []) by apply split_on_nonempty.
  destruct root as [|c root].
  - exists lit. split; [apply join_nil_l; exact Hne|].
    unfold cstack. unfold normal_path in Hl. rewrite fold_push_normal by exact Hl.
    rewrite app_nil_r. intro H. apply Hc. destruct (comps lit); [reflexivity|]. cbn in H. destruct (rev l); discriminate.
  - exists ((c :: root) ++ slash :: lit). split; [apply join_two_nonnil; [discriminate|exact Hne]|].
    rewrite cstack_app. unfold normal_path in Hl. rewrite fold_push_normal by exact Hl.
    intro H. apply Hc. destruct (comps lit) as [|a l]; [reflexivity|]. cbn in H. destruct (rev l); discriminate.
Qed.

(* ---- TrimSuffix "/" *)

Lemma trim_slash_last : forall a c, c <> slash -> trim_slash (a ++ [c]) = a ++ [c].
Proof.
  intros a c Hc. induction a as [|x a IH].
  - cbn. apply N.eqb_neq in Hc. rewrite Hc. reflexivity.
  - cbn [app]. destruct (a ++ [c]) as [|y t] eqn:E; [destruct a; discriminate|].
    change (trim_slash (x :: y :: t)) with (x :: trim_slash (y :: t)). rewrite IH. reflexivity.
Qed.

Lemma join_slash_last : forall l, l <> [] -> Forall elem_ok l ->
  exists a c, join_slash l = a ++ [c] /\ c <> slash.
Proof.
  induction l as [|x t IH]; intros Hne H; [congruence|]. inversion H as [|? ? [Hx Hns] Ht]; subst.
  destruct t as [|y t'].
  - destruct (exists_last Hx) as [a [c E]]. exists a, c. split; [exact E|].
    intro; subst. apply Hns. apply in_or_app. right. left. reflexivity.
  - destruct (IH ltac:(discriminate) Ht) as [a [c [E Hc]]].
    exists (x ++ slash :: a), c. split; [|exact Hc].
    change (join_slash (x :: y :: t')) with (x ++ slash :: join_slash (y :: t')). rewrite E.
    rewrite <- app_assoc. reflexivity.
Qed.
