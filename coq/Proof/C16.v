From Coq Require Import List NArith ZArith Bool Lia.
From K.Gen Require Import C16_consts.
From K.Model Require Import C16.
Import ListNotations.
Local Open Scope Z_scope.

(* ---------- keys and association lists ---------- *)
Lemma keyeqb_eq a b : keyeqb a b = true <-> a = b.
Proof.
  unfold keyeqb. destruct a as [a1 a2], b as [b1 b2]. cbn [fst snd].
  rewrite andb_true_iff, !N.eqb_eq. split.
  - intros [-> ->]. reflexivity.
  - intros H. inversion H. split; reflexivity.
Qed.

Lemma keyeqb_refl a : keyeqb a a = true.
Proof. apply keyeqb_eq. reflexivity. Qed.

Lemma keyeqb_neq a b : keyeqb a b = false <-> a <> b.
Proof.
  rewrite <- keyeqb_eq. destruct (keyeqb a b); split; intros H; congruence.
Qed.

Lemma keyeqb_sym a b : keyeqb a b = keyeqb b a.
Proof.
  destruct (keyeqb a b) eqn:E.
  - apply keyeqb_eq in E. subst. symmetry. apply keyeqb_refl.
  - symmetry. apply keyeqb_neq. apply keyeqb_neq in E. congruence.
Qed.

Section Assoc.
  Context {V : Type}.
  Implicit Types (l : list (key * V)) (k : key) (v : V).

  Lemma lookup_del_same k l : lookup k (del k l) = None.
  Proof.
    induction l as [|[k' v'] t IH]; [reflexivity|].
    unfold del in *. cbn [filter fst]. destruct (keyeqb k k') eqn:E; cbn [negb].
    - exact IH.
    - cbn [lookup]. rewrite E. exact IH.
  Qed.

  Lemma lookup_del_other k k' l : k <> k' -> lookup k (del k' l) = lookup k l.
  Proof.
    intros Hne. induction l as [|[k2 v2] t IH]; [reflexivity|].
    unfold del in *. cbn [filter fst]. destruct (keyeqb k' k2) eqn:E; cbn [negb lookup].
    - apply keyeqb_eq in E. subst k2.
      assert (keyeqb k k' = false) as -> by (apply keyeqb_neq; exact Hne). exact IH.
    - rewrite IH. reflexivity.
  Qed.

  Lemma lookup_put_same k v l : lookup k (put k v l) = Some v.
  Proof. unfold put. cbn [lookup]. rewrite keyeqb_refl. reflexivity. Qed.

  Lemma lookup_put_other k k' v l : k <> k' -> lookup k (put k' v l) = lookup k l.
  Proof.
    intros Hne. unfold put. cbn [lookup].
    assert (keyeqb k k' = false) as -> by (apply keyeqb_neq; exact Hne).
    apply lookup_del_other. exact Hne.
  Qed.

  Lemma lookup_None_notin k l : lookup k l = None <-> ~ In k (map fst l).
  Proof.
    induction l as [|[k' v'] t IH]; cbn [lookup map fst In].
    - split; [intros _ [] | reflexivity].
    - destruct (keyeqb k k') eqn:E.
      + apply keyeqb_eq in E. subst. split; [discriminate|]. intros H. exfalso. apply H. left. reflexivity.
      + apply keyeqb_neq in E. rewrite IH. split.
        * intros H [H1|H1]; [congruence | exact (H H1)].
        * intros H H1. apply H. right. exact H1.
  Qed.

  Lemma lookup_In k v l : lookup k l = Some v -> In (k, v) l.
  Proof.
    induction l as [|[k' v'] t IH]; cbn [lookup]; [discriminate|].
    destruct (keyeqb k k') eqn:E.
    - apply keyeqb_eq in E. subst. intros H. inversion H. left. reflexivity.
    - intros H. right. exact (IH H).
  Qed.

  Lemma In_lookup k v l : NoDup (map fst l) -> In (k, v) l -> lookup k l = Some v.
  Proof.
    induction l as [|[k' v'] t IH]; cbn [map fst lookup]; intros Hnd Hin; [destruct Hin|].
    inversion Hnd as [|? ? Hk Ht]; subst. destruct Hin as [Heq|Hin].
    - inversion Heq; subst. rewrite keyeqb_refl. reflexivity.
    - destruct (keyeqb k k') eqn:E.
      + apply keyeqb_eq in E. subst. exfalso. apply Hk. apply in_map_iff. exists (k', v). split; [reflexivity|exact Hin].
      + exact (IH Ht Hin).
  Qed.

  Lemma del_notin k l : lookup k l = None -> del k l = l.
  Proof.
    induction l as [|[k' v'] t IH]; [reflexivity|]. cbn [lookup]. unfold del in *. cbn [filter fst].
    destruct (keyeqb k k') eqn:E; [discriminate|]. cbn [negb]. intros H. rewrite (IH H). reflexivity.
  Qed.

  Lemma keys_filter_incl (f : key * V -> bool) l x : In x (map fst (filter f l)) -> In x (map fst l).
  Proof.
    rewrite !in_map_iff. intros [e [He Hi]]. apply filter_In in Hi. exists e. split; [exact He | exact (proj1 Hi)].
  Qed.

  Lemma NoDup_keys_filter (f : key * V -> bool) l : NoDup (map fst l) -> NoDup (map fst (filter f l)).
  Proof.
    induction l as [|e t IH]; cbn [map filter]; intros Hnd; [constructor|].
    inversion Hnd as [|? ? Hk Ht]; subst. destruct (f e); cbn [map].
    - constructor; [|exact (IH Ht)]. intros Hi. apply Hk. exact (keys_filter_incl f t _ Hi).
    - exact (IH Ht).
  Qed.

  Lemma NoDup_keys_put k v l : NoDup (map fst l) -> NoDup (map fst (put k v l)).
  Proof.
    intros Hnd. unfold put. cbn [map fst]. constructor.
    - apply lookup_None_notin. apply lookup_del_same.
    - unfold del. apply NoDup_keys_filter. exact Hnd.
  Qed.

  (* sizes per torrent *)
  Lemma of_hash_del_other h k l : fst k <> h -> of_hash h (del k l) = of_hash h l.
  Proof.
    intros Hne. induction l as [|[k' v'] t IH]; [reflexivity|].
    unfold of_hash, del in *. cbn [filter fst]. destruct (keyeqb k k') eqn:E; cbn [negb filter fst].
    - apply keyeqb_eq in E. subst k'. assert (N.eqb h (fst k) = false) as -> by (apply N.eqb_neq; congruence). exact IH.
    - rewrite IH. reflexivity.
  Qed.

  Lemma len_of_hash_del_le h k l : (length (of_hash h (del k l)) <= length (of_hash h l))%nat.
  Proof.
    induction l as [|[k' v'] t IH]; [cbn; lia|].
    unfold of_hash, del in *. cbn [filter fst]. destruct (keyeqb k k'); cbn [negb filter fst];
      destruct (N.eqb h (fst k')); cbn [length]; lia.
  Qed.

  Lemma len_of_hash_del_lt h k v l :
    fst k = h -> lookup k l = Some v -> (length (of_hash h (del k l)) < length (of_hash h l))%nat.
  Proof.
    intros Hh. induction l as [|[k' v'] t IH]; cbn [lookup]; [discriminate|].
    unfold of_hash, del in *. cbn [filter fst]. destruct (keyeqb k k') eqn:E; cbn [negb filter fst].
    - apply keyeqb_eq in E. subst k'. intros _. rewrite Hh, N.eqb_refl. cbn [length].
      pose proof (len_of_hash_del_le h k t) as Hle. unfold of_hash, del in Hle. lia.
    - intros H. specialize (IH H). destruct (N.eqb h (fst k')); cbn [length]; lia.
  Qed.
End Assoc.

Lemma count_put_other h k v l : fst k <> h -> count h (put k v l) = count h l.
Proof.
  intros Hne. unfold count, put, of_hash. cbn [filter fst].
  assert (N.eqb h (fst k) = false) as -> by (apply N.eqb_neq; congruence).
  fold (of_hash h (del k l)). rewrite of_hash_del_other by exact Hne. reflexivity.
Qed.

Lemma count_put_new h p v l : lookup (h, p) l = None -> count h (put (h, p) v l) = count h l + 1.
Proof.
  intros Hn. unfold count, put. rewrite (del_notin _ _ Hn). unfold of_hash. cbn [filter fst].
  rewrite N.eqb_refl. cbn [length]. lia.
Qed.

Lemma count_put_existing h p v v' l : lookup (h, p) l = Some v' -> count h (put (h, p) v l) <= count h l.
Proof.
  intros Hs. unfold count, put, of_hash. cbn [filter fst]. rewrite N.eqb_refl. cbn [length].
  pose proof (len_of_hash_del_lt h (h, p) v' l eq_refl Hs) as Hlt. unfold of_hash in Hlt. lia.
Qed.

Lemma count_del_le h k l : count h (del k l) <= count h l.
Proof. unfold count. pose proof (@len_of_hash_del_le status h k l). lia. Qed.

Lemma count_nonneg h l : 0 <= count h l.
Proof. unfold count. lia. Qed.

Lemma filter_partition_len {A} (f : A -> bool) (l : list A) :
  (length (filter f l) + length (filter (fun x => negb (f x)) l) = length l)%nat.
Proof. induction l as [|x t IH]; [reflexivity|]. cbn [filter]. destruct (f x); cbn [negb length]; lia. Qed.

Lemma pending_plus_active h l : n_pending h l + n_active h l = count h l.
Proof.
  unfold n_pending, n_active, count. pose proof (filter_partition_len is_active (of_hash h l)). lia.
Qed.

(* ---------- configuration ---------- *)
Lemma defaults_max_pos raw : 0 <= c_max raw -> 1 <= c_max (apply_defaults raw).
Proof.
  intros H. unfold apply_defaults. cbn [c_max]. destruct (Z.eqb_spec (c_max raw) 0) as [E|E].
  - unfold cs_default_max_open. lia.
  - lia.
Qed.

Lemma defaults_max_neg raw : c_max raw < 0 -> c_max (apply_defaults raw) = c_max raw.
Proof.
  intros H. unfold apply_defaults. cbn [c_max]. destruct (Z.eqb_spec (c_max raw) 0) as [E|E]; [lia | reflexivity].
Qed.

(* ---------- one-step facts ---------- *)
Lemma run_app c s a b :
  run c s (a ++ b) =
  let '(s1, r1) := run c s a in let '(s2, r2) := run c s1 b in (s2, r1 ++ r2).
Proof.
  revert s. induction a as [|o a IH]; intros s; cbn [app run].
  - destruct (run c s b). reflexivity.
  - destruct (step c s o) as [s1 r]. rewrite IH. destruct (run c s1 a) as [s2 r2].
    destruct (run c s2 b) as [s3 r3]. reflexivity.
Qed.

Lemma run_app_fst c s a b : fst (run c s (a ++ b)) = fst (run c (fst (run c s a)) b).
Proof.
  rewrite run_app. destruct (run c s a) as [s1 r1]. cbn [fst]. destruct (run c s1 b). reflexivity.
Qed.

Lemma run_cons_fst c s o t : fst (run c s (o :: t)) = fst (run c (fst (step c s o)) t).
Proof. cbn [run]. destruct (step c s o) as [s1 r]. cbn [fst]. destruct (run c s1 t). reflexivity. Qed.

Lemma run_snoc_fst c s a o : fst (run c s (a ++ [o])) = fst (step c (fst (run c s a)) o).
Proof. rewrite run_app_fst. cbn [run]. destruct (step c (fst (run c s a)) o). reflexivity. Qed.

(* add_pending, by cases *)
Lemma add_pending_spec c s p h nbrs :
  (snd (add_pending c s p h nbrs) = AddOk /\
   count h (conns s) <> c_max c /\ lookup (h, p) (conns s) = None /\ num_mutual s h nbrs <= c_mutual c /\
   fst (add_pending c s p h nbrs) = mk (put (h, p) Pending (conns s)) (bl s) (now s))
  \/ (snd (add_pending c s p h nbrs) <> AddOk /\ fst (add_pending c s p h nbrs) = s).
Proof.
  unfold add_pending. destruct (Z.eqb_spec (count h (conns s)) (c_max c)) as [E|E].
  - right. split; [discriminate | reflexivity].
  - destruct (lookup (h, p) (conns s)) as [[|cn]|] eqn:L.
    + right. split; [discriminate | reflexivity].
    + right. split; [discriminate | reflexivity].
    + destruct (Z.ltb_spec (c_mutual c) (num_mutual s h nbrs)) as [M|M].
      * right. split; [discriminate | reflexivity].
      * left. cbn [fst snd]. repeat split; try assumption.
Qed.

Lemma add_pending_frame c s p h nbrs :
  bl (fst (add_pending c s p h nbrs)) = bl s /\ now (fst (add_pending c s p h nbrs)) = now s.
Proof.
  destruct (add_pending_spec c s p h nbrs) as [(_ & _ & _ & _ & E)|[_ E]]; rewrite E; split; reflexivity.
Qed.

(* every step leaves the clock monotone and touches conns / blacklist separately *)
Lemma delete_pending_frame s p h : bl (delete_pending s p h) = bl s /\ now (delete_pending s p h) = now s.
Proof. unfold delete_pending. destruct (lookup (h, p) (conns s)) as [[|cn]|]; split; reflexivity. Qed.

Lemma delete_active_frame s cn p h : bl (delete_active s cn p h) = bl s /\ now (delete_active s cn p h) = now s.
Proof.
  unfold delete_active. destruct (lookup (h, p) (conns s)) as [[|c']|]; try (split; reflexivity).
  destruct (N.eqb c' cn); split; reflexivity.
Qed.

Lemma blacklist_frame c s p h : conns (fst (blacklist c s p h)) = conns s /\ now (fst (blacklist c s p h)) = now s.
Proof.
  unfold blacklist. destruct (c_nobl c); [split; reflexivity|].
  destruct (blacklisted s (h, p)); split; reflexivity.
Qed.

Lemma announce_loop_frame c s h self peers :
  bl (fst (announce_loop c s h self peers)) = bl s /\ now (fst (announce_loop c s h self peers)) = now s.
Proof.
  revert s. induction peers as [|p t IH]; intros s; cbn [announce_loop]; [split; reflexivity|].
  destruct (N.eqb p self); [apply IH|].
  destruct (blacklisted s (h, p)); [apply IH|].
  destruct (add_pending_spec c s p h []) as [(Ho & _ & _ & _ & E)|[Ho E]];
    destruct (add_pending c s p h []) as [s' r]; cbn [fst snd] in *; subst.
  - destruct (announce_loop c _ h self t) as [s'' d] eqn:EL.
    pose proof (IH (mk (put (h, p) Pending (conns s)) (bl s) (now s))) as IH'. rewrite EL in IH'. cbn [fst bl now] in *. exact IH'.
  - destruct r; try contradiction; try (split; reflexivity); apply IH.
Qed.

Lemma blacklisted_frame s s' k : bl s' = bl s -> now s' = now s -> blacklisted s' k = blacklisted s k.
Proof. intros Hb Hn. unfold blacklisted. rewrite Hb, Hn. reflexivity. Qed.

(* ---------- capacity: pending + active <= Max ---------- *)
Definition cap_inv (c : cfg) (l : list (key * status)) : Prop := forall h, count h l <= c_max c.

Lemma cap_del c l k : cap_inv c l -> cap_inv c (del k l).
Proof. intros H h. pose proof (count_del_le h k l). specialize (H h). lia. Qed.

Lemma cap_add_pending c s p h nbrs :
  cap_inv c (conns s) -> cap_inv c (conns (fst (add_pending c s p h nbrs))).
Proof.
  intros H. destruct (add_pending_spec c s p h nbrs) as [(_ & Hc & Hl & _ & E)|[_ E]]; rewrite E; [|exact H].
  cbn [conns]. intros h'. destruct (N.eq_dec h h') as [<-|Hne].
  - rewrite count_put_new by exact Hl. specialize (H h). lia.
  - rewrite count_put_other by (cbn [fst]; exact Hne). apply H.
Qed.

Lemma cap_delete_pending c s p h : cap_inv c (conns s) -> cap_inv c (conns (delete_pending s p h)).
Proof.
  intros H. unfold delete_pending. destruct (lookup (h, p) (conns s)) as [[|cn]|]; try exact H.
  cbn [conns]. apply cap_del. exact H.
Qed.

Lemma cap_delete_active c s cn p h : cap_inv c (conns s) -> cap_inv c (conns (delete_active s cn p h)).
Proof.
  intros H. unfold delete_active. destruct (lookup (h, p) (conns s)) as [[|c']|]; try exact H.
  destruct (N.eqb c' cn); [|exact H]. cbn [conns]. apply cap_del. exact H.
Qed.

Lemma cap_move c s cn p h closed : cap_inv c (conns s) -> cap_inv c (conns (fst (move_to_active s cn p h closed))).
Proof.
  intros H. unfold move_to_active. destruct closed; [exact H|].
  destruct (lookup (h, p) (conns s)) as [[|c']|] eqn:L; try exact H.
  cbn [fst conns]. intros h'. destruct (N.eq_dec h h') as [<-|Hne].
  - pose proof (count_put_existing h p (Active cn) _ _ L). specialize (H h). lia.
  - rewrite count_put_other by (cbn [fst]; exact Hne). apply H.
Qed.

Lemma cap_announce_loop c s h self peers :
  cap_inv c (conns s) -> cap_inv c (conns (fst (announce_loop c s h self peers))).
Proof.
  revert s. induction peers as [|p t IH]; intros s H; cbn [announce_loop]; [exact H|].
  destruct (N.eqb p self); [apply IH; exact H|].
  destruct (blacklisted s (h, p)); [apply IH; exact H|].
  pose proof (cap_add_pending c s p h [] H) as H'.
  destruct (add_pending_spec c s p h []) as [(Ho & _)|[Ho E]];
    destruct (add_pending c s p h []) as [s' r]; cbn [fst snd] in *; subst.
  - specialize (IH s' H'). destruct (announce_loop c s' h self t) as [s'' d]. exact IH.
  - destruct r; try contradiction; try exact H; apply IH; exact H.
Qed.

Lemma cap_step c s o : cap_inv c (conns s) -> cap_inv c (conns (fst (step c s o))).
Proof.
  intros H. destruct o; cbn [step].
  - pose proof (cap_add_pending c s p h nbrs H). destruct (add_pending c s p h nbrs). exact H0.
  - apply cap_delete_pending. exact H.
  - pose proof (cap_move c s c0 p h closed H). destruct (move_to_active s c0 p h closed). exact H0.
  - apply cap_delete_active. exact H.
  - destruct (blacklist_frame c s p h) as [E _]. destruct (blacklist c s p h). cbn [fst] in *. rewrite E. exact H.
  - exact H.
  - exact H.
  - destruct (negb known); [exact H|]. destruct complete; [exact H|].
    pose proof (cap_announce_loop c s h self peers H). destruct (announce_loop c s h self peers). exact H0.
  - destruct (blacklist_frame c (delete_active s c0 p h) p h) as [E _]. cbn [fst]. rewrite E. apply cap_delete_active. exact H.
  - destruct (blacklist_frame c (delete_pending s p h) p h) as [E _]. cbn [fst]. rewrite E. apply cap_delete_pending. exact H.
  - apply cap_delete_pending. exact H.
  - exact H.
  - pose proof (cap_add_pending c s p h nbrs H). destruct (add_pending c s p h nbrs). exact H0.
  - exact H.
  - exact H.
  - exact H.
  - exact H.
Qed.

Lemma cap_run c s ops : cap_inv c (conns s) -> cap_inv c (conns (fst (run c s ops))).
Proof.
  revert s. induction ops as [|o t IH]; intros s H; [exact H|].
  rewrite run_cons_fst. apply IH. apply cap_step. exact H.
Qed.

Lemma cap_init c : 0 <= c_max c -> cap_inv c (conns init).
Proof. intros H h. cbn. exact H. Qed.

Lemma capacity : forall raw ops h,
  0 <= c_max raw ->
  let c := apply_defaults raw in
  let s := fst (run c init ops) in
  n_pending h (conns s) + n_active h (conns s) <= c_max c.
Proof.
  intros raw ops h Hm c s. rewrite pending_plus_active.
  apply cap_run. apply cap_init. pose proof (defaults_max_pos raw Hm). subst c. lia.
Qed.

(* the guard is needed: a negative maximum is never "reached" (state.go:182 tests equality) *)
Lemma negative_max_unbounded : forall raw, c_max raw < 0 ->
  forall ps : list N, NoDup ps ->
  let c := apply_defaults raw in
  0 <= c_mutual c ->
  count 0%N (conns (fst (run c init (map (fun p => AddPending p 0%N []) ps)))) = Z.of_nat (length ps).
Proof.
  intros raw Hneg ps Hnd c Hmut.
  assert (Hc : c_max c < 0) by (subst c; rewrite defaults_max_neg by exact Hneg; exact Hneg).
  (* generalise over the starting state *)
  assert (G : forall ps s, NoDup ps -> (forall p, In p ps -> lookup (0%N, p) (conns s) = None) ->
            count 0%N (conns (fst (run c s (map (fun p => AddPending p 0%N []) ps)))) = count 0%N (conns s) + Z.of_nat (length ps)).
  { clear ps Hnd. induction ps as [|p t IH]; intros s Hnd Hfree; cbn [map length]; [cbn [run fst]; lia|].
    rewrite run_cons_fst. cbn [step].
    inversion Hnd as [|? ? Hp Ht]; subst.
    destruct (add_pending_spec c s p 0%N []) as [(_ & _ & _ & _ & E)|[Ho E]].
    - destruct (add_pending c s p 0%N []) as [s' r]. cbn [fst] in *. subst s'.
      rewrite IH; [| exact Ht |].
      + cbn [conns]. rewrite count_put_new by (apply Hfree; left; reflexivity). lia.
      + intros q Hq. cbn [conns]. rewrite lookup_put_other.
        * apply Hfree. right. exact Hq.
        * intros Heq. inversion Heq; subst. contradiction.
    - exfalso. apply Ho. unfold add_pending.
      destruct (Z.eqb_spec (count 0%N (conns s)) (c_max c)) as [E1|E1]; [pose proof (count_nonneg 0%N (conns s)); lia|].
      rewrite (Hfree p (or_introl eq_refl)).
      unfold num_mutual. cbn [filter length]. destruct (Z.ltb_spec (c_mutual c) (Z.of_nat 0)) as [M|M]; [lia | reflexivity]. }
  rewrite G; [cbn; lia | exact Hnd | intros; reflexivity].
Qed.

(* ---------- exclusive state: one entry per (torrent, peer) ---------- *)
Definition excl_inv (l : list (key * status)) : Prop := NoDup (map fst l).

Lemma excl_add_pending c s p h nbrs : excl_inv (conns s) -> excl_inv (conns (fst (add_pending c s p h nbrs))).
Proof.
  intros H. destruct (add_pending_spec c s p h nbrs) as [(_ & _ & _ & _ & E)|[_ E]]; rewrite E; [|exact H].
  apply NoDup_keys_put. exact H.
Qed.

Lemma excl_delete_pending s p h : excl_inv (conns s) -> excl_inv (conns (delete_pending s p h)).
Proof.
  intros H. unfold delete_pending. destruct (lookup (h, p) (conns s)) as [[|cn]|]; try exact H.
  apply NoDup_keys_filter. exact H.
Qed.

Lemma excl_delete_active s cn p h : excl_inv (conns s) -> excl_inv (conns (delete_active s cn p h)).
Proof.
  intros H. unfold delete_active. destruct (lookup (h, p) (conns s)) as [[|c']|]; try exact H.
  destruct (N.eqb c' cn); [|exact H]. apply NoDup_keys_filter. exact H.
Qed.

Lemma excl_move s cn p h closed : excl_inv (conns s) -> excl_inv (conns (fst (move_to_active s cn p h closed))).
Proof.
  intros H. unfold move_to_active. destruct closed; [exact H|].
  destruct (lookup (h, p) (conns s)) as [[|c']|]; try exact H. apply NoDup_keys_put. exact H.
Qed.

Lemma excl_announce_loop c s h self peers :
  excl_inv (conns s) -> excl_inv (conns (fst (announce_loop c s h self peers))).
Proof.
  revert s. induction peers as [|p t IH]; intros s H; cbn [announce_loop]; [exact H|].
  destruct (N.eqb p self); [apply IH; exact H|].
  destruct (blacklisted s (h, p)); [apply IH; exact H|].
  pose proof (excl_add_pending c s p h [] H) as H'.
  destruct (add_pending_spec c s p h []) as [(Ho & _)|[Ho E]];
    destruct (add_pending c s p h []) as [s' r]; cbn [fst snd] in *; subst.
  - specialize (IH s' H'). destruct (announce_loop c s' h self t) as [s'' d]. exact IH.
  - destruct r; try contradiction; try exact H; apply IH; exact H.
Qed.

Lemma excl_step c s o : excl_inv (conns s) -> excl_inv (conns (fst (step c s o))).
Proof.
  intros H. destruct o; cbn [step].
  - pose proof (excl_add_pending c s p h nbrs H). destruct (add_pending c s p h nbrs). exact H0.
  - apply excl_delete_pending. exact H.
  - pose proof (excl_move s c0 p h closed H). destruct (move_to_active s c0 p h closed). exact H0.
  - apply excl_delete_active. exact H.
  - destruct (blacklist_frame c s p h) as [E _]. destruct (blacklist c s p h). cbn [fst] in *. rewrite E. exact H.
  - exact H.
  - exact H.
  - destruct (negb known); [exact H|]. destruct complete; [exact H|].
    pose proof (excl_announce_loop c s h self peers H). destruct (announce_loop c s h self peers). exact H0.
  - destruct (blacklist_frame c (delete_active s c0 p h) p h) as [E _]. cbn [fst]. rewrite E. apply excl_delete_active. exact H.
  - destruct (blacklist_frame c (delete_pending s p h) p h) as [E _]. cbn [fst]. rewrite E. apply excl_delete_pending. exact H.
  - apply excl_delete_pending. exact H.
  - exact H.
  - pose proof (excl_add_pending c s p h nbrs H). destruct (add_pending c s p h nbrs). exact H0.
  - exact H.
  - exact H.
  - exact H.
  - exact H.
Qed.

Lemma excl_run c s ops : excl_inv (conns s) -> excl_inv (conns (fst (run c s ops))).
Proof.
  revert s. induction ops as [|o t IH]; intros s H; [exact H|].
  rewrite run_cons_fst. apply IH. apply excl_step. exact H.
Qed.

Lemma exclusive_state : forall c ops h p st1 st2,
  let s := fst (run c init ops) in
  In ((h, p), st1) (conns s) -> In ((h, p), st2) (conns s) -> st1 = st2.
Proof.
  intros c ops h p st1 st2 s H1 H2.
  assert (Hnd : excl_inv (conns s)) by (apply excl_run; constructor).
  pose proof (In_lookup _ _ _ Hnd H1) as L1. pose proof (In_lookup _ _ _ Hnd H2) as L2. congruence.
Qed.

Lemma never_pending_and_active : forall c ops h p cn,
  let s := fst (run c init ops) in
  ~ (In ((h, p), Pending) (conns s) /\ In ((h, p), Active cn) (conns s)).
Proof.
  intros c ops h p cn s [H1 H2]. pose proof (exclusive_state c ops h p _ _ H1 H2). discriminate.
Qed.

(* a peer already pending or active for the torrent is refused, and the state does not change *)
Lemma no_double_add : forall c s p h nbrs,
  connected s h p = true ->
  snd (add_pending c s p h nbrs) <> AddOk /\ fst (add_pending c s p h nbrs) = s.
Proof.
  intros c s p h nbrs Hc. destruct (add_pending_spec c s p h nbrs) as [(_ & _ & L & _)|H]; [|exact H].
  unfold connected in Hc. rewrite L in Hc. discriminate.
Qed.

(* promotion to active happens only from pending *)
Lemma active_only_from_pending : forall s cn p h closed,
  snd (move_to_active s cn p h closed) = MoveOk ->
  lookup (h, p) (conns s) = Some Pending /\ closed = false /\
  lookup (h, p) (conns (fst (move_to_active s cn p h closed))) = Some (Active cn).
Proof.
  intros s cn p h closed. unfold move_to_active. destruct closed; [discriminate|].
  destruct (lookup (h, p) (conns s)) as [[|c']|] eqn:L; try discriminate.
  intros _. cbn [fst conns]. rewrite lookup_put_same. repeat split.
Qed.

(* ---------- mutual connections ---------- *)
Lemma mutual_limit_accept : forall c s p h nbrs,
  snd (add_pending c s p h nbrs) = AddOk -> num_mutual s h nbrs <= c_mutual c.
Proof.
  intros c s p h nbrs Ho. destruct (add_pending_spec c s p h nbrs) as [(_ & _ & _ & M & _)|[Hn _]]; [exact M | contradiction].
Qed.

Lemma mutual_limit_refuse : forall c s p h nbrs,
  c_mutual c < num_mutual s h nbrs ->
  snd (add_pending c s p h nbrs) <> AddOk /\ fst (add_pending c s p h nbrs) = s.
Proof.
  intros c s p h nbrs M. destruct (add_pending_spec c s p h nbrs) as [(_ & _ & _ & M' & _)|H]; [lia | exact H].
Qed.

(* num_mutual counts the neighbours that are pending or active for the torrent *)
Lemma num_mutual_meaning : forall s h nbrs,
  num_mutual s h nbrs =
  Z.of_nat (length (filter (fun q => match lookup (h, q) (conns s) with Some _ => true | None => false end) nbrs)).
Proof. reflexivity. Qed.


(* AddPending is accepted exactly when there is room, the peer is new and the mutual limit holds *)
Lemma add_pending_accept_iff : forall c s p h nbrs,
  snd (add_pending c s p h nbrs) = AddOk <->
  count h (conns s) <> c_max c /\ connected s h p = false /\ num_mutual s h nbrs <= c_mutual c.
Proof.
  intros c s p h nbrs. split.
  - intros Ho. destruct (add_pending_spec c s p h nbrs) as [(_ & Hc & L & M & _)|[Hn _]]; [|contradiction].
    unfold connected. rewrite L. repeat split; assumption.
  - intros (Hc & L & M). unfold add_pending, connected in *.
    destruct (Z.eqb_spec (count h (conns s)) (c_max c)) as [E|E]; [contradiction|].
    destruct (lookup (h, p) (conns s)) as [[|cn]|]; try discriminate.
    destruct (Z.ltb_spec (c_mutual c) (num_mutual s h nbrs)) as [M'|M']; [lia | reflexivity].
Qed.

(* ---------- replaced connections ---------- *)
Lemma delete_active_spec : forall s cn p h,
  (lookup (h, p) (conns s) = Some (Active cn) /\ conns (delete_active s cn p h) = del (h, p) (conns s))
  \/ (lookup (h, p) (conns s) <> Some (Active cn) /\ delete_active s cn p h = s).
Proof.
  intros s cn p h. unfold delete_active. destruct (lookup (h, p) (conns s)) as [[|c']|] eqn:L.
  - right. split; [discriminate | reflexivity].
  - destruct (N.eqb_spec c' cn) as [->|Hne].
    + left. split; reflexivity.
    + right. split; [congruence | reflexivity].
  - right. split; [discriminate | reflexivity].
Qed.

Lemma replaced_conn_safe : forall s cn cn' p h,
  lookup (h, p) (conns s) = Some (Active cn') -> cn <> cn' ->
  delete_active s cn p h = s.
Proof.
  intros s cn cn' p h L Hne. destruct (delete_active_spec s cn p h) as [[L' _]|[_ E]]; [congruence | exact E].
Qed.

Lemma delete_active_keeps_other s cn p h k :
  k <> (h, p) -> lookup k (conns (delete_active s cn p h)) = lookup k (conns s).
Proof.
  intros Hne. destruct (delete_active_spec s cn p h) as [[_ E]|[_ E]]; rewrite E; [|reflexivity].
  apply lookup_del_other. exact Hne.
Qed.

Lemma delete_pending_keeps s p h k v :
  lookup k (conns s) = Some (Active v) -> lookup k (conns (delete_pending s p h)) = Some (Active v).
Proof.
  intros L. unfold delete_pending. destruct (lookup (h, p) (conns s)) as [[|c']|] eqn:L2; try exact L.
  cbn [conns]. rewrite lookup_del_other; [exact L|]. intros ->. congruence.
Qed.

Lemma add_pending_keeps c s p h nbrs k v :
  lookup k (conns s) = Some v -> lookup k (conns (fst (add_pending c s p h nbrs))) = Some v.
Proof.
  intros L. destruct (add_pending_spec c s p h nbrs) as [(_ & _ & Ln & _ & E)|[_ E]]; rewrite E; [|exact L].
  cbn [conns]. rewrite lookup_put_other; [exact L|]. intros ->. congruence.
Qed.

Lemma announce_loop_keeps c s h self peers k v :
  lookup k (conns s) = Some v -> lookup k (conns (fst (announce_loop c s h self peers))) = Some v.
Proof.
  revert s. induction peers as [|p t IH]; intros s L; cbn [announce_loop]; [exact L|].
  destruct (N.eqb p self); [apply IH; exact L|].
  destruct (blacklisted s (h, p)); [apply IH; exact L|].
  pose proof (add_pending_keeps c s p h [] k v L) as L'.
  destruct (add_pending_spec c s p h []) as [(Ho & _)|[Ho E]];
    destruct (add_pending c s p h []) as [s' r]; cbn [fst snd] in *; subst.
  - specialize (IH s' L'). destruct (announce_loop c s' h self t) as [s'' d]. exact IH.
  - destruct r; try contradiction; try exact L; apply IH; exact L.
Qed.

(* an active connection stays until ITS OWN removal is requested *)
Lemma active_until_own_close_step : forall c s o h p cn,
  lookup (h, p) (conns s) = Some (Active cn) ->
  closes_conn o cn p h = false ->
  lookup (h, p) (conns (fst (step c s o))) = Some (Active cn).
Proof.
  intros c s o h p cn L Hc. destruct o; cbn [step closes_conn] in *.
  - pose proof (add_pending_keeps c s p0 h0 nbrs _ _ L). destruct (add_pending c s p0 h0 nbrs). exact H.
  - apply delete_pending_keeps. exact L.
  - unfold move_to_active. destruct closed; [exact L|].
    destruct (lookup (h0, p0) (conns s)) as [[|c']|] eqn:L2; try exact L.
    cbn [fst conns]. rewrite lookup_put_other; [exact L|]. intros Heq. inversion Heq; subst. congruence.
  - destruct (delete_active_spec s c0 p0 h0) as [[L2 E]|[_ E]]; cbn [fst]; rewrite E; [|exact L].
    rewrite lookup_del_other; [exact L|]. intros Heq. inversion Heq; subst.
    assert (cn = c0) by congruence. subst. rewrite !N.eqb_refl in Hc. discriminate.
  - destruct (blacklist_frame c s p0 h0) as [E _]. destruct (blacklist c s p0 h0). cbn [fst] in *. rewrite E. exact L.
  - exact L.
  - exact L.
  - destruct (negb known); [exact L|]. destruct complete; [exact L|].
    pose proof (announce_loop_keeps c s h0 self peers _ _ L). destruct (announce_loop c s h0 self peers). exact H.
  - destruct (blacklist_frame c (delete_active s c0 p0 h0) p0 h0) as [E _]. cbn [fst]. rewrite E.
    destruct (delete_active_spec s c0 p0 h0) as [[L2 E2]|[_ E2]]; rewrite E2; [|exact L].
    rewrite lookup_del_other; [exact L|]. intros Heq. inversion Heq; subst.
    assert (cn = c0) by congruence. subst. rewrite !N.eqb_refl in Hc. discriminate.
  - destruct (blacklist_frame c (delete_pending s p0 h0) p0 h0) as [E _]. cbn [fst]. rewrite E.
    apply delete_pending_keeps. exact L.
  - apply delete_pending_keeps. exact L.
  - exact L.
  - pose proof (add_pending_keeps c s p0 h0 nbrs _ _ L). destruct (add_pending c s p0 h0 nbrs). exact H.
  - exact L.
  - exact L.
  - exact L.
  - exact L.
Qed.

Lemma active_until_own_close : forall c s ops h p cn,
  lookup (h, p) (conns s) = Some (Active cn) ->
  forallb (fun o => negb (closes_conn o cn p h)) ops = true ->
  lookup (h, p) (conns (fst (run c s ops))) = Some (Active cn).
Proof.
  intros c s ops. revert s. induction ops as [|o t IH]; intros s h p cn L Hall; [exact L|].
  cbn [forallb] in Hall. apply andb_true_iff in Hall. destruct Hall as [Ho Ht].
  rewrite run_cons_fst. apply IH; [|exact Ht].
  apply active_until_own_close_step; [exact L|]. destruct (closes_conn o cn p h); [discriminate | reflexivity].
Qed.

(* the history form of the clause: the peer reconnects with cn' while the close of the older
   connection cn is still in flight; nothing but a close of cn' itself removes cn' *)
Lemma replaced_conn_history : forall c ops1 ops2 cn' p h,
  let s1 := fst (run c init ops1) in
  snd (step c s1 (MoveToActive cn' p h false)) = OMove MoveOk ->
  forallb (fun o => negb (closes_conn o cn' p h)) ops2 = true ->
  lookup (h, p) (conns (fst (run c init (ops1 ++ MoveToActive cn' p h false :: ops2)))) = Some (Active cn').
Proof.
  intros c ops1 ops2 cn' p h s1 Hok Hall.
  rewrite run_app_fst. fold s1. rewrite run_cons_fst. apply active_until_own_close; [|exact Hall].
  cbn [step] in *. pose proof (active_only_from_pending s1 cn' p h false) as H.
  destruct (move_to_active s1 cn' p h false) as [s2 r]. cbn [fst snd] in *.
  apply H. inversion Hok. reflexivity.
Qed.

(* ---------- the dial decision ---------- *)
Lemma announce_loop_dials : forall c s h self peers q,
  In q (snd (announce_loop c s h self peers)) ->
  In q peers /\ q <> self /\ blacklisted s (h, q) = false /\ lookup (h, q) (conns s) = None.
Proof.
  intros c s h self peers. revert s. induction peers as [|p t IH]; intros s q; cbn [announce_loop]; [intros []|].
  destruct (N.eqb_spec p self) as [Hs|Hs].
  { intros Hq. destruct (IH s q Hq) as (A & B & C & D). repeat split; try assumption. right. exact A. }
  destruct (blacklisted s (h, p)) eqn:Hb.
  { intros Hq. destruct (IH s q Hq) as (A & B & C & D). repeat split; try assumption. right. exact A. }
  destruct (add_pending_spec c s p h []) as [(Ho & _ & Ln & _ & E)|[Ho E]];
    destruct (add_pending c s p h []) as [s' r]; cbn [fst snd] in *; subst.
  - pose proof (IH (mk (put (h, p) Pending (conns s)) (bl s) (now s)) q) as IH'.
    destruct (announce_loop c _ h self t) as [s'' d]. cbn [snd] in *. intros [->|Hq].
    + repeat split; try assumption. left. reflexivity.
    + destruct (IH' Hq) as (A & B & C & D). cbn [conns] in D.
      assert (Hne : q <> p).
      { intros ->. rewrite lookup_put_same in D. discriminate. }
      rewrite lookup_put_other in D by (intros Heq; inversion Heq; contradiction).
      repeat split; try assumption. right. exact A.
  - destruct r; try contradiction; try (intros []);
      intros Hq; destruct (IH s q Hq) as (A & B & C & D); repeat split; try assumption; right; exact A.
Qed.

Lemma blacklist_no_dial : forall c s h known complete self peers q,
  match snd (step c s (Announce h known complete self peers)) with
  | ODial d => In q d -> blacklisted s (h, q) = false /\ q <> self /\ connected s h q = false
  | _ => False
  end.
Proof.
  intros c s h known complete self peers q. cbn [step].
  destruct (negb known); [cbn [snd]; intros []|]. destruct complete; [cbn [snd]; intros []|].
  pose proof (announce_loop_dials c s h self peers q) as H.
  destruct (announce_loop c s h self peers) as [s' d]. cbn [snd] in *. intros Hq.
  destruct (H Hq) as (_ & B & C & D). unfold connected. rewrite D. repeat split; assumption.
Qed.

(* every dialled peer holds a pending slot afterwards (so dials are subject to the capacity) *)
Lemma announce_loop_state : forall c s h self peers,
  fst (announce_loop c s h self peers) = set_pending s h (snd (announce_loop c s h self peers)).
Proof.
  intros c s h self peers. revert s. induction peers as [|p t IH]; intros s; cbn [announce_loop]; [reflexivity|].
  destruct (N.eqb p self); [apply IH|].
  destruct (blacklisted s (h, p)); [apply IH|].
  destruct (add_pending_spec c s p h []) as [(Ho & _ & Ln & _ & E)|[Ho E]];
    destruct (add_pending c s p h []) as [s' r]; cbn [fst snd] in *; subst.
  - specialize (IH (mk (put (h, p) Pending (conns s)) (bl s) (now s))).
    destruct (announce_loop c _ h self t) as [s'' d]. cbn [fst snd] in *. rewrite IH. reflexivity.
  - destruct r; try contradiction; try reflexivity; apply IH.
Qed.

Lemma set_pending_lookup : forall d s h q, In q d -> lookup (h, q) (conns (set_pending s h d)) = Some Pending.
Proof.
  induction d as [|p t IH]; intros s h q; [intros []|]. unfold set_pending. cbn [fold_left].
  fold (set_pending (mk (put (h, p) Pending (conns s)) (bl s) (now s)) h t).
  destruct (in_dec N.eq_dec q t) as [Hin|Hnin].
  - intros _. apply IH. exact Hin.
  - intros [->|Hq]; [|contradiction].
    assert (G : forall t s, ~ In q t -> lookup (h, q) (conns (set_pending s h t)) = lookup (h, q) (conns s)).
    { clear. induction t as [|p t IH]; intros s Hn; [reflexivity|]. unfold set_pending. cbn [fold_left].
      fold (set_pending (mk (put (h, p) Pending (conns s)) (bl s) (now s)) h t).
      rewrite IH by (intros H; apply Hn; right; exact H). cbn [conns].
      apply lookup_put_other. intros Heq. inversion Heq; subst. apply Hn. left. reflexivity. }
    rewrite G by exact Hnin. cbn [conns]. apply lookup_put_same.
Qed.

Lemma dialled_are_pending : forall c s h self peers q,
  In q (snd (announce_loop c s h self peers)) ->
  lookup (h, q) (conns (fst (announce_loop c s h self peers))) = Some Pending.
Proof. intros. rewrite announce_loop_state. apply set_pending_lookup. assumption. Qed.

(* ---------- blacklist: entries last exactly BlacklistDuration ---------- *)
Lemma now_step c s o : now s <= now (fst (step c s o)).
Proof.
  destruct o; cbn [step].
  - destruct (add_pending_frame c s p h nbrs) as [_ E]. destruct (add_pending c s p h nbrs). cbn [fst] in *. lia.
  - destruct (delete_pending_frame s p h) as [_ E]. cbn [fst]. lia.
  - unfold move_to_active. destruct closed; [cbn; lia|]. destruct (lookup (h, p) (conns s)) as [[|c']|]; cbn; lia.
  - destruct (delete_active_frame s c0 p h) as [_ E]. cbn [fst]. lia.
  - destruct (blacklist_frame c s p h) as [_ E]. destruct (blacklist c s p h). cbn [fst] in *. lia.
  - cbn. lia.
  - cbn. lia.
  - destruct (negb known); [cbn; lia|]. destruct complete; [cbn; lia|].
    destruct (announce_loop_frame c s h self peers) as [_ E]. destruct (announce_loop c s h self peers). cbn [fst] in *. lia.
  - destruct (blacklist_frame c (delete_active s c0 p h) p h) as [_ E]. destruct (delete_active_frame s c0 p h) as [_ E2]. cbn [fst]. lia.
  - destruct (blacklist_frame c (delete_pending s p h) p h) as [_ E]. destruct (delete_pending_frame s p h) as [_ E2]. cbn [fst]. lia.
  - destruct (delete_pending_frame s p h) as [_ E]. cbn [fst]. lia.
  - cbn. lia.
  - destruct (add_pending_frame c s p h nbrs) as [_ E]. destruct (add_pending c s p h nbrs). cbn [fst] in *. lia.
  - cbn; lia.
  - cbn; lia.
  - cbn; lia.
  - cbn; lia.
Qed.

Lemma now_run c s ops : now s <= now (fst (run c s ops)).
Proof.
  revert s. induction ops as [|o t IH]; intros s; [cbn; lia|].
  rewrite run_cons_fst. pose proof (now_step c s o). specialize (IH (fst (step c s o))). lia.
Qed.

(* the blacklist component of a step *)
Lemma lookup_clear k h l : fst k <> h ->
  lookup k (filter (fun e : key * Z => negb (N.eqb h (fst (fst e)))) l) = lookup k l.
Proof.
  intros Hne. induction l as [|[k' v'] t IH]; [reflexivity|]. cbn [filter fst lookup].
  destruct (N.eqb_spec h (fst k')) as [E|E]; cbn [negb lookup].
  - assert (keyeqb k k' = false) as -> by (apply keyeqb_neq; intros ->; congruence). exact IH.
  - rewrite IH. reflexivity.
Qed.

Lemma lookup_clear_same k h l : fst k = h ->
  lookup k (filter (fun e : key * Z => negb (N.eqb h (fst (fst e)))) l) = None.
Proof.
  intros He. induction l as [|[k' v'] t IH]; [reflexivity|]. cbn [filter fst].
  destruct (N.eqb_spec h (fst k')) as [E|E]; cbn [negb lookup]; [exact IH|].
  assert (keyeqb k k' = false) as -> by (apply keyeqb_neq; intros ->; congruence). exact IH.
Qed.

Lemma blacklist_bl c s p h :
  bl (fst (blacklist c s p h)) =
  if c_nobl c then bl s else if blacklisted s (h, p) then bl s else put (h, p) (now s + c_dur c) (bl s).
Proof. unfold blacklist. destruct (c_nobl c); [reflexivity|]. destruct (blacklisted s (h, p)); reflexivity. Qed.

(* how one step changes the entry of key (h,p) *)
Lemma bl_step : forall c s o h p,
  let s' := fst (step c s o) in
  (clears_hash o h = true /\ lookup (h, p) (bl s') = None)
  \/ (clears_hash o h = false /\
      (lookup (h, p) (bl s') = lookup (h, p) (bl s)
       \/ (blacklists_key o p h = true /\ c_nobl c = false /\ blacklisted s (h, p) = false /\
           lookup (h, p) (bl s') = Some (now s + c_dur c)))).
Proof.
  intros c s o h p. destruct o; cbn [step clears_hash blacklists_key].
  - right. split; [reflexivity|]. left. destruct (add_pending_frame c s p0 h0 nbrs) as [E _]. destruct (add_pending c s p0 h0 nbrs). cbn [fst] in *. rewrite E. reflexivity.
  - right. split; [reflexivity|]. left. destruct (delete_pending_frame s p0 h0) as [E _]. cbn [fst]. rewrite E. reflexivity.
  - right. split; [reflexivity|]. left. unfold move_to_active. destruct closed; [reflexivity|]. destruct (lookup (h0, p0) (conns s)) as [[|c']|]; reflexivity.
  - right. split; [reflexivity|]. left. destruct (delete_active_frame s c0 p0 h0) as [E _]. cbn [fst]. rewrite E. reflexivity.
  - right. split; [reflexivity|].
    pose proof (blacklist_bl c s p0 h0) as E. destruct (blacklist c s p0 h0) as [s2 r]. cbn [fst] in *. rewrite E.
    destruct (c_nobl c) eqn:Hn; [left; reflexivity|]. destruct (blacklisted s (h0, p0)) eqn:Hb; [left; reflexivity|].
    destruct (N.eqb_spec p p0) as [->|Hp]; destruct (N.eqb_spec h h0) as [->|Hh]; cbn [andb].
    + right. rewrite lookup_put_same. repeat split; assumption.
    + left. apply lookup_put_other. congruence.
    + left. apply lookup_put_other. congruence.
    + left. apply lookup_put_other. congruence.
  - cbn [fst clear_blacklist bl]. destruct (N.eqb_spec h h0) as [->|Hh].
    + left. split; [reflexivity|]. apply lookup_clear_same. reflexivity.
    + right. split; [reflexivity|]. left. apply lookup_clear. cbn [fst]. congruence.
  - right. split; [reflexivity|]. left. reflexivity.
  - right. split; [reflexivity|]. left. destruct (negb known); [reflexivity|]. destruct complete; [reflexivity|].
    destruct (announce_loop_frame c s h0 self peers) as [E _]. destruct (announce_loop c s h0 self peers). cbn [fst] in *. rewrite E. reflexivity.
  - right. split; [reflexivity|]. cbn [fst].
    pose proof (blacklist_bl c (delete_active s c0 p0 h0) p0 h0) as E. rewrite E.
    destruct (delete_active_frame s c0 p0 h0) as [Eb En].
    rewrite (blacklisted_frame _ _ _ Eb En), Eb, En.
    destruct (c_nobl c) eqn:Hn; [left; reflexivity|]. destruct (blacklisted s (h0, p0)) eqn:Hb; [left; reflexivity|].
    destruct (N.eqb_spec p p0) as [->|Hp]; destruct (N.eqb_spec h h0) as [->|Hh]; cbn [andb].
    + right. rewrite lookup_put_same. repeat split; assumption.
    + left. apply lookup_put_other. congruence.
    + left. apply lookup_put_other. congruence.
    + left. apply lookup_put_other. congruence.
  - right. split; [reflexivity|]. cbn [fst].
    pose proof (blacklist_bl c (delete_pending s p0 h0) p0 h0) as E. rewrite E.
    destruct (delete_pending_frame s p0 h0) as [Eb En].
    rewrite (blacklisted_frame _ _ _ Eb En), Eb, En.
    destruct (c_nobl c) eqn:Hn; [left; reflexivity|]. destruct (blacklisted s (h0, p0)) eqn:Hb; [left; reflexivity|].
    destruct (N.eqb_spec p p0) as [->|Hp]; destruct (N.eqb_spec h h0) as [->|Hh]; cbn [andb].
    + right. rewrite lookup_put_same. repeat split; assumption.
    + left. apply lookup_put_other. congruence.
    + left. apply lookup_put_other. congruence.
    + left. apply lookup_put_other. congruence.
  - right. split; [reflexivity|]. left. destruct (delete_pending_frame s p0 h0) as [E _]. cbn [fst]. rewrite E. reflexivity.
  - cbn [fst clear_blacklist bl]. destruct (N.eqb_spec h h0) as [->|Hh].
    + left. split; [reflexivity|]. apply lookup_clear_same. reflexivity.
    + right. split; [reflexivity|]. left. apply lookup_clear. cbn [fst]. congruence.
  - right. split; [reflexivity|]. left. destruct (add_pending_frame c s p0 h0 nbrs) as [E _]. destruct (add_pending c s p0 h0 nbrs). cbn [fst] in *. rewrite E. reflexivity.
  - right. split; [reflexivity|]. left. reflexivity.
  - right. split; [reflexivity|]. left. reflexivity.
  - right. split; [reflexivity|]. left. reflexivity.
  - right. split; [reflexivity|]. left. reflexivity.
Qed.

(* an accepted blacklisting: the entry is now + duration *)
Lemma blacklisting_accepted : forall c s o p h,
  blacklists_key o p h = true -> c_nobl c = false -> blacklisted s (h, p) = false ->
  lookup (h, p) (bl (fst (step c s o))) = Some (now s + c_dur c) /\ now (fst (step c s o)) = now s.
Proof.
  intros c s o p h Hk Hn Hb. destruct o; cbn [blacklists_key] in Hk; try discriminate;
    apply andb_true_iff in Hk; destruct Hk as [Hp Hh]; apply N.eqb_eq in Hp, Hh; subst; cbn [step].
  - pose proof (blacklist_bl c s p0 h0) as E. destruct (blacklist_frame c s p0 h0) as [_ En].
    destruct (blacklist c s p0 h0) as [s2 r]. cbn [fst] in *. rewrite E, Hn, Hb, lookup_put_same. split; [reflexivity | exact En].
  - cbn [fst]. pose proof (blacklist_bl c (delete_active s c0 p0 h0) p0 h0) as E.
    destruct (delete_active_frame s c0 p0 h0) as [Eb En]. destruct (blacklist_frame c (delete_active s c0 p0 h0) p0 h0) as [_ En2].
    rewrite E, (blacklisted_frame _ _ _ Eb En), Hn, Hb, lookup_put_same, En, En2. split; [reflexivity | exact En].
  - cbn [fst]. pose proof (blacklist_bl c (delete_pending s p0 h0) p0 h0) as E.
    destruct (delete_pending_frame s p0 h0) as [Eb En]. destruct (blacklist_frame c (delete_pending s p0 h0) p0 h0) as [_ En2].
    rewrite E, (blacklisted_frame _ _ _ Eb En), Hn, Hb, lookup_put_same, En, En2. split; [reflexivity | exact En].
Qed.

(* while torrent h's blacklist is not cleared, the entry never falls below t0 + duration *)
Lemma bl_entry_lower_bound : forall c ops s h p T,
  (exists e, lookup (h, p) (bl s) = Some e /\ T <= e) -> T <= now s + c_dur c ->
  forallb (fun o => negb (clears_hash o h)) ops = true ->
  exists e, lookup (h, p) (bl (fst (run c s ops))) = Some e /\ T <= e.
Proof.
  intros c ops. induction ops as [|o t IH]; intros s h p T He Hnow Hall; [exact He|].
  cbn [forallb] in Hall. apply andb_true_iff in Hall. destruct Hall as [Ho Ht].
  rewrite run_cons_fst. apply IH; [| pose proof (now_step c s o); lia | exact Ht].
  destruct (bl_step c s o h p) as [[Hc _]|[_ [E|(_ & _ & _ & E)]]].
  - rewrite Hc in Ho. discriminate.
  - rewrite E. exact He.
  - exists (now s + c_dur c). split; [exact E | exact Hnow].
Qed.

Lemma blacklist_until_expiry : forall c ops1 o ops2 p h,
  let s1 := fst (run c init ops1) in
  let s3 := fst (run c init (ops1 ++ o :: ops2)) in
  c_nobl c = false ->
  blacklists_key o p h = true -> blacklisted s1 (h, p) = false ->       (* the blacklisting is accepted at time now s1 *)
  forallb (fun o => negb (clears_hash o h)) ops2 = true ->              (* torrent h's blacklist is not cleared *)
  now s3 < now s1 + c_dur c ->                                          (* not yet expired *)
  blacklisted s3 (h, p) = true.
Proof.
  intros c ops1 o ops2 p h s1 s3 Hn Hk Hb Hall Hlt.
  subst s3. rewrite run_app_fst in *. fold s1 in Hlt |- *. rewrite run_cons_fst in *.
  destruct (blacklisting_accepted c s1 o p h Hk Hn Hb) as [E En].
  destruct (bl_entry_lower_bound c ops2 (fst (step c s1 o)) h p (now s1 + c_dur c)) as [e [Le Hle]].
  - exists (now s1 + c_dur c). split; [exact E | lia].
  - rewrite En. lia.
  - exact Hall.
  - unfold blacklisted. rewrite Le. apply Z.ltb_lt. lia.
Qed.

(* the entry is exactly t0 + duration while nothing else blacklists or clears it *)
Lemma bl_entry_exact : forall c ops s h p e,
  lookup (h, p) (bl s) = e ->
  forallb (fun o => negb (clears_hash o h) && negb (blacklists_key o p h)) ops = true ->
  lookup (h, p) (bl (fst (run c s ops))) = e.
Proof.
  intros c ops. induction ops as [|o t IH]; intros s h p e He Hall; [exact He|].
  cbn [forallb] in Hall. apply andb_true_iff in Hall. destruct Hall as [Ho Ht].
  apply andb_true_iff in Ho. destruct Ho as [Hc Hk].
  rewrite run_cons_fst. apply IH; [|exact Ht].
  destruct (bl_step c s o h p) as [[Hc' _]|[_ [E|(Hk' & _)]]].
  - rewrite Hc' in Hc. discriminate.
  - rewrite E. exact He.
  - rewrite Hk' in Hk. discriminate.
Qed.

Lemma blacklist_duration : forall c ops1 o ops2 p h,
  let s1 := fst (run c init ops1) in
  let s3 := fst (run c init (ops1 ++ o :: ops2)) in
  c_nobl c = false ->
  blacklists_key o p h = true -> blacklisted s1 (h, p) = false ->
  forallb (fun o => negb (clears_hash o h) && negb (blacklists_key o p h)) ops2 = true ->
  blacklisted s3 (h, p) = (now s3 <? now s1 + c_dur c).
Proof.
  intros c ops1 o ops2 p h s1 s3 Hn Hk Hb Hall.
  subst s3. rewrite run_app_fst. fold s1. rewrite run_cons_fst.
  destruct (blacklisting_accepted c s1 o p h Hk Hn Hb) as [E _].
  pose proof (bl_entry_exact c ops2 (fst (step c s1 o)) h p _ E Hall) as L.
  unfold blacklisted. rewrite L.
  destruct (Z.ltb_spec 0 (now s1 + c_dur c - now (fst (run c (fst (step c s1 o)) ops2))));
    destruct (Z.ltb_spec (now (fst (run c (fst (step c s1 o)) ops2))) (now s1 + c_dur c)); try reflexivity; lia.
Qed.

(* nobody is blacklisted without a cause *)
Lemma not_blacklisted_without_cause : forall c ops p h,
  forallb (fun o => negb (blacklists_key o p h)) ops = true ->
  blacklisted (fst (run c init ops)) (h, p) = false.
Proof.
  intros c ops p h Hall.
  assert (G : forall ops s, lookup (h, p) (bl s) = None ->
              forallb (fun o => negb (blacklists_key o p h)) ops = true ->
              lookup (h, p) (bl (fst (run c s ops))) = None).
  { clear. induction ops as [|o t IH]; intros s L Hall; [exact L|].
    cbn [forallb] in Hall. apply andb_true_iff in Hall. destruct Hall as [Ho Ht].
    rewrite run_cons_fst. apply IH; [|exact Ht].
    destruct (bl_step c s o h p) as [[_ E]|[_ [E|(Hk' & _)]]].
    - exact E.
    - rewrite E. exact L.
    - rewrite Hk' in Ho. discriminate. }
  unfold blacklisted. rewrite (G ops init eq_refl Hall). reflexivity.
Qed.


(* conversely: whoever is blacklisted was blacklisted by an accepted blacklisting that is still
   within its duration and has not been cleared since *)
Lemma bl_entry_has_cause : forall c ops h p e,
  lookup (h, p) (bl (fst (run c init ops))) = Some e ->
  exists ops1 o ops2,
    ops = ops1 ++ o :: ops2 /\ blacklists_key o p h = true /\ c_nobl c = false /\
    blacklisted (fst (run c init ops1)) (h, p) = false /\
    forallb (fun o => negb (clears_hash o h)) ops2 = true /\
    e = now (fst (run c init ops1)) + c_dur c.
Proof.
  intros c ops h p. induction ops as [|o t IH] using rev_ind; intros e L; [discriminate|].
  rewrite run_snoc_fst in L.
  destruct (bl_step c (fst (run c init t)) o h p) as [[_ E]|[Hc [E|(Hk & Hn & Hb & E)]]].
  - rewrite E in L. discriminate.
  - rewrite E in L. destruct (IH e L) as (ops1 & o1 & ops2 & -> & Hk & Hn & Hb & Hall & He).
    exists ops1, o1, (ops2 ++ [o]). rewrite <- app_assoc. cbn [app]. repeat split; try assumption.
    rewrite forallb_app, Hall. cbn [forallb]. rewrite Hc. reflexivity.
  - rewrite E in L. inversion L; subst. exists t, o, []. repeat split; assumption.
Qed.

Lemma blacklisted_has_cause : forall c ops h p,
  let s3 := fst (run c init ops) in
  blacklisted s3 (h, p) = true ->
  exists ops1 o ops2,
    ops = ops1 ++ o :: ops2 /\ blacklists_key o p h = true /\ c_nobl c = false /\
    blacklisted (fst (run c init ops1)) (h, p) = false /\
    forallb (fun o => negb (clears_hash o h)) ops2 = true /\
    now s3 < now (fst (run c init ops1)) + c_dur c.
Proof.
  intros c ops h p s3 Hb. unfold blacklisted in Hb.
  destruct (lookup (h, p) (bl s3)) as [e|] eqn:L; [|discriminate].
  destruct (bl_entry_has_cause c ops h p e L) as (ops1 & o & ops2 & E & Hk & Hn & Hb1 & Hall & He).
  exists ops1, o, ops2. repeat split; try assumption. apply Z.ltb_lt in Hb. lia.
Qed.

(* clearing a torrent's blacklist (ClearBlacklist, or its completion) un-blacklists all its peers *)
Lemma clear_unblacklists : forall c s o h p,
  clears_hash o h = true -> blacklisted (fst (step c s o)) (h, p) = false.
Proof.
  intros c s o h p Hc. destruct (bl_step c s o h p) as [[_ E]|[Hc' _]].
  - unfold blacklisted. rewrite E. reflexivity.
  - congruence.
Qed.

(* with DisableBlacklist nobody is ever blacklisted *)
Lemma disabled_never_blacklisted : forall c ops k,
  c_nobl c = true -> blacklisted (fst (run c init ops)) k = false.
Proof.
  intros c ops [h p] Hn.
  assert (G : forall ops s, lookup (h, p) (bl s) = None -> lookup (h, p) (bl (fst (run c s ops))) = None).
  { clear - Hn. induction ops as [|o t IH]; intros s L; [exact L|].
    rewrite run_cons_fst. apply IH.
    destruct (bl_step c s o h p) as [[_ E]|[_ [E|(_ & Hn' & _)]]].
    - exact E.
    - rewrite E. exact L.
    - congruence. }
  unfold blacklisted. rewrite (G ops init eq_refl). reflexivity.
Qed.

(* the two parts together: a blacklisted peer is not dialled before its entry expires *)
Lemma blacklisted_not_dialled : forall c ops1 o ops2 p h known complete self peers,
  let s1 := fst (run c init ops1) in
  let s3 := fst (run c init (ops1 ++ o :: ops2)) in
  c_nobl c = false ->
  blacklists_key o p h = true -> blacklisted s1 (h, p) = false ->
  forallb (fun o => negb (clears_hash o h)) ops2 = true ->
  now s3 < now s1 + c_dur c ->
  match snd (step c s3 (Announce h known complete self peers)) with
  | ODial d => ~ In p d
  | _ => False
  end.
Proof.
  intros c ops1 o ops2 p h known complete self peers s1 s3 Hn Hk Hb Hall Hlt.
  pose proof (blacklist_until_expiry c ops1 o ops2 p h Hn Hk Hb Hall Hlt) as B. fold s3 in B.
  pose proof (blacklist_no_dial c s3 h known complete self peers p) as D.
  destruct (snd (step c s3 (Announce h known complete self peers))); try exact D.
  intros Hin. destruct (D Hin) as [B' _]. congruence.
Qed.

(* ---------- the executable oracle is sound on the model ---------- *)
Lemma nodupN_true l : NoDup l -> nodupN l = true.
Proof.
  induction l as [|x t IH]; intros H; [reflexivity|]. inversion H as [|? ? Hx Ht]; subst.
  cbn [nodupN]. rewrite IH by exact Ht. rewrite andb_true_r. apply negb_true_iff.
  destruct (existsb (N.eqb x) t) eqn:E; [|reflexivity].
  apply existsb_exists in E. destruct E as [y [Hy He]]. apply N.eqb_eq in He. subst. contradiction.
Qed.

Lemma announce_loop_nodup c s h self peers : NoDup (snd (announce_loop c s h self peers)).
Proof.
  revert s. induction peers as [|p t IH]; intros s; cbn [announce_loop]; [constructor|].
  destruct (N.eqb p self); [apply IH|].
  destruct (blacklisted s (h, p)); [apply IH|].
  destruct (add_pending_spec c s p h []) as [(Ho & _ & Ln & _ & E)|[Ho E]];
    destruct (add_pending c s p h []) as [s' r]; cbn [fst snd] in *; subst.
  - pose proof (IH (mk (put (h, p) Pending (conns s)) (bl s) (now s))) as IH'.
    pose proof (announce_loop_dials c (mk (put (h, p) Pending (conns s)) (bl s) (now s)) h self t p) as D.
    destruct (announce_loop c _ h self t) as [s'' d]. cbn [snd] in *. constructor; [|exact IH'].
    intros Hin. destruct (D Hin) as (_ & _ & _ & L). cbn [conns] in L. rewrite lookup_put_same in L. discriminate.
  - destruct r; try contradiction; try constructor; apply IH.
Qed.

Lemma set_pending_count : forall d s h,
  NoDup d -> (forall q, In q d -> lookup (h, q) (conns s) = None) ->
  count h (conns (set_pending s h d)) = count h (conns s) + Z.of_nat (length d).
Proof.
  induction d as [|p t IH]; intros s h Hnd Hfree; [cbn; lia|].
  unfold set_pending. cbn [fold_left]. fold (set_pending (mk (put (h, p) Pending (conns s)) (bl s) (now s)) h t).
  inversion Hnd as [|? ? Hp Ht]; subst. rewrite IH; [| exact Ht |].
  - cbn [conns length]. rewrite count_put_new by (apply Hfree; left; reflexivity). lia.
  - intros q Hq. cbn [conns]. rewrite lookup_put_other; [apply Hfree; right; exact Hq|].
    intros Heq. inversion Heq; subst. contradiction.
Qed.

Lemma next_is_step : forall c s o, next c s o (snd (step c s o)) = fst (step c s o).
Proof.
  intros c s o. destruct o; cbn [step next]; try reflexivity.
  - destruct (add_pending_spec c s p h nbrs) as [(Ho & _ & _ & _ & E)|[Ho E]];
      destruct (add_pending c s p h nbrs) as [s' r]; cbn [fst snd] in *; subst; [reflexivity|].
    destruct r; try contradiction; reflexivity.
  - unfold move_to_active. destruct closed; [reflexivity|].
    destruct (lookup (h, p) (conns s)) as [[|c']|]; reflexivity.
  - unfold blacklist. destruct (c_nobl c); cbn [fst snd]; [reflexivity|].
    destruct (blacklisted s (h, p)); reflexivity.
  - destruct (negb known); [reflexivity|]. destruct complete; [reflexivity|].
    pose proof (announce_loop_state c s h self peers) as E.
    destruct (announce_loop c s h self peers) as [s' d]. cbn [fst snd] in *. symmetry. exact E.

  - destruct (add_pending_spec c s p h nbrs) as [(Ho & _ & _ & _ & E)|[Ho E]];
      destruct (add_pending c s p h nbrs) as [s' r]; cbn [fst snd] in *; subst; [reflexivity|].
    destruct r; try contradiction; reflexivity.
Qed.

Lemma cap_clause_nil c s h :
  (1 <= c_max c -> cap_inv c (conns s)) ->
  (c_max c <? 1) || (count h (conns s) + Z.of_nat (length (@nil N)) <=? c_max c) = true.
Proof.
  intros Hcap. destruct (Z.ltb_spec (c_max c) 1) as [Hm|Hm]; [reflexivity|]. cbn [orb length].
  apply Z.leb_le. specialize (Hcap Hm h). lia.
Qed.

Lemma clause_ok_step : forall c s o,
  (1 <= c_max c -> cap_inv c (conns s)) -> clause_ok c s o (snd (step c s o)) = true.
Proof.
  intros c s o Hcap. destruct o; cbn [step clause_ok]; try reflexivity.
  - destruct (add_pending_spec c s p h nbrs) as [(Ho & Hc & Ln & M & E)|[Ho E]];
      destruct (add_pending c s p h nbrs) as [s' r]; cbn [fst snd] in *; subst.
    + unfold connected. rewrite Ln. cbn [negb andb]. rewrite andb_true_r.
      apply andb_true_iff. split; [|apply Z.leb_le; exact M].
      destruct (Z.ltb_spec (c_max c) 1) as [Hm|Hm]; [reflexivity|]. cbn [orb].
      apply Z.ltb_lt. specialize (Hcap Hm h). lia.
    + destruct r; try contradiction; reflexivity.
  - unfold move_to_active. destruct closed; [reflexivity|].
    destruct (lookup (h, p) (conns s)) as [[|c']|] eqn:L; cbn [snd]; reflexivity.
  - unfold blacklist. destruct (c_nobl c) eqn:Hn; cbn [snd]; [reflexivity|].
    destruct (blacklisted s (h, p)) eqn:Hb; cbn [snd]; reflexivity.
  - destruct (negb known); [cbn [snd nodupN forallb andb]; apply cap_clause_nil; exact Hcap|].
    destruct complete; [cbn [snd nodupN forallb andb]; apply cap_clause_nil; exact Hcap|].
    pose proof (announce_loop_dials c s h self peers) as D.
    pose proof (announce_loop_nodup c s h self peers) as ND.
    pose proof (announce_loop_state c s h self peers) as ST.
    pose proof (cap_announce_loop c s h self peers) as CA.
    destruct (announce_loop c s h self peers) as [s' d]. cbn [fst snd] in *.
    rewrite (nodupN_true d ND). cbn [andb].
    apply andb_true_iff. split.
    + apply forallb_forall. intros q Hq. destruct (D q Hq) as (A & B & C & L).
      unfold connected. rewrite L, C. cbn [negb andb]. rewrite !andb_true_r.
      apply andb_true_iff. split.
      * apply existsb_exists. exists q. split; [exact A | apply N.eqb_refl].
      * apply negb_true_iff. apply N.eqb_neq. exact B.
    + destruct (Z.ltb_spec (c_max c) 1) as [Hm|Hm]; [reflexivity|]. cbn [orb]. apply Z.leb_le.
      rewrite <- (set_pending_count d s h ND) by (intros q Hq; destruct (D q Hq) as (_ & _ & _ & L); exact L).
      rewrite <- ST. apply CA. apply Hcap. exact Hm.
  - destruct (add_pending_spec c s p h nbrs) as [(Ho & Hc & Ln & M & E)|[Ho E]];
      destruct (add_pending c s p h nbrs) as [s' r]; cbn [fst snd] in *; subst.
    + unfold connected. rewrite Ln. cbn [negb andb]. rewrite andb_true_r.
      apply andb_true_iff. split; [|apply Z.leb_le; exact M].
      destruct (Z.ltb_spec (c_max c) 1) as [Hm|Hm]; [reflexivity|]. cbn [orb].
      apply Z.ltb_lt. specialize (Hcap Hm h). lia.
    + destruct r; try contradiction; reflexivity.
  - unfold listN_eqb. generalize (sortN (active_ids (conns s))). intros l. induction l as [|x t IH]; [reflexivity|].
    cbn. rewrite N.eqb_refl. exact IH.
  - destruct (blacklisted s (h, p)); reflexivity.
Qed.

Lemma check_from_sound : forall c ops s,
  (1 <= c_max c -> cap_inv c (conns s)) -> check_from c s ops (snd (run c s ops)) = true.
Proof.
  intros c ops. induction ops as [|o t IH]; intros s Hcap; [reflexivity|].
  cbn [run]. pose proof (next_is_step c s o) as N. pose proof (clause_ok_step c s o Hcap) as CO.
  pose proof (cap_step c s o) as CS.
  destruct (step c s o) as [s1 r] eqn:ES. cbn [fst snd] in *.
  specialize (IH s1 (fun Hm => CS (Hcap Hm))).
  destruct (run c s1 t) as [s2 rs]. cbn [snd check_from] in *. rewrite CO, N. exact IH.
Qed.

Lemma check_sound : forall raw ops, C16_check raw ops (snd (run (apply_defaults raw) init ops)) = true.
Proof.
  intros raw ops. unfold C16_check. apply check_from_sound. intros Hm. apply cap_init. lia.
Qed.
