(* C09: facts about the finite maps and small helpers of Model/C09.v *)
From Coq Require Import List NArith Bool Lia.
From K.Model Require Import C09.
Import ListNotations.
Local Open Scope N_scope.

Lemma get_del_eq : forall A (k : N) (l : list (N * A)), get k (del k l) = None.
Proof.
  induction l as [|[k' v] t IH]; cbn; auto.
  destruct (k' =? k) eqn:E; cbn; auto. rewrite E; auto.
Qed.

Lemma get_del_ne : forall A (k k' : N) (l : list (N * A)), k <> k' -> get k' (del k l) = get k' l.
Proof.
  induction l as [|[k0 v] t IH]; cbn; auto; intro H.
  destruct (k0 =? k) eqn:E.
  - apply N.eqb_eq in E; subst. destruct (k =? k') eqn:E2; [apply N.eqb_eq in E2; congruence|auto].
  - cbn. destruct (k0 =? k'); auto.
Qed.

Lemma get_put_eq : forall A (k : N) (v : A) l, get k (put k v l) = Some v.
Proof. intros; unfold put; cbn; rewrite N.eqb_refl; auto. Qed.

Lemma get_put_ne : forall A (k k' : N) (v : A) l, k <> k' -> get k' (put k v l) = get k' l.
Proof.
  intros; unfold put; cbn. destruct (k =? k') eqn:E; [apply N.eqb_eq in E; congruence|].
  apply get_del_ne; auto.
Qed.

Lemma get_putopt_eq : forall A (k : N) (ov : option A) l, get k (putopt k ov l) = ov.
Proof. intros; destruct ov; cbn [putopt]; [apply get_put_eq | apply get_del_eq]. Qed.

Lemma get_putopt_ne : forall A (k k' : N) (ov : option A) l, k <> k' -> get k' (putopt k ov l) = get k' l.
Proof. intros; destruct ov; cbn [putopt]; [apply get_put_ne | apply get_del_ne]; auto. Qed.

Lemma get_none_or_in : forall A (x : N) (l : list (N * A)), get x l = None \/ In x (map fst l).
Proof.
  induction l as [|[k v] t IH]; cbn; auto.
  destruct (k =? x) eqn:E; [apply N.eqb_eq in E; auto|]. destruct IH; auto.
Qed.

Lemma get_some_in : forall A (x : N) (l : list (N * A)) v, get x l = Some v -> In x (map fst l).
Proof. intros A x l v H. destruct (get_none_or_in A x l) as [E|E]; [congruence|auto]. Qed.

Lemma in_map_fst_get : forall A (x : N) (l : list (N * A)), In x (map fst l) -> exists v, get x l = Some v.
Proof.
  induction l as [|[k v] t IH]; cbn; [tauto|]. intros [E|E].
  - subst. rewrite N.eqb_refl. eauto.
  - destruct (k =? x); eauto.
Qed.

Lemma memN_In : forall k l, memN k l = true <-> In k l.
Proof.
  unfold memN; intros; rewrite existsb_exists; split.
  - intros [x [H E]]. apply N.eqb_eq in E; subst; auto.
  - intros H; exists k; split; auto. apply N.eqb_refl.
Qed.

Lemma memN_false : forall k l, memN k l = false <-> ~ In k l.
Proof.
  intros; split; intro H.
  - intro HI. apply memN_In in HI. congruence.
  - destruct (memN k l) eqn:E; auto. apply memN_In in E. tauto.
Qed.

Lemma addN_In : forall x k l, In x (addN k l) <-> x = k \/ In x l.
Proof.
  intros; unfold addN. destruct (memN k l) eqn:E.
  - apply memN_In in E. split; [auto|]. intros [H|H]; subst; auto.
  - rewrite in_app_iff; cbn; split; intros [H|H]; auto. destruct H as [H|[]]; auto.
Qed.

Lemma insertN_In : forall x k l, In x (insertN k l) <-> x = k \/ In x l.
Proof.
  induction l as [|y t IH]; cbn.
  - split; intros [H|H]; auto.
  - destruct (k <? y); cbn.
    + split; intros H; repeat destruct H as [H|H]; auto.
    + destruct (k =? y) eqn:E.
      * apply N.eqb_eq in E; subst. cbn. split; intros H; repeat destruct H as [H|H]; auto.
      * cbn. rewrite IH. split; intros H; repeat destruct H as [H|H]; auto.
Qed.

Lemma sortN_In : forall x l, In x (sortN l) <-> In x l.
Proof.
  induction l as [|y t IH]; cbn; [tauto|].
  rewrite insertN_In, IH. split; intros [H|H]; auto.
Qed.

Lemma memN_sortN : forall k l, memN k (sortN l) = memN k l.
Proof.
  intros. destruct (memN k l) eqn:E.
  - apply memN_In. apply sortN_In. apply memN_In; auto.
  - apply memN_false. rewrite sortN_In. apply memN_false; auto.
Qed.

Lemma bytes_eqb_refl : forall b, out_eqb_bytes b b = true.
Proof. induction b; cbn; auto. rewrite N.eqb_refl; auto. Qed.

Lemma bytes_eqb_eq : forall a b, out_eqb_bytes a b = true -> a = b.
Proof.
  induction a; destruct b; cbn; intros H; try congruence.
  apply andb_true_iff in H as [H1 H2]. apply N.eqb_eq in H1; subst. f_equal; auto.
Qed.

Lemma opt_bytes_eqb_refl : forall b, opt_bytes_eqb b b = true.
Proof. destruct b; cbn; auto. apply bytes_eqb_refl. Qed.

(* pop returns a tracked key *)
Lemma pop_some : forall fb q k id q', pop fb q = (Some (k, id), q') -> get k fb = Some id.
Proof.
  induction q as [|x t IH]; cbn; intros k id q' H; [congruence|].
  destruct (get x fb) eqn:E.
  - inversion H; subst; auto.
  - eauto.
Qed.

(* membership in the scoped key lists of store.go List *)
Lemma keys_in_In : forall A (cpl : A -> bool) sc (l : list (N * A)) k,
  In k (keys_in cpl sc l) <-> exists v, get k l = Some v /\ oos (cpl v) sc = false.
Proof.
  intros; unfold keys_in. rewrite filter_In. split.
  - intros [H1 H2]. destruct (get k l) as [v|]; [|discriminate]. exists v; split; auto.
    destruct (oos (cpl v) sc); auto; discriminate.
  - intros [v [H1 H2]]. split; [eapply get_some_in; eauto|]. rewrite H1, H2; auto.
Qed.
