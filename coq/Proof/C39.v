(* C39: the executable oracle C39_check holds on everything the model answers, and the
   literals the model uses are those of the source *)
From Coq Require Import List NArith ZArith Bool Lia ZifyBool ZifyN ZifyNat.
From K.Model Require Import C39.
From K.Gen Require C39_consts.
From K.Proof Require Import C39_hex C39_digest C39_meta C39_bits C39_hs.
Import ListNotations.
Local Open Scope N_scope.

(* ---- literals extracted from the source on every run ---- *)
Theorem consts_match :
  C39_consts.digest_algo_name = sha256_str /\
  C39_consts.digest_split_sep = [colon] /\
  C39_consts.digest_raw_format = [37; 115; colon; 37; 115] /\        (* "%s:%s" *)
  C39_consts.piece_status_empty = Z.of_N st_empty /\
  C39_consts.piece_status_complete = Z.of_N st_complete /\
  C39_consts.piece_status_dirty = Z.of_N st_dirty.
Proof. repeat split; reflexivity. Qed.

(* ---- reflexivity of the comparison functions ---- *)
Lemma dg_eqb_refl : forall d, dg_eqb d d = true.
Proof. intro d. unfold dg_eqb. rewrite !leqb_refl. reflexivity. Qed.
Lemma dgs_eqb_refl : forall l, dgs_eqb l l = true.
Proof. induction l as [|d l IH]; [reflexivity|]. cbn [dgs_eqb]. rewrite dg_eqb_refl, IH. reflexivity. Qed.
Lemma bs_eqb_refl : forall b, bs_eqb b b = true.
Proof. intro b. unfold bs_eqb. rewrite N.eqb_refl, leqb_refl. reflexivity. Qed.
Lemma val_eqb_refl : forall v, val_eqb v v = true.
Proof.
  destruct v as [s|z n|b|d|b|[l|]]; cbn [val_eqb].
  - apply leqb_refl.
  - rewrite Z.eqb_refl, N.eqb_refl. reflexivity.
  - destruct b; reflexivity.
  - apply dg_eqb_refl.
  - apply bs_eqb_refl.
  - apply dgs_eqb_refl.
  - reflexivity.
Qed.
Lemma rb_eqb_refl : forall l, rb_eqb l l = true.
Proof. induction l as [|[k v] l IH]; [reflexivity|]. cbn [rb_eqb]. rewrite leqb_refl, bs_eqb_refl, IH. reflexivity. Qed.
Lemma hs_eqb_refl : forall h, hs_eqb h h = true.
Proof. intro h. unfold hs_eqb. rewrite !leqb_refl, dg_eqb_refl, bs_eqb_refl, rb_eqb_refl. reflexivity. Qed.

(* ---- no parser and no printer of the model panics ---- *)
Lemma lift_ok : forall A (f : A -> val) r v, lift f r = Ok v -> exists a, r = Ok a /\ v = f a.
Proof. intros A f [a| |] v H; try discriminate. inversion H. eauto. Qed.
Lemma lift_err : forall A (f : A -> val) r, lift f r = Err -> r = Err.
Proof. intros A f [a| |] H; try discriminate. reflexivity. Qed.
Lemma lift_panic : forall A (f : A -> val) r, lift f r = Panic -> r = Panic.
Proof. intros A f [a| |] H; try discriminate. reflexivity. Qed.

Ltac crush_matches :=
  repeat match goal with
  | |- context [match ?x with _ => _ end] => destruct x
  | |- context [if ?x then _ else _] => destruct x
  end; try discriminate.

Lemma digest_parse_no_panic : forall s, digest_parse s <> Panic.
Proof. intro s. unfold digest_parse. crush_matches. Qed.
Lemma digest_from_hex_no_panic : forall s, digest_from_hex s <> Panic.
Proof. intro s. unfold digest_from_hex. crush_matches. Qed.
Lemma digest_json_no_panic : forall s, digest_json_parse s <> Panic.
Proof. intro s. unfold digest_json_parse. destruct (json_string_doc s); [apply digest_parse_no_panic|discriminate]. Qed.
Lemma dl_elems_no_panic : forall f s, dl_elems f s <> Panic.
Proof.
  induction f as [|f IH]; intro s; [discriminate|]. cbn [dl_elems].
  destruct s as [|c t]; [discriminate|]. destruct (c =? quote); [|discriminate].
  destruct (jstr t) as [[raw rest]|]; [|discriminate].
  destruct (digest_parse raw); try discriminate.
  destruct (skip_ws rest) as [|k r]; [discriminate|].
  destruct (k =? 44); [destruct (dl_elems f (skip_ws r)); discriminate|].
  destruct (k =? 93); [|discriminate]. destruct (all_ws r); discriminate.
Qed.
Lemma dl_parse_no_panic : forall s, dl_parse s <> Panic.
Proof.
  intro s. unfold dl_parse. destruct (skip_ws s) as [|c t]; [discriminate|].
  destruct (c =? 91).
  - destruct (skip_ws t) as [|k r]; [discriminate|]. destruct (k =? 93); [destruct (all_ws r); discriminate|].
    destruct (dl_elems (length s) (k :: r)); discriminate.
  - crush_matches.
Qed.
Lemma infohash_no_panic : forall s, infohash_parse s <> Panic.
Proof. intro s. unfold infohash_parse. crush_matches. Qed.
Lemma peerid_no_panic : forall s, peerid_parse s <> Panic.
Proof. intro s. unfold peerid_parse. crush_matches. Qed.
Lemma lat_parse_no_panic : forall s, lat_parse s <> Panic.
Proof. intro s. unfold lat_parse. crush_matches. Qed.
Lemma persist_no_panic : forall s, persist_parse s <> Panic.
Proof. intro s. unfold persist_parse. crush_matches. Qed.
Lemma bitset_no_panic : forall s, bitset_parse s <> Panic.
Proof. intro s. unfold bitset_parse. crush_matches. Qed.

Theorem parse_no_panic : forall c s, parse c s <> Panic.
Proof.
  intros c s H. destruct c; cbn [parse] in H; try (apply lift_panic in H); try discriminate; revert H.
  - apply digest_parse_no_panic.
  - apply digest_from_hex_no_panic.
  - apply digest_json_no_panic.
  - apply dl_parse_no_panic.
  - apply infohash_no_panic.
  - apply peerid_no_panic.
  - apply lat_parse_no_panic.
  - apply persist_no_panic.
  - apply bitset_no_panic.
Qed.

Theorem print_no_panic : forall c v, print c v <> Panic.
Proof.
  intros c v H. destruct c; destruct v; cbn [print] in H; try discriminate.
  destruct (lat_print_total sec) as [b [P _]]. congruence.
Qed.

(* ---- what an accepted text implies, per codec ---- *)
Theorem parse_ok_facts : forall c s v, forallb is_byte s = true -> parse c s = Ok v ->
  input_wfb c s = true /\ in_domain c v = true /\ exists p, print c v = Ok p /\ parse c p = Ok v.
Proof.
  intros c s v B H. destruct c; cbn [parse] in H.
  - (* CDigest *) apply lift_ok in H. destruct H as [d [H E]]. subst v.
    pose proof (digest_parse_wf _ _ H) as [W S]. apply digest_parse_iff in H. destruct H as [T _].
    cbn [input_wfb in_domain print parse]. repeat split; auto. eexists. split; [reflexivity|].
    rewrite digest_roundtrip by assumption. reflexivity.
  - (* CDigestHex *) apply lift_ok in H. destruct H as [d [H E]]. subst v.
    pose proof (digest_from_hex_wf _ _ H) as [W S]. apply digest_from_hex_iff in H. destruct H as [T _].
    cbn [input_wfb in_domain print parse]. repeat split; auto. eexists. split; [reflexivity|].
    rewrite digest_hex_roundtrip by assumption. reflexivity.
  - (* CDigestJSON *) apply lift_ok in H. destruct H as [d [H E]]. subst v.
    pose proof (digest_json_accepts_wf_only _ _ H) as W.
    cbn [input_wfb in_domain print parse]. repeat split; auto. eexists. split; [reflexivity|].
    rewrite digest_json_roundtrip by assumption. reflexivity.
  - (* CDigestList *) apply lift_ok in H. destruct H as [l [H E]]. subst v.
    pose proof (digestlist_accepts_wf_only _ _ H) as W.
    cbn [input_wfb in_domain print parse]. split; [reflexivity|]. split; [destruct l; auto|].
    eexists. split; [reflexivity|]. rewrite digestlist_roundtrip by assumption. reflexivity.
  - (* CInfoHash *) apply lift_ok in H. destruct H as [b [H E]]. subst v.
    pose proof (infohash_parse_sound _ _ H) as [W _].
    cbn [input_wfb in_domain print parse]. split; [apply infohash_accepts; eauto|]. split; [exact W|].
    eexists. split; [reflexivity|]. rewrite infohash_roundtrip by assumption. reflexivity.
  - (* CPeerID *) apply lift_ok in H. destruct H as [b [H E]]. subst v.
    pose proof (peerid_parse_sound _ _ H) as [W _].
    cbn [input_wfb in_domain print parse]. split; [apply peerid_accepts; eauto|]. split; [exact W|].
    eexists. split; [reflexivity|]. rewrite peerid_roundtrip by assumption. reflexivity.
  - (* CStatus *) inversion H; subst v. cbn [input_wfb in_domain print parse].
    split; [reflexivity|]. split; [apply status_parse_range|]. eexists. split; [reflexivity|].
    rewrite status_parse_print. reflexivity.
  - (* CLat *) apply lift_ok in H. destruct H as [z [H E]]. subst v.
    pose proof (lat_parse_range _ _ H) as R. destruct (lat_roundtrip z R) as [p [P [_ Q]]].
    cbn [input_wfb in_domain print parse]. split; [apply lat_accepts_wellformed_only; eauto|].
    split; [rewrite R; reflexivity|]. exists p. split; [exact P|]. rewrite Q. reflexivity.
  - (* CPersist *) apply lift_ok in H. destruct H as [b [H E]]. subst v.
    cbn [input_wfb in_domain print parse]. split.
    + apply persist_accepts in H. apply mem_str_In in H. destruct b; rewrite H; [reflexivity|apply orb_true_r].
    + split; [reflexivity|]. eexists. split; [reflexivity|]. rewrite persist_roundtrip. reflexivity.
  - (* CBits *) apply lift_ok in H. destruct H as [b [H E]]. subst v.
    pose proof (bitset_parse_sound _ _ B H) as [W _].
    cbn [in_domain print parse]. split; [apply bitset_accepts; eauto|]. split; [exact W|].
    eexists. split; [reflexivity|]. rewrite bitset_roundtrip by assumption. reflexivity.
Qed.

(* ---- a printed form (and its documented variants) is never rejected ---- *)
Theorem parse_err_facts : forall c s, parse c s = Err -> must_accept c s = false.
Proof.
  intros c s H. destruct (must_accept c s) eqn:M; [exfalso|reflexivity].
  destruct c; cbn [parse must_accept input_wfb] in *; try discriminate; try (apply lift_err in H).
  - apply digest_accepts_wellformed_only in M. destruct M as [d M]. congruence.
  - assert (X : digest_from_hex s = Ok (mkd sha256_str s (sha256_str ++ colon :: s)))
      by (apply digest_from_hex_iff; auto). congruence.
  - apply infohash_accepts in M. destruct M as [d M]. congruence.
  - apply peerid_accepts in M. destruct M as [d M]. congruence.
  - apply lat_accepts_wellformed_only in M. destruct M as [d M]. congruence.
  - unfold persist_parse in H. apply orb_true_iff in M.
    destruct (mem_str s true_spellings); [discriminate|]. destruct (mem_str s false_spellings); [discriminate|].
    destruct M; discriminate.
  - apply (bitset_accepts s) in M. destruct M as [d M]. congruence.
Qed.

(* ---- every value of the domain prints, and the text parses back to it ---- *)
Theorem print_ok_facts : forall c v, in_domain c v = true ->
  exists p, print c v = Ok p /\ parse c p = Ok (granular c v).
Proof.
  intros c v D. destruct c; destruct v as [s|z n|b|d|b|l]; cbn [in_domain] in D; try discriminate;
    cbn [print parse granular].
  - eexists. split; [reflexivity|]. rewrite digest_roundtrip by assumption. reflexivity.
  - eexists. split; [reflexivity|]. rewrite digest_hex_roundtrip by assumption. reflexivity.
  - eexists. split; [reflexivity|]. rewrite digest_json_roundtrip by assumption. reflexivity.
  - eexists. split; [reflexivity|]. rewrite digestlist_roundtrip; [reflexivity|]. destruct l; auto.
  - eexists. split; [reflexivity|]. rewrite infohash_roundtrip by assumption. reflexivity.
  - eexists. split; [reflexivity|]. rewrite peerid_roundtrip by assumption. reflexivity.
  - eexists. split; [reflexivity|]. rewrite status_roundtrip by assumption. reflexivity.
  - apply andb_true_iff in D. destruct D as [R _]. destruct (lat_roundtrip z R) as [p [P [_ Q]]].
    exists p. split; [exact P|]. rewrite Q. reflexivity.
  - eexists. split; [reflexivity|]. rewrite persist_roundtrip. reflexivity.
  - eexists. split; [reflexivity|]. rewrite bitset_roundtrip by assumption. reflexivity.
Qed.

(* ---- the oracle on the model's own answers ---- *)
Theorem check_parse_sound : forall c s, forallb is_byte s = true ->
  let '(r1, r2, r3) := parse_chain c s in check_parse c s r1 r2 r3 = true.
Proof.
  intros c s B. unfold parse_chain, check_parse.
  destruct (parse c s) as [v| |] eqn:P.
  - destruct (parse_ok_facts c s v B P) as (W & D & p & Pr & Re).
    rewrite Pr, Re, W, D. cbn [res_eqb andb]. apply val_eqb_refl.
  - rewrite (parse_err_facts _ _ P). reflexivity.
  - exfalso. eapply parse_no_panic; eauto.
Qed.

Theorem check_print_sound : forall c v,
  let '(r1, r2) := print_chain c v in check_print c v r1 r2 = true.
Proof.
  intros c v. unfold print_chain, check_print.
  destruct (in_domain c v) eqn:D.
  - destruct (print_ok_facts c v D) as (p & Pr & Re). rewrite Pr, Re. cbn [res_eqb]. apply val_eqb_refl.
  - destruct (print c v) eqn:P; try reflexivity. exfalso. eapply print_no_panic; eauto.
Qed.

Theorem check_hs_print_sound : forall h,
  let '(m, r2) := hs_print_chain h in check_hs_print h m r2 = true.
Proof.
  intro h. unfold hs_print_chain, check_hs_print.
  destruct (hs_wfb h && nodup_keys (h_rb h)) eqn:W; [|reflexivity].
  apply andb_true_iff in W. destruct W as [W _]. rewrite hs_roundtrip by assumption.
  cbn [res_eqb]. apply hs_eqb_refl.
Qed.

Lemma hs_parse_no_panic : forall isb body, hs_parse isb body <> Panic.
Proof. intros isb body. unfold hs_parse. crush_matches. Qed.

Lemma body_bytes_msg : forall m, body_bytes (Some m) = msg_bytes m.
Proof. reflexivity. Qed.

Theorem check_hs_parse_sound : forall isb body, body_bytes body = true ->
  let '(r1, r2, r3) := hs_parse_chain isb body in check_hs_parse isb body r1 r2 r3 = true.
Proof.
  intros isb body B. unfold hs_parse_chain, check_hs_parse.
  destruct (hs_parse isb body) as [h| |] eqn:P.
  - destruct (proj1 (hs_accepts isb body) (ex_intro _ h P)) as [Ei [m [Eb W]]]. subst isb body.
    rewrite body_bytes_msg in B. pose proof (hs_parse_sound _ _ _ B P) as Wh.
    rewrite W, Wh, (hs_roundtrip _ Wh). cbn [andb res_eqb]. rewrite hs_eqb_refl.
    destruct (nodup_keys (h_rb h)); reflexivity.
  - destruct (isb && match body with Some m => hmsg_text_wfb m | None => false end) eqn:A; [exfalso|reflexivity].
    apply andb_true_iff in A. destruct A as [Ei A]. destruct body as [m|]; [|discriminate].
    destruct (proj2 (hs_accepts isb (Some m))) as [h Hh]; [eauto|]. congruence.
  - exfalso. eapply hs_parse_no_panic; eauto.
Qed.

(* the executable form of the property holds on every case as the model answers it *)
Theorem check_sound : forall c, case_bytes c = true -> C39_check (model_case c) = true.
Proof.
  intros [cd inp o1 o2 o3 | cd v o1 o2 | h o1 o2 | isb body o1 o2 o3] B; cbn [model_case case_bytes] in *.
  - pose proof (check_parse_sound cd inp B) as S. destruct (parse_chain cd inp) as [[r1 r2] r3]. exact S.
  - pose proof (check_print_sound cd v) as S. destruct (print_chain cd v) as [r1 r2]. exact S.
  - pose proof (check_hs_print_sound h) as S. destruct (hs_print_chain h) as [m r2]. exact S.
  - pose proof (check_hs_parse_sound isb body B) as S. destruct (hs_parse_chain isb body) as [[r1 r2] r3]. exact S.
Qed.
