From Coq Require Import List NArith ZArith Bool.
From K.Model Require Import C39.
Import ListNotations.
Lemma placeholder : True. Proof. exact I. Qed.
