(* C06 — the model's programs are faithful call lists: from every reachable state every call an
   operation lists succeeds when executed in order (failed calls never appear in a trace). *)
From Coq Require Import List NArith Bool Lia.
From K.Model Require Import C06.
From K.Proof Require Import C06_base C06_inv C06_crash C06_rec.
Import ListNotations.
Local Open Scope N_scope.
#[local] Opaque dec.

Lemma all_ok_app : forall a b f, all_ok (a ++ b) f = all_ok a f && all_ok b (exec a f).
Proof.
  induction a as [|c t IH]; intros b f; cbn [app all_ok exec fold_left]; [reflexivity|].
  change (fold_left apply_call t (apply_call f c)) with (exec t (apply_call f c)).
  rewrite IH. now rewrite andb_assoc.
Qed.

(* ---- mkdir of the missing ancestors *)
Lemma nlist_eqb_eq : forall a b, nlist_eqb a b = true <-> a = b.
Proof.
  induction a as [|x a IH]; intros [|y b]; cbn; split; intros H; try reflexivity; try discriminate.
  - apply andb_true_iff in H. destruct H as [H1 H2]. apply N.eqb_eq in H1. apply IH in H2. congruence.
  - injection H as -> ->. rewrite N.eqb_refl. now apply IH.
Qed.
Lemma inits_nodup : forall {A} (l : list A), NoDup (inits l).
Proof.
  induction l as [|x t IH]; cbn; [repeat constructor; auto|].
  constructor.
  - intro H. apply in_map_iff in H. destruct H as [q [H _]]. discriminate.
  - apply FinFun.Injective_map_NoDup; [|exact IH]. intros a b H. now injection H.
Qed.
Lemma all_ok_shards : forall a L f,
  NoDup L -> (forall q, In q L -> sd_mem a q (sdirs f) = false) -> all_ok (map (CMkShard a) L) f = true.
Proof.
  intros a L. induction L as [|q t IH]; intros f ND H; [reflexivity|].
  inversion ND as [|? ? Hq NDt]; subst. cbn [map all_ok call_ok]. rewrite (H q (or_introl eq_refl)). cbn [negb andb].
  apply IH; [exact NDt|]. intros q' Hq'. cbn [apply_call sdirs sd_mem existsb fst snd].
  change (existsb (fun q0 : area * list N => area_eqb a (fst q0) && nlist_eqb q' (snd q0)) (sdirs f)) with (sd_mem a q' (sdirs f)).
  rewrite (H q' (or_intror Hq')). rewrite orb_false_r.
  destruct (nlist_eqb q' q) eqn:E; [|now rewrite andb_false_r].
  apply nlist_eqb_eq in E. subst. contradiction.
Qed.
Lemma all_ok_mkdirall : forall a p f, all_ok (mkdirall a p (sdirs f)) f = true.
Proof.
  intros a p f. unfold mkdirall. apply all_ok_shards.
  - apply NoDup_filter, inits_nodup.
  - intros q H. apply filter_In in H. destruct H as [_ H]. now apply negb_true_iff in H.
Qed.
Lemma blobs_exec_shards : forall cs f, shards cs -> blobs (exec cs f) = blobs f /\ dom (exec cs f) = dom f.
Proof.
  induction cs as [|c t IH]; intros f H; [split; reflexivity|].
  inversion H as [|? ? Hc Ht]; subst. cbn [exec fold_left].
  change (fold_left apply_call t (apply_call f c)) with (exec t (apply_call f c)).
  destruct (IH (apply_call f c) Ht) as [E1 E2]. rewrite E1, E2.
  destruct c; cbn in Hc; try discriminate; split; reflexivity.
Qed.

(* ---- calls on one key *)
Lemma all_ok_konly : forall x cs f, konly x cs -> all_ok cs f = kall_ok cs (blobs f x).
Proof.
  intros x cs. induction cs as [|c t IH]; intros f H; [reflexivity|].
  inversion H as [|? ? Hc Ht]; subst. cbn [all_ok kall_ok]. rewrite (IH _ Ht), blobs_apply.
  unfold touches. rewrite Hc, N.eqb_refl. f_equal.
  destruct c; cbn in Hc; try discriminate; injection Hc as ->; reflexivity.
Qed.
Lemma kall_ok_unlinks : forall a x ord d d' v, rm_files ord d = Some d' -> vget a v = Some d ->
  kall_ok (map (CUnlink a x) ord) v = true.
Proof.
  intros a x ord. induction ord as [|f t IH]; intros d d' v H Hv; [reflexivity|]. cbn in H.
  destruct (fget f d) eqn:F; [|discriminate]. cbn [map kall_ok]. unfold kapply. cbn [kstep]. rewrite Hv, F. cbn [isSome andb].
  apply (IH _ _ _ H). apply vget_vset.
Qed.
Lemma kall_ok_rm_calls : forall a x ord d v, legal_order ord (Some d) = true -> vget a v = Some d ->
  kall_ok (rm_calls a x ord (Some d)) v = true.
Proof.
  intros a x ord d v L Hv. unfold legal_order in L. destruct (rm_files ord d) as [d'|] eqn:R; [|discriminate].
  unfold rm_calls. rewrite kall_ok_app, (kall_ok_unlinks _ _ _ _ _ _ R Hv), (kexec_unlinks _ _ _ _ _ _ R Hv).
  cbn [kall_ok kstep andb]. rewrite vget_vset, L. reflexivity.
Qed.

Lemma nrange_nodup : forall n, NoDup (nrange n).
Proof.
  intros n. unfold nrange. apply FinFun.Injective_map_NoDup; [|apply seq_NoDup].
  intros a b H. now apply Nat2N.inj.
Qed.
Lemma kall_ok_unlink_mds : forall x l d vi, NoDup l -> (forall s, In s l -> aget s (d_md d) <> None) ->
  kall_ok (map (fun sfx => CUnlink AComp x (FMd sfx)) l) (Some d, vi) = true.
Proof.
  intros x l. induction l as [|s t IH]; intros d vi ND H; [reflexivity|].
  inversion ND as [|? ? Hs NDt]; subst. cbn [map kall_ok]. unfold kapply. cbn [kstep vget fst fget].
  destruct (aget s (d_md d)) eqn:G; [|exfalso; apply (H s (or_introl eq_refl) G)]. cbn [isSome andb vset snd].
  apply IH; [exact NDt|]. intros s' Hs'. cbn [fset d_md]. rewrite aget_adel_neq; [apply H; now right|].
  intro; subst; contradiction.
Qed.

(* ---- every operation *)
Theorem calls_succeed : forall c s o, DI c s -> wf_op c s o = true ->
  all_ok (calls_of (step c s o)) (disk s) = true.
Proof.
  intros c s o D W.
  destruct (step_shape c s o D W) as
    [Hs Hc | x sz sh Ho M V F Hsh Hc Hst | x e d ord Hr Ht M V L Hc Hst | x e d sh Ho M C V Hsh Hc Hst
     | x e d body e' d1 Ht Hr Hmc M V Hk Hc Hm Hms Hsz Hco Hfin Hpre OK KOK].
  - now rewrite Hc.
  - (* Create *)
    subst o. clear Hc Hst. cbn [step]. rewrite M, V. cbn [snd]. apply N.leb_le in F. rewrite F. cbn [negb d_data empty_dir d_sizef calls_of snd].
    rewrite all_ok_app, all_ok_app, all_ok_mkdirall. cbn [andb].
    set (mk := mkdirall AInc (shard_path c x) (sdirs (disk s))).
    destruct (blobs_exec_shards mk (disk s) (shards_mkdirall _ _ _)) as [E1 E2].
    cbn [all_ok call_ok call_key]. rewrite E1, V. cbn [kstep vget snd isSome andb exec fold_left].
    rewrite (all_ok_konly x); [|unfold wr; destruct (c_ri c); [destruct (dec sz)|]; repeat constructor].
    rewrite (blobs_exec_target x mk [CMkBlob AInc x]); [|apply shards_mkdirall|repeat constructor].
    rewrite V. cbn [kexec fold_left]. unfold kapply at 1. cbn [kstep vget vset snd fst].
    destruct (c_ri c); [|reflexivity]. unfold wr. destruct (dec sz) eqn:Ed; [now apply dec_nonempty in Ed|].
    cbn [app kall_ok]. unfold kapply. cbn [kstep vget vset snd fst fget fset empty_dir d_data d_sizef isSome andb]. reflexivity.
  - (* Delete / Evict *)
    rewrite Hc, (all_ok_konly x) by apply konly_rm_calls. now apply kall_ok_rm_calls.
  - (* MarkComplete *)
    subst o. clear Hc Hst. cbn [step]. rewrite M, C, V. cbn [kstep snd fst calls_of].
    rewrite all_ok_app, all_ok_mkdirall. cbn [andb].
    set (mk := mkdirall AComp (shard_path c x) (sdirs (disk s))).
    destruct (blobs_exec_shards mk (disk s) (shards_mkdirall _ _ _)) as [E1 E2].
    rewrite (all_ok_konly x) by (constructor; [reflexivity|apply konly_map_unlink]).
    rewrite E1, V. cbn [kall_ok kstep snd fst isSome andb]. unfold kapply. cbn [kstep snd fst].
    apply kall_ok_unlink_mds.
    + apply NoDup_filter, nrange_nodup.
    + intros sfx H. unfold immovables in H. apply filter_In in H. destruct H as [_ H]. apply andb_true_iff in H.
      destruct H as [_ H]. destruct (aget sfx (d_md d)); [discriminate|discriminate].
  - (* operations inside one directory: the prefix-closedness of their crash analysis gives success *)
    rewrite Hc, (all_ok_konly x) by exact Hk. exact KOK.
Qed.

(* ... hence the whole trace of every history of completed operations executes without a failing call *)
Theorem trace_succeeds : forall c ops s, reach c s -> wf_all c s ops = true ->
  all_ok (trace (run c s ops)) (disk s) = true.
Proof.
  intros c ops. induction ops as [|o t IH]; intros s R W; [reflexivity|].
  cbn in W. apply andb_true_iff in W. destruct W as [W1 W2].
  cbn [run trace flat_map sr_calls]. rewrite all_ok_app.
  rewrite (calls_succeed c s o (reach_DI c s R) W1). cbn [andb].
  rewrite <- step_disk. apply IH; [now apply reach_step|exact W2].
Qed.


Theorem calls_succeed_reach : forall c s o, reach c s -> wf_op c s o = true ->
  all_ok (calls_of (step c s o)) (disk s) = true.
Proof. intros c s o R W. apply calls_succeed; [now apply reach_DI|exact W]. Qed.
Theorem calls_succeed_and_effect : forall c s o, reach c s -> wf_op c s o = true ->
  all_ok (calls_of (step c s o)) (disk s) = true /\
  disk (st_of (step c s o)) = exec (calls_of (step c s o)) (disk s).
Proof. intros c s o R W. split; [now apply calls_succeed_reach|apply step_disk]. Qed.
