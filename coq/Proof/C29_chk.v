(* Proofs for C29, part 3: the trace oracles trap_check and rc_check hold on every driver-level
   trace of the models (soundness of the executable form of the property). *)
From Coq Require Import List NArith Bool Lia PeanoNat.
From K.Model Require Import C29.
From K.Proof Require Import C29 C29_rc.
Import ListNotations.
Local Open Scope N_scope.

(* ====================================================================================== *)
(* IntervalTrap                                                                           *)
(* ====================================================================================== *)

Lemma trun_app : forall iv s a b, trun iv s (a ++ b) = trun iv (trun iv s a) b.
Proof. intros. unfold trun. apply fold_left_app. Qed.

Lemma nat_eqb_S : forall n, Nat.eqb (S n) n = false.
Proof. induction n; simpl; auto. Qed.

Lemma tmrun_times : forall iv ms s, (forall c, tr_thr s c = TIdle) ->
  trap_times (tr_now s) (tr_runs s) ms (tmrun iv s ms) =
  Some (tr_runs (trun iv s (concat (map texpand ms)))).
Proof.
  intros iv ms. induction ms as [| m r IH]; intros s Hi; [ reflexivity | ].
  cbn [map concat tmrun]. rewrite trun_app. destruct m as [dt | c dt].
  - cbn [texpand trun fold_left tstep tr_runs tr_now]. rewrite Nat.eqb_refl. cbn [negb trap_times].
    apply (IH (mkTr (tr_now s + dt) (tr_prev s) (tr_thr s) (tr_runs s))). exact Hi.
  - cbn [texpand trun fold_left]. cbn [tstep]. rewrite Hi.
    destruct (tready iv (tr_now s) (tr_prev s)) eqn:R.
    + cbn [tr_thr tr_now tr_prev tr_runs]. rewrite upd_same, R. cbn [tr_runs tr_now length].
      rewrite nat_eqb_S. cbn [negb trap_times].
      apply (IH (mkTr (tr_now s + dt) (tr_now s + dt) (upd (upd (tr_thr s) c TReady) c TIdle) (tr_now s :: tr_runs s))).
      intro x. cbn [tr_thr]. ue x c; auto.
    + rewrite Hi. rewrite Nat.eqb_refl. cbn [negb trap_times]. now apply IH.
Qed.

Theorem trap_check_sound : forall iv ms, trap_check iv ms (tmrun iv (tinit 0) ms) = true.
Proof.
  intros iv ms. unfold trap_check.
  pose proof (tmrun_times iv ms (tinit 0) (fun _ => eq_refl)) as H. cbn [tinit tr_now tr_runs] in H.
  rewrite H. apply trap_once_per_interval.
Qed.

(* ====================================================================================== *)
(* RequestCache                                                                           *)
(* ====================================================================================== *)

Definition quiet_pc (p : rpc) : bool :=
  match p with RReserved _ | RReleasing _ => false | _ => true end.

(* between driver-level operations no thread is inside a transient region, and only the
   threads of the case exist *)
Definition bq (n : N) (s : rst) : Prop :=
  (forall c, quiet_pc (r_thr s c) = true) /\ (forall c, n <= c -> r_thr s c = RIdle).

(* what the observed failures say is still cached, is cached *)
Definition cache_ok (cache : N -> option (N * N)) (s : rst) : Prop :=
  forall k e exp, cache k = Some (e, exp) -> r_now s <= exp -> r_errs s k = Some (e, exp).

Lemma rrun_app : forall cf s a b, rrun cf s (a ++ b) = rrun cf (rrun cf s a) b.
Proof. intros. unfold rrun. apply fold_left_app. Qed.

Lemma nthreads_in : forall n c, In c (nthreads n) <-> c < n.
Proof.
  intros n c. unfold nthreads. rewrite in_map_iff. split.
  - intros (i & <- & Hi). apply in_seq in Hi. lia.
  - intro H. exists (N.to_nat c). split; [ apply Nnat.N2Nat.id | apply in_seq; lia ].
Qed.

Lemma nth_status_snap : forall n s c, c < n -> nth_status (rsnap n s) c = rstatus_of (r_thr s c).
Proof.
  intros n s c H. unfold nth_status, rsnap, nthreads. rewrite map_map.
  set (g := fun x : nat => rstatus_of (r_thr s (N.of_nat x))).
  rewrite (nth_indep _ QTransient (g 0%nat)) by (rewrite map_length, seq_length; lia).
  rewrite map_nth. rewrite seq_nth by lia. unfold g. simpl. now rewrite Nnat.N2Nat.id.
Qed.

Lemma nth_status_out : forall n s c, n <= c -> nth_status (rsnap n s) c = QTransient.
Proof.
  intros n s c H. unfold nth_status. apply nth_overflow.
  unfold rsnap, nthreads. rewrite !map_length, seq_length. lia.
Qed.

Lemma key_busy_iff : forall n s k, bq n s ->
  key_busy (rsnap n s) k = true <-> exists c, holdsb (r_thr s c) k = true.
Proof.
  intros n s k (Bq & Bn). unfold key_busy, rsnap. rewrite existsb_exists. split.
  - intros (q & Hq & Hk). apply in_map_iff in Hq as (c & <- & Hc). exists c.
    destruct (r_thr s c); simpl in *; auto; discriminate.
  - intros (c & H). assert (c < n) as Hc.
    { destruct (N.lt_ge_cases c n); auto. rewrite (Bn c) in H by assumption. discriminate. }
    exists (rstatus_of (r_thr s c)). split.
    + apply in_map_iff. exists c. split; auto. now apply nthreads_in.
    + specialize (Bq c). destruct (r_thr s c); simpl in *; auto; discriminate.
Qed.

Lemma in_keys_run_r : forall (f : N -> rstatus) cs k,
  In k (keys_run_r (map f cs)) -> exists c, In c cs /\ f c = QRun k.
Proof.
  induction cs as [| c cs IH]; simpl; intros k H; [ contradiction | ].
  destruct (f c) eqn:E; try (destruct (IH _ H) as (c' & H1 & H2); exists c'; auto; fail).
  destruct H as [<- | H]; [ exists c; auto | destruct (IH _ H) as (c' & H1 & H2); exists c'; auto ].
Qed.

Lemma rsnap_nodup : forall cf n s, rinv cf s -> nodupb (keys_run_r (rsnap n s)) = true.
Proof.
  intros cf n s I. apply nodupb_NoDup. unfold rsnap.
  pose proof (nthreads_NoDup n) as Hn. induction Hn as [| c cs Hc Hn IH]; simpl; [ constructor | ].
  destruct (rstatus_of (r_thr s c)) eqn:E; auto. constructor; auto.
  intro Hin. apply in_keys_run_r in Hin as (c' & Hc' & E').
  assert (holdsb (r_thr s c) k = true) as H1
    by (destruct (r_thr s c); simpl in E; inversion E; subst; simpl; apply N.eqb_refl).
  assert (holdsb (r_thr s c') k = true) as H2
    by (destruct (r_thr s c'); simpl in E'; inversion E'; subst; simpl; apply N.eqb_refl).
  pose proof (q_uniq cf s I _ _ _ H1 H2). subst. contradiction.
Qed.

Lemma startable_status : forall p, quiet_pc p = true ->
  startable p = match rstatus_of p with QIdle | QRet _ => true | _ => false end.
Proof. intros p. destruct p; simpl; auto; discriminate. Qed.

(* steps of the timeouts fired by a clock advance *)
Lemma rtimeouts_frame : forall cf n cs s, bq n s ->
  let s' := rrun cf s (map RTimeout cs) in
  bq n s' /\ r_now s' = r_now s /\ r_errs s' = r_errs s.
Proof.
  intros cf n cs. induction cs as [| c cs IH]; intros s B; [ cbn; auto | ].
  cbn [map]. change (rrun cf s (RTimeout c :: map RTimeout cs))
    with (rrun cf (rstep cf s (RTimeout c)) (map RTimeout cs)).
  set (s1 := rstep cf s (RTimeout c)).
  assert (bq n s1 /\ r_now s1 = r_now s /\ r_errs s1 = r_errs s) as (B1 & N1 & E1).
  { unfold s1. simpl. destruct B as (Bq & Bn).
    destruct (r_thr s c) as [ | r0 | k0 | k0 d0 | k0 | k0 ] eqn:T; try (repeat split; auto; fail).
    destruct (d0 <=? r_now s); [ | repeat split; auto ]. repeat split; auto; simpl.
    - intro x. ue x c; auto.
    - intros x Hx. ue x c; auto. rewrite (Bn c Hx) in T. discriminate. }
  destruct (IH s1 B1) as (B2 & N2 & E2). cbv zeta. repeat split; try apply B2; congruence.
Qed.

Lemma rworker_frame : forall cf n s c, bq n s -> c < n ->
  let s' := rstep cf s (RWorkerOk c) in
  bq n s' /\ r_now s' = r_now s /\ r_errs s' = r_errs s.
Proof.
  intros cf n s c (Bq & Bn) Hc. simpl. destruct (r_thr s c) eqn:T; try (repeat split; auto; fail).
  destruct (r_used s <? c_workers cf); repeat split; auto; simpl.
  - intro x. ue x c; auto.
  - intros x Hx. ue x c; auto. lia.
Qed.

Lemma cache_ok_frame : forall cache s s', cache_ok cache s ->
  r_now s' = r_now s -> r_errs s' = r_errs s -> cache_ok cache s'.
Proof. intros cache s s' C N E k e exp Hc L. rewrite E. apply C; auto. lia. Qed.

(* a Start on a thread that is inside Start or executing: the operation is not enabled *)
Lemma qstart_disabled_frame : forall cf n s c k, bq n s -> c < n -> startable (r_thr s c) = false ->
  let s' := rrun cf s (rexpand n (QStart c k)) in
  bq n s' /\ r_now s' = r_now s /\ r_errs s' = r_errs s.
Proof.
  intros cf n s c k B Hc St. cbn [rexpand rrun fold_left].
  assert (rstep cf s (RStart c k) = s) as -> by (simpl; now rewrite St).
  assert (rstep cf s (RArm c) = s) as ->.
  { simpl. destruct B as (Bq & _). specialize (Bq c). destruct (r_thr s c); auto. discriminate. }
  now apply rworker_frame.
Qed.


Lemma busy_pend : forall cf n s k, rinv cf s -> bq n s ->
  key_busy (rsnap n s) k = true -> r_pend s k = true.
Proof.
  intros cf n s k I B H. apply (key_busy_iff n s k B) in H as (c & H). eapply q_hold_pend; eauto.
Qed.

Lemma not_busy_not_pend : forall cf n s k, rinv cf s -> bq n s ->
  key_busy (rsnap n s) k = false -> r_pend s k = false.
Proof.
  intros cf n s k I B H. destruct (r_pend s k) eqn:P; auto.
  apply (q_pend_hold cf s I) in P. apply (key_busy_iff n s k B) in P. congruence.
Qed.

Lemma cache_ok_clean : forall cf cache s pend used thr tids, cache_ok cache s ->
  cache_ok cache (mkR (r_now s) pend (fst (rclean cf s)) (snd (rclean cf s)) used thr tids).
Proof.
  intros cf cache s pend used thr tids C k e exp Hc L. simpl in *. apply rclean_keep; auto.
Qed.

Lemma qstart_enabled : forall cf n s c k cache,
  rinv cf s -> bq n s -> cache_ok cache s -> c < n -> startable (r_thr s c) = true ->
  let s' := rrun cf s (rexpand n (QStart c k)) in
  bq n s' /\ r_now s' = r_now s /\ cache_ok cache s' /\
  start_ok (r_now s) cache (rsnap n s) k (rstatus_of (r_thr s' c)) = true.
Proof.
  intros cf n s c k cache I B C Hc St. cbn [rexpand rrun fold_left].
  pose proof (rstart_outcome cf s c k St) as O.
  remember (rstep cf s (RStart c k)) as s1 eqn:Es1. clear Es1.
  pose proof B as (Bq & Bn).
  assert (Hq : forall p, quiet_pc p = true -> forall x, quiet_pc (upd (r_thr s) c p x) = true)
    by (intros p Hp x; ue x c; auto).
  assert (Hn : forall p x, n <= x -> upd (r_thr s) c p x = RIdle)
    by (intros p x Hx; ue x c; [ lia | auto ]).
  destruct O as [P | e exp P E L | P E].
  - (* pending *)
    cbn [rstep r_thr]. rewrite upd_same. cbn [rstep r_thr]. rewrite upd_same.
    repeat split; auto.
    + cbn [r_thr]. now apply Hq.
    + cbn [r_thr]. apply Hn.
    + now apply cache_ok_clean.
    + cbn [r_thr]. rewrite upd_same. unfold start_ok.
      destruct (key_busy (rsnap n s) k) eqn:K; auto.
      pose proof (not_busy_not_pend cf n s k I B K). congruence.
  - (* cached error *)
    cbn [rstep r_thr]. rewrite upd_same. cbn [rstep r_thr]. rewrite upd_same.
    repeat split; auto.
    + cbn [r_thr]. now apply Hq.
    + cbn [r_thr]. apply Hn.
    + now apply cache_ok_clean.
    + cbn [r_thr]. rewrite upd_same. unfold start_ok.
      destruct (key_busy (rsnap n s) k) eqn:K.
      { pose proof (busy_pend cf n s k I B K). congruence. }
      cbn [rstatus_of]. destruct (cache k) as [[e' x'] |] eqn:Ck; auto.
      unfold cexpired. destruct (N.ltb_spec x' (r_now s)); auto.
      pose proof (rclean_keep cf s k e' x' (C _ _ _ Ck H) H) as E'.
      rewrite E' in E. inversion E; subst. apply N.eqb_refl.
  - (* reserved: arm the timer, take a worker if one is free *)
    cbn [rstep r_thr]. rewrite upd_same. cbn [rstep r_thr r_now r_used]. rewrite upd_same.
    assert (Hso : forall q, (q = QBlocked k \/ q = QRun k) -> start_ok (r_now s) cache (rsnap n s) k q = true).
    { intros q Hq'. unfold start_ok. destruct (key_busy (rsnap n s) k) eqn:K.
      { pose proof (busy_pend cf n s k I B K). congruence. }
      assert (match cache k with
              | Some (e, exp) => cexpired (r_now s) exp = true
              | None => True end) as Hk.
      { destruct (cache k) as [[e' x'] |] eqn:Ck; auto.
        unfold cexpired. destruct (N.ltb_spec x' (r_now s)); auto.
        pose proof (rclean_keep cf s k e' x' (C _ _ _ Ck H) H) as E'. apply E in E'. lia. }
      destruct Hq' as [-> | ->]; destruct (cache k) as [[e' x'] |]; auto; now rewrite Hk. }
    destruct (r_used s <? c_workers cf).
    + repeat split; cbn [r_thr r_now r_errs]; auto.
      * intro x. ue x c; auto.
      * intros x Hx. ue x c; [ lia | auto ].
      * intros k0 e0 x0 Hc0 L0. cbn [r_errs r_now] in *. apply rclean_keep; auto.
      * rewrite upd_same. apply Hso. right. reflexivity.
    + repeat split; cbn [r_thr r_now r_errs]; auto.
      * intro x. ue x c; auto.
      * intros x Hx. ue x c; [ lia | auto ].
      * intros k0 e0 x0 Hc0 L0. cbn [r_errs r_now] in *. apply rclean_keep; auto.
      * rewrite upd_same. apply Hso. left. reflexivity.
Qed.

Lemma qfinish_frame : forall cf n s c res nx cache,
  bq n s -> cache_ok cache s -> c < n ->
  match nx with Some w => w < n | None => True end ->
  let s' := rrun cf s (rexpand n (QFinish c res nx)) in
  bq n s' /\ r_now s' = r_now s /\
  cache_ok (cache_upd cf (r_now s) cache res (rstatus_of (r_thr s c))) s'.
Proof.
  intros cf n s c res nx cache B C Hc Hnx. cbn [rexpand]. rewrite rrun_app.
  set (s2 := rrun cf s [RFinish c res; RRelease c]).
  assert (bq n s2 /\ r_now s2 = r_now s /\
          cache_ok (cache_upd cf (r_now s) cache res (rstatus_of (r_thr s c))) s2) as (B2 & N2 & C2).
  { unfold s2. cbn [rrun fold_left]. pose proof B as (Bq & Bn). pose proof (Bq c) as Qc.
    destruct (r_thr s c) as [ | r0 | k0 | k0 d0 | k0 | k0 ] eqn:T; try discriminate;
      cbn [rstep]; rewrite ?T; cbn [rstep]; rewrite ?T;
      try (repeat split; auto; destruct res as [[? ?] |]; exact C).
    cbn [r_thr]. rewrite upd_same. repeat split; cbn [r_thr r_now r_errs]; auto.
    - intro x. ue x c; auto.
    - intros x Hx. ue x c; [ lia | auto ].
    - destruct res as [[e nf] |]; cbn [cache_upd rstatus_of]; [ | exact C ].
      intros k e0 x0 Hk L. cbn [r_errs r_now] in *. ue k k0; auto. }
  destruct nx as [w |].
  - cbn [rrun fold_left]. destruct (rworker_frame cf n s2 w B2 Hnx) as (B3 & N3 & E3).
    repeat split; try apply B3; try congruence.
    eapply cache_ok_frame; eauto.
  - cbn [rrun fold_left]. auto.
Qed.

Lemma rc_check_from_sound : forall cf n ms s cache,
  rinv cf s -> bq n s -> cache_ok cache s -> wf_rops n ms = true ->
  rc_check_from cf (r_now s) cache (rsnap n s) ms (rmrun cf n s ms) = true.
Proof.
  intros cf n ms. induction ms as [| m r IH]; intros s cache I B C W; [ reflexivity | ].
  cbn [rmrun rc_check_from]. simpl in W. apply andb_true_iff in W as (Wm & Wr).
  set (s' := rrun cf s (rexpand n m)).
  assert (rinv cf s') as I' by (apply rrun_from_inv; auto).
  rewrite (rsnap_nodup cf n s' I'). cbn [andb].
  destruct m as [dt | c k | c res nx].
  - (* clock advance; due timeouts fire *)
    assert (bq n s' /\ r_now s' = r_now s + dt /\ r_errs s' = r_errs s) as (B' & N' & E').
    { unfold s'. cbn [rexpand].
      change (RTick dt :: map RTimeout (nthreads n)) with ([RTick dt] ++ map RTimeout (nthreads n)).
      rewrite rrun_app. cbn [rrun fold_left rstep].
      set (s1 := mkR (r_now s + dt) (r_pend s) (r_errs s) (r_last s) (r_used s) (r_thr s) (r_tids s)).
      destruct (rtimeouts_frame cf n (nthreads n) s1 B) as (B2 & N2 & E2). auto. }
    rewrite <- N'. apply IH; auto.
    intros k e exp Hc L. rewrite E'. apply C; auto. lia.
  - (* Start *)
    apply N.ltb_lt in Wm. rewrite !(nth_status_snap n _ c Wm).
    pose proof B as (Bq & Bn). unfold status_startable. rewrite <- (startable_status _ (Bq c)).
    destruct (startable (r_thr s c)) eqn:St.
    + destruct (qstart_enabled cf n s c k cache I B C Wm St) as (B' & N' & C' & Ok).
      fold s' in B', N', C', Ok. rewrite Ok. cbn [andb]. rewrite <- N'. now apply IH.
    + destruct (qstart_disabled_frame cf n s c k B Wm St) as (B' & N' & E').
      fold s' in B', N', E'. cbn [andb]. rewrite <- N'. apply IH; auto.
      eapply cache_ok_frame; eauto.
  - (* Finish *)
    apply andb_true_iff in Wm as (Wc & Wn). apply N.ltb_lt in Wc.
    rewrite (nth_status_snap n s c Wc).
    assert (match nx with Some w => w < n | None => True end) as Hnx
      by (destruct nx; auto; now apply N.ltb_lt).
    destruct (qfinish_frame cf n s c res nx cache B C Wc Hnx) as (B' & N' & C').
    fold s' in B', N', C'.
    pose proof (IH s' _ I' B' C' Wr) as H. rewrite N' in H. exact H.
Qed.

Lemma rinit_bq : forall n, bq n rinit.
Proof. intro n. split; intros; reflexivity. Qed.

Lemma rsnap_init : forall n, rsnap n rinit = map (fun _ => QIdle) (nthreads n).
Proof. intro n. unfold rsnap. apply map_ext. reflexivity. Qed.

(* the RequestCache oracle holds on every driver-level trace of the model whose operations
   name threads of the case *)
Theorem rc_check_sound : forall cf n ms, wf_rops n ms = true ->
  rc_check cf n ms (rmrun cf n rinit ms) = true.
Proof.
  intros cf n ms W. unfold rc_check. rewrite <- rsnap_init.
  change 0 with (r_now rinit) at 1. apply rc_check_from_sound; auto.
  - apply rinit_inv.
  - apply rinit_bq.
  - intros k e exp H. discriminate.
Qed.
