(* Data cells and handles of the shared LRU store model: cells are never reused, a blob that
   leaves the store has its cell nil-ed for good, a handle keeps pointing at the cell it was
   opened on.  Used by C08 (stale handles) and available to C09. *)
From Coq Require Import List NArith ZArith Bool Lia.
From K.Model Require Import LruStore.
From K.Proof Require Import LruStore.
Import ListNotations.
Local Open Scope N_scope.

Arguments cell_of : simpl never.
Arguments set_cell : simpl never.
Arguments set_off : simpl never.

Record CellInv (kc : core) : Prop := {
  ci_live : forall k b, assoc k (k_blobs kc) = Some b -> exists d, cell_of kc (b_cell b) = Some d;
  ci_nil : forall c, (forall k b, assoc k (k_blobs kc) = Some b -> b_cell b <> c) -> cell_of kc c = None;
  ci_inj : forall k1 k2 b1 b2, assoc k1 (k_blobs kc) = Some b1 -> assoc k2 (k_blobs kc) = Some b2 ->
                               b_cell b1 = b_cell b2 -> k1 = k2;
  ci_fresh : forall k b, assoc k (k_blobs kc) = Some b -> b_cell b < k_next kc;
  ci_cells : forall c, k_next kc <= c -> assoc c (k_cells kc) = None;
  ci_hcell : forall h c off, assoc h (k_handles kc) = Some (c, off) -> c < k_next kc;
  ci_hfresh : forall h, k_nexth kc <= h -> assoc h (k_handles kc) = None
}.

Lemma ci_init cap : CellInv (init_core cap).
Proof. constructor; cbn; intros; try discriminate; auto. Qed.

(* ---------------------------------------------------------------- cell_of after the primitive updates *)
Lemma cell_of_set_cell kc c v c' :
  cell_of (set_cell c v kc) c' =
  if c' =? c then match assoc c (k_cells kc) with Some _ => v | None => None end else cell_of kc c'.
Proof.
  unfold cell_of, set_cell. cbn [k_cells with_cells]. destruct (N.eqb_spec c' c) as [->|Hne].
  - rewrite assoc_update_eq. now destruct (assoc c (k_cells kc)).
  - now rewrite assoc_update_neq.
Qed.

Lemma cell_of_some_assoc kc c d : cell_of kc c = Some d -> assoc c (k_cells kc) = Some (Some d).
Proof. unfold cell_of. destruct (assoc c (k_cells kc)) as [[x|]|]; intros H; inversion H; auto. Qed.

Lemma set_cell_blobs c v kc : k_blobs (set_cell c v kc) = k_blobs kc. Proof. reflexivity. Qed.
Lemma set_cell_next c v kc : k_next (set_cell c v kc) = k_next kc. Proof. reflexivity. Qed.
Lemma set_cell_handles c v kc : k_handles (set_cell c v kc) = k_handles kc. Proof. reflexivity. Qed.
Lemma set_cell_nexth c v kc : k_nexth (set_cell c v kc) = k_nexth kc. Proof. reflexivity. Qed.
Lemma set_cell_cells_none c v kc c' : assoc c' (k_cells kc) = None -> assoc c' (k_cells (set_cell c v kc)) = None.
Proof.
  intros H. unfold set_cell. cbn [k_cells with_cells]. destruct (N.eq_dec c' c) as [->|Hne].
  - now rewrite assoc_update_eq, H.
  - now rewrite assoc_update_neq.
Qed.

Lemma add_blob_next k sz d kc : k_next (add_blob k sz d kc) = N.succ (k_next kc). Proof. reflexivity. Qed.
Lemma add_blob_cells k sz d kc : k_cells (add_blob k sz d kc) = k_cells kc ++ [(k_next kc, Some d)]. Proof. reflexivity. Qed.
Lemma add_blob_handles k sz d kc : k_handles (add_blob k sz d kc) = k_handles kc. Proof. reflexivity. Qed.
Lemma add_blob_nexth k sz d kc : k_nexth (add_blob k sz d kc) = k_nexth kc. Proof. reflexivity. Qed.

Lemma cell_of_upd_blob k f kc c : cell_of (upd_blob k f kc) c = cell_of kc c. Proof. reflexivity. Qed.
Lemma cell_of_add_blob k sz d kc c :
  assoc (k_next kc) (k_cells kc) = None ->
  cell_of (add_blob k sz d kc) c = if c =? k_next kc then Some d else cell_of kc c.
Proof.
  intros Hn. unfold cell_of. rewrite add_blob_cells, assoc_app. cbn [assoc].
  rewrite (N.eqb_sym (k_next kc) c). destruct (N.eqb_spec c (k_next kc)) as [->|Hne].
  - now rewrite Hn.
  - now destruct (assoc c (k_cells kc)).
Qed.

Lemma cell_of_drop k kc b c :
  assoc k (k_blobs kc) = Some b ->
  cell_of (drop_blob k kc) c =
  if c =? b_cell b then match assoc (b_cell b) (k_cells kc) with Some _ => None | None => None end else cell_of kc c.
Proof.
  intros Hb. unfold drop_blob. rewrite Hb.
  change (cell_of (with_blobs (set_cell (b_cell b) None kc) (remove_key k (k_blobs kc))) c)
    with (cell_of (set_cell (b_cell b) None kc) c).
  apply cell_of_set_cell.
Qed.

(* ---------------------------------------------------------------- transitions *)
Definition handles_stable (kc kc' : core) : Prop :=
  forall h c off, assoc h (k_handles kc) = Some (c, off) -> exists off', assoc h (k_handles kc') = Some (c, off').
Definition nil_stable (kc kc' : core) : Prop :=
  forall c, c < k_next kc -> cell_of kc c = None -> cell_of kc' c = None.
(* the incarnation of key k that lives in kc: in kc' either its cell has been nil-ed, or the same
   incarnation (same cell) is still stored under k *)
Definition blob_fwd (kc kc' : core) : Prop :=
  forall k b, assoc k (k_blobs kc) = Some b ->
    cell_of kc' (b_cell b) = None \/
    (exists b', assoc k (k_blobs kc') = Some b' /\ b_cell b' = b_cell b).

Record GT (kc kc' : core) : Prop := {
  gt_inv : CellInv kc';
  gt_h : handles_stable kc kc';
  gt_nil : nil_stable kc kc';
  gt_fwd : blob_fwd kc kc';
  gt_next : k_next kc <= k_next kc';
  gt_nexth : k_nexth kc <= k_nexth kc'
}.

Lemma GT_refl kc : CellInv kc -> GT kc kc.
Proof.
  intros H. constructor; auto; try lia.
  - intros h c off Hh. eauto.
  - intros c _ Hc. exact Hc.
  - intros k b Hb. right. eauto.
Qed.

Lemma GT_trans a b c : CellInv a -> GT a b -> GT b c -> GT a c.
Proof.
  intros Ha [Ib Hb Nb Fb Xb Yb] [Ic Hc Nc Fc Xc Yc]. constructor; auto; try lia.
  - intros h cc off Hh. destruct (Hb _ _ _ Hh) as [off' Hh']. eauto.
  - intros cc Hlt Hn. apply Nc; [lia|]. now apply Nb.
  - intros k bl Hk. destruct (Fb _ _ Hk) as [Hcn|[b' [Hk' Hcell]]].
    + left. apply Nc; auto. pose proof (ci_fresh _ Ha _ _ Hk). lia.
    + destruct (Fc _ _ Hk') as [Hcn|[b'' [Hk'' Hcell']]].
      * left. now rewrite <- Hcell.
      * right. exists b''. split; auto. congruence.
Qed.

(* ---------------------------------------------------------------- the primitive moves *)
Lemma GT_drop k kc : CellInv kc -> GT kc (drop_blob k kc).
Proof.
  intros HI. destruct (assoc k (k_blobs kc)) as [b|] eqn:Eb.
  2:{ rewrite (drop_blob_absent _ _ Eb). now apply GT_refl. }
  pose proof HI as [Hl Hn Hi Hf Hc Hh Hhf].
  destruct (Hl _ _ Eb) as [d0 Hd0]. pose proof (cell_of_some_assoc _ _ _ Hd0) as Hd1.
  assert (Hcell : forall c, cell_of (drop_blob k kc) c = if c =? b_cell b then None else cell_of kc c).
  { intros c. rewrite (cell_of_drop _ _ _ _ Eb), Hd1. reflexivity. }
  assert (Hbl : k_blobs (drop_blob k kc) = remove_key k (k_blobs kc)) by exact (drop_blob_blobs _ _ _ Eb).
  assert (Hrest : k_next (drop_blob k kc) = k_next kc /\ k_handles (drop_blob k kc) = k_handles kc /\
                  k_nexth (drop_blob k kc) = k_nexth kc /\
                  forall c, assoc c (k_cells kc) = None -> assoc c (k_cells (drop_blob k kc)) = None).
  { unfold drop_blob. rewrite Eb. repeat split; auto. intros c. apply set_cell_cells_none. }
  destruct Hrest as (Hnx & Hhs & Hnh & Hcs).
  constructor.
  - constructor.
    + intros k' b' H'. rewrite Hbl in H'. destruct (N.eq_dec k' k) as [->|Hne]; [rewrite assoc_remove_eq in H'; discriminate|].
      rewrite assoc_remove_neq in H' by auto. rewrite Hcell.
      destruct (N.eqb_spec (b_cell b') (b_cell b)) as [E|_]; [exfalso; apply Hne; eapply Hi; eauto|]. eauto.
    + intros c Hun. rewrite Hcell. destruct (N.eqb_spec c (b_cell b)) as [->|Hne]; auto.
      apply Hn. intros k' b' H' E. destruct (N.eq_dec k' k) as [->|Hnk].
      * rewrite Eb in H'. inversion H'; subst. contradiction.
      * apply (Hun k' b'); auto. rewrite Hbl. now rewrite assoc_remove_neq.
    + intros k1 k2 b1 b2 H1 H2. rewrite Hbl in H1, H2.
      destruct (N.eq_dec k1 k) as [->|N1]; [rewrite assoc_remove_eq in H1; discriminate|].
      destruct (N.eq_dec k2 k) as [->|N2]; [rewrite assoc_remove_eq in H2; discriminate|].
      rewrite assoc_remove_neq in H1, H2 by auto. eauto.
    + intros k' b' H'. rewrite Hbl in H'. rewrite Hnx.
      destruct (N.eq_dec k' k) as [->|Hne]; [rewrite assoc_remove_eq in H'; discriminate|].
      rewrite assoc_remove_neq in H' by auto. eauto.
    + intros c Hc'. rewrite Hnx in Hc'. auto.
    + intros h c off Hh'. rewrite Hhs in Hh'. rewrite Hnx. eauto.
    + intros h Hh'. rewrite Hnh in Hh'. rewrite Hhs. auto.
  - intros h c off Hh'. rewrite Hhs. eauto.
  - intros c Hlt Hc'. rewrite Hcell. destruct (c =? b_cell b); auto.
  - intros k' b' H'. destruct (N.eq_dec k' k) as [->|Hne].
    + rewrite Eb in H'. inversion H'; subst. left. rewrite Hcell. now rewrite N.eqb_refl.
    + right. exists b'. split; auto. rewrite Hbl. now rewrite assoc_remove_neq.
  - lia.
  - lia.
Qed.

Lemma GT_add k sz d kc : CellInv kc -> assoc k (k_blobs kc) = None -> GT kc (add_blob k sz d kc).
Proof.
  intros HI Ek. pose proof HI as [Hl Hn Hi Hf Hc Hh Hhf].
  assert (Hnone : assoc (k_next kc) (k_cells kc) = None) by (apply Hc; lia).
  assert (Hcell : forall c, cell_of (add_blob k sz d kc) c = if c =? k_next kc then Some d else cell_of kc c)
    by (intros c; now apply cell_of_add_blob).
  constructor.
  - constructor.
    + intros k' b' H'. rewrite assoc_add_blob in H'. rewrite Hcell.
      destruct (assoc k' (k_blobs kc)) as [b0|] eqn:E0.
      * inversion H'; subst. pose proof (Hf _ _ E0). destruct (N.eqb_spec (b_cell b') (k_next kc)); [lia|eauto].
      * destruct (k =? k'); [|discriminate]. inversion H'; subst. cbn. rewrite N.eqb_refl. eauto.
    + intros c Hun. rewrite Hcell. destruct (N.eqb_spec c (k_next kc)) as [->|Hne].
      * exfalso. apply (Hun k (mkblob sz false false [] (k_next kc))); auto.
        rewrite assoc_add_blob, Ek, N.eqb_refl. reflexivity.
      * apply Hn. intros k' b' H'. apply (Hun k' b'). rewrite assoc_add_blob. now rewrite H'.
    + intros k1 k2 b1 b2 H1 H2 E. rewrite assoc_add_blob in H1, H2.
      destruct (assoc k1 (k_blobs kc)) as [x1|] eqn:E1; destruct (assoc k2 (k_blobs kc)) as [x2|] eqn:E2.
      * inversion H1; inversion H2; subst. eauto.
      * inversion H1; subst. destruct (N.eqb_spec k k2); [|discriminate]. inversion H2; subst. cbn in E.
        pose proof (Hf _ _ E1). lia.
      * inversion H2; subst. destruct (N.eqb_spec k k1); [|discriminate]. inversion H1; subst. cbn in E.
        pose proof (Hf _ _ E2). lia.
      * destruct (N.eqb_spec k k1); [|discriminate]. destruct (N.eqb_spec k k2); [|discriminate]. congruence.
    + intros k' b' H'. rewrite assoc_add_blob in H'. rewrite add_blob_next.
      destruct (assoc k' (k_blobs kc)) as [x|] eqn:E'.
      * inversion H'; subst. pose proof (Hf _ _ E'). lia.
      * destruct (k =? k'); [|discriminate]. inversion H'; subst. cbn. lia.
    + intros c Hc'. rewrite add_blob_next in Hc'. rewrite add_blob_cells, assoc_app. rewrite Hc by lia. cbn.
      destruct (N.eqb_spec (k_next kc) c); [lia|auto].
    + intros h c off Hh'. rewrite add_blob_handles in Hh'. rewrite add_blob_next. pose proof (Hh _ _ _ Hh'). lia.
    + intros h Hh'. rewrite add_blob_nexth in Hh'. rewrite add_blob_handles. auto.
  - intros h c off Hh'. rewrite add_blob_handles. eauto.
  - intros c Hlt Hc'. rewrite Hcell. destruct (N.eqb_spec c (k_next kc)); [lia|auto].
  - intros k' b' H'. right. exists b'. split; auto. rewrite assoc_add_blob. now rewrite H'.
  - rewrite add_blob_next. lia.
  - rewrite add_blob_nexth. lia.
Qed.

Lemma GT_upd k f kc : CellInv kc -> (forall b, b_cell (f b) = b_cell b) -> GT kc (upd_blob k f kc).
Proof.
  intros HI Hfc. pose proof HI as [Hl Hn Hi Hf Hc Hh Hhf].
  assert (Hback : forall k' b', assoc k' (k_blobs (upd_blob k f kc)) = Some b' ->
                  exists b0, assoc k' (k_blobs kc) = Some b0 /\ b_cell b0 = b_cell b').
  { intros k' b' H'. rewrite upd_blob_blobs in H'. destruct (N.eq_dec k' k) as [->|Hne].
    - rewrite assoc_update_eq in H'. destruct (assoc k (k_blobs kc)) as [b0|]; [|discriminate].
      inversion H'; subst. exists b0. split; auto; now rewrite Hfc.
    - rewrite assoc_update_neq in H' by auto. eauto. }
  assert (Hfwd : forall k' b0, assoc k' (k_blobs kc) = Some b0 ->
                 exists b', assoc k' (k_blobs (upd_blob k f kc)) = Some b' /\ b_cell b' = b_cell b0).
  { intros k' b0 H0. rewrite upd_blob_blobs. destruct (N.eq_dec k' k) as [->|Hne].
    - rewrite assoc_update_eq, H0. cbn. eauto.
    - rewrite assoc_update_neq by auto. eauto. }
  constructor.
  - constructor.
    + intros k' b' H'. destruct (Hback _ _ H') as [b0 [H0 E]]. rewrite cell_of_upd_blob, <- E. eauto.
    + intros c Hun. rewrite cell_of_upd_blob. apply Hn. intros k' b0 H0 E.
      destruct (Hfwd _ _ H0) as [b' [H' E']]. apply (Hun k' b'); auto. congruence.
    + intros k1 k2 b1 b2 H1 H2 E. destruct (Hback _ _ H1) as [x1 [G1 F1]]. destruct (Hback _ _ H2) as [x2 [G2 F2]].
      eapply Hi; eauto. congruence.
    + intros k' b' H'. destruct (Hback _ _ H') as [b0 [H0 E]]. rewrite <- E. change (k_next (upd_blob k f kc)) with (k_next kc). eauto.
    + auto.
    + auto.
    + auto.
  - intros h c off Hh'. eauto.
  - intros c _ Hc'. exact Hc'.
  - intros k' b0 H0. right. now apply Hfwd.
  - unfold upd_blob. cbn. lia.
  - unfold upd_blob. cbn. lia.
Qed.

(* a write through a live cell *)
Lemma GT_write c d' kc buf : CellInv kc -> cell_of kc c = Some buf -> GT kc (set_cell c (Some d') kc).
Proof.
  intros HI Hlive. pose proof HI as [Hl Hn Hi Hf Hc Hh Hhf].
  pose proof (cell_of_some_assoc _ _ _ Hlive) as Ha.
  assert (Hcell : forall c', cell_of (set_cell c (Some d') kc) c' = if c' =? c then Some d' else cell_of kc c').
  { intros c'. rewrite cell_of_set_cell, Ha. reflexivity. }
  constructor.
  - constructor.
    + intros k b H. rewrite set_cell_blobs in H. rewrite Hcell. destruct (b_cell b =? c); eauto.
    + intros c' Hun. rewrite Hcell. destruct (N.eqb_spec c' c) as [->|Hne].
      * exfalso. rewrite (Hn c) in Hlive; [discriminate|]. intros k b H. apply (Hun k b). now rewrite set_cell_blobs.
      * apply Hn. intros k b H. apply (Hun k b). now rewrite set_cell_blobs.
    + intros k1 k2 b1 b2 H1 H2. rewrite set_cell_blobs in H1, H2. eauto.
    + intros k b H. rewrite set_cell_blobs in H. rewrite set_cell_next. eauto.
    + intros c' Hc'. rewrite set_cell_next in Hc'. apply set_cell_cells_none. auto.
    + intros h c' off Hh'. rewrite set_cell_handles in Hh'. rewrite set_cell_next. eauto.
    + intros h Hh'. rewrite set_cell_nexth in Hh'. rewrite set_cell_handles. auto.
  - intros h c' off Hh'. rewrite set_cell_handles. eauto.
  - intros c' _ Hc'. rewrite Hcell. destruct (N.eqb_spec c' c) as [->|]; [congruence|auto].
  - intros k b H. right. exists b. rewrite set_cell_blobs. auto.
  - rewrite set_cell_next. lia.
  - rewrite set_cell_nexth. lia.
Qed.

Lemma assoc_handles_set_off h off kc h' :
  assoc h' (k_handles (set_off h off kc)) =
  if h' =? h then option_map (fun co => (fst co, off)) (assoc h (k_handles kc)) else assoc h' (k_handles kc).
Proof.
  unfold set_off. cbn [k_handles with_handles]. destruct (N.eqb_spec h' h) as [->|Hne].
  - now rewrite assoc_update_eq.
  - now rewrite assoc_update_neq.
Qed.

Lemma GT_set_off h off kc : CellInv kc -> GT kc (set_off h off kc).
Proof.
  intros HI. pose proof HI as [Hl Hn Hi Hf Hc Hh Hhf].
  constructor.
  - constructor; auto.
    + intros h' c o' H'. rewrite assoc_handles_set_off in H'. change (k_next (set_off h off kc)) with (k_next kc).
      destruct (h' =? h); [|eauto]. destruct (assoc h (k_handles kc)) as [[c0 o0]|] eqn:E; [|discriminate].
      inversion H'; subst. eauto.
    + intros h' H'. change (k_nexth (set_off h off kc)) with (k_nexth kc) in H'. rewrite assoc_handles_set_off.
      destruct (N.eqb_spec h' h) as [->|]; [|auto]. now rewrite (Hhf h H').
  - intros h' c o' H'. rewrite assoc_handles_set_off. destruct (N.eqb_spec h' h) as [->|]; [|eauto].
    rewrite H'. cbn. eauto.
  - intros c _ Hc'. exact Hc'.
  - intros k b H. right. eauto.
  - unfold set_off. cbn. lia.
  - unfold set_off. cbn. lia.
Qed.

Lemma GT_add_handle c kc : CellInv kc -> c < k_next kc -> GT kc (fst (add_handle c kc)).
Proof.
  intros HI Hlt. pose proof HI as [Hl Hn Hi Hf Hc Hh Hhf].
  constructor.
  - constructor; auto.
    + intros h c' off H'. cbn [fst add_handle k_handles k_next] in *. rewrite assoc_app in H'.
      destruct (assoc h (k_handles kc)) as [[c0 o0]|] eqn:E.
      * inversion H'; subst. eauto.
      * cbn in H'. destruct (k_nexth kc =? h); [|discriminate]. inversion H'; subst. exact Hlt.
    + intros h H'. cbn [fst add_handle k_handles k_nexth] in *. rewrite assoc_app, Hhf by lia. cbn.
      destruct (N.eqb_spec (k_nexth kc) h); [lia|auto].
  - intros h c' off H'. cbn [fst add_handle k_handles]. rewrite assoc_app, H'. eauto.
  - intros c' _ Hc'. exact Hc'.
  - intros k b H. right. eauto.
  - cbn. lia.
  - cbn. lia.
Qed.

(* ---------------------------------------------------------------- every step is a good transition *)
Lemma GT_then a b c : CellInv a -> GT a b -> (CellInv b -> GT b c) -> GT a c.
Proof. intros Ha Hab Hbc. eapply GT_trans; eauto. apply Hbc. apply (gt_inv _ _ Hab). Qed.

Lemma c_evict_GT fx space : forall q kc size, CellInv kc -> GT kc (fst (fst (fst (c_evict fx q kc size space)))).
Proof.
  induction q as [|k t IH]; intros kc size HI; cbn [c_evict].
  - destruct (c_fits fx (k_cap kc) size space); now apply GT_refl.
  - destruct (c_fits fx (k_cap kc) size space); [now apply GT_refl|].
    eapply GT_then; [exact HI|now apply GT_drop|]. intros HI'. now apply IH.
Qed.

Lemma c_clean_loop_GT target : forall keys c, CellInv (c_core c) -> GT (c_core c) (c_core (c_clean_loop c target keys)).
Proof.
  induction keys as [|k t IH]; intros c HI; cbn [c_clean_loop]; [now apply GT_refl|].
  destruct (c_size c <=? target); [now apply GT_refl|].
  destruct (assoc k (k_blobs (c_core c))) eqn:E; [|now apply IH].
  eapply GT_then; [exact HI|apply (GT_drop k); exact HI|]. intros HI'.
  apply (IH (c_delete c k b)). exact HI'.
Qed.

Lemma plain_GT bk kc o kc' r : plain_step bk kc o = Some (kc', r) -> CellInv kc -> GT kc kc'.
Proof.
  intros H HI. unfold plain_step in H.
  destruct o; plain_crush;
    try (now apply GT_refl);
    try (apply GT_upd; [exact HI|reflexivity]);
    try (now apply GT_set_off);
    try (eapply GT_write; eauto; fail).
  (* HWrite: the write, then the private offset *)
  eapply GT_then; [exact HI|eapply GT_write; eauto|]. intros HI'. now apply GT_set_off.
Qed.

Lemma GT_open_write_at kc b off data : CellInv kc -> GT kc (open_write_at kc b off data).
Proof.
  intros HI. unfold open_write_at. destruct (cell_of kc (b_cell b)) eqn:E; [|now apply GT_refl].
  destruct data; [now apply GT_refl|]. eapply GT_write; eauto.
Qed.

Lemma create_GT bk fx c k sz data : CellInv (c_core c) -> GT (c_core c) (c_core (fst (c_create bk fx c k sz data))).
Proof.
  intros HI. unfold c_create.
  destruct (negb (create_supported bk data)); [now apply GT_refl|].
  destruct (assoc k (k_blobs (c_core c))) eqn:Ek; [now apply GT_refl|].
  pose proof (c_evict_GT fx sz (c_queue c) (c_core c) (c_size c) HI) as HG.
  pose proof (c_evict_sub fx sz (c_queue c) (c_core c) (c_size c)) as Hs.
  destruct (c_evict fx (c_queue c) (c_core c) (c_size c) sz) as [[[kc1 size1] q1] ok]. cbn [fst snd] in *.
  destruct ok; [|exact HG].
  assert (Ek1 : assoc k (k_blobs kc1) = None).
  { destruct (assoc k (k_blobs kc1)) eqn:E; auto. apply Hs in E. congruence. }
  destruct data as [d|]; cbn [fst c_core].
  - eapply GT_then; [exact HI|exact HG|]. intros HI1. now apply GT_add.
  - eapply GT_then; [exact HI|exact HG|]. intros HI1.
    apply (GT_then kc1 (add_blob k sz [] kc1)); [exact HI1|now apply GT_add|]. intros HI2.
    apply GT_add_handle; auto. rewrite add_blob_next. lia.
Qed.

Theorem cstep_GT bk fx c o : CellInv (c_core c) -> GT (c_core c) (c_core (fst (cstep bk fx c o))).
Proof.
  intros HI. unfold cstep.
  destruct (plain_step bk (c_core c) o) as [[kc1 r]|] eqn:P.
  { cbn [fst c_core]. eapply plain_GT; eauto. }
  destruct o; cbn in P; try discriminate P; try (destruct bk; discriminate P); clear P.
  - now apply create_GT.
  - now apply create_GT.
  - destruct bk; [now apply GT_refl|].
    destruct (lookup (c_core c) k sc) as [b|e] eqn:L; [|now apply GT_refl]. cbn [fst c_core].
    apply lookup_inl in L. destruct L as [Hb _]. apply GT_add_handle; auto. eapply ci_fresh; eauto.
  - destruct (lookup (c_core c) k sc); now apply GT_refl.
  - destruct (lookup (c_core c) k sc); [|now apply GT_refl]. cbn [fst c_core]. now apply GT_open_write_at.
  - destruct (assoc k (k_blobs (c_core c))); [|now apply GT_refl].
    destruct (b_complete b); [now apply GT_refl|]. cbn [fst c_core]. apply GT_upd; auto.
  - destruct (lookup (c_core c) k sc); [|now apply GT_refl]. cbn [fst c_core c_delete]. now apply GT_drop.
  - destruct (lookup (c_core c) k sc); [|now apply GT_refl].
    destruct (b_banned b); [now apply GT_refl|]. cbn [fst c_core]. apply GT_upd; auto.
  - destruct (lookup (c_core c) k sc); [|now apply GT_refl].
    destruct (negb (b_banned b)); [now apply GT_refl|]. cbn [fst c_core]. apply GT_upd; auto.
  - destruct bk; [|now apply GT_refl].
    destruct ((pct <? 0) || (100 <=? pct))%Z; [now apply GT_refl|].
    pose proof (c_evict_GT fx (k_cap (c_core c) - clean_target (k_cap (c_core c)) pct) (c_queue c) (c_core c) (c_size c) HI) as HG.
    destruct (c_evict fx (c_queue c) (c_core c) (c_size c) (k_cap (c_core c) - clean_target (k_cap (c_core c)) pct)) as [[[kc1 size1] q1] ok].
    cbn [fst snd] in *. destruct ok; [exact HG|].
    destruct (order_legal kc1 order); [|now apply GT_refl]. cbn [fst].
    eapply GT_then; [exact HI|exact HG|]. intros HI1.
    apply (c_clean_loop_GT _ _ (mkc kc1 size1 q1)). exact HI1.
Qed.

Lemma crun_GT bk fx : forall ops c, CellInv (c_core c) -> GT (c_core c) (c_core (fst (crun bk fx c ops))).
Proof.
  induction ops as [|o t IH]; intros c HI; cbn [crun]; [now apply GT_refl|].
  pose proof (cstep_GT bk fx c o HI) as H1. destruct (cstep bk fx c o) as [c1 r]. cbn [fst] in H1.
  pose proof (IH c1 (gt_inv _ _ H1)) as H2. destruct (crun bk fx c1 t) as [c2 rs]. cbn [fst] in *.
  eapply GT_trans; eauto.
Qed.

Lemma crun_CellInv bk fx cap ops : CellInv (c_core (fst (crun bk fx (cinit cap) ops))).
Proof. apply (gt_inv _ _ (crun_GT bk fx ops (cinit cap) (ci_init cap))). Qed.

(* ---------------------------------------------------------------- metadata over histories *)
(* the value v written to (k, s) of the incarnation with cell cl is still what is stored there *)
Definition md_holds (kc : core) (k : key) (s : N) (cl : N) (v : list N) : Prop :=
  cell_of kc cl = None \/
  exists b, assoc k (k_blobs kc) = Some b /\ b_cell b = cl /\ assoc s (b_mds b) = Some v.

Lemma md_holds_step bk fx c o k s cl v :
  CellInv (c_core c) -> cl < k_next (c_core c) -> md_writes o k s = false ->
  md_holds (c_core c) k s cl v -> md_holds (c_core (fst (cstep bk fx c o))) k s cl v.
Proof.
  intros HI Hlt Hw [Hn|[b [Hb [Hc Hm]]]].
  - left. apply (gt_nil _ _ (cstep_GT bk fx c o HI)); auto.
  - destruct (md_frame bk fx c o k s b Hw Hb) as [Hgone|[b' [Hb' [Hc' Hm']]]].
    + left. destruct (gt_fwd _ _ (cstep_GT bk fx c o HI) _ _ Hb) as [Hn|[b' [Hb' _]]]; [congruence|congruence].
    + right. exists b'. repeat split; auto; congruence.
Qed.

Lemma md_holds_run bk fx k s cl v : forall ops c,
  CellInv (c_core c) -> cl < k_next (c_core c) -> forallb (fun o => negb (md_writes o k s)) ops = true ->
  md_holds (c_core c) k s cl v -> md_holds (c_core (fst (crun bk fx c ops))) k s cl v.
Proof.
  induction ops as [|o t IH]; intros c HI Hlt Hall H; cbn [crun]; auto.
  cbn [forallb] in Hall. apply andb_true_iff in Hall. destruct Hall as [Ho Ht]. apply negb_true_iff in Ho.
  pose proof (md_holds_step bk fx c o k s cl v HI Hlt Ho H) as H1.
  pose proof (cstep_GT bk fx c o HI) as G.
  destruct (cstep bk fx c o) as [c1 r]. cbn [fst] in *.
  specialize (IH c1 (gt_inv _ _ G)). destruct (crun bk fx c1 t) as [c2 rs]. cbn [fst] in *.
  apply IH; auto. pose proof (gt_next _ _ G). lia.
Qed.

(* metadata reads return the last value set: after a successful SetMd k _ s v, as long as no
   operation writes (k, s) (SetMd/DelMd/WriteAtMd on it, or completion of k when s is immovable),
   a read returns v for as long as the same incarnation of k is in the store *)
Theorem md_last_write_history bk fx cap ops1 k sc s v ops2 :
  let c0 := fst (crun bk fx (cinit cap) ops1) in
  snd (cstep bk fx c0 (SetMd k sc s v)) = OOk ->
  forallb (fun o => negb (md_writes o k s)) ops2 = true ->
  let c1 := fst (cstep bk fx c0 (SetMd k sc s v)) in
  let c2 := fst (crun bk fx c1 ops2) in
  incarnation (c_core c2) k = incarnation (c_core c1) k ->
  snd (cstep bk fx c2 (GetMd k SAny s)) = OBytes v.
Proof.
  intros c0 Hok Hall c1 c2 Hinc.
  pose proof (crun_CellInv bk fx cap ops1) as HI0. fold c0 in HI0.
  pose proof (cstep_GT bk fx c0 (SetMd k sc s v) HI0) as G1. fold c1 in G1.
  destruct (md_set bk fx c0 k sc s v Hok) as [Hmd _]. fold c1 in Hmd.
  unfold md_of in Hmd. destruct (assoc k (k_blobs (c_core c1))) as [b1|] eqn:Eb1; [|discriminate Hmd].
  pose proof (gt_inv _ _ G1) as HI1.
  assert (H1 : md_holds (c_core c1) k s (b_cell b1) v) by (right; exists b1; auto).
  pose proof (md_holds_run bk fx k s (b_cell b1) v ops2 c1 HI1 (ci_fresh _ HI1 _ _ Eb1) Hall H1) as H2. fold c2 in H2.
  unfold incarnation in Hinc. rewrite Eb1 in Hinc.
  destruct (assoc k (k_blobs (c_core c2))) as [b2|] eqn:Eb2; [|discriminate Hinc]. inversion Hinc as [Hcell].
  pose proof (gt_inv _ _ (crun_GT bk fx ops2 c1 HI1)) as HI2. fold c2 in HI2.
  destruct H2 as [Hn|[b [Hb [Hc Hm]]]].
  - destruct (ci_live _ HI2 _ _ Eb2) as [d Hd]. rewrite Hcell in Hd. congruence.
  - rewrite md_get. rewrite (lookup_any _ _ _ Eb2). unfold md_of. rewrite Eb2. rewrite Hb in Eb2. inversion Eb2; subst. now rewrite Hm.
Qed.

(* ---------------------------------------------------------------- who can change the content of a cell *)
Definition cell_mono (kc kc' : core) (cl : N) : Prop := cell_of kc' cl = cell_of kc cl \/ cell_of kc' cl = None.

Lemma cell_mono_refl kc cl : cell_mono kc kc cl. Proof. now left. Qed.

(* composition needs: nil stays nil in the second part *)
Lemma cell_mono_trans a b c cl : cell_mono a b cl -> cell_mono b c cl -> cell_mono a c cl.
Proof.
  intros [H1|H1] [H2|H2]; unfold cell_mono; rewrite ?H2, ?H1; auto.
Qed.

Lemma cell_mono_drop k kc cl : cell_mono kc (drop_blob k kc) cl.
Proof.
  destruct (assoc k (k_blobs kc)) as [b|] eqn:E; [|rewrite (drop_blob_absent _ _ E); apply cell_mono_refl].
  unfold cell_mono. rewrite (cell_of_drop _ _ _ _ E). destruct (cl =? b_cell b); auto.
  right. now destruct (assoc (b_cell b) (k_cells kc)).
Qed.

Lemma cell_mono_add k sz d kc cl : CellInv kc -> cl < k_next kc -> cell_mono kc (add_blob k sz d kc) cl.
Proof.
  intros HI Hlt. left. rewrite cell_of_add_blob by (apply (ci_cells _ HI); lia).
  destruct (N.eqb_spec cl (k_next kc)); [lia|reflexivity].
Qed.

Lemma cell_mono_set_cell c v kc cl : c <> cl -> cell_mono kc (set_cell c v kc) cl.
Proof. intros H. left. rewrite cell_of_set_cell. destruct (N.eqb_spec cl c); [congruence|reflexivity]. Qed.

Lemma c_evict_cell_mono fx space cl : forall q kc size, cell_mono kc (fst (fst (fst (c_evict fx q kc size space)))) cl.
Proof.
  induction q as [|k t IH]; intros kc size; cbn [c_evict].
  - destruct (c_fits fx (k_cap kc) size space); apply cell_mono_refl.
  - destruct (c_fits fx (k_cap kc) size space); [apply cell_mono_refl|].
    eapply cell_mono_trans; [apply cell_mono_drop|apply IH].
Qed.

Lemma c_clean_loop_cell_mono target cl : forall keys c, cell_mono (c_core c) (c_core (c_clean_loop c target keys)) cl.
Proof.
  induction keys as [|k t IH]; intros c; cbn [c_clean_loop]; [apply cell_mono_refl|].
  destruct (c_size c <=? target); [apply cell_mono_refl|].
  destruct (assoc k (k_blobs (c_core c))) eqn:E; [|apply IH].
  eapply cell_mono_trans; [apply (cell_mono_drop k)|apply (IH (c_delete c k b))].
Qed.

Lemma create_cell_mono bk fx c k sz data cl :
  CellInv (c_core c) -> cl < k_next (c_core c) -> cell_mono (c_core c) (c_core (fst (c_create bk fx c k sz data))) cl.
Proof.
  intros HI Hlt. unfold c_create.
  destruct (negb (create_supported bk data)); [apply cell_mono_refl|].
  destruct (assoc k (k_blobs (c_core c))); [apply cell_mono_refl|].
  pose proof (c_evict_cell_mono fx sz cl (c_queue c) (c_core c) (c_size c)) as HM.
  pose proof (c_evict_GT fx sz (c_queue c) (c_core c) (c_size c) HI) as HG.
  destruct (c_evict fx (c_queue c) (c_core c) (c_size c) sz) as [[[kc1 size1] q1] ok]. cbn [fst snd] in *.
  destruct ok; [|exact HM].
  assert (Hlt1 : cl < k_next kc1) by (pose proof (gt_next _ _ HG); lia).
  destruct data as [d|]; cbn [fst c_core].
  - eapply cell_mono_trans; [exact HM|]. apply cell_mono_add; auto. apply (gt_inv _ _ HG).
  - eapply cell_mono_trans; [exact HM|]. apply (cell_mono_add k sz [] kc1 cl (gt_inv _ _ HG) Hlt1).
Qed.

(* a step that is not a write through cell cl leaves cl's content as it is, or nils it *)
Theorem cell_frame bk fx c o cl :
  CellInv (c_core c) -> cl < k_next (c_core c) -> writes_cell (c_core c) o cl = false ->
  cell_mono (c_core c) (c_core (fst (cstep bk fx c o))) cl.
Proof.
  intros HI Hlt Hw. unfold cstep.
  destruct (plain_step bk (c_core c) o) as [[kc1 r]|] eqn:P.
  { cbn [fst c_core]. unfold plain_step in P.
    destruct o; cbn in Hw; plain_crush; try apply cell_mono_refl;
      try (left; reflexivity).
    all: unfold handle_of in *.
    all: try (eapply cell_mono_trans; [|left; reflexivity]).
    all: apply cell_mono_set_cell; intros ->.
    all: repeat match goal with
         | H : assoc ?h ?l = _, H' : assoc ?h ?l = _ |- _ => rewrite H in H'; first [discriminate H'|inversion H'; subst; clear H']
         end.
    all: try (rewrite N.eqb_refl in Hw; discriminate Hw). }
  destruct o; cbn in P; try discriminate P; try (destruct bk; discriminate P); clear P; cbn in Hw.
  - now apply create_cell_mono.
  - now apply create_cell_mono.
  - destruct bk; [apply cell_mono_refl|]. destruct (lookup (c_core c) k sc); [left; reflexivity|apply cell_mono_refl].
  - destruct (lookup (c_core c) k sc); apply cell_mono_refl.
  - destruct (lookup (c_core c) k sc) as [b|] eqn:L; [|apply cell_mono_refl]. cbn [fst c_core].
    apply lookup_inl in L. destruct L as [Hb _]. rewrite Hb in Hw. apply N.eqb_neq in Hw.
    unfold open_write_at. destruct (cell_of (c_core c) (b_cell b)); [|apply cell_mono_refl].
    destruct data; [apply cell_mono_refl|]. now apply cell_mono_set_cell.
  - destruct (assoc k (k_blobs (c_core c))); [|apply cell_mono_refl].
    destruct (b_complete b); [apply cell_mono_refl|left; reflexivity].
  - destruct (lookup (c_core c) k sc); [|apply cell_mono_refl]. cbn [fst c_core c_delete]. apply cell_mono_drop.
  - destruct (lookup (c_core c) k sc); [|apply cell_mono_refl]. destruct (b_banned b); [apply cell_mono_refl|left; reflexivity].
  - destruct (lookup (c_core c) k sc); [|apply cell_mono_refl]. destruct (negb (b_banned b)); [apply cell_mono_refl|left; reflexivity].
  - destruct bk; [|apply cell_mono_refl].
    destruct ((pct <? 0) || (100 <=? pct))%Z; [apply cell_mono_refl|].
    pose proof (c_evict_cell_mono fx (k_cap (c_core c) - clean_target (k_cap (c_core c)) pct) cl (c_queue c) (c_core c) (c_size c)) as HM.
    destruct (c_evict fx (c_queue c) (c_core c) (c_size c) (k_cap (c_core c) - clean_target (k_cap (c_core c)) pct)) as [[[kc1 size1] q1] ok].
    cbn [fst snd] in *. destruct ok; [exact HM|].
    destruct (order_legal kc1 order); [|apply cell_mono_refl]. cbn [fst].
    eapply cell_mono_trans; [exact HM|]. apply (c_clean_loop_cell_mono _ _ _ (mkc kc1 size1 q1)).
Qed.
