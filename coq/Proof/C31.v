(* C31: the theorems stated in Properties/C31.v. *)
From Coq Require Import List NArith Bool Lia.
From K.Model Require Import C31.
From K.Proof Require Import C31_base C31_inv C31_step C31_wit.
Import ListNotations.
Local Open Scope N_scope.

(* safety clause under the three conditions of Model.C31.guard, for every history *)
Theorem safety_partial : forall (nsof : N -> N) (fx : bool) (ops : list op),
  nice nsof fx init ops = true -> safe_state (fst (run fx init ops)) = true.
Proof.
  intros nsof fx ops H. eapply inv_safe. apply nice_inv; eauto. apply inv_init.
Qed.

(* spelled out: acknowledged and not yet in the backend => local copy present and row stored *)
Theorem safety_partial_explicit : forall (nsof : N -> N) (fx : bool) (ops : list op) k,
  nice nsof fx init ops = true ->
  let s := fst (run fx init ops) in
  kmem k (s_acked s) = true -> kmem k (s_back s) = false ->
  present (snd k) (s_files s) = true /\ persisted (snd k) (s_files s) = true /\ kmem k (s_tasks s) = true.
Proof.
  intros nsof fx ops k H s A B.
  assert (I : Inv nsof s) by (apply nice_inv; auto; apply inv_init).
  assert (E : k = kof nsof (snd k)) by (eapply keys_wf_kmem; [apply (i_acked _ _ I)|exact A]).
  rewrite E in A, B. pose proof (i_g2 _ _ I _ B A) as T. pose proof (i_g1 _ _ I _ B T) as P.
  split; [apply persisted_present; auto|split; auto]. rewrite E; exact T.
Qed.

(* the hypotheses are met by a non-trivial history (outage, failed execution, refused deletions,
   crash in the middle of an execution, forced cleanup that executes the write-back itself) *)
Definition nsof0 (d : N) : N := 0.
Definition nice_ops : list op :=
  benign_ops ++ upload 4 0 1 ++ [OSpawnFc 5 1] ++ steps 5 3 true ++ steps 5 5 true ++ steps 5 3 true.
Lemma nice_nonvacuous :
  nice nsof0 false init nice_ops = true /\ legal (snd (run false init nice_ops)) = true /\
  s_back (fst (run false init nice_ops)) = [(0, 0); (0, 1)] /\ s_files (fst (run false init nice_ops)) = [].
Proof. vm_compute. repeat split; reflexivity. Qed.

(* each condition is violated by the corresponding witness *)
Lemma witnesses_not_nice :
  nice nsof0 false init multi_ns_ops = false /\ nice nsof0 false init fc_race_ops = false /\
  nice nsof0 false init stale_ops = false /\ nice nsof0 true init stale_ops = true.
Proof. vm_compute. repeat split; reflexivity. Qed.

(* ---- eventual clause: after a restart with the backend up, one execution of the stored row
   delivers the blob (the row can always be handed to the executor: C30_progress_possible) *)
Definition deliver_ops (ns d : N) : list op :=
  [ORestart; OSpawnEx 0 ns d; OStep 0 true; OStep 0 true; OStep 0 true; OStep 0 true].

Lemma deliver_from : forall (nsof : N -> N) (fx : bool) s d,
  Inv nsof s -> kmem (kof nsof d) (s_acked s) = true -> kmem (kof nsof d) (s_back s) = false ->
  nice nsof fx s (deliver_ops (nsof d) d) = true /\
  legal (snd (run fx s (deliver_ops (nsof d) d))) = true /\
  kmem (kof nsof d) (s_back (fst (run fx s (deliver_ops (nsof d) d)))) = true.
Proof.
  intros nsof fx s d I A B.
  pose proof (i_g2 _ _ I _ B A) as T. pose proof (i_g1 _ _ I _ B T) as P.
  pose proof (persisted_present _ _ P) as Pr. unfold kof in *.
  unfold deliver_ops, nice, run, step, guard, legal.
  cbn [with_thr s_thr s_files s_tasks s_back s_acked fst snd tfree tlook].
  rewrite T. cbn [executing existsb negb andb app tlook N.eqb].
  cbn [step_thread exec_step with_thr s_thr s_files s_tasks s_back s_acked fst snd tset tlook N.eqb].
  rewrite B. rewrite andb_false_r.
  cbn [step_thread exec_step with_thr s_thr s_files s_tasks s_back s_acked fst snd tset tlook N.eqb].
  rewrite Pr.
  cbn [step_thread exec_step with_thr s_thr s_files s_tasks s_back s_acked fst snd tset tlook N.eqb].
  assert (O : (if fx then present d (s_files s) else true) = true) by (destruct fx; auto).
  rewrite O.
  cbn [step_thread exec_step with_thr s_thr s_files s_tasks s_back s_acked fst snd tset tlook N.eqb forallb andb].
  repeat split; auto. apply kmem_add_key_self.
Qed.

Theorem eventual_partial : forall (nsof : N -> N) (fx : bool) (ops : list op) k,
  nice nsof fx init ops = true ->
  kmem k (s_acked (fst (run fx init ops))) = true ->
  kmem k (s_back (fst (run fx init ops))) = true \/
  exists more, nice nsof fx (fst (run fx init ops)) more = true /\
               legal (snd (run fx (fst (run fx init ops)) more)) = true /\
               kmem k (s_back (fst (run fx (fst (run fx init ops)) more))) = true.
Proof.
  intros nsof fx ops k H A.
  assert (I : Inv nsof (fst (run fx init ops))) by (apply nice_inv; auto; apply inv_init).
  destruct (kmem k (s_back (fst (run fx init ops)))) eqn:B; auto. right.
  assert (E : k = kof nsof (snd k)) by (eapply keys_wf_kmem; [apply (i_acked _ _ I)|exact A]).
  exists (deliver_ops (nsof (snd k)) (snd k)). rewrite E in A, B |- *. cbn [snd kof].
  apply deliver_from; auto.
Qed.
