(* C39: piece status vector (agentstorage/pieces.go), persist flag (metadata/persist.go),
   last access time (metadata/last_access_time.go) *)
From Coq Require Import List NArith ZArith Bool Lia ZifyBool ZifyN ZifyNat.
From K.Model Require Import C39.
From K.Proof Require Import C39_hex.
Import ListNotations.
Local Open Scope N_scope.

(* ------------------------------------------------------------------ *)
(* piece status vector *)

Lemma status_norm_persistent : forall x, status_persistent x = true -> status_norm (x mod 256) = x.
Proof.
  intros x H. unfold status_persistent, st_empty, st_complete in H.
  assert (x = 0 \/ x = 1) as [E|E] by lia; subst; reflexivity.
Qed.

(* every vector of persisted statuses (empty / complete) is read back exactly *)
Theorem status_roundtrip : forall v, forallb status_persistent v = true -> status_parse (status_print v) = v.
Proof.
  induction v as [|x v IH]; intro H; [reflexivity|].
  cbn [forallb] in H. apply andb_true_iff in H. destruct H as [Hx Hv].
  unfold status_parse, status_print in *. cbn [map]. rewrite status_norm_persistent by assumption.
  rewrite IH by assumption. reflexivity.
Qed.

Lemma status_norm_range : forall x, status_persistent (status_norm x) = true.
Proof.
  intro x. unfold status_norm, status_persistent.
  destruct ((x =? st_empty) || (x =? st_complete)) eqn:E; [exact E|reflexivity].
Qed.

(* parsing never fails, keeps the length, yields persisted statuses only, and keeps every
   well-formed byte *)
Theorem status_parse_range : forall b,
  length (status_parse b) = length b /\ forallb status_persistent (status_parse b) = true.
Proof.
  intro b. unfold status_parse. split; [apply map_length|].
  induction b as [|x b IH]; [reflexivity|]. cbn [map forallb]. rewrite status_norm_range, IH. reflexivity.
Qed.

Theorem status_parse_wellformed_exact : forall b, forallb status_persistent b = true -> status_parse b = b.
Proof.
  induction b as [|x b IH]; intro H; [reflexivity|].
  cbn [forallb] in H. apply andb_true_iff in H. destruct H as [Hx Hb].
  unfold status_parse in *. cbn [map]. rewrite IH by assumption.
  unfold status_norm. unfold status_persistent in Hx. rewrite Hx. reflexivity.
Qed.

Theorem status_parse_print : forall b, status_parse (status_print (status_parse b)) = status_parse b.
Proof. intro b. apply status_roundtrip. apply status_parse_range. Qed.

(* a dirty piece (in-flight write, never persisted by the code) is read back as empty *)
Theorem status_dirty_refuted : exists v, status_parse (status_print v) <> v.
Proof. exists [st_dirty]. vm_compute. discriminate. Qed.

(* ------------------------------------------------------------------ *)
(* persist flag *)

Theorem persist_roundtrip : forall b, persist_parse (persist_print b) = Ok b.
Proof. destruct b; reflexivity. Qed.

Lemma mem_str_In : forall s l, mem_str s l = true <-> In s l.
Proof.
  intros s l. unfold mem_str. rewrite existsb_exists. split.
  - intros [x [Hx E]]. apply leqb_eq in E. subst. exact Hx.
  - intro H. exists s. split; [exact H|apply leqb_refl].
Qed.

Lemma spellings_disjoint : forall s, In s false_spellings -> mem_str s true_spellings = false.
Proof.
  intros s H. cbn in H. repeat (destruct H as [H|H]; [subst; reflexivity|]). destruct H.
Qed.

(* accepted <-> one of strconv.ParseBool's spellings of that value *)
Theorem persist_accepts : forall s b,
  persist_parse s = Ok b <-> In s (if b then true_spellings else false_spellings).
Proof.
  intros s b. unfold persist_parse. split.
  - destruct (mem_str s true_spellings) eqn:T.
    + intro H. inversion H; subst. apply mem_str_In. exact T.
    + destruct (mem_str s false_spellings) eqn:F; [|discriminate].
      intro H. inversion H; subst. apply mem_str_In. exact F.
  - destruct b; intro H.
    + apply mem_str_In in H. rewrite H. reflexivity.
    + rewrite (spellings_disjoint _ H). apply mem_str_In in H. rewrite H. reflexivity.
Qed.

Theorem persist_rejects : forall s,
  persist_parse s = Err <-> (~ In s true_spellings /\ ~ In s false_spellings).
Proof.
  intro s. unfold persist_parse. rewrite <- !mem_str_In.
  destruct (mem_str s true_spellings); [split; [discriminate|intros [H _]; exfalso; auto]|].
  destruct (mem_str s false_spellings); [split; [discriminate|intros [_ H]; exfalso; auto]|].
  split; [intros _; split; discriminate|reflexivity].
Qed.

Theorem persist_parse_print : forall s b, persist_parse s = Ok b -> persist_parse (persist_print b) = Ok b.
Proof. intros s b _. apply persist_roundtrip. Qed.

(* ------------------------------------------------------------------ *)
(* last access time: zig-zag *)

Local Open Scope Z_scope.

Lemma int64b_spec : forall z, int64b z = true <-> - 2 ^ 63 <= z < 2 ^ 63.
Proof. intro z. unfold int64b. lia. Qed.

Lemma zigzag_range : forall z, int64b z = true -> (zigzag z < 2 ^ 64)%N.
Proof.
  intros z H. apply int64b_spec in H. unfold zigzag.
  change (2 ^ 63) with 9223372036854775808 in H. change (2 ^ 64)%N with 18446744073709551616%N.
  destruct (z <? 0) eqn:E; lia.
Qed.

Lemma N_even_double : forall k : N, N.even (2 * k) = true.
Proof. intro k. rewrite N.even_mul. reflexivity. Qed.
Lemma N_even_double1 : forall k : N, N.even (2 * k + 1) = false.
Proof. intro k. rewrite N.even_add, N_even_double. reflexivity. Qed.
Lemma N_div2_double : forall k : N, (2 * k / 2 = k)%N.
Proof. intro k. rewrite N.mul_comm. apply N.div_mul. discriminate. Qed.
Lemma N_div2_double1 : forall k : N, ((2 * k + 1) / 2 = k)%N.
Proof. intro k. symmetry. apply N.div_unique with (r := 1%N); lia. Qed.

Theorem unzigzag_zigzag : forall z, unzigzag (zigzag z) = z.
Proof.
  intro z. unfold zigzag, unzigzag. destruct (z <? 0) eqn:E.
  - replace (Z.to_N (- 2 * z - 1)) with (2 * Z.to_N (- z - 1) + 1)%N by lia.
    rewrite N_even_double1, N_div2_double1. lia.
  - replace (Z.to_N (2 * z)) with (2 * Z.to_N z)%N by lia.
    rewrite N_even_double, N_div2_double. lia.
Qed.

Lemma unzigzag_range : forall u, (u < 2 ^ 64)%N -> int64b (unzigzag u) = true.
Proof.
  intros u H. apply int64b_spec. unfold unzigzag.
  change (2 ^ 64)%N with 18446744073709551616%N in H. change (2 ^ 63) with 9223372036854775808.
  assert (u / 2 < 9223372036854775808)%N by (apply N.div_lt_upper_bound; lia).
  destruct (N.even u); lia.
Qed.

Local Open Scope N_scope.

(* ------------------------------------------------------------------ *)
(* uvarint *)

Lemma pow128_succ : forall f, 128 ^ N.of_nat (S f) = 128 * 128 ^ N.of_nat f.
Proof. intro f. rewrite Nat2N.inj_succ, N.pow_succ_r'. reflexivity. Qed.

Lemma pow128_pos : forall f, 1 <= 128 ^ N.of_nat f.
Proof. intro f. pose proof (N.pow_nonzero 128 (N.of_nat f)). lia. Qed.

Lemma uvarint_enc_length : forall fuel u, (length (uvarint_enc fuel u) <= fuel)%nat.
Proof.
  induction fuel as [|f IH]; intro u; cbn [uvarint_enc length]; [lia|].
  destruct (u <? 128); cbn [length]; [lia|]. specialize (IH (u / 128)). lia.
Qed.

Lemma uvarint_enc_step : forall f u,
  uvarint_enc (S f) u = if u <? 128 then [u] else (u mod 128 + 128) :: uvarint_enc f (u / 128).
Proof. reflexivity. Qed.

Lemma uvarint_dec_step : forall i b t,
  uvarint_dec i (b :: t) =
  if Nat.eqb i 10 then None
  else if b <? 128 then (if Nat.eqb i 9 && (1 <? b) then None else Some b)
  else match uvarint_dec (S i) t with Some r => Some (b mod 128 + 128 * r) | None => None end.
Proof. reflexivity. Qed.

(* decoding what was encoded, whatever follows: i = index of the first byte, i + (g+1) = 10,
   u < 2 * 128^g says that u fits the 64 - 7i bits that are left *)
Lemma uvarint_dec_enc : forall g i u tail,
  (i + S g = 10)%nat -> u < 2 * 128 ^ N.of_nat g ->
  uvarint_dec i (uvarint_enc (S g) u ++ tail) = Some u.
Proof.
  induction g as [|g IH]; intros i u tail Hi Hu.
  - change (128 ^ N.of_nat 0) with 1 in Hu. rewrite uvarint_enc_step.
    replace (u <? 128) with true by lia. cbn [app]. rewrite uvarint_dec_step.
    replace (Nat.eqb i 10) with false by (symmetry; apply Nat.eqb_neq; lia).
    replace (u <? 128) with true by lia. replace (1 <? u) with false by lia.
    rewrite andb_false_r. reflexivity.
  - rewrite uvarint_enc_step. rewrite pow128_succ in Hu.
    destruct (u <? 128) eqn:E.
    + cbn [app]. rewrite uvarint_dec_step, E.
      replace (Nat.eqb i 10) with false by (symmetry; apply Nat.eqb_neq; lia).
      replace (Nat.eqb i 9) with false by (symmetry; apply Nat.eqb_neq; lia). reflexivity.
    + cbn [app]. rewrite uvarint_dec_step.
      replace (Nat.eqb i 10) with false by (symmetry; apply Nat.eqb_neq; lia).
      assert (Hm : u mod 128 < 128) by (apply N.mod_upper_bound; lia).
      replace (u mod 128 + 128 <? 128) with false by lia.
      pose proof (N.div_mod u 128 ltac:(lia)) as DM.
      assert (Hmm : (u mod 128 + 128) mod 128 = u mod 128).
      { symmetry. apply N.mod_unique with (q := 1); lia. }
      rewrite IH; [rewrite Hmm; f_equal; lia | lia |].
      apply N.div_lt_upper_bound; lia.
Qed.

Lemma uvarint_dec_app : forall b i u t, uvarint_dec i b = Some u -> uvarint_dec i (b ++ t) = Some u.
Proof.
  induction b as [|x b IH]; intros i u t H; [discriminate|].
  cbn [app]. rewrite uvarint_dec_step in *.
  destruct (Nat.eqb i 10); [discriminate|].
  destruct (x <? 128); [exact H|].
  destruct (uvarint_dec (S i) b) as [r|] eqn:R; [|discriminate].
  rewrite (IH _ _ t R). exact H.
Qed.

Lemma uvarint_dec_10 : forall b, uvarint_dec 10 b = None.
Proof. destruct b; reflexivity. Qed.

(* an accepted value fits 64 bits *)
Lemma uvarint_dec_bound : forall b i g u,
  (i + S g = 10)%nat -> uvarint_dec i b = Some u -> u < 2 * 128 ^ N.of_nat g.
Proof.
  induction b as [|x b IH]; intros i g u Hi H; [discriminate|].
  rewrite uvarint_dec_step in H.
  replace (Nat.eqb i 10) with false in H by (symmetry; apply Nat.eqb_neq; lia).
  destruct (x <? 128) eqn:Ex.
  - destruct (Nat.eqb i 9) eqn:E9.
    + apply Nat.eqb_eq in E9. assert (g = O) by lia. subst g. change (128 ^ N.of_nat 0) with 1.
      destruct (1 <? x) eqn:E1; cbn [andb] in H; [discriminate|]. inversion H; subst. lia.
    + apply Nat.eqb_neq in E9. cbn [andb] in H. inversion H; subst.
      destruct g as [|g]; [lia|]. rewrite pow128_succ. pose proof (pow128_pos g). lia.
  - destruct (uvarint_dec (S i) b) as [r|] eqn:R; [|discriminate].
    destruct g as [|g].
    + assert (S i = 10%nat) by lia. rewrite H0, uvarint_dec_10 in R. discriminate.
    + assert (Hu : u = x mod 128 + 128 * r) by congruence. subst u. clear H.
      specialize (IH (S i) g r ltac:(lia) R). rewrite pow128_succ.
      pose proof (N.mod_upper_bound x 128 ltac:(lia)). lia.
Qed.

(* the independent well-formedness predicate describes exactly what is accepted *)
Theorem varint_wf_accepts : forall b i, (i <= 10)%nat ->
  varint_wf_from i b = match uvarint_dec i b with Some _ => true | None => false end.
Proof.
  induction b as [|x b IH]; intros i Hi; [reflexivity|].
  cbn [varint_wf_from]. rewrite uvarint_dec_step.
  destruct (Nat.eqb i 10) eqn:E10.
  - apply Nat.eqb_eq in E10. subst i. destruct (x <? 128); reflexivity.
  - apply Nat.eqb_neq in E10. destruct (x <? 128) eqn:Ex.
    + destruct (Nat.eqb i 9) eqn:E9.
      * apply Nat.eqb_eq in E9. subst i. cbn [Nat.ltb Nat.leb orb andb].
        destruct (1 <? x) eqn:E1; lia.
      * apply Nat.eqb_neq in E9. cbn [andb]. replace (Nat.ltb i 9) with true; [reflexivity|].
        symmetry. apply Nat.ltb_lt. lia.
    + destruct (Nat.ltb i 9) eqn:L9.
      * apply Nat.ltb_lt in L9. cbn [andb]. rewrite IH by lia.
        destruct (uvarint_dec (S i) b); reflexivity.
      * apply Nat.ltb_ge in L9. assert (i = 9%nat) by lia. subst i. cbn [andb].
        destruct b as [|y b']; [reflexivity|]. rewrite uvarint_dec_step. reflexivity.
Qed.

(* number of bytes of an encoding *)
Lemma uvarint_enc_len_small : forall fuel u k,
  u < 128 ^ N.of_nat k -> (1 <= k)%nat -> (length (uvarint_enc fuel u) <= k)%nat.
Proof.
  induction fuel as [|f IH]; intros u k Hu Hk; [cbn; lia|].
  rewrite uvarint_enc_step. destruct (u <? 128) eqn:E; cbn [length]; [lia|].
  destruct k as [|k]; [lia|]. rewrite pow128_succ in Hu.
  destruct k as [|k]; [change (128 ^ N.of_nat 0) with 1 in Hu; lia|].
  assert (u / 128 < 128 ^ N.of_nat (S k)) by (apply N.div_lt_upper_bound; lia).
  specialize (IH (u / 128) (S k) H ltac:(lia)). lia.
Qed.

Lemma uvarint_enc_len_bound : forall fuel u k,
  (length (uvarint_enc fuel u) <= k)%nat -> (k < fuel)%nat -> u < 128 ^ N.of_nat k.
Proof.
  induction fuel as [|f IH]; intros u k Hl Hk; [lia|].
  rewrite uvarint_enc_step in Hl. destruct (u <? 128) eqn:E; cbn [length] in Hl.
  - destruct k as [|k]; [lia|]. rewrite pow128_succ. pose proof (pow128_pos k). lia.
  - destruct k as [|k]; [lia|]. rewrite pow128_succ.
    specialize (IH (u / 128) k ltac:(lia) ltac:(lia)).
    pose proof (N.div_mod u 128 ltac:(lia)). pose proof (N.mod_upper_bound u 128 ltac:(lia)). lia.
Qed.

(* ------------------------------------------------------------------ *)
(* LastAccessTime.Serialize / Deserialize *)

Lemma lat_print_buf_ok : forall n z, (length (uvarint_enc 10 (zigzag z)) <= n)%nat ->
  lat_print_buf n z = Ok (uvarint_enc 10 (zigzag z) ++ repeat 0 (n - length (uvarint_enc 10 (zigzag z)))).
Proof.
  intros n z H. unfold lat_print_buf. apply Nat.leb_le in H. rewrite H. reflexivity.
Qed.

(* with the 10-byte buffer Serialize never panics, for any time *)
Theorem lat_print_total : forall z, exists b, lat_print z = Ok b /\ length b = 10%nat.
Proof.
  intro z. unfold lat_print. pose proof (uvarint_enc_length 10 (zigzag z)) as L.
  rewrite lat_print_buf_ok by exact L. eexists. split; [reflexivity|].
  rewrite app_length, repeat_length. lia.
Qed.

Lemma pow128_9 : 2 * 128 ^ N.of_nat 9 = 2 ^ 64.
Proof. reflexivity. Qed.

Lemma lat_parse_enc : forall z tail, int64b z = true ->
  lat_parse (uvarint_enc 10 (zigzag z) ++ tail) = Ok z.
Proof.
  intros z tail H. unfold lat_parse.
  rewrite uvarint_dec_enc; [rewrite unzigzag_zigzag; reflexivity|reflexivity|].
  rewrite pow128_9. apply (zigzag_range z H).
Qed.

(* every time with int64 Unix seconds is written and read back exactly *)
Theorem lat_roundtrip : forall z, int64b z = true ->
  exists b, lat_print z = Ok b /\ length b = 10%nat /\ lat_parse b = Ok z.
Proof.
  intros z H. destruct (lat_print_total z) as [b [P L]]. exists b. split; [exact P|]. split; [exact L|].
  unfold lat_print in P. rewrite lat_print_buf_ok in P by apply uvarint_enc_length.
  inversion P; subst. apply lat_parse_enc. exact H.
Qed.

(* an accepted buffer holds int64 seconds, and printing them parses to the same time *)
Theorem lat_parse_range : forall b z, lat_parse b = Ok z -> int64b z = true.
Proof.
  intros b z. unfold lat_parse. destruct (uvarint_dec 0 b) as [u|] eqn:D; [|discriminate].
  intro H. inversion H; subst. apply unzigzag_range.
  pose proof (uvarint_dec_bound b 0 9 u eq_refl D) as B. rewrite pow128_9 in B. exact B.
Qed.

Theorem lat_parse_print : forall b z, lat_parse b = Ok z ->
  exists p, lat_print z = Ok p /\ lat_parse p = Ok z.
Proof.
  intros b z H. apply lat_parse_range in H. destruct (lat_roundtrip z H) as [p [P [_ R]]]. eauto.
Qed.

(* bytes after the terminating byte are ignored (zero padding, longer or shorter buffers) *)
Theorem lat_parse_trailing : forall b t z, lat_parse b = Ok z -> lat_parse (b ++ t) = Ok z.
Proof.
  intros b t z. unfold lat_parse. destruct (uvarint_dec 0 b) as [u|] eqn:D; [|discriminate].
  rewrite (uvarint_dec_app _ _ _ t D). auto.
Qed.

Theorem lat_accepts_wellformed_only : forall b,
  (exists z, lat_parse b = Ok z) <-> varint_wf_from 0 b = true.
Proof.
  intro b. rewrite varint_wf_accepts by lia. unfold lat_parse.
  destruct (uvarint_dec 0 b); split; intro H; eauto; try discriminate. destruct H; discriminate.
Qed.

(* ---- the code as found (8-byte buffer) ---- *)

Local Open Scope Z_scope.

Lemma zigzag_small : forall z, (zigzag z < 128 ^ N.of_nat 8)%N <-> - 2 ^ 55 <= z < 2 ^ 55.
Proof.
  intro z. change (128 ^ N.of_nat 8)%N with 72057594037927936%N. change (2 ^ 55) with 36028797018963968.
  unfold zigzag. destruct (z <? 0) eqn:E; lia.
Qed.

(* Serialize with the 8-byte buffer works exactly for |seconds| < 2^55 (and -2^55) ... *)
Theorem lat_prefix_domain : forall z,
  (exists b, lat_print_prefix z = Ok b) <-> - 2 ^ 55 <= z < 2 ^ 55.
Proof.
  intro z. rewrite <- zigzag_small. unfold lat_print_prefix, lat_print_buf.
  destruct (Nat.leb (length (uvarint_enc 10 (zigzag z))) 8) eqn:L.
  - apply Nat.leb_le in L. split; [intros _|eauto].
    apply uvarint_enc_len_bound with (fuel := 10%nat); [exact L|lia].
  - apply Nat.leb_gt in L. split; [intros [b H]; discriminate|].
    intro H. apply (uvarint_enc_len_small 10) in H; lia.
Qed.

(* ... and panics for every other time *)
Theorem lat_prefix_panics : forall z, ~ (- 2 ^ 55 <= z < 2 ^ 55) -> lat_print_prefix z = Panic.
Proof.
  intros z H. rewrite <- lat_prefix_domain in H. unfold lat_print_prefix, lat_print_buf in *.
  destruct (Nat.leb (length (uvarint_enc 10 (zigzag z))) 8); [exfalso; eauto|reflexivity].
Qed.

Theorem lat_prefix_refuted : exists z, int64b z = true /\ lat_print_prefix z = Panic.
Proof. exists (2 ^ 55). split; vm_compute; reflexivity. Qed.

(* within its domain the 8-byte form round-trips, and the 10-byte form is the same bytes plus
   two zero bytes: files written before the fix stay readable, files written after it are
   readable by the old reader *)
Theorem lat_prefix_compatible : forall z b8, lat_print_prefix z = Ok b8 ->
  lat_parse b8 = Ok z /\ lat_print z = Ok (b8 ++ [0; 0]%N).
Proof.
  intros z b8 H.
  assert (D : - 2 ^ 55 <= z < 2 ^ 55) by (apply lat_prefix_domain; eauto).
  assert (I : int64b z = true) by (apply int64b_spec; lia).
  unfold lat_print_prefix, lat_print, lat_print_buf in *.
  set (e := uvarint_enc 10 (zigzag z)) in *.
  destruct (Nat.leb (length e) 8) eqn:L; [|discriminate]. apply Nat.leb_le in L.
  assert (Hb : b8 = e ++ repeat 0%N (8 - length e)) by congruence. subst b8. clear H.
  split; [apply lat_parse_enc; exact I|].
  replace (Nat.leb (length e) 10) with true by (symmetry; apply Nat.leb_le; lia).
  rewrite <- app_assoc. f_equal. f_equal.
  change [0%N; 0%N] with (repeat 0%N 2). rewrite <- repeat_app. f_equal. lia.
Qed.
