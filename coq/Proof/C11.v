(* C11 — proofs.  Lexical facts about Clean/Join/Dir (on top of Proof/PathLib.v, imported read-only),
   the characterisation of the name check, and containment of every path of a file entry. *)
From Coq Require Import List NArith ZArith Bool Lia.
From K.Model Require Import PathLib C11.
From K.Proof Require Import PathLib.
From K.Gen Require Import C11_consts.
Import ListNotations.
Local Open Scope N_scope.

(* ------------------------------------------------------------------ small string facts *)

Lemma str_eqb_false : forall a b, a <> b -> str_eqb a b = false.
Proof.
  intros a b H. destruct (str_eqb a b) eqn:E; [|reflexivity].
  apply str_eqb_eq in E. contradiction.
Qed.

Lemma prefixb_spec : forall p s, prefixb p s = true <-> exists t, s = p ++ t.
Proof.
  induction p as [|x p IH]; intros s; split.
  - intros _. exists s. reflexivity.
  - reflexivity.
  - destruct s as [|y s]; [discriminate|]. cbn. intro H. apply andb_true_iff in H as [H1 H2].
    apply N.eqb_eq in H1. subst. apply IH in H2 as [t Ht]. exists t. subst. reflexivity.
  - intros [t Ht]. subst. cbn. rewrite N.eqb_refl. apply IH. exists t. reflexivity.
Qed.

Lemma is_rooted_prefixb : forall s, prefixb [slash] s = is_rooted s.
Proof. intros [|c s]; [reflexivity|]. cbn [prefixb is_rooted]. rewrite andb_true_r. apply N.eqb_sym. Qed.

Lemma forallb_rev : forall (f : str -> bool) l, forallb f (rev l) = forallb f l.
Proof.
  intros f l. induction l as [|x l IH]; [reflexivity|].
  cbn [rev]. rewrite forallb_app, IH. cbn. rewrite andb_true_r. apply andb_comm.
Qed.

Lemma comps_nonnil : forall s, comps s <> [].
Proof. intro s. apply split_on_nonempty. Qed.

(* ------------------------------------------------------------------ Clean on ordinary relative paths *)

Lemma normal_not_rooted : forall q, normal_path q = true -> is_rooted q = false.
Proof.
  intros [|c q] H; [discriminate|].
  unfold normal_path, comps in H. cbn [split_on] in H. cbn [is_rooted].
  destruct (c =? slash); [discriminate|reflexivity].
Qed.

Lemma cstack_normal : forall r q, normal_path q = true -> cstack r q = rev (comps q).
Proof.
  intros r q H. unfold cstack. unfold normal_path in H.
  rewrite fold_push_normal by exact H. apply app_nil_r.
Qed.

Lemma render_comps : forall q, render false (comps q) = q.
Proof.
  intro q. unfold render. destruct (comps q) eqn:E; [exfalso; exact (comps_nonnil q E)|].
  rewrite <- E. apply join_comps.
Qed.

Theorem clean_normal : forall q, normal_path q = true -> clean q = q.
Proof.
  intros q H. rewrite clean_eq, (normal_not_rooted _ H), (cstack_normal _ _ H), rev_involutive.
  apply render_comps.
Qed.

Lemma clean_dot_app : forall q, normal_path q = true -> clean ([dot] ++ slash :: q) = q.
Proof.
  intros q H. rewrite clean_eq.
  change (is_rooted ([dot] ++ slash :: q)) with false.
  rewrite cstack_app. change (cstack false [dot]) with (@nil str).
  unfold normal_path in H. rewrite fold_push_normal by exact H.
  rewrite app_nil_r, rev_involutive. apply render_comps.
Qed.

Lemma clean_stack_nonempty : forall x,
  cstack (is_rooted x) x <> [] -> clean x <> [dot] /\ clean x <> [slash].
Proof.
  intros x Hst. pose proof (cstack_clean x) as Hc. pose proof (is_rooted_clean x) as Hr.
  split; intro E; rewrite E in Hc, Hr.
  - cbn in Hr. rewrite <- Hr in Hc. apply Hst. rewrite <- Hr. rewrite <- Hc. reflexivity.
  - cbn in Hr. rewrite <- Hr in Hc. apply Hst. rewrite <- Hr. rewrite <- Hc. reflexivity.
Qed.

(* ------------------------------------------------------------------ Join(dir, q) for an ordinary relative q *)

Lemma clean_nil : clean [] = [dot].
Proof. reflexivity. Qed.

Theorem join2_under : forall dir q, normal_path q = true -> join [dir; q] = under (clean dir) q.
Proof.
  intros dir q Hq. pose proof (normal_path_nonnil _ Hq) as Hne.
  destruct dir as [|c d].
  - rewrite join_nil_l by exact Hne. rewrite clean_nil. cbn. apply clean_normal. exact Hq.
  - set (x := c :: d). assert (Hx : x <> []) by discriminate.
    rewrite join_two_nonnil by assumption.
    rewrite <- clean_clean_app by exact Hx.
    destruct (cstack (is_rooted x) x) as [|e st] eqn:Est.
    + destruct (is_rooted x) eqn:Er.
      * destruct (clean_app_normal_root x q Er Est Hq) as [Hc Hres]. rewrite Hres, Hc. reflexivity.
      * assert (Hc : clean x = [dot]) by (rewrite clean_eq, Er, Est; reflexivity).
        rewrite Hc. cbn [under str_eqb]. change (str_eqb [dot] [dot]) with true. cbn iota.
        apply clean_dot_app. exact Hq.
    + assert (Hst : cstack (is_rooted x) x <> []) by (rewrite Est; discriminate).
      rewrite clean_app_normal by assumption.
      destruct (clean_stack_nonempty x Hst) as [H1 H2].
      unfold under. rewrite (str_eqb_false _ _ H1), (str_eqb_false _ _ H2). reflexivity.
Qed.

Lemma clean_under : forall dir q, normal_path q = true ->
  clean (under (clean dir) q) = under (clean dir) q.
Proof.
  intros dir q Hq. rewrite <- join2_under by exact Hq.
  pose proof (normal_path_nonnil _ Hq) as Hne.
  destruct dir as [|c d].
  - rewrite join_nil_l by exact Hne. apply clean_idem.
  - rewrite join_two_nonnil by (try discriminate; exact Hne). apply clean_idem.
Qed.

Lemma under_app : forall C a b, under C (a ++ slash :: b) = under C a ++ slash :: b.
Proof.
  intros C a b. unfold under. destruct (str_eqb C [dot]); [reflexivity|].
  destruct (str_eqb C [slash]); [reflexivity|]. rewrite <- app_assoc. reflexivity.
Qed.

Lemma under_nonnil : forall C a, a <> [] -> under C a <> [].
Proof.
  intros C a Ha. unfold under. destruct (str_eqb C [dot]); [exact Ha|].
  destruct (str_eqb C [slash]); [discriminate|]. destruct C; discriminate.
Qed.

Lemma under_inj : forall C a b, under C a = under C b -> a = b.
Proof.
  intros C a b. unfold under. destruct (str_eqb C [dot]); [auto|].
  destruct (str_eqb C [slash]); [intro H; inversion H; reflexivity|].
  intro H. apply app_inv_head in H. inversion H. reflexivity.
Qed.

(* ------------------------------------------------------------------ containment *)

Lemma strip_prefix_app : forall l r, strip_prefix l (l ++ r) = Some r.
Proof.
  induction l as [|x l IH]; intro r; [reflexivity|]. cbn. rewrite str_eqb_refl. apply IH.
Qed.

Theorem inside_under : forall dir q, normal_path q = true ->
  inside (clean dir) (under (clean dir) q) = true.
Proof.
  intros dir q Hq. pose proof (normal_path_nonnil _ Hq) as Hne.
  rewrite <- join2_under by exact Hq. unfold inside. rewrite is_rooted_clean.
  destruct dir as [|c d].
  - rewrite join_nil_l by exact Hne. rewrite clean_nil.
    change (is_rooted []) with false. rewrite is_rooted_clean, (normal_not_rooted _ Hq).
    change (cstack false [dot]) with (@nil str). cbn [rev strip_prefix eqb].
    pose proof (cstack_clean q) as Hc. rewrite (normal_not_rooted _ Hq) in Hc. rewrite Hc.
    rewrite (cstack_normal _ _ Hq), rev_involutive.
    destruct (comps q) eqn:E; [exfalso; exact (comps_nonnil q E)|]. rewrite <- E. exact Hq.
  - set (x := c :: d). assert (Hx : x <> []) by discriminate.
    rewrite join_two_nonnil by assumption.
    set (Y := x ++ slash :: q).
    assert (HrY : is_rooted Y = is_rooted x) by (apply is_rooted_app; exact Hx).
    rewrite is_rooted_clean, HrY, eqb_reflx. cbn [andb].
    pose proof (cstack_clean x) as Hcx. rewrite Hcx.
    pose proof (cstack_clean Y) as HcY. rewrite HrY in HcY. rewrite HcY.
    unfold Y. rewrite cstack_app. unfold normal_path in Hq. rewrite fold_push_normal by exact Hq.
    rewrite rev_app_distr, rev_involutive, strip_prefix_app.
    destruct (comps q) eqn:E; [exfalso; exact (comps_nonnil q E)|]. exact Hq.
Qed.

(* what [inside] excludes: the root itself and anything reached through ".." *)
Lemma strip_prefix_self : forall l, strip_prefix l l = Some [].
Proof. intro l. rewrite <- (app_nil_r l) at 2. apply strip_prefix_app. Qed.

Theorem inside_irrefl : forall root, inside root root = false.
Proof.
  intro root. unfold inside. rewrite strip_prefix_self. apply andb_false_r.
Qed.

(* ------------------------------------------------------------------ filepath.Dir *)

Lemma drop_to_slash_app : forall l t, ~ In slash l -> drop_to_slash (l ++ slash :: t) = slash :: t.
Proof.
  induction l as [|c l IH]; intros t H.
  - reflexivity.
  - cbn [app drop_to_slash]. destruct (c =? slash) eqn:E.
    + apply N.eqb_eq in E. exfalso. apply H. left. exact E.
    + apply IH. intro Hin. apply H. right. exact Hin.
Qed.

Lemma dir_part_app : forall a b, nochar slash b -> dir_part (a ++ slash :: b) = a ++ [slash].
Proof.
  intros a b Hb. unfold dir_part. rewrite rev_app_distr. cbn [rev]. rewrite <- app_assoc.
  change ([slash] ++ rev a) with (slash :: rev a).
  rewrite drop_to_slash_app.
  - cbn [app rev]. rewrite rev_involutive. reflexivity.
  - intro Hin. apply Hb. apply in_rev. exact Hin.
Qed.

Lemma clean_trailing : forall x, x <> [] -> clean (x ++ [slash]) = clean x.
Proof.
  intros x Hx. rewrite (clean_eq (x ++ [slash])), (clean_eq x).
  rewrite is_rooted_app by exact Hx. rewrite cstack_app. reflexivity.
Qed.

Theorem dir_of_app : forall a b, a <> [] -> nochar slash b -> dir_of (a ++ slash :: b) = clean a.
Proof.
  intros a b Ha Hb. unfold dir_of. rewrite dir_part_app by exact Hb. apply clean_trailing. exact Ha.
Qed.

(* ------------------------------------------------------------------ the name check *)

Lemma stable_elems : forall r st, stable r st = true ->
  Forall (fun c => is_normal c = true \/ is_dotdot c = true) st.
Proof.
  intros r st. induction st as [|c st IH]; intro H; [constructor|]. cbn in H.
  destruct (is_normal c) eqn:En.
  - constructor; [left; exact En|apply IH; exact H].
  - apply andb_true_iff in H as [H Hall]. apply andb_true_iff in H as [Hdd _].
    constructor; [right; exact Hdd|].
    clear - Hall. induction st as [|x st IH]; [constructor|]. cbn in Hall.
    apply andb_true_iff in Hall as [Hx Hall]. constructor; [right; exact Hx|apply IH; exact Hall].
Qed.

(* if the bottom element of a Clean stack is ordinary, all of it is *)
Lemma stable_last_normal : forall r st c, stable r (st ++ [c]) = true -> is_normal c = true ->
  forallb is_normal (st ++ [c]) = true.
Proof.
  intros r st c. induction st as [|a st IH]; intros H Hn.
  - cbn. rewrite Hn. reflexivity.
  - cbn [app] in *. cbn [stable] in H. cbn [forallb]. destruct (is_normal a) eqn:Ea.
    + cbn. apply IH; assumption.
    + apply andb_true_iff in H as [_ Hall]. rewrite forallb_app in Hall.
      apply andb_true_iff in Hall as [_ Hc]. cbn in Hc. rewrite andb_true_r in Hc.
      rewrite (dotdot_not_normal _ Hc) in Hn. discriminate.
Qed.

Lemma normal_path_join : forall l, l <> [] -> Forall elem_ok l -> forallb is_normal l = true ->
  normal_path (join_slash l) = true.
Proof.
  intros l Hne Hok Hn. unfold normal_path, comps, join_slash.
  rewrite split_on_join; [exact Hn|exact Hne|apply elem_ok_nochar; exact Hok].
Qed.

Lemma is_dotdot_eq : forall c, is_dotdot c = true -> c = [dot; dot].
Proof. intros c H. apply str_eqb_eq in H. exact H. Qed.

(* the check of the pinned commit lets through exactly the ordinary relative paths plus "." and ".." *)
Theorem prefix_check_shape : forall name, local_accepts_prefix name = true ->
  name = [dot] \/ name = [dot; dot] \/ normal_path name = true.
Proof.
  intros name H. unfold local_accepts_prefix in H.
  apply andb_true_iff in H as [H Hpp]. apply andb_true_iff in H as [H _].
  apply andb_true_iff in H as [Hcl Hr].
  apply str_eqb_eq in Hcl. rewrite is_rooted_prefixb in Hr. apply negb_true_iff in Hr.
  apply negb_true_iff in Hpp.
  rewrite clean_eq, Hr in Hcl.
  pose proof (cstack_stable false name) as Hst. pose proof (cstack_elem_ok false name) as Hok.
  set (st := cstack false name) in *.
  destruct (rev st) as [|x t] eqn:El.
  - left. exact Hcl.
  - right.
    assert (Est : st = rev t ++ [x]).
    { rewrite <- (rev_involutive st), El. reflexivity. }
    assert (Hokl : Forall elem_ok (x :: t)) by (rewrite <- El; apply Forall_rev; exact Hok).
    pose proof (stable_elems _ _ Hst) as Hel. rewrite Est in Hel.
    apply Forall_app in Hel as [_ Hx]. inversion Hx as [|? ? Hx' _]; subst.
    destruct Hx' as [Hn | Hdd].
    + right. rewrite Est in Hst. pose proof (stable_last_normal _ _ _ Hst Hn) as Hall.
      cbn [render]. apply normal_path_join; [discriminate|exact Hokl|].
      rewrite <- forallb_rev. cbn [rev]. exact Hall.
    + apply is_dotdot_eq in Hdd. subst x. destruct t as [|y t].
      * left. reflexivity.
      * exfalso. cbn [render] in Hpp.
        change (join_slash ([dot; dot] :: y :: t)) with ([dot; dot] ++ slash :: join_slash (y :: t)) in Hpp.
        cbn in Hpp. discriminate.
Qed.

Lemma normal_path_app_inv : forall a b,
  normal_path (a ++ slash :: b) = normal_path a && normal_path b.
Proof. intros a b. unfold normal_path. rewrite comps_app, forallb_app. reflexivity. Qed.

Lemma normal_no_trailing_slash : forall name, normal_path name = true -> suffixb [slash] name = false.
Proof.
  intros name Hn. unfold suffixb. cbn [rev app]. rewrite is_rooted_prefixb.
  destruct (rev name) as [|c t] eqn:E; [reflexivity|]. cbn [is_rooted].
  destruct (c =? slash) eqn:Ec; [|reflexivity]. apply N.eqb_eq in Ec. subst c.
  assert (En : name = rev t ++ slash :: []).
  { rewrite <- (rev_involutive name), E. reflexivity. }
  rewrite En, normal_path_app_inv in Hn. apply andb_true_iff in Hn as [_ Hn]. discriminate.
Qed.

Lemma normal_no_dotdot_prefix : forall name, normal_path name = true ->
  prefixb [dot; dot; slash] name = false.
Proof.
  intros name Hn. destruct (prefixb [dot; dot; slash] name) eqn:E; [|reflexivity].
  apply prefixb_spec in E as [t Ht]. subst name.
  change ([dot; dot; slash] ++ t) with ([dot; dot] ++ slash :: t) in Hn.
  rewrite normal_path_app_inv in Hn. apply andb_true_iff in Hn as [Hn _]. discriminate.
Qed.

(* the repaired check accepts exactly the ordinary relative paths *)
Theorem accepts_normal : forall name, local_accepts name = normal_path name.
Proof.
  intro name. destruct (normal_path name) eqn:Hn.
  - unfold local_accepts, local_accepts_prefix.
    rewrite (clean_normal _ Hn), str_eqb_refl, is_rooted_prefixb, (normal_not_rooted _ Hn),
      (normal_no_trailing_slash _ Hn), (normal_no_dotdot_prefix _ Hn). cbn [negb andb].
    destruct (is_dot name) eqn:Ed.
    { apply str_eqb_eq in Ed. subst. discriminate. }
    destruct (is_dotdot name) eqn:Edd.
    { apply str_eqb_eq in Edd. subst. discriminate. }
    reflexivity.
  - destruct (local_accepts name) eqn:Ha; [|reflexivity]. exfalso.
    unfold local_accepts in Ha. apply andb_true_iff in Ha as [Ha Hdd]. apply andb_true_iff in Ha as [Ha Hd].
    destruct (prefix_check_shape _ Ha) as [E | [E | E]].
    + subst. discriminate.
    + subst. discriminate.
    + rewrite E in Hn. discriminate.
Qed.

(* ------------------------------------------------------------------ paths of one entry *)

Lemma data_normal : normal_path data_name = true.
Proof. reflexivity. Qed.

Lemma data_noslash : nochar slash data_name.
Proof. intro H. cbn in H. repeat (destruct H as [H | H]; [discriminate|]). exact H. Qed.

Lemma local_rel_normal : forall name, normal_path name = true ->
  local_rel name = name ++ slash :: data_name /\ normal_path (local_rel name) = true.
Proof.
  intros name Hn. assert (Hnp : normal_path (name ++ slash :: data_name) = true).
  { rewrite normal_path_app_inv, Hn, data_normal. reflexivity. }
  unfold local_rel. rewrite join_two_nonnil; [|exact (normal_path_nonnil _ Hn)|discriminate].
  rewrite (clean_normal _ Hnp). split; [reflexivity|exact Hnp].
Qed.

Theorem entry_path_exact : forall dir name, normal_path name = true ->
  entry_path dir name = under (clean dir) (name ++ slash :: data_name).
Proof.
  intros dir name Hn. destruct (local_rel_normal _ Hn) as [Hr Hrn].
  unfold entry_path, path_of. rewrite join2_under by exact Hrn. rewrite Hr. reflexivity.
Qed.

Theorem entry_dir_exact : forall dir name, normal_path name = true ->
  entry_dir dir name = under (clean dir) name.
Proof.
  intros dir name Hn. unfold entry_dir. rewrite entry_path_exact by exact Hn.
  rewrite under_app, dir_of_app.
  - apply clean_under. exact Hn.
  - apply under_nonnil. exact (normal_path_nonnil _ Hn).
  - exact data_noslash.
Qed.

Lemma under_under : forall C a b, C <> [] -> a <> [] -> a <> [dot] -> a <> [slash] ->
  under (under C a) b = under C (a ++ slash :: b).
Proof.
  intros C a b HC Ha Hd Hs. unfold under at 2 3.
  destruct (str_eqb C [dot]) eqn:E1.
  - unfold under. rewrite (str_eqb_false _ _ Hd), (str_eqb_false _ _ Hs). reflexivity.
  - destruct (str_eqb C [slash]) eqn:E2.
    + unfold under. rewrite str_eqb_false by (intro H; inversion H).
      rewrite str_eqb_false by (intro H; inversion H; contradiction). reflexivity.
    + destruct C as [|c C']; [contradiction|]. unfold under.
      rewrite str_eqb_false by (intro H; inversion H as [[H1 H2]]; destruct C'; discriminate).
      rewrite str_eqb_false by (intro H; inversion H as [[H1 H2]]; destruct C'; discriminate).
      rewrite <- app_assoc. reflexivity.
Qed.

Lemma normal_not_dot_slash : forall a, normal_path a = true -> a <> [] /\ a <> [dot] /\ a <> [slash].
Proof.
  intros a H. repeat split; intro E; subst; discriminate.
Qed.

Theorem md_path_exact : forall dir name suffix,
  normal_path name = true -> normal_path suffix = true ->
  md_path dir name suffix = under (clean dir) (name ++ slash :: suffix).
Proof.
  intros dir name suffix Hn Hs. unfold md_path, md_path_of.
  fold (entry_dir dir name). rewrite entry_dir_exact by exact Hn.
  assert (Hc : clean (under (clean dir) name) = under (clean dir) name) by (apply clean_under; exact Hn).
  rewrite <- Hc at 1. rewrite join2_under by exact Hs. rewrite clean_idem, Hc.
  destruct (normal_not_dot_slash _ Hn) as [H1 [H2 H3]].
  apply under_under; try assumption. apply clean_nonnil.
Qed.

(* every path of the entry: data file, its directory, every sidecar — for every state directory
   (so also the target paths of Move) *)
Theorem contained : forall dir name, local_accepts name = true ->
  inside (clean dir) (entry_path dir name) = true /\
  inside (clean dir) (entry_dir dir name) = true /\
  forall suffix, normal_path suffix = true ->
    inside (clean dir) (md_path dir name suffix) = true /\
    inside (entry_dir dir name) (md_path dir name suffix) = true.
Proof.
  intros dir name Ha. rewrite accepts_normal in Ha.
  split; [|split].
  - rewrite entry_path_exact by exact Ha. apply inside_under.
    rewrite normal_path_app_inv, Ha, data_normal. reflexivity.
  - rewrite entry_dir_exact by exact Ha. apply inside_under. exact Ha.
  - intros suffix Hs. split.
    + rewrite md_path_exact by assumption. apply inside_under.
      rewrite normal_path_app_inv, Ha, Hs. reflexivity.
    + unfold md_path, md_path_of. fold (entry_dir dir name).
      assert (Hc : clean (entry_dir dir name) = entry_dir dir name).
      { rewrite entry_dir_exact by exact Ha. apply clean_under. exact Ha. }
      rewrite join2_under by exact Hs. rewrite <- Hc at 1. apply inside_under. exact Hs.
Qed.

(* distinct accepted names never share a file *)
Theorem no_alias : forall dir n1 n2, local_accepts n1 = true -> local_accepts n2 = true ->
  entry_path dir n1 = entry_path dir n2 -> n1 = n2.
Proof.
  intros dir n1 n2 H1 H2 E. rewrite accepts_normal in H1, H2.
  rewrite !entry_path_exact in E by assumption. apply under_inj in E.
  apply (f_equal (@rev N)) in E. rewrite !rev_app_distr in E. cbn [rev] in E.
  rewrite <- !app_assoc in E. apply app_inv_head in E. cbn in E. inversion E as [E'].
  rewrite <- (rev_involutive n1), <- (rev_involutive n2), E'. reflexivity.
Qed.

(* rejected: everything that is not an ordinary relative path yields ErrInvalidName *)
Theorem rejected_error : forall dir name, normal_path name = false -> local_create dir name = None.
Proof. intros dir name H. unfold local_create. rewrite accepts_normal, H. reflexivity. Qed.

Theorem create_spec : forall dir name,
  (local_create dir name = None /\ local_accepts name = false) \/
  (exists p, local_create dir name = Some p /\ local_accepts name = true /\ inside (clean dir) p = true).
Proof.
  intros dir name. unfold local_create. destruct (local_accepts name) eqn:Ha.
  - right. eexists. split; [reflexivity|]. split; [reflexivity|]. apply (contained dir name Ha).
  - left. split; reflexivity.
Qed.

Theorem check_sound : forall dir name, C11_check dir (local_create dir name) = true.
Proof.
  intros dir name. destruct (create_spec dir name) as [[E _] | [p [E [_ Hin]]]]; rewrite E; [reflexivity|exact Hin].
Qed.

(* ------------------------------------------------------------------ percent decoding *)

Lemma hexdigit_ok : forall n, n < 16 -> ishex (hexdigit n) = true /\ unhex (hexdigit n) = n.
Proof.
  intros n H.
  assert (E : n = 0 \/ n = 1 \/ n = 2 \/ n = 3 \/ n = 4 \/ n = 5 \/ n = 6 \/ n = 7 \/ n = 8 \/ n = 9 \/
              n = 10 \/ n = 11 \/ n = 12 \/ n = 13 \/ n = 14 \/ n = 15) by lia.
  repeat (destruct E as [E | E]; [subst; split; reflexivity|]). subst; split; reflexivity.
Qed.

Theorem unescape_escape_all : forall s, forallb is_byte s = true -> unescape (escape_all s) = Some s.
Proof.
  induction s as [|c s IH]; intro H; [reflexivity|].
  cbn [forallb] in H. apply andb_true_iff in H as [Hc Hs]. unfold is_byte in Hc. apply N.ltb_lt in Hc.
  cbn [escape_all unescape]. change (percent =? percent) with true. cbn iota.
  assert (H1 : c / 16 < 16) by (apply N.div_lt_upper_bound; lia).
  assert (H2 : c mod 16 < 16) by (apply N.mod_lt; lia).
  destruct (hexdigit_ok _ H1) as [Ha Ua]. destruct (hexdigit_ok _ H2) as [Hb Ub].
  rewrite Ha, Hb. cbn [andb]. rewrite (IH Hs), Ua, Ub.
  rewrite <- (N.div_mod' c 16). reflexivity.
Qed.

(* every non-empty byte string is the value ParseParam returns for some parameter a client can send *)
Theorem parse_param_reach : forall name, name <> [] -> forallb is_byte name = true ->
  parse_param (escape_all name) = Some name.
Proof.
  intros name Hne Hb. unfold parse_param. destruct name as [|c t]; [contradiction|].
  change (is_nil (escape_all (c :: t))) with false. cbn iota. apply unescape_escape_all. exact Hb.
Qed.

(* whatever the decoding produced, the store either refuses the name or stays inside its directory *)
Theorem http_contained : forall raw dir,
  match http_name raw with
  | Some name => C11_check dir (local_create dir name) = true
  | None => True
  end.
Proof. intros raw dir. destruct (http_name raw); [apply check_sound|exact I]. Qed.

(* ------------------------------------------------------------------ content-addressed entries *)

Definition plain_char (c : N) : bool := negb (c =? slash) && negb (c =? dot).

Lemma plain_single_normal : forall s, s <> [] -> forallb plain_char s = true -> normal_path s = true.
Proof.
  intros s Hne Hp.
  assert (Hns : nochar slash s).
  { intro Hin. rewrite forallb_forall in Hp. specialize (Hp _ Hin). unfold plain_char in Hp.
    change (slash =? slash) with true in Hp. discriminate. }
  apply normal_path_single; [|exact Hns].
  unfold is_normal. destruct s as [|c t]; [contradiction|]. cbn [is_nil negb andb].
  cbn [forallb] in Hp. apply andb_true_iff in Hp as [Hc _]. unfold plain_char in Hc.
  apply andb_true_iff in Hc as [_ Hd]. apply negb_true_iff in Hd.
  unfold is_dot, is_dotdot. cbn [str_eqb]. rewrite Hd. reflexivity.
Qed.

Lemma cas_shards_normal : forall n name, forallb plain_char name = true ->
  Forall (fun d => normal_path d = true) (cas_shards n name).
Proof.
  induction n as [|n IH]; intros name Hp; [constructor|].
  destruct name as [|a [|b t]]; [constructor|constructor|].
  cbn [cas_shards]. cbn [forallb] in Hp. apply andb_true_iff in Hp as [Ha Hp]. apply andb_true_iff in Hp as [Hb Hp].
  constructor; [|apply IH; exact Hp].
  apply plain_single_normal; [discriminate|]. cbn [forallb]. rewrite Ha, Hb. reflexivity.
Qed.

Lemma normal_join_slash : forall l, l <> [] -> Forall (fun d => normal_path d = true) l ->
  normal_path (join_slash l) = true.
Proof.
  induction l as [|x l IH]; intros Hne H; [contradiction|]. inversion H as [|? ? Hx Hl]; subst.
  destruct l as [|y l]; [exact Hx|].
  change (join_slash (x :: y :: l)) with (x ++ slash :: join_slash (y :: l)).
  rewrite normal_path_app_inv, Hx. apply IH; [discriminate|exact Hl].
Qed.

Lemma join_slash_snoc : forall pre d, pre <> [] ->
  join_slash (pre ++ [d]) = join_slash pre ++ slash :: d.
Proof. intros pre d H. unfold join_slash. apply join_on_app; [exact H|discriminate]. Qed.

Lemma fold_join_normal : forall ds pre,
  Forall (fun d => normal_path d = true) ds -> Forall (fun d => normal_path d = true) pre ->
  fold_left (fun acc d => join [acc; d]) ds (join_slash pre) = join_slash (pre ++ ds).
Proof.
  induction ds as [|d ds IH]; intros pre Hds Hpre; [rewrite app_nil_r; reflexivity|].
  inversion Hds as [|? ? Hd Hds']; subst. cbn [fold_left].
  assert (Hstep : join [join_slash pre; d] = join_slash (pre ++ [d])).
  { destruct pre as [|p pre'].
    - cbn [join_slash join_on app]. rewrite join_nil_l by exact (normal_path_nonnil _ Hd).
      apply clean_normal. exact Hd.
    - assert (Hp : normal_path (join_slash (p :: pre')) = true) by (apply normal_join_slash; [discriminate|exact Hpre]).
      rewrite join_two_nonnil; [|exact (normal_path_nonnil _ Hp)|exact (normal_path_nonnil _ Hd)].
      rewrite join_slash_snoc by discriminate. apply clean_normal.
      rewrite normal_path_app_inv, Hp, Hd. reflexivity. }
  rewrite Hstep. rewrite IH; [|exact Hds'|apply Forall_app; split; [exact Hpre|constructor; [exact Hd|constructor]]].
  rewrite <- app_assoc. reflexivity.
Qed.

Lemma join3_normal : forall pre a b,
  Forall (fun d => normal_path d = true) pre -> normal_path a = true -> normal_path b = true ->
  join [join_slash pre; a; b] = join_slash (pre ++ [a; b]).
Proof.
  intros pre a b Hpre Ha Hb.
  assert (Hab : normal_path (a ++ slash :: b) = true) by (rewrite normal_path_app_inv, Ha, Hb; reflexivity).
  pose proof (normal_path_nonnil _ Ha) as Hane. pose proof (normal_path_nonnil _ Hb) as Hbne.
  destruct pre as [|p pre'].
  - cbn [join_slash join_on app]. destruct a as [|a0 a']; [contradiction|]. destruct b as [|b0 b']; [contradiction|].
    unfold join. cbn [filter is_nil negb]. change (join_slash [a0 :: a'; b0 :: b']) with ((a0 :: a') ++ slash :: b0 :: b').
    apply clean_normal. exact Hab.
  - assert (Hp : normal_path (join_slash (p :: pre')) = true) by (apply normal_join_slash; [discriminate|exact Hpre]).
    pose proof (normal_path_nonnil _ Hp) as Hpne.
    assert (Hall : Forall (fun d => normal_path d = true) ((p :: pre') ++ [a; b])).
    { apply Forall_app. split; [exact Hpre|]. constructor; [exact Ha|constructor; [exact Hb|constructor]]. }
    assert (Hres : normal_path (join_slash ((p :: pre') ++ [a; b])) = true) by (apply normal_join_slash; [discriminate|exact Hall]).
    assert (E : join_slash ((p :: pre') ++ [a; b]) = join_slash [join_slash (p :: pre'); a; b]).
    { unfold join_slash at 1. rewrite join_on_app by discriminate. reflexivity. }
    unfold join. destruct (join_slash (p :: pre')) as [|q0 q'] eqn:Eq; [contradiction|].
    destruct a as [|a0 a']; [contradiction|]. destruct b as [|b0 b']; [contradiction|].
    cbn [filter is_nil negb]. rewrite <- Eq in *. rewrite <- E. apply clean_normal. exact Hres.
Qed.

Theorem cas_rel_exact : forall name, cas_name_ok name = true ->
  cas_rel name = join_slash (cas_shards shard_n name ++ [name; data_name]) /\
  normal_path (cas_rel name) = true.
Proof.
  intros name H. unfold cas_name_ok in H. apply andb_true_iff in H as [Hne Hp].
  assert (Hne' : name <> []) by (destruct name; [discriminate|discriminate]).
  fold plain_char in Hp. change (forallb (fun c => negb (c =? slash) && negb (c =? dot)) name) with (forallb plain_char name) in Hp.
  pose proof (cas_shards_normal shard_n name Hp) as Hsh.
  pose proof (plain_single_normal _ Hne' Hp) as Hn.
  unfold cas_rel.
  pose proof (fold_join_normal (cas_shards shard_n name) [] Hsh (Forall_nil _)) as Hf.
  cbn [join_slash join_on app] in Hf. rewrite Hf.
  rewrite join3_normal by (try assumption; exact data_normal).
  split; [reflexivity|]. apply normal_join_slash.
  - destruct (cas_shards shard_n name); discriminate.
  - apply Forall_app. split; [exact Hsh|]. constructor; [exact Hn|constructor; [exact data_normal|constructor]].
Qed.

Theorem cas_contained : forall dir name, cas_name_ok name = true ->
  cas_path dir name = under (clean dir) (cas_rel name) /\
  inside (clean dir) (cas_path dir name) = true.
Proof.
  intros dir name H. destruct (cas_rel_exact _ H) as [_ Hn].
  unfold cas_path, path_of. rewrite join2_under by exact Hn. split; [reflexivity|apply inside_under; exact Hn].
Qed.

(* ------------------------------------------------------------------ the pinned check is violated *)

Definition s_dir : str := [slash; 115].                      (* "/s" *)
Definition var_dir : str := [slash; 118; 97; 114; slash; 99; 97; 99; 104; 101; slash; 117].   (* "/var/cache/u" *)

Theorem dotdot_refuted :
  exists dir name, local_accepts_prefix name = true /\ local_create_prefix dir name = Some (slash :: data_name) /\
                   inside (clean dir) (entry_path dir name) = false /\
                   entry_dir dir name = [slash].
Proof. exists s_dir, [dot; dot]. vm_compute. repeat split; reflexivity. Qed.

(* "." : the entry's directory is the state directory itself (Delete removes the whole store) *)
Theorem dot_refuted :
  exists dir name, local_accepts_prefix name = true /\ entry_dir dir name = clean dir /\
                   inside (clean dir) (entry_dir dir name) = false.
Proof. exists var_dir, [dot]. vm_compute. repeat split; reflexivity. Qed.

(* ------------------------------------------------------------------ routing: which parameter reaches ParseParam *)

Lemma escape_all_not_canonical : forall name, existsb keep_in_path name = true ->
  escape_all name <> escape_path name.
Proof.
  induction name as [|c t IH]; intro H; [discriminate|].
  cbn [escape_all escape_path]. cbn [existsb] in H. destruct (keep_in_path c) eqn:Ek.
  - intro E. inversion E as [[E1 E2]]. rewrite <- E1 in Ek. discriminate.
  - cbn [orb] in H. intro E. inversion E as [E']. exact (IH H E').
Qed.

(* a parameter with at least one byte that Go leaves unescaped in paths: the fully escaped form is not
   the default encoding, chi sees it raw, ParseParam decodes it once *)
Theorem http_name_reach : forall name, name <> [] -> forallb is_byte name = true ->
  existsb keep_in_path name = true -> http_name (escape_all name) = Some name.
Proof.
  intros name Hne Hb Hk. unfold http_name, route_param.
  rewrite (unescape_escape_all _ Hb).
  rewrite (str_eqb_false _ _ (escape_all_not_canonical _ Hk)).
  apply parse_param_reach; assumption.
Qed.

(* DESIGN's form: the name as it comes out of the parameter decoding *)
Theorem contained_raw : forall raw name dir,
  parse_param raw = Some name -> local_accepts name = true ->
  inside (clean dir) (entry_path dir name) = true /\
  forall suffix, normal_path suffix = true -> inside (clean dir) (md_path dir name suffix) = true.
Proof.
  intros raw name dir _ Ha. destruct (contained dir name Ha) as [H1 [_ H3]].
  split; [exact H1|]. intros suffix Hs. apply (H3 suffix Hs).
Qed.

Theorem paths_exact : forall dir name suffix, local_accepts name = true -> normal_path suffix = true ->
  entry_path dir name = under (clean dir) (name ++ slash :: data_name) /\
  entry_dir dir name = under (clean dir) name /\
  md_path dir name suffix = under (clean dir) (name ++ slash :: suffix).
Proof.
  intros dir name suffix Ha Hs. rewrite accepts_normal in Ha.
  split; [apply entry_path_exact; exact Ha|]. split; [apply entry_dir_exact; exact Ha|].
  apply md_path_exact; assumption.
Qed.

(* ------------------------------------------------------------------ blob names *)

Lemma ishex_plain : forall c, ishex c = true -> plain_char c = true.
Proof.
  intros c H. unfold ishex in H. unfold plain_char, slash, dot.
  destruct (c =? 47) eqn:E1; [apply N.eqb_eq in E1; subst; discriminate|].
  destruct (c =? 46) eqn:E2; [apply N.eqb_eq in E2; subst; discriminate|]. reflexivity.
Qed.

(* a digest parameter that parses yields a CAS name without '/' and '.', so C11_cas_contained applies *)
Theorem digest_name_ok : forall raw h, parse_digest raw = Some h -> cas_name_ok h = true.
Proof.
  intros raw h H. unfold parse_digest in H.
  destruct (split_on colon raw) as [|algo [|h' [|x t]]]; try discriminate.
  destruct (str_eqb algo sha256_lit && (N.of_nat (length h') =? 64) && forallb ishex h') eqn:E; [|discriminate].
  inversion H; subst h'. apply andb_true_iff in E as [E Hhex]. apply andb_true_iff in E as [_ Hlen].
  unfold cas_name_ok. apply andb_true_iff. split.
  - destruct h; [discriminate|reflexivity].
  - change (forallb (fun c => negb (c =? slash) && negb (c =? dot)) h) with (forallb plain_char h).
    rewrite forallb_forall in *. intros c Hc. apply ishex_plain. apply Hhex. exact Hc.
Qed.

Theorem blob_name_contained : forall raw h dir, parse_digest raw = Some h ->
  inside (clean dir) (cas_path dir h) = true.
Proof. intros raw h dir H. apply cas_contained. apply (digest_name_ok raw h H). Qed.

(* ------------------------------------------------------------------ ".." escapes from EVERY state directory
   other than "/" under the pinned check (not just from the witness directory) *)

Lemma strip_prefix_app2 : forall l a b, strip_prefix (l ++ a) (l ++ b) = strip_prefix a b.
Proof. induction l as [|x l IH]; intros a b; [reflexivity|]. cbn. rewrite str_eqb_refl. apply IH. Qed.

Definition dd : str := [dot; dot].
Definition dd_data : str := dd ++ slash :: data_name.

Lemma local_rel_dd : local_rel dd = dd_data.
Proof. reflexivity. Qed.

Lemma cstack_dd_data : forall r x, x <> [] ->
  cstack r (x ++ slash :: dd_data) = data_name :: push r (cstack r x) dd.
Proof.
  intros r x Hx. rewrite cstack_app.
  change (comps dd_data) with [dd; data_name]. cbn [fold_left].
  apply push_normal. reflexivity.
Qed.

Theorem dotdot_escapes_everywhere : forall dir, clean dir <> [slash] ->
  local_accepts_prefix dd = true /\ inside (clean dir) (entry_path dir dd) = false.
Proof.
  intros dir Hroot. split; [reflexivity|].
  unfold entry_path, path_of. rewrite local_rel_dd. unfold inside. rewrite is_rooted_clean.
  destruct dir as [|c d].
  - reflexivity.
  - set (x := c :: d) in *. assert (Hx : x <> []) by discriminate.
    rewrite join_two_nonnil by (try exact Hx; discriminate).
    set (Y := x ++ slash :: dd_data).
    assert (HrY : is_rooted Y = is_rooted x) by (apply is_rooted_app; exact Hx).
    rewrite is_rooted_clean, HrY, eqb_reflx. cbn [andb].
    pose proof (cstack_clean x) as Hcx. rewrite Hcx.
    pose proof (cstack_clean Y) as HcY. rewrite HrY in HcY. rewrite HcY.
    unfold Y. rewrite cstack_dd_data by exact Hx.
    pose proof (cstack_stable (is_rooted x) x) as Hst.
    destruct (cstack (is_rooted x) x) as [|top rest] eqn:Est.
    + destruct (is_rooted x) eqn:Er.
      * exfalso. apply Hroot. rewrite clean_eq, Er, Est. reflexivity.
      * reflexivity.
    + pose proof (stable_elems _ _ Hst) as Hel. inversion Hel as [|? ? Htop _]; subst.
      unfold push. change (is_nil dd) with false. change (is_dot dd) with false. change (is_dotdot dd) with true.
      cbn iota. destruct Htop as [Hn | Hdd].
      * assert (Hnd : is_dotdot top = false).
        { destruct (is_dotdot top) eqn:E; [|reflexivity]. rewrite (dotdot_not_normal _ E) in Hn. discriminate. }
        rewrite Hnd. cbn [rev]. rewrite strip_prefix_app2. cbn [strip_prefix].
        destruct (str_eqb top data_name); reflexivity.
      * rewrite Hdd. cbn [rev]. rewrite <- !app_assoc.
        rewrite (app_assoc (rev rest) [top] ([dd] ++ [data_name])).
        rewrite strip_prefix_app. reflexivity.
Qed.
