(* C11 — proofs.  Lexical facts about Clean/Join/Dir (on top of Proof/PathLib.v, imported read-only),
   the characterisation of the name check, and containment of every path of a file entry. *)
From Coq Require Import List NArith ZArith Bool Lia.
From K.Model Require Import PathLib C11.
From K.Proof Require Import PathLib.
From K.Gen Require Import C11_consts.
Import ListNotations.
Local Open Scope N_scope.

(* ------------------------------------------------------------------ small string facts *)

Lemma str_eqb_false : forall a b, a <> b -> str_eqb a b = false.
Proof.
  intros a b H. destruct (str_eqb a b) eqn:E; [|reflexivity].
  apply str_eqb_eq in E. contradiction.
Qed.

Lemma prefixb_spec : forall p s, prefixb p s = true <-> exists t, s = p ++ t.
Proof.
  induction p as [|x p IH]; intros s; split.
  - intros _. exists s. reflexivity.
  - reflexivity.
  - destruct s as [|y s]; [discriminate|]. cbn. intro H. apply andb_true_iff in H as [H1 H2].
    apply N.eqb_eq in H1. subst. apply IH in H2 as [t Ht]. exists t. subst. reflexivity.
  - intros [t Ht]. subst. cbn. rewrite N.eqb_refl. apply IH. exists t. reflexivity.
Qed.

Lemma is_rooted_prefixb : forall s, prefixb [slash] s = is_rooted s.
Proof. intros [|c s]; [reflexivity|]. cbn [prefixb is_rooted]. rewrite andb_true_r. apply N.eqb_sym. Qed.

Lemma forallb_rev : forall (f : str -> bool) l, forallb f (rev l) = forallb f l.
Proof.
  intros f l. induction l as [|x l IH]; [reflexivity|].
  cbn [rev]. rewrite forallb_app, IH. cbn. rewrite andb_true_r. apply andb_comm.
Qed.

Lemma comps_nonnil : forall s, comps s <> [].
Proof. intro s. apply split_on_nonempty. Qed.

(* ------------------------------------------------------------------ Clean on ordinary relative paths *)

Lemma normal_not_rooted : forall q, normal_path q = true -> is_rooted q = false.
Proof.
  intros [|c q] H; [discriminate|].
  unfold normal_path, comps in H. cbn [split_on] in H. cbn [is_rooted].
  destruct (c =? slash); [discriminate|reflexivity].
Qed.

Lemma cstack_normal : forall r q, normal_path q = true -> cstack r q = rev (comps q).
Proof.
  intros r q H. unfold cstack. unfold normal_path in H.
  rewrite fold_push_normal by exact H. apply app_nil_r.
Qed.

Lemma render_comps : forall q, render false (comps q) = q.
Proof.
  intro q. unfold render. destruct (comps q) eqn:E; [exfalso; exact (comps_nonnil q E)|].
  rewrite <- E. apply join_comps.
Qed.

Theorem clean_normal : forall q, normal_path q = true -> clean q = q.
Proof.
  intros q H. rewrite clean_eq, (normal_not_rooted _ H), (cstack_normal _ _ H), rev_involutive.
  apply render_comps.
Qed.

Lemma clean_dot_app : forall q, normal_path q = true -> clean ([dot] ++ slash :: q) = q.
Proof.
  intros q H. rewrite clean_eq.
  change (is_rooted ([dot] ++ slash :: q)) with false.
  rewrite cstack_app. change (cstack false [dot]) with (@nil str).
  unfold normal_path in H. rewrite fold_push_normal by exact H.
  rewrite app_nil_r, rev_involutive. apply render_comps.
Qed.

Lemma clean_stack_nonempty : forall x,
  cstack (is_rooted x) x <> [] -> clean x <> [dot] /\ clean x <> [slash].
Proof.
  intros x Hst. pose proof (cstack_clean x) as Hc. pose proof (is_rooted_clean x) as Hr.
  split; intro E; rewrite E in Hc, Hr.
  - cbn in Hr. rewrite <- Hr in Hc. apply Hst. rewrite <- Hr. rewrite <- Hc. reflexivity.
  - cbn in Hr. rewrite <- Hr in Hc. apply Hst. rewrite <- Hr. rewrite <- Hc. reflexivity.
Qed.

(* ------------------------------------------------------------------ Join(dir, q) for an ordinary relative q *)

Lemma clean_nil : clean [] = [dot].
Proof. reflexivity. Qed.

Theorem join2_under : forall dir q, normal_path q = true -> join [dir; q] = under (clean dir) q.
Proof.
  intros dir q Hq. pose proof (normal_path_nonnil _ Hq) as Hne.
  destruct dir as [|c d].
  - rewrite join_nil_l by exact Hne. rewrite clean_nil. cbn. apply clean_normal. exact Hq.
  - set (x := c :: d). assert (Hx : x <> []) by discriminate.
    rewrite join_two_nonnil by assumption.
    rewrite <- clean_clean_app by exact Hx.
    destruct (cstack (is_rooted x) x) as [|e st] eqn:Est.
    + destruct (is_rooted x) eqn:Er.
      * destruct (clean_app_normal_root x q Er Est Hq) as [Hc Hres]. rewrite Hres, Hc. reflexivity.
      * assert (Hc : clean x = [dot]) by (rewrite clean_eq, Er, Est; reflexivity).
        rewrite Hc. cbn [under str_eqb]. change (str_eqb [dot] [dot]) with true. cbn iota.
        apply clean_dot_app. exact Hq.
    + assert (Hst : cstack (is_rooted x) x <> []) by (rewrite Est; discriminate).
      rewrite clean_app_normal by assumption.
      destruct (clean_stack_nonempty x Hst) as [H1 H2].
      unfold under. rewrite (str_eqb_false _ _ H1), (str_eqb_false _ _ H2). reflexivity.
Qed.

Lemma clean_under : forall dir q, normal_path q = true ->
  clean (under (clean dir) q) = under (clean dir) q.
Proof.
  intros dir q Hq. rewrite <- join2_under by exact Hq.
  pose proof (normal_path_nonnil _ Hq) as Hne.
  destruct dir as [|c d].
  - rewrite join_nil_l by exact Hne. apply clean_idem.
  - rewrite join_two_nonnil by (try discriminate; exact Hne). apply clean_idem.
Qed.

Lemma under_app : forall C a b, under C (a ++ slash :: b) = under C a ++ slash :: b.
Proof.
  intros C a b. unfold under. destruct (str_eqb C [dot]); [reflexivity|].
  destruct (str_eqb C [slash]); [reflexivity|]. rewrite <- app_assoc. reflexivity.
Qed.

Lemma under_nonnil : forall C a, a <> [] -> under C a <> [].
Proof.
  intros C a Ha. unfold under. destruct (str_eqb C [dot]); [exact Ha|].
  destruct (str_eqb C [slash]); [discriminate|]. destruct C; discriminate.
Qed.

Lemma under_inj : forall C a b, under C a = under C b -> a = b.
Proof.
  intros C a b. unfold under. destruct (str_eqb C [dot]); [auto|].
  destruct (str_eqb C [slash]); [intro H; inversion H; reflexivity|].
  intro H. apply app_inv_head in H. inversion H. reflexivity.
Qed.

(* ------------------------------------------------------------------ containment *)

Lemma strip_prefix_app : forall l r, strip_prefix l (l ++ r) = Some r.
Proof.
  induction l as [|x l IH]; intro r; [reflexivity|]. cbn. rewrite str_eqb_refl. apply IH.
Qed.

Theorem inside_under : forall dir q, normal_path q = true ->
  inside (clean dir) (under (clean dir) q) = true.
Proof.
  intros dir q Hq. pose proof (normal_path_nonnil _ Hq) as Hne.
  rewrite <- join2_under by exact Hq. unfold inside. rewrite is_rooted_clean.
  destruct dir as [|c d].
  - rewrite join_nil_l by exact Hne. rewrite clean_nil.
    change (is_rooted []) with false. rewrite is_rooted_clean, (normal_not_rooted _ Hq).
    change (cstack false [dot]) with (@nil str). cbn [rev strip_prefix eqb].
    pose proof (cstack_clean q) as Hc. rewrite (normal_not_rooted _ Hq) in Hc. rewrite Hc.
    rewrite (cstack_normal _ _ Hq), rev_involutive.
    destruct (comps q) eqn:E; [exfalso; exact (comps_nonnil q E)|]. rewrite <- E. exact Hq.
  - set (x := c :: d). assert (Hx : x <> []) by discriminate.
    rewrite join_two_nonnil by assumption.
    set (Y := x ++ slash :: q).
    assert (HrY : is_rooted Y = is_rooted x) by (apply is_rooted_app; exact Hx).
    rewrite is_rooted_clean, HrY, eqb_reflx. cbn [andb].
    pose proof (cstack_clean x) as Hcx. rewrite Hcx.
    pose proof (cstack_clean Y) as HcY. rewrite HrY in HcY. rewrite HcY.
    unfold Y. rewrite cstack_app. unfold normal_path in Hq. rewrite fold_push_normal by exact Hq.
    rewrite rev_app_distr, rev_involutive, strip_prefix_app.
    destruct (comps q) eqn:E; [exfalso; exact (comps_nonnil q E)|]. exact Hq.
Qed.

(* what [inside] excludes: the root itself and anything reached through ".." *)
Lemma strip_prefix_self : forall l, strip_prefix l l = Some [].
Proof. intro l. rewrite <- (app_nil_r l) at 2. apply strip_prefix_app. Qed.

Theorem inside_irrefl : forall root, inside root root = false.
Proof.
  intro root. unfold inside. rewrite strip_prefix_self. apply andb_false_r.
Qed.

(* ------------------------------------------------------------------ filepath.Dir *)

Lemma drop_to_slash_app : forall l t, ~ In slash l -> drop_to_slash (l ++ slash :: t) = slash :: t.
Proof.
  induction l as [|c l IH]; intros t H.
  - reflexivity.
  - cbn [app drop_to_slash]. destruct (c =? slash) eqn:E.
    + apply N.eqb_eq in E. exfalso. apply H. left. exact E.
    + apply IH. intro Hin. apply H. right. exact Hin.
Qed.

Lemma dir_part_app : forall a b, nochar slash b -> dir_part (a ++ slash :: b) = a ++ [slash].
Proof.
  intros a b Hb. unfold dir_part. rewrite rev_app_distr. cbn [rev]. rewrite <- app_assoc.
  change ([slash] ++ rev a) with (slash :: rev a).
  rewrite drop_to_slash_app.
  - cbn [app rev]. rewrite rev_involutive. reflexivity.
  - intro Hin. apply Hb. apply in_rev. exact Hin.
Qed.

Lemma clean_trailing : forall x, x <> [] -> clean (x ++ [slash]) = clean x.
Proof.
  intros x Hx. rewrite (clean_eq (x ++ [slash])), (clean_eq x).
  rewrite is_rooted_app by exact Hx. rewrite cstack_app. reflexivity.
Qed.

Theorem dir_of_app : forall a b, a <> [] -> nochar slash b -> dir_of (a ++ slash :: b) = clean a.
Proof.
  intros a b Ha Hb. unfold dir_of. rewrite dir_part_app by exact Hb. apply clean_trailing. exact Ha.
Qed.

(* ------------------------------------------------------------------ the name check *)

Lemma stable_elems : forall r st, stable r st = true ->
  Forall (fun c => is_normal c = true \/ is_dotdot c = true) st.
Proof.
  intros r st. induction st as [|c st IH]; intro H; [constructor|]. cbn in H.
  destruct (is_normal c) eqn:En.
  - constructor; [left; exact En|apply IH; exact H].
  - apply andb_true_iff in H as [H Hall]. apply andb_true_iff in H as [Hdd _].
    constructor; [right; exact Hdd|].
    clear - Hall. induction st as [|x st IH]; [constructor|]. cbn in Hall.
    apply andb_true_iff in Hall as [Hx Hall]. constructor; [right; exact Hx|apply IH; exact Hall].
Qed.

(* if the bottom element of a Clean stack is ordinary, all of it is *)
Lemma stable_last_normal : forall r st c, stable r (st ++ [c]) = true -> is_normal c = true ->
  forallb is_normal (st ++ [c]) = true.
Proof.
  intros r st c. induction st as [|a st IH]; intros H Hn.
  - cbn. rewrite Hn. reflexivity.
  - cbn [app] in *. cbn [stable] in H. cbn [forallb]. destruct (is_normal a) eqn:Ea.
    + cbn. apply IH; assumption.
    + apply andb_true_iff in H as [_ Hall]. rewrite forallb_app in Hall.
      apply andb_true_iff in Hall as [_ Hc]. cbn in Hc. rewrite andb_true_r in Hc.
      rewrite (dotdot_not_normal _ Hc) in Hn. discriminate.
Qed.

Lemma normal_path_join : forall l, l <> [] -> Forall elem_ok l -> forallb is_normal l = true ->
  normal_path (join_slash l) = true.
Proof.
  intros l Hne Hok Hn. unfold normal_path, comps, join_slash.
  rewrite split_on_join; [exact Hn|exact Hne|apply elem_ok_nochar; exact Hok].
Qed.

Lemma is_dotdot_eq : forall c, is_dotdot c = true -> c = [dot; dot].
Proof. intros c H. apply str_eqb_eq in H. exact H. Qed.

(* the check of the pinned commit lets through exactly the ordinary relative paths plus "." and ".." *)
Theorem prefix_check_shape : forall name, local_accepts_prefix name = true ->
  name = [dot] \/ name = [dot; dot] \/ normal_path name = true.
Proof.
  intros name H. unfold local_accepts_prefix in H.
  apply andb_true_iff in H as [H Hpp]. apply andb_true_iff in H as [H _].
  apply andb_true_iff in H as [Hcl Hr].
  apply str_eqb_eq in Hcl. rewrite is_rooted_prefixb in Hr. apply negb_true_iff in Hr.
  apply negb_true_iff in Hpp.
  rewrite clean_eq, Hr in Hcl.
  pose proof (cstack_stable false name) as Hst. pose proof (cstack_elem_ok false name) as Hok.
  set (st := cstack false name) in *.
  destruct (rev st) as [|x t] eqn:El.
  - left. exact Hcl.
  - right.
    assert (Est : st = rev t ++ [x]).
    { rewrite <- (rev_involutive st), El. reflexivity. }
    assert (Hokl : Forall elem_ok (x :: t)) by (rewrite <- El; apply Forall_rev; exact Hok).
    pose proof (stable_elems _ _ Hst) as Hel. rewrite Est in Hel.
    apply Forall_app in Hel as [_ Hx]. inversion Hx as [|? ? Hx' _]; subst.
    destruct Hx' as [Hn | Hdd].
    + right. rewrite Est in Hst. pose proof (stable_last_normal _ _ _ Hst Hn) as Hall.
      cbn [render]. apply normal_path_join; [discriminate|exact Hokl|].
      rewrite <- forallb_rev. cbn [rev]. exact Hall.
    + apply is_dotdot_eq in Hdd. subst x. destruct t as [|y t].
      * left. reflexivity.
      * exfalso. cbn [render] in Hpp.
        change (join_slash ([dot; dot] :: y :: t)) with ([dot; dot] ++ slash :: join_slash (y :: t)) in Hpp.
        cbn in Hpp. discriminate.
Qed.
