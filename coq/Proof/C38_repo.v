(* C38: GetRepo.  The pattern is ambiguous as a language (a repository may contain a
   `repositories` component, a tag may be `_layers`), so the result depends on the preference
   order: with the lazy quantifiers of the fixed pattern the first `/repositories/` and the
   first keyword after it are taken. *)
From Coq Require Import List NArith Arith Bool Lia.
From K.Gen Require Import C38_consts.
From K.Model Require Import C38.
From K.Proof Require Import C38_engine C38_segs C38_tac.
Import ListNotations.
Local Open Scope N_scope.

Fixpoint ptails (l : list N) : list (list N) :=
  match l with
  | [] => []
  | _ :: t => match t with [] => [] | _ :: _ => t :: ptails t end
  end.
Lemma ptails_in l : forall a b, l = a ++ b -> a <> [] -> b <> [] -> In b (ptails l).
Proof.
  induction l as [|c l IH]; intros a b H Ha Hb.
  - destruct a; [congruence|discriminate].
  - destruct a as [|a0 a]; [congruence|]. cbn in H. injection H as -> H.
    destruct l as [|d l]; [destruct a; destruct b; try discriminate; congruence|].
    destruct a as [|a1 a].
    + cbn in H. subst b. left. reflexivity.
    + right. apply (IH (a1 :: a) b H); [discriminate|exact Hb].
Qed.

Lemma firstn_app_exact {A} (a b : list A) : firstn (length (a ++ b) - length b) (a ++ b) = a.
Proof. rewrite app_length, Nat.add_sub, firstn_app, Nat.sub_diag, firstn_all. cbn. apply app_nil_r. Qed.

Lemma repo_ok_after_slash a d b : repo_ok (a ++ SL :: d :: b) = true -> d <> 95.
Proof.
  unfold repo_ok. rewrite segs_app_sl, forallb_app. intros H. apply andb_true_iff in H as [_ H].
  cbn [segs] in H. destruct (N.eqb d SL) eqn:E.
  - cbn in H. discriminate.
  - pose proof (segs_nonnil b). destruct (segs b) as [|h t]; [congruence|]. cbn in H.
    apply andb_true_iff in H as [H _]. apply andb_true_iff in H as [H _]. apply negb_true_iff, N.eqb_neq in H. exact H.
Qed.

Definition K0 : list N -> list (list N) -> option (list (list N)) := fun _ caps => Some caps.
Definition tail_re := Seq (Lit [SL]) kw_alt.

(* after a repository: "/" keyword *)
Lemma tail_accepts kw rest caps : kw = s_manifests \/ kw = s_layers \/ kw = s_uploads ->
  mt tail_re K0 (SL :: kw ++ rest) caps = Some caps.
Proof.
  intros [ -> | [ -> | -> ] ]; unfold tail_re, kw_alt, L; cbn [mt m_lit]; rewrite N.eqb_refl; unfold orelse.
  - rewrite m_lit_app. reflexivity.
  - change (m_lit s_manifests (fun t => K0 t caps) (s_layers ++ rest)) with (@None (list (list N))). rewrite m_lit_app. reflexivity.
  - change (m_lit s_manifests (fun t => K0 t caps) (s_uploads ++ rest)) with (@None (list (list N))).
    change (m_lit s_layers (fun t => K0 t caps) (s_uploads ++ rest)) with (@None (list (list N))). rewrite m_lit_app. reflexivity.
Qed.
(* inside a well-formed repository no position starts "/" keyword *)
Lemma tail_rejects r a b s2 caps : repo_ok r = true -> r = a ++ b -> b <> [] -> hd 0 s2 = SL ->
  mt tail_re K0 (b ++ s2) caps = None.
Proof.
  intros Hr -> Hb Hs. destruct b as [|c b]; [congruence|]. unfold tail_re, kw_alt, L. cbn [mt m_lit app].
  destruct (N.eqb SL c) eqn:E; [|reflexivity]. apply N.eqb_eq in E; subst c.
  destruct b as [|d b].
  - destruct s2 as [|e s2]; [reflexivity|]. cbn in Hs. subst e. reflexivity.
  - apply repo_ok_after_slash in Hr. apply N.eqb_neq in Hr. rewrite N.eqb_sym in Hr.
    unfold orelse, s_manifests, s_layers, s_uploads. cbn [m_lit app]. rewrite Hr. reflexivity.
Qed.

Definition mid_re := Seq (Lit (sls s_repositories)) (Seq (Grp (Plus false Dot)) tail_re).
Lemma v2_root_first X caps : Forall (fun b => mt mid_re K0 (b ++ sls s_repositories ++ X) caps = None) (ptails v2_root).
Proof. unfold v2_root. cbn [ptails]. repeat constructor. Qed.

Theorem get_repo_built r kw rest : repo_ok r = true -> kw = s_manifests \/ kw = s_layers \/ kw = s_uploads ->
  exec ast_get_repo (repo_dir r ++ SL :: kw ++ rest) = Some [r].
Proof.
  intros Hr Hkw. unfold exec, ast_get_repo, seqs, dots_lazy, L, repo_dir. rewrite <- !app_assoc.
  change (mt (Seq (Plus false Dot) (Seq (Lit (sls s_repositories)) (Seq (Grp (Plus false Dot)) (Seq (Lit [SL]) kw_alt)))) (fun _ caps => Some caps))
    with (mt (Seq (Plus false Dot) mid_re) K0).
  cbn [mt]. apply m_plus_l_first.
  - discriminate.
  - reflexivity.
  - unfold mid_re. cbn [mt]. rewrite m_lit_app. cbn [mt].
    apply m_plus_l_first.
    + apply repo_ok_nonnil; exact Hr.
    + apply repo_ok_nonl; exact Hr.
    + rewrite tail_accepts by exact Hkw. cbn [app]. rewrite firstn_app_exact. reflexivity.
    + intros a b Hab Ha Hb. eapply tail_rejects; eauto.
  - intros a b Hab Ha Hb. pose proof (ptails_in _ _ _ Hab Ha Hb) as Hin.
    pose proof (v2_root_first (r ++ SL :: kw ++ rest) []) as HF. rewrite Forall_forall in HF. apply HF. exact Hin.
Qed.
