(* C01 — the atomic-step system (Model/C01.v, Section Atomic): safety over every interleaving of
   lock-region steps of any number of writers, drain workers, TTL workers and readers, and the
   refinement of the API-level model by it. *)
From Coq Require Import List NArith ZArith Bool Lia.
From K.Model Require Import C01.
From K.Proof Require Import C01.
Import ListNotations.
Local Open Scope N_scope.

Section AtomicProofs.
Variable H : bytes -> N.
Variable cf : cfg.
Hypothesis Hskip : c_skip cf = false.

Definition gs (p : N * bytes) : Prop := H (snd p) = fst p.

Record AInv (a : ast) : Prop := mkAInv {
  ainv_mem : Forall (gm H) (a_mem a);
  ainv_disk : Forall (gd H) (a_disk a);
  ainv_items : Forall (gm H) (a_items a);
  ainv_seen : Forall gs (a_seen a)
}.

Lemma AInv_init : AInv ainit.
Proof. constructor; constructor. Qed.

Definition st_of (a : ast) : st := mkst (a_disk a) (a_mem a) [] [] 0.

Lemma AInv_Inv : forall a, AInv a -> Inv H (st_of a).
Proof. intros a [A B C D]. constructor; cbn; [assumption|assumption|constructor]. Qed.

Lemma in_items_good : forall name e l, Forall (gm H) l -> in_items name e l = true -> good_ment H name e.
Proof.
  induction l as [|[n e'] t IH]; intros HF Hi; cbn in Hi; [discriminate|].
  inversion HF as [|? ? Hg Ht]; subst.
  apply orb_true_iff in Hi as [Hi|Hi]; [|now apply IH].
  repeat (apply andb_true_iff in Hi as [Hi ?]).
  apply N.eqb_eq in Hi. subst n.
  repeat match goal with Hx : bytes_eqb _ _ = true |- _ => apply bytes_eqb_eq in Hx end.
  repeat match goal with Hx : N.eqb _ _ = true |- _ => apply N.eqb_eq in Hx end.
  destruct Hg as [Hd [Hn Hc]]. cbn in *.
  repeat split; congruence.
Qed.

Lemma in_seen_good : forall name c l, Forall gs l -> in_seen name c l = true -> H c = name.
Proof.
  induction l as [|[n c'] t IH]; intros HF Hi; cbn in Hi; [discriminate|].
  inversion HF as [|? ? Hg Ht]; subst.
  apply orb_true_iff in Hi as [Hi|Hi]; [|now apply IH].
  apply andb_true_iff in Hi as [Hn Hc]. apply N.eqb_eq in Hn. apply bytes_eqb_eq in Hc.
  unfold gs in Hg. cbn in Hg. congruence.
Qed.

Lemma disk_lookup_good : forall a name d, AInv a -> alookup name (a_disk a) = Some d -> good_dent H name d.
Proof.
  intros a name d HI Hl. apply alookup_In in Hl. pose proof (ainv_disk _ HI) as Hd.
  rewrite Forall_forall in Hd. now specialize (Hd _ Hl).
Qed.

Theorem astep_inv : forall a o, AInv a -> AInv (astep H cf a o).
Proof.
  intros a o HI. destruct HI as [Hm Hd Hi Hs]. destruct o; cbn [astep].
  - (* AMemAdd *)
    match goal with |- AInv (if ?c then _ else _) => destruct c eqn:Ec end; [|now constructor].
    apply andb_true_iff in Ec as [Ec _]. apply andb_true_iff in Ec as [Ev _].
    assert (Hg : good_ment H name (mkment data (mkmi name data pl) at_)).
    { pose proof (verify_ok_hash H cf Hskip name data Ev). repeat split; cbn; assumption. }
    constructor; cbn; try assumption.
    + apply Forall_aset; assumption.
    + constructor; assumption.
  - (* AMove *)
    match goal with |- AInv (if ?c then _ else _) => destruct c eqn:Ec end; [|now constructor].
    apply andb_true_iff in Ec as [Ev _].
    constructor; cbn; try assumption. apply Forall_aset; [|assumption].
    split; cbn; [now apply (verify_ok_hash H cf Hskip)|discriminate].
  - (* ARead *)
    destruct (v_data (aview a name)) as [c|] eqn:Er; [|now constructor].
    constructor; cbn; try assumption. constructor; [|assumption].
    unfold gs. cbn. apply (Inv_read H (st_of a) name c); [apply AInv_Inv; now constructor|exact Er].
  - (* ASetMetaSeen *)
    match goal with |- AInv (if ?c then _ else _) => destruct c eqn:Ec end; [|now constructor].
    apply andb_true_iff in Ec as [Es _].
    destruct (alookup name (a_disk a)) as [d|] eqn:Ed; [|now constructor].
    destruct (disk_lookup_good a name d (mkAInv a Hm Hd Hi Hs) Ed) as [Hdat _].
    constructor; cbn; try assumption. apply Forall_aset; [|assumption].
    split; cbn; [assumption|]. intros mi Hmi. injection Hmi as <-. split; cbn; [reflexivity|].
    now apply (in_seen_good name data (a_seen a)).
  - (* ASetMetaItem *)
    destruct (in_items name e (a_items a)) eqn:Ei; [|now constructor].
    destruct (alookup name (a_disk a)) as [d|] eqn:Ed; [|now constructor].
    destruct (disk_lookup_good a name d (mkAInv a Hm Hd Hi Hs) Ed) as [Hdat _].
    destruct (in_items_good name e (a_items a) Hi Ei) as [_ Hmi].
    constructor; cbn; try assumption. apply Forall_aset; [|assumption].
    split; cbn; [assumption|]. intros mi Hmi'. injection Hmi' as <-. exact Hmi.
  - (* AMoveItem *)
    match goal with |- AInv (if ?c then _ else _) => destruct c eqn:Ec end; [|now constructor].
    apply andb_true_iff in Ec as [Ec _]. apply andb_true_iff in Ec as [_ Ev].
    constructor; cbn; try assumption. apply Forall_aset; [|assumption].
    split; cbn; [now apply (verify_ok_hash H cf Hskip)|discriminate].
  - (* AMemRemove *)
    constructor; cbn; try assumption. now apply Forall_aremove.
  - (* AMemFilter *)
    constructor; cbn; try assumption.
    rewrite Forall_forall in *. intros p Hp. apply filter_In in Hp as [Hp _]. now apply Hm.
  - (* ASetPersist *)
    destruct (alookup name (a_disk a)) as [d|] eqn:Ed; [|now constructor].
    pose proof (disk_lookup_good a name d (mkAInv a Hm Hd Hi Hs) Ed) as Hg.
    constructor; cbn; try assumption. apply Forall_aset; assumption.
  - (* ADelete *)
    destruct (alookup name (a_disk a)) as [d|] eqn:Ed; [|now constructor].
    destruct (d_persist d); [now constructor|].
    constructor; cbn; try assumption. now apply Forall_aremove.
Qed.

Lemma arun_inv : forall l a, AInv a -> AInv (arun H cf a l).
Proof.
  induction l as [|o t IH]; intros a HI; cbn; [assumption|]. apply IH. now apply astep_inv.
Qed.

(* clause 1 at lock-region granularity: every interleaving of every number of concurrent callers *)
Theorem readable_hashes_atomic : forall l name, view_good H name (aview (arun H cf ainit l) name).
Proof.
  intros l name. unfold aview. apply (Inv_view_good H (st_of (arun H cf ainit l))).
  apply AInv_Inv. apply arun_inv. apply AInv_init.
Qed.

(* ------------------------------------------------------------------ refinement *)

Hypothesis Hmv : c_memverify cf = true.

(* the API-level state and the atomic-level state agree on what is shared; every queued drain item
   is an entry that was added *)
Record R (a : ast) (s : st) : Prop := mkR {
  r_disk : a_disk a = disk s;
  r_mem : a_mem a = mem s;
  r_q : Forall (fun p => in_items (fst (fst p)) (snd (fst p)) (a_items a) = true) (drainq s)
}.

Lemma arun_app : forall l1 l2 a, arun H cf a (l1 ++ l2) = arun H cf (arun H cf a l1) l2.
Proof. intros. unfold arun. apply fold_left_app. Qed.

Lemma in_items_refl : forall name e l, in_items name e ((name, e) :: l) = true.
Proof.
  intros. cbn. now rewrite !N.eqb_refl, !bytes_eqb_refl, Z.eqb_refl.
Qed.

Lemma in_items_cons : forall name e p l, in_items name e l = true -> in_items name e (p :: l) = true.
Proof. intros name e [n e'] l Hi. cbn. rewrite Hi. apply orb_true_r. Qed.

Lemma aview_read : forall a s name, R a s -> v_data (aview a name) = read s name.
Proof. intros a s name [Hd Hm _]. unfold aview, read, view_of. cbn. now rewrite Hd, Hm. Qed.

(* every helper of `step` is matched by atomic steps that leave a_items unchanged *)
Definition sim (a : ast) (s' : st) : Prop :=
  exists l, R (arun H cf a l) s' /\ a_items (arun H cf a l) = a_items a.

Lemma sim_refl : forall a s, R a s -> sim a s.
Proof. intros a s HR. exists []. split; [assumption|reflexivity]. Qed.

Lemma sim_trans : forall a s1 s2, sim a s1 -> (forall a1, R a1 s1 -> sim a1 s2) -> sim a s2.
Proof.
  intros a s1 s2 [l1 [HR1 Hi1]] Hn. destruct (Hn _ HR1) as [l2 [HR2 Hi2]].
  exists (l1 ++ l2). rewrite arun_app. split; [assumption|congruence].
Qed.

Lemma sim_move_in : forall a s name data, R a s -> sim a (fst (move_in H cf s name data)).
Proof.
  intros a s name data [Hd Hm Hq]. exists [AMove name data]. cbn [arun fold_left astep].
  unfold move_in. rewrite Hd.
  destruct (verify_ok H cf name data); cbn; [|split; [now constructor|reflexivity]].
  destruct (has name (disk s)); cbn; (split; [constructor; cbn; congruence|reflexivity]).
Qed.

Lemma sim_set_persist : forall a s name d, R a s -> alookup name (disk s) = Some d ->
  sim a (set_disk s (aset name (mkdent (d_data d) (d_meta d) true) (disk s))).
Proof.
  intros a s name d [Hd Hm Hq] Hl. exists [ASetPersist name true]. cbn [arun fold_left astep].
  rewrite Hd, Hl. split; [constructor; cbn; congruence|reflexivity].
Qed.

Lemma sim_gen_meta : forall a s name pl, R a s -> sim a (fst (gen_meta s name pl)).
Proof.
  intros a s name pl HR. unfold gen_meta.
  destruct (read s name) as [c|] eqn:Er; [|now apply sim_refl].
  destruct (pl <=? 0)%Z eqn:Ep; [now apply sim_refl|].
  exists [ARead name; ASetMetaSeen name c pl]. cbn [arun fold_left astep].
  rewrite (aview_read a s name HR), Er. cbn [a_seen a_disk a_mem a_items].
  assert (Hs : in_seen name c ((name, c) :: a_seen a) = true) by (cbn; now rewrite N.eqb_refl, bytes_eqb_refl).
  rewrite Hs. assert (Hp : (0 <? pl)%Z = true) by lia. rewrite Hp. cbn [andb].
  destruct HR as [Hd Hm Hq]. unfold set_meta. rewrite Hd.
  destruct (alookup name (disk s)) as [d|]; cbn; (split; [constructor; cbn; congruence|reflexivity]).
Qed.

Lemma sim_write_back : forall a s name, R a s -> sim a (fst (write_back cf s name)).
Proof.
  intros a s name HR. unfold write_back.
  destruct (alookup name (disk s)) as [d|] eqn:Ed; [|now apply sim_refl].
  eapply sim_trans; [now apply (sim_set_persist a s name d)|].
  intros a1 HR1. now apply sim_gen_meta.
Qed.

Lemma sim_on_conflict : forall cl a s name, R a s -> sim a (fst (on_conflict cf cl s name)).
Proof.
  intros cl a s name HR. unfold on_conflict. destruct cl; [|now apply sim_refl].
  pose proof (sim_write_back a s name HR) as Hw. destruct (write_back cf s name). exact Hw.
Qed.

Lemma R_set_ups : forall a s u, R a s -> R a (set_ups s u).
Proof. intros a s u [A B C]. now constructor. Qed.
Lemma R_set_now : forall a s t, R a s -> R a (set_now s t).
Proof. intros a s t [A B C]. now constructor. Qed.

Lemma sim_drain_write : forall a s name e, R a s -> in_items name e (a_items a) = true ->
  sim a (fst (drain_write H cf s name e)).
Proof.
  intros a s name e [Hd Hm Hq] Hi. unfold drain_write, move_in.
  destruct (verify_ok H cf name (m_data e)) eqn:Ev; cbn; [|apply sim_refl; now constructor].
  exists [AMoveItem name e; ASetMetaItem name e]. cbn [arun fold_left astep].
  rewrite Hi, Ev, Hd. cbn [andb].
  destruct (has name (disk s)) eqn:Eh; cbn [negb fst].
  - rewrite Hi, Hd. unfold set_meta.
    destruct (alookup name (disk s)) as [d|]; cbn; (split; [constructor; cbn; congruence|reflexivity]).
  - cbn [a_items a_disk]. rewrite Hi. unfold set_meta. cbn [disk set_disk].
    rewrite alookup_aset_eq. cbn. split; [constructor; cbn; congruence|reflexivity].
Qed.

Lemma Forall_in_items_cons : forall p l (q : list (N * ment * N)),
  Forall (fun x => in_items (fst (fst x)) (snd (fst x)) l = true) q ->
  Forall (fun x => in_items (fst (fst x)) (snd (fst x)) (p :: l) = true) q.
Proof.
  intros p l q Hq. rewrite Forall_forall in *. intros x Hx. apply in_items_cons. now apply Hq.
Qed.

(* every API-level operation is a finite sequence of atomic steps *)
Theorem step_refines : forall a s o, is_raced o = false -> R a s ->
  exists l, R (arun H cf a l) (fst (step H cf s o)).
Proof.
  intros a s o Hrace HR.
  assert (Hsim : forall s', sim a s' -> exists l, R (arun H cf a l) s').
  { intros s' [l [HR' _]]. now exists l. }
  destruct o; cbn [step]; try discriminate Hrace.
  - (* UStart *)
    destruct (valid name); cbn; [|now exists []].
    destruct (exists_blob s name); [apply Hsim; now apply sim_on_conflict|].
    exists []. cbn. now apply R_set_ups.
  - (* UPatch *)
    destruct (valid name); cbn; [|now exists []].
    destruct (exists_blob s name); [apply Hsim; now apply sim_on_conflict|].
    destruct (alookup uid (ups s)); cbn; [|now exists []].
    destruct (stop <? start); cbn; [now exists []|]. exists []. cbn. now apply R_set_ups.
  - (* UCommit *)
    unfold commit_core.
    destruct (valid name); cbn; [|now exists []].
    destruct (alookup uid (ups s)) as [f|]; cbn; [|now exists []].
    set (s1 := set_ups s (aremove uid (ups s))).
    assert (HR1 : R a s1) by now apply R_set_ups.
    apply Hsim.
    pose proof (sim_move_in a s1 name f HR1) as Hm.
    destruct (move_in H cf s1 name f) as [s2 r] eqn:Em. cbn in Hm. destruct r.
    + eapply sim_trans; [exact Hm|]. intros a1 HRa. destruct cluster.
      * pose proof (sim_write_back a1 s2 name HRa) as Hw. destruct (write_back cf s2 name). exact Hw.
      * pose proof (sim_gen_meta a1 s2 name (c_genpl cf) HRa) as Hw. destruct (gen_meta s2 name (c_genpl cf)). exact Hw.
    + pose proof (sim_on_conflict cluster a s1 name HR1) as Hc. destruct (on_conflict cf cluster s1 name). exact Hc.
    + cbn. now apply sim_refl.
  - (* Create *)
    destruct (s_err w); cbn; [now exists []|].
    apply Hsim. pose proof (sim_move_in a s name (sdata w) HR) as Hm.
    destruct (move_in H cf s name (sdata w)) as [s' r] eqn:Em. cbn in Hm.
    destruct r; cbn; try exact Hm.
    unfold move_in in Em. destruct (verify_ok H cf name (sdata w)); [destruct (has name (disk s)); inversion Em|inversion Em; subst; now apply sim_refl].
  - (* Refresh *)
    rewrite Hmv. cbn [negb orb].
    match goal with |- exists l, R _ (fst (if ?c then _ else _)) => destruct c eqn:Ec end.
    + repeat (apply andb_true_iff in Ec as [Ec ?]).
      exists [AMemAdd name (sdata w1) pl (now s)]. cbn [arun fold_left astep fst].
      destruct HR as [Hd Hm Hq]. rewrite Hm.
      repeat match goal with Hx : _ = true |- _ => rewrite Hx end. cbn [andb].
      constructor; [cbn; assumption|cbn; congruence|].
      cbn [drainq set_drainq set_mem a_items].
      apply Forall_app. split; [now apply Forall_in_items_cons|].
      constructor; [|constructor]. cbn [fst snd]. apply in_items_refl.
    + destruct (s_err (if c_mem cf && rsv then w2 else w1)); cbn; [now exists []|].
      set (wd := if c_mem cf && rsv then w2 else w1).
      apply Hsim. pose proof (sim_move_in a s name (sdata wd) HR) as Hm.
      destruct (move_in H cf s name (sdata wd)) as [s' r] eqn:Em. cbn in Hm.
      assert (Hg : sim a (fst (gen_meta s' name pl))).
      { eapply sim_trans; [exact Hm|]. intros a1 HRa. now apply sim_gen_meta. }
      destruct r; cbn.
      * destruct (gen_meta s' name pl). exact Hg.
      * destruct (gen_meta s' name pl). exact Hg.
      * now apply sim_refl.
  - (* Drain *)
    destruct (drainq s) as [|[[name e] r] q] eqn:Eq; cbn; [now exists []|].
    destruct HR as [Hd Hm Hq]. rewrite Eq in Hq. inversion Hq as [|? ? Hie Hqt]; subst. cbn in Hie.
    assert (HR0 : R a (set_drainq s q)) by (constructor; cbn; assumption).
    assert (Hs1 : sim a (fst (if envok then drain_write H cf (set_drainq s q) name e else (set_drainq s q, false)))).
    { destruct envok; [now apply sim_drain_write|now apply sim_refl]. }
    assert (Hq1 : drainq (fst (if envok then drain_write H cf (set_drainq s q) name e else (set_drainq s q, false))) = q).
    { destruct envok; [|reflexivity]. unfold drain_write, move_in.
      destruct (verify_ok H cf name (m_data e)); cbn; [|reflexivity].
      destruct (has name (disk s)); cbn; unfold set_meta; cbn;
        match goal with |- drainq (fst (match ?x with _ => _ end)) = _ => destruct x end; reflexivity. }
    destruct (if envok then drain_write H cf (set_drainq s q) name e else (set_drainq s q, false)) as [s1 ok].
    cbn in Hs1, Hq1. destruct Hs1 as [l [[Hd1 Hm1 Hq1'] Hi1]].
    assert (Hrem : R (astep H cf (arun H cf a l) (AMemRemove name)) (mem_remove s1 name)).
    { constructor; cbn; [assumption|congruence|assumption]. }
    destruct ok; cbn.
    + exists (l ++ [AMemRemove name]). rewrite arun_app. exact Hrem.
    + destruct (r <? c_retry cf); cbn.
      * exists l. constructor; cbn; [assumption|assumption|].
        apply Forall_app. split; [assumption|]. constructor; [|constructor]. cbn. now rewrite Hi1.
      * exists (l ++ [AMemRemove name]). rewrite arun_app. exact Hrem.
  - (* Tick *) exists []. cbn. now apply R_set_now.
  - (* Expire *)
    exists [AMemFilter (fun _ e => negb (expired cf s e))]. cbn [arun fold_left astep fst].
    destruct HR as [Hd Hm Hq]. constructor; cbn; [assumption| |assumption]. now rewrite Hm.
  - (* Delete *)
    destruct (valid name); cbn; [|now exists []].
    exists [ADelete name]. cbn [arun fold_left astep].
    destruct HR as [Hd Hm Hq]. rewrite Hd.
    destruct (alookup name (disk s)) as [d|]; cbn; [|now constructor].
    destruct (d_persist d); cbn; constructor; cbn; congruence.
  - (* GenMeta *)
    destruct (valid name); cbn; [|now exists []].
    apply Hsim. pose proof (sim_gen_meta a s name pl HR) as Hw. destruct (gen_meta s name pl). exact Hw.
Qed.

Lemma R_init : R ainit init.
Proof. constructor; cbn; [reflexivity|reflexivity|constructor]. Qed.

Theorem exec_refines : forall ops a s, race_free ops = true -> R a s ->
  exists l, R (arun H cf a l) (exec H cf s ops).
Proof.
  induction ops as [|o t IH]; intros a s Hrf HR; cbn; [now exists []|].
  cbn in Hrf. apply andb_true_iff in Hrf as [Ho Hrt]. apply negb_true_iff in Ho.
  destruct (step_refines a s o Ho HR) as [l1 HR1].
  destruct (IH _ _ Hrt HR1) as [l2 HR2]. exists (l1 ++ l2). now rewrite arun_app.
Qed.

(* every state the API-level model reaches is reached by the atomic-step system: same cache dir,
   same memory entries, hence the same views *)
Theorem api_refines_atomic : forall ops, race_free ops = true -> exists l,
  let a := arun H cf ainit l in let s := exec H cf init ops in
  a_disk a = disk s /\ a_mem a = mem s /\ forall name, aview a name = view_of s name.
Proof.
  intros ops Hrf. destruct (exec_refines ops ainit init Hrf R_init) as [l [Hd Hm _]].
  exists l. cbn zeta. repeat split; try assumption.
  intros name. unfold aview, view_of. cbn. now rewrite Hd, Hm.
Qed.

End AtomicProofs.
