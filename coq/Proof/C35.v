From Coq Require Import List NArith Bool Lia.
From K.Model Require Import C35.
Import ListNotations.
Local Open Scope N_scope.

(* ---------- small facts ---------- *)
Lemma bytes_eqb_refl l : bytes_eqb l l = true.
Proof. induction l as [|x t IH]; cbn [bytes_eqb]; [reflexivity|]. rewrite N.eqb_refl, IH. reflexivity. Qed.

Lemma bytes_eqb_eq a b : bytes_eqb a b = true <-> a = b.
Proof.
  split; [|intros ->; apply bytes_eqb_refl].
  revert b. induction a as [|x a IH]; intros [|y b]; cbn [bytes_eqb]; try discriminate; [reflexivity|].
  intros H. apply andb_prop in H. destruct H as [H1 H2]. apply N.eqb_eq in H1. subst. f_equal. apply IH. exact H2.
Qed.

Lemma is_nil_true l : is_nil l = true <-> l = [].
Proof. destruct l; cbn [is_nil]; split; congruence. Qed.

Lemma is_nil_app a b : is_nil (a ++ b) = is_nil a && is_nil b.
Proof. destruct a; reflexivity. Qed.

(* ---------- what one request can do ---------- *)
(* a request writes only if the response is a 200, and then exactly its body *)
Lemma http_download_written r w q :
  http_download r = (w, q) ->
  w = [] \/ exists body clean, r = RResp 200 body clean /\ w = body.
Proof.
  destruct r as [|code body clean]; cbn [http_download].
  - intros H. inversion H. left. reflexivity.
  - destruct (N.eqb_spec code 200) as [->|Hne]; intros H; inversion H; subst.
    + right. exists w, clean. split; reflexivity.
    + left. reflexivity.
Qed.

Lemma http_download_ok r w :
  http_download r = (w, QOk) -> r = RResp 200 w true.
Proof.
  destruct r as [|code body clean]; cbn [http_download]; [discriminate|].
  destruct (N.eqb_spec code 200) as [->|Hne]; [|discriminate].
  destruct clean; intros H; inversion H. reflexivity.
Qed.

Lemma http_download_net r w : http_download r = (w, QNet) -> w = [].
Proof.
  destruct r as [|code body clean]; cbn [http_download]; [intros H; inversion H; reflexivity|].
  destruct (code =? 200); [destruct clean|]; discriminate.
Qed.

Lemma http_download_status r w c :
  http_download r = (w, QStatus c) -> w = [] /\ is202 r = (c =? 202).
Proof.
  destruct r as [|code body clean]; cbn [http_download is202]; [discriminate|].
  destruct (code =? 200); [destruct clean; discriminate|]. intros H. inversion H. split; reflexivity.
Qed.

Lemma http_download_copy r w : http_download r = (w, QCopy) -> r = RResp 200 w false.
Proof.
  destruct r as [|code body clean]; cbn [http_download]; [discriminate|].
  destruct (N.eqb_spec code 200) as [->|Hne]; [|discriminate].
  destruct clean; intros H; inversion H. reflexivity.
Qed.

Lemma http_download_ok_iff r : (exists w, http_download r = (w, QOk)) <-> complete r = true.
Proof.
  destruct r as [|code body clean]; cbn [http_download complete].
  - split; [intros [w H]; discriminate | discriminate].
  - destruct (N.eqb_spec code 200) as [->|Hne]; destruct clean; split; try discriminate;
      try (intros [w H]; discriminate); intros _; eexists; reflexivity.
Qed.

(* ---------- one origin, patched closure, starting from an untouched destination ---------- *)
(* The central invariant: if the turn of an origin starts with nothing written, then
   - success: dst is exactly the body of the complete 200 that ended the turn, and every
     earlier response of the turn was a 202 (so nothing else contributed);
   - next origin: still nothing written;
   - failure: dst is empty or the body of exactly one (cut) 200 response. *)
Definition one_writer (sc : list resp) (dst : list N) : Prop :=
  dst = [] \/ exists pre body clean post, sc = pre ++ RResp 200 body clean :: post /\ dst = body.

Lemma poll_origin_fixed_inv sc : forall bud cnt res dst c,
  poll_origin true sc bud [] cnt = (res, dst, c) ->
  match res with
  | PDone Ok => exists pre post, sc = pre ++ RResp 200 dst true :: post /\
                                 forallb is202 pre = true /\ N.of_nat (length pre) <= bud
  | PNext => dst = []
  | PDone _ => one_writer sc dst
  end.
Proof.
  induction sc as [|r sc IH]; intros bud cnt res dst c; cbn [poll_origin].
  - intros H. inversion H. reflexivity.
  - destruct (http_download r) as [w q] eqn:Hd. cbn [app].
    destruct q as [| |code|].
    + (* QOk *)
      intros H. inversion H; subst. apply http_download_ok in Hd. subst r.
      exists [], sc. cbn. split; [reflexivity|]. split; [reflexivity|lia].
    + (* QNet *)
      apply http_download_net in Hd. subst w. cbn. intros H. inversion H. reflexivity.
    + (* QStatus *)
      apply http_download_status in Hd. destruct Hd as [-> Hr].
      cbn [is_nil negb andb].
      destruct (N.eqb_spec code 202) as [E|Hne].
      * subst code. cbn in Hr.
        destruct (N.eqb_spec bud 0) as [->|Hb].
        -- intros H. inversion H. reflexivity.
        -- intros H. specialize (IH _ _ _ _ _ H).
           destruct res as [[| | |]|].
           ++ destruct IH as [pre [post [-> [Hp Hl]]]]. exists (r :: pre), post.
              split; [reflexivity|]. split; [cbn [forallb]; rewrite Hr, Hp; reflexivity|].
              cbn [length]. lia.
           ++ destruct IH as [->|[pre [body [clean [post [-> ->]]]]]]; [left; reflexivity|].
              right. exists (r :: pre), body, clean, post. split; reflexivity.
           ++ destruct IH as [->|[pre [body [clean [post [-> ->]]]]]]; [left; reflexivity|].
              right. exists (r :: pre), body, clean, post. split; reflexivity.
           ++ destruct IH as [->|[pre [body [clean [post [-> ->]]]]]]; [left; reflexivity|].
              right. exists (r :: pre), body, clean, post. split; reflexivity.
           ++ exact IH.
      * destruct (code <? 500); intros H; inversion H; [left|]; reflexivity.
    + (* QCopy *)
      apply http_download_copy in Hd. subst r.
      destruct w as [|b0 body]; cbn [is_nil negb andb].
      * intros H. inversion H. reflexivity.
      * intros H. inversion H. right. exists [], (b0 :: body), false, sc. split; reflexivity.
Qed.

(* the same turn, as an exact characterisation of "try the next origin" *)
Lemma poll_origin_next_iff sc : forall fixed bud cnt,
  (exists c, poll_origin fixed sc bud [] cnt = (PNext, [], c)) <-> silent_fail sc bud = true.
Proof.
  induction sc as [|r sc IH]; intros fixed bud cnt; cbn [poll_origin silent_fail].
  - split; [reflexivity|]. intros _. eexists. reflexivity.
  - destruct r as [|code body clean]; cbn [http_download app].
    + cbn [is_nil negb andb]. rewrite andb_false_r. split; [reflexivity|]. intros _. eexists. reflexivity.
    + destruct (N.eqb_spec code 200) as [->|Hne].
      * destruct clean.
        -- split; [intros [c H]; discriminate | discriminate].
        -- destruct body as [|b0 body]; cbn [is_nil negb andb app].
           ++ rewrite andb_false_r. split; [reflexivity|]. intros _. eexists. reflexivity.
           ++ destruct fixed; cbn [andb]; split; try discriminate; intros [c H]; discriminate.
      * cbn [is_nil negb andb]. rewrite andb_false_r.
        destruct (N.eqb_spec code 202) as [->|Hne2].
        -- destruct (N.eqb_spec bud 0) as [->|Hb].
           ++ split; [reflexivity|]. intros _. eexists. reflexivity.
           ++ apply IH.
        -- destruct (code <? 500); cbn [negb].
           ++ split; [intros [c H]; discriminate | discriminate].
           ++ split; [reflexivity|]. intros _. eexists. reflexivity.
Qed.

(* whatever the closure, PNext from an untouched destination with the patched closure leaves it
   untouched (corollary used below) *)
Lemma poll_origin_fixed_next sc bud cnt dst c :
  poll_origin true sc bud [] cnt = (PNext, dst, c) -> dst = [].
Proof. intros H. exact (poll_origin_fixed_inv _ _ _ _ _ _ H). Qed.

(* success needs a complete 200 in the script, with either closure and any destination *)
Lemma poll_origin_ok_complete fixed sc : forall bud dst cnt dst' c,
  poll_origin fixed sc bud dst cnt = (PDone Ok, dst', c) -> existsb complete sc = true.
Proof.
  induction sc as [|r sc IH]; intros bud dst cnt dst' c; cbn [poll_origin]; [discriminate|].
  destruct (http_download r) as [w q] eqn:Hd. cbn [existsb].
  destruct q as [| |code|].
  - intros _. assert (Hc : complete r = true) by (apply http_download_ok_iff; eexists; exact Hd).
    rewrite Hc. reflexivity.
  - destruct (fixed && negb (is_nil (dst ++ w))); discriminate.
  - destruct (fixed && negb (is_nil (dst ++ w))); [discriminate|].
    destruct (code =? 202).
    + destruct (bud =? 0); [discriminate|]. intros H. rewrite (IH _ _ _ _ _ H). apply orb_true_r.
    + destruct (code <? 500); discriminate.
  - destruct (fixed && negb (is_nil (dst ++ w))); discriminate.
Qed.

(* ---------- the ORIGINS loop ---------- *)
Lemma poll_fixed_inv os : forall res dst cs,
  poll true os [] = (res, dst, cs) ->
  match res with
  | Ok => exists fails o rest pre post,
            os = fails ++ o :: rest /\
            forallb (fun f => silent_fail (script f) (budget f)) fails = true /\
            script o = pre ++ RResp 200 dst true :: post /\
            forallb is202 pre = true /\ N.of_nat (length pre) <= budget o
  | _ => dst = [] \/ exists o, In o os /\ one_writer (script o) dst
  end.
Proof.
  induction os as [|o os IH]; intros res dst cs; cbn [poll].
  - intros H. inversion H. left. reflexivity.
  - destruct (poll_origin true (script o) (budget o) [] 0) as [[pr d1] c1] eqn:Ho.
    pose proof (poll_origin_fixed_inv _ _ _ _ _ _ Ho) as Hinv.
    destruct pr as [r|].
    + intros H. inversion H; subst. destruct res as [| | |].
      * destruct Hinv as [pre [post [Hs [Hp Hl]]]]. exists [], o, os, pre, post.
        repeat split; try assumption; reflexivity.
      * right. exists o. split; [left; reflexivity | exact Hinv].
      * right. exists o. split; [left; reflexivity | exact Hinv].
      * right. exists o. split; [left; reflexivity | exact Hinv].
    + subst d1.
      assert (Hsf : silent_fail (script o) (budget o) = true).
      { apply (poll_origin_next_iff (script o) true (budget o) 0). eexists. exact Ho. }
      destruct (poll true os []) as [[r2 d2] cs2] eqn:Hp. intros H. inversion H; subst.
      specialize (IH _ _ _ eq_refl). destruct res as [| | |].
      * destruct IH as [fails [o' [rest [pre [post [-> [Hf [Hs [Hp2 Hl]]]]]]]]].
        exists (o :: fails), o', rest, pre, post. repeat split; try assumption.
        cbn [forallb]. rewrite Hsf, Hf. reflexivity.
      * destruct IH as [->|[o' [Hi Hw]]]; [left; reflexivity|]. right. exists o'. split; [right; exact Hi | exact Hw].
      * destruct IH as [->|[o' [Hi Hw]]]; [left; reflexivity|]. right. exists o'. split; [right; exact Hi | exact Hw].
      * destruct IH as [->|[o' [Hi Hw]]]; [left; reflexivity|]. right. exists o'. split; [right; exact Hi | exact Hw].
Qed.

(* completeness: silently failing origins, then 202s within budget, then a complete 200 *)
Lemma poll_origin_202s_then_ok fixed pre : forall body post bud cnt,
  forallb is202 pre = true -> N.of_nat (length pre) <= bud ->
  exists c, poll_origin fixed (pre ++ RResp 200 body true :: post) bud [] cnt = (PDone Ok, body, c).
Proof.
  induction pre as [|r pre IH]; intros body post bud cnt Hp Hl; cbn [app poll_origin].
  - cbn [http_download]. rewrite N.eqb_refl. cbn [app]. eexists. reflexivity.
  - cbn [forallb] in Hp. apply andb_prop in Hp. destruct Hp as [Hr Hp].
    destruct r as [|code b cl]; cbn [is202] in Hr; [discriminate|]. apply N.eqb_eq in Hr. subst code.
    cbn [http_download]. replace (202 =? 200) with false by reflexivity. cbn [app is_nil negb].
    rewrite andb_false_r. rewrite N.eqb_refl.
    cbn [length] in Hl. destruct (N.eqb_spec bud 0) as [->|Hb]; [lia|].
    apply IH; [exact Hp | lia].
Qed.

Lemma poll_failover fixed fails : forall o rest pre body post,
  forallb (fun f => silent_fail (script f) (budget f)) fails = true ->
  script o = pre ++ RResp 200 body true :: post ->
  forallb is202 pre = true -> N.of_nat (length pre) <= budget o ->
  exists cs, poll fixed (fails ++ o :: rest) [] = (Ok, body, cs).
Proof.
  induction fails as [|f fails IH]; intros o rest pre body post Hf Hs Hp Hl; cbn [app poll].
  - destruct (poll_origin_202s_then_ok fixed pre body post (budget o) 0 Hp Hl) as [c Hc].
    rewrite Hs, Hc. eexists. reflexivity.
  - cbn [forallb] in Hf. apply andb_prop in Hf. destruct Hf as [Hf1 Hf2].
    destruct (proj2 (poll_origin_next_iff (script f) fixed (budget f) 0) Hf1) as [c Hc]. rewrite Hc.
    destruct (IH o rest pre body post Hf2 Hs Hp Hl) as [cs Hcs]. rewrite Hcs. eexists. reflexivity.
Qed.

(* success needs a complete 200 somewhere, with either closure *)
Lemma poll_ok_complete fixed os : forall dst res dst' cs,
  poll fixed os dst = (res, dst', cs) -> res = Ok -> any_complete os = true.
Proof.
  induction os as [|o os IH]; intros dst res dst' cs; cbn [poll].
  - intros H. inversion H. discriminate.
  - destruct (poll_origin fixed (script o) (budget o) dst 0) as [[pr d1] c1] eqn:Ho.
    unfold any_complete. cbn [existsb]. destruct pr as [r|].
    + intros H Hr. inversion H; subst. rewrite (poll_origin_ok_complete _ _ _ _ _ _ _ Ho). reflexivity.
    + destruct (poll fixed os d1) as [[r2 d2] cs2] eqn:Hp. intros H Hr. inversion H; subst.
      specialize (IH _ _ _ _ Hp eq_refl). unfold any_complete in IH. rewrite IH. apply orb_true_r.
Qed.

Lemma map404_ok r : map404 r = Ok <-> r = Ok.
Proof. destruct r as [| |c|]; cbn [map404]; try tauto; try (split; discriminate). destruct (c =? 404); split; discriminate. Qed.

(* ---------- theorems about `download` (the patched cluster download) ---------- *)
Definition success_shape (os : list origin) (dst : list N) : Prop :=
  exists fails o rest pre post,
    os = fails ++ o :: rest /\
    forallb (fun f => silent_fail (script f) (budget f)) fails = true /\
    script o = pre ++ RResp 200 dst true :: post /\
    forallb is202 pre = true /\ N.of_nat (length pre) <= budget o.

Lemma download_unfold os :
  download os = let '(r, dst, _) := poll true os [] in (map404 r, dst).
Proof.
  unfold download, run, run_with. cbn [i_entry i_resolve i_origins].
  destruct (poll true os []) as [[r d] cs]. reflexivity.
Qed.

Lemma success_iff os dst : download os = (Ok, dst) <-> success_shape os dst.
Proof.
  rewrite download_unfold. destruct (poll true os []) as [[r d] cs] eqn:Hp. split.
  - intros H. injection H as Hr Hd. subst d. apply (proj1 (map404_ok _)) in Hr. subst r.
    exact (poll_fixed_inv _ _ _ _ Hp).
  - intros [fails [o [rest [pre [post [-> [Hf [Hs [Hp2 Hl]]]]]]]]].
    destruct (poll_failover true fails o rest pre dst post Hf Hs Hp2 Hl) as [cs' Hcs].
    rewrite Hcs in Hp. inversion Hp. reflexivity.
Qed.

Lemma honest_in blob os o r :
  honest blob os = true -> In o os -> In r (script o) -> complete r = true -> delivers blob r = true.
Proof.
  unfold honest. intros Hh Ho Hr Hc. rewrite forallb_forall in Hh. specialize (Hh _ Ho).
  rewrite forallb_forall in Hh. specialize (Hh _ Hr). unfold honest_resp in Hh. rewrite Hc in Hh. exact Hh.
Qed.

(* clause 1, environment form: the destination holds exactly the body of one complete 200 *)
Lemma success_exactly_one_body os dst :
  download os = (Ok, dst) ->
  exists o pre post, In o os /\ script o = pre ++ RResp 200 dst true :: post.
Proof.
  intros H. apply success_iff in H. destruct H as [fails [o [rest [pre [post [-> [_ [Hs _]]]]]]]].
  exists o, pre, post. split; [apply in_or_app; right; left; reflexivity | exact Hs].
Qed.

(* clause 1: honest origins => exactly the blob *)
Lemma success_exact blob os dst :
  honest blob os = true -> download os = (Ok, dst) -> dst = blob.
Proof.
  intros Hh H. destruct (success_exactly_one_body _ _ H) as [o [pre [post [Hi Hs]]]].
  assert (Hd : delivers blob (RResp 200 dst true) = true).
  { apply (honest_in blob os o); [exact Hh | exact Hi | rewrite Hs; apply in_or_app; right; left; reflexivity | reflexivity]. }
  cbn [delivers] in Hd. apply andb_prop in Hd. apply bytes_eqb_eq. exact (proj2 Hd).
Qed.

(* at most one response ever contributes bytes, whatever the result *)
Lemma at_most_one_writer os r dst :
  download os = (r, dst) ->
  dst = [] \/ exists o pre body clean post,
                In o os /\ script o = pre ++ RResp 200 body clean :: post /\ dst = body.
Proof.
  rewrite download_unfold. destruct (poll true os []) as [[r0 d] cs] eqn:Hp. intros H. inversion H; subst.
  pose proof (poll_fixed_inv _ _ _ _ Hp) as Hinv. destruct r0 as [| |c|].
  - destruct Hinv as [fails [o [rest [pre [post [-> [_ [Hs _]]]]]]]]. right.
    exists o, pre, dst, true, post. split; [apply in_or_app; right; left; reflexivity|]. split; [exact Hs | reflexivity].
  - destruct Hinv as [->|[o [Hi [->|[pre [body [clean [post [Hs ->]]]]]]]]]; [left; reflexivity | left; reflexivity |].
    right. exists o, pre, body, clean, post. repeat split; assumption.
  - destruct Hinv as [->|[o [Hi [->|[pre [body [clean [post [Hs ->]]]]]]]]]; [left; reflexivity | left; reflexivity |].
    right. exists o, pre, body, clean, post. repeat split; assumption.
  - destruct Hinv as [->|[o [Hi [->|[pre [body [clean [post [Hs ->]]]]]]]]]; [left; reflexivity | left; reflexivity |].
    right. exists o, pre, body, clean, post. repeat split; assumption.
Qed.

(* clause 2: no origin ever completes a 200 => the call fails *)
Lemma all_fail_error os : any_complete os = false -> fst (download os) <> Ok.
Proof.
  intros Hn. rewrite download_unfold. destruct (poll true os []) as [[r d] cs] eqn:Hp. cbn [fst].
  intros Hr. apply (proj1 (map404_ok _)) in Hr. rewrite (poll_ok_complete _ _ _ _ _ _ Hp Hr) in Hn. discriminate.
Qed.

Lemma delivers_complete blob r : delivers blob r = true -> complete r = true.
Proof. destruct r as [|c b [|]]; cbn [delivers complete]; try discriminate. intros H. apply andb_prop in H. exact (proj1 H). Qed.

Lemma any_complete_false_honest blob os :
  honest blob os = true ->
  (forall o r, In o os -> In r (script o) -> delivers blob r = false) ->
  any_complete os = false.
Proof.
  intros Hh Hn. unfold any_complete. destruct (existsb _ os) eqn:E; [|reflexivity].
  apply existsb_exists in E. destruct E as [o [Ho E]]. apply existsb_exists in E. destruct E as [r [Hr Hc]].
  specialize (Hn o r Ho Hr). rewrite (honest_in blob os o r Hh Ho Hr Hc) in Hn. discriminate.
Qed.

(* clause 2 as worded: no origin delivers the whole blob => the call fails *)
Lemma none_delivers_error blob os :
  honest blob os = true ->
  (forall o r, In o os -> In r (script o) -> delivers blob r = false) ->
  fst (download os) <> Ok.
Proof. intros Hh Hn. apply all_fail_error. exact (any_complete_false_honest blob os Hh Hn). Qed.

(* failover works: failing origins do not prevent a later origin from delivering *)
Lemma failover_succeeds fails o rest pre blob post :
  forallb (fun f => silent_fail (script f) (budget f)) fails = true ->
  script o = pre ++ RResp 200 blob true :: post ->
  forallb is202 pre = true -> N.of_nat (length pre) <= budget o ->
  download (fails ++ o :: rest) = (Ok, blob).
Proof.
  intros Hf Hs Hp Hl. apply success_iff. exists fails, o, rest, pre, post. repeat split; assumption.
Qed.

(* ---------- the pinned code violates clause 1 ---------- *)
Definition witness_blob : list N := [1; 2; 3; 4].
Definition witness_env : list origin :=
  [mkorigin [RResp 200 [1; 2] false] 1000; mkorigin [RResp 200 [1; 2; 3; 4] true] 1000].

Lemma partial_then_full_refuted :
  exists blob os dst,
    honest blob os = true /\ download_prefix os = (Ok, dst) /\ dst <> blob /\ dst = [1; 2] ++ blob.
Proof.
  exists witness_blob, witness_env, [1; 2; 1; 2; 3; 4].
  split; [vm_compute; reflexivity|]. split; [vm_compute; reflexivity|]. split; [discriminate | reflexivity].
Qed.

(* ---------- the executable form ---------- *)
Lemma check_sound i : C35_check i (run i) = true.
Proof.
  destruct i as [e blob res os]. unfold C35_check. cbn [i_entry i_blob i_resolve i_origins].
  apply andb_true_intro. split.
  - destruct e; [|reflexivity].
    destruct (is_ok (o_res (run (mkin Cluster blob res os))) && honest blob os) eqn:E; [|reflexivity].
    apply andb_prop in E. destruct E as [Hok Hh]. cbn [implb].
    destruct res.
    + assert (Hd : download os = (Ok, o_dst (run (mkin Cluster blob true os)))).
      { unfold download. unfold run, run_with in *. cbn [i_entry i_resolve i_origins] in *.
        destruct (poll true os []) as [[r d] cs]. cbn [o_res o_dst] in *.
        destruct (map404 r); try discriminate. reflexivity. }
      apply bytes_eqb_eq. exact (success_exact blob os _ Hh Hd).
    + unfold run, run_with in Hok. cbn in Hok. discriminate.
  - destruct res; cbn [andb].
    + destruct (any_complete os) eqn:Ec; [reflexivity|]. cbn [negb implb].
      unfold run, run_with. cbn [i_entry i_resolve i_origins].
      destruct (poll (match e with Cluster => true | PollDirect => false end) os []) as [[r d] cs] eqn:Hp.
      cbn [o_res]. destruct e.
      * destruct (map404 r) eqn:Hm; try reflexivity. apply (proj1 (map404_ok _)) in Hm.
        rewrite (poll_ok_complete _ _ _ _ _ _ Hp Hm) in Ec. discriminate.
      * destruct r; try reflexivity. rewrite (poll_ok_complete _ _ _ _ _ _ Hp eq_refl) in Ec. discriminate.
    + cbn [negb implb]. unfold run, run_with. cbn. destruct e; reflexivity.
Qed.
