(* C39: willf/bitset binary form (handshake bitfields) *)
From Coq Require Import List NArith ZArith Bool Lia ZifyBool ZifyN ZifyNat.
From K.Model Require Import C39.
From K.Proof Require Import C39_hex.
Import ListNotations.
Local Open Scope N_scope.

Lemma firstn_app_exact : forall (A : Type) (a b : list A) n, length a = n -> firstn n (a ++ b) = a.
Proof. intros A a b n H. subst n. induction a as [|x a IH]; cbn [length firstn app]; [destruct b; reflexivity|congruence]. Qed.

Lemma skipn_app_exact : forall (A : Type) (a b : list A) n, length a = n -> skipn n (a ++ b) = b.
Proof. intros A a b n H. subst n. induction a as [|x a IH]; cbn [length skipn app]; [reflexivity|exact IH]. Qed.

Lemma firstn_plus : forall (A : Type) a b (l : list A), firstn (a + b) l = firstn a l ++ firstn b (skipn a l).
Proof.
  intros A a. induction a as [|a IH]; intros b l; [reflexivity|].
  destruct l as [|x l]; [cbn [Nat.add firstn skipn app]; destruct b; reflexivity|].
  cbn [Nat.add firstn skipn app]. rewrite IH. reflexivity.
Qed.

(* ---- big-endian words ---- *)

Lemma pow256_succ : forall k, 256 ^ N.of_nat (S k) = 256 * 256 ^ N.of_nat k.
Proof. intro k. rewrite Nat2N.inj_succ, N.pow_succ_r'. reflexivity. Qed.

Lemma pow256_pos : forall k, 1 <= 256 ^ N.of_nat k.
Proof. intro k. pose proof (N.pow_nonzero 256 (N.of_nat k)). lia. Qed.

Lemma be_enc_step : forall k w, be_enc (S k) w = (w / 256 ^ N.of_nat k) mod 256 :: be_enc k w.
Proof. reflexivity. Qed.

Lemma be_enc_length : forall k w, length (be_enc k w) = k.
Proof. induction k as [|k IH]; intro w; [reflexivity|]. rewrite be_enc_step. cbn [length]. rewrite IH. reflexivity. Qed.

Lemma be_enc_bytes : forall k w, Forall (fun x => x < 256) (be_enc k w).
Proof.
  induction k as [|k IH]; intro w; [constructor|]. rewrite be_enc_step. constructor; [|apply IH].
  apply N.mod_upper_bound. lia.
Qed.

Lemma be_dec_enc : forall k w acc, be_dec (be_enc k w) acc = acc * 256 ^ N.of_nat k + w mod 256 ^ N.of_nat k.
Proof.
  induction k as [|k IH]; intros w acc.
  - cbn [be_enc be_dec]. change (256 ^ N.of_nat 0) with 1. rewrite N.mod_1_r. lia.
  - rewrite be_enc_step. cbn [be_dec]. rewrite IH, pow256_succ.
    set (P := 256 ^ N.of_nat k). assert (P <> 0) by (pose proof (pow256_pos k); lia).
    rewrite (N.mul_comm 256 P). rewrite (N.mod_mul_r w P 256) by lia. lia.
Qed.

(* a 64-bit word is written and read back exactly *)
Theorem be64_roundtrip : forall w, w < 2 ^ 64 -> be_dec (be_enc 8 w) 0 = w.
Proof.
  intros w H. rewrite be_dec_enc. change (256 ^ N.of_nat 8) with (2 ^ 64). rewrite N.mod_small by exact H. lia.
Qed.

Lemma be_dec_split : forall b acc, be_dec b acc = acc * 256 ^ N.of_nat (length b) + be_dec b 0.
Proof.
  induction b as [|x b IH]; intro acc.
  - cbn [be_dec length]. change (256 ^ N.of_nat 0) with 1. lia.
  - cbn [be_dec length]. rewrite (IH (acc * 256 + x)), (IH (0 * 256 + x)), pow256_succ. lia.
Qed.

Lemma be_dec_bound : forall b, Forall (fun x => x < 256) b -> be_dec b 0 < 256 ^ N.of_nat (length b).
Proof.
  induction b as [|x b IH]; intro H.
  - cbn. lia.
  - inversion H as [|? ? Hx Hb]; subst. cbn [be_dec length]. rewrite be_dec_split, pow256_succ.
    specialize (IH Hb). set (P := 256 ^ N.of_nat (length b)) in *. nia.
Qed.

Lemma be_enc_dec : forall b acc, Forall (fun x => x < 256) b -> be_enc (length b) (be_dec b acc) = b.
Proof.
  induction b as [|x b IH]; intros acc H; [reflexivity|].
  inversion H as [|? ? Hx Hb]; subst. cbn [length be_dec]. rewrite be_enc_step, IH by assumption.
  f_equal. rewrite be_dec_split. pose proof (be_dec_bound b Hb) as B.
  set (P := 256 ^ N.of_nat (length b)) in *. assert (P <> 0) by (pose proof (pow256_pos (length b)); lia).
  rewrite N.div_add_l by assumption. rewrite (N.div_small _ _ B), N.add_0_r.
  rewrite N.add_comm, N.mod_add by lia. apply N.mod_small. exact Hx.
Qed.

Lemma be_dec_word : forall b, Forall (fun x => x < 256) b -> (length b <= 8)%nat -> be_dec b 0 < 2 ^ 64.
Proof.
  intros b H L. pose proof (be_dec_bound b H) as B.
  assert (256 ^ N.of_nat (length b) <= 256 ^ N.of_nat 8) by (apply N.pow_le_mono_r; lia).
  change (256 ^ N.of_nat 8) with (2 ^ 64) in *. lia.
Qed.

(* ---- word arrays ---- *)

Lemma words_dec_length : forall n d, length (words_dec n d) = n.
Proof. induction n as [|n IH]; intro d; cbn [words_dec length]; [reflexivity|]. rewrite IH. reflexivity. Qed.

Lemma Forall_firstn : forall (A : Type) (P : A -> Prop) n (l : list A), Forall P l -> Forall P (firstn n l).
Proof.
  intros A P n. induction n as [|n IH]; intros l H; [constructor|].
  destruct l as [|x l]; [constructor|]. inversion H; subst. cbn [firstn]. constructor; auto.
Qed.

Lemma Forall_skipn : forall (A : Type) (P : A -> Prop) n (l : list A), Forall P l -> Forall P (skipn n l).
Proof.
  intros A P n. induction n as [|n IH]; intros l H; [exact H|].
  destruct l as [|x l]; [constructor|]. inversion H; subst. cbn [skipn]. auto.
Qed.

Lemma words_dec_words : forall n d, Forall (fun x => x < 256) d -> forallb is_word (words_dec n d) = true.
Proof.
  induction n as [|n IH]; intros d H; [reflexivity|].
  cbn [words_dec forallb]. rewrite IH by (apply Forall_skipn; assumption). rewrite andb_true_r.
  unfold is_word. apply N.ltb_lt. apply be_dec_word; [apply Forall_firstn; assumption|].
  rewrite firstn_length. lia.
Qed.

Lemma words_dec_flat : forall ws tail, forallb is_word ws = true ->
  words_dec (length ws) (flat_map (be_enc 8) ws ++ tail) = ws.
Proof.
  induction ws as [|w ws IH]; intros tail H; [reflexivity|].
  cbn [forallb] in H. apply andb_true_iff in H. destruct H as [Hw Hws].
  cbn [length flat_map words_dec]. rewrite <- app_assoc.
  rewrite firstn_app_exact by apply be_enc_length. rewrite skipn_app_exact by apply be_enc_length.
  rewrite be64_roundtrip by (unfold is_word in Hw; lia). rewrite IH by assumption. reflexivity.
Qed.

Lemma flat_be_length : forall ws, length (flat_map (be_enc 8) ws) = (8 * length ws)%nat.
Proof.
  induction ws as [|w ws IH]; [reflexivity|]. cbn [flat_map]. rewrite app_length, be_enc_length, IH. cbn [length]. lia.
Qed.

Lemma words_enc_dec : forall n d, Forall (fun x => x < 256) d -> (8 * n <= length d)%nat ->
  flat_map (be_enc 8) (words_dec n d) = firstn (8 * n) d.
Proof.
  induction n as [|n IH]; intros d H L; [reflexivity|].
  cbn [words_dec flat_map]. rewrite IH; [|apply Forall_skipn; assumption|rewrite skipn_length; lia].
  assert (L8 : length (firstn 8 d) = 8%nat) by (rewrite firstn_length; lia).
  rewrite <- L8 at 1. rewrite be_enc_dec by (apply Forall_firstn; assumption).
  replace (8 * S n)%nat with (8 + 8 * n)%nat by lia. rewrite firstn_plus. reflexivity.
Qed.

(* ---- MarshalBinary / UnmarshalBinary ---- *)

Lemma bs_wfb_spec : forall b, bs_wfb b = true <->
  (b_len b < 2 ^ 64 /\ N.of_nat (length (b_words b)) = words_needed (b_len b) /\ forallb is_word (b_words b) = true).
Proof.
  intro b. unfold bs_wfb. rewrite !andb_true_iff, N.ltb_lt, N.eqb_eq. tauto.
Qed.

(* every bit set (any length, any words, including unused high bits) is written and read back exactly *)
Theorem bitset_roundtrip : forall b, bs_wfb b = true -> bitset_parse (bitset_print b) = Ok b.
Proof.
  intros [len ws] H. apply bs_wfb_spec in H. cbn [b_len b_words] in H. destruct H as (Hl & Hn & Hw).
  unfold bitset_parse, bitset_print. cbn [b_len b_words].
  rewrite app_length, be_enc_length, flat_be_length.
  replace (N.of_nat (8 + 8 * length ws) <? 8) with false by lia.
  rewrite firstn_app_exact by apply be_enc_length. rewrite skipn_app_exact by apply be_enc_length.
  rewrite be64_roundtrip by assumption. rewrite flat_be_length, <- Hn.
  replace (N.of_nat (8 * length ws) <? 8 * N.of_nat (length ws)) with false by lia.
  rewrite Nat2N.id. rewrite <- (app_nil_r (flat_map (be_enc 8) ws)). rewrite words_dec_flat by assumption.
  reflexivity.
Qed.

(* accepted <-> 8 bytes of length followed by at least wordsNeeded(length) words *)
Theorem bitset_accepts : forall d, (exists b, bitset_parse d = Ok b) <-> input_wfb CBits d = true.
Proof.
  intro d. unfold bitset_parse, input_wfb. rewrite skipn_length.
  destruct (N.of_nat (length d) <? 8) eqn:E8.
  - split; [intros [b H]; discriminate|]. intro H. lia.
  - destruct (N.of_nat (length d - 8) <? 8 * words_needed (be_dec (firstn 8 d) 0)) eqn:E.
    + split; [intros [b H]; discriminate|]. intro H. lia.
    + split; [intros _; lia|eauto].
Qed.

(* what is accepted is a well-formed bit set whose print is the consumed prefix of the input *)
Theorem bitset_parse_sound : forall d b, forallb is_byte d = true -> bitset_parse d = Ok b ->
  bs_wfb b = true /\ bitset_print b = firstn (8 + 8 * N.to_nat (words_needed (b_len b))) d.
Proof.
  intros d b Hd H. apply forallb_is_byte in Hd. unfold bitset_parse in H.
  destruct (N.of_nat (length d) <? 8) eqn:E8; [discriminate|].
  rewrite skipn_length in H.
  set (len := be_dec (firstn 8 d) 0) in *. set (nw := words_needed len) in *.
  destruct (N.of_nat (length d - 8) <? 8 * nw) eqn:E; [discriminate|].
  assert (Hb : b = mkbs len (words_dec (N.to_nat nw) (skipn 8 d))) by congruence. subst b. clear H.
  assert (L8 : length (firstn 8 d) = 8%nat) by (rewrite firstn_length; lia).
  assert (Hlen : len < 2 ^ 64).
  { apply be_dec_word; [apply Forall_firstn; assumption|lia]. }
  split.
  - apply bs_wfb_spec. cbn [b_len b_words]. split; [exact Hlen|]. split.
    + rewrite words_dec_length. apply N2Nat.id.
    + apply words_dec_words. apply Forall_skipn. assumption.
  - unfold bitset_print. cbn [b_len b_words]. fold nw.
    rewrite words_enc_dec; [|apply Forall_skipn; assumption|rewrite skipn_length; lia].
    unfold len. rewrite <- L8 at 1. rewrite be_enc_dec by (apply Forall_firstn; assumption).
    rewrite firstn_plus. reflexivity.
Qed.

Theorem bitset_parse_print : forall d b, forallb is_byte d = true -> bitset_parse d = Ok b ->
  bitset_parse (bitset_print b) = Ok b.
Proof. intros d b Hd H. apply bitset_roundtrip. apply (bitset_parse_sound _ _ Hd H). Qed.

(* bytes after the last word are ignored *)
Theorem bitset_parse_trailing : forall b tail, bs_wfb b = true -> bitset_parse (bitset_print b ++ tail) = Ok b.
Proof.
  intros [len ws] tail H. apply bs_wfb_spec in H. cbn [b_len b_words] in H. destruct H as (Hl & Hn & Hw).
  unfold bitset_parse, bitset_print. cbn [b_len b_words].
  rewrite !app_length, be_enc_length, flat_be_length.
  replace (N.of_nat (8 + 8 * length ws + length tail) <? 8) with false by lia.
  rewrite <- app_assoc.
  rewrite firstn_app_exact by apply be_enc_length. rewrite skipn_app_exact by apply be_enc_length.
  rewrite be64_roundtrip by assumption. rewrite app_length, flat_be_length, <- Hn.
  replace (N.of_nat (8 * length ws + length tail) <? 8 * N.of_nat (length ws)) with false by lia.
  rewrite Nat2N.id. rewrite words_dec_flat by assumption. reflexivity.
Qed.

(* the printed form determines the bit set (used for handshake maps) *)
Lemma bitset_print_bytes : forall b, Forall (fun x => x < 256) (bitset_print b).
Proof.
  intro b. unfold bitset_print. apply Forall_app. split; [apply be_enc_bytes|].
  induction (b_words b) as [|w ws IH]; [constructor|]. cbn [flat_map]. apply Forall_app. split; [apply be_enc_bytes|exact IH].
Qed.
