(* C07 — corollaries of the shared refinement (Proof/LruStore.v) for the disk store. *)
From Coq Require Import List NArith ZArith Bool Lia Sorting.Sorted.
From K.Model Require Import C07.
From K.Proof Require Import LruStore.
Import ListNotations.
Local Open Scope N_scope.


Lemma reach_inv cap ops : cap < two64 -> Inv (reach_c cap ops) (reach_s cap ops).
Proof. intros H. apply (run_refines Disk ops _ _ (inv_init cap H)). Qed.

Lemma reach_cap cap ops : k_cap (s_core (reach_s cap ops)) = cap.
Proof. unfold reach_s. now rewrite srun_cap. Qed.

(* ---- the refinement: same results, same snapshots, and the abstraction function commutes *)
Theorem refines_spec cap ops : cap < two64 ->
  C07_impl cap ops = C07_spec cap ops /\ c_core (reach_c cap ops) = s_core (reach_s cap ops).
Proof.
  intros H. split.
  - apply (run_refines Disk ops _ _ (inv_init cap H)).
  - apply (inv_core _ _ (reach_inv cap ops H)).
Qed.

Theorem step_commutes cap ops o : cap < two64 ->
  snd (cstep Disk true (reach_c cap ops) o) = snd (sstep Disk (reach_s cap ops) o) /\
  c_core (fst (cstep Disk true (reach_c cap ops) o)) = s_core (fst (sstep Disk (reach_s cap ops) o)).
Proof.
  intros H. destruct (step_refines Disk _ _ o (reach_inv cap ops H)) as [Ho HI]. split; auto. apply (inv_core _ _ HI).
Qed.

(* ---- reserved space is the sum of the live blob sizes; admission never exceeds capacity *)
Theorem size_is_sum cap ops : cap < two64 ->
  c_size (reach_c cap ops) = sum_sizes (k_blobs (c_core (reach_c cap ops))).
Proof. intros H. pose proof (reach_inv cap ops H) as HI. rewrite (inv_size _ _ HI), (inv_core _ _ HI). reflexivity. Qed.

Theorem admission_le_capacity cap ops : cap < two64 ->
  sum_sizes (k_blobs (c_core (reach_c cap ops))) <= cap /\ c_size (reach_c cap ops) <= cap.
Proof.
  intros H. pose proof (reach_inv cap ops H) as HI. pose proof (inv_cap _ _ HI) as Hc.
  rewrite reach_cap in Hc. rewrite (inv_size _ _ HI), (inv_core _ _ HI). split; exact Hc.
Qed.

(* the code before the fix: `size+space` in uint64 wraps *)
Theorem wrap_refuted : exists cap ops, cap < two64 /\
  let c := fst (crun Disk false (cinit cap) ops) in
  cap < sum_sizes (k_blobs (c_core c)) /\ c_size c <> sum_sizes (k_blobs (c_core c)).
Proof.
  exists 100, [CreateW 0 10 [97; 98]; CreateW 1 18446744073709551611 []].
  split; [reflexivity|]. vm_compute. split; [reflexivity|discriminate].
Qed.

(* ---- only complete blobs not banned from eviction are evicted, least recently used first *)
Theorem evicts_only_complete_unbanned_lru cap ops k sz data : cap < two64 ->
  let c := reach_c cap ops in let s := reach_s cap ops in
  let c' := fst (cstep Disk true c (CreateW k sz data)) in
  forall k' b, assoc k' (k_blobs (c_core c)) = Some b -> assoc k' (k_blobs (c_core c')) = None ->
    b_complete b = true /\ b_banned b = false /\
    forall k'' b'', assoc k'' (k_blobs (c_core c')) = Some b'' -> b_complete b'' = true -> b_banned b'' = false ->
      last_of s k' < last_of s k''.
Proof.
  intros H c s c' k' b Hb Hgone. pose proof (reach_inv cap ops H) as HI. fold c s in HI.
  destruct (step_refines Disk c s (CreateW k sz data) HI) as [_ HI1]. fold c' in HI1.
  pose proof (inv_core _ _ HI1) as E1. pose proof (inv_core _ _ HI) as E0.
  rewrite E0 in Hb. rewrite E1 in Hgone |- *.
  exact (create_victims Disk c s k sz (Some data) HI k' b Hb Hgone).
Qed.

(* the spec's order really is "least recently used first" *)
Theorem evict_order_is_lru cap ops : cap < two64 ->
  let s := reach_s cap ops in
  c_queue (reach_c cap ops) = evict_order s /\
  StronglySorted (fun a b => last_of s a < last_of s b) (evict_order s) /\
  forall k, In k (evict_order s) <-> evictableb (s_core s) k = true.
Proof.
  intros H s. pose proof (reach_inv cap ops H) as HI. fold s in HI.
  pose proof (inv_queue _ _ HI) as HQ. rewrite (inv_queue_eq _ _ HI) in HQ.
  split; [apply (inv_queue_eq _ _ HI)|]. split; [apply (q_sorted _ _ HQ)|apply (q_mem _ _ HQ)].
Qed.

(* ---- executable form used on observed traces *)
Theorem check_sound cap ops : cap < two64 -> C07_check cap ops (C07_impl cap ops) = true.
Proof. intros H. now apply lru_check_sound. Qed.

Theorem scope_list fx c sc :
  snd (cstep Disk fx c (ListK sc)) = OKeys (scoped_keys (c_core c) sc) /\
  forall k, In k (scoped_keys (c_core c) sc) <->
            exists b, In (k, b) (k_blobs (c_core c)) /\ out_of_scope b sc = false.
Proof. split; [reflexivity|]. intros k. apply scope_list_in. Qed.

(* ---- Clean removes blobs in the documented order *)
Theorem clean_order cap ops pct respect order : cap < two64 ->
  ((pct <? 0) || (100 <=? pct))%Z = false ->
  let c := reach_c cap ops in
  snd (cstep Disk true c (Clean pct respect order)) <> OBadOracle ->
  let c' := fst (cstep Disk true c (Clean pct respect order)) in
  forall k b, assoc k (k_blobs (c_core c)) = Some b -> assoc k (k_blobs (c_core c')) = None ->
    b_complete b && negb (b_banned b) = true \/
    ((forall k2, evictableb (c_core c') k2 = false) /\
     (b_banned b = false \/
      (respect = false /\ forall k2 b2, assoc k2 (k_blobs (c_core c')) = Some b2 -> b_banned b2 = true))).
Proof.
  intros H Hpct c Hout c' k b Hb Hgone. pose proof (reach_inv cap ops H) as HI. fold c in HI.
  destruct (step_refines Disk c (reach_s cap ops) (Clean pct respect order) HI) as [Ho HI1]. fold c' in HI1.
  pose proof (inv_core _ _ HI1) as E1. pose proof (inv_core _ _ HI) as E0.
  rewrite E0 in Hb. rewrite E1 in Hgone |- *. rewrite Ho in Hout.
  exact (clean_order_spec c (reach_s cap ops) pct respect order HI Hpct Hout k b Hb Hgone).
Qed.
