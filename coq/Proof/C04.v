(* C04: top-level statements *)
From Coq Require Import List NArith Bool Arith Lia.
From K.Model Require Import C04.
From K.Proof Require Import C04_base C04_inv C04_ops.
Import ListNotations.

(* a disk all of whose crash points satisfy the invariant never holds a wrong cache file *)
Lemma crash_safe_partial : forall c tr k d,
  wf_cfg c = true -> all_DI c fs0 tr = true ->
  d_data (ca (crash_at fs0 tr k)) = Some d -> d = c_blob c.
Proof.
  intros c tr k d Hwf A E. apply (cache_is_blob c (crash_at fs0 tr k)); [|exact E].
  apply all_DI_prefix. exact A.
Qed.

(* ... and what NewTorrent would commit after a crash at any of them is the blob *)
Lemma commit_after_crash_partial : forall c tr k d b,
  wf_cfg c = true -> all_DI c fs0 tr = true ->
  let s := crash_at fs0 tr k in
  d_data (dl s) = Some d -> d_status (dl s) = Some b -> length b = npieces c ->
  count_true (deser_status b) = length (deser_status b) -> d = c_blob c.
Proof.
  intros c tr k d b Hwf A s Ed Eb L Ct. apply (commit_only_blob c Hwf s d b); auto.
  apply all_DI_prefix. exact A.
Qed.

(* ---- witnesses ---- *)
Definition wc : cfg := mkcfg [97; 98; 99; 100; 101; 102; 103]%N 3 0 [123; 125]%N [1]%N true true.

(* pinned code, crash between the creation and the first write of `_status` (call 10 of CreateTorrent):
   the restarted agent reports the torrent complete and the cache file is seven zero bytes *)
Lemma empty_status_refuted : exists c ops k, wf_cfg c = true /\
  let o := recover (unfixed c) (crash_at fs0 (download_trace (unfixed c) ops) k) in
  o_out o = OOk /\ o_complete o = true /\ o_cache o <> Some (c_blob c).
Proof.
  exists wc, [OCreate [] []], 10. split; [reflexivity|]. vm_compute. repeat split; discriminate.
Qed.

(* pinned code, crash between the creation and the write of `_torrentmeta` (call 8): CreateTorrent
   fails, and fails again on the disk the failed attempt leaves *)
Lemma empty_metainfo_refuted : exists c ops k, wf_cfg c = true /\
  let s := crash_at fs0 (download_trace (unfixed c) ops) k in
  o_out (recover (unfixed c) s) = OErr /\ o_out (recover (unfixed c) (recovered_fs (unfixed c) s)) = OErr.
Proof.
  exists wc, [OCreate [] []], 8. split; [reflexivity|]. vm_compute. split; reflexivity.
Qed.

(* fixed code at the same two crash points *)
Lemma fixed_at_witnesses :
  let tr := download_trace wc [OCreate [] []] in
  (let o := recover wc (crash_at fs0 tr 10) in o_out o = OOk /\ o_complete o = false /\ o_cache o = None) /\
  (let o := recover wc (crash_at fs0 tr 8) in o_out o = OOk /\ o_complete o = false /\ o_cache o = None).
Proof. vm_compute. repeat split; reflexivity. Qed.
