From Coq Require Import List NArith Bool Arith Lia.
From K.Model Require Import C04.
Import ListNotations.

Lemma placeholder : apply_calls fs0 [] = fs0.
Proof. reflexivity. Qed.
