(* C08 — corollaries of the shared refinement for the memory store, and the stale-handle theorems. *)
From Coq Require Import List NArith ZArith Bool Lia Sorting.Sorted.
From K.Model Require Import C08.
From K.Proof Require Import LruStore LruStore_cells.
Import ListNotations.
Local Open Scope N_scope.

Lemma mreach_inv cap ops : cap < two64 -> Inv (mreach_c cap ops) (mreach_s cap ops).
Proof. intros H. apply (run_refines Memory ops _ _ (inv_init cap H)). Qed.

Lemma mreach_cap cap ops : k_cap (s_core (mreach_s cap ops)) = cap.
Proof. unfold mreach_s. now rewrite srun_cap. Qed.

(* ---- same model as the disk store (apart from persistence): the refinement *)
Theorem refines_spec cap ops : cap < two64 ->
  C08_impl cap ops = C08_spec cap ops /\ c_core (mreach_c cap ops) = s_core (mreach_s cap ops).
Proof.
  intros H. split.
  - apply (run_refines Memory ops _ _ (inv_init cap H)).
  - apply (inv_core _ _ (mreach_inv cap ops H)).
Qed.

Theorem size_sum_capacity cap ops : cap < two64 ->
  c_size (mreach_c cap ops) = sum_sizes (k_blobs (c_core (mreach_c cap ops))) /\
  c_size (mreach_c cap ops) <= cap.
Proof.
  intros H. pose proof (mreach_inv cap ops H) as HI. pose proof (inv_cap _ _ HI) as Hc.
  rewrite mreach_cap in Hc. rewrite (inv_size _ _ HI), (inv_core _ _ HI). split; [reflexivity|exact Hc].
Qed.

Theorem evicts_only_complete_unbanned_lru cap ops k sz data : cap < two64 ->
  let c := mreach_c cap ops in let s := mreach_s cap ops in
  let c' := fst (c_create Memory true c k sz data) in
  forall k' b, assoc k' (k_blobs (c_core c)) = Some b -> assoc k' (k_blobs (c_core c')) = None ->
    b_complete b = true /\ b_banned b = false /\
    forall k'' b'', assoc k'' (k_blobs (c_core c')) = Some b'' -> b_complete b'' = true -> b_banned b'' = false ->
      last_of s k' < last_of s k''.
Proof.
  intros H c s c' k' b Hb Hgone. pose proof (mreach_inv cap ops H) as HI. fold c s in HI.
  destruct (inv_canon _ _ HI) as [Ec Es].
  assert (HI1 : Inv c' (fst (s_create Memory s k sz data))).
  { subst c'. rewrite Ec, Es. apply create_refines. rewrite <- Ec, <- Es. exact HI. }
  pose proof (inv_core _ _ HI1) as E1. pose proof (inv_core _ _ HI) as E0.
  rewrite E0 in Hb. rewrite E1 in Hgone |- *.
  exact (create_victims Memory c s k sz data HI k' b Hb Hgone).
Qed.

(* the pre-fix admission test wraps, and on the real code make([]byte, 0, size) then panics *)
Theorem wrap_refuted : exists cap ops, cap < two64 /\
  let c := fst (crun Memory false (cinit cap) ops) in
  cap < sum_sizes (k_blobs (c_core c)) /\ c_size c <> sum_sizes (k_blobs (c_core c)).
Proof.
  exists 100, [CreateW 0 10 [97; 98]; CreateW 1 18446744073709551611 []].
  split; [reflexivity|]. vm_compute. split; [reflexivity|discriminate].
Qed.

(* ================================================================ handles *)
Lemma mreach_cells cap ops : CellInv (c_core (mreach_c cap ops)).
Proof. apply crun_CellInv. Qed.

(* a successful Create / Open hands out the next handle id, bound to the cell of the blob under k *)
Lemma open_gives_handle fx c o k h :
  CellInv (c_core c) -> key_of_open o = Some k -> snd (cstep Memory fx c o) = OHandle h ->
  let kc' := c_core (fst (cstep Memory fx c o)) in
  exists cl b, assoc h (k_handles kc') = Some (cl, 0) /\ assoc k (k_blobs kc') = Some b /\ b_cell b = cl /\
               k_nexth (c_core c) <= h /\ k_nexth kc' = N.succ h.
Proof.
  intros HI Hk Ho. destruct o; cbn in Hk; try discriminate Hk; inversion Hk; subst; clear Hk.
  - (* Create *)
    unfold cstep in *. cbn [plain_step] in *. unfold c_create in *. cbn [negb create_supported] in *.
    destruct (assoc k (k_blobs (c_core c))) eqn:Ek; [discriminate Ho|].
    pose proof (c_evict_GT fx size (c_queue c) (c_core c) (c_size c) HI) as HG.
    pose proof (c_evict_sub fx size (c_queue c) (c_core c) (c_size c)) as Hs.
    destruct (c_evict fx (c_queue c) (c_core c) (c_size c) size) as [[[kc1 size1] q1] ok]. cbn [fst snd] in *.
    destruct ok; [|discriminate Ho]. cbn [fst snd c_core] in *.
    assert (Ek1 : assoc k (k_blobs kc1) = None).
    { destruct (assoc k (k_blobs kc1)) eqn:E; auto. apply Hs in E. congruence. }
    pose proof (gt_inv _ _ HG) as HI1.
    inversion Ho; subst h. exists (k_next kc1), (mkblob size false false [] (k_next kc1)).
    cbn [fst add_handle k_handles k_blobs]. rewrite add_blob_handles, add_blob_nexth, assoc_app.
    rewrite (ci_hfresh _ HI1) by lia. cbn. rewrite N.eqb_refl. split; auto.
    change (k_blobs (add_blob k size [] kc1)) with (k_blobs kc1 ++ [(k, mkblob size false false [] (k_next kc1))]).
    rewrite assoc_app, Ek1. cbn. rewrite N.eqb_refl. pose proof (gt_nexth _ _ HG). auto.
  - (* Open *)
    unfold cstep in *. cbn [plain_step] in *.
    destruct (lookup (c_core c) k sc) as [b|e] eqn:L; [|discriminate Ho]. cbn [fst snd c_core] in *.
    apply lookup_inl in L. destruct L as [Hb _]. inversion Ho; subst h.
    exists (b_cell b), b. cbn [fst add_handle k_handles k_blobs]. rewrite assoc_app.
    rewrite (ci_hfresh _ HI) by lia. cbn. rewrite N.eqb_refl. repeat split; auto. lia.
Qed.

(* an operation on a handle whose cell has been nil-ed: the stale results, and nothing changes *)
Lemma stale_result fx c hop h cl off :
  handle_of_op hop = Some h -> assoc h (k_handles (c_core c)) = Some (cl, off) -> cell_of (c_core c) cl = None ->
  stale_ok hop (snd (cstep Memory fx c hop)) = true /\ c_core (fst (cstep Memory fx c hop)) = c_core c.
Proof.
  intros Hh Ha Hn. destruct hop; cbn in Hh; try discriminate Hh; inversion Hh; subst; clear Hh;
    unfold cstep; cbn [plain_step]; unfold handle_of; rewrite Ha; cbn [fst snd c_core stale_ok].
  - destruct (n =? 0); [split; reflexivity|]. rewrite Hn. split; reflexivity.
  - destruct (n =? 0); [split; reflexivity|]. destruct (off0 <? 0)%Z; [split; reflexivity|]. rewrite Hn. split; reflexivity.
  - rewrite Hn. split; reflexivity.
  - rewrite Hn. split; reflexivity.
  - destruct (off0 <? 0)%Z; [split; reflexivity|]. rewrite Hn. split; reflexivity.
  - rewrite Hn. split; reflexivity.
  - split; reflexivity.
  - split; reflexivity.
Qed.

(* ---- the stale-handle theorem over histories: handle h was handed out for key k; at some later
   point k is not in the store; from then on (whatever happens next, including a re-creation of k)
   every operation on h returns the stale result *)
Theorem stale_handle_evicted cap ops1 o k h ops2 ops3 hop :
  key_of_open o = Some k ->
  snd (cstep Memory true (mreach_c cap ops1) o) = OHandle h ->
  assoc k (k_blobs (c_core (mreach_c cap (ops1 ++ [o] ++ ops2)))) = None ->
  handle_of_op hop = Some h ->
  stale_ok hop (snd (cstep Memory true (mreach_c cap (ops1 ++ [o] ++ ops2 ++ ops3)) hop)) = true.
Proof.
  intros Hk Ho Hgone Hh.
  pose proof (mreach_cells cap ops1) as HI0.
  destruct (open_gives_handle true _ o k h HI0 Hk Ho) as (cl & b & Hh1 & Hb1 & Hc1 & _ & _). cbn zeta in *.
  set (c1 := fst (cstep Memory true (mreach_c cap ops1) o)) in *.
  assert (E1 : mreach_c cap (ops1 ++ [o] ++ ops2) = fst (crun Memory true c1 ops2)).
  { unfold mreach_c. rewrite crun_app. cbn [fst]. rewrite crun_app. cbn [fst crun]. subst c1.
    fold (mreach_c cap ops1). now destruct (cstep Memory true (mreach_c cap ops1) o). }
  assert (E2 : mreach_c cap (ops1 ++ [o] ++ ops2 ++ ops3) = fst (crun Memory true (fst (crun Memory true c1 ops2)) ops3)).
  { rewrite <- E1. unfold mreach_c. replace (ops1 ++ [o] ++ ops2 ++ ops3) with ((ops1 ++ [o] ++ ops2) ++ ops3)
      by (now rewrite <- !app_assoc). now rewrite crun_app. }
  assert (HI1 : CellInv (c_core c1)) by (apply (gt_inv _ _ (cstep_GT Memory true _ o HI0))).
  pose proof (crun_GT Memory true ops2 c1 HI1) as G2.
  set (c2 := fst (crun Memory true c1 ops2)) in *.
  pose proof (crun_GT Memory true ops3 c2 (gt_inv _ _ G2)) as G3.
  set (c3 := fst (crun Memory true c2 ops3)) in *.
  rewrite E1 in Hgone. rewrite E2.
  (* the cell is nil in c2 *)
  assert (Hnil2 : cell_of (c_core c2) cl = None).
  { destruct (gt_fwd _ _ G2 _ _ Hb1) as [Hn|[b' [Hb' _]]]; [now rewrite <- Hc1|congruence]. }
  destruct (gt_h _ _ G2 _ _ _ Hh1) as [off2 Hh2].
  destruct (gt_h _ _ G3 _ _ _ Hh2) as [off3 Hh3].
  assert (Hnil3 : cell_of (c_core c3) cl = None).
  { apply (gt_nil _ _ G3); auto. eapply ci_hcell; [apply (gt_inv _ _ G2)|eauto]. }
  exact (proj1 (stale_result true c3 hop h cl off3 Hh Hh3 Hnil3)).
Qed.

(* for the operations that touch the data the stale result is the evicted error (Size: -1) *)
Lemma stale_ok_touches hop r : touches_data hop = true -> stale_ok hop r = true ->
  r = OErr EEvicted \/ (exists h, hop = HSize h /\ r = OSize (-1)).
Proof.
  intros Ht Hs. destruct hop; cbn in Ht; try discriminate Ht; cbn in Hs.
  - destruct (n =? 0); [discriminate Ht|]. left. destruct r; try discriminate Hs. now destruct e.
  - destruct (n =? 0); [discriminate Ht|]. destruct (off <? 0)%Z; [discriminate Ht|].
    left. destruct r; try discriminate Hs. now destruct e.
  - left. destruct r; try discriminate Hs. now destruct e.
  - right. exists h. split; auto. destruct r; cbn in Hs; try discriminate Hs; try (destruct e; discriminate Hs).
    apply Z.eqb_eq in Hs. now subst.
  - destruct (off <? 0)%Z; [discriminate Ht|]. left. destruct r; try discriminate Hs. now destruct e.
  - left. destruct r; try discriminate Hs. now destruct e.
Qed.

(* literal reading ("every operation fails with the evicted error") does not hold: file.go checks
   len(p) == 0 before looking at the data, so a zero-length Read on an evicted handle returns (0, nil) *)
Theorem stale_zero_length_read_refuted : exists cap ops h,
  snd (cstep Memory true (mreach_c cap ops) (HSize h)) = OSize (-1) /\
  snd (cstep Memory true (mreach_c cap ops) (HRead h 0)) = ORead [] false.
Proof. exists 100, [Create 0 60; MarkComplete 0; CreateW 1 60 []], 0. vm_compute. split; reflexivity. Qed.

(* ---- no foreign bytes: whatever a read through h returns comes from the cell h was opened on,
   that cell still belongs to the same incarnation of k, and to no other blob *)
Theorem no_foreign_bytes cap ops1 o k h ops2 n off bs eof :
  key_of_open o = Some k ->
  snd (cstep Memory true (mreach_c cap ops1) o) = OHandle h ->
  let c1 := fst (cstep Memory true (mreach_c cap ops1) o) in
  let c2 := mreach_c cap (ops1 ++ [o] ++ ops2) in
  (snd (cstep Memory true c2 (HRead h n)) = ORead bs eof \/ snd (cstep Memory true c2 (HReadAt h n off)) = ORead bs eof) ->
  bs <> [] ->
  exists cl b1 b2 buf cur,
    assoc k (k_blobs (c_core c1)) = Some b1 /\ b_cell b1 = cl /\               (* the incarnation it was opened on *)
    assoc h (k_handles (c_core c2)) = Some (cl, cur) /\                        (* the handle still points at its cell *)
    assoc k (k_blobs (c_core c2)) = Some b2 /\ b_cell b2 = cl /\               (* the same incarnation is still stored *)
    cell_of (c_core c2) cl = Some buf /\
    (bs = firstn (N.to_nat n) (skipn (N.to_nat cur) buf) \/ bs = firstn (N.to_nat n) (skipn (Z.to_nat off) buf)) /\
    (forall k' b', assoc k' (k_blobs (c_core c2)) = Some b' -> b_cell b' = cl -> k' = k).
Proof.
  intros Hk Ho c1 c2 Hr Hne.
  pose proof (mreach_cells cap ops1) as HI0.
  destruct (open_gives_handle true _ o k h HI0 Hk Ho) as (cl & b & Hh1 & Hb1 & Hc1 & _ & _). cbn zeta in *. fold c1 in Hh1, Hb1.
  assert (E1 : c2 = fst (crun Memory true c1 ops2)).
  { unfold c2, mreach_c. rewrite crun_app. cbn [fst]. rewrite crun_app. cbn [fst crun]. subst c1.
    fold (mreach_c cap ops1). now destruct (cstep Memory true (mreach_c cap ops1) o). }
  assert (HI1 : CellInv (c_core c1)) by (apply (gt_inv _ _ (cstep_GT Memory true _ o HI0))).
  pose proof (crun_GT Memory true ops2 c1 HI1) as G2. rewrite <- E1 in G2.
  destruct (gt_h _ _ G2 _ _ _ Hh1) as [cur Hh2].
  assert (Hlive : exists buf, cell_of (c_core c2) cl = Some buf /\
                  (bs = firstn (N.to_nat n) (skipn (N.to_nat cur) buf) \/ bs = firstn (N.to_nat n) (skipn (Z.to_nat off) buf))).
  { destruct Hr as [Hr|Hr]; unfold cstep in Hr; cbn [plain_step] in Hr; unfold handle_of in Hr; rewrite Hh2 in Hr; cbn [snd] in Hr.
    - destruct (n =? 0); [inversion Hr; subst; contradiction|].
      destruct (cell_of (c_core c2) cl) as [buf|]; [|discriminate Hr]. exists buf. split; auto.
      destruct (lenN buf <=? cur); [inversion Hr; subst; contradiction|]. cbn in Hr. inversion Hr. auto.
    - destruct (n =? 0); [inversion Hr; subst; contradiction|]. destruct (off <? 0)%Z; [discriminate Hr|].
      destruct (cell_of (c_core c2) cl) as [buf|]; [|discriminate Hr]. exists buf. split; auto.
      destruct (lenN buf <=? Z.to_N off); [inversion Hr; subst; contradiction|]. inversion Hr. auto. }
  destruct Hlive as (buf & Hbuf & Hseg).
  destruct (gt_fwd _ _ G2 _ _ Hb1) as [Hn|[b2 [Hb2 Hc2]]]; [rewrite Hc1 in Hn; congruence|].
  exists cl, b, b2, buf, cur. repeat split; auto; try congruence.
  intros k' b' Hb' Hcell. eapply (ci_inj _ (gt_inv _ _ G2)); eauto. congruence.
Qed.

(* ================================================================ soundness of the observed-trace scan *)
Definition J (tbl : list (N * (key * bool))) (kc : core) : Prop :=
  (forall h k dead, assoc h tbl = Some (k, dead) ->
     exists cl off, assoc h (k_handles kc) = Some (cl, off) /\
       (cell_of kc cl = None \/ (dead = false /\ exists b, assoc k (k_blobs kc) = Some b /\ b_cell b = cl))) /\
  (forall h, k_nexth kc <= h -> assoc h tbl = None).

Lemma assoc_map_snd {A B} (f : N -> A -> B) (l : list (N * A)) k :
  assoc k (map (fun e => (fst e, f (fst e) (snd e))) l) = option_map (f k) (assoc k l).
Proof.
  induction l as [|[k0 v] t IH]; cbn; auto. destruct (N.eqb_spec k0 k); subst; auto.
Qed.

Lemma in_rows_csnap c k : in_rows k (csnap c) = match assoc k (k_blobs (c_core c)) with Some _ => true | None => false end.
Proof. unfold in_rows, csnap. cbn [n_blobs]. rewrite assoc_rows. now destruct (assoc k (k_blobs (c_core c))). Qed.

Lemma scan_step_sound fx tbl c o :
  CellInv (c_core c) -> J tbl (c_core c) ->
  let c' := fst (cstep Memory fx c o) in
  fst (scan_step tbl o (snd (cstep Memory fx c o)) (csnap c')) = true /\
  J (snd (scan_step tbl o (snd (cstep Memory fx c o)) (csnap c'))) (c_core c').
Proof.
  intros HI [J1 J2] c'. pose proof (cstep_GT Memory fx c o HI) as G. fold c' in G.
  unfold scan_step. cbn [fst snd]. split.
  - destruct (handle_of_op o) as [h|] eqn:Eh; auto.
    destruct (assoc h tbl) as [[k dead]|] eqn:Et; auto. destruct dead; auto.
    destruct (J1 _ _ _ Et) as (cl & off & Ha & [Hn|[Hd _]]); [|discriminate Hd].
    exact (proj1 (stale_result fx c o h cl off Eh Ha Hn)).
  - set (tbl1 := match key_of_open o, snd (cstep Memory fx c o) with
                 | Some k, OHandle h => tbl ++ [(h, (k, false))] | _, _ => tbl end).
    (* J for tbl1 w.r.t. c' (before re-marking) *)
    assert (K1 : forall h k dead, assoc h tbl1 = Some (k, dead) ->
              exists cl off, assoc h (k_handles (c_core c')) = Some (cl, off) /\
                (cell_of (c_core c') cl = None \/ (dead = false /\ exists b, assoc k (k_blobs (c_core c')) = Some b /\ b_cell b = cl))).
    { assert (Kold : forall h k dead, assoc h tbl = Some (k, dead) ->
              exists cl off, assoc h (k_handles (c_core c')) = Some (cl, off) /\
                (cell_of (c_core c') cl = None \/ (dead = false /\ exists b, assoc k (k_blobs (c_core c')) = Some b /\ b_cell b = cl))).
      { intros h k dead Ht. destruct (J1 _ _ _ Ht) as (cl & off & Ha & Hd).
        destruct (gt_h _ _ G _ _ _ Ha) as [off' Ha']. exists cl, off'. split; auto.
        destruct Hd as [Hn|[Hd [b [Hb Hc]]]].
        - left. apply (gt_nil _ _ G); auto. eapply ci_hcell; eauto.
        - destruct (gt_fwd _ _ G _ _ Hb) as [Hn|[b' [Hb' Hc']]]; [left; congruence|].
          right. split; auto. exists b'. split; auto. congruence. }
      subst tbl1. destruct (key_of_open o) as [k0|] eqn:Ek; [|exact Kold].
      destruct (snd (cstep Memory fx c o)) eqn:Er; try exact Kold.
      destruct (open_gives_handle fx c o k0 h HI Ek Er) as (cl & b & Hh1 & Hb1 & Hc1 & Hge & _). fold c' in Hh1, Hb1.
      intros h' k dead Ht. rewrite assoc_app in Ht. destruct (assoc h' tbl) as [[k1 d1]|] eqn:E1.
      - inversion Ht; subst. eapply Kold; eauto.
      - cbn in Ht. destruct (N.eqb_spec h h'); [|discriminate Ht]. inversion Ht; subst.
        exists (b_cell b), 0. split; auto. right. split; auto. eauto. }
    assert (K2 : forall h, k_nexth (c_core c') <= h -> assoc h tbl1 = None).
    { intros h' Hle. pose proof (gt_nexth _ _ G) as Hn. subst tbl1.
      destruct (key_of_open o) as [k0|] eqn:Ek; [|apply J2; lia].
      destruct (snd (cstep Memory fx c o)) eqn:Er; try (apply J2; lia).
      destruct (open_gives_handle fx c o k0 h HI Ek Er) as (cl & b & _ & _ & _ & Hge & Hnx). fold c' in Hnx.
      rewrite assoc_app, J2 by lia. cbn. destruct (N.eqb_spec h h'); [lia|auto]. }
    split.
    + intros h k dead Ht.
      rewrite (assoc_map_snd (fun _ kd => (fst kd, snd kd || negb (in_rows (fst kd) (csnap c'))))) in Ht.
      destruct (assoc h tbl1) as [[k1 d1]|] eqn:E1; [|discriminate Ht]. cbn in Ht. inversion Ht; subst. clear Ht.
      destruct (K1 _ _ _ E1) as (cl & off & Ha & Hd). exists cl, off. split; auto.
      destruct Hd as [Hn|[Hd [b [Hb Hc]]]]; [now left|]. right. subst d1. cbn [orb].
      rewrite in_rows_csnap, Hb. cbn. split; auto. eauto.
    + intros h Hle. rewrite (assoc_map_snd (fun _ kd => (fst kd, snd kd || negb (in_rows (fst kd) (csnap c'))))).
      now rewrite K2.
Qed.

Lemma stale_scan_sound fx : forall ops tbl c,
  CellInv (c_core c) -> J tbl (c_core c) -> stale_scan tbl ops (snd (crun Memory fx c ops)) = true.
Proof.
  induction ops as [|o t IH]; intros tbl c HI HJ; cbn [crun stale_scan]; auto.
  pose proof (scan_step_sound fx tbl c o HI HJ) as [Hv HJ']. cbn zeta in *.
  pose proof (cstep_GT Memory fx c o HI) as G.
  destruct (cstep Memory fx c o) as [c1 r]. cbn [fst snd] in *.
  specialize (IH (snd (scan_step tbl o r (csnap c1))) c1 (gt_inv _ _ G) HJ').
  destruct (crun Memory fx c1 t) as [c2 rs]. cbn [snd stale_scan] in *.
  destruct (scan_step tbl o r (csnap c1)) as [v tbl']. cbn [fst snd] in *. now rewrite Hv, IH.
Qed.

Theorem check_sound cap ops : cap < two64 -> C08_check cap ops (C08_impl cap ops) = true.
Proof.
  intros H. unfold C08_check, C08_impl. rewrite lru_check_sound by auto. cbn [andb].
  apply stale_scan_sound; [apply ci_init|]. split; [intros h k dead Ht; discriminate Ht|reflexivity].
Qed.

Theorem stale_data_ops_evicted cap ops1 o k h ops2 ops3 hop :
  key_of_open o = Some k ->
  snd (cstep Memory true (mreach_c cap ops1) o) = OHandle h ->
  assoc k (k_blobs (c_core (mreach_c cap (ops1 ++ [o] ++ ops2)))) = None ->
  handle_of_op hop = Some h -> touches_data hop = true ->
  let r := snd (cstep Memory true (mreach_c cap (ops1 ++ [o] ++ ops2 ++ ops3)) hop) in
  r = OErr EEvicted \/ (exists h', hop = HSize h' /\ r = OSize (-1)).
Proof.
  intros Hk Ho Hg Hh Ht r. apply stale_ok_touches; auto. subst r. eapply stale_handle_evicted; eauto.
Qed.

(* cells are never shared and never reused *)
Theorem cells_distinct_fresh cap ops :
  let kc := c_core (mreach_c cap ops) in
  (forall k1 k2 b1 b2, assoc k1 (k_blobs kc) = Some b1 -> assoc k2 (k_blobs kc) = Some b2 -> b_cell b1 = b_cell b2 -> k1 = k2) /\
  (forall k b, assoc k (k_blobs kc) = Some b -> b_cell b < k_next kc /\ exists d, cell_of kc (b_cell b) = Some d) /\
  (forall h c off, assoc h (k_handles kc) = Some (c, off) -> c < k_next kc) /\
  (forall o, k_next kc <= k_next (c_core (fst (cstep Memory true (mreach_c cap ops) o)))).
Proof.
  intros kc. pose proof (mreach_cells cap ops) as HI. fold kc in HI. repeat split.
  - apply (ci_inj _ HI).
  - eapply ci_fresh; eauto.
  - eapply ci_live; eauto.
  - apply (ci_hcell _ HI).
  - intros o. apply (gt_next _ _ (cstep_GT Memory true _ o HI)).
Qed.
