(* C06 — the disk invariant DI of states reached by completed operations, the shape of each
   operation's call list, and preservation of DI by every operation. *)
From Coq Require Import List NArith Bool Lia.
From K.Model Require Import C06.
From K.Proof Require Import C06_base.
Import ListNotations.
Local Open Scope N_scope.

(* ---------------------------------------------------------------- the invariant *)
Definition dir_ok (c : cfg) (e : ment) (d : bdir) : Prop :=
  exists b, d_data d = Some b /\ N.of_nat (length b) <= e_size e /\ d_ban d = e_banned e /\
            (e_complete e = false -> c_ri c = true ->
             exists sb, d_sizef d = Some sb /\ undec sb = Some (e_size e)).
(* memory and disk agree on every key; nothing is left over for keys the store does not know *)
Definition di_key (c : cfg) (o : option ment) (v : kview) : Prop :=
  match o with
  | None => v = (None, None)
  | Some e => exists d, v = vset (area_of e) (Some d) (None, None) /\ dir_ok c e d
  end.
Record DI (c : cfg) (s : state) : Prop := mkDI {
  di_keys : forall x, di_key c (mem s x) (blobs (disk s) x);
  di_dom : dom_ok (disk s);
  di_nodup : NoDup (dom (disk s));
  di_sum : msize s = sum_sizes (mem s) (dom (disk s));
  di_cap : msize s <= c_cap c }.

Lemma DI_init : forall c, DI c init.
Proof.
  intros c. constructor; cbn.
  - intros x. reflexivity.
  - intros x H. now elim H.
  - constructor.
  - reflexivity.
  - lia.
Qed.

Lemma di_support : forall c s x, DI c s -> mem s x <> None -> In x (dom (disk s)).
Proof.
  intros c s x D H. apply (di_dom c s D). pose proof (di_keys c s D x) as K.
  destruct (mem s x) as [e|]; [|congruence]. destruct K as [d [-> _]].
  destruct (area_of e); cbn; discriminate.
Qed.

Lemma di_vget : forall c e v, di_key c (Some e) v -> exists d, vget (area_of e) v = Some d /\ dir_ok c e d /\
  v = vset (area_of e) (Some d) (None, None).
Proof. intros c e v [d [-> H]]. exists d. destruct (area_of e); cbn; auto. Qed.

(* ---------------------------------------------------------------- call lists that act on one key *)
Definition ckeys (x : N) (cs : list call) : Prop :=
  Forall (fun cl => call_key cl = None \/ call_key cl = Some x) cs.
Definition konly (x : N) (cs : list call) : Prop := Forall (fun cl => call_key cl = Some x) cs.
Definition shards (cs : list call) : Prop := Forall (fun cl => call_key cl = None) cs.

Lemma konly_ckeys : forall x cs, konly x cs -> ckeys x cs.
Proof. intros x cs H. eapply Forall_impl; [|exact H]. cbn. auto. Qed.
Lemma shards_ckeys : forall x cs, shards cs -> ckeys x cs.
Proof. intros x cs H. eapply Forall_impl; [|exact H]. cbn. auto. Qed.
Lemma ckeys_app : forall x a b, ckeys x a -> ckeys x b -> ckeys x (a ++ b).
Proof. intros. apply Forall_app. auto. Qed.
Lemma shards_mkdirall : forall a p sd, shards (mkdirall a p sd).
Proof. intros. unfold mkdirall, shards. apply Forall_forall. intros cl H. apply in_map_iff in H. destruct H as [q [<- _]]. reflexivity. Qed.
Lemma konly_rm_calls : forall a x ord o, konly x (rm_calls a x ord o).
Proof.
  intros. unfold rm_calls, konly. destruct o; [|constructor]. apply Forall_app. split.
  - apply Forall_forall. intros cl H. apply in_map_iff in H. destruct H as [q [<- _]]. reflexivity.
  - repeat constructor.
Qed.
Lemma konly_wr : forall a x f off data, konly x (wr a x f off data).
Proof. intros. unfold wr. destruct data; repeat constructor. Qed.
Lemma konly_app : forall x a b, konly x a -> konly x b -> konly x (a ++ b).
Proof. intros. apply Forall_app. auto. Qed.

Lemma filter_shards : forall y cs, shards cs -> filter (touches y) cs = [].
Proof.
  intros y cs H. induction H as [|cl t Hc _ IH]; cbn; [reflexivity|].
  unfold touches at 1. rewrite Hc. exact IH.
Qed.
Lemma filter_konly : forall x cs, konly x cs -> filter (touches x) cs = cs.
Proof.
  intros x cs H. induction H as [|cl t Hc _ IH]; cbn; [reflexivity|].
  unfold touches at 1. rewrite Hc, N.eqb_refl, IH. reflexivity.
Qed.
Lemma filter_ckeys_other : forall x y cs, ckeys x cs -> y <> x -> filter (touches y) cs = [].
Proof.
  intros x y cs H Hy. induction H as [|cl t Hc _ IH]; cbn; [reflexivity|].
  unfold touches at 1. destruct Hc as [-> | ->]; [exact IH|].
  destruct (N.eqb_spec x y); [congruence|exact IH].
Qed.
Lemma ckeys_prefix : forall x p cs, prefix p cs -> ckeys x cs -> ckeys x p.
Proof. intros x p cs [q ->] H. apply Forall_app in H. tauto. Qed.

Lemma blobs_exec_other : forall x y cs f, ckeys x cs -> y <> x -> blobs (exec cs f) y = blobs f y.
Proof. intros. rewrite blobs_exec, (filter_ckeys_other x); auto. Qed.
Lemma blobs_exec_target : forall x sh body f, shards sh -> konly x body ->
  blobs (exec (sh ++ body) f) x = kexec body (blobs f x).
Proof. intros. rewrite blobs_exec, filter_app, filter_shards, filter_konly; auto. Qed.

(* every prefix of  shards ++ body  acts on the target key like a prefix of body *)
Lemma prefix_view : forall x sh body f p, shards sh -> konly x body -> prefix p (sh ++ body) ->
  exists pk, prefix pk body /\ blobs (exec p f) x = kexec pk (blobs f x).
Proof.
  intros x sh body f p Hs Hb Hp. apply prefix_app_cases in Hp. destruct Hp as [Hp|[p' [-> Hp]]].
  - exists []. split; [now exists body|]. rewrite blobs_exec, filter_shards; [reflexivity|].
    destruct Hp as [q ->]. apply Forall_app in Hs. tauto.
  - exists p'. split; [exact Hp|]. apply blobs_exec_target; [exact Hs|].
    destruct Hp as [q ->]. apply Forall_app in Hb. tauto.
Qed.

(* ---------------------------------------------------------------- generic preservation *)
Lemma DI_update : forall c s x e' m' ms' cs,
  DI c s -> ckeys x cs ->
  (forall y, m' y = if y =? x then e' else mem s y) ->
  di_key c e' (blobs (exec cs (disk s)) x) ->
  (e' <> None -> In x (dom (exec cs (disk s)))) ->
  ms' + size_of (mem s x) = msize s + size_of e' ->
  ms' <= c_cap c ->
  DI c (mkst m' ms' (exec cs (disk s))).
Proof.
  intros c s x e' m' ms' cs D Hk Hm Hx Hin Hms Hcap.
  assert (Hsup : forall y, mem s y <> None -> In y (dom (disk s))) by (intros; eapply di_support; eauto).
  constructor; cbn [mem msize disk].
  - intros y. rewrite Hm. destruct (N.eqb_spec y x) as [->|E]; [exact Hx|].
    rewrite (blobs_exec_other x); auto. apply (di_keys c s D).
  - apply dom_ok_exec, (di_dom c s D).
  - apply dom_exec_nodup, (di_nodup c s D).
  - set (dm' := dom (exec cs (disk s))).
    assert (ND : NoDup dm') by apply dom_exec_nodup, (di_nodup c s D).
    assert (Hsub : forall y, In y (dom (disk s)) -> In y dm') by (intros y Hy; apply dom_exec; now left).
    assert (E1 : sum_sizes m' dm' = sum_sizes (upd (mem s) x e') dm').
    { apply sum_ext. intros y _. rewrite Hm. unfold upd. reflexivity. }
    assert (E2 : sum_sizes (mem s) dm' = msize s).
    { rewrite (di_sum c s D). apply sum_support; auto using (di_nodup c s D). }
    rewrite E1. destruct (in_dec N.eq_dec x dm') as [I|I].
    + pose proof (sum_upd_in (mem s) x e' dm' ND I). lia.
    + rewrite sum_upd_notin by exact I.
      assert (e' = None) by (destruct e'; [exfalso; apply I, Hin; discriminate|reflexivity]).
      assert (mem s x = None) by (destruct (mem s x) eqn:Ex; [exfalso; apply I, Hsub, Hsup; congruence|reflexivity]).
      subst e'. rewrite H0 in Hms. cbn in Hms. lia.
  - exact Hcap.
Qed.

(* ---------------------------------------------------------------- removing a directory *)
Lemma kexec_unlinks : forall a x ord d d' v,
  rm_files ord d = Some d' -> vget a v = Some d ->
  kexec (map (CUnlink a x) ord) v = vset a (Some d') v.
Proof.
  intros a x ord. induction ord as [|f t IH]; intros d d' v H Hv; cbn in H.
  - injection H as <-. cbn. destruct a, v; cbn in *; congruence.
  - destruct (fget f d) eqn:F; [|discriminate]. cbn [map kexec fold_left].
    change (fold_left kapply (map (CUnlink a x) t) ?w) with (kexec (map (CUnlink a x) t) w).
    unfold kapply. cbn [kstep]. rewrite Hv, F.
    rewrite (IH _ _ _ H); [destruct a, v; reflexivity|]. destruct a, v; reflexivity.
Qed.
Lemma kexec_rm_calls : forall a x ord d v,
  legal_order ord (Some d) = true -> vget a v = Some d ->
  kexec (rm_calls a x ord (Some d)) v = vset a None v.
Proof.
  intros a x ord d v L Hv. unfold legal_order in L. destruct (rm_files ord d) as [d'|] eqn:R; [|discriminate].
  unfold rm_calls. rewrite kexec_app, (kexec_unlinks _ _ _ _ _ _ R Hv). cbn. unfold kapply. cbn [kstep].
  replace (vget a (vset a (Some d') v)) with (Some d') by (destruct a, v; reflexivity).
  rewrite L. destruct a, v; reflexivity.
Qed.

(* ---------------------------------------------------------------- facts about [step] that need no invariant *)
Ltac dm :=
  match goal with
  | |- context [match ?x with _ => _ end] => destruct x eqn:?
  end.

Lemma konly_map_unlink : forall x l, konly x (map (fun sfx => CUnlink AComp x (FMd sfx)) l).
Proof. intros. apply Forall_forall. intros cl H. apply in_map_iff in H. destruct H as [q [<- _]]. reflexivity. Qed.

Ltac ck :=
  repeat first
    [ apply Forall_nil
    | apply Forall_cons; [cbn; auto|]
    | apply Forall_app; split
    | apply shards_ckeys, shards_mkdirall
    | apply konly_ckeys, konly_rm_calls
    | apply konly_ckeys, konly_wr
    | apply konly_ckeys, konly_map_unlink ].

Lemma step_ckeys : forall c s o, ckeys (target o) (calls_of (step c s o)).
Proof.
  intros c s o. unfold ckeys. destruct o; cbn [target step]; repeat dm; cbn [calls_of snd]; ck.
Qed.

Lemma step_disk : forall c s o, disk (st_of (step c s o)) = exec (calls_of (step c s o)) (disk s).
Proof.
  intros c s o. destruct o; cbn [step]; repeat dm; reflexivity.
Qed.

Lemma step_mem_other : forall c s o y, y <> target o -> mem (st_of (step c s o)) y = mem s y.
Proof.
  intros c s o y H. destruct o; cbn [target] in H; cbn [step]; repeat dm; cbn [st_of fst mem];
    try reflexivity; unfold set_e; rewrite upd_neq; auto.
Qed.

(* ---------------------------------------------------------------- same directory up to leftover -tmp files *)
Definition deq (d d' : bdir) : Prop :=
  d_data d = d_data d' /\ d_sizef d = d_sizef d' /\ d_ban d = d_ban d' /\ d_md d = d_md d'.
Definition oeq (o o' : option bdir) : Prop :=
  match o, o' with None, None => True | Some d, Some d' => deq d d' | _, _ => False end.
Definition veq (v v' : kview) : Prop := oeq (fst v) (fst v') /\ oeq (snd v) (snd v').
Lemma deq_refl : forall d, deq d d. Proof. intros; repeat split. Qed.
Lemma oeq_refl : forall o, oeq o o. Proof. intros [d|]; cbn; auto using deq_refl. Qed.
Lemma veq_refl : forall v, veq v v. Proof. intros; split; apply oeq_refl. Qed.
Lemma veq_vset : forall a d d' v, deq d d' -> veq (vset a (Some d) v) (vset a (Some d') v).
Proof. intros [] d d' v H; split; cbn; auto using oeq_refl. Qed.

Lemma write_at_length : forall c off data,
  length (write_at c off data) = Nat.max (length c) (N.to_nat off + length data).
Proof.
  intros. unfold write_at. rewrite !app_length, firstn_length, repeat_length, skipn_length. lia.
Qed.

(* every call of a list succeeds when the list is executed on one key's directories *)
Fixpoint kall_ok (cs : list call) (v : kview) : bool :=
  match cs with [] => true | c :: t => isSome (kstep c v) && kall_ok t (kapply v c) end.
Lemma kall_ok_app : forall a b v, kall_ok (a ++ b) v = kall_ok a v && kall_ok b (kexec a v).
Proof.
  induction a as [|c t IH]; intros b v; cbn [app kall_ok]; [reflexivity|].
  change (kexec (c :: t) v) with (kexec t (kapply v c)). rewrite IH. now rewrite andb_assoc.
Qed.

(* ---------------------------------------------------------------- the shape of every operation from a DI state *)
Inductive oshape (c : cfg) (s : state) (o : op) : Prop :=
| os_noop : st_of (step c s o) = s -> calls_of (step c s o) = [] -> oshape c s o
| os_create : forall x sz sh,
    o = Create x sz -> mem s x = None -> blobs (disk s) x = (None, None) -> msize s + sz <= c_cap c -> shards sh ->
    calls_of (step c s o) = sh ++ [CMkBlob AInc x; COpen AInc x FData OExcl]
                               ++ (if c_ri c then [COpen AInc x FSize OExcl; CWrite AInc x FSize 0 (dec sz)] else []) ->
    st_of (step c s o) = mkst (set_e (mem s) x (mkment sz false false)) (msize s + sz)
                              (exec (calls_of (step c s o)) (disk s)) ->
    oshape c s o
| os_rm : forall x e d ord,
    removes o x = true -> target o = x -> mem s x = Some e -> vget (area_of e) (blobs (disk s) x) = Some d ->
    legal_order ord (Some d) = true ->
    calls_of (step c s o) = rm_calls (area_of e) x ord (Some d) ->
    st_of (step c s o) = mkst (upd (mem s) x None) (msize s - e_size e) (exec (calls_of (step c s o)) (disk s)) ->
    oshape c s o
| os_mc : forall x e d sh,
    o = MarkComplete x -> mem s x = Some e -> e_complete e = false -> blobs (disk s) x = (None, Some d) -> shards sh ->
    calls_of (step c s o) = sh ++ CRenDir x :: map (fun sfx => CUnlink AComp x (FMd sfx)) (immovables c d) ->
    st_of (step c s o) = mkst (set_e (mem s) x (mkment (e_size e) true (e_banned e))) (msize s)
                              (exec (calls_of (step c s o)) (disk s)) ->
    oshape c s o
| os_dir : forall x e d body e' d1,
    target o = x -> removes o x = false -> (forall y, o <> MarkComplete y) ->
    mem s x = Some e -> vget (area_of e) (blobs (disk s) x) = Some d -> konly x body ->
    calls_of (step c s o) = body ->
    (forall y, mem (st_of (step c s o)) y = if y =? x then Some e' else mem s y) ->
    msize (st_of (step c s o)) = msize s ->
    e_size e' = e_size e -> e_complete e' = e_complete e ->
    kexec body (blobs (disk s) x) = vset (area_of e) (Some d1) (blobs (disk s) x) ->
    (forall pk, prefix pk body ->
       veq (kexec pk (blobs (disk s) x)) (blobs (disk s) x) \/ kexec pk (blobs (disk s) x) = kexec body (blobs (disk s) x)) ->
    dir_ok c e' d1 ->
    kall_ok body (blobs (disk s) x) = true ->
    oshape c s o.

Lemma prefix_one : forall {A} (p : list A) a, prefix p [a] -> p = [] \/ p = [a].
Proof.
  intros A p a H. apply prefix_cons in H. destruct H as [->|[p' [-> H]]]; [now left|].
  apply prefix_nil in H. subst. now right.
Qed.
Lemma prefix_le1 : forall {A} (p l : list A), (length l <= 1)%nat -> prefix p l -> p = [] \/ p = l.
Proof.
  intros A p l H Hp. destruct l as [|a [|b t]]; cbn in H; try lia.
  - apply prefix_nil in Hp. now left.
  - now apply prefix_one.
Qed.
Lemma wr_length : forall a x f off data, (length (wr a x f off data) <= 1)%nat.
Proof. intros. unfold wr. destruct data; cbn; lia. Qed.

Lemma upd_same : forall (m : N -> option ment) x e y, m x = Some e -> m y = if y =? x then Some e else m y.
Proof. intros. destruct (N.eqb_spec y x); congruence. Qed.
Lemma set_e_spec : forall (m : N -> option ment) x e y, set_e m x e y = if y =? x then Some e else m y.
Proof. reflexivity. Qed.

#[local] Opaque dec.
Lemma shape_create : forall c s x sz, DI c s -> wf_op c s (Create x sz) = true -> oshape c s (Create x sz).
Proof.
  intros c s x sz D W.
  destruct (mem s x) as [e|] eqn:M.
  - apply os_noop; cbn [step]; rewrite M; reflexivity.
  - pose proof (di_keys c s D x) as K. rewrite M in K. cbn in K.
    destruct (msize s + sz <=? c_cap c) eqn:F.
    + apply N.leb_le in F.
      eapply (os_create c s _ x sz (mkdirall AInc (shard_path c x) (sdirs (disk s)))); auto.
      * apply shards_mkdirall.
      * cbn [step]. rewrite M, K. cbn [snd]. replace (msize s + sz <=? c_cap c) with true by (symmetry; now apply N.leb_le).
        cbn. unfold wr. destruct (dec sz) eqn:E; [now apply dec_nonempty in E|].
        destruct (c_ri c); rewrite <- ?app_assoc; reflexivity.
      * cbn [step]. rewrite M, K. cbn [snd]. replace (msize s + sz <=? c_cap c) with true by (symmetry; now apply N.leb_le).
        cbn. reflexivity.
    + apply os_noop; cbn [step]; rewrite M, F; cbn; destruct (existsb _ _); reflexivity.
Qed.

Lemma shape_delete : forall c s x ord, DI c s -> wf_op c s (Delete x ord) = true -> oshape c s (Delete x ord).
Proof.
  intros c s x ord D W.
  destruct (mem s x) as [e|] eqn:M.
  - pose proof (di_keys c s D x) as K. rewrite M in K. apply di_vget in K. destruct K as [d [V [OK Hv]]].
    unfold wf_op in W. cbn [step] in W. rewrite M, V in W.
    destruct (legal_order ord (Some d)) eqn:L; [|cbn in W; discriminate].
    eapply (os_rm c s _ x e d ord); auto.
    + cbn. apply N.eqb_refl.
    + cbn [step]. rewrite M, V, L. reflexivity.
    + cbn [step]. rewrite M, V, L. reflexivity.
  - apply os_noop; cbn [step]; rewrite M; reflexivity.
Qed.

Lemma shape_evict : forall c s x sz ord, DI c s -> wf_op c s (Evict x sz ord) = true -> oshape c s (Evict x sz ord).
Proof.
  intros c s x sz ord D W.
  unfold wf_op in W. cbn [step] in W.
  destruct (msize s + sz <=? c_cap c) eqn:F; [cbn in W; discriminate|].
  destruct (mem s x) as [e|] eqn:M; [|cbn in W; discriminate].
  pose proof (di_keys c s D x) as K. rewrite M in K. apply di_vget in K. destruct K as [d [V [OK Hv]]].
  destruct (evictable (Some e)) eqn:Ev; [|cbn in W; discriminate].
  assert (A : area_of e = AComp) by (unfold area_of; cbn in Ev; destruct (e_complete e); [reflexivity|discriminate]).
  rewrite A in V. cbn [vget] in V. rewrite V in W.
  destruct (legal_order ord (Some d)) eqn:L; [|cbn in W; discriminate].
  eapply (os_rm c s _ x e d ord); auto.
  - cbn. apply N.eqb_refl.
  - rewrite A. exact V.
  - cbn [step]. rewrite F, M, V, Ev, L, A. reflexivity.
  - cbn [step]. rewrite F, M, V, Ev, L. reflexivity.
Qed.

Lemma shape_mc : forall c s x, DI c s -> wf_op c s (MarkComplete x) = true -> oshape c s (MarkComplete x).
Proof.
  intros c s x D W.
  destruct (mem s x) as [e|] eqn:M.
  - destruct (e_complete e) eqn:C.
    + apply os_noop; cbn [step]; rewrite M, C; reflexivity.
    + pose proof (di_keys c s D x) as K. rewrite M in K. destruct K as [d [Hv OK]].
      unfold area_of in Hv. rewrite C in Hv. cbn in Hv.
      eapply (os_mc c s _ x e d (mkdirall AComp (shard_path c x) (sdirs (disk s)))); auto.
      * apply shards_mkdirall.
      * cbn [step]. rewrite M, C, Hv. cbn. reflexivity.
      * cbn [step]. rewrite M, C, Hv. cbn. reflexivity.
  - apply os_noop; cbn [step]; rewrite M; reflexivity.
Qed.

Lemma vset_vset_base : forall a d v d0, v = vset a (Some d0) (None, None) -> vset a (Some d) v = vset a (Some d) (None, None).
Proof. intros [] d v d0 ->; reflexivity. Qed.

(* single-call (or empty) bodies: every prefix is the start or the whole *)
Lemma short_body : forall body v, (length body <= 1)%nat ->
  forall pk, prefix pk body -> veq (kexec pk v) v \/ kexec pk v = kexec body v.
Proof.
  intros body v H pk Hp. destruct (prefix_le1 _ _ H Hp) as [->| ->]; [left; apply veq_refl|now right].
Qed.

Lemma shape_ban : forall c s x, DI c s -> wf_op c s (Ban x) = true -> oshape c s (Ban x).
Proof.
  intros c s x D W.
  destruct (mem s x) as [e|] eqn:M.
  - destruct (e_banned e) eqn:B.
    + apply os_noop; cbn [step]; rewrite M, B; reflexivity.
    + pose proof (di_keys c s D x) as K. rewrite M in K. apply di_vget in K. destruct K as [d [V [OK Hv]]].
      destruct OK as [b [Hd [Hl [Hb Hs]]]].
      eapply (os_dir c s _ x e d [COpen (area_of e) x FBan OPlain] (mkment (e_size e) (e_complete e) true)
                     (fset FBan (Some []) d)); auto.
      * intros y; discriminate.
      * repeat constructor.
      * cbn [step]. rewrite M, B, V. reflexivity.
      * intros y. cbn [step]. rewrite M, B, V. reflexivity.
      * cbn [step]. rewrite M, B, V. reflexivity.
      * cbn [kexec fold_left]. unfold kapply. cbn [kstep]. rewrite V. cbn [fget]. rewrite Hb, B. reflexivity.
      * apply short_body. cbn. lia.
      * exists b. cbn. repeat split; auto.
      * cbn [kall_ok kstep]. rewrite V. cbn [fget]. rewrite Hb, B. reflexivity.
  - apply os_noop; cbn [step]; rewrite M; reflexivity.
Qed.

Lemma shape_unban : forall c s x, DI c s -> wf_op c s (Unban x) = true -> oshape c s (Unban x).
Proof.
  intros c s x D W.
  destruct (mem s x) as [e|] eqn:M.
  - destruct (e_banned e) eqn:B.
    + pose proof (di_keys c s D x) as K. rewrite M in K. apply di_vget in K. destruct K as [d [V [OK Hv]]].
      destruct OK as [b [Hd [Hl [Hb Hs]]]].
      assert (KS : kstep (CUnlink (area_of e) x FBan) (blobs (disk s) x)
                   = Some (vset (area_of e) (Some (fset FBan None d)) (blobs (disk s) x))).
      { cbn [kstep]. rewrite V. cbn [fget]. rewrite Hb, B. reflexivity. }
      eapply (os_dir c s _ x e d [CUnlink (area_of e) x FBan] (mkment (e_size e) (e_complete e) false)
                     (fset FBan None d)); auto.
      * intros y; discriminate.
      * repeat constructor.
      * cbn [step]. rewrite M, B, KS. reflexivity.
      * intros y. cbn [step]. rewrite M, B, KS. reflexivity.
      * cbn [step]. rewrite M, B, KS. reflexivity.
      * cbn [kexec fold_left]. unfold kapply. rewrite KS. reflexivity.
      * apply short_body. cbn. lia.
      * exists b. cbn. repeat split; auto.
      * cbn [kall_ok]. rewrite KS. reflexivity.
    + apply os_noop; cbn [step]; rewrite M, B; reflexivity.
  - apply os_noop; cbn [step]; rewrite M; reflexivity.
Qed.

Lemma vset_vget_id : forall a v d, vget a v = Some d -> vset a (Some d) v = v.
Proof. intros [] [vc vi] d H; cbn in *; congruence. Qed.
Lemma vget_vset : forall a o v, vget a (vset a o v) = o.
Proof. intros [] o [vc vi]; reflexivity. Qed.
Lemma vset_vset : forall a o o' v, vset a o (vset a o' v) = vset a o v.
Proof. intros [] o o' [vc vi]; reflexivity. Qed.

Lemma shape_write : forall c s x off data, DI c s -> wf_op c s (WriteAt x off data) = true -> oshape c s (WriteAt x off data).
Proof.
  intros c s x off data D W.
  destruct (mem s x) as [e|] eqn:M.
  - pose proof (di_keys c s D x) as K. rewrite M in K. apply di_vget in K. destruct K as [d [V [OK Hv]]].
    destruct OK as [b [Hd [Hl [Hb Hs]]]].
    unfold wf_op in W. apply andb_true_iff in W. destruct W as [_ W]. rewrite M in W. apply N.leb_le in W.
    eapply (os_dir c s _ x e d (wr (area_of e) x FData off data) e
              (match data with [] => d | _ => fset FData (Some (write_at b off data)) d end)); auto.
    + intros y; discriminate.
    + apply konly_wr.
    + cbn [step]. rewrite M, V, Hd. reflexivity.
    + intros y. cbn [step]. rewrite M, V, Hd. cbn [st_of fst mem]. now apply upd_same.
    + cbn [step]. rewrite M, V, Hd. reflexivity.
    + unfold wr. destruct data as [|z data]; cbn [kexec fold_left].
      * symmetry. now apply vset_vget_id.
      * unfold kapply. cbn [kstep]. rewrite V. cbn [fget]. rewrite Hd. reflexivity.
    + apply short_body, wr_length.
    + destruct data as [|z data]; [exists b; auto|].
      exists (write_at b off (z :: data)). cbn [fset d_data d_ban d_sizef]. repeat split; auto.
      rewrite write_at_length. lia.
    + unfold wr. destruct data as [|z data]; [reflexivity|]. cbn [kall_ok kstep]. rewrite V. cbn [fget]. rewrite Hd. reflexivity.
  - apply os_noop; cbn [step]; rewrite M; reflexivity.
Qed.

Lemma shape_delmd : forall c s x sfx, DI c s -> wf_op c s (DelMd x sfx) = true -> oshape c s (DelMd x sfx).
Proof.
  intros c s x sfx D W.
  destruct (mem s x) as [e|] eqn:M.
  - pose proof (di_keys c s D x) as K. rewrite M in K. apply di_vget in K. destruct K as [d [V [OK Hv]]].
    destruct OK as [b [Hd [Hl [Hb Hs]]]].
    destruct (aget sfx (d_md d)) as [mdv|] eqn:G.
    + assert (KS : kstep (CUnlink (area_of e) x (FMd sfx)) (blobs (disk s) x)
                   = Some (vset (area_of e) (Some (fset (FMd sfx) None d)) (blobs (disk s) x))).
      { cbn [kstep]. rewrite V. cbn [fget]. rewrite G. reflexivity. }
      eapply (os_dir c s _ x e d [CUnlink (area_of e) x (FMd sfx)] e (fset (FMd sfx) None d)); auto.
      * intros y; discriminate.
      * repeat constructor.
      * cbn [step]. rewrite M, KS. reflexivity.
      * intros y. cbn [step]. rewrite M, KS. cbn [st_of fst mem]. now apply upd_same.
      * cbn [step]. rewrite M, KS. reflexivity.
      * cbn [kexec fold_left]. unfold kapply. rewrite KS. reflexivity.
      * apply short_body. cbn. lia.
      * exists b. cbn. repeat split; auto.
      * cbn [kall_ok]. rewrite KS. reflexivity.
    + apply os_noop; cbn [step]; rewrite M; cbn [kstep]; rewrite V; cbn [fget]; rewrite G; reflexivity.
  - apply os_noop; cbn [step]; rewrite M; reflexivity.
Qed.

Lemma shape_wmd : forall c s x sfx off data, DI c s -> wf_op c s (WriteAtMd x sfx off data) = true ->
  oshape c s (WriteAtMd x sfx off data).
Proof.
  intros c s x sfx off data D W.
  destruct (mem s x) as [e|] eqn:M.
  - pose proof (di_keys c s D x) as K. rewrite M in K. apply di_vget in K. destruct K as [d [V [OK Hv]]].
    destruct OK as [b [Hd [Hl [Hb Hs]]]].
    destruct (aget sfx (d_md d)) as [mdv|] eqn:G.
    + eapply (os_dir c s _ x e d (wr (area_of e) x (FMd sfx) off data) e
                (match data with [] => d | _ => fset (FMd sfx) (Some (write_at mdv off data)) d end)); auto.
      * intros y; discriminate.
      * apply konly_wr.
      * cbn [step]. rewrite M, V, G. reflexivity.
      * intros y. cbn [step]. rewrite M, V, G. cbn [st_of fst mem]. now apply upd_same.
      * cbn [step]. rewrite M, V, G. reflexivity.
      * unfold wr. destruct data as [|z data]; cbn [kexec fold_left].
        -- symmetry. now apply vset_vget_id.
        -- unfold kapply. cbn [kstep]. rewrite V. cbn [fget]. rewrite G. reflexivity.
      * apply short_body, wr_length.
      * destruct data as [|z data]; exists b; cbn; repeat split; auto.
      * unfold wr. destruct data as [|z data]; [reflexivity|]. cbn [kall_ok kstep]. rewrite V. cbn [fget]. rewrite G. reflexivity.
    + apply os_noop; cbn [step]; rewrite M, V, G; reflexivity.
  - apply os_noop; cbn [step]; rewrite M; reflexivity.
Qed.

Lemma write_at_nil : forall data, write_at [] 0 data = data.
Proof. intros. unfold write_at. cbn. rewrite skipn_nil. apply app_nil_r. Qed.

Lemma kstep_trunc : forall a x f v d, vget a v = Some d ->
  kstep (COpen a x f OTrunc) v = Some (vset a (Some (fset f (Some []) d)) v).
Proof. intros. cbn [kstep]. rewrite H. destruct (fget f d); reflexivity. Qed.

Lemma kexec_cons : forall c t v, kexec (c :: t) v = kexec t (kapply v c).
Proof. reflexivity. Qed.

Lemma shape_setmd : forall c s x sfx data, DI c s -> wf_op c s (SetMd x sfx data) = true -> oshape c s (SetMd x sfx data).
Proof.
  intros c s x sfx data D W.
  destruct (mem s x) as [e|] eqn:M.
  - pose proof (di_keys c s D x) as K. rewrite M in K. apply di_vget in K. destruct K as [d [V [OK Hv]]].
    destruct OK as [b [Hd [Hl [Hb Hs]]]].
    set (a := area_of e) in *. set (v := blobs (disk s) x) in *.
    set (d2 := fset (FTmp sfx) (Some []) d).
    set (d3 := match data with [] => d2 | _ => fset (FTmp sfx) (Some data) d2 end).
    set (d4 := fset (FMd sfx) (Some data) (fset (FTmp sfx) None d3)).
    assert (K1 : kapply v (COpen a x (FTmp sfx) OTrunc) = vset a (Some d2) v).
    { unfold kapply. now rewrite (kstep_trunc _ _ _ _ d). }
    assert (G2 : fget (FTmp sfx) d2 = Some []) by (unfold d2; cbn; now rewrite N.eqb_refl).
    assert (K2 : kexec (wr a x (FTmp sfx) 0 data) (vset a (Some d2) v) = vset a (Some d3) v).
    { unfold wr, d3. destruct data as [|z data]; [reflexivity|].
      cbn [kexec fold_left]. unfold kapply. cbn [kstep]. rewrite vget_vset, G2, write_at_nil, vset_vset. reflexivity. }
    assert (G3 : fget (FTmp sfx) d3 = Some data).
    { unfold d3. destruct data; [exact G2|]. cbn. now rewrite N.eqb_refl. }
    assert (K3 : kapply (vset a (Some d3) v) (CRenFile a x (FTmp sfx) (FMd sfx)) = vset a (Some d4) v).
    { unfold kapply. cbn [kstep]. rewrite vget_vset, G3, vset_vset. reflexivity. }
    assert (E2 : deq d2 d) by (unfold d2; repeat split).
    assert (E3 : deq d3 d) by (unfold d3; destruct data; [exact E2|repeat split]).
    eapply (os_dir c s _ x e d (COpen a x (FTmp sfx) OTrunc :: wr a x (FTmp sfx) 0 data ++ [CRenFile a x (FTmp sfx) (FMd sfx)]) e d4); auto.
    + intros y; discriminate.
    + constructor; [reflexivity|]. apply konly_app; [apply konly_wr|repeat constructor].
    + cbn [step]. rewrite M. fold a. fold v. rewrite V. reflexivity.
    + intros y. cbn [step]. rewrite M. fold a. fold v. rewrite V. cbn [st_of fst mem]. now apply upd_same.
    + cbn [step]. rewrite M. fold a. fold v. rewrite V. reflexivity.
    + fold a; fold v. rewrite kexec_cons, K1, kexec_app, K2, kexec_cons. exact K3.
    + fold a; fold v. intros pk Hp. apply prefix_cons in Hp. destruct Hp as [->|[p1 [-> Hp]]]; [left; apply veq_refl|].
      rewrite kexec_cons, K1.
      apply prefix_app_cases in Hp. destruct Hp as [Hp|[p2 [-> Hp]]].
      * left. destruct (prefix_le1 _ _ (wr_length _ _ _ _ _) Hp) as [->| ->].
        -- cbn. rewrite <- (vset_vget_id a v d V) at 2. now apply veq_vset.
        -- rewrite K2. rewrite <- (vset_vget_id a v d V) at 2. now apply veq_vset.
      * rewrite kexec_app, K2. apply prefix_one in Hp. destruct Hp as [->| ->].
        -- left. cbn. rewrite <- (vset_vget_id a v d V) at 2. now apply veq_vset.
        -- right. rewrite (kexec_cons (COpen a x (FTmp sfx) OTrunc)), K1, kexec_app, K2. reflexivity.
    + exists b. unfold d4, d3. destruct data; cbn; repeat split; auto.
    + fold a; fold v. cbn [kall_ok]. rewrite (kstep_trunc _ _ _ _ d V). cbn [isSome andb]. rewrite K1, kall_ok_app, K2.
      assert (W1 : kall_ok (wr a x (FTmp sfx) 0 data) (vset a (Some d2) v) = true).
      { unfold wr. destruct data as [|z data]; [reflexivity|]. cbn [kall_ok kstep]. rewrite vget_vset, G2. reflexivity. }
      rewrite W1. cbn [kall_ok kstep andb]. rewrite vget_vset, G3. reflexivity.
  - apply os_noop; cbn [step]; rewrite M; reflexivity.
Qed.

Lemma step_shape : forall c s o, DI c s -> wf_op c s o = true -> oshape c s o.
Proof.
  intros c s o D W. destruct o.
  - now apply shape_evict.
  - now apply shape_create.
  - now apply shape_write.
  - now apply shape_mc.
  - now apply shape_delete.
  - now apply shape_ban.
  - now apply shape_unban.
  - now apply shape_setmd.
  - now apply shape_delmd.
  - now apply shape_wmd.
Qed.

(* ---------------------------------------------------------------- full results of the three operations of the reuse probe *)
Lemma step_delete_eq : forall c s x ord e d, DI c s -> mem s x = Some e ->
  vget (area_of e) (blobs (disk s) x) = Some d -> legal_order ord (Some d) = true ->
  step c s (Delete x ord) =
  (mkst (upd (mem s) x None) (msize s - e_size e) (exec (rm_calls (area_of e) x ord (Some d)) (disk s)), OOk,
   rm_calls (area_of e) x ord (Some d)).
Proof. intros c s x ord e d D M V L. cbn [step]. rewrite M, V, L. reflexivity. Qed.

Lemma step_create_eq : forall c s x sz, DI c s -> mem s x = None -> msize s + sz <= c_cap c ->
  exists cs, step c s (Create x sz) =
  (mkst (set_e (mem s) x (mkment sz false false)) (msize s + sz) (exec cs (disk s)), OOk, cs).
Proof.
  intros c s x sz D M F. pose proof (di_keys c s D x) as K. rewrite M in K. cbn in K.
  cbn [step]. rewrite M, K. cbn [snd]. apply N.leb_le in F. rewrite F. cbn. eauto.
Qed.

Lemma step_mc_eq : forall c s x e, DI c s -> mem s x = Some e -> e_complete e = false ->
  exists cs, step c s (MarkComplete x) =
  (mkst (set_e (mem s) x (mkment (e_size e) true (e_banned e))) (msize s) (exec cs (disk s)), OOk, cs).
Proof.
  intros c s x e D M C. pose proof (di_keys c s D x) as K. rewrite M in K. destruct K as [d [Hv OK]].
  unfold area_of in Hv. rewrite C in Hv. cbn in Hv.
  cbn [step]. rewrite M, C, Hv. cbn. eauto.
Qed.
