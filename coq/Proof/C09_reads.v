(* C09: the read operations return what the property promises (state and ghost unchanged) *)
From Coq Require Import List NArith Bool Lia.
From K.Model Require Import C09.
From K.Proof Require Import C09_base C09_inv.
Import ListNotations.
Local Open Scope N_scope.

Lemma absent_clear : forall s g k,
  Inv s g -> gget g k = GAbsent -> in_window3 s k = false ->
  get k (mem s) = None /\ get k (disk s) = None /\ get k (fblobs s) = None.
Proof.
  intros s g k [_ H] HA HW. destruct (H k) as [[G1 _] HG]. rewrite HA in HG. cbn in HG.
  destruct HG as [HM HD].
  assert (HF : get k (fblobs s) = None).
  { destruct (get k (fblobs s)) as [id|] eqn:E; auto.
    destruct (G1 id eq_refl) as [_ [_ [m [A _]]]]. congruence. }
  repeat split; auto. destruct HD as [HD|HD]; auto.
  unfold in_window3 in HW. rewrite HD, HF in HW. discriminate.
Qed.

(* what a read of a live key sees *)
Lemma live_view : forall s g k d mds,
  Inv s g -> gget g k = GLive d mds ->
  (exists m, get k (mem s) = Some m /\ m_complete m = true /\ m_data m = d /\ mds_eq (m_mds m) mds) \/
  (get k (mem s) = None /\ exists e, get k (disk s) = Some e /\ d_complete e = true /\ d_data e = d /\ mds_eq (d_mds e) mds).
Proof.
  intros s g k d mds [_ H] HL. destruct (H k) as [_ HG]. rewrite HL in HG. cbn in HG. unfold live_inv in HG.
  destruct (get k (mem s)) as [m|].
  - left. exists m. tauto.
  - right. split; auto. destruct HG as [e HG]. exists e. tauto.
Qed.

Lemma oos_true : forall sc, oos true sc = match sc with SIncomplete => true | _ => false end.
Proof. destruct sc; auto. Qed.

Lemma inv_open : forall s g k sc, Inv s g -> guard s (Open k sc) = true ->
  snd (gstep g (Open k sc) (snd (cstep s (Open k sc)))) = true.
Proof.
  intros s g k sc HI HG. cbn in HG. apply negb_true_iff in HG. cbn [gstep snd].
  destruct (gget g k) as [|d mds|d mds|] eqn:E; auto.
  - destruct (absent_clear s g k HI E HG) as [A [B _]]. cbn. rewrite A, B. auto.
  - destruct (live_view s g k d mds HI E) as [[m [A [B [C D]]]]|[A [e [B [C [D F]]]]]]; cbn; rewrite A.
    + rewrite B, oos_true. destruct sc; cbn; auto; subst; apply bytes_eqb_refl.
    + rewrite B, C, oos_true. destruct sc; cbn; auto; subst; apply bytes_eqb_refl.
Qed.

Lemma inv_has : forall s g k sc, Inv s g -> guard s (Has k sc) = true ->
  snd (gstep g (Has k sc) (snd (cstep s (Has k sc)))) = true.
Proof.
  intros s g k sc HI HG. cbn in HG. apply negb_true_iff in HG. cbn [gstep snd].
  destruct (gget g k) as [|d mds|d mds|] eqn:E; auto.
  - destruct (absent_clear s g k HI E HG) as [A [B _]]. cbn. rewrite A, B. auto.
  - destruct (live_view s g k d mds HI E) as [[m [A [B [C D]]]]|[A [e [B [C [D F]]]]]]; cbn; rewrite A.
    + rewrite B, oos_true. destruct sc; cbn; auto.
    + rewrite B, C, oos_true. destruct sc; cbn; auto.
Qed.

Lemma inv_getmd : forall s g k x sc, Inv s g -> guard s (GetMd k x sc) = true ->
  snd (gstep g (GetMd k x sc) (snd (cstep s (GetMd k x sc)))) = true.
Proof.
  intros s g k x sc HI HG. cbn in HG. apply negb_true_iff in HG. cbn [gstep snd].
  destruct (gget g k) as [|d mds|d mds|] eqn:E; auto.
  - destruct (absent_clear s g k HI E HG) as [A [B _]]. cbn. rewrite A, B. auto.
  - destruct (live_view s g k d mds HI E) as [[m [A [B [C D]]]]|[A [e [B [C [D F]]]]]]; cbn; rewrite A.
    + rewrite B, oos_true. destruct sc; cbn; auto; rewrite D; apply opt_bytes_eqb_refl.
    + rewrite B, C, oos_true. destruct sc; cbn; auto; rewrite F; apply opt_bytes_eqb_refl.
Qed.

(* ---- List *)
Definition listed (s : st) (sc : scope) : list N :=
  let all := keys_in d_complete sc (disk s) ++ keys_in m_complete sc (mem s) in
  let drop := match sc with SIncomplete => keys_in m_complete SComplete (mem s) | _ => [] end in
  sortN (filter (fun k => negb (memN k drop)) all).

Lemma listed_In : forall s sc k,
  In k (listed s sc) <->
  ((exists e, get k (disk s) = Some e /\ oos (d_complete e) sc = false) \/
   (exists m, get k (mem s) = Some m /\ oos (m_complete m) sc = false)) /\
  ~ (sc = SIncomplete /\ exists m, get k (mem s) = Some m /\ m_complete m = true).
Proof.
  intros. unfold listed. rewrite sortN_In, filter_In, in_app_iff, !keys_in_In, negb_true_iff, memN_false.
  assert (HD : In k (match sc with SIncomplete => keys_in m_complete SComplete (mem s) | _ => [] end) <->
               (sc = SIncomplete /\ exists m, get k (mem s) = Some m /\ m_complete m = true)).
  { destruct sc; cbn; try (split; [tauto|intros [? _]; discriminate]).
    rewrite keys_in_In. split.
    - intros [v [A B]]. split; auto. exists v; split; auto. cbn in B. destruct (m_complete v); auto; discriminate.
    - intros [_ [m [A B]]]. exists m; split; auto. cbn. rewrite B; auto. }
  rewrite HD. tauto.
Qed.

Lemma inv_list : forall s g sc, Inv s g -> guard s (ListK sc) = true ->
  snd (gstep g (ListK sc) (snd (cstep s (ListK sc)))) = true.
Proof.
  intros s g sc HI HG. cbn [cstep snd gstep]. fold (listed s sc).
  apply forallb_forall. intros k _.
  destruct (gget g k) as [|d mds|d mds|] eqn:E; auto.
  - assert (HW : in_window3 s k = false).
    { destruct (in_window3 s k) eqn:W; auto. unfold in_window3 in W. apply andb_true_iff in W as [W1 W2].
      assert (HK : wkey (wpc s) = Some k) by (apply won_wkey; destruct (wpc s); cbn in *; auto; discriminate).
      cbn in HG. rewrite HK in HG. unfold in_window3 in HG. rewrite W1, W2 in HG. discriminate. }
    destruct (absent_clear s g k HI E HW) as [A [B _]].
    apply negb_true_iff, memN_false. rewrite listed_In. intros [[[e [C _]]|[m [C _]]] _]; congruence.
  - apply eqb_true_iff.
    destruct (live_view s g k d mds HI E) as [[m [A [B [C D]]]]|[A [e [B [C [D F]]]]]].
    + destruct sc; cbn.
      * apply memN_In, listed_In. split; [right; exists m; rewrite B; auto|intros [? _]; discriminate].
      * apply memN_In, listed_In. split; [right; exists m; rewrite B; auto|intros [? _]; discriminate].
      * apply memN_false. rewrite listed_In. intros [_ H]. apply H. split; auto. eauto.
    + destruct sc; cbn.
      * apply memN_In, listed_In. split; [left; exists e; rewrite C; auto|intros [? _]; discriminate].
      * apply memN_In, listed_In. split; [left; exists e; rewrite C; auto|intros [? _]; discriminate].
      * apply memN_false. rewrite listed_In. intros [[[e' [X Y]]|[m [X Y]]] _]; [|congruence].
        rewrite B in X; inversion X; subst. rewrite C in Y. discriminate.
Qed.
