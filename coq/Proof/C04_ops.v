(* C04: the calls that change what the invariant reads (download data, status vector, rename),
   procedure by procedure *)
From Coq Require Import List NArith Bool Arith Lia.
From K.Model Require Import C04.
From K.Proof Require Import C04_base C04_inv.
Import ListNotations.

(* ---- small list facts ---- *)
Lemma length_upd : forall {A} i (v : A) l, length (upd i v l) = length l.
Proof. intros A i v l. revert i. induction l as [|x l IH]; intros [|i]; simpl; auto. Qed.

Lemma nth_upd_same : forall {A} i (v d : A) l, i < length l -> nth i (upd i v l) d = v.
Proof. intros A i v d l. revert i. induction l as [|x l IH]; intros [|i] H; simpl in *; try lia; auto. apply IH. lia. Qed.

Lemma nth_upd_other : forall {A} i j (v d : A) l, i <> j -> nth j (upd i v l) d = nth j l d.
Proof.
  intros A i j v d l. revert i j. induction l as [|x l IH]; intros [|i] [|j] H; simpl; auto; try lia.
Qed.

Lemma map_upd : forall {A B} (f : A -> B) i v l, map f (upd i v l) = upd i (f v) (map f l).
Proof. intros A B f i v l. revert i. induction l as [|x l IH]; intros [|i]; simpl; auto. rewrite IH. reflexivity. Qed.

Lemma pwrite_one : forall (b : bytes) i v, i < length b -> pwrite b i [v] = upd i v b.
Proof.
  intros b i v. revert i. induction b as [|x b IH]; intros [|i] H; simpl in *; try lia.
  - unfold pwrite. simpl. reflexivity.
  - unfold pwrite in *. simpl. f_equal. specialize (IH i ltac:(lia)). simpl in IH. exact IH.
Qed.

Lemma pwrite_full : forall (x d : bytes), length x = length d -> pwrite x 0 d = d.
Proof.
  intros x d H. unfold pwrite. simpl. rewrite skipn_all2 by lia. apply app_nil_r.
Qed.

Lemma pwrite_nil_zero : forall d, pwrite [] 0 d = d.
Proof. intro d. unfold pwrite. simpl. rewrite skipn_nil. apply app_nil_r. Qed.

Lemma nth_zeros : forall n i, nth i (zeros n) 0%N = 0%N.
Proof. intros n i. unfold zeros. destruct (Nat.lt_ge_cases i n); [apply nth_repeat | apply nth_overflow; rewrite repeat_length; lia]. Qed.

Lemma count_true_all : forall l, count_true l = length l -> forall i, i < length l -> nth i l false = true.
Proof.
  unfold count_true. induction l as [|x l IH]; intros H i Hi; simpl in *; [lia|].
  destruct x; simpl in H.
  - destruct i; [reflexivity|]. apply IH; lia.
  - pose proof (filter_length_le (fun b : bool => b) l). lia.
Qed.

Lemma count_true_repeat : forall n, count_true (repeat true n) = n.
Proof. unfold count_true. induction n; simpl; auto. Qed.

Lemma deser_nth : forall b i, nth i (deser_status b) false = N.eqb (nth i b 0%N) 1.
Proof.
  intros b i. unfold deser_status.
  destruct (Nat.lt_ge_cases i (length b)).
  - rewrite (nth_indep _ false (N.eqb 0 1)) by (rewrite map_length; lia). apply map_nth.
  - rewrite !nth_overflow by (rewrite ?map_length; lia). reflexivity.
Qed.

(* ---- the invariant, unfolded ---- *)
Section Inv.
  Variable c : cfg.
  Hypothesis Hwf : wf_cfg c = true.

  Lemma Hpl : 0 < c_pl c.
  Proof. unfold wf_cfg in Hwf. apply andb_true_iff in Hwf. destruct Hwf as [H _]. apply Nat.ltb_lt in H. exact H. Qed.

  Lemma status_ok_nil : forall d, status_ok c d [] = true.
  Proof.
    intro d. unfold status_ok, shape_ok, marks_ok. simpl. apply forallb_forall. intros i _.
    destruct i; reflexivity.
  Qed.

  Lemma marks_ok_spec : forall d b, marks_ok c d b = true <->
    (forall i, i < npieces c -> nth i b 0%N = 1%N -> region c d i = region c (c_blob c) i).
  Proof.
    intros d b. unfold marks_ok. rewrite forallb_forall. split.
    - intros H i Hi E. specialize (H i). rewrite in_seq in H. specialize (H ltac:(lia)).
      rewrite E in H. simpl in H. apply bytes_eqb_eq in H. exact H.
    - intros H i Hi. apply in_seq in Hi. destruct (N.eqb (nth i b 0%N) 1) eqn:E; [|reflexivity].
      simpl. apply N.eqb_eq in E. apply bytes_eqb_eq. apply H; [lia | exact E].
  Qed.

  Lemma shape_ok_spec : forall b, shape_ok c b = true <-> (b = [] \/ length b = npieces c).
  Proof.
    intro b. unfold shape_ok. destruct b as [|x b].
    - split; auto.
    - rewrite Nat.eqb_eq. split; [auto|]. intros [H|H]; [discriminate | exact H].
  Qed.

  Lemma status_ok_zeros : forall d, status_ok c d (zeros (npieces c)) = true.
  Proof.
    intro d. unfold status_ok. apply andb_true_iff. split.
    - apply shape_ok_spec. right. unfold zeros. apply repeat_length.
    - apply marks_ok_spec. intros i _ E. rewrite nth_zeros in E. discriminate.
  Qed.

  (* marks that are right about the empty file are right about every file: there are none *)
  Lemma status_ok_nil_any : forall b d, status_ok c [] b = true -> status_ok c d b = true.
  Proof.
    intros b d H. unfold status_ok in *. apply andb_true_iff in H. destruct H as [S M].
    rewrite S. simpl. apply marks_ok_spec. intros i Hi E.
    rewrite marks_ok_spec in M. exfalso. apply (region_nil_neq_blob c Hpl i Hi). apply M; assumption.
  Qed.

  (* a write inside an unmarked piece keeps the status vector truthful *)
  Lemma status_ok_data_write : forall d b off x i,
    status_ok c d b = true -> i < npieces c -> nth i b 0%N <> 1%N ->
    poff c i <= off -> off + length x <= poff c i + plen c i ->
    status_ok c (pwrite d off x) b = true.
  Proof.
    intros d b off x i H Hi Hn H1 H2. unfold status_ok in *. apply andb_true_iff in H. destruct H as [S M].
    rewrite S. simpl. rewrite marks_ok_spec in *. intros j Hj E.
    assert (i <> j) by (intro; subst; contradiction).
    specialize (M j Hj E). rewrite <- M.
    pose proof (region_blob_length c Hpl j Hj) as L. rewrite <- M in L.
    destruct (region_full_length c d j L) as [F|F]; [|destruct (poff_plen_bound c Hpl j Hj); lia].
    apply (region_pwrite_other c Hpl d off x i j); assumption.
  Qed.

  (* marking a piece whose bytes are right keeps the status vector truthful *)
  Lemma status_ok_mark : forall d b i,
    status_ok c d b = true -> length b = npieces c -> i < npieces c ->
    region c d i = region c (c_blob c) i ->
    status_ok c d (upd i 1%N b) = true.
  Proof.
    intros d b i H L Hi R. unfold status_ok in *. apply andb_true_iff in H. destruct H as [S M].
    apply andb_true_iff. split.
    - apply shape_ok_spec. right. rewrite length_upd. exact L.
    - rewrite marks_ok_spec in *. intros j Hj E.
      destruct (Nat.eq_dec i j) as [->|N]; [exact R|].
      rewrite nth_upd_other in E by exact N. apply M; assumption.
  Qed.

  (* a fully marked truthful vector: the file is the blob *)
  Lemma all_marks_blob : forall d b,
    status_ok c d b = true -> length b = npieces c -> length d <= blen c ->
    (forall i, i < npieces c -> nth i b 0%N = 1%N) -> d = c_blob c.
  Proof.
    intros d b H L Ld A. unfold status_ok in H. apply andb_true_iff in H. destruct H as [_ M].
    rewrite marks_ok_spec in M. apply (all_pieces_blob c Hpl); [exact Ld|].
    intros i Hi. apply M; auto.
  Qed.

  Lemma DIb_spec : forall s, DIb c s = true <->
    (forall d, d_data (ca s) = Some d -> d = c_blob c) /\
    match d_data (dl s) with
    | Some d => length d <= blen c /\ (forall b, d_status (dl s) = Some b -> status_ok c d b = true)
    | None => d_data (ca s) = None -> forall b, d_status (dl s) = Some b -> status_ok c [] b = true
    end.
  Proof.
    intro s. unfold DIb. rewrite andb_true_iff. split.
    - intros [H1 H2]. split.
      + intros d E. rewrite E in H1. simpl in H1. apply bytes_eqb_eq. exact H1.
      + destruct (d_data (dl s)) as [d|].
        * apply andb_true_iff in H2. destruct H2 as [L S]. apply Nat.leb_le in L. split; [exact L|].
          intros b E. rewrite E in S. exact S.
        * intros E b Eb. rewrite E, Eb in H2. exact H2.
    - intros [H1 H2]. split.
      + destruct (d_data (ca s)) as [d|]; [|reflexivity]. simpl. apply bytes_eqb_eq. apply H1. reflexivity.
      + destruct (d_data (dl s)) as [d|].
        * destruct H2 as [L S]. apply andb_true_iff. split; [apply Nat.leb_le; exact L|].
          destruct (d_status (dl s)) as [b|]; [|reflexivity]. simpl. apply S. reflexivity.
        * destruct (d_data (ca s)) as [d|]; [reflexivity|].
          destruct (d_status (dl s)) as [b|]; [|reflexivity]. simpl. apply H2; reflexivity.
  Qed.

  (* ---- initialising / resetting the status vector: compareAndWriteFile of n zero bytes ---- *)
  Lemma caw_status_zeros : forall s d, DIb c s = true -> d_data (dl s) = Some d ->
    let cs := caw_calls s ADl FStatus (zeros (npieces c)) in
    all_DI c s cs = true /\
    core (apply_calls s cs) = (Some d, Some (zeros (npieces c)), d_data (ca s)).
  Proof.
    intros s d D Ed. pose proof D as D0. rewrite DIb_spec in D. destruct D as [Dc Dd]. rewrite Ed in Dd.
    destruct Dd as [Ld Ds].
    assert (DIset : forall s' b', core s' = (Some d, Some b', d_data (ca s)) -> status_ok c d b' = true -> DIb c s' = true).
    { intros s' b' Co Sb. unfold core in Co. inversion Co as [[C1 C2 C3]]. apply DIb_spec. split.
      - rewrite C3. exact Dc.
      - rewrite C1. split; [exact Ld|]. intros b E. rewrite C2 in E. inversion E; subst. exact Sb. }
    unfold caw_calls. cbv zeta. unfold file_at. simpl get_dir. simpl get_file.
    destruct (d_status (dl s)) as [cur|] eqn:Es.
    - destruct (bytes_eqb cur (zeros (npieces c))) eqn:Eq.
      + apply bytes_eqb_eq in Eq. subst cur. simpl. rewrite D0. split; [reflexivity|].
        unfold core. rewrite Ed, Es. reflexivity.
      + apply bytes_eqb_neq in Eq.
        pose proof (Ds cur eq_refl) as Sc. unfold status_ok in Sc. apply andb_true_iff in Sc. destruct Sc as [Sh _].
        apply shape_ok_spec in Sh.
        assert (Lz : length (zeros (npieces c)) = npieces c) by (unfold zeros; apply repeat_length).
        rewrite Lz.
        destruct (length cur =? npieces c) eqn:El.
        * apply Nat.eqb_eq in El. simpl app. unfold wr_calls.
          destruct (zeros (npieces c)) as [|z zs] eqn:Z.
          { (* n = 0 *) destruct cur; [contradiction Eq; reflexivity|]. simpl in El. rewrite <- Lz in El. discriminate El. }
          rewrite <- Z.
          assert (Co : core (apply_call s (CWrite ADl FStatus 0 (zeros (npieces c)))) = (Some d, Some (zeros (npieces c)), d_data (ca s))).
          { destruct s as [d1 d2]. unfold core. simpl in *. rewrite Ed, Es. simpl. rewrite pwrite_full by lia. reflexivity. }
          simpl. rewrite D0. rewrite (DIset _ _ Co (status_ok_zeros d)). split; [reflexivity|]. exact Co.
        * apply Nat.eqb_neq in El. destruct Sh as [Sh|Sh]; [|contradiction]. subst cur.
          assert (Co1 : core (apply_call s (CTrunc ADl FStatus (npieces c))) = (Some d, Some (zeros (npieces c)), d_data (ca s))).
          { destruct s as [d1 d2]. unfold core. simpl in *. rewrite Ed, Es. simpl. rewrite truncate_nil. reflexivity. }
          unfold wr_calls. destruct (zeros (npieces c)) as [|z zs] eqn:Z.
          { simpl in Lz. simpl in El. lia. }
          rewrite <- Z. simpl.
          rewrite D0. rewrite (DIset _ _ Co1 (status_ok_zeros d)). simpl.
          assert (Co2 : core (apply_call (apply_call s (CTrunc ADl FStatus (npieces c))) (CWrite ADl FStatus 0 (zeros (npieces c))))
                        = (Some d, Some (zeros (npieces c)), d_data (ca s))).
          { unfold core in Co1. inversion Co1 as [[C1 C2 C3]].
            destruct (apply_call s (CTrunc ADl FStatus (npieces c))) as [e1 e2]. unfold core. simpl in *.
            rewrite C1, C2. simpl. rewrite pwrite_full by (rewrite Lz; reflexivity). rewrite C3. reflexivity. }
          rewrite (DIset _ _ Co2 (status_ok_zeros d)). split; [reflexivity | exact Co2].
    - (* absent: mkdirs, create, write *)
      rewrite all_DI_app.
      rewrite (benign_calls_DI c _ s (mkdirs_benign s ADl) D0). simpl andb.
      set (s1 := apply_calls s (mkdirs_calls s ADl)).
      assert (Co0 : core s1 = core s) by (apply benign_calls_core; apply mkdirs_benign).
      unfold core in Co0. inversion Co0 as [[C1 C2 C3]]. rewrite Ed in C1. rewrite Es in C2.
      rewrite apply_calls_app. fold s1.
      assert (Co1 : core (apply_call s1 (COpen ADl FStatus)) = (Some d, Some [], d_data (ca s))).
      { destruct s1 as [e1 e2]. unfold core. simpl in *. rewrite C1, C3. reflexivity. }
      assert (D1 : DIb c s1 = true) by (rewrite (DIb_core c s1 s Co0); exact D0).
      unfold wr_calls. destruct (zeros (npieces c)) as [|z zs] eqn:Z.
      + simpl. rewrite D1. rewrite (DIset _ _ Co1 (status_ok_nil d)). split; [reflexivity | exact Co1].
      + rewrite <- Z. simpl. rewrite D1. rewrite (DIset _ _ Co1 (status_ok_nil d)). simpl.
        assert (Co2 : core (apply_call (apply_call s1 (COpen ADl FStatus)) (CWrite ADl FStatus 0 (zeros (npieces c))))
                      = (Some d, Some (zeros (npieces c)), d_data (ca s))).
        { unfold core in Co1. inversion Co1 as [[E1 E2 E3]].
          destruct (apply_call s1 (COpen ADl FStatus)) as [e1 e2]. unfold core. simpl in *.
          rewrite E1, E2. simpl. rewrite pwrite_nil_zero. rewrite E3. reflexivity. }
        rewrite (DIset _ _ Co2 (status_ok_zeros d)). split; [reflexivity | exact Co2].
  Qed.
End Inv.
