(* C04: the calls that change what the invariant reads (download data, status vector, rename),
   procedure by procedure *)
From Coq Require Import List NArith Bool Arith Lia.
From K.Model Require Import C04.
From K.Proof Require Import C04_base C04_inv.
Import ListNotations.

(* ---- small list facts ---- *)
Lemma length_upd : forall {A} i (v : A) l, length (upd i v l) = length l.
Proof. intros A i v l. revert i. induction l as [|x l IH]; intros [|i]; simpl; auto. Qed.

Lemma nth_upd_same : forall {A} i (v d : A) l, i < length l -> nth i (upd i v l) d = v.
Proof. intros A i v d l. revert i. induction l as [|x l IH]; intros [|i] H; simpl in *; try lia; auto. apply IH. lia. Qed.

Lemma nth_upd_other : forall {A} i j (v d : A) l, i <> j -> nth j (upd i v l) d = nth j l d.
Proof.
  intros A i j v d l. revert i j. induction l as [|x l IH]; intros [|i] [|j] H; simpl; auto; try lia.
Qed.

Lemma map_upd : forall {A B} (f : A -> B) i v l, map f (upd i v l) = upd i (f v) (map f l).
Proof. intros A B f i v l. revert i. induction l as [|x l IH]; intros [|i]; simpl; auto. rewrite IH. reflexivity. Qed.

Lemma pwrite_one : forall (b : bytes) i v, i < length b -> pwrite b i [v] = upd i v b.
Proof.
  intros b i v. revert i. induction b as [|x b IH]; intros [|i] H; simpl in *; try lia.
  - unfold pwrite. simpl. reflexivity.
  - unfold pwrite in *. simpl. f_equal. specialize (IH i ltac:(lia)). simpl in IH. exact IH.
Qed.

Lemma pwrite_full : forall (x d : bytes), length x = length d -> pwrite x 0 d = d.
Proof.
  intros x d H. unfold pwrite. simpl. rewrite skipn_all2 by lia. apply app_nil_r.
Qed.

Lemma pwrite_nil_zero : forall d, pwrite [] 0 d = d.
Proof. intro d. unfold pwrite. simpl. rewrite skipn_nil. apply app_nil_r. Qed.

Lemma nth_zeros : forall n i, nth i (zeros n) 0%N = 0%N.
Proof. intros n i. unfold zeros. destruct (Nat.lt_ge_cases i n); [apply nth_repeat | apply nth_overflow; rewrite repeat_length; lia]. Qed.

Lemma filter_len_le : forall {A} (p : A -> bool) l, length (filter p l) <= length l.
Proof. intros A p l. induction l as [|x l IH]; simpl; [lia|]. destruct (p x); simpl; lia. Qed.

Lemma count_true_all : forall l, count_true l = length l -> forall i, i < length l -> nth i l false = true.
Proof.
  unfold count_true. induction l as [|x l IH]; intros H i Hi; simpl in *; [lia|].
  destruct x; simpl in H.
  - destruct i; [reflexivity|]. apply IH; lia.
  - pose proof (filter_len_le (fun b : bool => b) l). lia.
Qed.

Lemma count_true_repeat : forall n, count_true (repeat true n) = n.
Proof. unfold count_true. induction n; simpl; auto. Qed.

Lemma deser_nth : forall b i, nth i (deser_status b) false = N.eqb (nth i b 0%N) 1.
Proof.
  intros b i. unfold deser_status.
  destruct (Nat.lt_ge_cases i (length b)).
  - rewrite (nth_indep _ false ((fun x : N => N.eqb x 1) 0%N)) by (rewrite map_length; lia).
    apply (map_nth (fun x : N => N.eqb x 1)).
  - rewrite !nth_overflow by (rewrite ?map_length; lia). reflexivity.
Qed.

Ltac red_tr := cbn [all_DI app apply_calls fold_left andb].

(* ---- the invariant, unfolded ---- *)
Section Inv.
  Variable c : cfg.
  Hypothesis Hwf : wf_cfg c = true.

  Lemma Hpl : 0 < c_pl c.
  Proof. unfold wf_cfg in Hwf. apply andb_true_iff in Hwf. destruct Hwf as [H _]. apply Nat.ltb_lt in H. exact H. Qed.

  Lemma status_ok_nil : forall d, status_ok c d [] = true.
  Proof.
    intro d. unfold status_ok, shape_ok, marks_ok. simpl. apply forallb_forall. intros i _.
    destruct i; reflexivity.
  Qed.

  Lemma marks_ok_spec : forall d b, marks_ok c d b = true <->
    (forall i, i < npieces c -> nth i b 0%N = 1%N -> region c d i = region c (c_blob c) i).
  Proof.
    intros d b. unfold marks_ok. rewrite forallb_forall. split.
    - intros H i Hi E. specialize (H i). rewrite in_seq in H. specialize (H ltac:(lia)).
      rewrite E in H. simpl in H. apply bytes_eqb_eq in H. exact H.
    - intros H i Hi. apply in_seq in Hi. destruct (N.eqb (nth i b 0%N) 1) eqn:E; [|reflexivity].
      simpl. apply N.eqb_eq in E. apply bytes_eqb_eq. apply H; [lia | exact E].
  Qed.

  Lemma shape_ok_spec : forall b, shape_ok c b = true <-> (b = [] \/ length b = npieces c).
  Proof.
    intro b. unfold shape_ok. destruct b as [|x b].
    - split; auto.
    - rewrite Nat.eqb_eq. split; [auto|]. intros [H|H]; [discriminate | exact H].
  Qed.

  Lemma status_ok_zeros : forall d, status_ok c d (zeros (npieces c)) = true.
  Proof.
    intro d. unfold status_ok. apply andb_true_iff. split.
    - apply shape_ok_spec. right. unfold zeros. apply repeat_length.
    - apply marks_ok_spec. intros i _ E. rewrite nth_zeros in E. discriminate.
  Qed.

  (* marks that are right about the empty file are right about every file: there are none *)
  Lemma status_ok_nil_any : forall b d, status_ok c [] b = true -> status_ok c d b = true.
  Proof.
    intros b d H. unfold status_ok in *. apply andb_true_iff in H. destruct H as [S M].
    rewrite S. simpl. apply marks_ok_spec. intros i Hi E.
    rewrite marks_ok_spec in M. exfalso. apply (region_nil_neq_blob c Hpl i Hi). apply M; assumption.
  Qed.

  (* a write inside an unmarked piece keeps the status vector truthful *)
  Lemma status_ok_data_write : forall d b off x i,
    status_ok c d b = true -> i < npieces c -> nth i b 0%N <> 1%N ->
    poff c i <= off -> off + length x <= poff c i + plen c i ->
    status_ok c (pwrite d off x) b = true.
  Proof.
    intros d b off x i H Hi Hn H1 H2. unfold status_ok in *. apply andb_true_iff in H. destruct H as [S M].
    rewrite S. simpl. rewrite marks_ok_spec in *. intros j Hj E.
    assert (i <> j) by (intro; subst; contradiction).
    specialize (M j Hj E). rewrite <- M.
    pose proof (region_blob_length c Hpl j Hj) as L. rewrite <- M in L.
    destruct (region_full_length c Hpl d j L) as [F|F]; [|destruct (poff_plen_bound c Hpl j Hj); lia].
    apply (region_pwrite_other c Hpl d off x i j); assumption.
  Qed.

  (* marking a piece whose bytes are right keeps the status vector truthful *)
  Lemma status_ok_mark : forall d b i,
    status_ok c d b = true -> length b = npieces c -> i < npieces c ->
    region c d i = region c (c_blob c) i ->
    status_ok c d (upd i 1%N b) = true.
  Proof.
    intros d b i H L Hi R. unfold status_ok in *. apply andb_true_iff in H. destruct H as [S M].
    apply andb_true_iff. split.
    - apply shape_ok_spec. right. rewrite length_upd. exact L.
    - rewrite marks_ok_spec in *. intros j Hj E.
      destruct (Nat.eq_dec i j) as [->|N]; [exact R|].
      rewrite nth_upd_other in E by exact N. apply M; assumption.
  Qed.

  (* a fully marked truthful vector: the file is the blob *)
  Lemma all_marks_blob : forall d b,
    status_ok c d b = true -> length b = npieces c -> length d <= blen c ->
    (forall i, i < npieces c -> nth i b 0%N = 1%N) -> d = c_blob c.
  Proof.
    intros d b H L Ld A. unfold status_ok in H. apply andb_true_iff in H. destruct H as [_ M].
    rewrite marks_ok_spec in M. apply (all_pieces_blob c Hpl); [exact Ld|].
    intros i Hi. apply M; auto.
  Qed.

  Lemma DIb_spec : forall s, DIb c s = true <->
    (forall d, d_data (ca s) = Some d -> d = c_blob c) /\
    match d_data (dl s) with
    | Some d => length d <= blen c /\ (forall b, d_status (dl s) = Some b -> status_ok c d b = true)
    | None => d_data (ca s) = None -> forall b, d_status (dl s) = Some b -> status_ok c [] b = true
    end.
  Proof.
    intro s. unfold DIb. rewrite andb_true_iff. split.
    - intros [H1 H2]. split.
      + intros d E. rewrite E in H1. simpl in H1. apply bytes_eqb_eq. exact H1.
      + destruct (d_data (dl s)) as [d|].
        * apply andb_true_iff in H2. destruct H2 as [L S]. apply Nat.leb_le in L. split; [exact L|].
          intros b E. rewrite E in S. exact S.
        * intros E b Eb. rewrite E, Eb in H2. exact H2.
    - intros [H1 H2]. split.
      + destruct (d_data (ca s)) as [d|]; [|reflexivity]. simpl. apply bytes_eqb_eq. apply H1. reflexivity.
      + destruct (d_data (dl s)) as [d|].
        * destruct H2 as [L S]. apply andb_true_iff. split; [apply Nat.leb_le; exact L|].
          destruct (d_status (dl s)) as [b|]; [|reflexivity]. simpl. apply S. reflexivity.
        * destruct (d_data (ca s)) as [d|]; [reflexivity|].
          destruct (d_status (dl s)) as [b|]; [|reflexivity]. simpl. apply H2; reflexivity.
  Qed.

  (* ---- what the invariant gives at the two points where the agent decides ---- *)

  (* "serves": a cache file on a disk satisfying the invariant is the blob *)
  Lemma cache_is_blob : forall s d, DIb c s = true -> d_data (ca s) = Some d -> d = c_blob c.
  Proof. intros s d D E. apply DIb_spec in D. destruct D as [D _]. apply D. exact E. Qed.

  (* "reports complete": NewTorrent (torrent.go:68) commits when every entry of the restored status
     vector is complete; with the length check of the fix the vector has one entry per piece, and
     then the download file it renames into the cache is the blob *)
  Lemma commit_only_blob : forall s d b,
    DIb c s = true -> d_data (dl s) = Some d -> d_status (dl s) = Some b ->
    length b = npieces c ->
    count_true (deser_status b) = length (deser_status b) ->
    d = c_blob c.
  Proof.
    intros s d b D Ed Eb L A. apply DIb_spec in D. destruct D as [_ D]. rewrite Ed in D. destruct D as [Ld S].
    apply (all_marks_blob d b (S b Eb) L Ld).
    intros i Hi. pose proof (count_true_all _ A i) as T.
    unfold deser_status in T at 1. rewrite map_length in T. specialize (T ltac:(lia)).
    rewrite deser_nth in T. apply N.eqb_eq in T. exact T.
  Qed.

  (* the pieces a recovered torrent would serve: marked on disk => the blob's bytes *)
  Lemma marked_piece_is_blob : forall s d b i,
    DIb c s = true -> d_data (dl s) = Some d -> d_status (dl s) = Some b ->
    i < npieces c -> nth i (deser_status b) false = true ->
    region c d i = region c (c_blob c) i.
  Proof.
    intros s d b i D Ed Eb Hi T. apply DIb_spec in D. destruct D as [_ D]. rewrite Ed in D. destruct D as [_ S].
    specialize (S b Eb). unfold status_ok in S. apply andb_true_iff in S. destruct S as [_ M].
    rewrite marks_ok_spec in M. apply M; [exact Hi|]. rewrite deser_nth in T. apply N.eqb_eq in T. exact T.
  Qed.

  (* one data write inside a piece the status vector does not mark keeps the invariant
     (status byte is written only after the data: torrent.go:189 before :196) *)
  Lemma data_write_keeps_DI : forall s d b off x i,
    DIb c s = true -> d_data (dl s) = Some d -> d_status (dl s) = Some b ->
    i < npieces c -> nth i b 0%N <> 1%N ->
    poff c i <= off -> off + length x <= poff c i + plen c i ->
    DIb c (apply_call s (CWrite ADl FData off x)) = true.
  Proof.
    intros s d b off x i D Ed Eb Hi Hn H1 H2. pose proof D as D0. apply DIb_spec in D. destruct D as [Dc D].
    rewrite Ed in D. destruct D as [Ld S].
    destruct (poff_plen_bound c Hpl i Hi) as [_ [B _]].
    apply DIb_spec. destruct s as [d1 d2]. simpl in *. rewrite Ed. simpl. split; [exact Dc|].
    split.
    - rewrite length_pwrite. lia.
    - intros b' E. rewrite Eb in E. inversion E; subst b'.
      apply (status_ok_data_write d b off x i); auto.
  Qed.

  (* marking piece i once its bytes are the blob's keeps the invariant *)
  Lemma mark_keeps_DI : forall s d b i,
    DIb c s = true -> d_data (dl s) = Some d -> d_status (dl s) = Some b ->
    length b = npieces c -> i < npieces c -> region c d i = region c (c_blob c) i ->
    DIb c (apply_call s (CWrite ADl FStatus i [1%N])) = true.
  Proof.
    intros s d b i D Ed Eb L Hi R. apply DIb_spec in D. destruct D as [Dc D].
    rewrite Ed in D. destruct D as [Ld S].
    apply DIb_spec. destruct s as [d1 d2]. simpl in *. rewrite Eb. simpl. rewrite Ed. split; [exact Dc|].
    split; [exact Ld|]. intros b' E. inversion E; subst b'.
    rewrite pwrite_one by lia. apply status_ok_mark; auto.
  Qed.

  (* the commit point: renaming a download file that is the blob keeps the invariant *)
  Lemma rename_keeps_DI : forall s,
    DIb c s = true -> d_data (dl s) = Some (c_blob c) -> DIb c (apply_call s CRename) = true.
  Proof.
    intros s D Ed. apply DIb_spec. destruct s as [d1 d2]. simpl in *. rewrite Ed. simpl.
    split; [intros d E; inversion E; reflexivity | intro E; discriminate E].
  Qed.
End Inv.
