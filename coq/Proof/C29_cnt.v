(* Proofs for C29, part 4: the number of requests executing or releasing their worker equals the
   number of workers taken, hence never exceeds NumWorkers. *)
From Coq Require Import List NArith Bool Lia.
From K.Model Require Import C29.
From K.Proof Require Import C29 C29_rc.
Import ListNotations.
Local Open Scope N_scope.

Definition cnt (thr : N -> rpc) (l : list N) : nat := length (filter (fun c => occupying (thr c)) l).

Lemma inflight_cnt : forall s, inflight s = N.of_nat (cnt (r_thr s) (r_tids s)).
Proof. reflexivity. Qed.

Definition b2n (b : bool) : nat := if b then 1%nat else 0%nat.

Lemma cnt_upd_notin : forall thr c p l, ~ In c l -> cnt (upd thr c p) l = cnt thr l.
Proof.
  intros thr c p l. induction l as [| x l IH]; intro H; [ reflexivity | ].
  unfold cnt in *. simpl. rewrite upd_other by (intro; subst; apply H; now left).
  destruct (occupying (thr x)); simpl; rewrite IH; auto; intro; apply H; now right.
Qed.

Lemma cnt_upd_in : forall thr c p l, NoDup l -> In c l ->
  (cnt (upd thr c p) l + b2n (occupying (thr c)) = cnt thr l + b2n (occupying p))%nat.
Proof.
  intros thr c p l N. induction N as [| x l Hx N IH]; intro H; [ contradiction | ].
  unfold cnt in *. simpl. destruct H as [-> | H].
  - rewrite upd_same. pose proof (cnt_upd_notin thr c p l Hx) as E. unfold cnt in E.
    destruct (occupying p), (occupying (thr c)); simpl; rewrite E; lia.
  - rewrite upd_other by (intro; subst; contradiction).
    specialize (IH H). destruct (occupying (thr x)); simpl; lia.
Qed.

Record cinv (s : rst) : Prop := mkCinv {
  n_nodup : NoDup (r_tids s);
  n_in : forall c, r_thr s c <> RIdle -> In c (r_tids s);
  n_cnt : inflight s = r_used s
}.

Lemma add_tid_nodup : forall c l, NoDup l -> NoDup (add_tid c l).
Proof.
  intros c l N. unfold add_tid. destruct (existsb (N.eqb c) l) eqn:E; auto.
  constructor; auto. intro H. assert (existsb (N.eqb c) l = true) as Hx.
  { apply existsb_exists. exists c. split; auto. apply N.eqb_refl. }
  congruence.
Qed.

(* a Start moves c between pcs that do not hold a worker *)
Lemma cnt_start : forall thr c p l, NoDup l -> occupying (thr c) = false -> occupying p = false ->
  cnt (upd thr c p) (add_tid c l) = cnt thr l.
Proof.
  intros thr c p l N H1 H2. unfold add_tid. destruct (existsb (N.eqb c) l) eqn:E.
  - apply existsb_exists in E as (y & Hy & Hc). apply N.eqb_eq in Hc. subst y.
    pose proof (cnt_upd_in thr c p l N Hy) as H. rewrite H1, H2 in H. simpl in H. lia.
  - assert (~ In c l) as Hn.
    { intro H. assert (existsb (N.eqb c) l = true) as Hx.
      { apply existsb_exists. exists c. split; auto. apply N.eqb_refl. }
      congruence. }
    unfold cnt. simpl. rewrite upd_same, H2. apply (cnt_upd_notin thr c p l Hn).
Qed.

Lemma cinit : cinv rinit.
Proof.
  constructor; unfold rinit, inflight; simpl.
  - constructor.
  - intros c H. congruence.
  - reflexivity.
Qed.

Lemma cstep : forall cf s l, cinv s -> cinv (rstep cf s l).
Proof.
  intros cf s l [Nd Hin Hc]. rewrite inflight_cnt in Hc.
  assert (Hmove : forall c p, r_thr s c <> RIdle ->
            (cnt (upd (r_thr s) c p) (r_tids s) + b2n (occupying (r_thr s c))
             = cnt (r_thr s) (r_tids s) + b2n (occupying p))%nat)
    by (intros c p H; apply cnt_upd_in; auto).
  assert (Hin' : forall c p x, r_thr s c <> RIdle -> upd (r_thr s) c p x <> RIdle -> In x (r_tids s)).
  { intros c p x H Hx. ue x c; auto. }
  destruct l as [dt | c k | c | c | c | c res | c]; simpl.
  - constructor; auto.
  - destruct (startable (r_thr s c)) eqn:St; [ | constructor; auto ].
    assert (occupying (r_thr s c) = false) as Ho by (destruct (r_thr s c); simpl in *; auto; discriminate).
    destruct (rclean cf s) as [errs last].
    assert (Hgen : forall p pend, occupying p = false ->
              cinv (mkR (r_now s) pend errs last (r_used s) (upd (r_thr s) c p) (add_tid c (r_tids s)))).
    { intros p pend Hp. constructor; simpl.
      - now apply add_tid_nodup.
      - intros x Hx. apply in_add_tid. ue x c; auto.
      - rewrite inflight_cnt. simpl. rewrite cnt_start; auto. }
    destruct (r_pend s k); [ now apply Hgen | ].
    destruct (errs k) as [[e exp] |]; [ destruct (cexpired (r_now s) exp) | ]; now apply Hgen.
  - destruct (r_thr s c) eqn:T; try (constructor; auto; fail).
    assert (r_thr s c <> RIdle) as Hc0 by congruence.
    constructor; simpl; eauto. rewrite inflight_cnt. simpl.
    pose proof (Hmove c (RArmed k (r_now s + c_busy cf)) Hc0) as H. rewrite T in H. simpl in H. lia.
  - destruct (r_thr s c) eqn:T; try (constructor; auto; fail).
    destruct (r_used s <? c_workers cf); [ | constructor; auto ].
    assert (r_thr s c <> RIdle) as Hc0 by congruence.
    constructor; simpl; eauto. rewrite inflight_cnt. simpl.
    pose proof (Hmove c (RRunning k) Hc0) as H. rewrite T in H. simpl in H. lia.
  - destruct (r_thr s c) eqn:T; try (constructor; auto; fail).
    destruct (d <=? r_now s); [ | constructor; auto ].
    assert (r_thr s c <> RIdle) as Hc0 by congruence.
    constructor; simpl; eauto. rewrite inflight_cnt. simpl.
    pose proof (Hmove c (RRet RBusy) Hc0) as H. rewrite T in H. simpl in H. lia.
  - destruct (r_thr s c) eqn:T; try (constructor; auto; fail).
    assert (r_thr s c <> RIdle) as Hc0 by congruence.
    constructor; simpl; eauto. rewrite inflight_cnt. simpl.
    pose proof (Hmove c (RReleasing k) Hc0) as H. rewrite T in H. simpl in H. lia.
  - destruct (r_thr s c) eqn:T; try (constructor; auto; fail).
    assert (r_thr s c <> RIdle) as Hc0 by congruence.
    constructor; simpl; eauto. rewrite inflight_cnt. simpl.
    pose proof (Hmove c RIdle Hc0) as H. rewrite T in H. simpl in H. lia.
Qed.

Lemma crun : forall cf ls, cinv (rrun cf rinit ls).
Proof.
  intros. unfold rrun. apply fold_left_inv with (P := cinv); [ | apply cinit ].
  intros. now apply cstep.
Qed.

(* the requests holding a worker are exactly as many as workers taken, and at most NumWorkers *)
Theorem rc_inflight_bounded : forall cf ls,
  let s := rrun cf rinit ls in
  inflight s = r_used s /\ inflight s <= c_workers cf.
Proof.
  intros cf ls s. pose proof (n_cnt s (crun cf ls)) as H. split; auto.
  rewrite H. apply rc_workers_bounded.
Qed.

(* every executing thread is counted *)
Lemma running_counted : forall cf ls c k,
  let s := rrun cf rinit ls in
  r_thr s c = RRunning k -> In c (r_tids s) /\ occupying (r_thr s c) = true.
Proof.
  intros cf ls c k s H. split; [ apply (n_in s (crun cf ls)); congruence | now rewrite H ].
Qed.
