(* Proofs for C29, part 1: IntervalTrap and Limiter. *)
From Coq Require Import List NArith Bool Lia FinFun.
From K.Model Require Import C29.
Import ListNotations.
Local Open Scope N_scope.

Lemma upd_same : forall (A : Type) (f : N -> A) k v, upd f k v k = v.
Proof. intros. unfold upd. now rewrite N.eqb_refl. Qed.
Lemma upd_other : forall (A : Type) (f : N -> A) k v x, x <> k -> upd f k v x = f x.
Proof. intros. unfold upd. destruct (N.eqb_spec x k); congruence. Qed.

Ltac updsplit :=
  repeat match goal with
  | H : context [upd _ ?k _ ?x] |- _ =>
      destruct (N.eq_dec x k) as [? | ?];
      [ subst; rewrite ?upd_same in * | rewrite ?(upd_other _ _ k _ x) in * by assumption ]
  | |- context [upd _ ?k _ ?x] =>
      destruct (N.eq_dec x k) as [? | ?];
      [ subst; rewrite ?upd_same in * | rewrite ?(upd_other _ _ k _ x) in * by assumption ]
  end.

Lemma fold_left_inv : forall (S L : Type) (step : S -> L -> S) (P : S -> Prop),
  (forall s l, P s -> P (step s l)) -> forall ls s, P s -> P (fold_left step ls s).
Proof. intros S L step P H ls. induction ls; simpl; auto. Qed.

(* ====================================================================================== *)
(* IntervalTrap                                                                           *)
(* ====================================================================================== *)

Definition tinv (iv t0 : N) (s : tst) : Prop :=
  t0 <= tr_prev s /\ tr_prev s <= tr_now s /\
  (forall a, In a (tr_runs s) -> a <= tr_prev s /\ t0 + iv < a) /\
  gaps iv (tr_runs s) = true.

Lemma tinit_inv : forall iv t0, tinv iv t0 (tinit t0).
Proof. intros. unfold tinv, tinit; simpl. repeat split; try lia; intros a []. Qed.

Lemma tstep_inv : forall iv t0 s l, tinv iv t0 s -> tinv iv t0 (tstep iv s l).
Proof.
  intros iv t0 s l (H0 & H1 & H2 & H3). destruct l as [dt | c | c dt]; simpl.
  - unfold tinv; simpl. repeat split; auto; try lia; apply H2; auto.
  - destruct (tr_thr s c); [ destruct (tready iv (tr_now s) (tr_prev s)) | ];
      unfold tinv; simpl; repeat split; auto; apply H2; auto.
  - destruct (tr_thr s c); [ unfold tinv; repeat split; auto; apply H2; auto | ].
    destruct (tready iv (tr_now s) (tr_prev s)) eqn:R.
    + unfold tready in R. apply N.ltb_lt in R. unfold tinv; simpl. repeat split; try lia.
      * destruct H as [<- | H]; [ lia | apply H2 in H; lia ].
      * destruct H as [<- | H]; [ lia | apply H2 in H; lia ].
      * destruct (tr_runs s) as [| b r] eqn:E; auto.
        rewrite H3, andb_true_r. apply N.ltb_lt.
        assert (In b (b :: r)) as Hb by (left; auto). apply H2 in Hb. lia.
    + unfold tinv; simpl. repeat split; auto; apply H2; auto.
Qed.

Lemma trun_inv : forall iv t0 ls, tinv iv t0 (trun iv (tinit t0) ls).
Proof.
  intros. unfold trun. apply fold_left_inv with (P := tinv iv t0);
    [ intros; now apply tstep_inv | apply tinit_inv ].
Qed.

(* C29_trap_once_per_interval *)
Theorem trap_once_per_interval : forall iv t0 ls, gaps iv (tr_runs (trun iv (tinit t0) ls)) = true.
Proof. intros. apply (trun_inv iv t0 ls). Qed.

Lemma gaps_spec : forall iv l, gaps iv l = true ->
  forall i j, (i < j)%nat -> (j < length l)%nat -> nth j l 0 + iv < nth i l 0.
Proof.
  induction l as [| a l IH]; simpl; intros G i j Hij Hj; [ lia | ].
  destruct l as [| b r].
  - simpl in Hj. lia.
  - apply andb_true_iff in G as [G1 G2]. apply N.ltb_lt in G1.
    destruct j as [| j]; [ lia | ]. destruct i as [| i].
    + destruct j as [| j]; [ simpl; lia | ].
      assert (nth (S j) (b :: r) 0 + iv < nth 0%nat (b :: r) 0) as Hx
        by (apply IH; auto; simpl in *; lia).
      simpl in Hx |- *. lia.
    + change (nth (S j) (a :: b :: r) 0) with (nth j (b :: r) 0).
      change (nth (S i) (a :: b :: r) 0) with (nth i (b :: r) 0).
      apply IH; auto; simpl in *; lia.
Qed.

(* any two runs are more than one interval apart, and none happens within one interval of
   the trap's creation *)
Theorem trap_runs_apart : forall iv t0 ls i j,
  let runs := tr_runs (trun iv (tinit t0) ls) in
  (i < j)%nat -> (j < length runs)%nat ->
  nth j runs 0 + iv < nth i runs 0 /\ t0 + iv < nth j runs 0.
Proof.
  intros iv t0 ls i j runs Hij Hj. split.
  - apply gaps_spec; auto. apply trap_once_per_interval.
  - destruct (trun_inv iv t0 ls) as (_ & _ & H2 & _). apply H2. apply nth_In. exact Hj.
Qed.

(* ====================================================================================== *)
(* Limiter                                                                                *)
(* ====================================================================================== *)

Record linv (s : lst) : Prop := mkLinv {
  j_map : forall k tid, l_map s k = Some tid ->
            tid < l_next s /\ t_key (l_heap s tid) = k /\ t_del (l_heap s tid) = false;
  j_live : forall tid, tid < l_next s -> t_del (l_heap s tid) = false ->
            l_map s (t_key (l_heap s tid)) = Some tid;
  j_run : forall tid, t_run (l_heap s tid) = true ->
            tid < l_next s /\ t_del (l_heap s tid) = false /\ expired (l_now s) (l_heap s tid) = true;
  j_thr_run : forall c k tid, l_thr s c = LRunning k tid ->
            t_run (l_heap s tid) = true /\ t_key (l_heap s tid) = k;
  j_uniq : forall c1 c2 k1 k2 tid, l_thr s c1 = LRunning k1 tid -> l_thr s c2 = LRunning k2 tid -> c1 = c2;
  j_held : forall c k tid, l_thr s c = LHeld k tid -> tid < l_next s /\ t_key (l_heap s tid) = k;
  j_tids : forall c, l_thr s c <> LIdle -> In c (l_tids s)
}.

(* every thread between lookup and task lock holds a task that is still in the map *)
Definition held_live (s : lst) : Prop :=
  forall c k tid, l_thr s c = LHeld k tid -> t_del (l_heap s tid) = false.

Lemma linit_inv : linv linit.
Proof. constructor; unfold linit; simpl; intros; try discriminate; congruence. Qed.

Lemma linit_held_live : held_live linit.
Proof. unfold held_live, linit; simpl; intros; discriminate. Qed.

Lemma in_add_tid : forall c x l, In x (add_tid c l) <-> x = c \/ In x l.
Proof.
  intros. unfold add_tid. destruct (existsb (N.eqb c) l) eqn:E; simpl.
  - split; auto. intros [-> | H]; auto. apply existsb_exists in E as (y & Hy & Hc).
    apply N.eqb_eq in Hc. now subst.
  - split; intros [H | H]; auto.
Qed.

Lemma expired_mono : forall now dt t, expired now t = true -> expired (now + dt) t = true.
Proof.
  unfold expired. intros now dt t. destruct (t_exp t); auto.
  intro H. apply N.ltb_lt in H. apply N.ltb_lt. lia.
Qed.

Lemma wake_running : forall tid p k t, wake tid p = LRunning k t -> p = LRunning k t.
Proof. intros tid p k t. destruct p; simpl; try congruence. destruct (N.eqb _ _); congruence. Qed.
Lemma wake_held : forall tid p k t, wake tid p = LHeld k t -> p = LHeld k t.
Proof. intros tid p k t. destruct p; simpl; try congruence. destruct (N.eqb _ _); congruence. Qed.
Lemma wake_idle : forall tid p, wake tid p = LIdle -> p = LIdle.
Proof. intros tid p. destruct p; simpl; try congruence. destruct (N.eqb _ _); congruence. Qed.

(* ---- steps that only move one thread to a pc that is neither Running nor Idle ---- *)
Lemma set_thr_inv : forall s c p,
  linv s -> l_thr s c <> LIdle ->
  (forall k t, p <> LRunning k t) -> p <> LIdle ->
  (forall k t, p = LHeld k t -> t < l_next s /\ t_key (l_heap s t) = k) ->
  linv (set_thr s c p).
Proof.
  intros s c p I Hc Hr Hi Hh. destruct I. constructor; unfold set_thr; simpl; auto.
  - intros c0 k tid H. updsplit; [ now apply Hr in H | eauto ].
  - intros c1 c2 k1 k2 tid H1 H2. updsplit; try (now apply Hr in H1); try (now apply Hr in H2); eauto.
  - intros c0 k tid H. updsplit; eauto.
  - intros c0 H. updsplit; auto.
Qed.

Lemma set_thr_held_live : forall s c p,
  held_live s -> (forall k t, p = LHeld k t -> t_del (l_heap s t) = false) ->
  held_live (set_thr s c p).
Proof.
  unfold held_live, set_thr; simpl. intros s c p H Hp c0 k tid E. updsplit; eauto.
Qed.

Lemma ltick_inv : forall s dt, linv s ->
  linv (mkL (l_now s + dt) (l_prev s) (l_next s) (l_heap s) (l_map s) (l_thr s) (l_tids s)).
Proof.
  intros s dt I. destruct I. constructor; simpl; auto.
  intros tid H. apply j_run0 in H as (H1 & H2 & H3). repeat split; auto. now apply expired_mono.
Qed.

Lemma lcall_inv : forall s c k, linv s -> callable (l_thr s c) = true ->
  linv (mkL (l_now s) (l_prev s) (l_next s) (l_heap s) (l_map s) (upd (l_thr s) c (LStart k))
            (add_tid c (l_tids s))).
Proof.
  intros s c k I Hc. destruct I. constructor; simpl; auto.
  - intros c0 k0 tid H. updsplit; [ discriminate | eauto ].
  - intros c1 c2 k1 k2 tid H1 H2. updsplit; try discriminate; eauto.
  - intros c0 k0 tid H. updsplit; [ discriminate | eauto ].
  - intros c0 H. apply in_add_tid. updsplit; auto.
Qed.

(* ---- the collector ---- *)
Lemma gc_hit_mapped : forall s k tid, linv s -> l_map s k = Some tid ->
  gc_hit s tid = gcable (l_now s) (l_heap s tid).
Proof.
  intros s k tid I H. unfold gc_hit. destruct (j_map s I k tid H) as (_ & Hk & _).
  rewrite Hk, H, N.eqb_refl. reflexivity.
Qed.

Lemma lgc_inv : forall s c k, linv s -> l_thr s c = LTrapReady k ->
  linv (mkL (l_now s) (l_now s) (l_next s) (gc_heap s) (gc_map s) (upd (l_thr s) c (LLookup k)) (l_tids s)).
Proof.
  intros s c k I Hc.
  assert (Hkey : forall tid, t_key (gc_heap s tid) = t_key (l_heap s tid))
    by (intro; unfold gc_heap; destruct (gc_hit s tid); reflexivity).
  assert (Hrun : forall tid, t_run (gc_heap s tid) = t_run (l_heap s tid))
    by (intro; unfold gc_heap; destruct (gc_hit s tid); reflexivity).
  assert (Hexp : forall tid, expired (l_now s) (gc_heap s tid) = expired (l_now s) (l_heap s tid))
    by (intro; unfold gc_heap; destruct (gc_hit s tid); reflexivity).
  assert (Hdel : forall tid, t_del (gc_heap s tid) = false ->
                 t_del (l_heap s tid) = false /\ gc_hit s tid = false).
  { intros tid. unfold gc_heap. destruct (gc_hit s tid); simpl; intro H; [ discriminate | auto ]. }
  constructor; simpl.
  - intros k0 tid H. unfold gc_map in H. destruct (l_map s k0) as [t |] eqn:M; [ | discriminate ].
    destruct (gcable (l_now s) (l_heap s t)) eqn:G; inversion H; subst.
    destruct (j_map s I _ _ M) as (H1 & H2 & H3). rewrite Hkey. repeat split; auto.
    unfold gc_heap. rewrite (gc_hit_mapped s k0 tid I M), G. exact H3.
  - intros tid Hn Hd. apply Hdel in Hd as (Hd & Hg). rewrite Hkey.
    pose proof (j_live s I tid Hn Hd) as M. unfold gc_map. rewrite M.
    rewrite (gc_hit_mapped s _ tid I M) in Hg. now rewrite Hg.
  - intros tid H. rewrite Hrun in H. destruct (j_run s I tid H) as (H1 & H2 & H3).
    rewrite Hexp. repeat split; auto. unfold gc_heap.
    assert (gc_hit s tid = false) as ->; auto.
    unfold gc_hit. destruct (l_map s (t_key (l_heap s tid))); auto.
    unfold gcable. rewrite H. simpl. now rewrite !andb_false_r.
  - intros c0 k0 tid H. rewrite Hrun, Hkey. updsplit; [ discriminate | eapply j_thr_run; eauto ].
  - intros c1 c2 k1 k2 tid H1 H2. updsplit; try discriminate. eapply j_uniq; eauto.
  - intros c0 k0 tid H. rewrite Hkey. updsplit; [ discriminate | eapply j_held; eauto ].
  - intros c0 H. updsplit; [ apply (j_tids s I); congruence | now apply (j_tids s I) ].
Qed.


Ltac ue x k := destruct (N.eq_dec x k) as [-> | ?];
  [ rewrite ?upd_same in * | rewrite ?(upd_other _ _ k _ x) in * by assumption ].

Lemma lins_inv : forall s c k, linv s -> l_thr s c = LMiss k -> l_map s k = None ->
  linv (mkL (l_now s) (l_prev s) (l_next s + 1) (upd (l_heap s) (l_next s) (task_new k))
            (upd (l_map s) k (Some (l_next s))) (upd (l_thr s) c (LHeld k (l_next s))) (l_tids s)).
Proof.
  intros s c k I Hc Hm. constructor; simpl.
  - intros k0 tid H. ue k0 k.
    + inversion H; subst. rewrite upd_same. simpl. repeat split; auto; lia.
    + destruct (j_map s I _ _ H) as (H1 & H2 & H3).
      rewrite upd_other by lia. repeat split; auto; lia.
  - intros tid Hn Hd. ue tid (l_next s).
    + reflexivity.
    + assert (tid < l_next s) as Hlt by lia. pose proof (j_live s I tid Hlt Hd) as M.
      rewrite upd_other; auto. congruence.
  - intros tid H. ue tid (l_next s).
    + discriminate.
    + destruct (j_run s I tid H) as (H1 & H2 & H3). repeat split; auto; lia.
  - intros c0 k0 tid H. ue c0 c; [ discriminate | ].
    destruct (j_thr_run s I _ _ _ H) as (H1 & H2). destruct (j_run s I _ H1) as (H3 & _).
    rewrite upd_other by lia. auto.
  - intros c1 c2 k1 k2 tid H1 H2. ue c1 c; [ discriminate | ]. ue c2 c; [ discriminate | ].
    eapply j_uniq; eauto.
  - intros c0 k0 tid H. ue c0 c.
    + inversion H; subst. rewrite upd_same. simpl. split; auto; lia.
    + destruct (j_held s I _ _ _ H). rewrite upd_other by lia. split; auto; lia.
  - intros c0 H. ue c0 c; [ apply (j_tids s I); congruence | now apply (j_tids s I) ].
Qed.

Lemma ldecide_run_inv : forall s c k tid, linv s -> l_thr s c = LHeld k tid ->
  t_del (l_heap s tid) = false -> expired (l_now s) (l_heap s tid) = true ->
  t_run (l_heap s tid) = false ->
  linv (mkL (l_now s) (l_prev s) (l_next s) (upd (l_heap s) tid (set_run (l_heap s tid) true))
            (l_map s) (upd (l_thr s) c (LRunning k tid)) (l_tids s)).
Proof.
  intros s c k tid I Hc Hd He Hr. destruct (j_held s I _ _ _ Hc) as (Hlt & Hk).
  constructor; simpl.
  - intros k0 t H. destruct (j_map s I _ _ H) as (H1 & H2 & H3). ue t tid; simpl; auto.
  - intros t Hn. ue t tid; simpl; intro H; now apply (j_live s I).
  - intros t. ue t tid; simpl; intro H; [ repeat split; auto | now apply (j_run s I) ].
  - intros c0 k0 t H. ue c0 c.
    + inversion H; subst. rewrite upd_same. simpl. auto.
    + destruct (j_thr_run s I _ _ _ H) as (H1 & H2). ue t tid; simpl; auto.
  - intros c1 c2 k1 k2 t H1 H2. ue c1 c; ue c2 c; auto.
    + inversion H1; subst. destruct (j_thr_run s I _ _ _ H2) as (H3 & _). congruence.
    + inversion H2; subst. destruct (j_thr_run s I _ _ _ H1) as (H3 & _). congruence.
    + eapply j_uniq; eauto.
  - intros c0 k0 t H. ue c0 c; [ discriminate | ].
    destruct (j_held s I _ _ _ H). ue t tid; simpl; auto.
  - intros c0 H. ue c0 c; [ apply (j_tids s I); congruence | now apply (j_tids s I) ].
Qed.

Lemma lend_inv : forall s c k tid out e, linv s -> l_thr s c = LRunning k tid ->
  linv (mkL (l_now s) (l_prev s) (l_next s) (upd (l_heap s) tid (set_res (l_heap s tid) out e))
            (l_map s) (upd (l_thr s) c (LBcast k tid out)) (l_tids s)).
Proof.
  intros s c k tid out e I Hc. constructor; simpl.
  - intros k0 t H. destruct (j_map s I _ _ H) as (H1 & H2 & H3). ue t tid; simpl; auto.
  - intros t Hn. ue t tid; simpl; intro H; now apply (j_live s I).
  - intros t. ue t tid; simpl; intro H; [ discriminate | now apply (j_run s I) ].
  - intros c0 k0 t H. ue c0 c; [ discriminate | ].
    destruct (j_thr_run s I _ _ _ H) as (H1 & H2). ue t tid; simpl; auto.
    exfalso. apply n. eapply j_uniq; eauto.
  - intros c1 c2 k1 k2 t H1 H2. ue c1 c; [ discriminate | ]. ue c2 c; [ discriminate | ].
    eapply j_uniq; eauto.
  - intros c0 k0 t H. ue c0 c; [ discriminate | ].
    destruct (j_held s I _ _ _ H). ue t tid; simpl; auto.
  - intros c0 H. ue c0 c; [ apply (j_tids s I); congruence | now apply (j_tids s I) ].
Qed.

Lemma lbcast_inv : forall s c k tid out, linv s -> l_thr s c = LBcast k tid out ->
  linv (mkL (l_now s) (l_prev s) (l_next s) (l_heap s) (l_map s)
            (upd (fun w => wake tid (l_thr s w)) c (LDone out)) (l_tids s)).
Proof.
  intros s c k tid out I Hc. constructor; simpl.
  - apply (j_map s I).
  - apply (j_live s I).
  - apply (j_run s I).
  - intros c0 k0 t H. ue c0 c; [ discriminate | apply wake_running in H; eapply j_thr_run; eauto ].
  - intros c1 c2 k1 k2 t H1 H2. ue c1 c; [ discriminate | ]. ue c2 c; [ discriminate | ].
    apply wake_running in H1, H2. eapply j_uniq; eauto.
  - intros c0 k0 t H. ue c0 c; [ discriminate | apply wake_held in H; eapply j_held; eauto ].
  - intros c0 H. ue c0 c; [ apply (j_tids s I); congruence | ].
    apply (j_tids s I). intro E. apply H. now rewrite E.
Qed.

(* ---- one step preserves the invariant: always for the patched code, and for the code as found
        when the step is not a collection inside some caller's lookup/lock window ---- *)
Lemma lstep_inv : forall fx iv s l,
  linv s -> (fx = true \/ held_live s) -> linv (lstep fx iv s l).
Proof.
  intros fx iv s l I Hfx. destruct l as [dt | c k | c | c | c | c | c | c out ttl | c | c]; simpl.
  - now apply ltick_inv.
  - destruct (callable (l_thr s c)) eqn:E; [ now apply lcall_inv | exact I ].
  - destruct (l_thr s c) eqn:E; try exact I.
    apply set_thr_inv; auto; try congruence.
    + destruct (tready iv (l_now s) (l_prev s)); congruence.
    + destruct (tready iv (l_now s) (l_prev s)); congruence.
    + destruct (tready iv (l_now s) (l_prev s)); congruence.
  - destruct (l_thr s c) eqn:E; try exact I.
    destruct (tready iv (l_now s) (l_prev s)).
    + now apply lgc_inv.
    + apply set_thr_inv; auto; congruence.
  - destruct (l_thr s c) eqn:E; try exact I.
    apply set_thr_inv; auto; try congruence.
    + destruct (l_map s k); congruence.
    + destruct (l_map s k); congruence.
    + intros k0 t H. destruct (l_map s k) eqn:M; inversion H; subst.
      destruct (j_map s I _ _ M) as (H1 & H2 & _). auto.
  - destruct (l_thr s c) eqn:E; try exact I.
    destruct (l_map s k) eqn:M.
    + apply set_thr_inv; auto; try congruence.
      intros k0 t H. inversion H; subst. destruct (j_map s I _ _ M) as (H1 & H2 & _). auto.
    + now apply lins_inv.
  - destruct (l_thr s c) eqn:E; try exact I.
    destruct (fx && t_del (l_heap s tid)) eqn:F.
    { apply set_thr_inv; auto; congruence. }
    destruct (negb (expired (l_now s) (l_heap s tid))) eqn:X.
    { apply set_thr_inv; auto; congruence. }
    destruct (t_run (l_heap s tid)) eqn:R.
    { apply set_thr_inv; auto; congruence. }
    apply ldecide_run_inv; auto.
    + destruct Hfx as [-> | HL]; [ exact F | eapply HL; eauto ].
    + now apply negb_false_iff in X.
  - destruct (l_thr s c) eqn:E; try exact I. now apply lend_inv.
  - destruct (l_thr s c) eqn:E; try exact I. eapply lbcast_inv; eauto.
  - destruct (l_thr s c) eqn:E; try exact I. apply set_thr_inv; auto; congruence.
Qed.

Lemma lrun_inv : forall iv ls, linv (lrun true iv linit ls).
Proof.
  intros. unfold lrun. apply fold_left_inv with (P := linv); [ | apply linit_inv ].
  intros s l I. apply lstep_inv; auto.
Qed.

(* two executions of one key are the same execution *)
Lemma linv_single_flight : forall s c1 c2 k t1 t2, linv s ->
  l_thr s c1 = LRunning k t1 -> l_thr s c2 = LRunning k t2 -> c1 = c2.
Proof.
  intros s c1 c2 k t1 t2 I H1 H2.
  destruct (j_thr_run s I _ _ _ H1) as (R1 & K1). destruct (j_thr_run s I _ _ _ H2) as (R2 & K2).
  destruct (j_run s I _ R1) as (N1 & D1 & _). destruct (j_run s I _ R2) as (N2 & D2 & _).
  pose proof (j_live s I _ N1 D1) as M1. pose proof (j_live s I _ N2 D2) as M2.
  rewrite K1 in M1. rewrite K2 in M2. assert (t1 = t2) by congruence. subst.
  eapply j_uniq; eauto.
Qed.

(* C29_limiter_single_flight: patched code, every interleaving *)
Theorem limiter_single_flight : forall iv ls c1 c2 k t1 t2,
  let s := lrun true iv linit ls in
  l_thr s c1 = LRunning k t1 -> l_thr s c2 = LRunning k t2 -> c1 = c2.
Proof. intros iv ls c1 c2 k t1 t2 s. apply linv_single_flight. apply lrun_inv. Qed.

(* ---- the code as found: single flight on schedules without a collection in the window ---- *)
Lemma lstep_held_live : forall iv s l,
  linv s -> held_live s -> gc_in_window iv s l = false -> held_live (lstep false iv s l).
Proof.
  intros iv s l I HL W. destruct l as [dt | c k | c | c | c | c | c | c out ttl | c | c]; simpl.
  - exact HL.
  - destruct (callable (l_thr s c)); [ | exact HL ].
    intros c0 k0 t H. simpl in H. ue c0 c; [ discriminate | eapply HL; eauto ].
  - destruct (l_thr s c) eqn:E; try exact HL. apply set_thr_held_live; auto.
    intros k0 t H. destruct (tready iv (l_now s) (l_prev s)); discriminate.
  - destruct (l_thr s c) eqn:E; try exact HL.
    destruct (tready iv (l_now s) (l_prev s)) eqn:R.
    + simpl in W. rewrite E, R in W. simpl in W.
      intros c0 k0 t H. simpl in H |- *. ue c0 c; [ discriminate | ].
      unfold gc_heap. destruct (gc_hit s t) eqn:G; [ | eapply HL; eauto ].
      exfalso. assert (In c0 (l_tids s)) as Hin by (apply (j_tids s I); congruence).
      assert (existsb (fun w => match l_thr s w with LHeld _ tid => gc_hit s tid | _ => false end)
                      (l_tids s) = true) as Hx.
      { apply existsb_exists. exists c0. split; auto. now rewrite H. }
      congruence.
    + apply set_thr_held_live; auto. discriminate.
  - destruct (l_thr s c) eqn:E; try exact HL. apply set_thr_held_live; auto.
    intros k0 t H. destruct (l_map s k) eqn:M; inversion H; subst.
    now destruct (j_map s I _ _ M) as (_ & _ & H3).
  - destruct (l_thr s c) eqn:E; try exact HL. destruct (l_map s k) eqn:M.
    + apply set_thr_held_live; auto. intros k0 t H. inversion H; subst.
      now destruct (j_map s I _ _ M) as (_ & _ & H3).
    + intros c0 k0 t H. simpl in H |- *. ue c0 c.
      * inversion H; subst. now rewrite upd_same.
      * destruct (j_held s I _ _ _ H) as (Hlt & _). rewrite upd_other by lia. eapply HL; eauto.
  - destruct (l_thr s c) eqn:E; try exact HL. simpl.
    destruct (negb (expired (l_now s) (l_heap s tid))).
    { apply set_thr_held_live; auto. discriminate. }
    destruct (t_run (l_heap s tid)).
    { apply set_thr_held_live; auto. discriminate. }
    intros c0 k0 t H. simpl in H |- *. ue c0 c; [ discriminate | ].
    ue t tid; simpl; eapply HL; eauto.
  - destruct (l_thr s c) eqn:E; try exact HL.
    intros c0 k0 t H. simpl in H |- *. ue c0 c; [ discriminate | ].
    ue t tid; simpl; eapply HL; eauto.
  - destruct (l_thr s c) eqn:E; try exact HL.
    intros c0 k0 t H. simpl in H |- *. ue c0 c; [ discriminate | ].
    apply wake_held in H. eapply HL; eauto.
  - destruct (l_thr s c) eqn:E; try exact HL. apply set_thr_held_live; auto. discriminate.
Qed.

Lemma lrun_safe_inv : forall iv ls s, linv s -> held_live s -> gc_safe false iv s ls = true ->
  linv (lrun false iv s ls) /\ held_live (lrun false iv s ls).
Proof.
  intros iv ls. induction ls as [| l r IH]; intros s I HL G; simpl in *; auto.
  apply andb_true_iff in G as [G1 G2]. apply negb_true_iff in G1.
  apply IH; auto.
  - apply lstep_inv; auto.
  - now apply lstep_held_live.
Qed.

(* C29_limiter_single_flight_partial *)
Theorem limiter_single_flight_partial : forall iv ls c1 c2 k t1 t2,
  gc_safe false iv linit ls = true ->
  let s := lrun false iv linit ls in
  l_thr s c1 = LRunning k t1 -> l_thr s c2 = LRunning k t2 -> c1 = c2.
Proof.
  intros iv ls c1 c2 k t1 t2 G s. apply linv_single_flight.
  apply lrun_safe_inv; auto using linit_inv, linit_held_live.
Qed.

(* C29_limiter_gc_race_refuted: the code as found, the schedule of the seed case `seed-gc-race` *)
Definition race_iv : N := 60000000000.
Definition race_sched : list llab :=
  concat (map (lexpand 2) [MBegin 0 1; MTick 60000000001; MBegin 1 1; MEnter 1; MEnter 0]).

Theorem limiter_gc_race_refuted :
  exists iv ls c1 c2 k t1 t2,
    let s := lrun false iv linit ls in
    l_thr s c1 = LRunning k t1 /\ l_thr s c2 = LRunning k t2 /\ c1 <> c2.
Proof.
  exists race_iv, race_sched, 0, 1, 1, 0, 1. vm_compute. repeat split; congruence.
Qed.

(* patched code on the same schedule: thread 0 finds its task deleted, starts over, and ends up
   holding the task thread 1 is running *)
Lemma limiter_race_fixed :
  let s := lrun true race_iv linit race_sched in
  l_thr s 0 = LHeld 1 1 /\ l_thr s 1 = LRunning 1 1.
Proof. vm_compute. split; reflexivity. Qed.

(* while an execution of k is in flight, a caller that reaches its task lock does not run k:
   it waits on the running task, or (its task was collected) starts over *)
Theorem limiter_pending_waits : forall iv ls c c' k tid t',
  let s := lrun true iv linit ls in
  l_thr s c' = LRunning k t' -> l_thr s c = LHeld k tid ->
  let s' := lstep true iv s (LDecide c) in
  (l_thr s' c = LWait k t' \/ l_thr s' c = LStart k) /\
  (forall x, x <> c -> l_thr s' x = l_thr s x) /\
  (forall t, t_run (l_heap s' t) = t_run (l_heap s t)).
Proof.
  intros iv ls c c' k tid t' s Hr Hh. pose proof (lrun_inv iv ls) as I. fold s in I.
  destruct (j_thr_run s I _ _ _ Hr) as (R & K). destruct (j_run s I _ R) as (N1 & D1 & X1).
  pose proof (j_live s I _ N1 D1) as M1. rewrite K in M1.
  destruct (j_held s I _ _ _ Hh) as (N2 & K2).
  simpl. rewrite Hh. simpl. destruct (t_del (l_heap s tid)) eqn:D.
  - simpl. rewrite upd_same. repeat split; auto. intros x Hx. now rewrite upd_other.
  - pose proof (j_live s I _ N2 D) as M2. rewrite K2 in M2. assert (tid = t') by congruence. subst tid.
    rewrite X1, R. simpl. rewrite upd_same. repeat split; auto. intros x Hx. now rewrite upd_other.
Qed.

(* a running task is never collected: it stays the mapped task of its key *)
Theorem limiter_running_stays_mapped : forall iv ls c k tid,
  let s := lrun true iv linit ls in
  l_thr s c = LRunning k tid -> l_map s k = Some tid.
Proof.
  intros iv ls c k tid s H. pose proof (lrun_inv iv ls) as I. fold s in I.
  destruct (j_thr_run s I _ _ _ H) as (R & K). destruct (j_run s I _ R) as (N1 & D1 & _).
  rewrite <- K. now apply (j_live s I).
Qed.

(* ---- the oracle on driver-level traces ---- *)
Lemma nodupb_NoDup : forall l, NoDup l -> nodupb l = true.
Proof.
  induction 1 as [| x l Hx Hl IH]; simpl; auto. rewrite IH, andb_true_r.
  apply negb_true_iff. destruct (existsb (N.eqb x) l) eqn:E; auto.
  apply existsb_exists in E as (y & Hy & Hxy). apply N.eqb_eq in Hxy. subst. contradiction.
Qed.

Lemma in_keys_run_l : forall (f : N -> lstatus) cs k,
  In k (keys_run_l (map f cs)) -> exists c, In c cs /\ f c = SRun k.
Proof.
  induction cs as [| c cs IH]; simpl; intros k H; [ contradiction | ].
  destruct (f c) eqn:E; try (destruct (IH _ H) as (c' & H1 & H2); exists c'; auto; fail).
  destruct H as [<- | H]; [ exists c; auto | destruct (IH _ H) as (c' & H1 & H2); exists c'; auto ].
Qed.

Lemma lstatus_run : forall p k, lstatus_of p = SRun k -> exists t, p = LRunning k t.
Proof. intros p k. destruct p; simpl; intro H; inversion H; subst; eauto. Qed.

Lemma snapshot_single_flight : forall s cs, linv s -> NoDup cs ->
  NoDup (keys_run_l (map (fun c => lstatus_of (l_thr s c)) cs)).
Proof.
  intros s cs I. induction 1 as [| c cs Hc Hn IH]; simpl; [ constructor | ].
  destruct (lstatus_of (l_thr s c)) eqn:E; auto. constructor; auto.
  intro Hin. apply in_keys_run_l in Hin as (c' & Hc' & E').
  apply lstatus_run in E as (t & E). apply lstatus_run in E' as (t' & E').
  assert (c = c') by (eapply linv_single_flight; eauto). subst. contradiction.
Qed.

Lemma nthreads_NoDup : forall n, NoDup (nthreads n).
Proof.
  intro n. unfold nthreads. apply Injective_map_NoDup; [ | apply seq_NoDup ].
  intros a b H. now apply Nnat.Nat2N.inj.
Qed.

Lemma lsnap_nthreads : forall n s, lsnap n s = map (fun c => lstatus_of (l_thr s c)) (nthreads n).
Proof. intros. unfold lsnap, nthreads. now rewrite map_map. Qed.

Lemma lrun_from_inv : forall iv ls s, linv s -> linv (lrun true iv s ls).
Proof.
  intros. unfold lrun. apply fold_left_inv with (P := linv); auto.
  intros s0 l I. apply lstep_inv; auto.
Qed.

Lemma lim_check_from : forall iv n ms s, linv s -> lim_check (lmrun true iv n s ms) = true.
Proof.
  intros iv n ms. induction ms as [| m r IH]; intros s I; simpl; auto.
  pose proof (lrun_from_inv iv (lexpand n m) s I) as I'.
  unfold lim_check in *. simpl. rewrite IH by assumption. rewrite andb_true_r.
  apply nodupb_NoDup. rewrite lsnap_nthreads. apply snapshot_single_flight; auto.
  apply nthreads_NoDup.
Qed.

(* the oracle holds on every driver-level trace of the model of the patched code *)
Theorem lim_check_sound : forall iv n ms, lim_check (lmrun true iv n linit ms) = true.
Proof. intros. apply lim_check_from. apply linit_inv. Qed.

(* ... and fails on the trace of the code as found for the race schedule *)
Lemma lim_check_race_refuted :
  lim_check (lmrun false race_iv 2 linit [MBegin 0 1; MTick 60000000001; MBegin 1 1; MEnter 1; MEnter 0]) = false.
Proof. vm_compute. reflexivity. Qed.
