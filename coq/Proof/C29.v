From Coq Require Import List NArith Bool Lia.
From K.Model Require Import C29.
Import ListNotations.
