(* Proofs for C02, part 1: layout specification, the slice loop, the stream loop,
   GetPieceLength.  Part 2 (Proof/C02_json.v): decimal / JSON round trip.  Part 3
   (Proof/C02_table.v): piece length table.  Part 4 (Proof/C02_check.v): oracle soundness. *)
From Coq Require Import List NArith ZArith Bool Lia ZifyBool ZifyN ZifyNat PeanoNat.
From K.Model Require Import C02.
Import ListNotations.
Local Open Scope N_scope.

(* ------------------------------------------------------------------ takeN / dropN *)
Lemma takeN_firstn {A} (l : list A) : forall n, takeN n l = firstn (N.to_nat n) l.
Proof.
  induction l as [|a l IH]; intros n; cbn [takeN].
  - now rewrite firstn_nil.
  - destruct (N.eqb_spec n 0) as [->|Hn]; [reflexivity|].
    replace (N.to_nat n) with (S (N.to_nat (N.pred n))) by lia. cbn [firstn]. now rewrite IH.
Qed.

Lemma dropN_skipn {A} (l : list A) : forall n, dropN n l = skipn (N.to_nat n) l.
Proof.
  induction l as [|a l IH]; intros n; cbn [dropN].
  - now rewrite skipn_nil.
  - destruct (N.eqb_spec n 0) as [->|Hn]; [reflexivity|].
    replace (N.to_nat n) with (S (N.to_nat (N.pred n))) by lia. cbn [skipn]. now rewrite IH.
Qed.

Lemma takeN_dropN {A} n (l : list A) : takeN n l ++ dropN n l = l.
Proof. rewrite takeN_firstn, dropN_skipn. apply firstn_skipn. Qed.

Lemma lenN_app {A} (a b : list A) : lenN (a ++ b) = lenN a + lenN b.
Proof. unfold lenN. rewrite app_length. lia. Qed.

Lemma lenN_takeN {A} n (l : list A) : lenN (takeN n l) = N.min n (lenN l).
Proof. unfold lenN. rewrite takeN_firstn, firstn_length. lia. Qed.

Lemma lenN_dropN {A} n (l : list A) : lenN (dropN n l) = lenN l - n.
Proof. unfold lenN. rewrite dropN_skipn, skipn_length. lia. Qed.

Lemma takeN_all {A} n (l : list A) : lenN l <= n -> takeN n l = l.
Proof. unfold lenN. intros H. rewrite takeN_firstn. apply firstn_all2. lia. Qed.

Lemma dropN_all {A} n (l : list A) : lenN l <= n -> dropN n l = [].
Proof. unfold lenN. intros H. rewrite dropN_skipn. apply skipn_all2. lia. Qed.

Lemma takeN_0 {A} (l : list A) : takeN 0 l = [].
Proof. destruct l; reflexivity. Qed.

Lemma dropN_0 {A} (l : list A) : dropN 0 l = l.
Proof. destruct l; reflexivity. Qed.

Lemma lenN_nil_iff {A} (l : list A) : lenN l = 0 <-> l = [].
Proof. unfold lenN. destruct l; cbn; split; intros H; try reflexivity; try discriminate; lia. Qed.

Lemma takeN_app_le {A} b (a x : list A) : lenN a <= b -> takeN b (a ++ x) = a ++ takeN (b - lenN a) x.
Proof.
  unfold lenN. intros H. rewrite !takeN_firstn, firstn_app.
  rewrite firstn_all2 by lia. f_equal. f_equal. lia.
Qed.

Lemma dropN_app_le {A} b (a x : list A) : lenN a <= b -> dropN b (a ++ x) = dropN (b - lenN a) x.
Proof.
  unfold lenN. intros H. rewrite !dropN_skipn, skipn_app.
  rewrite skipn_all2 by lia. cbn [app]. f_equal. lia.
Qed.

Lemma takeN_min {A} n (l : list A) : takeN (N.min n (lenN l)) l = takeN n l.
Proof.
  destruct (N.le_gt_cases n (lenN l)) as [H|H].
  - now rewrite N.min_l.
  - rewrite N.min_r by lia. rewrite !takeN_all by lia. reflexivity.
Qed.

(* ------------------------------------------------------------------ the layout of a blob *)

(* consecutive pieces of pl bytes, only the last may be shorter, none for the empty blob *)
Inductive layout (pl : N) : list N -> list (list N) -> Prop :=
| L_nil : layout pl [] []
| L_last p : p <> [] -> lenN p <= pl -> layout pl p [p]
| L_cons p d ps : lenN p = pl -> ps <> [] -> layout pl d ps -> layout pl (p ++ d) (p :: ps).

Lemma pieces_fuel_nil f pl : pieces_fuel f pl [] = [].
Proof. destruct f; reflexivity. Qed.

Lemma pieces_fuel_enough pl : 0 < pl -> forall f g data,
  (length data <= f)%nat -> (length data <= g)%nat -> pieces_fuel f pl data = pieces_fuel g pl data.
Proof.
  intros Hpl. induction f as [|f IH]; intros g data Hf Hg.
  - destruct data; [|cbn in Hf; lia]. now rewrite !pieces_fuel_nil.
  - destruct data as [|b data]; [now rewrite !pieces_fuel_nil|].
    destruct g as [|g]; [cbn in Hg; lia|].
    cbn [pieces_fuel]. f_equal.
    assert (Hl : (length (dropN pl (b :: data)) <= length data)%nat).
    { rewrite dropN_skipn, skipn_length. cbn [length]. lia. }
    apply IH; cbn [length] in *; lia.
Qed.

Lemma pieces_step pl b data : 0 < pl ->
  pieces pl (b :: data) = takeN pl (b :: data) :: pieces pl (dropN pl (b :: data)).
Proof.
  intros Hpl. unfold pieces. cbn [length pieces_fuel]. f_equal.
  apply pieces_fuel_enough; [assumption| |lia].
  rewrite dropN_skipn, skipn_length. cbn [length]. lia.
Qed.

Lemma pieces_nil pl : pieces pl [] = [].
Proof. reflexivity. Qed.

(* strong induction on the length of the data *)
Lemma data_ind (P : list N -> Prop) :
  (forall d, (forall d', (length d' < length d)%nat -> P d') -> P d) -> forall d, P d.
Proof.
  intros H d. remember (length d) as n eqn:Hn. revert d Hn.
  induction n as [n IH] using lt_wf_ind. intros d ->. apply H. intros d' Hd'. eapply IH; eauto.
Qed.

Lemma pieces_short pl data : 0 < pl -> data <> [] -> lenN data <= pl -> pieces pl data = [data].
Proof.
  intros Hpl Hne Hle. destruct data as [|b data]; [congruence|].
  rewrite pieces_step by assumption. rewrite takeN_all, dropN_all by assumption. reflexivity.
Qed.

Lemma pieces_long pl data : 0 < pl -> pl < lenN data ->
  pieces pl data = takeN pl data :: pieces pl (dropN pl data)
  /\ lenN (takeN pl data) = pl /\ dropN pl data <> [] /\ (length (dropN pl data) < length data)%nat.
Proof.
  intros Hpl Hlt. destruct data as [|b data]; [unfold lenN in Hlt; cbn in Hlt; lia|].
  split; [now apply pieces_step|]. split; [rewrite lenN_takeN; lia|]. split.
  - intros E. apply lenN_nil_iff in E. rewrite lenN_dropN in E. lia.
  - pose proof (lenN_dropN pl (b :: data)) as E. unfold lenN in *. lia.
Qed.

Theorem pieces_layout pl data : 0 < pl -> layout pl data (pieces pl data).
Proof.
  intros Hpl. induction data as [data IH] using data_ind.
  destruct data as [|b data]; [constructor|].
  destruct (N.le_gt_cases (lenN (b :: data)) pl) as [Hle|Hgt].
  - rewrite pieces_short by (assumption || discriminate). constructor; [discriminate|assumption].
  - destruct (pieces_long pl (b :: data) Hpl Hgt) as (E & Hlen & Hne & Hsh). rewrite E.
    rewrite <- (takeN_dropN pl (b :: data)) at 1. constructor; [assumption| |now apply IH].
    specialize (IH _ Hsh). intros En. rewrite En in IH. inversion IH as [Hd| |]. exact (Hne (eq_sym Hd)).
Qed.

Lemma layout_nil_inv pl ps : 0 < pl -> layout pl [] ps -> ps = [].
Proof.
  intros Hpl H. remember [] as d eqn:Ed. destruct H as [|p Hne Hle|p d ps Hl Hne H].
  - reflexivity.
  - congruence.
  - apply app_eq_nil in Ed. destruct Ed as [-> ->]. unfold lenN in Hl. cbn in Hl. lia.
Qed.

Theorem layout_unique pl data ps : 0 < pl -> layout pl data ps -> ps = pieces pl data.
Proof.
  intros Hpl H. induction H as [|p Hne Hle|p d ps Hlen Hne H IH].
  - reflexivity.
  - now rewrite pieces_short.
  - assert (Hd : d <> []). { intros ->. apply Hne. now apply (layout_nil_inv pl). }
    assert (Hlt : pl < lenN (p ++ d)).
    { rewrite lenN_app. assert (lenN d <> 0) by (rewrite lenN_nil_iff; assumption). lia. }
    destruct (pieces_long pl (p ++ d) Hpl Hlt) as (E & _). rewrite E.
    rewrite takeN_app_le, dropN_app_le by lia. rewrite Hlen, N.sub_diag, takeN_0, dropN_0, app_nil_r.
    now rewrite IH.
Qed.

(* readable consequences of [layout] *)
Lemma layout_concat pl data ps : layout pl data ps -> concat ps = data.
Proof.
  induction 1 as [|p| p d ps Hl Hne H IH]; cbn [concat]; [reflexivity|now rewrite app_nil_r|now rewrite IH].
Qed.

Lemma layout_bounds pl data ps : 0 < pl -> layout pl data ps ->
  Forall (fun p => p <> [] /\ lenN p <= pl) ps.
Proof.
  intros Hpl H. induction H as [|p Hne Hle| p d ps Hl Hne H IH].
  - constructor.
  - constructor; [split; assumption|constructor].
  - constructor; [|assumption]. split; [|lia].
    intros ->. unfold lenN in Hl. cbn in Hl. lia.
Qed.

Lemma layout_full pl data ps : layout pl data ps ->
  forall i, (S i < length ps)%nat -> lenN (nth i ps []) = pl.
Proof.
  induction 1 as [|p| p d ps Hl Hne H IH]; intros i Hi; cbn [length] in Hi; try lia.
  destruct i as [|i]; [assumption|]. cbn [nth]. apply IH. lia.
Qed.

Lemma layout_empty pl ps : layout pl [] ps -> 0 < pl -> ps = [].
Proof. intros H Hpl. now rewrite (layout_unique pl [] ps Hpl H). Qed.

(* conversely, the readable conditions imply [layout] *)
Lemma layout_intro pl : 0 < pl -> forall ps data,
  concat ps = data -> Forall (fun p => p <> [] /\ lenN p <= pl) ps ->
  (forall i, (S i < length ps)%nat -> lenN (nth i ps []) = pl) -> layout pl data ps.
Proof.
  intros Hpl. induction ps as [|p ps IH]; intros data Hc Hb Hf.
  - cbn in Hc. subst. constructor.
  - inversion Hb as [|? ? [Hne Hle] Hb']; subst. destruct ps as [|q ps].
    + cbn. rewrite app_nil_r. now constructor.
    + cbn [concat]. constructor.
      * apply (Hf 0%nat). cbn. lia.
      * discriminate.
      * apply IH; [reflexivity|assumption|]. intros i Hi. apply (Hf (S i)). cbn [length] in *. lia.
Qed.

(* number of pieces = ceil (len / pl); total length *)
Lemma layout_count pl data ps : 0 < pl -> layout pl data ps ->
  lenN data = pl * (lenN ps - 1) + lenN (last ps []) /\ (ps = [] -> data = [])
  /\ (ps <> [] -> 0 < lenN (last ps []) <= pl).
Proof.
  intros Hpl H. induction H as [|p Hne Hle| p d ps Hl Hne H (IH1 & IH2 & IH3)].
  - cbn. split; [reflexivity|]. split; [reflexivity|congruence].
  - unfold lenN at 2. cbn [length last]. split; [lia|]. split; [discriminate|].
    intros _. assert (lenN p <> 0) by (rewrite lenN_nil_iff; assumption). lia.
  - split; [|split; [discriminate|]].
    + rewrite lenN_app, IH1. destruct ps as [|q ps]; [congruence|].
      change (last (p :: q :: ps) []) with (last (q :: ps) []).
      unfold lenN at 3 5. cbn [length]. nia.
    + intros _. destruct ps as [|q ps]; [congruence|].
      change (last (p :: q :: ps) []) with (last (q :: ps) []). apply IH3. discriminate.
Qed.

Lemma layout_num_pieces pl data ps : 0 < pl -> layout pl data ps ->
  lenN ps = (lenN data + pl - 1) / pl.
Proof.
  intros Hpl H. destruct (layout_count pl data ps Hpl H) as (E & Hnil & Hlast).
  destruct ps as [|q ps].
  - rewrite (Hnil eq_refl). unfold lenN. cbn [length]. symmetry. apply N.div_small. lia.
  - specialize (Hlast ltac:(discriminate)). set (k := lenN (q :: ps)) in *. set (r := lenN (last (q :: ps) [])) in *.
    assert (Hk : 1 <= k) by (unfold k, lenN; cbn [length]; lia).
    rewrite E. symmetry.
    replace (pl * (k - 1) + r + pl - 1) with (k * pl + (r - 1)) by nia.
    rewrite N.div_add_l by lia. rewrite N.div_small by lia. lia.
Qed.

(* the i-th piece is data[i*pl : min((i+1)*pl, len)] *)
Lemma pieces_nth pl : 0 < pl -> forall i data,
  nth i (pieces pl data) [] = takeN pl (dropN (N.of_nat i * pl) data).
Proof.
  intros Hpl. induction i as [|i IH]; intros data.
  - cbn [N.of_nat]. rewrite N.mul_0_l, dropN_0. destruct data as [|b data]; [reflexivity|].
    now rewrite pieces_step.
  - destruct data as [|b data]; [cbn; now destruct (N.of_nat (S i) * pl)|].
    rewrite pieces_step by assumption. cbn [nth]. rewrite IH.
    f_equal. rewrite !dropN_skipn, skipn_skipn. f_equal. lia.
Qed.

(* ------------------------------------------------------------------ calcPieceSumsFromBytes *)
Section Sum.
Variable sum : list N -> N.

Lemma bytes_loop_spec : forall fuel pl n offset rest,
  (0 < pl)%Z -> lenZ rest = Z.max 0 (n - offset) -> (length rest <= fuel)%nat ->
  bytes_loop sum fuel pl n offset rest = Ok (map sum (pieces (Z.to_N pl) rest)).
Proof.
  induction fuel as [|fuel IH]; intros pl n offset rest Hpl Hn Hfuel; unfold lenZ in Hn.
  - destruct rest; [|cbn in Hfuel; lia]. cbn [bytes_loop]. cbn in Hn.
    destruct (Z.ltb_spec offset n); [lia|]. reflexivity.
  - cbn [bytes_loop]. destruct (Z.ltb_spec offset n) as [Hlt|Hge].
    + destruct rest as [|b rest]; [cbn in Hn; lia|].
      assert (HplN : 0 < Z.to_N pl) by lia.
      rewrite pieces_step by assumption. cbn [map].
      pose proof (lenN_dropN (Z.to_N pl) (b :: rest)) as E. unfold lenN in E.
      rewrite (IH pl n (offset + pl)%Z (dropN (Z.to_N pl) (b :: rest))); [|lia|unfold lenZ; lia|lia].
      f_equal. f_equal. f_equal.
      rewrite <- (takeN_min (Z.to_N pl)). f_equal.
      unfold lenN. destruct (Z.gtb_spec (offset + pl) n); lia.
    + destruct rest as [|b rest]; [reflexivity|]. cbn [length] in Hn. lia.
Qed.

Theorem calc_bytes_spec pl data : (0 < pl)%Z ->
  calc_bytes sum pl data = Ok (lenZ data, map sum (pieces (Z.to_N pl) data)).
Proof.
  intros Hpl. unfold calc_bytes. destruct (Z.leb_spec pl 0); [lia|].
  destruct (Z.eqb_spec (lenZ data) 0) as [E|E].
  - destruct data; [|unfold lenZ in E; cbn in E; lia]. reflexivity.
  - rewrite bytes_loop_spec; [reflexivity|assumption|unfold lenZ in *; lia|lia].
Qed.

Theorem calc_bytes_nonpositive pl data : (pl <= 0)%Z -> calc_bytes sum pl data = Err.
Proof. intros H. unfold calc_bytes. destruct (Z.leb_spec pl 0); [reflexivity|lia]. Qed.

End Sum.
