(* Proofs for C02, part 1: layout specification, the slice loop, the stream loop,
   GetPieceLength.  Part 2 (Proof/C02_json.v): decimal / JSON round trip.  Part 3
   (Proof/C02_table.v): piece length table.  Part 4 (Proof/C02_check.v): oracle soundness. *)
From Coq Require Import List NArith ZArith Bool Lia ZifyBool ZifyN ZifyNat PeanoNat.
From K.Model Require Import C02.
Import ListNotations.
Local Open Scope N_scope.

(* ------------------------------------------------------------------ takeN / dropN *)
Lemma takeN_firstn {A} (l : list A) : forall n, takeN n l = firstn (N.to_nat n) l.
Proof.
  induction l as [|a l IH]; intros n; cbn [takeN].
  - now rewrite firstn_nil.
  - destruct (N.eqb_spec n 0) as [->|Hn]; [reflexivity|].
    replace (N.to_nat n) with (S (N.to_nat (N.pred n))) by lia. cbn [firstn]. now rewrite IH.
Qed.

Lemma dropN_skipn {A} (l : list A) : forall n, dropN n l = skipn (N.to_nat n) l.
Proof.
  induction l as [|a l IH]; intros n; cbn [dropN].
  - now rewrite skipn_nil.
  - destruct (N.eqb_spec n 0) as [->|Hn]; [reflexivity|].
    replace (N.to_nat n) with (S (N.to_nat (N.pred n))) by lia. cbn [skipn]. now rewrite IH.
Qed.

Lemma takeN_dropN {A} n (l : list A) : takeN n l ++ dropN n l = l.
Proof. rewrite takeN_firstn, dropN_skipn. apply firstn_skipn. Qed.

Lemma lenN_app {A} (a b : list A) : lenN (a ++ b) = lenN a + lenN b.
Proof. unfold lenN. rewrite app_length. lia. Qed.

Lemma lenN_takeN {A} n (l : list A) : lenN (takeN n l) = N.min n (lenN l).
Proof. unfold lenN. rewrite takeN_firstn, firstn_length. lia. Qed.

Lemma lenN_dropN {A} n (l : list A) : lenN (dropN n l) = lenN l - n.
Proof. unfold lenN. rewrite dropN_skipn, skipn_length. lia. Qed.

Lemma takeN_all {A} n (l : list A) : lenN l <= n -> takeN n l = l.
Proof. unfold lenN. intros H. rewrite takeN_firstn. apply firstn_all2. lia. Qed.

Lemma dropN_all {A} n (l : list A) : lenN l <= n -> dropN n l = [].
Proof. unfold lenN. intros H. rewrite dropN_skipn. apply skipn_all2. lia. Qed.

Lemma takeN_0 {A} (l : list A) : takeN 0 l = [].
Proof. destruct l; reflexivity. Qed.

Lemma dropN_0 {A} (l : list A) : dropN 0 l = l.
Proof. destruct l; reflexivity. Qed.

Lemma lenN_nil_iff {A} (l : list A) : lenN l = 0 <-> l = [].
Proof. unfold lenN. destruct l; cbn; split; intros H; try reflexivity; try discriminate; lia. Qed.

Lemma takeN_app_le {A} b (a x : list A) : lenN a <= b -> takeN b (a ++ x) = a ++ takeN (b - lenN a) x.
Proof.
  unfold lenN. intros H. rewrite !takeN_firstn, firstn_app.
  rewrite firstn_all2 by lia. f_equal. f_equal. lia.
Qed.

Lemma dropN_app_le {A} b (a x : list A) : lenN a <= b -> dropN b (a ++ x) = dropN (b - lenN a) x.
Proof.
  unfold lenN. intros H. rewrite !dropN_skipn, skipn_app.
  rewrite skipn_all2 by lia. cbn [app]. f_equal. lia.
Qed.

Lemma takeN_min {A} n (l : list A) : takeN (N.min n (lenN l)) l = takeN n l.
Proof.
  destruct (N.le_gt_cases n (lenN l)) as [H|H].
  - now rewrite N.min_l.
  - rewrite N.min_r by lia. rewrite !takeN_all by lia. reflexivity.
Qed.

(* ------------------------------------------------------------------ the layout of a blob *)

(* consecutive pieces of pl bytes, only the last may be shorter, none for the empty blob *)
Inductive layout (pl : N) : list N -> list (list N) -> Prop :=
| L_nil : layout pl [] []
| L_last p : p <> [] -> lenN p <= pl -> layout pl p [p]
| L_cons p d ps : lenN p = pl -> ps <> [] -> layout pl d ps -> layout pl (p ++ d) (p :: ps).

Lemma pieces_fuel_nil f pl : pieces_fuel f pl [] = [].
Proof. destruct f; reflexivity. Qed.

Lemma pieces_fuel_enough pl : 0 < pl -> forall f g data,
  (length data <= f)%nat -> (length data <= g)%nat -> pieces_fuel f pl data = pieces_fuel g pl data.
Proof.
  intros Hpl. induction f as [|f IH]; intros g data Hf Hg.
  - destruct data; [|cbn in Hf; lia]. now rewrite !pieces_fuel_nil.
  - destruct data as [|b data]; [now rewrite !pieces_fuel_nil|].
    destruct g as [|g]; [cbn in Hg; lia|].
    cbn [pieces_fuel]. f_equal.
    assert (Hl : (length (dropN pl (b :: data)) <= length data)%nat).
    { rewrite dropN_skipn, skipn_length. cbn [length]. lia. }
    apply IH; cbn [length] in *; lia.
Qed.

Lemma pieces_step pl b data : 0 < pl ->
  pieces pl (b :: data) = takeN pl (b :: data) :: pieces pl (dropN pl (b :: data)).
Proof.
  intros Hpl. unfold pieces. cbn [length pieces_fuel]. f_equal.
  apply pieces_fuel_enough; [assumption| |lia].
  rewrite dropN_skipn, skipn_length. cbn [length]. lia.
Qed.

Lemma pieces_nil pl : pieces pl [] = [].
Proof. reflexivity. Qed.

(* strong induction on the length of the data *)
Lemma data_ind (P : list N -> Prop) :
  (forall d, (forall d', (length d' < length d)%nat -> P d') -> P d) -> forall d, P d.
Proof.
  intros H d. remember (length d) as n eqn:Hn. revert d Hn.
  induction n as [n IH] using lt_wf_ind. intros d ->. apply H. intros d' Hd'. eapply IH; eauto.
Qed.

Lemma pieces_short pl data : 0 < pl -> data <> [] -> lenN data <= pl -> pieces pl data = [data].
Proof.
  intros Hpl Hne Hle. destruct data as [|b data]; [congruence|].
  rewrite pieces_step by assumption. rewrite takeN_all, dropN_all by assumption. reflexivity.
Qed.

Lemma pieces_long pl data : 0 < pl -> pl < lenN data ->
  pieces pl data = takeN pl data :: pieces pl (dropN pl data)
  /\ lenN (takeN pl data) = pl /\ dropN pl data <> [] /\ (length (dropN pl data) < length data)%nat.
Proof.
  intros Hpl Hlt. destruct data as [|b data]; [unfold lenN in Hlt; cbn in Hlt; lia|].
  split; [now apply pieces_step|]. split; [rewrite lenN_takeN; lia|]. split.
  - intros E. apply lenN_nil_iff in E. rewrite lenN_dropN in E. lia.
  - pose proof (lenN_dropN pl (b :: data)) as E. unfold lenN in *. lia.
Qed.

Theorem pieces_layout pl data : 0 < pl -> layout pl data (pieces pl data).
Proof.
  intros Hpl. induction data as [data IH] using data_ind.
  destruct data as [|b data]; [constructor|].
  destruct (N.le_gt_cases (lenN (b :: data)) pl) as [Hle|Hgt].
  - rewrite pieces_short by (assumption || discriminate). constructor; [discriminate|assumption].
  - destruct (pieces_long pl (b :: data) Hpl Hgt) as (E & Hlen & Hne & Hsh). rewrite E.
    rewrite <- (takeN_dropN pl (b :: data)) at 1. constructor; [assumption| |now apply IH].
    specialize (IH _ Hsh). intros En. rewrite En in IH. inversion IH as [Hd| |]. exact (Hne (eq_sym Hd)).
Qed.

Lemma layout_nil_inv pl ps : 0 < pl -> layout pl [] ps -> ps = [].
Proof.
  intros Hpl H. remember [] as d eqn:Ed. destruct H as [|p Hne Hle|p d ps Hl Hne H].
  - reflexivity.
  - congruence.
  - apply app_eq_nil in Ed. destruct Ed as [-> ->]. unfold lenN in Hl. cbn in Hl. lia.
Qed.

Theorem layout_unique pl data ps : 0 < pl -> layout pl data ps -> ps = pieces pl data.
Proof.
  intros Hpl H. induction H as [|p Hne Hle|p d ps Hlen Hne H IH].
  - reflexivity.
  - now rewrite pieces_short.
  - assert (Hd : d <> []). { intros ->. apply Hne. now apply (layout_nil_inv pl). }
    assert (Hlt : pl < lenN (p ++ d)).
    { rewrite lenN_app. assert (lenN d <> 0) by (rewrite lenN_nil_iff; assumption). lia. }
    destruct (pieces_long pl (p ++ d) Hpl Hlt) as (E & _). rewrite E.
    rewrite takeN_app_le, dropN_app_le by lia. rewrite Hlen, N.sub_diag, takeN_0, dropN_0, app_nil_r.
    now rewrite IH.
Qed.

(* readable consequences of [layout] *)
Lemma layout_concat pl data ps : layout pl data ps -> concat ps = data.
Proof.
  induction 1 as [|p| p d ps Hl Hne H IH]; cbn [concat]; [reflexivity|now rewrite app_nil_r|now rewrite IH].
Qed.

Lemma layout_bounds pl data ps : 0 < pl -> layout pl data ps ->
  Forall (fun p => p <> [] /\ lenN p <= pl) ps.
Proof.
  intros Hpl H. induction H as [|p Hne Hle| p d ps Hl Hne H IH].
  - constructor.
  - constructor; [split; assumption|constructor].
  - constructor; [|assumption]. split; [|lia].
    intros ->. unfold lenN in Hl. cbn in Hl. lia.
Qed.

Lemma layout_full pl data ps : layout pl data ps ->
  forall i, (S i < length ps)%nat -> lenN (nth i ps []) = pl.
Proof.
  induction 1 as [|p| p d ps Hl Hne H IH]; intros i Hi; cbn [length] in Hi; try lia.
  destruct i as [|i]; [assumption|]. cbn [nth]. apply IH. lia.
Qed.

Lemma layout_empty pl ps : layout pl [] ps -> 0 < pl -> ps = [].
Proof. intros H Hpl. now rewrite (layout_unique pl [] ps Hpl H). Qed.

(* conversely, the readable conditions imply [layout] *)
Lemma layout_intro pl : 0 < pl -> forall ps data,
  concat ps = data -> Forall (fun p => p <> [] /\ lenN p <= pl) ps ->
  (forall i, (S i < length ps)%nat -> lenN (nth i ps []) = pl) -> layout pl data ps.
Proof.
  intros Hpl. induction ps as [|p ps IH]; intros data Hc Hb Hf.
  - cbn in Hc. subst. constructor.
  - inversion Hb as [|? ? [Hne Hle] Hb']; subst. destruct ps as [|q ps].
    + cbn. rewrite app_nil_r. now constructor.
    + cbn [concat]. constructor.
      * apply (Hf 0%nat). cbn. lia.
      * discriminate.
      * apply IH; [reflexivity|assumption|]. intros i Hi. apply (Hf (S i)). cbn [length] in *. lia.
Qed.

(* number of pieces = ceil (len / pl); total length *)
Lemma layout_count pl data ps : 0 < pl -> layout pl data ps ->
  lenN data = pl * (lenN ps - 1) + lenN (last ps []) /\ (ps = [] -> data = [])
  /\ (ps <> [] -> 0 < lenN (last ps []) <= pl).
Proof.
  intros Hpl H. induction H as [|p Hne Hle| p d ps Hl Hne H (IH1 & IH2 & IH3)].
  - unfold lenN. cbn. split; [lia|]. split; [reflexivity|congruence].
  - unfold lenN at 2. cbn [length last]. split; [lia|]. split; [discriminate|].
    intros _. assert (lenN p <> 0) by (rewrite lenN_nil_iff; assumption). lia.
  - split; [|split; [discriminate|]].
    + rewrite lenN_app, IH1. destruct ps as [|q ps]; [congruence|].
      change (last (p :: q :: ps) []) with (last (q :: ps) []).
      replace (lenN (p :: q :: ps)) with (lenN (q :: ps) + 1) by (unfold lenN; cbn [length]; lia).
      assert (1 <= lenN (q :: ps)) by (unfold lenN; cbn [length]; lia).
      rewrite Hl. generalize dependent (lenN (q :: ps)). intros k; intros. nia.
    + intros _. destruct ps as [|q ps]; [congruence|].
      change (last (p :: q :: ps) []) with (last (q :: ps) []). apply IH3. discriminate.
Qed.

Lemma layout_num_pieces pl data ps : 0 < pl -> layout pl data ps ->
  lenN ps = (lenN data + pl - 1) / pl.
Proof.
  intros Hpl H. destruct (layout_count pl data ps Hpl H) as (E & Hnil & Hlast).
  destruct ps as [|q ps].
  - rewrite (Hnil eq_refl). unfold lenN. cbn [length]. symmetry. apply N.div_small. lia.
  - specialize (Hlast ltac:(discriminate)). set (k := lenN (q :: ps)) in *. set (r := lenN (last (q :: ps) [])) in *.
    assert (Hk : 1 <= k) by (unfold k, lenN; cbn [length]; lia).
    rewrite E. symmetry.
    replace (pl * (k - 1) + r + pl - 1) with (k * pl + (r - 1)) by nia.
    rewrite N.div_add_l by lia. rewrite N.div_small by lia. lia.
Qed.

Lemma skipn_add {A} (l : list A) : forall m n, skipn n (skipn m l) = skipn (m + n) l.
Proof.
  induction l as [|a l IH]; intros m n.
  - now rewrite !skipn_nil.
  - destruct m; [reflexivity|]. cbn [skipn Nat.add]. apply IH.
Qed.

(* the i-th piece is data[i*pl : min((i+1)*pl, len)] *)
Lemma pieces_nth pl : 0 < pl -> forall i data,
  nth i (pieces pl data) [] = takeN pl (dropN (N.of_nat i * pl) data).
Proof.
  intros Hpl. induction i as [|i IH]; intros data.
  - cbn [N.of_nat]. rewrite N.mul_0_l, dropN_0. destruct data as [|b data]; [reflexivity|].
    now rewrite pieces_step.
  - destruct data as [|b data]; [cbn; now destruct (N.of_nat (S i) * pl)|].
    rewrite pieces_step by assumption. cbn [nth]. rewrite IH.
    f_equal. rewrite !dropN_skipn, skipn_add. f_equal. lia.
Qed.

(* ------------------------------------------------------------------ calcPieceSumsFromBytes *)
Section Sum.
Variable sum : list N -> N.

Lemma bytes_loop_spec : forall fuel pl n offset rest,
  (0 < pl)%Z -> lenZ rest = Z.max 0 (n - offset) -> (length rest <= fuel)%nat ->
  bytes_loop sum fuel pl n offset rest = Ok (map sum (pieces (Z.to_N pl) rest)).
Proof.
  induction fuel as [|fuel IH]; intros pl n offset rest Hpl Hn Hfuel; unfold lenZ in Hn.
  - destruct rest; [|cbn in Hfuel; lia]. cbn [bytes_loop]. cbn in Hn.
    destruct (Z.ltb_spec offset n); [lia|]. reflexivity.
  - cbn [bytes_loop]. destruct (Z.ltb_spec offset n) as [Hlt|Hge].
    + destruct rest as [|b rest]; [cbn in Hn; lia|].
      assert (HplN : 0 < Z.to_N pl) by lia.
      rewrite pieces_step by assumption. cbn [map].
      pose proof (lenN_dropN (Z.to_N pl) (b :: rest)) as E. unfold lenN in E.
      rewrite (IH pl n (offset + pl)%Z (dropN (Z.to_N pl) (b :: rest))); [|lia|unfold lenZ; lia|lia].
      f_equal. f_equal. f_equal.
      rewrite <- (takeN_min (Z.to_N pl)). f_equal.
      unfold lenN. destruct (Z.gtb_spec (offset + pl) n); lia.
    + destruct rest as [|b rest]; [reflexivity|]. cbn [length] in Hn. lia.
Qed.

Theorem calc_bytes_spec pl data : (0 < pl)%Z ->
  calc_bytes sum pl data = Ok (lenZ data, map sum (pieces (Z.to_N pl) data)).
Proof.
  intros Hpl. unfold calc_bytes. destruct (Z.leb_spec pl 0); [lia|].
  destruct (Z.eqb_spec (lenZ data) 0) as [E|E].
  - destruct data; [|unfold lenZ in E; cbn in E; lia]. reflexivity.
  - rewrite bytes_loop_spec; [reflexivity|assumption|unfold lenZ in *; lia|lia].
Qed.

Theorem calc_bytes_nonpositive pl data : (pl <= 0)%Z -> calc_bytes sum pl data = Err.
Proof. intros H. unfold calc_bytes. destruct (Z.leb_spec pl 0); [reflexivity|lia]. Qed.

End Sum.

(* ------------------------------------------------------------------ calcPieceSums (stream) *)
Definition content (r : reader) : list N := concat (rd_chunks r).

Lemma bool_and_if (a b : bool) {A} (x y : A) : (if a && b then x else y) = (if a then (if b then x else y) else y).
Proof. destruct a, b; reflexivity. Qed.

Lemma copy_loop_spec : forall fuel size budget r, 0 < size -> (rd_measure r < fuel)%nat ->
  exists r', copy_loop fuel size budget r =
      Ok (takeN budget (content r), (if (lenN (content r) <? budget) && rd_fail r then RFail else RNil), r')
    /\ content r' = dropN budget (content r) /\ rd_fail r' = rd_fail r
    /\ (length (rd_chunks r') <= length (rd_chunks r))%nat.
Proof.
  induction fuel as [|fuel IH]; intros size budget r Hsize Hm; [lia|].
  cbn [copy_loop]. destruct (N.eqb_spec budget 0) as [->|Hb].
  - exists r. rewrite takeN_0, dropN_0. destruct (N.ltb_spec (lenN (content r)) 0); [lia|].
    cbn [andb]. repeat split; lia.
  - unfold rd_read, content in *. destruct r as [chunks fail]. cbn [rd_chunks rd_fail] in *.
    destruct chunks as [|c t].
    + exists (mkrd [] fail). cbn [concat rd_chunks rd_fail]. change (lenN (@nil N)) with 0.
      destruct (N.ltb_spec 0 budget); [|lia]. cbn [andb takeN dropN].
      destruct fail; repeat split; reflexivity.
    + set (m := N.min size budget). assert (Hmpos : 0 < m) by lia.
      set (got := takeN m c). set (left := dropN m c).
      set (r1 := mkrd (match left with [] => t | _ :: _ => left :: t end) fail).
      assert (Hc : c = got ++ left) by (symmetry; apply takeN_dropN).
      assert (Hgot : lenN got <= budget) by (unfold got; rewrite lenN_takeN; lia).
      assert (Hcont1 : concat (rd_chunks r1) = left ++ concat t).
      { unfold r1. cbn [rd_chunks]. destruct left; reflexivity. }
      assert (Hmeas : (rd_measure r1 < rd_measure (mkrd (c :: t) fail))%nat).
      { unfold rd_measure. rewrite Hcont1. cbn [rd_chunks concat]. rewrite !app_length.
        unfold r1. cbn [rd_chunks]. destruct left as [|x left'] eqn:El.
        - cbn [length]. lia.
        - cbn [length]. assert (lenN left = lenN c - m) by (unfold left; apply lenN_dropN).
          rewrite El in H. unfold lenN in H. cbn [length] in H. lia. }
      destruct (IH size (budget - lenN got) r1 Hsize ltac:(lia)) as (r' & E & Hc' & Hf' & Hl').
      rewrite E. exists r'. cbn [concat]. rewrite Hcont1 in *. cbn [rd_fail] in *.
      rewrite Hc at 1 2 3. rewrite <- !app_assoc.
      rewrite (takeN_app_le budget got), (dropN_app_le budget got) by assumption.
      rewrite (lenN_app got).
      split; [|split; [assumption|split; [assumption|]]].
      * f_equal. f_equal. f_equal.
        destruct (N.ltb_spec (lenN (left ++ concat t)) (budget - lenN got)),
                 (N.ltb_spec (lenN got + lenN (left ++ concat t)) budget); try reflexivity; lia.
      * unfold r1 in Hl'. cbn [rd_chunks] in *. destruct left; cbn [length] in *; lia.
Qed.

Lemma copyN_spec fuel n r : 0 < n -> (rd_measure r < fuel)%nat ->
  exists r', copyN fuel n r =
      Ok (takeN n (content r),
          (if lenN (content r) <? n then (if rd_fail r then RFail else REOF) else RNil), r')
    /\ content r' = dropN n (content r) /\ rd_fail r' = rd_fail r
    /\ (length (rd_chunks r') <= length (rd_chunks r))%nat.
Proof.
  intros Hn Hm. unfold copyN.
  set (size := if n <? copy_bufsize then if n <? 1 then 1 else n else copy_bufsize).
  assert (Hsize : 0 < size).
  { unfold size, copy_bufsize. destruct (N.ltb_spec n 32768); [destruct (N.ltb_spec n 1)|]; lia. }
  destruct (copy_loop_spec fuel size n r Hsize Hm) as (r' & E & Hc & Hf & Hl).
  rewrite E. exists r'. split; [|auto]. f_equal. f_equal. f_equal.
  rewrite lenN_takeN.
  destruct (N.ltb_spec (lenN (content r)) n); cbn [andb].
  - destruct (N.eqb_spec (N.min n (lenN (content r))) n); [lia|]. destruct (rd_fail r); reflexivity.
  - destruct (N.eqb_spec (N.min n (lenN (content r))) n); [reflexivity|lia].
Qed.

Section SumStream.
Variable sum : list N -> N.

Lemma stream_loop_spec : forall fuel cfuel pl r,
  0 < pl -> (rd_measure r < fuel)%nat -> (rd_measure r < cfuel)%nat ->
  stream_loop sum fuel cfuel pl r =
    if rd_fail r then Err else Ok (lenN (content r), map sum (pieces pl (content r))).
Proof.
  induction fuel as [|fuel IH]; intros cfuel pl r Hpl Hf Hcf; [lia|].
  cbn [stream_loop].
  destruct (copyN_spec cfuel pl r Hpl Hcf) as (r' & E & Hc & Hfail & Hl). rewrite E.
  destruct (N.ltb_spec (lenN (content r)) pl) as [Hshort|Hlong].
  - (* the blob ends inside this piece *)
    rewrite takeN_all by lia. destruct (rd_fail r); [reflexivity|].
    destruct (N.eqb_spec (lenN (content r)) 0) as [E0|E0].
    + apply lenN_nil_iff in E0. rewrite E0. reflexivity.
    + destruct (N.ltb_spec (lenN (content r)) pl); [|lia].
      rewrite pieces_short; [reflexivity|assumption| |lia].
      intros En. apply E0. now rewrite En.
  - (* a full piece *)
    assert (Hw : lenN (takeN pl (content r)) = pl) by (rewrite lenN_takeN; lia).
    rewrite Hw. destruct (N.eqb_spec pl 0); [lia|]. rewrite N.ltb_irrefl.
    assert (Hm' : (rd_measure r' < fuel)%nat /\ (rd_measure r' < cfuel)%nat).
    { unfold rd_measure in *. fold (content r') (content r) in *. rewrite Hc.
      pose proof (lenN_dropN pl (content r)) as Ed. unfold lenN in *. lia. }
    rewrite (IH cfuel pl r' Hpl (proj1 Hm') (proj2 Hm')). rewrite Hfail, Hc.
    destruct (rd_fail r); [reflexivity|].
    destruct (content r) as [|b d] eqn:Ec; [unfold lenN in Hlong; cbn in Hlong; lia|].
    rewrite (pieces_step pl b d Hpl). cbn [map]. f_equal. f_equal.
    rewrite lenN_dropN. lia.
Qed.

Theorem calc_stream_spec pl r : (0 < pl)%Z ->
  calc_stream sum pl r =
    if rd_fail r then Err else Ok (lenZ (content r), map sum (pieces (Z.to_N pl) (content r))).
Proof.
  intros Hpl. unfold calc_stream. destruct (Z.leb_spec pl 0); [lia|].
  rewrite stream_loop_spec by lia. destruct (rd_fail r); [reflexivity|].
  f_equal. f_equal. unfold lenN, lenZ. lia.
Qed.

Theorem calc_stream_nonpositive pl r : (pl <= 0)%Z -> calc_stream sum pl r = Err.
Proof. intros H. unfold calc_stream. destruct (Z.leb_spec pl 0); [reflexivity|lia]. Qed.

(* the stream computation equals the slice computation on the concatenated reads, for
   every way the reader cuts the blob into Read results, and for every piece length *)
Theorem calc_stream_eq_bytes pl chunks :
  calc_stream sum pl (mkrd chunks false) = calc_bytes sum pl (concat chunks).
Proof.
  destruct (Z.le_gt_cases pl 0) as [H|H].
  - now rewrite calc_stream_nonpositive, calc_bytes_nonpositive.
  - rewrite calc_stream_spec, calc_bytes_spec by lia. reflexivity.
Qed.

End SumStream.

(* ------------------------------------------------------------------ NewMetaInfo / NewMetaInfoFromBytes / GetPieceLength *)
Section Meta.
Variable sum : list N -> N.
Variable sha1 : list N -> list N.

Local Notation expected := (expected sum sha1).

Theorem new_metainfo_bytes_spec d data pl : (0 < pl)%Z ->
  new_metainfo_bytes sum sha1 d data pl = Ok (expected d data pl).
Proof. intros H. unfold new_metainfo_bytes. now rewrite calc_bytes_spec. Qed.

Theorem new_metainfo_stream_spec d r pl : (0 < pl)%Z ->
  new_metainfo_stream sum sha1 d r pl = if rd_fail r then Err else Ok (expected d (content r) pl).
Proof.
  intros H. unfold new_metainfo_stream. rewrite calc_stream_spec by assumption.
  destruct (rd_fail r); reflexivity.
Qed.

Theorem stream_eq_bytes d chunks pl :
  new_metainfo_stream sum sha1 d (mkrd chunks false) pl = new_metainfo_bytes sum sha1 d (concat chunks) pl.
Proof. unfold new_metainfo_stream, new_metainfo_bytes. now rewrite calc_stream_eq_bytes. Qed.

Theorem rejects_nonpositive d r data pl : (pl <= 0)%Z ->
  new_metainfo_stream sum sha1 d r pl = Err /\ new_metainfo_bytes sum sha1 d data pl = Err.
Proof.
  intros H. unfold new_metainfo_stream, new_metainfo_bytes.
  now rewrite calc_stream_nonpositive, calc_bytes_nonpositive.
Qed.

Theorem failing_reader_rejected d chunks pl :
  new_metainfo_stream sum sha1 d (mkrd chunks true) pl = Err.
Proof.
  destruct (Z.le_gt_cases pl 0) as [H|H].
  - exact (proj1 (rejects_nonpositive d (mkrd chunks true) [] pl H)).
  - rewrite new_metainfo_stream_spec by lia. reflexivity.
Qed.

Lemma wrap64_id z : (-9223372036854775808 <= z < 9223372036854775808)%Z -> wrap64 z = z.
Proof. intros H. unfold wrap64. rewrite Z.mod_small; lia. Qed.

Lemma nth_last {A} (l : list A) d : l <> [] -> nth (length l - 1) l d = last l d.
Proof.
  induction l as [|a l IH]; [congruence|]. intros _. destruct l as [|b l]; [reflexivity|].
  change (last (a :: b :: l) d) with (last (b :: l) d). rewrite <- IH by discriminate.
  cbn [length]. replace (S (S (length l)) - 1)%nat with (S (length l)) by lia.
  replace (S (length l) - 1)%nat with (length l) by lia. reflexivity.
Qed.

Lemma lenZ_map {A B} (f : A -> B) l : lenZ (map f l) = lenZ l.
Proof. unfold lenZ. now rewrite map_length. Qed.

(* GetPieceLength on generated metainfo: the true length of piece i, 0 outside the range.
   The int64 subtraction at metainfo.go:97 cannot wrap. *)
Theorem get_piece_length_spec d data pl i :
  (0 < pl < 9223372036854775808)%Z -> (lenZ data < 9223372036854775808)%Z ->
  let ps := pieces (Z.to_N pl) data in
  get_piece_length (expected d data pl) i =
    if ((0 <=? i) && (i <? lenZ ps))%Z then lenZ (nth (Z.to_nat i) ps []) else 0%Z.
Proof.
  intros Hpl Hlen ps. unfold get_piece_length, expected, assemble.
  cbn [mi_info i_sums i_len i_pl]. rewrite lenZ_map. fold ps.
  assert (HplN : 0 < Z.to_N pl) by lia.
  pose proof (pieces_layout (Z.to_N pl) data HplN) as HL. fold ps in HL.
  destruct (Z.ltb_spec i 0); [destruct (Z.leb_spec 0 i); [lia|reflexivity]|].
  destruct (Z.geb_spec i (lenZ ps)); cbn [orb].
  { destruct (Z.ltb_spec i (lenZ ps)); [lia|]. now rewrite andb_false_r. }
  destruct (Z.leb_spec 0 i); [|lia]. destruct (Z.ltb_spec i (lenZ ps)); [|lia]. cbn [andb].
  destruct (layout_count _ _ _ HplN HL) as (Ecount & _ & Hlast).
  assert (Hne : ps <> []). { intros E. rewrite E in *. unfold lenZ in *. cbn in *. lia. }
  specialize (Hlast Hne).
  destruct (Z.eqb_spec i (lenZ ps - 1)) as [Ei|Ei].
  - replace (Z.to_nat i) with (length ps - 1)%nat by (unfold lenZ in *; lia).
    rewrite nth_last by assumption.
    assert (Hps : (1 <= length ps)%nat) by (destruct ps; [congruence|cbn [length]; lia]).
    assert (E2 : (pl * i = Z.of_N (Z.to_N pl * (lenN ps - 1)))%Z).
    { rewrite N2Z.inj_mul, Z2N.id by lia. f_equal. unfold lenZ, lenN in *. lia. }
    assert (E3 : lenZ data = Z.of_N (lenN data)) by (unfold lenZ, lenN; lia).
    rewrite (wrap64_id (pl * i)) by (rewrite E2; unfold lenZ, lenN in *; lia).
    rewrite wrap64_id by (rewrite E2, E3; unfold lenZ, lenN in *; lia).
    rewrite E2, E3, Ecount. unfold lenZ, lenN. lia.
  - pose proof (layout_full _ _ _ HL (Z.to_nat i)) as Hfull.
    rewrite <- (Z2N.id pl) at 1 by lia. unfold lenZ, lenN in *. rewrite <- Hfull by lia. lia.
Qed.

Lemma map_zrange {A} (f : Z -> Z) (g : A -> Z) d : forall (l : list A) a,
  (forall k, (k < length l)%nat -> f (a + Z.of_nat k)%Z = g (nth k l d)) ->
  map f (zrange a (length l)) = map g l.
Proof.
  induction l as [|x l IH]; intros a H; [reflexivity|].
  cbn [length zrange map]. f_equal.
  - specialize (H 0%nat ltac:(cbn; lia)). cbn in H. now rewrite Z.add_0_r in H.
  - apply IH. intros k Hk. specialize (H (S k) ltac:(cbn; lia)). cbn [nth] in H. rewrite <- H. f_equal. lia.
Qed.

Lemma zrange_app a n m : zrange a (n + m) = zrange a n ++ zrange (a + Z.of_nat n) m.
Proof.
  revert a. induction n as [|n IH]; intros a.
  - cbn. now rewrite Z.add_0_r.
  - cbn [Nat.add zrange app]. f_equal. rewrite IH. f_equal. f_equal. lia.
Qed.

(* the per-piece lengths the API reports are exactly the lengths of the pieces *)
Theorem get_piece_length_all d data pl :
  (0 < pl < 9223372036854775808)%Z -> (lenZ data < 9223372036854775808)%Z ->
  let ps := pieces (Z.to_N pl) data in
  map (get_piece_length (expected d data pl)) (zrange 0 (length ps)) = map (fun p => lenZ p) ps.
Proof.
  intros Hpl Hlen ps. apply map_zrange with (d := []). intros k Hk.
  rewrite get_piece_length_spec by assumption. fold ps. cbn [Z.add].
  destruct (Z.leb_spec 0 (Z.of_nat k)); [|lia].
  destruct (Z.ltb_spec (Z.of_nat k) (lenZ ps)); [|unfold lenZ in *; lia].
  cbn [andb]. now rewrite Nat2Z.id.
Qed.

Lemma sum_lenZ_concat (ps : list (list N)) :
  fold_right Z.add 0%Z (map (fun p => lenZ p) ps) = lenZ (concat ps).
Proof.
  induction ps as [|p ps IH]; [reflexivity|]. cbn [map fold_right concat]. rewrite IH.
  unfold lenZ. rewrite app_length. lia.
Qed.

Theorem get_piece_length_total d data pl :
  (0 < pl < 9223372036854775808)%Z -> (lenZ data < 9223372036854775808)%Z ->
  fold_right Z.add 0%Z
    (map (get_piece_length (expected d data pl)) (zrange 0 (length (pieces (Z.to_N pl) data)))) = lenZ data.
Proof.
  intros Hpl Hlen. rewrite get_piece_length_all by assumption. rewrite sum_lenZ_concat.
  f_equal. eapply layout_concat. apply pieces_layout. lia.
Qed.

(* the observable vector GetPieceLength(-1 .. n+1) *)
Lemma observed_gpl d data pl :
  (0 < pl < 9223372036854775808)%Z -> (lenZ data < 9223372036854775808)%Z ->
  let ps := pieces (Z.to_N pl) data in
  map (get_piece_length (expected d data pl)) (zrange (-1) (length ps + 3))
  = 0%Z :: map (fun p => lenZ p) ps ++ [0%Z; 0%Z].
Proof.
  intros Hpl Hlen ps.
  replace (length ps + 3)%nat with (1 + (length ps + 2))%nat by lia.
  rewrite zrange_app, map_app, zrange_app, map_app.
  cbn [Z.add Z.of_nat zrange map app Pos.of_succ_nat Z.opp Z.pos_sub].
  rewrite !get_piece_length_spec by assumption. fold ps.
  pose proof (get_piece_length_all d data pl Hpl Hlen) as Eall. cbv zeta in Eall. fold ps in Eall.
  rewrite Eall. change (0 <=? -1)%Z with false. cbn [andb]. f_equal. f_equal.
  fold (lenZ ps).
  destruct (Z.ltb_spec (lenZ ps) (lenZ ps)); [lia|]. rewrite andb_false_r.
  destruct (Z.ltb_spec (lenZ ps + 1) (lenZ ps)); [lia|]. rewrite andb_false_r. reflexivity.
Qed.

End Meta.

(* ------------------------------------------------------------------ summaries used in Properties/C02.v *)
Theorem layout_summary pl data : 0 < pl ->
  let ps := pieces pl data in
  concat ps = data
  /\ Forall (fun p => p <> [] /\ lenN p <= pl) ps
  /\ (forall i, (S i < length ps)%nat -> lenN (nth i ps []) = pl)
  /\ (data = [] -> ps = [])
  /\ lenN ps = (lenN data + pl - 1) / pl.
Proof.
  intros Hpl ps. pose proof (pieces_layout pl data Hpl) as HL. fold ps in HL.
  split; [now apply (layout_concat pl)|]. split; [now apply (layout_bounds pl data)|].
  split; [now apply (layout_full pl data)|]. split; [intros ->; reflexivity|].
  now apply layout_num_pieces.
Qed.

Theorem layout_summary_unique pl data ps : 0 < pl ->
  concat ps = data ->
  Forall (fun p => p <> [] /\ lenN p <= pl) ps ->
  (forall i, (S i < length ps)%nat -> lenN (nth i ps []) = pl) ->
  ps = pieces pl data.
Proof. intros Hpl Hc Hb Hf. apply layout_unique; [assumption|]. now apply layout_intro. Qed.
