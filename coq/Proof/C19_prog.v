(* C19: progress is always possible — from every state that satisfies the invariant, an agent
   that misses piece i and a seeder that is up can run `plan`, every label of which is enabled,
   and the agent then has piece i verified. *)
From Coq Require Import List NArith Bool Arith Lia.
From K.Model Require Import C19.
From K.Proof Require Import C19_base C19_inv.
Import ListNotations.

Section Prog.
Variable P : Type.
Variable plen : P -> N.
Variable sum : P -> N.
Variable g : cfg P.
Hypothesis Hsums : sums_ok P sum g.
Hypothesis Hlim : limits_ok P g.

Local Notation peer := (peer P).
Local Notation state := (state P).
Local Notation label := (label P).
Local Notation step := (step P plen sum g).
Local Notation run := (run P plen sum g).
Local Notation run_strict := (run_strict P plen sum g).
Local Notation n := (npieces P g).
Local Notation blob := (g_blob P g).
Local Notation Inv := (Inv P plen sum g).

Lemma run_strict_app : forall l1 l2 s,
  run_strict s (l1 ++ l2) = match run_strict s l1 with Some s1 => run_strict s1 l2 | None => None end.
Proof.
  induction l1 as [|l t IH]; intros l2 s; cbn; auto. destruct (step s l); auto.
Qed.

Lemma run_strict_step : forall s l s' ls, step s l = Some s' -> run_strict s (l :: ls) = run_strict s' ls.
Proof. intros s l s' ls H. cbn [C19.run_strict]. now rewrite H. Qed.

Lemma run_strict_run : forall l s s', run_strict s l = Some s' -> run s l = s'.
Proof.
  induction l as [|l t IH]; intros s s' H; [cbn in *; congruence|].
  cbn [C19.run_strict] in H. unfold C19.run. cbn [fold_left]. unfold exec at 2.
  destruct (step s l); [|discriminate]. apply IH. exact H.
Qed.

(* ---- labels that only touch connections, requests and messages *)
Definition bk (l : label) : bool :=
  match l with Disconnect _ _ | Connect _ _ _ | Expire _ _ _ => true | _ => false end.

Definition core_eq (x y : peer) : Prop :=
  p_up P x = p_up P y /\ p_kind P x = p_kind P y /\ p_st P x = p_st P y /\ p_dat P x = p_dat P y
  /\ p_committed P x = p_committed P y /\ p_wr P x = p_wr P y.

Lemma core_eq_refl : forall x, core_eq x x.
Proof. intros. repeat split. Qed.

Lemma core_upd : forall (f : nat -> peer) a v x, core_eq v (f a) -> core_eq (upd f a v x) (f x).
Proof.
  intros f a v x H. unfold upd. destruct (Nat.eqb x a) eqn:E; [|apply core_eq_refl].
  apply Nat.eqb_eq in E. now subst.
Qed.

Lemma bk_core : forall s l s' x, bk l = true -> step s l = Some s' -> core_eq (peers P s' x) (peers P s x).
Proof.
  intros s l s' x B H. destruct l; try discriminate; cbn [C19.step] in H.
  - match type of H with (if ?c then _ else _) = _ => destruct c eqn:C; [|discriminate] end.
    inversion H; subst; clear H. cbn.
    unfold upd. destruct (Nat.eqb x p) eqn:E1; [apply Nat.eqb_eq in E1; subst; repeat split|].
    destruct (Nat.eqb x a) eqn:E2; [apply Nat.eqb_eq in E2; subst; repeat split|]. apply core_eq_refl.
  - match type of H with (if ?c then _ else _) = _ => destruct c eqn:C; [|discriminate] end.
    inversion H; subst; clear H. cbn. apply core_upd. repeat split.
  - destruct (p_up P (peers P s a)); [|discriminate]. inversion H; subst; clear H. cbn.
    apply core_upd. repeat split.
Qed.

Lemma bk_payloads : forall l, bk l = true -> label_payloads P l = [].
Proof. intros l H. destruct l; try discriminate; reflexivity. Qed.

Lemma bk_inv : forall s l s', bk l = true -> Inv s -> step s l = Some s' -> Inv s'.
Proof.
  intros s l s' B HI H. eapply step_inv; eauto. rewrite bk_payloads; auto.
Qed.

(* ---- the facts that every stage of the plan keeps *)
Variables a sd i : nat.

Record Ph (t : state) : Prop := mkPh {
  ph_inv : Inv t;
  ph_upa : p_up P (peers P t a) = true;
  ph_ha : honest P (peers P t a) = true;
  ph_upsd : p_up P (peers P t sd) = true;
  ph_hsd : honest P (peers P t sd) = true;
  ph_full : forall j, j < n -> is_complete (p_st P (peers P t sd) j) = true;
  ph_empty : p_st P (peers P t a) i = Empty }.

Lemma Ph_bk : forall s l s', bk l = true -> Ph s -> step s l = Some s' -> Ph s'.
Proof.
  intros s l s' B [A1 A2 A3 A4 A5 A6 A7] H.
  pose proof (bk_core _ _ _ a B H) as (Ua & Ka & Sa & _).
  pose proof (bk_core _ _ _ sd B H) as (Us & Ks & Ss & _).
  constructor.
  - eapply bk_inv; eauto.
  - congruence.
  - unfold honest in *. congruence.
  - congruence.
  - unfold honest in *. congruence.
  - intros j Hj. rewrite Ss. auto.
  - rewrite Sa. auto.
Qed.

Lemma Ph_neq : forall t, i < n -> Ph t -> a <> sd.
Proof.
  intros t Hi H E. pose proof (ph_full _ H i Hi) as F. rewrite <- E, (ph_empty _ H) in F. discriminate.
Qed.

(* ---- Disconnect *)
Lemma disc_step : forall s x q,
  p_up P (peers P s x) = true -> has_conn (p_conns P (peers P s x)) q = true ->
  exists s', step s (Disconnect x q) = Some s'
    /\ p_conns P (peers P s' x) = del_conn (p_conns P (peers P s x)) q
    /\ (forall y, y <> x -> peers P s' y = peers P s y).
Proof.
  intros s x q U C. cbn [C19.step]. rewrite U, C. cbn. eexists. split; [reflexivity|]. cbn. split.
  - now rewrite upd_same.
  - intros y Hy. now rewrite upd_other.
Qed.

Lemma has_conn_del_sub : forall cs q p, has_conn (del_conn cs q) p = true -> has_conn cs p = true.
Proof.
  intros cs q p H. apply has_conn_in in H as (c & Hc & E). apply has_conn_in. exists c. split; auto.
  unfold del_conn in Hc. apply filter_In in Hc. tauto.
Qed.

Lemma has_conn_hd : forall c cs, has_conn (c :: cs) (c_peer c) = true.
Proof. intros. unfold has_conn. cbn. now rewrite Nat.eqb_refl. Qed.

(* stage: tear down the connection x has to q, if any *)
Lemma disc_stage : forall t x q,
  Ph t -> p_up P (peers P t x) = true ->
  exists t', run_strict t (if has_conn (p_conns P (peers P t x)) q then [Disconnect x q] else []) = Some t'
    /\ Ph t' /\ has_conn (p_conns P (peers P t' x)) q = false
    /\ (forall y, y <> x -> peers P t' y = peers P t y)
    /\ (forall p, has_conn (p_conns P (peers P t' x)) p = true -> has_conn (p_conns P (peers P t x)) p = true)
    /\ length (p_conns P (peers P t' x)) <= length (p_conns P (peers P t x)).
Proof.
  intros t x q HP U. destruct (has_conn (p_conns P (peers P t x)) q) eqn:C.
  - destruct (disc_step t x q U C) as (t' & Hs & Hc & Ho). exists t'. cbn [C19.run_strict]. rewrite Hs.
    split; [reflexivity|]. split; [eapply Ph_bk; eauto; reflexivity|]. rewrite Hc.
    split; [apply has_conn_del|]. split; [auto|]. split; [apply has_conn_del_sub|apply del_conn_length].
  - exists t. cbn. split; [reflexivity|]. split; [assumption|]. split; [assumption|].
    split; [reflexivity|]. split; auto.
Qed.

(* stage: make room for one more connection at x *)
Definition capf (x : nat) (t : state) : list label :=
  match p_conns P (peers P t x) with
  | c :: _ => if Nat.leb (g_maxconn P g) (length (p_conns P (peers P t x))) then [Disconnect x (c_peer c)] else []
  | [] => []
  end.

Lemma cap_stage : forall t x,
  Ph t -> p_up P (peers P t x) = true ->
  exists t', run_strict t (capf x t) = Some t'
    /\ Ph t' /\ length (p_conns P (peers P t' x)) < g_maxconn P g
    /\ (forall y, y <> x -> peers P t' y = peers P t y)
    /\ (forall p, has_conn (p_conns P (peers P t' x)) p = true -> has_conn (p_conns P (peers P t x)) p = true).
Proof.
  intros t x HP U. unfold capf.
  pose proof (pi_cap _ _ _ _ _ (proj1 (ph_inv _ HP) x)) as Hcap.
  destruct Hlim as (_ & _ & Hm).
  destruct (p_conns P (peers P t x)) as [|c cs] eqn:E.
  - exists t. cbn. rewrite E. cbn. split; [reflexivity|]. split; [assumption|]. split; [lia|]. split; auto.
  - destruct (Nat.leb (g_maxconn P g) (length (c :: cs))) eqn:L.
    + assert (C : has_conn (p_conns P (peers P t x)) (c_peer c) = true) by (rewrite E; apply has_conn_hd).
      destruct (disc_step t x (c_peer c) U C) as (t' & Hs & Hc & Ho). exists t'.
      cbn [C19.run_strict]. rewrite Hs. split; [reflexivity|]. split; [eapply Ph_bk; eauto; reflexivity|].
      rewrite Hc. split; [|split; [auto|]].
      * pose proof (del_conn_length_lt _ _ C). rewrite E in *. lia.
      * rewrite E. apply has_conn_del_sub.
    + exists t. cbn. rewrite E. apply Nat.leb_gt in L. split; [reflexivity|]. split; [assumption|].
      split; [exact L|]. split; auto.
Qed.

(* ---- Connect *)
Lemma conn_step : forall t,
  a <> sd -> p_up P (peers P t a) = true -> p_up P (peers P t sd) = true ->
  has_conn (p_conns P (peers P t a)) sd = false -> has_conn (p_conns P (peers P t sd)) a = false ->
  length (p_conns P (peers P t a)) < g_maxconn P g -> length (p_conns P (peers P t sd)) < g_maxconn P g ->
  exists t', step t (Connect a sd []) = Some t'
    /\ p_conns P (peers P t' a) = p_conns P (peers P t a) ++ [mkconn sd (p_origin P (peers P t sd)) (shown P (peers P t sd) [])]
    /\ p_conns P (peers P t' sd) = p_conns P (peers P t sd) ++ [mkconn a (p_origin P (peers P t a)) (shown P (peers P t a) [])]
    /\ p_reqs P (peers P t' a) = p_reqs P (peers P t a)
    /\ msgs P t' = filter (fun m => negb (between P a sd m)) (msgs P t).
Proof.
  intros t Hn Ua Us C1 C2 L1 L2. cbn [C19.step].
  apply Nat.eqb_neq in Hn. apply Nat.ltb_lt in L1, L2. rewrite Hn, Ua, Us, C1, C2, L1, L2. cbn.
  eexists. split; [reflexivity|]. cbn. apply Nat.eqb_neq in Hn.
  rewrite upd_same. rewrite (upd_other _ _ _ _ _ Hn), upd_same. auto.
Qed.

(* ---- Expire: every outstanding request times out *)
Definition expire_all (rs : list req) (L : list req) : list req :=
  fold_left (fun rs r => expire rs (r_peer r) (r_piece r)) L rs.

Lemma expire_pending : forall rs p j r,
  In r (expire rs p j) -> is_pending r = true -> In r rs /\ ~ (r_piece r = j /\ r_peer r = p).
Proof.
  intros rs p j r H Hp. unfold expire in H. apply in_map_iff in H as (r0 & E & H0).
  destruct (Nat.eqb (r_piece r0) j && Nat.eqb (r_peer r0) p && is_pending r0) eqn:C.
  - subst r. discriminate.
  - subst r0. split; auto. intros [E1 E2]. rewrite E1, E2, !Nat.eqb_refl, Hp in C. discriminate.
Qed.

Lemma expire_all_pending : forall L rs r,
  In r (expire_all rs L) -> is_pending r = true ->
  In r rs /\ forall r0, In r0 L -> ~ (r_piece r = r_piece r0 /\ r_peer r = r_peer r0).
Proof.
  induction L as [|r1 L IH]; intros rs r H Hp; cbn in H.
  - split; [auto|intros ? []].
  - destruct (IH _ _ H Hp) as [H1 H2]. destruct (expire_pending _ _ _ _ H1 Hp) as [H3 H4].
    split; auto. intros r0 [<-|H0]; auto.
Qed.

Lemma expire_step : forall t p j,
  p_up P (peers P t a) = true ->
  exists t', step t (Expire a p j) = Some t'
    /\ p_reqs P (peers P t' a) = expire (p_reqs P (peers P t a)) p j
    /\ p_conns P (peers P t' a) = p_conns P (peers P t a)
    /\ (forall y, y <> a -> peers P t' y = peers P t y) /\ msgs P t' = msgs P t.
Proof.
  intros t p j U. cbn [C19.step]. rewrite U. eexists. split; [reflexivity|]. cbn.
  rewrite upd_same. cbn. repeat split; auto. intros y Hy. now rewrite upd_other.
Qed.

Lemma expire_stage : forall L t,
  Ph t ->
  exists t', run_strict t (map (fun r => Expire a (r_peer r) (r_piece r)) L) = Some t'
    /\ Ph t' /\ p_reqs P (peers P t' a) = expire_all (p_reqs P (peers P t a)) L
    /\ p_conns P (peers P t' a) = p_conns P (peers P t a)
    /\ (forall y, y <> a -> peers P t' y = peers P t y) /\ msgs P t' = msgs P t.
Proof.
  induction L as [|r L IH]; intros t HP.
  - exists t. cbn. split; [reflexivity|]. split; [assumption|]. split; [reflexivity|]. split; [reflexivity|]. split; auto.
  - destruct (expire_step t (r_peer r) (r_piece r) (ph_upa _ HP)) as (t1 & Hs & Hr & Hc & Ho & Hm).
    assert (HP1 : Ph t1) by (eapply Ph_bk; eauto; reflexivity).
    destruct (IH t1 HP1) as (t' & Hs' & HP' & Hr' & Hc' & Ho' & Hm').
    exists t'. cbn [map C19.run_strict]. rewrite Hs. split; [exact Hs'|]. split; [auto|].
    split; [rewrite Hr', Hr; reflexivity|]. split; [congruence|]. split; [|congruence].
    intros y Hy. rewrite Ho', Ho; auto.
Qed.

(* ---- the four labels that move the piece *)
Lemma npending_none : forall rs p, (forall r, In r rs -> is_pending r = false) -> npending rs p = 0.
Proof.
  intros rs p H. unfold npending. induction rs as [|r t IH]; cbn; auto.
  rewrite (H r (or_introl eq_refl)), andb_false_r. apply IH. intros; apply H; now right.
Qed.

Lemma valid_none : forall rs p j d, (forall r, In r rs -> is_pending r = false) -> valid rs p j d = true.
Proof.
  intros rs p j d H. unfold valid. apply forallb_forall. intros r Hr. now rewrite (H r Hr), andb_false_r.
Qed.

Lemma find_conn_has : forall cs p c, find_conn cs p = Some c -> has_conn cs p = true.
Proof.
  intros cs p c H. unfold find_conn in H. apply find_some in H as [H1 H2].
  unfold has_conn. apply existsb_exists. eauto.
Qed.

Lemma find_conn_snoc : forall cs p c, has_conn cs p = false -> c_peer c = p -> find_conn (cs ++ [c]) p = Some c.
Proof.
  intros cs p c H E. unfold find_conn, has_conn in *. induction cs as [|x t IH]; cbn in *.
  - now rewrite E, Nat.eqb_refl.
  - apply orb_false_iff in H as [H1 H2]. rewrite H1. auto.
Qed.

Lemma is_req_between : forall x y j m, is_req P x y j m = true -> between P x y m = true.
Proof.
  intros x y j m H. destruct m; cbn in *; try discriminate.
  apply andb_true_iff in H as [H _]. unfold between. cbn. now rewrite H.
Qed.

Lemma is_pay_between : forall x y j m, is_pay P y x j m = true -> between P x y m = true.
Proof.
  intros x y j m H. destruct m; cbn in *; try discriminate.
  apply andb_true_iff in H as [H _]. unfold between. cbn. rewrite H. apply orb_true_r.
Qed.

Lemma do_request_single : forall t x p j cn,
  p_up P (peers P t x) = true -> honest P (peers P t x) = true ->
  find_conn (p_conns P (peers P t x)) p = Some cn ->
  (forall r, In r (p_reqs P (peers P t x)) -> is_pending r = false) ->
  j < n -> c_view cn j = true -> is_complete (p_st P (peers P t x) j) = false ->
  do_request P g t x p [j] 1 =
    Some (mkstate P (upd (peers P t) x (set_reqs P (peers P t x) (p_reqs P (peers P t x) ++ [mkreq j p RPending])))
                    (msgs P t ++ [MReq x p j])).
Proof.
  intros t x p j cn U H C Np Hj V Nc. unfold do_request. rewrite U, H, C. cbn [negb andb].
  rewrite (npending_none _ p Np), Nat.sub_0_r.
  assert (L : 1 <= limit P g (c_origin cn)).
  { destruct Hlim as (L1 & L2 & _). unfold limit. destruct (c_origin cn); auto. }
  assert (E1 : Nat.ltb 0 (limit P g (c_origin cn)) = true) by (apply Nat.ltb_lt; lia).
  assert (E2 : Nat.leb (length [j]) (limit P g (c_origin cn)) = true) by (apply Nat.leb_le; cbn; lia).
  rewrite E1, E2. cbn [length Nat.leb andb nodupb memb existsb negb forallb].
  apply Nat.ltb_lt in Hj. rewrite Hj, V, Nc, (valid_none _ p j _ Np). cbn. reflexivity.
Qed.

Lemma serve_step : forall t p x j b M,
  p_up P (peers P t p) = true -> honest P (peers P t p) = true ->
  has_conn (p_conns P (peers P t p)) x = true ->
  msgs P t = M ++ [MReq x p j] -> (forall m, In m M -> between P x p m = false) ->
  j < n -> is_complete (p_st P (peers P t p) j) = true -> p_dat P (peers P t p) j = Some b ->
  exists t', step t (Serve p x j) = Some t'
    /\ (forall y, y <> p -> peers P t' y = peers P t y) /\ msgs P t' = M ++ [MPay p x j b].
Proof.
  intros t p x j b M U H C Hm Hf Hj Hc Hd. cbn [C19.step]. rewrite U, H, C, Hm. cbn [andb].
  rewrite (take_first_snoc _ (is_req P x p j) M (MReq x p j)).
  2:{ intros m Hin. destruct (is_req P x p j m) eqn:E; auto. apply is_req_between in E. rewrite (Hf m Hin) in E. discriminate. }
  2:{ cbn. now rewrite !Nat.eqb_refl. }
  apply Nat.ltb_lt in Hj. rewrite Hj, Hc, Hd. cbn [andb]. eexists. split; [reflexivity|]. cbn. split; auto.
  intros y Hy. now rewrite upd_other.
Qed.

Lemma recvbegin_step : forall t x p j b M,
  p_up P (peers P t x) = true -> honest P (peers P t x) = true ->
  has_conn (p_conns P (peers P t x)) p = true ->
  msgs P t = M ++ [MPay p x j b] -> (forall m, In m M -> between P x p m = false) ->
  len_ok P plen g j b = true -> p_st P (peers P t x) j = Empty ->
  exists t', step t (RecvBegin x p j) = Some t'
    /\ p_up P (peers P t' x) = true /\ p_st P (peers P t' x) j = Dirty
    /\ p_wr P (peers P t' x) = p_wr P (peers P t x) ++ [mkwrt P j p b].
Proof.
  intros t x p j b M U H C Hm Hf Hl He. cbn [C19.step]. rewrite U, H, C, Hm. cbn [andb].
  rewrite (take_first_snoc _ (is_pay P p x j) M (MPay p x j b)).
  2:{ intros m Hin. destruct (is_pay P p x j m) eqn:E; auto. apply is_pay_between in E. rewrite (Hf m Hin) in E. discriminate. }
  2:{ cbn. now rewrite !Nat.eqb_refl. }
  rewrite Hl, He. eexists. split; [reflexivity|]. cbn. rewrite upd_same. cbn. rewrite upd_same. auto.
Qed.

Lemma recvend_step : forall t x p j b W,
  p_up P (peers P t x) = true -> p_st P (peers P t x) j = Dirty ->
  p_wr P (peers P t x) = W ++ [mkwrt P j p b] -> (forall w, In w W -> w_piece P w <> j) ->
  sum_ok P sum g j b = true ->
  exists t', step t (RecvEnd x j) = Some t' /\ verified P t' x j = true.
Proof.
  intros t x p j b W U Hd Hw Hf Hs. cbn [C19.step]. rewrite U, Hd, Hw. cbn [is_dirty andb].
  rewrite (take_first_snoc _ (fun w => Nat.eqb (w_piece P w) j) W (mkwrt P j p b)).
  2:{ intros w Hin. apply Nat.eqb_neq. auto. }
  2:{ cbn. apply Nat.eqb_refl. }
  cbn [w_data]. rewrite Hs. eexists. split; [reflexivity|]. unfold verified. cbn. rewrite upd_same. cbn.
  now rewrite upd_same.
Qed.

Lemma final_steps : forall t cn,
  i < n -> Ph t ->
  find_conn (p_conns P (peers P t a)) sd = Some cn -> c_view cn i = true ->
  has_conn (p_conns P (peers P t sd)) a = true ->
  (forall m, In m (msgs P t) -> between P a sd m = false) ->
  (forall r, In r (p_reqs P (peers P t a)) -> is_pending r = false) ->
  exists t', run_strict t [Request a sd [i] 1; Serve sd a i; RecvBegin a sd i; RecvEnd a i] = Some t'
    /\ verified P t' a i = true.
Proof.
  intros t cn Hi HP Hcn Hv Hsa Hnm Hnp.
  pose proof (Ph_neq _ Hi HP) as Hne.
  destruct HP as [HI Ua Ha Us Hs Full Emp].
  assert (Nc : is_complete (p_st P (peers P t a) i) = false) by now rewrite Emp.
  destruct HI as [HPI HMI].
  pose proof (Full i Hi) as Fi.
  destruct (pi_data _ _ _ _ _ (HPI sd) i Fi) as [_ Hd].
  destruct (nth_error blob i) as [b|] eqn:Eb; [|apply nth_error_None in Eb; unfold npieces in Hi; lia].
  (* Request *)
  pose proof (do_request_single t a sd i cn Ua Ha Hcn Hnp Hi Hv Nc) as E1.
  set (t1 := mkstate P (upd (peers P t) a (set_reqs P (peers P t a) (p_reqs P (peers P t a) ++ [mkreq i sd RPending])))
                       (msgs P t ++ [MReq a sd i])) in E1.
  assert (Hsd1 : peers P t1 sd = peers P t sd) by (cbn; apply upd_other; auto).
  assert (Ha1 : peers P t1 a = set_reqs P (peers P t a) (p_reqs P (peers P t a) ++ [mkreq i sd RPending]))
    by (cbn; apply upd_same).
  (* Serve *)
  destruct (serve_step t1 sd a i b (msgs P t)) as (t2 & E2 & O2 & M2); try rewrite Hsd1; auto.
  (* RecvBegin *)
  assert (Ha2 : peers P t2 a = peers P t1 a) by (apply O2; auto).
  destruct (recvbegin_step t2 a sd i b (msgs P t)) as (t3 & E3 & U3 & D3 & W3);
    try rewrite Ha2; try rewrite Ha1; cbn [p_up honest p_kind p_conns p_st set_reqs]; auto.
  { eapply find_conn_has; eauto. }
  { unfold len_ok. rewrite Eb. apply N.eqb_refl. }
  (* RecvEnd *)
  rewrite Ha2, Ha1 in W3. cbn [p_wr set_reqs] in W3.
  destruct (recvend_step t3 a sd i b (p_wr P (peers P t a))) as (t4 & E4 & V4); auto.
  { intros w Hw E. pose proof (pi_dirty _ _ _ _ _ (HPI a) w Hw) as Dw. rewrite E, Emp in Dw. discriminate. }
  { unfold sum_ok. rewrite Hsums, nth_error_map, Eb. cbn. apply N.eqb_refl. }
  exists t4.
  rewrite (run_strict_step t (Request a sd [i] 1) t1 _ E1).
  rewrite (run_strict_step t1 _ t2 _ E2), (run_strict_step t2 _ t3 _ E3), (run_strict_step t3 _ t4 _ E4).
  auto.
Qed.

(* ---- stage 0: a write of piece i that is under way is finished *)
Lemma take_first_some : forall A (f : A -> bool) l w, In w l -> f w = true -> take_first f l <> None.
Proof.
  intros A f l w Hw Fw E. rewrite (take_first_none _ _ _ E w Hw) in Fw. discriminate.
Qed.

Lemma recvend_any : forall t x j,
  p_up P (peers P t x) = true -> is_dirty (p_st P (peers P t x) j) = true ->
  (exists w, In w (p_wr P (peers P t x)) /\ w_piece P w = j) ->
  exists t', step t (RecvEnd x j) = Some t'
    /\ (forall y, y <> x -> peers P t' y = peers P t y)
    /\ p_up P (peers P t' x) = true /\ p_kind P (peers P t' x) = p_kind P (peers P t x)
    /\ (is_complete (p_st P (peers P t' x) j) = true \/ p_st P (peers P t' x) j = Empty).
Proof.
  intros t x j U D (w & Hw & Hj). cbn [C19.step]. rewrite U, D. cbn [andb].
  destruct (take_first (fun w0 => Nat.eqb (w_piece P w0) j) (p_wr P (peers P t x))) as [[v rest]|] eqn:T.
  - destruct (sum_ok P sum g j (w_data P v)); eexists; (split; [reflexivity|]); cbn;
      rewrite upd_same; cbn; rewrite upd_same; (split; [intros y Hy; now rewrite upd_other|]); auto.
  - exfalso. eapply take_first_some; eauto. cbn. rewrite Hj. apply Nat.eqb_refl.
Qed.

Lemma phase0 : forall s,
  Inv s -> p_up P (peers P s a) = true -> honest P (peers P s a) = true ->
  p_up P (peers P s sd) = true -> honest P (peers P s sd) = true -> completed P s sd = true ->
  i < n -> verified P s a i = false ->
  exists s0, run_strict s (if is_dirty (p_st P (peers P s a) i) then [RecvEnd a i] else []) = Some s0
    /\ (is_complete (p_st P (peers P s0 a) i) = true \/ Ph s0).
Proof.
  intros s HI Ua Ha Us Hs Cs Hi V. unfold verified, completed in *.
  assert (Full : forall j, j < n -> is_complete (p_st P (peers P s sd) j) = true).
  { intros j Hj. apply (pi_comm _ _ _ _ _ (proj1 HI sd) Cs j Hj). }
  assert (Hne : a <> sd). { intros E. rewrite E in V. rewrite (Full i Hi) in V. discriminate. }
  destruct (is_dirty (p_st P (peers P s a) i)) eqn:D.
  - destruct (recvend_any s a i Ua D (pi_owner _ _ _ _ _ (proj1 HI a) Ua i D)) as (t' & E & O & U' & K' & R).
    exists t'. cbn [C19.run_strict]. rewrite E. split; [reflexivity|]. destruct R as [R|R]; [now left|right].
    constructor; auto.
    + eapply step_inv; eauto. constructor.
    + unfold honest in *. now rewrite K'.
    + rewrite (O sd); auto.
    + rewrite (O sd); auto.
    + intros j Hj. rewrite (O sd); auto.
  - exists s. split; [reflexivity|]. right. constructor; auto.
    destruct (p_st P (peers P s a) i); auto; discriminate.
Qed.

Lemma stage_spec : forall s0 (acc : list label * state) f t',
  run_strict s0 (fst acc) = Some (snd acc) -> run_strict (snd acc) (f (snd acc)) = Some t' ->
  run_strict s0 (fst (stage P plen sum g acc f)) = Some (snd (stage P plen sum g acc f))
  /\ snd (stage P plen sum g acc f) = t'.
Proof.
  intros s0 acc f t' H1 H2. unfold stage. cbn [fst snd]. rewrite run_strict_app, H1, H2.
  rewrite (run_strict_run _ _ _ H2). auto.
Qed.

Theorem plan_works : forall s,
  Inv s -> p_up P (peers P s a) = true -> honest P (peers P s a) = true ->
  p_up P (peers P s sd) = true -> honest P (peers P s sd) = true -> completed P s sd = true ->
  i < n -> verified P s a i = false ->
  exists s', run_strict s (plan P plen sum g s a sd i) = Some s' /\ verified P s' a i = true.
Proof.
  intros s HI Ua Ha Us Hs Cs Hi V.
  destruct (phase0 s HI Ua Ha Us Hs Cs Hi V) as (s0 & R0 & D).
  unfold plan. rewrite (run_strict_run _ _ _ R0).
  destruct D as [Dn|HP0].
  { rewrite Dn. exists s0. split; auto. }
  rewrite (ph_empty _ HP0). cbn [is_complete].
  pose proof (Ph_neq _ Hi HP0) as Hne.
  set (l0 := if is_dirty (p_st P (peers P s a) i) then [RecvEnd a i] else []) in *.
  (* stage 1: a forgets sd *)
  destruct (disc_stage s0 a sd HP0 (ph_upa _ HP0)) as (t1 & R1 & HP1 & Q1 & O1 & _ & _).
  match goal with |- context [stage P plen sum g (l0, s0) ?f] =>
    destruct (stage_spec s (l0, s0) f t1 R0 R1) as [A1 B1]; set (acc1 := stage P plen sum g (l0, s0) f) in * end.
  (* stage 2: sd forgets a *)
  destruct (disc_stage t1 sd a HP1 (ph_upsd _ HP1)) as (t2 & R2 & HP2 & Q2 & O2 & _ & _).
  rewrite <- B1 in R2.
  match goal with |- context [stage P plen sum g acc1 ?f] =>
    destruct (stage_spec s acc1 f t2 A1 R2) as [A2 B2]; set (acc2 := stage P plen sum g acc1 f) in * end.
  assert (Q1' : has_conn (p_conns P (peers P t2 a)) sd = false) by (rewrite O2; auto).
  (* stage 3: room at a *)
  destruct (cap_stage t2 a HP2 (ph_upa _ HP2)) as (t3 & R3 & HP3 & L3 & O3 & S3).
  rewrite <- B2 in R3.
  match goal with |- context [stage P plen sum g acc2 ?f] =>
    destruct (stage_spec s acc2 f t3 A2 R3) as [A3 B3]; set (acc3 := stage P plen sum g acc2 f) in * end.
  assert (Q1'' : has_conn (p_conns P (peers P t3 a)) sd = false).
  { destruct (has_conn (p_conns P (peers P t3 a)) sd) eqn:E; auto. apply S3 in E. congruence. }
  assert (Q2' : has_conn (p_conns P (peers P t3 sd)) a = false) by (rewrite O3; auto).
  (* stage 4: room at sd *)
  destruct (cap_stage t3 sd HP3 (ph_upsd _ HP3)) as (t4 & R4 & HP4 & L4 & O4 & S4).
  rewrite <- B3 in R4.
  match goal with |- context [stage P plen sum g acc3 ?f] =>
    destruct (stage_spec s acc3 f t4 A3 R4) as [A4 B4]; set (acc4 := stage P plen sum g acc3 f) in * end.
  assert (Q1c : has_conn (p_conns P (peers P t4 a)) sd = false) by (rewrite O4; auto).
  assert (L3' : length (p_conns P (peers P t4 a)) < g_maxconn P g) by (rewrite O4; auto).
  assert (Q2c : has_conn (p_conns P (peers P t4 sd)) a = false).
  { destruct (has_conn (p_conns P (peers P t4 sd)) a) eqn:E; auto. apply S4 in E. congruence. }
  (* stage 5: connect *)
  destruct (conn_step t4 Hne (ph_upa _ HP4) (ph_upsd _ HP4) Q1c Q2c L3' L4) as (t5 & E5 & Ca5 & Cs5 & Rq5 & M5).
  assert (R5 : run_strict t4 [Connect a sd []] = Some t5) by (cbn [C19.run_strict]; now rewrite E5).
  assert (HP5 : Ph t5) by (eapply Ph_bk; eauto; reflexivity).
  rewrite <- B4 in R5.
  destruct (stage_spec s acc4 (fun _ => [Connect a sd []]) t5 A4 R5) as [A5 B5].
  set (acc5 := stage P plen sum g acc4 (fun _ => [Connect a sd []])) in *.
  (* stage 6: every request times out *)
  destruct (expire_stage (p_reqs P (peers P t5 a)) t5 HP5) as (t6 & R6 & HP6 & Rq6 & Cn6 & O6 & M6).
  rewrite <- B5 in R6.
  match goal with |- context [stage P plen sum g acc5 ?f] =>
    destruct (stage_spec s acc5 f t6 A5 R6) as [A6 B6]; set (acc6 := stage P plen sum g acc5 f) in * end.
  (* the transfer *)
  set (cn := mkconn sd (p_origin P (peers P t4 sd)) (shown P (peers P t4 sd) [])) in *.
  destruct (final_steps t6 cn Hi HP6) as (t7 & R7 & V7).
  - rewrite Cn6, Ca5. apply find_conn_snoc; auto.
  - unfold cn. cbn [c_view]. unfold shown. rewrite (ph_hsd _ HP4). unfold bitfield. apply (ph_full _ HP4 i Hi).
  - rewrite (O6 sd) by auto. rewrite Cs5, has_conn_app. cbn. rewrite Nat.eqb_refl. apply orb_true_r.
  - intros m Hm. rewrite M6, M5 in Hm. apply filter_In in Hm as [_ Hm]. now apply negb_true_iff in Hm.
  - intros r Hr. rewrite Rq6 in Hr. destruct (is_pending r) eqn:Pd; auto.
    destruct (expire_all_pending _ _ _ Hr Pd) as [Hin Hno]. exfalso. apply (Hno r Hin). auto.
  - exists t7. rewrite run_strict_app, A6, B6. auto.
Qed.

End Prog.
