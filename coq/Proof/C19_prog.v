(* C19: progress is always possible — from every state that satisfies the invariant, an agent
   that misses piece i and a seeder that is up can run `plan`, every label of which is enabled,
   and the agent then has piece i verified. *)
From Coq Require Import List NArith Bool Arith Lia.
From K.Model Require Import C19.
From K.Proof Require Import C19_base C19_inv.
Import ListNotations.

Section Prog.
Variable P : Type.
Variable plen : P -> N.
Variable sum : P -> N.
Variable g : cfg P.
Hypothesis Hsums : sums_ok P sum g.
Hypothesis Hlim : limits_ok P g.

Local Notation peer := (peer P).
Local Notation state := (state P).
Local Notation label := (label P).
Local Notation step := (step P plen sum g).
Local Notation run := (run P plen sum g).
Local Notation run_strict := (run_strict P plen sum g).
Local Notation n := (npieces P g).
Local Notation blob := (g_blob P g).
Local Notation Inv := (Inv P plen sum g).

Lemma run_strict_app : forall l1 l2 s,
  run_strict s (l1 ++ l2) = match run_strict s l1 with Some s1 => run_strict s1 l2 | None => None end.
Proof.
  induction l1 as [|l t IH]; intros l2 s; cbn; auto. destruct (step s l); auto.
Qed.

Lemma run_strict_run : forall l s s', run_strict s l = Some s' -> run s l = s'.
Proof.
  induction l as [|l t IH]; intros s s' H; [cbn in *; congruence|].
  cbn [C19.run_strict] in H. unfold C19.run. cbn [fold_left]. unfold exec at 2.
  destruct (step s l); [|discriminate]. apply IH. exact H.
Qed.

(* ---- labels that only touch connections, requests and messages *)
Definition bk (l : label) : bool :=
  match l with Disconnect _ _ | Connect _ _ _ | Expire _ _ _ => true | _ => false end.

Definition core_eq (x y : peer) : Prop :=
  p_up P x = p_up P y /\ p_kind P x = p_kind P y /\ p_st P x = p_st P y /\ p_dat P x = p_dat P y
  /\ p_committed P x = p_committed P y /\ p_wr P x = p_wr P y.

Lemma core_eq_refl : forall x, core_eq x x.
Proof. intros. repeat split. Qed.

Lemma core_upd : forall (f : nat -> peer) a v x, core_eq v (f a) -> core_eq (upd f a v x) (f x).
Proof.
  intros f a v x H. unfold upd. destruct (Nat.eqb x a) eqn:E; [|apply core_eq_refl].
  apply Nat.eqb_eq in E. now subst.
Qed.

Lemma bk_core : forall s l s' x, bk l = true -> step s l = Some s' -> core_eq (peers P s' x) (peers P s x).
Proof.
  intros s l s' x B H. destruct l; try discriminate; cbn [C19.step] in H.
  - match type of H with (if ?c then _ else _) = _ => destruct c eqn:C; [|discriminate] end.
    inversion H; subst; clear H. cbn.
    unfold upd. destruct (Nat.eqb x p) eqn:E1; [apply Nat.eqb_eq in E1; subst; repeat split|].
    destruct (Nat.eqb x a) eqn:E2; [apply Nat.eqb_eq in E2; subst; repeat split|]. apply core_eq_refl.
  - match type of H with (if ?c then _ else _) = _ => destruct c eqn:C; [|discriminate] end.
    inversion H; subst; clear H. cbn. apply core_upd. repeat split.
  - destruct (p_up P (peers P s a)); [|discriminate]. inversion H; subst; clear H. cbn.
    apply core_upd. repeat split.
Qed.

Lemma bk_payloads : forall l, bk l = true -> label_payloads P l = [].
Proof. intros l H. destruct l; try discriminate; reflexivity. Qed.

Lemma bk_inv : forall s l s', bk l = true -> Inv s -> step s l = Some s' -> Inv s'.
Proof.
  intros s l s' B HI H. eapply step_inv; eauto. rewrite bk_payloads; auto.
Qed.

(* ---- the facts that every stage of the plan keeps *)
Variables a sd i : nat.

Record Ph (t : state) : Prop := mkPh {
  ph_inv : Inv t;
  ph_upa : p_up P (peers P t a) = true;
  ph_ha : honest P (peers P t a) = true;
  ph_upsd : p_up P (peers P t sd) = true;
  ph_hsd : honest P (peers P t sd) = true;
  ph_full : forall j, j < n -> is_complete (p_st P (peers P t sd) j) = true;
  ph_empty : p_st P (peers P t a) i = Empty }.

Lemma Ph_bk : forall s l s', bk l = true -> Ph s -> step s l = Some s' -> Ph s'.
Proof.
  intros s l s' B [A1 A2 A3 A4 A5 A6 A7] H.
  pose proof (bk_core _ _ _ a B H) as (Ua & Ka & Sa & _).
  pose proof (bk_core _ _ _ sd B H) as (Us & Ks & Ss & _).
  constructor.
  - eapply bk_inv; eauto.
  - congruence.
  - unfold honest in *. congruence.
  - congruence.
  - unfold honest in *. congruence.
  - intros j Hj. rewrite Ss. auto.
  - rewrite Sa. auto.
Qed.

Lemma Ph_neq : forall t, i < n -> Ph t -> a <> sd.
Proof.
  intros t Hi H E. pose proof (ph_full _ H i Hi) as F. rewrite <- E, (ph_empty _ H) in F. discriminate.
Qed.

(* ---- Disconnect *)
Lemma disc_step : forall s x q,
  p_up P (peers P s x) = true -> has_conn (p_conns P (peers P s x)) q = true ->
  exists s', step s (Disconnect x q) = Some s'
    /\ p_conns P (peers P s' x) = del_conn (p_conns P (peers P s x)) q
    /\ (forall y, y <> x -> peers P s' y = peers P s y).
Proof.
  intros s x q U C. cbn [C19.step]. rewrite U, C. cbn. eexists. split; [reflexivity|]. cbn. split.
  - now rewrite upd_same.
  - intros y Hy. now rewrite upd_other.
Qed.

Lemma has_conn_del_sub : forall cs q p, has_conn (del_conn cs q) p = true -> has_conn cs p = true.
Proof.
  intros cs q p H. apply has_conn_in in H as (c & Hc & E). apply has_conn_in. exists c. split; auto.
  unfold del_conn in Hc. apply filter_In in Hc. tauto.
Qed.

Lemma has_conn_hd : forall c cs, has_conn (c :: cs) (c_peer c) = true.
Proof. intros. unfold has_conn. cbn. now rewrite Nat.eqb_refl. Qed.

(* stage: tear down the connection x has to q, if any *)
Lemma disc_stage : forall t x q,
  Ph t -> p_up P (peers P t x) = true ->
  exists t', run_strict t (if has_conn (p_conns P (peers P t x)) q then [Disconnect x q] else []) = Some t'
    /\ Ph t' /\ has_conn (p_conns P (peers P t' x)) q = false
    /\ (forall y, y <> x -> peers P t' y = peers P t y)
    /\ (forall p, has_conn (p_conns P (peers P t' x)) p = true -> has_conn (p_conns P (peers P t x)) p = true)
    /\ length (p_conns P (peers P t' x)) <= length (p_conns P (peers P t x)).
Proof.
  intros t x q HP U. destruct (has_conn (p_conns P (peers P t x)) q) eqn:C.
  - destruct (disc_step t x q U C) as (t' & Hs & Hc & Ho). exists t'. cbn [C19.run_strict]. rewrite Hs.
    split; [reflexivity|]. split; [eapply Ph_bk; eauto; reflexivity|]. rewrite Hc.
    split; [apply has_conn_del|]. split; [auto|]. split; [apply has_conn_del_sub|apply del_conn_length].
  - exists t. cbn. split; [reflexivity|]. split; [assumption|]. split; [assumption|].
    split; [reflexivity|]. split; auto.
Qed.

(* stage: make room for one more connection at x *)
Definition capf (x : nat) (t : state) : list label :=
  match p_conns P (peers P t x) with
  | c :: _ => if Nat.leb (g_maxconn P g) (length (p_conns P (peers P t x))) then [Disconnect x (c_peer c)] else []
  | [] => []
  end.

Lemma cap_stage : forall t x,
  Ph t -> p_up P (peers P t x) = true ->
  exists t', run_strict t (capf x t) = Some t'
    /\ Ph t' /\ length (p_conns P (peers P t' x)) < g_maxconn P g
    /\ (forall y, y <> x -> peers P t' y = peers P t y)
    /\ (forall p, has_conn (p_conns P (peers P t' x)) p = true -> has_conn (p_conns P (peers P t x)) p = true).
Proof.
  intros t x HP U. unfold capf.
  pose proof (pi_cap _ _ _ _ _ (proj1 (ph_inv _ HP) x)) as Hcap.
  destruct Hlim as (_ & _ & Hm).
  destruct (p_conns P (peers P t x)) as [|c cs] eqn:E.
  - exists t. cbn. rewrite E. cbn. split; [reflexivity|]. split; [assumption|]. split; [lia|]. split; auto.
  - destruct (Nat.leb (g_maxconn P g) (length (c :: cs))) eqn:L.
    + assert (C : has_conn (p_conns P (peers P t x)) (c_peer c) = true) by (rewrite E; apply has_conn_hd).
      destruct (disc_step t x (c_peer c) U C) as (t' & Hs & Hc & Ho). exists t'.
      cbn [C19.run_strict]. rewrite Hs. split; [reflexivity|]. split; [eapply Ph_bk; eauto; reflexivity|].
      rewrite Hc. split; [|split; [auto|]].
      * pose proof (del_conn_length_lt _ _ C). rewrite E in *. lia.
      * rewrite E. apply has_conn_del_sub.
    + exists t. cbn. rewrite E. apply Nat.leb_gt in L. split; [reflexivity|]. split; [assumption|].
      split; [exact L|]. split; auto.
Qed.

(* ---- Connect *)
Lemma conn_step : forall t,
  a <> sd -> p_up P (peers P t a) = true -> p_up P (peers P t sd) = true ->
  has_conn (p_conns P (peers P t a)) sd = false -> has_conn (p_conns P (peers P t sd)) a = false ->
  length (p_conns P (peers P t a)) < g_maxconn P g -> length (p_conns P (peers P t sd)) < g_maxconn P g ->
  exists t', step t (Connect a sd []) = Some t'
    /\ p_conns P (peers P t' a) = p_conns P (peers P t a) ++ [mkconn sd (p_origin P (peers P t sd)) (shown P (peers P t sd) [])]
    /\ p_conns P (peers P t' sd) = p_conns P (peers P t sd) ++ [mkconn a (p_origin P (peers P t a)) (shown P (peers P t a) [])]
    /\ p_reqs P (peers P t' a) = p_reqs P (peers P t a)
    /\ msgs P t' = filter (fun m => negb (between P a sd m)) (msgs P t).
Proof.
  intros t Hn Ua Us C1 C2 L1 L2. cbn [C19.step].
  apply Nat.eqb_neq in Hn. apply Nat.ltb_lt in L1, L2. rewrite Hn, Ua, Us, C1, C2, L1, L2. cbn.
  eexists. split; [reflexivity|]. cbn. apply Nat.eqb_neq in Hn.
  rewrite upd_same. rewrite (upd_other _ _ _ _ _ Hn), upd_same. auto.
Qed.

(* ---- Expire: every outstanding request times out *)
Definition expire_all (rs : list req) (L : list req) : list req :=
  fold_left (fun rs r => expire rs (r_peer r) (r_piece r)) L rs.

Lemma expire_pending : forall rs p j r,
  In r (expire rs p j) -> is_pending r = true -> In r rs /\ ~ (r_piece r = j /\ r_peer r = p).
Proof.
  intros rs p j r H Hp. unfold expire in H. apply in_map_iff in H as (r0 & E & H0).
  destruct (Nat.eqb (r_piece r0) j && Nat.eqb (r_peer r0) p && is_pending r0) eqn:C.
  - subst r. discriminate.
  - subst r0. split; auto. intros [E1 E2]. rewrite E1, E2, !Nat.eqb_refl, Hp in C. discriminate.
Qed.

Lemma expire_all_pending : forall L rs r,
  In r (expire_all rs L) -> is_pending r = true ->
  In r rs /\ forall r0, In r0 L -> ~ (r_piece r = r_piece r0 /\ r_peer r = r_peer r0).
Proof.
  induction L as [|r1 L IH]; intros rs r H Hp; cbn in H.
  - split; [auto|intros ? []].
  - destruct (IH _ _ H Hp) as [H1 H2]. destruct (expire_pending _ _ _ _ H1 Hp) as [H3 H4].
    split; auto. intros r0 [<-|H0]; auto.
Qed.

Lemma expire_step : forall t p j,
  p_up P (peers P t a) = true ->
  exists t', step t (Expire a p j) = Some t'
    /\ p_reqs P (peers P t' a) = expire (p_reqs P (peers P t a)) p j
    /\ p_conns P (peers P t' a) = p_conns P (peers P t a)
    /\ (forall y, y <> a -> peers P t' y = peers P t y) /\ msgs P t' = msgs P t.
Proof.
  intros t p j U. cbn [C19.step]. rewrite U. eexists. split; [reflexivity|]. cbn.
  rewrite upd_same. cbn. repeat split; auto. intros y Hy. now rewrite upd_other.
Qed.

Lemma expire_stage : forall L t,
  Ph t ->
  exists t', run_strict t (map (fun r => Expire a (r_peer r) (r_piece r)) L) = Some t'
    /\ Ph t' /\ p_reqs P (peers P t' a) = expire_all (p_reqs P (peers P t a)) L
    /\ p_conns P (peers P t' a) = p_conns P (peers P t a)
    /\ (forall y, y <> a -> peers P t' y = peers P t y) /\ msgs P t' = msgs P t.
Proof.
  induction L as [|r L IH]; intros t HP.
  - exists t. cbn. split; [reflexivity|]. split; [assumption|]. split; [reflexivity|]. split; [reflexivity|]. split; auto.
  - destruct (expire_step t (r_peer r) (r_piece r) (ph_upa _ HP)) as (t1 & Hs & Hr & Hc & Ho & Hm).
    assert (HP1 : Ph t1) by (eapply Ph_bk; eauto; reflexivity).
    destruct (IH t1 HP1) as (t' & Hs' & HP' & Hr' & Hc' & Ho' & Hm').
    exists t'. cbn [map C19.run_strict]. rewrite Hs. split; [exact Hs'|]. split; [auto|].
    split; [rewrite Hr', Hr; reflexivity|]. split; [congruence|]. split; [|congruence].
    intros y Hy. rewrite Ho', Ho; auto.
Qed.

(* ---- the four labels that move the piece *)
Lemma npending_none : forall rs p, (forall r, In r rs -> is_pending r = false) -> npending rs p = 0.
Proof.
  intros rs p H. unfold npending. induction rs as [|r t IH]; cbn; auto.
  rewrite (H r (or_introl eq_refl)), andb_false_r. apply IH. intros; apply H; now right.
Qed.

Lemma valid_none : forall rs p j d, (forall r, In r rs -> is_pending r = false) -> valid rs p j d = true.
Proof.
  intros rs p j d H. unfold valid. apply forallb_forall. intros r Hr. now rewrite (H r Hr), andb_false_r.
Qed.

Lemma find_conn_has : forall cs p c, find_conn cs p = Some c -> has_conn cs p = true.
Proof.
  intros cs p c H. unfold find_conn in H. apply find_some in H as [H1 H2].
  unfold has_conn. apply existsb_exists. eauto.
Qed.

Lemma find_conn_snoc : forall cs p c, has_conn cs p = false -> c_peer c = p -> find_conn (cs ++ [c]) p = Some c.
Proof.
  intros cs p c H E. unfold find_conn, has_conn in *. induction cs as [|x t IH]; cbn in *.
  - now rewrite E, Nat.eqb_refl.
  - apply orb_false_iff in H as [H1 H2]. rewrite H1. auto.
Qed.

Lemma is_req_between : forall x y j m, is_req P x y j m = true -> between P x y m = true.
Proof.
  intros x y j m H. destruct m; cbn in *; try discriminate.
  apply andb_true_iff in H as [H _]. unfold between. cbn. now rewrite H.
Qed.

Lemma is_pay_between : forall x y j m, is_pay P y x j m = true -> between P x y m = true.
Proof.
  intros x y j m H. destruct m; cbn in *; try discriminate.
  apply andb_true_iff in H as [H _]. unfold between. cbn. rewrite H. apply orb_true_r.
Qed.

Lemma do_request_single : forall t x p j cn,
  p_up P (peers P t x) = true -> honest P (peers P t x) = true ->
  find_conn (p_conns P (peers P t x)) p = Some cn ->
  (forall r, In r (p_reqs P (peers P t x)) -> is_pending r = false) ->
  j < n -> c_view cn j = true -> is_complete (p_st P (peers P t x) j) = false ->
  do_request P g t x p [j] 1 =
    Some (mkstate P (upd (peers P t) x (set_reqs P (peers P t x) (p_reqs P (peers P t x) ++ [mkreq j p RPending])))
                    (msgs P t ++ [MReq x p j])).
Proof.
  intros t x p j cn U H C Np Hj V Nc. unfold do_request. rewrite U, H, C. cbn [negb andb].
  rewrite (npending_none _ p Np), Nat.sub_0_r.
  assert (L : 1 <= limit P g (c_origin cn)).
  { destruct Hlim as (L1 & L2 & _). unfold limit. destruct (c_origin cn); auto. }
  assert (E1 : Nat.ltb 0 (limit P g (c_origin cn)) = true) by (apply Nat.ltb_lt; lia).
  assert (E2 : Nat.leb (length [j]) (limit P g (c_origin cn)) = true) by (apply Nat.leb_le; cbn; lia).
  rewrite E1, E2. cbn [length Nat.leb andb nodupb memb existsb negb forallb].
  apply Nat.ltb_lt in Hj. rewrite Hj, V, Nc, (valid_none _ p j _ Np). cbn. reflexivity.
Qed.

Lemma final_steps : forall t cn,
  i < n -> Ph t ->
  find_conn (p_conns P (peers P t a)) sd = Some cn -> c_view cn i = true ->
  has_conn (p_conns P (peers P t sd)) a = true ->
  (forall m, In m (msgs P t) -> between P a sd m = false) ->
  (forall r, In r (p_reqs P (peers P t a)) -> is_pending r = false) ->
  exists t', run_strict t [Request a sd [i] 1; Serve sd a i; RecvBegin a sd i; RecvEnd a i] = Some t'
    /\ verified P t' a i = true.
Proof.
  intros t cn Hi HP Hcn Hv Hsa Hnm Hnp.
  pose proof (Ph_neq _ Hi HP) as Hne.
  destruct HP as [HI Ua Ha Us Hs Full Emp].
  assert (Nc : is_complete (p_st P (peers P t a) i) = false) by now rewrite Emp.
  destruct HI as [HPI HMI].
  (* the seeder's bytes of piece i *)
  pose proof (Full i Hi) as Fi.
  destruct (pi_data _ _ _ _ _ (HPI sd) i Fi) as [_ Hd].
  destruct (nth_error blob i) as [b|] eqn:Eb; [|apply nth_error_None in Eb; unfold npieces in Hi; lia].
  cbn [C19.run_strict C19.step].
  (* Request *)
  rewrite (do_request_single t a sd i cn Ua Ha Hcn Hnp Hi Hv Nc).
  set (xa := set_reqs P (peers P t a) (p_reqs P (peers P t a) ++ [mkreq i sd RPending])).
  (* Serve *)
  cbn [peers msgs].
  assert (Hsd1 : upd (peers P t) a xa sd = peers P t sd) by (apply upd_other; auto).
  rewrite Hsd1, Us, Hs, Hsa. cbn [andb].
  rewrite (take_first_snoc _ (is_req P a sd i) (msgs P t) (MReq a sd i)).
  2:{ intros m Hm. destruct (is_req P a sd i m) eqn:E; auto. apply is_req_between in E. rewrite (Hnm m Hm) in E. discriminate. }
  2:{ cbn. now rewrite !Nat.eqb_refl. }
  apply Nat.ltb_lt in Hi. rewrite Hi, Fi, Hd. cbn [andb peers msgs].
  (* RecvBegin *)
  set (ysd := set_conns P (peers P t sd) (view_set (p_conns P (peers P t sd)) a i)).
  assert (Ha2 : upd (upd (peers P t) a xa) sd ysd a = xa).
  { rewrite upd_other by auto. apply upd_same. }
  rewrite Ha2. unfold xa at 1 2 3. cbn [p_up honest p_kind set_reqs p_conns].
  fold (honest P (peers P t a)). rewrite Ua, Ha, (find_conn_has _ _ _ Hcn). cbn [andb].
  rewrite (take_first_snoc _ (is_pay P sd a i) (msgs P t) (MPay sd a i b)).
  2:{ intros m Hm. destruct (is_pay P sd a i m) eqn:E; auto. apply is_pay_between in E. rewrite (Hnm m Hm) in E. discriminate. }
  2:{ cbn. now rewrite !Nat.eqb_refl. }
  assert (Hl : len_ok P plen g i b = true) by (unfold len_ok; rewrite Eb; apply N.eqb_refl).
  rewrite Hl. unfold xa at 1. cbn [p_st set_reqs]. rewrite Emp.
  (* RecvEnd *)
  cbn [peers msgs]. rewrite upd_same. cbn [p_up p_st p_wr]. unfold xa at 1. cbn [p_up set_reqs].
  rewrite Ua, upd_same. cbn [is_dirty andb].
  unfold xa at 1. cbn [p_wr set_reqs].
  rewrite (take_first_snoc _ (fun w => Nat.eqb (w_piece P w) i) (p_wr P (peers P t a)) (mkwrt P i sd b)).
  2:{ intros w Hw. destruct (Nat.eqb (w_piece P w) i) eqn:E; auto. apply Nat.eqb_eq in E.
      pose proof (pi_dirty _ _ _ _ _ (HPI a) w Hw) as Dw. rewrite E, Emp in Dw. discriminate. }
  2:{ cbn. apply Nat.eqb_refl. }
  cbn [w_data].
  assert (Hs2 : sum_ok P sum g i b = true).
  { unfold sum_ok. rewrite Hsums, nth_error_map, Eb. cbn. apply N.eqb_refl. }
  rewrite Hs2. eexists. split; [reflexivity|]. unfold verified. cbn [peers]. rewrite upd_same. cbn [p_st].
  now rewrite upd_same.
Qed.

End Prog.
