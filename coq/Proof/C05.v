(* C05 — the theorems, derived from the invariant of Proof/C05_inv.v *)
From Coq Require Import List NArith Bool Lia Arith PeanoNat.
From K.Model Require Import C05.
From K.Proof Require Import C05_inv.
Import ListNotations.
Local Open Scope N_scope.

(* ---------------------------------------------------------------- the store opens *)
Theorem opens : forall E es ep,
  let s := run_epoch E (run_epochs E es) ep in
  root_up s = true /\ root_ca s = true /\ (forall u, up s u = None).
Proof. intros. repeat split. Qed.

(* ---------------------------------------------------------------- every cached blob hashes to its name *)
Theorem listed_hash_to_name : forall E es d c,
  fileof ACa d FData (run_epochs E es) = Some c -> eH E c = d.
Proof.
  intros E es d c H. pose proof (epochs_inv E es) as I.
  rewrite fileof_ca in H. destruct (ca (run_epochs E es) d) as [e |] eqn:C; [| discriminate].
  destruct (I d e C) as [D _]. apply D. exact H.
Qed.

(* the same at the level of one crash: from any state satisfying the invariant *)
Theorem crash_hash_to_name : forall E ns s ops k d c,
  Inv E s -> fileof ACa d FData (recover (crash k (epoch_calls E ns s ops) s)) = Some c -> eH E c = d.
Proof.
  intros E ns s ops k d c Is H.
  pose proof (recover_inv E _ (crash_inv E ns s ops k Is)) as I.
  rewrite fileof_ca in H. destruct (ca (recover (crash k (epoch_calls E ns s ops) s)) d) as [e |] eqn:C; [| discriminate].
  destruct (I d e C) as [D _]. apply D. exact H.
Qed.

(* ---------------------------------------------------------------- metainfo is absent or valid *)
Lemma md_inv : forall E s d, env_ok E -> Inv E s -> md E s d = MAbsent \/ md E s d = MValid.
Proof.
  intros E s d OK I. unfold md, md_gen.
  destruct (ca s d) as [e |] eqn:C; [| left; reflexivity].
  destruct (e_data e) as [c |] eqn:D; [| left; reflexivity].
  destruct (e_meta e) as [b |] eqn:M; [| left; reflexivity].
  destruct (I d e C) as [_ D2]. destruct (D2 b M) as (c' & Hc' & Sh).
  rewrite D in Hc'. injection Hc' as <-.
  destruct (mshape_class E d c b OK Sh) as [V | N].
  - rewrite (ok_dec E OK d c b V), V. right. reflexivity.
  - rewrite N. left. reflexivity.
Qed.

Theorem metainfo_absent_or_valid : forall E es d, env_ok E ->
  md E (run_epochs E es) d = MAbsent \/ md E (run_epochs E es) d = MValid.
Proof. intros. apply md_inv; [assumption | apply epochs_inv]. Qed.

(* valid means: the sidecar decodes to the metainfo of the cached bytes *)
Lemma md_valid_means : forall E s d, md E s d = MValid ->
  exists c b, fileof ACa d FData s = Some c /\ fileof ACa d FMeta s = Some b /\ evalid E d c b = true.
Proof.
  intros E s d H. unfold md, md_gen in H. rewrite !fileof_ca.
  destruct (ca s d) as [e |]; [| discriminate].
  destruct (e_data e) as [c |] eqn:D; [| discriminate].
  destruct (e_meta e) as [b0 |] eqn:M; [| discriminate].
  destruct (edec E b0); [| discriminate]. destruct (evalid E d c b0) eqn:V; [| discriminate].
  exists c, b0. cbn. rewrite D, M. auto.
Qed.

(* the pre-fix read path can only differ by reporting a deserialisation error where the fixed one says absent *)
Lemma md_old_cases : forall E s d, env_ok E -> Inv E s ->
  md_old E s d = md E s d \/ (md_old E s d = MBroken /\ md E s d = MAbsent).
Proof.
  intros E s d OK I. unfold md_old, md, md_gen.
  destruct (ca s d) as [e |]; [| left; reflexivity].
  destruct (e_data e) as [c0 |]; [| left; reflexivity].
  destruct (e_meta e) as [b0 |]; [| left; reflexivity].
  destruct (edec E b0); [left; reflexivity | right; split; reflexivity].
Qed.

(* ---------------------------------------------------------------- a concrete environment (non-vacuity, witnesses) *)
Definition toy : env :=
  mkenv (fun c => hd 99 c)
        (fun d _ pl => [7; d; pl; 9])
        (fun b => match b with [x; _; _; w] => (x =? 7) && (w =? 9) | _ => false end)
        (fun d _ b => match b with [x; d'; pl; w] => (x =? 7) && (w =? 9) && ((d' =? d) && negb (pl =? 0)) | _ => false end)
        (fun _ => 4)
        (fun d => [d; d])
        (fun d => [d; 1; 2]).

Lemma toy_ok : env_ok toy.
Proof.
  constructor; cbn.
  - intros d c pl H. rewrite N.eqb_refl. apply N.eqb_neq in H. rewrite H. reflexivity.
  - intros d c b H. destruct b as [| x [| y [| z [| w [| v b]]]]]; try discriminate.
    apply andb_prop in H as [H _]. exact H.
  - intros d c pl m z H.
    destruct m as [| [| [| [| m]]]]; destruct z as [| [| [| [| [| z]]]]]; cbn; rewrite ?firstn_nil; cbn; try reflexivity; try (cbn in H; lia).
  - intros z. destruct z as [| [| [| [| [| z]]]]]; reflexivity.
  - intros _. discriminate.
Qed.

(* the witness history: a backend refresh of blob 5; crash point 17 lies between the creation and the
   write of its `_torrentmeta` sidecar *)
Definition wit_ops : list op := [Refresh 5 [5; 1; 2] true].
Definition wit_calls : list call := epoch_calls toy 0 fs0 wit_ops.
Definition wit_state : fs := recover (crash 17 wit_calls fs0).

Lemma wit_shape : nth 16 wit_calls (CBad 0) = CCreate ACa 5 FMeta /\ nth 17 wit_calls (CBad 0) = CWrite ACa 5 FMeta 0 [7; 5; 4; 9]
                  /\ length wit_calls = 18%nat.
Proof. vm_compute. repeat split. Qed.

(* before the fix: the blob is cached and intact, its metainfo read fails, and reading does not repair it *)
Theorem empty_torrentmeta_refuted :
  env_ok toy /\
  fileof ACa 5 FData wit_state = Some [5; 1; 2] /\
  fileof ACa 5 FMeta wit_state = Some [] /\
  md_old toy wit_state 5 = MBroken /\
  md_old toy (after toy wit_state (GetMeta 5)) 5 = MBroken.
Proof. split; [exact toy_ok |]. vm_compute. repeat split. Qed.

(* after the fix the same state reads as absent, and each on-demand path regenerates valid metainfo *)
Theorem empty_torrentmeta_fixed :
  md toy wit_state 5 = MAbsent /\
  md toy (after toy wit_state (Refresh 5 (eblob toy 5) true)) 5 = MValid /\
  md toy (after toy wit_state (WriteBack 5)) 5 = MValid /\
  md toy (after toy wit_state (Generate 5)) 5 = MValid.
Proof. vm_compute. repeat split. Qed.

(* a name can be listed without being a blob: crash between the last-access sidecar and the rename *)
Theorem listed_unreadable_refuted :
  let s := recover (crash 13 wit_calls fs0) in
  isSome (ca s 5) = true /\ fileof ACa 5 FData s = None /\ md toy s 5 = MAbsent /\
  fileof ACa 5 FData (after toy s (Refresh 5 (eblob toy 5) true)) = Some [5; 1; 2].
Proof. vm_compute. repeat split. Qed.

(* the executable oracle holds on the model at every crash point of the witness history *)
Theorem check_witness : C05_check toy (model_recs toy 0 6 wit_ops) = true.
Proof. vm_compute. reflexivity. Qed.

(* ---------------------------------------------------------------- soundness of the hash / metainfo clauses of the oracle *)
Definition core_ok (E : env) (d : N) (k : kobs) : bool :=
  opt_hash_ok E d (k_data k) && (k_listed k || negb (isSome (k_data k))) && absent_or_valid (k_md k) && absent_or_valid (k_gm k).

Lemma observe_core_ok : forall E s d, env_ok E -> Inv E s -> core_ok E d (observe_key E s d) = true.
Proof.
  intros E s d OK I. unfold core_ok, observe_key. cbn [k_data k_listed k_md k_gm].
  assert (A : absent_or_valid (md E s d) = true) by (destruct (md_inv E s d OK I) as [-> | ->]; reflexivity).
  rewrite A. rewrite !andb_true_r. apply andb_true_intro. split.
  - unfold opt_hash_ok. destruct (fileof ACa d FData s) as [c |] eqn:F; [| reflexivity].
    apply N.eqb_eq. rewrite fileof_ca in F. destruct (ca s d) as [e |] eqn:C; [| discriminate].
    destruct (I d e C) as [D _]. apply D. exact F.
  - rewrite fileof_ca. destruct (ca s d); [reflexivity |]. reflexivity.
Qed.

Theorem check_core_sound : forall E ns n ops k d, env_ok E -> (d < n) ->
  core_ok E d (observe_key E (recover (crash k (epoch_calls E ns fs0 ops) fs0)) d) = true.
Proof.
  intros. apply observe_core_ok; [assumption |]. apply recover_inv, crash_inv, Inv_fs0.
Qed.
