(* C09: the invariant that ties the state of the tiered store to what the property promises
   (the ghost), and the tactics used to show it is preserved. *)
From Coq Require Import List NArith Bool Lia.
From K.Model Require Import C09.
From K.Proof Require Import C09_base.
Import ListNotations.
Local Open Scope N_scope.

Definition mds_eq (a b : list (sfx * bytes)) : Prop := forall x, get x a = get x b.

Definition dmd (D : option dent) (x : sfx) : option bytes :=
  match D with Some e => get x (d_mds e) | None => None end.

Definition disk_data (D : option dent) (d : bytes) : Prop :=
  exists e, D = Some e /\ d_complete e = true /\ d_data e = d.

(* the worker's pc as far as key k is concerned *)
Definition wpos (p : pc) (k : key) : pc := if won p k then p else WIdle.

(* where the data of a live, not yet synced blob is, depending on the progress of its flush *)
Definition data_inv (p : pc) (fo : fobj) (m : ment) (D : option dent) (d : bytes) : Prop :=
  if f_dd fo then
    match p with
    | WIdle | WStart _ _ => D = None
    | WOpened _ _ inc => D = None /\ inc = m_inc m
    | WCreated _ _ inc dinc | WChecked _ _ inc dinc =>
        inc = m_inc m /\ exists e, D = Some e /\ d_inc e = dinc /\ d_complete e = false
    | WCopied _ _ dinc => exists e, D = Some e /\ d_inc e = dinc /\ d_complete e = false /\ d_data e = d
    | WDataDone _ _ | WLoop _ _ | WMd _ _ _ | WMdW _ _ _ _ _ | WMdFlushed _ _ => disk_data D d
    | WFail1 _ | WFail2 _ | WUnban _ => False
    end
  else
    match p with
    | WIdle | WStart _ _ | WDataDone _ _ | WLoop _ _ | WMd _ _ _ | WMdW _ _ _ _ _ | WMdFlushed _ _ => disk_data D d
    | _ => False
    end.

(* every metadata suffix is in sync between memory and disk, or still marked dirty, or in the
   snapshot the worker is flushing *)
Definition md_inv (p : pc) (fo : fobj) (m : ment) (D : option dent) : Prop :=
  forall x,
    match p with
    | WMdW _ _ y ov r =>
        if x =? y then ov = get x (m_mds m) \/ In x (f_dirty fo) \/ In x r
        else dmd D x = get x (m_mds m) \/ In x (f_dirty fo) \/ In x r
    | WMd _ _ snap => dmd D x = get x (m_mds m) \/ In x (f_dirty fo) \/ In x snap
    | _ => dmd D x = get x (m_mds m) \/ In x (f_dirty fo)
    end.

Definition synced (s : st) (k : key) (d : bytes) (mds : list (sfx * bytes)) : Prop :=
  exists e, get k (disk s) = Some e /\ d_complete e = true /\ d_data e = d /\ mds_eq (d_mds e) mds /\
            get k (fblobs s) = None /\ (won (wpc s) k = true -> wpc s = WUnban k).

Definition flushing (s : st) (k : key) (m : ment) (d : bytes) : Prop :=
  exists id fo, get k (fblobs s) = Some id /\ get id (heap s) = Some fo /\
                data_inv (wpos (wpc s) k) fo m (get k (disk s)) d /\
                md_inv (wpos (wpc s) k) fo m (get k (disk s)).

Definition live_inv (s : st) (k : key) (d : bytes) (mds : list (sfx * bytes)) : Prop :=
  match get k (mem s) with
  | None => synced s k d mds
  | Some m => m_complete m = true /\ m_data m = d /\ mds_eq (m_mds m) mds /\
              (synced s k d mds \/ (m_banned m = true /\ flushing s k m d))
  end.

Definition ghost_inv (s : st) (gs : gst) (k : key) : Prop :=
  match gs with
  | GAbsent => get k (mem s) = None /\ (get k (disk s) = None \/ at_created (wpc s) k = true)
  | GInc d mds =>
      (exists m, get k (mem s) = Some m /\ m_complete m = false /\ m_data m = d /\ mds_eq (m_mds m) mds) \/
      (get k (mem s) = None /\ won (wpc s) k = false /\
       exists e, get k (disk s) = Some e /\ d_complete e = false /\ d_data e = d /\ mds_eq (d_mds e) mds)
  | GLive d mds => live_inv s k d mds
  | GLimbo => True
  end.

(* facts that hold for every key whatever the property promises about it *)
Definition pc_id (p : pc) : option N :=
  match p with
  | WStart _ id | WOpened _ id _ | WCreated _ id _ _ | WChecked _ id _ _ | WCopied _ id _
  | WDataDone _ id | WLoop _ id | WMd _ id _ | WMdW _ id _ _ _ | WMdFlushed _ id => Some id
  | _ => None
  end.

Definition wk_inv (p : pc) (F : option N) (M : option ment) : Prop :=
  match p with
  | WIdle => True
  | WUnban _ => F = None
  | WFail1 _ | WFail2 _ => F = None -> M = None
  | p => match pc_id p with
         | Some id => F = Some id \/ (F = None /\ M = None)
         | None => True
         end
  end.

Definition gen_inv (s : st) (k : key) : Prop :=
  (forall id, get k (fblobs s) = Some id ->
     id < nxt s /\ (exists fo, get id (heap s) = Some fo /\ f_key fo = k) /\
     exists m, get k (mem s) = Some m /\ m_banned m = true /\ m_complete m = true) /\
  (forall m, get k (mem s) = Some m -> m_complete m = false ->
     get k (disk s) = None /\ get k (fblobs s) = None /\ won (wpc s) k = false) /\
  (won (wpc s) k = true -> wk_inv (wpc s) (get k (fblobs s)) (get k (mem s))).

(* the worker's own heap object *)
Definition w_inv (s : st) : Prop :=
  match pc_id (wpc s), wkey (wpc s) with
  | Some id, Some k => id < nxt s /\ forall fo, get id (heap s) = Some fo -> f_key fo = k
  | _, _ => True
  end.

Definition Inv (s : st) (g : ghost) : Prop :=
  w_inv s /\ forall k, gen_inv s k /\ ghost_inv s (gget g k) k.

(* ---------------------------------------------------------------- small facts *)
Lemma mds_eq_refl : forall a, mds_eq a a.
Proof. intros a x; auto. Qed.

Lemma mds_eq_putopt : forall a b x ov, mds_eq a b -> mds_eq (putopt x ov a) (putopt x ov b).
Proof.
  intros a b x ov H y. destruct (N.eq_dec x y) as [E|E].
  - subst. rewrite !get_putopt_eq; auto.
  - rewrite !get_putopt_ne by auto. apply H.
Qed.

Lemma mds_eq_put : forall a b x v, mds_eq a b -> mds_eq (put x v a) (put x v b).
Proof. intros; apply (mds_eq_putopt a b x (Some v)); auto. Qed.

Lemma mds_eq_del : forall a b x, mds_eq a b -> mds_eq (del x a) (del x b).
Proof. intros; apply (mds_eq_putopt a b x None); auto. Qed.

Lemma won_wkey : forall p k, won p k = true <-> wkey p = Some k.
Proof.
  intros p k; destruct p; cbn; split; intro H; try discriminate;
    try (apply N.eqb_eq in H; subst; auto); try (inversion H; subst; apply N.eqb_refl).
Qed.

Lemma won_false_wkey : forall p k, won p k = false <-> wkey p <> Some k.
Proof.
  intros. rewrite <- won_wkey. destruct (won p k); split; intros; congruence.
Qed.

Lemma gget_put_eq : forall g k v, gget (put k v g) k = v.
Proof. intros; unfold gget; rewrite get_put_eq; auto. Qed.

Lemma gget_put_ne : forall g k k' v, k <> k' -> gget (put k v g) k' = gget g k'.
Proof. intros; unfold gget; rewrite get_put_ne; auto. Qed.

(* simplification of state projections and of map lookups after updates *)
Ltac sproj :=
  cbn [mem disk fblobs heap queue nxt wpc set_mem set_disk set_fblobs set_heap set_queue set_nxt set_pc
       m_inc m_complete m_banned m_data m_mds m_set_banned m_set_complete m_set_mds
       d_inc d_complete d_data d_mds d_set_complete d_set_data d_set_mds f_key f_dd f_dirty] in *.

Ltac neq := solve [assumption | congruence | (intro; subst; congruence) | lia].

Ltac sget :=
  repeat first
    [ rewrite get_put_eq in * | rewrite get_del_eq in * | rewrite get_putopt_eq in *
    | rewrite gget_put_eq in *
    | rewrite get_put_ne in * by neq | rewrite get_del_ne in * by neq
    | rewrite get_putopt_ne in * by neq | rewrite gget_put_ne in * by neq ].

Ltac simp := repeat (sproj; sget).
