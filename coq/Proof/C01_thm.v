(* C01 — the theorems in the form stated in Properties/C01.v (argument order, spelled-out conclusions). *)
From Coq Require Import List NArith ZArith Bool.
From K.Model Require Import C01.
From K.Proof Require C01 C01_atomic C01_wit.
Import ListNotations.
Local Open Scope N_scope.

Lemma readable_hashes : forall (H : bytes -> N) (cf : cfg) (ops : list (op bytes)) (name : N),
  c_skip cf = false -> c_memverify cf = true -> race_free ops = true ->
  let v := view_of (exec H cf init ops) name in
  (forall c, v_data v = Some c -> H c = name) /\
  (forall k, v_size v = Some k -> exists c, v_data v = Some c /\ H c = name /\ k = len c) /\
  (forall nm c pl, v_meta v = Some (nm, c, pl) -> nm = name /\ H c = name).
Proof. intros H cf ops name Hs Hm Hrf. exact (C01.readable_hashes H cf Hs Hm ops name Hrf). Qed.

Lemma failed_write_invisible : forall (H : bytes -> N) (cf : cfg) (s : st) (o : op bytes),
  c_skip cf = false -> c_memverify cf = true -> bad_write H s o = true ->
  snd (step H cf s o) <> OOk /\ forall n, view_of (fst (step H cf s o)) n = view_of s n.
Proof. intros H cf s o Hs Hm. exact (C01.failed_write_invisible H cf Hs Hm s o). Qed.

(* contrapositive: a write that reports success delivered, in one of its attempts, bytes that hash to the name *)
Lemma ok_write_matches : forall (H : bytes -> N) (cf : cfg) (s : st) (o : op bytes),
  c_skip cf = false -> c_memverify cf = true -> snd (step H cf s o) = OOk -> bad_write H s o = false.
Proof.
  intros H cf s o Hs Hm Hok. destruct (bad_write H s o) eqn:Eb; [|reflexivity].
  destruct (C01.failed_write_invisible H cf Hs Hm s o Eb) as [Hn _]. contradiction.
Qed.

Lemma check_sound : forall (H : bytes -> N) (cf : cfg) (names : list N) (ops : list (op bytes)),
  c_skip cf = false -> c_memverify cf = true -> race_free ops = true ->
  C01_check H cf names ops (snd (run H cf names init ops)) = true.
Proof. intros H cf names ops Hs Hm Hrf. exact (C01.check_sound H cf Hs Hm names ops Hrf). Qed.

Lemma check_view_meaning : forall (H : bytes -> N) (name : N) (v : view bytes),
  view_ok H name v = true ->
  (forall c, v_data v = Some c -> H c = name) /\
  (forall k, v_size v = Some k -> exists c, v_data v = Some c /\ H c = name /\ k = len c) /\
  (forall nm c pl, v_meta v = Some (nm, c, pl) -> nm = name /\ H c = name).
Proof. exact C01.view_ok_meaning. Qed.

Lemma readable_hashes_atomic : forall (H : bytes -> N) (cf : cfg) (l : list aop) (name : N),
  c_skip cf = false ->
  let v := aview (arun H cf ainit l) name in
  (forall c, v_data v = Some c -> H c = name) /\
  (forall k, v_size v = Some k -> exists c, v_data v = Some c /\ H c = name /\ k = len c) /\
  (forall nm c pl, v_meta v = Some (nm, c, pl) -> nm = name /\ H c = name).
Proof. intros H cf l name Hs. exact (C01_atomic.readable_hashes_atomic H cf Hs l name). Qed.

Lemma api_refines_atomic : forall (H : bytes -> N) (cf : cfg) (ops : list (op bytes)),
  c_skip cf = false -> c_memverify cf = true -> race_free ops = true ->
  exists l : list aop,
    let a := arun H cf ainit l in let s := exec H cf init ops in
    a_disk a = disk s /\ a_mem a = mem s /\ forall name, aview a name = view_of s name.
Proof. intros H cf ops Hs Hm Hrf. exact (C01_atomic.api_refines_atomic H cf Hm ops Hrf). Qed.

(* the store is not vacuously safe: matching bytes are accepted and become readable *)
Lemma matching_create_visible : forall (H : bytes -> N) (cf : cfg) (s : st) (name : N) (w : stream bytes),
  s_err w = false -> valid name = true -> H (sdata w) = name -> read s name = None ->
  snd (step H cf s (Create name w)) = OOk /\ read (fst (step H cf s (Create name w))) name = Some (sdata w).
Proof.
  intros H cf s name w He Hv Hh Hr. cbn [step]. rewrite He. unfold move_in, verify_ok.
  rewrite Hv, Hh, N.eqb_refl, orb_true_r. cbn [andb negb].
  unfold read, view_of in Hr.
  destruct (alookup name (mem s)) eqn:Em; [discriminate|].
  unfold has. destruct (alookup name (disk s)) eqn:Ed; [discriminate|].
  cbn. split; [reflexivity|]. unfold read, view_of. cbn. rewrite Em, N.eqb_refl. reflexivity.
Qed.

Lemma matching_refresh_memory_visible : forall (H : bytes -> N) (cf : cfg) (s : st) (name stat : N) (w1 w2 : stream bytes) (pl : Z),
  c_mem cf = true -> s_err w1 = false -> valid name = true -> H (sdata w1) = name ->
  len (sdata w1) = stat -> (0 < pl)%Z -> alookup name (mem s) = None ->
  let r := step H cf s (Refresh name true stat w1 w2 pl) in
  snd r = OOk /\
  view_of (fst r) name = mkview (Some (sdata w1)) (Some (len (sdata w1))) (Some (name, sdata w1, pl)).
Proof.
  intros H cf s name stat w1 w2 pl Hm He Hv Hh Hl Hp Ha. subst stat. cbn zeta. cbn [step].
  unfold verify_ok, has. rewrite Hm, He, Hv, Hh, Ha, !N.eqb_refl, !orb_true_r.
  assert (Hp' : (0 <? pl)%Z = true) by now apply Z.ltb_lt. rewrite Hp'. cbn [andb negb].
  cbn. split; [reflexivity|]. unfold view_of. cbn. now rewrite N.eqb_refl.
Qed.
