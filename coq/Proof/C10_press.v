(* C10, part 6: a normal TTL/TTI pass under eviction pressure (more files than map entries).
   Exactness fails there (the scan evicts), but one direction survives: every listed, unprotected
   file that is idle or expired is gone after the pass. *)
From Coq Require Import List NArith ZArith Bool Lia.
From K.Gen Require Import C10_consts.
From K.Model Require Import C10.
From K.Proof Require Import C10_base C10_pass.
Import ListNotations.
Local Open Scope Z_scope.

Lemma evict_now : forall s, now (evict s) = now s.
Proof.
  intros. unfold evict. destruct ((0 <? cap s) && (cap s <? Z.of_nat (length (fm s)))); auto.
  destruct (back (fm s)); auto.
Qed.

Lemma reload_now : forall m s, now (fst (reload m s)) = now s.
Proof.
  intros. unfold reload. destruct (amem m (fm s)); auto. destruct (aget m (dk s)) as [f|]; auto.
  destruct (f_lat f); cbn [fst]; rewrite evict_now; reflexivity.
Qed.

Lemma peek_now : forall m s, now (fst (peek m s)) = now s.
Proof.
  intros. unfold peek. pose proof (reload_now m s) as H. destruct (reload m s) as [s1 ok].
  destruct ok; cbn [fst now] in *; auto.
Qed.

Lemma delete_file_now : forall m s, now (fst (delete_file m s)) = now s.
Proof.
  intros. unfold delete_file. pose proof (reload_now m s) as H. destruct (reload m s) as [s1 ok].
  destruct ok; cbn [fst] in *; auto. destruct (entry_delete m (dk s1)). cbn [fst now]. auto.
Qed.

(* how another operation can affect an unprotected file n: it disappears, or nothing about it changes *)
Definition stable (n : N) (s s' : st) : Prop :=
  aget n (dk s') = None \/ (aget n (dk s') = aget n (dk s) /\ amem n (fm s') = amem n (fm s)).

Lemma stable_refl : forall n s, stable n s s.
Proof. intros. right. auto. Qed.

Lemma stable_trans : forall n a b c,
  (aget n (dk b) = None -> aget n (dk c) = None) ->
  stable n a b -> stable n b c -> stable n a c.
Proof.
  intros n a b c Hn [H1|[H1 H1']] H2.
  - left. auto.
  - destruct H2 as [H2|[H2 H2']]; [left; auto | right; split; congruence].
Qed.

Lemma evict_stable : forall n s, persisted n (dk s) = false -> stable n s (evict s).
Proof.
  intros n s Hp. unfold evict.
  destruct ((0 <? cap s) && (cap s <? Z.of_nat (length (fm s)))); [|apply stable_refl].
  destruct (back (fm s)) as [v|]; [|apply stable_refl].
  unfold entry_delete, stable. cbn [dk fm].
  destruct (N.eq_dec n v) as [<-|Ne].
  - rewrite Hp. cbn [fst]. left. apply aget_arem_eq.
  - right. split.
    + destruct (persisted v (dk s)); cbn [fst]; auto. apply aget_arem_neq; auto.
    + apply amem_arem_neq; auto.
Qed.

Lemma evict_none : forall n s, aget n (dk s) = None -> aget n (dk (evict s)) = None.
Proof.
  intros n s H. unfold evict.
  destruct ((0 <? cap s) && (cap s <? Z.of_nat (length (fm s)))); auto.
  destruct (back (fm s)) as [v|]; auto. unfold entry_delete. cbn [dk].
  destruct (persisted v (dk s)); cbn [fst]; auto. rewrite aget_arem. destruct (N.eqb n v); auto.
Qed.

Lemma reload_stable : forall n m s, n <> m -> persisted n (dk s) = false -> stable n s (fst (reload m s)).
Proof.
  intros n m s Ne Hp. unfold reload. destruct (amem m (fm s)); cbn [fst]; [apply stable_refl|].
  destruct (aget m (dk s)) as [f|]; cbn [fst]; [|apply stable_refl].
  assert (G : forall f1 t, stable n s (evict (mkst (aput m f1 (dk s)) ((m, t) :: fm s) (now s) (cap s)))).
  { intros f1 t.
    set (s0 := mkst (aput m f1 (dk s)) ((m, t) :: fm s) (now s) (cap s)).
    assert (E0 : aget n (dk s0) = aget n (dk s) /\ amem n (fm s0) = amem n (fm s)).
    { unfold s0. cbn [dk fm]. split; [apply aget_aput_neq; auto|].
      unfold amem. cbn. destruct (N.eqb n m) eqn:E; auto. apply N.eqb_eq in E. contradiction. }
    destruct E0 as [E1 E2].
    assert (Hp0 : persisted n (dk s0) = false) by (unfold persisted in *; rewrite E1; exact Hp).
    destruct (evict_stable n s0 Hp0) as [H|[H H']]; [left; auto | right; split; congruence]. }
  destruct (f_lat f); apply G.
Qed.

Lemma reload_none : forall n m s, n <> m -> aget n (dk s) = None -> aget n (dk (fst (reload m s))) = None.
Proof.
  intros n m s Ne H. unfold reload. destruct (amem m (fm s)); cbn [fst]; auto.
  destruct (aget m (dk s)) as [f|]; cbn [fst]; auto.
  destruct (f_lat f); apply evict_none; cbn [dk]; rewrite aget_aput_neq; auto.
Qed.

Lemma peek_stable : forall n m s, n <> m -> persisted n (dk s) = false -> stable n s (fst (peek m s)).
Proof.
  intros n m s Ne Hp. unfold peek. pose proof (reload_stable n m s Ne Hp) as H.
  destruct (reload m s) as [s1 ok]. cbn [fst] in H. destruct ok; cbn [fst]; auto.
  unfold stable in *. cbn [dk fm]. destruct H as [H|[H H']]; [left; auto | right].
  split; auto. rewrite amem_front. auto.
Qed.

Lemma peek_none : forall n m s, n <> m -> aget n (dk s) = None -> aget n (dk (fst (peek m s))) = None.
Proof.
  intros n m s Ne H. unfold peek. pose proof (reload_none n m s Ne H) as H1.
  destruct (reload m s) as [s1 ok]. cbn [fst] in H1. destruct ok; cbn [fst]; auto.
Qed.

Lemma delete_file_stable : forall n m s, n <> m -> persisted n (dk s) = false ->
  stable n s (fst (delete_file m s)).
Proof.
  intros n m s Ne Hp. unfold delete_file. pose proof (reload_stable n m s Ne Hp) as H.
  destruct (reload m s) as [s1 ok]. cbn [fst] in H. destruct ok; cbn [fst]; auto.
  unfold entry_delete, stable in *. destruct (persisted m (dk s1)); cbn [fst dk fm].
  - destruct H as [H|[H H']]; [left; auto | right]. split; auto. rewrite amem_arem_neq; auto.
  - destruct H as [H|[H H']]; [left | right].
    + rewrite aget_arem_neq; auto.
    + split; [rewrite aget_arem_neq; auto | rewrite amem_arem_neq; auto].
Qed.

Lemma delete_file_none : forall n m s, n <> m -> aget n (dk s) = None ->
  aget n (dk (fst (delete_file m s))) = None.
Proof.
  intros n m s Ne H. unfold delete_file. pose proof (reload_none n m s Ne H) as H1.
  destruct (reload m s) as [s1 ok]. cbn [fst] in H1. destruct ok; cbn [fst]; auto.
  unfold entry_delete. destruct (persisted m (dk s1)); cbn [fst dk]; auto.
  rewrite aget_arem_neq; auto.
Qed.

(* a file that is not on disk and (hence, by wf) not in the map is not created by a peek of itself *)
Lemma peek_self_none : forall n s, wf s -> aget n (dk s) = None -> aget n (dk (fst (peek n s))) = None.
Proof.
  intros n s (A & B & C) H. unfold peek, reload.
  assert (Hm : amem n (fm s) = false).
  { destruct (amem n (fm s)) eqn:E; auto. apply amem_In in E. apply C in E.
    apply In_keys_aget in E. congruence. }
  rewrite Hm, H. cbn. exact H.
Qed.

Lemma back_cons_ne : forall (n : N) (t : Z) (m : list (N * Z)) v,
  m <> [] -> ~ In n (keys m) -> back ((n, t) :: m) = Some v -> v <> n.
Proof.
  intros n t m v Hne Hn Hb. cbn in Hb. destruct m as [|p m']; [contradiction|].
  apply back_In in Hb. intros ->. contradiction.
Qed.

(* the scan reaches n itself: it is loaded (never evicted by its own load) and seen *)
Lemma peek_self : forall n s f, wf s -> aget n (dk s) = Some f ->
  let s1 := fst (peek n s) in
  snd (peek n s) = true /\ aget n (dk s1) = Some (seen (amem n (fm s)) (now s) f)
  /\ amem n (fm s1) = true /\ now s1 = now s.
Proof.
  intros n s f (A & B & C) Hf. unfold peek, reload. destruct (amem n (fm s)) eqn:Em.
  - cbn. rewrite Hf, seen_true, amem_front, Em. auto.
  - rewrite Hf.
    assert (Hnm : ~ In n (keys (fm s))) by (apply amem_false_In; exact Em).
    assert (G : forall f1 t,
      let s0 := mkst (aput n f1 (dk s)) ((n, t) :: fm s) (now s) (cap s) in
      aget n (dk (evict s0)) = Some f1 /\ amem n (fm (evict s0)) = true /\ now (evict s0) = now s).
    { intros f1 t s0. unfold evict.
      destruct ((0 <? cap s0) && (cap s0 <? Z.of_nat (length (fm s0)))) eqn:Ec.
      - destruct (back (fm s0)) as [v|] eqn:Eb.
        + assert (Hv : v <> n).
          { unfold s0 in Eb. cbn [fm] in Eb. apply (back_cons_ne n t (fm s) v); auto.
            intros E0. unfold s0 in Ec. cbn [cap fm] in Ec. rewrite E0 in Ec. cbn in Ec.
            apply andb_true_iff in Ec. destruct Ec as [E1 E2]. apply Z.ltb_lt in E1, E2. lia. }
          unfold entry_delete. cbn [dk fm now]. repeat split.
          * destruct (persisted v (dk s0)); cbn [fst]; unfold s0; cbn [dk].
            -- apply aget_aput_eq.
            -- rewrite aget_arem_neq; auto. apply aget_aput_eq.
          * unfold s0. cbn [fm]. rewrite amem_arem_neq; auto. unfold amem. cbn. rewrite N.eqb_refl. reflexivity.
        + unfold s0. cbn [dk fm now]. rewrite aget_aput_eq. unfold amem. cbn. rewrite N.eqb_refl. auto.
      - unfold s0. cbn [dk fm now]. rewrite aget_aput_eq. unfold amem. cbn. rewrite N.eqb_refl. auto. }
    unfold seen. destruct (f_lat f) eqn:El.
    + destruct (G f (z * NS)) as (G1 & G2 & G3). cbn [fst snd dk fm now]. rewrite amem_front. auto.
    + destruct (G (set_lat f (Some (lat_secs (now s)))) (now s)) as (G1 & G2 & G3).
      cbn [fst snd dk fm now]. rewrite amem_front. auto.
Qed.

Theorem ttl_loop_due_removed : forall tti ttl used low scan scanned s0 s n f,
  wf s -> now s = now s0 ->
  aget n (dk s0) = Some f ->
  ttl_due tti ttl (now s0) (amem n (fm s0)) f = true ->
  stable n s0 s ->
  In n scan ->
  aget n (dk (fst (ttl_loop tti ttl false used low scan scanned s))) = None.
Proof.
  intros tti ttl used low scan. induction scan as [|m t IH]; intros scanned s0 s n f W Hnow Hf Hdue St Hin.
  - contradiction.
  - assert (Hunp : is_persisted f = false).
    { unfold ttl_due in Hdue. apply andb_true_iff in Hdue. destruct Hdue as [H _].
      apply negb_true_iff in H. exact H. }
    (* once gone, gone for the rest of the loop *)
    assert (Gone : forall t' scanned' s', wf s' -> aget n (dk s') = None ->
              aget n (dk (fst (ttl_loop tti ttl false used low t' scanned' s'))) = None).
    { clear. induction t' as [|k t' IHt]; intros scanned' s' W' H'; cbn [ttl_loop fst]; auto.
      pose proof (peek_wf k s' W') as W1.
      assert (H1 : aget n (dk (fst (peek k s'))) = None).
      { destruct (N.eq_dec n k) as [<-|Ne]; [apply peek_self_none | apply peek_none]; auto. }
      destruct (peek k s') as [s1 ok]. cbn [fst] in *.
      destruct (if ok then aget k (dk s1) else None) as [fk|] eqn:Ek; [|apply IHt; auto].
      apply IHt.
      - destruct (ready tti ttl (now s1) fk && negb (false && (to_u64 (used - to_u64 scanned') <=? low))); auto.
        apply delete_file_wf; auto.
      - destruct (ready tti ttl (now s1) fk && negb (false && (to_u64 (used - to_u64 scanned') <=? low))); auto.
        destruct (N.eq_dec n k) as [<-|Ne]; [|apply delete_file_none; auto].
        destruct ok; [rewrite H1 in Ek | ]; discriminate. }
    cbn [ttl_loop]. destruct (N.eq_dec m n) as [->|Ne].
    + (* n's own turn *)
      destruct St as [Sn|[Sd Sm]].
      * pose proof (peek_self_none n s W Sn) as H1. pose proof (peek_wf n s W) as W1.
        destruct (peek n s) as [s1 ok]. cbn [fst] in *.
        destruct (if ok then aget n (dk s1) else None) eqn:Ek.
        -- destruct ok; [rewrite H1 in Ek|]; discriminate.
        -- apply Gone; auto.
      * rewrite Hf in Sd. destruct (peek_self n s f W Sd) as (P1 & P2 & P3 & P4).
        pose proof (peek_wf n s W) as W1.
        destruct (peek n s) as [s1 ok]. cbn [fst snd] in *. subst ok. rewrite P2.
        assert (Hr : ready tti ttl (now s1) (seen (amem n (fm s)) (now s) f) = true).
        { unfold ttl_due in Hdue. apply andb_true_iff in Hdue. destruct Hdue as [_ H].
          rewrite P4, Sm, Hnow. exact H. }
        rewrite Hr. cbn [andb negb]. apply Gone; [apply delete_file_wf; auto|].
        rewrite delete_file_inmap; auto. cbn [fst dk].
        assert (Hp : persisted n (dk s1) = false).
        { unfold persisted. rewrite P2, seen_persisted. exact Hunp. }
        rewrite Hp. apply aget_arem_eq.
    + (* another name's turn: n disappears or is untouched *)
      destruct Hin as [->|Hin]; [contradiction|].
      assert (Step : forall s', wf s' -> now s' = now s0 -> stable n s0 s' ->
                forall sc, aget n (dk (fst (ttl_loop tti ttl false used low t sc s'))) = None).
      { intros s' W' N' St' sc. eapply IH; eauto. }
      assert (Keep : forall a b, wf a -> stable n s0 a ->
                (aget n (dk a) = None -> aget n (dk b) = None) ->
                (persisted n (dk a) = false -> stable n a b) -> stable n s0 b).
      { intros a b Wa Sa Hn Hs. destruct Sa as [Sa|[Sa Sa']].
        - left. auto.
        - eapply stable_trans; [exact Hn | right; split; eauto |]. apply Hs.
          unfold persisted. rewrite Sa, Hf. exact Hunp. }
      pose proof (peek_wf m s W) as W1. pose proof (peek_now m s) as En.
      assert (S1 : stable n s0 (fst (peek m s))).
      { apply (Keep s _ W St); [apply peek_none; auto | apply peek_stable; auto]. }
      destruct (peek m s) as [s1 ok]. cbn [fst] in *.
      destruct (if ok then aget m (dk s1) else None) as [fm1|]; [|apply Step; auto; congruence].
      destruct (ready tti ttl (now s1) fm1 && negb (false && (to_u64 (used - to_u64 scanned) <=? low))).
      * apply Step.
        -- apply delete_file_wf; auto.
        -- rewrite delete_file_now. congruence.
        -- apply (Keep s1 _ W1 S1); [apply delete_file_none; auto | apply delete_file_stable; auto].
      * apply Step; auto. congruence.
Qed.

(* a normal pass, with or without room in the map: every listed, unprotected, idle-or-expired
   file is gone afterwards *)
Theorem ttl_pass_due_removed : forall tti ttl u scan s n f,
  wf s -> aget n (dk s) = Some f -> In n scan ->
  ttl_due tti ttl (now s) (amem n (fm s)) f = true ->
  aget n (dk (ttl_pass tti ttl 0 u scan s)) = None.
Proof.
  intros tti ttl u scan s n f W Hf Hin Hdue. unfold ttl_pass. cbn.
  eapply ttl_loop_due_removed; eauto. apply stable_refl.
Qed.
