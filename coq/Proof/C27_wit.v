(* C27: concrete schedules (witnesses and non-vacuity). *)
From Coq Require Import List NArith ZArith Bool Arith Lia.
From K.Model Require Import C27.
From K.Proof Require Import C27_inv C27.
Import ListNotations.
Local Open Scope N_scope.

Definition wa := mkpeer 0 0 100 false.
Definition wa2 := mkpeer 0 1 200 true.
Definition wb := mkpeer 1 1 101 false.

(* announce a at 0 (expires 10); at 11 the entry cleanup scans and marks index 0; a is renewed
   at 11 (expires 21); the clock moves to exactly 21; the remove region runs *)
Definition boundary_prefix : list lbl :=
  [LSpawn (CAnn 0 wa); LRun 0 []; LRun 0 []; LTick 11;
   LSpawn CCleanE; LRun 1 [0%nat]; LRun 1 [];
   LSpawn (CAnn 0 wa2); LRun 2 []; LRun 2 []; LTick 10].

(* the re-check of the remove region (local.go:230, Now().Before(expiresAt)) lets an entry go
   at the very instant now = expiresAt, which the scan (Now().After, local.go:203) would not
   have marked: "removed only when now > expiresAt" is false at the boundary *)
Lemma strict_boundary_refuted :
  exists t ls s l s' g p,
    exec (init t) ls = Some s /\ cstep s l = Some s' /\
    In p (g_list (group_at s g)) /\ ~ In p (g_list (group_at s' g)) /\
    now s' = e_exp (entry_at (group_at s g) p).
Proof.
  exists 10, boundary_prefix.
  destruct (exec (init 10) boundary_prefix) as [s|] eqn:E; [|vm_compute in E; discriminate].
  exists s, (LRun 1 []).
  destruct (cstep s (LRun 1 [])) as [s'|] eqn:E2;
    [|vm_compute in E; inversion E; subst s; vm_compute in E2; discriminate].
  exists s', 0%nat, 0%nat. split; [reflexivity|]. split; [reflexivity|].
  vm_compute in E. inversion E; subst s. vm_compute in E2. inversion E2; subst s'.
  vm_compute. intuition discriminate.
Qed.

(* one tick less and the renewed entry stays *)
Example boundary_one_before_kept :
  match exec (init 10) (firstn 10 boundary_prefix ++ [LTick 9; LRun 1 []]) with
  | Some s => g_list (group_at s 0) = [0%nat] /\ e_exp (entry_at (group_at s 0) 0) = 21
  | None => False
  end.
Proof. vm_compute. split; reflexivity. Qed.

(* a reader looks its group up; the group expires and is deleted; the peer announces again
   (into a new group); the reader then reads the old group: it returns the peer's previous
   announcement, which was the most recent one when the group was deleted -- a moment inside
   the read -- but no longer is when the read returns *)
Definition overlap_prefix : list lbl :=
  [LSpawn (CAnn 0 wa); LRun 0 []; LRun 0 [];
   LSpawn (CGet 0 5); LRun 1 [];
   LTick 6; LCgStart [0%nat]; LCgStep; LCgStep; LCgStep;
   LSpawn (CAnn 0 wa2); LRun 2 []; LRun 2 []].

Lemma stale_read_under_overlap :
  exists t ls s tid orc s' res r a,
    exec (init t) ls = Some s /\ cstep s (LRun tid orc) = Some s' /\
    nth_error (threads s') tid = Some (PDone res) /\ In r res /\
    last_ann (log s) 0 (p_id r) = Some a /\ a_peer a <> r.
Proof.
  exists 5, overlap_prefix.
  destruct (exec (init 5) overlap_prefix) as [s|] eqn:E; [|vm_compute in E; discriminate].
  exists s, 1%nat, [0%nat].
  destruct (cstep s (LRun 1 [0%nat])) as [s'|] eqn:E2;
    [|vm_compute in E; inversion E; subst s; vm_compute in E2; discriminate].
  exists s', [wa], wa, (mkann 0 wa2 6).
  split; [reflexivity|]. split; [reflexivity|].
  vm_compute in E. inversion E; subst s. vm_compute in E2. inversion E2; subst s'.
  vm_compute. intuition discriminate.
Qed.

(* ---------- non-vacuity ---------- *)

(* a reachable state with two peers listed, a reader past its lookup and an entry cleanup
   between scan and remove: the hypotheses of the read theorems are met and the read returns
   both peers *)
Definition nv_prefix : list lbl :=
  [LSpawn (CAnn 0 wa); LRun 0 []; LRun 0 []; LTick 4;
   LSpawn (CAnn 0 wb); LRun 1 []; LRun 1 []; LTick 7;
   LSpawn CCleanE; LRun 2 [0%nat]; LRun 2 [];
   LSpawn (CGet 0 5); LRun 3 []].

Example nonvacuous_read :
  match exec (init 10) nv_prefix with
  | Some s =>
      nth_error (threads s) 3 = Some (PRdRead 0 5 0 (log s)) /\
      nth_error (threads s) 2 = Some (PCeRemove 0 [0%nat] []) /\
      match cstep s (LRun 3 [1%nat; 0%nat]) with
      | Some s' => nth_error (threads s') 3 = Some (PDone [wb; wa])
      | None => False
      end /\
      (* wb is fresh (announced at 4, now 11, TTL 10), wa is not *)
      last_ann (log s) 0 1 = Some (mkann 0 wb 4) /\ (now s <? 4 + ttl s) = true
  | None => False
  end.
Proof. vm_compute. repeat split; reflexivity. Qed.

(* the sequential layer accepts a history with a renewal between scan and remove, and
   rejects an observation in which the renewed peer is missing; the property itself is
   violated by that observation *)
Definition nv_ops (last : list peer) : list op :=
  [OAnn 0 wa; OAnn 0 wb; OGet 0 1 [wb]; OTick 11; OGet 0 1000 [wa; wb];
   OCleanE [(0, Some (mkmid 0 wa2 3))]; OGet 0 1000 last; OTick 8; OCleanE [(0, None)]; OCleanG;
   OGet 0 1000 []; OAnn 0 wb; OGet 0 2 [wb]].

Example nonvacuous_run :
  (match run 10 (nv_ops [wa2]) with Some _ => true | None => false end) = true /\
  C27_check 10 (nv_ops [wa2]) = true /\
  (match run 10 (nv_ops []) with Some _ => true | None => false end) = false /\
  C27_check 10 (nv_ops []) = false /\
  C27_check 10 (nv_ops [wa]) = false.
Proof. vm_compute. repeat split; reflexivity. Qed.

(* an announcer that already holds the group pointer updates the group between the check and
   the delete region of the group cleanup: the re-check (local.go:262) keeps the group *)
Definition cg_recheck_sched : list lbl :=
  [LSpawn (CAnn 0 wa); LRun 0 []; LRun 0 [];
   LSpawn (CAnn 0 wa2); LRun 1 [];
   LTick 6; LCgStart [0%nat]; LCgStep;
   LRun 1 [];
   LCgStep; LCgStep].

Example nonvacuous_group_recheck :
  match exec (init 5) (firstn 8 cg_recheck_sched), exec (init 5) cg_recheck_sched with
  | Some s1, Some s =>
      smu s1 = Some (CgDelete 0 0 []) /\
      smu s = None /\ gmap s = [(0, 0%nat)] /\ g_deleted (group_at s 0) = false /\
      read_peers (group_at s 0) [0%nat] = [wa2] /\ g_last (group_at s 0) = 11
  | _, _ => False
  end.
Proof. vm_compute. repeat split; reflexivity. Qed.

(* the deleted-retry of getOrInitLockedPeerGroup (local.go:169-172): the group is deleted
   between the announcer's lookup and its g.mu.Lock; it reloads and the announcement lands in
   a new group *)
Definition retry_sched : list lbl :=
  [LSpawn (CAnn 0 wa); LRun 0 []; LRun 0 [];
   LSpawn (CAnn 0 wa2); LRun 1 [];
   LTick 6; LCgStart [0%nat]; LCgStep; LCgStep; LCgStep;
   LRun 1 []; LRun 1 []; LRun 1 []].

Example nonvacuous_deleted_retry :
  match exec (init 5) (firstn 11 retry_sched), exec (init 5) retry_sched with
  | Some s1, Some s =>
      nth_error (threads s1) 1 = Some (PAnnLookup 0 wa2) /\
      g_deleted (group_at s 0) = true /\ gmap s = [(0, 1%nat)] /\
      read_peers (group_at s 1) [0%nat] = [wa2] /\ nth_error (threads s) 1 = Some (PDone [])
  | _, _ => False
  end.
Proof. vm_compute. repeat split; reflexivity. Qed.
