(* Proofs for the BlobMemoryCache / write-through part of C13. *)
From Coq Require Import List NArith ZArith Bool Lia.
From K.Model Require Import C13.
Import ListNotations.
Local Open Scope N_scope.

(* ---------- association-list facts: entries by name ---------- *)
Lemma findE_none_notin name l : findE name l = None -> ~ In name (map e_name l).
Proof.
  unfold findE. induction l as [|e t IH]; cbn [find map In]; [tauto|].
  destruct (N.eqb_spec name (e_name e)) as [->|Hne]; [discriminate|].
  intros H [Heq|Hin]; [congruence | exact (IH H Hin)].
Qed.

Lemma findE_some name l e : findE name l = Some e -> In e l /\ e_name e = name.
Proof.
  unfold findE. intros H. apply find_some in H. destruct H as [Hi He].
  apply N.eqb_eq in He. split; [exact Hi | symmetry; exact He].
Qed.

Lemma delE_notin name l : ~ In name (map e_name l) -> delE name l = l.
Proof.
  unfold delE. induction l as [|e t IH]; cbn [filter map In]; [reflexivity|].
  intros Hn. destruct (N.eqb_spec name (e_name e)) as [Heq|Hne]; cbn [negb].
  - exfalso. apply Hn. left. symmetry. exact Heq.
  - f_equal. apply IH. intros Hi. apply Hn. right. exact Hi.
Qed.

Lemma delE_names_incl name l x : In x (map e_name (delE name l)) -> In x (map e_name l) /\ x <> name.
Proof.
  unfold delE. rewrite !in_map_iff. intros [e [He Hi]]. apply filter_In in Hi. destruct Hi as [Hi Hf].
  split; [exists e; tauto|]. intros ->. subst name. rewrite N.eqb_refl in Hf. discriminate.
Qed.

Lemma NoDup_delE name l : NoDup (map e_name l) -> NoDup (map e_name (delE name l)).
Proof.
  unfold delE. induction l as [|e t IH]; cbn [filter map]; [auto|].
  intros Hnd. inversion Hnd as [|? ? Hx Ht]; subst.
  destruct (negb (N.eqb name (e_name e))); cbn [map]; [|auto].
  constructor; [|auto]. intros Hi. apply Hx.
  apply (delE_names_incl name t (e_name e)) in Hi. tauto.
Qed.

Lemma sum_delE name l e :
  NoDup (map e_name l) -> findE name l = Some e ->
  sumN (map e_size (delE name l)) + e_size e = sumN (map e_size l).
Proof.
  unfold findE, delE. induction l as [|x t IH]; cbn [find filter map]; [discriminate|].
  intros Hnd. inversion Hnd as [|? ? Hx Ht]; subst.
  destruct (N.eqb_spec name (e_name x)) as [Heq|Hne]; cbn [negb].
  - intros [= <-]. subst name.
    pose proof (delE_notin _ _ Hx) as Hd. unfold delE in Hd. rewrite Hd.
    unfold sumN. cbn [map fold_right]. lia.
  - intros Hf. cbn [map sumN fold_right]. specialize (IH Ht Hf). unfold sumN in IH. lia.
Qed.

Lemma sumN_app a b : sumN (a ++ b) = sumN a + sumN b.
Proof. unfold sumN. induction a as [|x a IH]; cbn [app fold_right]; [reflexivity|]. rewrite IH. lia. Qed.

Lemma NoDup_app_snoc (l : list N) x : NoDup l -> ~ In x l -> NoDup (l ++ [x]).
Proof.
  induction l as [|a l IH]; cbn [app]; intros Hnd Hx.
  - constructor; [intros []|constructor].
  - inversion Hnd as [|? ? Ha Hl]; subst. constructor.
    + rewrite in_app_iff. cbn [In]. intros [Hi|[He|[]]]; [exact (Ha Hi)|]. apply Hx. left. symmetry. exact He.
    + apply IH; [exact Hl|]. intros Hi. apply Hx. right. exact Hi.
Qed.

(* ---------- association-list facts: callers by id ---------- *)
Lemma lookupP_none t l : lookupP t l = None -> ~ In t (map fst l).
Proof.
  unfold lookupP. induction l as [|x r IH]; cbn [find map In]; [tauto|].
  destruct (N.eqb_spec t (fst x)) as [->|Hne]; [discriminate|].
  intros H [Heq|Hin]; [congruence | exact (IH H Hin)].
Qed.

Lemma delP_notin t l : ~ In t (map fst l) -> delP t l = l.
Proof.
  unfold delP. induction l as [|x r IH]; cbn [filter map In]; [reflexivity|].
  intros Hn. destruct (N.eqb_spec t (fst x)) as [Heq|Hne]; cbn [negb].
  - exfalso. apply Hn. left. symmetry. exact Heq.
  - f_equal. apply IH. intros Hi. apply Hn. right. exact Hi.
Qed.

Lemma delP_ids t l x : In x (map fst (delP t l)) -> In x (map fst l) /\ x <> t.
Proof.
  unfold delP. rewrite !in_map_iff. intros [e [He Hi]]. apply filter_In in Hi. destruct Hi as [Hi Hf].
  split; [exists e; tauto|]. intros ->. subst t. rewrite N.eqb_refl in Hf. discriminate.
Qed.

Lemma delP_not_in t l : ~ In t (map fst (delP t l)).
Proof. intros H. apply delP_ids in H. tauto. Qed.

Lemma NoDup_delP t l : NoDup (map fst l) -> NoDup (map fst (delP t l)).
Proof.
  unfold delP. induction l as [|e r IH]; cbn [filter map]; [auto|].
  intros Hnd. inversion Hnd as [|? ? Hx Ht]; subst.
  destruct (negb (N.eqb t (fst e))); cbn [map]; [|auto].
  constructor; [|auto]. intros Hi. apply Hx. apply (delP_ids t r (fst e)) in Hi. tauto.
Qed.

Lemma delP_idem t x l : delP t (x :: delP t l) = if N.eqb t (fst x) then delP t l else x :: delP t l.
Proof.
  pose proof (delP_notin t (delP t l) (delP_not_in t l)) as Hd.
  unfold delP at 1. cbn [filter]. unfold delP at 1 in Hd. rewrite Hd.
  destruct (N.eqb t (fst x)); reflexivity.
Qed.

Lemma lookupP_delP t l : lookupP t (delP t l) = None.
Proof.
  unfold lookupP. destruct (find (fun x => N.eqb t (fst x)) (delP t l)) as [x|] eqn:E; [|reflexivity].
  apply find_some in E. destruct E as [Hi He]. apply N.eqb_eq in He.
  exfalso. apply (delP_not_in t l). rewrite He at 1. apply in_map. exact Hi.
Qed.

Lemma out_delP t l p :
  NoDup (map fst l) -> lookupP t l = Some p ->
  outstanding (delP t l) + phase_size p = outstanding l.
Proof.
  unfold lookupP, delP, outstanding. induction l as [|x r IH]; cbn [find filter map]; [discriminate|].
  intros Hnd. inversion Hnd as [|? ? Hx Ht]; subst.
  destruct (N.eqb_spec t (fst x)) as [Heq|Hne]; cbn [negb].
  - intros [= <-]. subst t. pose proof (delP_notin _ _ Hx) as Hd. unfold delP in Hd. rewrite Hd.
    unfold sumN. cbn [map fold_right]. lia.
  - intros Hf. cbn [map sumN fold_right]. specialize (IH Ht Hf). unfold sumN in IH. lia.
Qed.

Lemma outstanding_cons x l : outstanding (x :: l) = phase_size (snd x) + outstanding l.
Proof. reflexivity. Qed.

(* ---------- the invariant ---------- *)
Record INV (max : N) (y : sys) : Prop := mkINV {
  inv_max : c_max (s_c y) = max;
  inv_bal : total y = held y + reserved y;          (* accounting balances *)
  inv_bud : total y <= max;                         (* within budget *)
  inv_names : NoDup (map e_name (c_ents (s_c y)));  (* Go map: one entry per name *)
  inv_ids : NoDup (map fst (s_pend y))              (* one program counter per caller *)
}.

Lemma INV_init max : INV max (sinit max).
Proof. constructor; cbn; try constructor; lia. Qed.

Definition pop_ok (max : N) (p : pop) : bool :=
  match p with
  | PRaw c => raw_ok c
  | PReserve _ _ sz => sz + max <? W64
  | _ => true
  end.

Lemma remove1_inv max c pend name :
  INV max (mkS c pend) -> INV max (mkS (remove1 name c) pend).
Proof.
  intros [Hm Hb Hbu Hn Hi]. unfold total, held, reserved in *. cbn [s_c s_pend] in *.
  unfold remove1. destruct (findE name (c_ents c)) as [e|] eqn:E.
  - pose proof (sum_delE _ _ _ Hn E) as Hs.
    assert (Hle : e_size e <= c_total c) by lia.
    constructor; unfold total, held, reserved; cbn [s_c s_pend c_max c_ents c_total].
    + exact Hm.
    + unfold decr. destruct (N.ltb_spec (c_total c) (e_size e)); lia.
    + unfold decr. destruct (N.ltb_spec (c_total c) (e_size e)); lia.
    + apply NoDup_delE. exact Hn.
    + exact Hi.
  - constructor; assumption.
Qed.

Lemma remove_batch_inv max names c pend :
  INV max (mkS c pend) -> INV max (mkS (fold_left (fun c n => remove1 n c) names c) pend).
Proof.
  revert c. induction names as [|n t IH]; intros c H; cbn [fold_left]; [exact H|].
  apply IH. apply remove1_inv. exact H.
Qed.

Lemma release_inv max c pend t p :
  INV max (mkS c pend) -> lookupP t pend = Some p ->
  INV max (mkS (fst (cstep c (CRelease (phase_size p)))) (delP t pend))
  /\ c_total (fst (cstep c (CRelease (phase_size p)))) + phase_size p = c_total c
  /\ c_ents (fst (cstep c (CRelease (phase_size p)))) = c_ents c.
Proof.
  intros [Hm Hb Hbu Hn Hi] Hl. unfold total, held, reserved in *. cbn [s_c s_pend] in *.
  pose proof (out_delP _ _ _ Hi Hl) as Ho.
  cbn [cstep]. destruct (N.ltb_spec (c_total c) (phase_size p)) as [Hlt|Hge]; [lia|].
  cbn [fst c_total c_ents]. split; [|split; [lia | reflexivity]].
  constructor; unfold total, held, reserved; cbn [s_c s_pend c_max c_ents c_total]; try assumption; try lia.
  apply NoDup_delP. exact Hi.
Qed.

Lemma tryreserve_spec max c pend sz :
  INV max (mkS c pend) -> sz + max < W64 ->
  cstep c (CTryReserve sz) =
    if max <? c_total c + sz then (c, OBool false)
    else (mkC (c_max c) (c_ents c) (c_total c + sz), OBool true).
Proof.
  intros [Hm Hb Hbu Hn Hi] Hw. unfold total in *. cbn [s_c] in *. cbn [cstep].
  rewrite N.mod_small by lia. rewrite Hm. reflexivity.
Qed.

Lemma pstep_inv max y p :
  INV max y -> pop_ok max p = true -> INV max (fst (pstep true y p)).
Proof.
  intros H Hok. destruct y as [c pend]. destruct p as [t name sz | t w now | t | r]; cbn [pstep s_c s_pend].
  - (* PReserve *)
    destruct (lookupP t pend) eqn:El; [exact H|].
    cbn [pop_ok] in Hok. apply N.ltb_lt in Hok.
    rewrite (tryreserve_spec max c pend sz H Hok).
    destruct H as [Hm Hb Hbu Hn Hi]. unfold total, held, reserved in *. cbn [s_c s_pend] in *.
    destruct (N.ltb_spec max (c_total c + sz)); cbn [fst].
    + constructor; assumption.
    + constructor; unfold total, held, reserved; cbn [s_c s_pend c_max c_ents c_total map fst]; try assumption; try lia.
      * rewrite outstanding_cons. cbn [snd phase_size]. lia.
      * constructor; [apply lookupP_none; exact El | exact Hi].
  - (* PEnd *)
    destruct (lookupP t pend) as [[name sz|sz]|] eqn:El; [|exact H|exact H].
    pose proof (release_inv max c pend t (Reserved name sz) H El) as [Hrel _]. cbn [phase_size] in Hrel.
    destruct w as [|len]; [exact Hrel|].
    cbn [andb]. destruct (N.eqb_spec len sz) as [->|Hne]; cbn [negb]; [|exact Hrel].
    cbn [cstep]. destruct (findE name (c_ents c)) eqn:Ef; cbn [fst].
    + (* refused Add: still reserved, program counter moves *)
      destruct H as [Hm Hb Hbu Hn Hi]. unfold total, held, reserved in *. cbn [s_c s_pend] in *.
      pose proof (out_delP _ _ _ Hi El) as Ho. cbn [phase_size] in Ho.
      constructor; unfold total, held, reserved; cbn [s_c s_pend map fst]; try assumption.
      * rewrite outstanding_cons. cbn [snd phase_size]. lia.
      * constructor; [apply delP_not_in | apply NoDup_delP; exact Hi].
    + (* Add: the reservation becomes the entry *)
      destruct H as [Hm Hb Hbu Hn Hi]. unfold total, held, reserved in *. cbn [s_c s_pend] in *.
      pose proof (out_delP _ _ _ Hi El) as Ho. cbn [phase_size] in Ho.
      constructor; unfold total, held, reserved; cbn [s_c s_pend c_max c_ents c_total]; try assumption.
      * rewrite map_app, sumN_app. cbn [map e_size sumN fold_right]. lia.
      * rewrite map_app. cbn [map e_name]. apply NoDup_app_snoc; [exact Hn | apply findE_none_notin; exact Ef].
      * apply NoDup_delP. exact Hi.
  - (* PRelease *)
    destruct (lookupP t pend) as [[name sz|sz]|] eqn:El; [exact H| |exact H].
    pose proof (release_inv max c pend t (NeedRelease sz) H El) as [Hrel _]. exact Hrel.
  - (* PRaw *)
    cbn [pop_ok] in Hok.
    destruct r as [sz|sz|name len cr|name|names|now ttl|name]; cbn [raw_ok] in Hok; try discriminate; cbn [cstep fst].
    + apply remove1_inv. exact H.
    + apply remove_batch_inv. exact H.
    + exact H.
    + exact H.
Qed.

(* ---------- lifting to the CAStore-level operations and to histories ---------- *)
Definition op_ok (max : N) (o : op) : bool := proto_op o && nowrap_op max o.

Lemma op_ok_A max p : op_ok max (A p) = true -> pop_ok max p = true.
Proof.
  unfold op_ok. destruct p as [t name sz|t w now|t|c]; cbn [proto_op nowrap_op pop_ok]; intros H.
  - apply andb_true_iff in H. tauto.
  - reflexivity.
  - reflexivity.
  - apply andb_true_iff in H. tauto.
Qed.

Lemma pstep_inv' max y p y1 r :
  INV max y -> pop_ok max p = true -> pstep true y p = (y1, r) -> INV max y1.
Proof. intros H Hok E. pose proof (pstep_inv max y p H Hok) as H1. rewrite E in H1. exact H1. Qed.

Lemma step_inv max s o :
  INV max (sy s) -> op_ok max o = true -> INV max (sy (fst (step true s o))).
Proof.
  intros H Hok. destruct o as [p|t w|ok|dt|]; cbn [step].
  - destruct (pstep true (sy s) p) as [y r] eqn:E. cbn [fst with_sys sy].
    exact (pstep_inv' _ _ _ _ _ H (op_ok_A _ _ Hok) E).
  - destruct (lookupP t (s_pend (sy s))) as [[name sz|sz]|]; [|exact H|exact H].
    destruct (pstep true (sy s) (PEnd t w (clk s))) as [y1 r] eqn:E.
    assert (H1 : INV max y1) by exact (pstep_inv' max (sy s) (PEnd t w (clk s)) y1 r H eq_refl E).
    assert (H2 : INV max (fst (pstep true y1 (PRelease t)))) by (apply pstep_inv; [exact H1|reflexivity]).
    destruct r as [|[|]| |]; cbn [fst with_sys sy]; assumption.
  - destruct (queue s) as [|[name r] q]; [exact H|].
    assert (H1 : INV max (fst (pstep true (sy s) (PRaw (CRemove name))))) by (apply pstep_inv; [exact H|reflexivity]).
    destruct ok; [exact H1|]. destruct (r <? maxretry s); [exact H | exact H1].
  - exact H.
  - cbn [fst with_sys sy]. apply pstep_inv; [exact H|reflexivity].
Qed.

Lemma run_inv max ops : forall s,
  INV max (sy s) -> forallb (op_ok max) ops = true -> INV max (sy (fst (run true s ops))).
Proof.
  induction ops as [|o ops IH]; intros s H Hok; cbn [run]; [exact H|].
  cbn [forallb] in Hok. apply andb_true_iff in Hok. destruct Hok as [Ho Hops].
  pose proof (step_inv max s o H Ho) as H1.
  destruct (step true s o) as [s1 r]. cbn [fst] in H1.
  specialize (IH s1 H1 Hops). destruct (run true s1 ops) as [s2 rs]. exact IH.
Qed.

Lemma proto_forallb max ops : proto max ops = forallb (op_ok max) ops.
Proof. reflexivity. Qed.

Lemma reachable_inv max ttl mr ops :
  proto max ops = true -> INV max (sy (fst (run true (init max ttl mr) ops))).
Proof. intros Hp. apply run_inv; [apply INV_init | exact Hp]. Qed.

(* ---------- theorems: balance and budget over all histories ---------- *)
Lemma balance max ttl mr ops :
  proto max ops = true ->
  let y := sy (fst (run true (init max ttl mr) ops)) in
  total y = held y + reserved y.
Proof. intros Hp. exact (inv_bal _ _ (reachable_inv max ttl mr ops Hp)). Qed.

Lemma within_budget max ttl mr ops :
  proto max ops = true ->
  let y := sy (fst (run true (init max ttl mr) ops)) in
  total y <= max /\ held y + reserved y <= max.
Proof.
  intros Hp y. pose proof (reachable_inv max ttl mr ops Hp) as H. fold y in H.
  destruct H as [Hm Hb Hbu Hn Hi]. split; [exact Hbu | lia].
Qed.

(* admission: decided exactly by total + size <= MaxSize (no wrap) *)
Lemma admission max s t name sz :
  INV max (sy s) -> sz + max < W64 -> lookupP t (s_pend (sy s)) = None ->
  step true s (A (PReserve t name sz)) =
    if max <? total (sy s) + sz then (s, OBool false)
    else (with_sys s (mkS (mkC (c_max (s_c (sy s))) (c_ents (s_c (sy s))) (total (sy s) + sz))
                          ((t, Reserved name sz) :: s_pend (sy s))), OBool true).
Proof.
  intros H Hw El. cbn [step pstep]. rewrite El. destruct s as [[c pend] q k tl m]. cbn [sy s_c s_pend] in *.
  rewrite (tryreserve_spec max c pend sz H Hw). unfold total. cbn [s_c].
  destruct (max <? c_total c + sz); reflexivity.
Qed.

Lemma never_above_max max ttl mr ops t name sz :
  proto max ops = true -> sz + max < W64 ->
  let s := fst (run true (init max ttl mr) ops) in
  snd (step true s (A (PReserve t name sz))) = OBool true ->
  total (sy s) + sz <= max /\ total (sy (fst (step true s (A (PReserve t name sz))))) = total (sy s) + sz.
Proof.
  intros Hp Hw s Hout. pose proof (reachable_inv max ttl mr ops Hp) as H. fold s in H.
  destruct (lookupP t (s_pend (sy s))) eqn:El.
  - cbn [step pstep] in Hout. rewrite El in Hout. discriminate.
  - rewrite (admission max s t name sz H Hw El) in *.
    destruct (N.ltb_spec max (total (sy s) + sz)); cbn [snd fst] in *; [discriminate|].
    split; [assumption | reflexivity].
Qed.

Lemma admits_when_fits max ttl mr ops t name sz :
  proto max ops = true -> sz + max < W64 ->
  let s := fst (run true (init max ttl mr) ops) in
  lookupP t (s_pend (sy s)) = None -> total (sy s) + sz <= max ->
  snd (step true s (A (PReserve t name sz))) = OBool true.
Proof.
  intros Hp Hw s El Hfit. pose proof (reachable_inv max ttl mr ops Hp) as H. fold s in H.
  rewrite (admission max s t name sz H Hw El).
  destruct (N.ltb_spec max (total (sy s) + sz)); [lia | reflexivity].
Qed.

(* ---------- failed / abandoned / duplicate writes release their reservation ---------- *)

Lemma prelease_need c pend' t sz :
  pstep true (mkS c ((t, NeedRelease sz) :: pend')) (PRelease t) =
  (mkS (fst (cstep c (CRelease sz))) (delP t ((t, NeedRelease sz) :: pend')), OUnit).
Proof.
  cbn [pstep s_pend s_c]. unfold lookupP. cbn [find fst]. rewrite N.eqb_refl. reflexivity.
Qed.

Lemma prelease_none c pend' t :
  lookupP t pend' = None -> pstep true (mkS c pend') (PRelease t) = (mkS c pend', OUnit).
Proof. intros E. cbn [pstep s_pend s_c]. rewrite E. reflexivity. Qed.

Definition same_len (sz : N) (w : wres) : bool :=
  match w with WData len => N.eqb len sz | WErr => false end.

Lemma pend_result c pend t name sz w now :
  lookupP t pend = Some (Reserved name sz) ->
  pstep true (mkS c pend) (PEnd t w now) =
    if wt_succeeds (mkS c pend) name sz w
    then (mkS (mkC (c_max c) (c_ents c ++ [mkE name sz now]) (c_total c)) (delP t pend), OBool true)
    else if same_len sz w
    then (mkS c ((t, NeedRelease sz) :: delP t pend), OBool false)
    else (mkS (fst (cstep c (CRelease sz))) (delP t pend), OBool false).
Proof.
  intros El. cbn [pstep s_c s_pend]. rewrite El. destruct w as [|len]; cbn [wt_succeeds same_len]; [reflexivity|].
  unfold present. cbn [s_c andb]. destruct (N.eqb_spec len sz) as [->|Hne]; cbn [negb andb]; [|reflexivity].
  cbn [cstep]. destruct (findE name (c_ents c)); reflexivity.
Qed.

Lemma wt_end_effect max s t name sz w :
  INV max (sy s) -> lookupP t (s_pend (sy s)) = Some (Reserved name sz) ->
  let s' := fst (step true s (WtEnd t w)) in
  lookupP t (s_pend (sy s')) = None
  /\ reserved (sy s') + sz = reserved (sy s)
  /\ (if wt_succeeds (sy s) name sz w
      then c_ents (s_c (sy s')) = c_ents (s_c (sy s)) ++ [mkE name sz (clk s)] /\ total (sy s') = total (sy s)
      else c_ents (s_c (sy s')) = c_ents (s_c (sy s)) /\ total (sy s') + sz = total (sy s)).
Proof.
  intros H El. cbn [step]. rewrite El. destruct s as [[c pend] q k tl m]. cbn [sy s_c s_pend clk] in *.
  pose proof (release_inv max c pend t (Reserved name sz) H El) as [Hrel [Htot Hents]]. cbn [phase_size] in *.
  pose proof (out_delP t pend _ (inv_ids _ _ H) El) as Ho. cbn [phase_size] in Ho.
  rewrite (pend_result c pend t name sz w k El).
  destruct (wt_succeeds (mkS c pend) name sz w).
  - cbn [fst sy s_pend s_c c_ents c_total]. unfold reserved, total. cbn [s_pend s_c c_total].
    repeat split; try lia. apply lookupP_delP.
  - destruct (same_len sz w).
    + rewrite prelease_need. cbn [fst with_sys sy s_pend s_c].
      rewrite delP_idem. cbn [fst]. rewrite N.eqb_refl.
      unfold reserved, total. cbn [s_pend s_c].
      repeat split; try assumption. apply lookupP_delP.
    + rewrite (prelease_none _ _ _ (lookupP_delP t pend)). cbn [fst with_sys sy s_pend s_c].
      unfold reserved, total. cbn [s_pend s_c].
      repeat split; try assumption. apply lookupP_delP.
Qed.

Lemma failed_write_releases max ttl mr ops t name sz w :
  proto max ops = true ->
  let s := fst (run true (init max ttl mr) ops) in
  lookupP t (s_pend (sy s)) = Some (Reserved name sz) ->
  let s' := fst (step true s (WtEnd t w)) in
  lookupP t (s_pend (sy s')) = None
  /\ reserved (sy s') + sz = reserved (sy s)
  /\ (if wt_succeeds (sy s) name sz w
      then c_ents (s_c (sy s')) = c_ents (s_c (sy s)) ++ [mkE name sz (clk s)] /\ total (sy s') = total (sy s)
      else c_ents (s_c (sy s')) = c_ents (s_c (sy s)) /\ total (sy s') + sz = total (sy s)).
Proof.
  intros Hp s El. apply (wt_end_effect max); [|exact El].
  exact (reachable_inv max ttl mr ops Hp).
Qed.

(* the same at the granularity of single lock regions (any interleaving): whatever phase a caller
   is in, its next step that gives the reservation up subtracts exactly its size *)
Lemma atomic_release max ttl mr ops t p :
  proto max ops = true ->
  let s := fst (run true (init max ttl mr) ops) in
  lookupP t (s_pend (sy s)) = Some p ->
  let o := match p with Reserved _ _ => A (PEnd t WErr 0%Z) | NeedRelease _ => A (PRelease t) end in
  let s' := fst (step true s o) in
  lookupP t (s_pend (sy s')) = None
  /\ total (sy s') + phase_size p = total (sy s)
  /\ reserved (sy s') + phase_size p = reserved (sy s)
  /\ c_ents (s_c (sy s')) = c_ents (s_c (sy s)).
Proof.
  intros Hp s El. pose proof (reachable_inv max ttl mr ops Hp) as H. fold s in H.
  destruct s as [[c pend] q k tl m]. cbn [sy s_c s_pend] in *.
  pose proof (release_inv max c pend t p H El) as [Hrel [Htot Hents]].
  pose proof (out_delP t pend _ (inv_ids _ _ H) El) as Ho.
  destruct p as [name sz|sz]; cbn [step pstep s_c s_pend sy]; rewrite El; cbn [fst with_sys sy s_c s_pend phase_size] in *;
    unfold total, reserved; cbn [s_c s_pend]; repeat split; try assumption; apply lookupP_delP.
Qed.

(* no reservation outstanding => the accounted bytes are exactly the bytes stored: nothing leaked *)
Lemma quiescent_no_leak max ttl mr ops :
  proto max ops = true ->
  let y := sy (fst (run true (init max ttl mr) ops)) in
  s_pend y = [] -> total y = held y.
Proof.
  intros Hp y He. pose proof (balance max ttl mr ops Hp) as Hb. fold y in Hb.
  unfold reserved in Hb. rewrite He in Hb. cbn in Hb. lia.
Qed.

(* ---------- the executable oracle is sound on the model ---------- *)
Lemma praw_pend y c : s_pend (fst (pstep true y (PRaw c))) = s_pend y.
Proof. cbn [pstep]. destruct (cstep (s_c y) c). reflexivity. Qed.

Lemma gstep_tracks_p y p :
  gstep (s_pend y) (A p) (snd (pstep true y p)) = s_pend (fst (pstep true y p)).
Proof.
  destruct y as [c pend]. cbn [s_pend]. destruct p as [t name sz|t w now|t|r].
  - cbn [pstep gstep s_pend s_c]. destruct (lookupP t pend) eqn:El; cbn [fst snd s_pend]; [try rewrite El; reflexivity|].
    cbn [cstep]. destruct (c_max c <? (c_total c + sz) mod W64); cbn [fst snd s_pend]; try rewrite El; reflexivity.
  - destruct (lookupP t pend) as [[name sz|sz]|] eqn:El.
    + rewrite (pend_result c pend t name sz w now El). cbn [gstep].
      destruct (wt_succeeds (mkS c pend) name sz w) eqn:Ew; cbn [fst snd s_pend]; try rewrite El; [reflexivity|].
      destruct w as [|len]; cbn [same_len]; [reflexivity|].
      destruct (N.eqb len sz); reflexivity.
    + cbn [pstep gstep s_pend]. try rewrite El. cbn [fst snd s_pend]. try rewrite El. reflexivity.
    + cbn [pstep gstep s_pend]. try rewrite El. cbn [fst snd s_pend]. try rewrite El. reflexivity.
  - cbn [pstep gstep s_pend s_c]. destruct (lookupP t pend) as [[name sz|sz]|] eqn:El;
      cbn [fst snd s_pend]; try rewrite El; reflexivity.
  - cbn [pstep gstep s_pend s_c]. destruct (cstep c r). reflexivity.
Qed.

Lemma gstep_tracks s o :
  gstep (s_pend (sy s)) o (snd (step true s o)) = s_pend (sy (fst (step true s o))).
Proof.
  destruct o as [p|t w|ok|dt|]; cbn [step].
  - pose proof (gstep_tracks_p (sy s) p) as Hp.
    destruct (pstep true (sy s) p) as [y r]. cbn [fst snd with_sys sy] in *. exact Hp.
  - destruct s as [[c pend] q k tl m]. cbn [sy s_pend clk].
    cbn [gstep]. destruct (lookupP t pend) as [[name sz|sz]|] eqn:El; cbn [fst snd sy s_pend]; try reflexivity.
    rewrite (pend_result c pend t name sz w k El).
    destruct (wt_succeeds (mkS c pend) name sz w).
    + cbn [fst snd sy s_pend]. reflexivity.
    + destruct (same_len sz w).
      * rewrite prelease_need. cbn [fst snd with_sys sy s_pend].
        rewrite delP_idem. cbn [fst]. rewrite N.eqb_refl. reflexivity.
      * rewrite (prelease_none _ _ _ (lookupP_delP t pend)). cbn [fst snd with_sys sy s_pend]. reflexivity.
  - cbn [gstep]. destruct (queue s) as [|[name r] q']; [reflexivity|].
    destruct ok; cbn [fst sy]; [apply eq_sym, praw_pend|].
    destruct (r <? maxretry s); cbn [fst sy]; [reflexivity | apply eq_sym, praw_pend].
  - reflexivity.
  - cbn [gstep fst with_sys sy]. apply eq_sym, praw_pend.
Qed.

Lemma ents_bytes_snap (l : list entry) :
  ents_bytes (map (fun e => (e_name e, e_size e)) l) = sumN (map e_size l).
Proof. unfold ents_bytes. rewrite map_map. reflexivity. Qed.

Lemma check_from_sound max ops : forall s,
  INV max (sy s) -> forallb (op_ok max) ops = true ->
  check_from max (s_pend (sy s)) (total (sy s)) ops (snd (run true s ops)) = true.
Proof.
  induction ops as [|o ops IH]; intros s H Hok; cbn [run]; [reflexivity|].
  cbn [forallb] in Hok. apply andb_true_iff in Hok. destruct Hok as [Ho Hops].
  pose proof (step_inv max s o H Ho) as H1.
  pose proof (gstep_tracks s o) as Hg.
  destruct (step true s o) as [s1 r] eqn:E. cbn [fst snd] in H1, Hg.
  specialize (IH s1 H1 Hops). destruct (run true s1 ops) as [s2 rs]. cbn [snd] in *.
  cbn [check_from fst snd]. rewrite Hg.
  apply andb_true_iff. split; [apply andb_true_iff; split|].
  - destruct o as [[t name sz|?|?|?]|?|?|?|]; try reflexivity.
    destruct r as [|[|]|?|?]; try reflexivity.
    destruct (lookupP t (s_pend (sy s))) eqn:El; [reflexivity|].
    unfold op_ok in Ho. cbn [proto_op nowrap_op andb] in Ho. apply N.ltb_lt in Ho.
    rewrite (admission max s t name sz H Ho El) in E.
    destruct (N.ltb_spec max (total (sy s) + sz)); inversion E. apply N.leb_le. assumption.
  - unfold obs_ok, snap. destruct H1 as [Hm Hb Hbu Hn Hi]. unfold total, held, reserved in *.
    rewrite ents_bytes_snap. apply andb_true_iff. split; [apply N.leb_le; exact Hbu | apply N.eqb_eq; exact Hb].
  - unfold snap at 1. cbn [fst]. exact IH.
Qed.

Lemma check_sound max ttl mr ops :
  C13_cache_check max ops (snd (run true (init max ttl mr) ops)) = true.
Proof.
  unfold C13_cache_check. destruct (proto max ops) eqn:Hp; [|reflexivity].
  apply (check_from_sound max ops (init max ttl mr)); [apply INV_init | exact Hp].
Qed.

(* ---------- the code as pinned (fixed = false) violates the property ---------- *)
Lemma size_mismatch_over_budget :
  exists max ops, proto max ops = true /\
    let y := sy (fst (run false (init max 1000 1) ops)) in
    max < held y /\ total y <> held y + reserved y.
Proof.
  exists 10, [A (PReserve 1 0 1); WtEnd 1 (WData 100)]. vm_compute. repeat split; congruence.
Qed.

Lemma size_mismatch_leak :
  exists max ops, proto max ops = true /\
    let y := sy (fst (run false (init max 1000 1) ops)) in
    s_pend y = [] /\ c_ents (s_c y) = [] /\ total y = 9.
Proof.
  exists 100, [A (PReserve 1 0 10); WtEnd 1 (WData 1); Drain true]. vm_compute. repeat split.
Qed.

(* outside the no-wrap guard a reservation is admitted although total + size > MaxSize *)
Lemma wrap_admits :
  exists max ops t name sz,
    let s := fst (run true (init max 1000 1) ops) in
    snd (step true s (A (PReserve t name sz))) = OBool true /\ max < total (sy s) + sz.
Proof.
  exists 100, [A (PReserve 1 0 10)], 2, 1, 18446744073709551611. vm_compute. split; reflexivity.
Qed.

(* ---------- lock-convoy pairs: the pair oracle holds on the model for the order it ran ---------- *)
Lemma obs_ok_inv max s r : INV max (sy s) -> obs_ok max (s_pend (sy s)) (r, snap s) = true.
Proof.
  intros [Hm Hb Hbu Hn Hi]. unfold obs_ok, snap, total, held, reserved in *.
  rewrite ents_bytes_snap. apply andb_true_iff. split; [apply N.leb_le; exact Hbu | apply N.eqb_eq; exact Hb].
Qed.

Lemma gfold_tracks ops : forall s,
  gfold (s_pend (sy s)) ops (snd (run true s ops)) = s_pend (sy (fst (run true s ops))).
Proof.
  induction ops as [|o ops IH]; intros s; cbn [run]; [reflexivity|].
  pose proof (gstep_tracks s o) as Hg. destruct (step true s o) as [s1 r]. cbn [fst snd] in Hg.
  specialize (IH s1). destruct (run true s1 ops) as [s2 rs]. cbn [fst snd gfold] in *.
  rewrite Hg. exact IH.
Qed.

Lemma pair_check_sound max ttl mr pre a b :
  let s := fst (run true (init max ttl mr) pre) in
  let s1 := fst (step true s a) in
  C13_pair_check max pre (snd (run true (init max ttl mr) pre)) a b
    (snd (step true s a)) (snd (step true s1 b)) (snap (fst (step true s1 b))) = true.
Proof.
  intros s s1. unfold C13_pair_check. destruct (proto max (pre ++ [a; b])) eqn:Hp; [|reflexivity].
  unfold proto in Hp. rewrite forallb_app in Hp. apply andb_true_iff in Hp. destruct Hp as [Hpre Hab].
  cbn [forallb] in Hab. apply andb_true_iff in Hab. destruct Hab as [Ha Hb].
  apply andb_true_iff in Hb. destruct Hb as [Hb _].
  assert (Hs : INV max (sy s)) by (apply run_inv; [apply INV_init | exact Hpre]).
  assert (Hs1 : INV max (sy s1)) by (apply step_inv; assumption).
  assert (Hs2 : INV max (sy (fst (step true s1 b)))) by (apply step_inv; assumption).
  apply andb_true_iff. split.
  - exact (check_from_sound max pre (init max ttl mr) (INV_init max) Hpre).
  - apply orb_true_iff. left.
    change (@nil (N * phase)) with (s_pend (sy (init max ttl mr))).
    rewrite gfold_tracks. fold s. rewrite (gstep_tracks s a). fold s1. rewrite (gstep_tracks s1 b).
    apply obs_ok_inv. exact Hs2.
Qed.
