(* Proofs for the BlobMemoryCache / write-through part of C13. *)
From Coq Require Import List NArith ZArith Bool Lia.
From K.Model Require Import C13.
Import ListNotations.
Local Open Scope N_scope.

(* ---------- association-list facts: entries by name ---------- *)
Lemma findE_none_notin name l : findE name l = None -> ~ In name (map e_name l).
Proof.
  unfold findE. induction l as [|e t IH]; cbn [find map In]; [tauto|].
  destruct (N.eqb_spec name (e_name e)) as [->|Hne]; [discriminate|].
  intros H [Heq|Hin]; [congruence | exact (IH H Hin)].
Qed.

Lemma findE_some name l e : findE name l = Some e -> In e l /\ e_name e = name.
Proof.
  unfold findE. intros H. apply find_some in H. destruct H as [Hi He].
  apply N.eqb_eq in He. split; [exact Hi | symmetry; exact He].
Qed.

Lemma delE_notin name l : ~ In name (map e_name l) -> delE name l = l.
Proof.
  unfold delE. induction l as [|e t IH]; cbn [filter map In]; [reflexivity|].
  intros Hn. destruct (N.eqb_spec name (e_name e)) as [Heq|Hne]; cbn [negb].
  - exfalso. apply Hn. left. symmetry. exact Heq.
  - f_equal. apply IH. intros Hi. apply Hn. right. exact Hi.
Qed.

Lemma delE_names_incl name l x : In x (map e_name (delE name l)) -> In x (map e_name l) /\ x <> name.
Proof.
  unfold delE. rewrite !in_map_iff. intros [e [He Hi]]. apply filter_In in Hi. destruct Hi as [Hi Hf].
  split; [exists e; tauto|]. intros ->. subst name. rewrite N.eqb_refl in Hf. discriminate.
Qed.

Lemma NoDup_delE name l : NoDup (map e_name l) -> NoDup (map e_name (delE name l)).
Proof.
  unfold delE. induction l as [|e t IH]; cbn [filter map]; [auto|].
  intros Hnd. inversion Hnd as [|? ? Hx Ht]; subst.
  destruct (negb (N.eqb name (e_name e))); cbn [map]; [|auto].
  constructor; [|auto]. intros Hi. apply Hx.
  apply (delE_names_incl name t (e_name e)) in Hi. tauto.
Qed.

Lemma sum_delE name l e :
  NoDup (map e_name l) -> findE name l = Some e ->
  sumN (map e_size (delE name l)) + e_size e = sumN (map e_size l).
Proof.
  unfold findE, delE. induction l as [|x t IH]; cbn [find filter map]; [discriminate|].
  intros Hnd. inversion Hnd as [|? ? Hx Ht]; subst.
  destruct (N.eqb_spec name (e_name x)) as [Heq|Hne]; cbn [negb].
  - intros [= <-]. subst name.
    fold (delE (e_name x) t). rewrite (delE_notin _ _ Hx). cbn [sumN fold_right]. lia.
  - intros Hf. cbn [map sumN fold_right]. specialize (IH Ht Hf). unfold sumN in IH. lia.
Qed.

Lemma sumN_app a b : sumN (a ++ b) = sumN a + sumN b.
Proof. unfold sumN. induction a as [|x a IH]; cbn [app fold_right]; [reflexivity|]. rewrite IH. lia. Qed.

Lemma NoDup_app_snoc (l : list N) x : NoDup l -> ~ In x l -> NoDup (l ++ [x]).
Proof.
  induction l as [|a l IH]; cbn [app]; intros Hnd Hx.
  - constructor; [intros []|constructor].
  - inversion Hnd as [|? ? Ha Hl]; subst. constructor.
    + rewrite in_app_iff. cbn [In]. intros [Hi|[He|[]]]; [exact (Ha Hi)|]. apply Hx. left. symmetry. exact He.
    + apply IH; [exact Hl|]. intros Hi. apply Hx. right. exact Hi.
Qed.

(* ---------- association-list facts: callers by id ---------- *)
Lemma lookupP_none t l : lookupP t l = None -> ~ In t (map fst l).
Proof.
  unfold lookupP. induction l as [|x r IH]; cbn [find map In]; [tauto|].
  destruct (N.eqb_spec t (fst x)) as [->|Hne]; [discriminate|].
  intros H [Heq|Hin]; [congruence | exact (IH H Hin)].
Qed.

Lemma delP_notin t l : ~ In t (map fst l) -> delP t l = l.
Proof.
  unfold delP. induction l as [|x r IH]; cbn [filter map In]; [reflexivity|].
  intros Hn. destruct (N.eqb_spec t (fst x)) as [Heq|Hne]; cbn [negb].
  - exfalso. apply Hn. left. symmetry. exact Heq.
  - f_equal. apply IH. intros Hi. apply Hn. right. exact Hi.
Qed.

Lemma delP_ids t l x : In x (map fst (delP t l)) -> In x (map fst l) /\ x <> t.
Proof.
  unfold delP. rewrite !in_map_iff. intros [e [He Hi]]. apply filter_In in Hi. destruct Hi as [Hi Hf].
  split; [exists e; tauto|]. intros ->. subst t. rewrite N.eqb_refl in Hf. discriminate.
Qed.

Lemma delP_not_in t l : ~ In t (map fst (delP t l)).
Proof. intros H. apply delP_ids in H. tauto. Qed.

Lemma NoDup_delP t l : NoDup (map fst l) -> NoDup (map fst (delP t l)).
Proof.
  unfold delP. induction l as [|e r IH]; cbn [filter map]; [auto|].
  intros Hnd. inversion Hnd as [|? ? Hx Ht]; subst.
  destruct (negb (N.eqb t (fst e))); cbn [map]; [|auto].
  constructor; [|auto]. intros Hi. apply Hx. apply (delP_ids t r (fst e)) in Hi. tauto.
Qed.

Lemma delP_idem t x l : delP t (x :: delP t l) = if N.eqb t (fst x) then delP t l else x :: delP t l.
Proof.
  unfold delP at 1. cbn [filter]. fold (delP t (delP t l)).
  rewrite (delP_notin t (delP t l) (delP_not_in t l)).
  destruct (N.eqb t (fst x)); reflexivity.
Qed.

Lemma lookupP_delP t l : lookupP t (delP t l) = None.
Proof.
  unfold lookupP. destruct (find (fun x => N.eqb t (fst x)) (delP t l)) as [x|] eqn:E; [|reflexivity].
  apply find_some in E. destruct E as [Hi He]. apply N.eqb_eq in He.
  exfalso. apply (delP_not_in t l). rewrite He. apply in_map. exact Hi.
Qed.

Lemma out_delP t l p :
  NoDup (map fst l) -> lookupP t l = Some p ->
  outstanding (delP t l) + phase_size p = outstanding l.
Proof.
  unfold lookupP, delP, outstanding. induction l as [|x r IH]; cbn [find filter map]; [discriminate|].
  intros Hnd. inversion Hnd as [|? ? Hx Ht]; subst.
  destruct (N.eqb_spec t (fst x)) as [Heq|Hne]; cbn [negb].
  - intros [= <-]. subst t. fold (delP (fst x) r). rewrite (delP_notin _ _ Hx).
    cbn [sumN fold_right]. lia.
  - intros Hf. cbn [map sumN fold_right]. specialize (IH Ht Hf). unfold sumN in IH. lia.
Qed.

(* ---------- the invariant ---------- *)
Record INV (max : N) (y : sys) : Prop := mkINV {
  inv_max : c_max (s_c y) = max;
  inv_bal : total y = held y + reserved y;          (* accounting balances *)
  inv_bud : total y <= max;                         (* within budget *)
  inv_names : NoDup (map e_name (c_ents (s_c y)));  (* Go map: one entry per name *)
  inv_ids : NoDup (map fst (s_pend y))              (* one program counter per caller *)
}.

Lemma INV_init max : INV max (sinit max).
Proof. constructor; cbn; try constructor; lia. Qed.

Definition pop_ok (max : N) (p : pop) : bool :=
  match p with
  | PRaw c => raw_ok c
  | PReserve _ _ sz => sz + max <? W64
  | _ => true
  end.

Lemma remove1_inv max c pend name :
  INV max (mkS c pend) -> INV max (mkS (remove1 name c) pend).
Proof.
  intros [Hm Hb Hbu Hn Hi]. unfold total, held, reserved in *. cbn [s_c s_pend] in *.
  unfold remove1. destruct (findE name (c_ents c)) as [e|] eqn:E.
  - pose proof (sum_delE _ _ _ Hn E) as Hs.
    assert (Hle : e_size e <= c_total c) by lia.
    constructor; unfold total, held, reserved; cbn [s_c s_pend c_max c_ents c_total].
    + exact Hm.
    + unfold decr. destruct (N.ltb_spec (c_total c) (e_size e)); lia.
    + unfold decr. destruct (N.ltb_spec (c_total c) (e_size e)); lia.
    + apply NoDup_delE. exact Hn.
    + exact Hi.
  - constructor; assumption.
Qed.

Lemma remove_batch_inv max names c pend :
  INV max (mkS c pend) -> INV max (mkS (fold_left (fun c n => remove1 n c) names c) pend).
Proof.
  revert c. induction names as [|n t IH]; intros c H; cbn [fold_left]; [exact H|].
  apply IH. apply remove1_inv. exact H.
Qed.

Lemma release_inv max c pend t p :
  INV max (mkS c pend) -> lookupP t pend = Some p ->
  INV max (mkS (fst (cstep c (CRelease (phase_size p)))) (delP t pend))
  /\ c_total (fst (cstep c (CRelease (phase_size p)))) + phase_size p = c_total c
  /\ c_ents (fst (cstep c (CRelease (phase_size p)))) = c_ents c.
Proof.
  intros [Hm Hb Hbu Hn Hi] Hl. unfold total, held, reserved in *. cbn [s_c s_pend] in *.
  pose proof (out_delP _ _ _ Hi Hl) as Ho.
  cbn [cstep]. destruct (N.ltb_spec (c_total c) (phase_size p)) as [Hlt|Hge]; [lia|].
  cbn [fst c_total c_ents]. split; [|split; [lia | reflexivity]].
  constructor; unfold total, held, reserved; cbn [s_c s_pend c_max c_ents c_total]; try assumption; try lia.
  apply NoDup_delP. exact Hi.
Qed.

Lemma tryreserve_spec max c pend sz :
  INV max (mkS c pend) -> sz + max < W64 ->
  cstep c (CTryReserve sz) =
    if max <? c_total c + sz then (c, OBool false)
    else (mkC (c_max c) (c_ents c) (c_total c + sz), OBool true).
Proof.
  intros [Hm Hb Hbu Hn Hi] Hw. unfold total in *. cbn [s_c] in *. cbn [cstep].
  rewrite N.mod_small by lia. rewrite Hm. reflexivity.
Qed.

Lemma pstep_inv max y p :
  INV max y -> pop_ok max p = true -> INV max (fst (pstep true y p)).
Proof.
  intros H Hok. destruct y as [c pend]. destruct p as [t name sz | t w now | t | r]; cbn [pstep s_c s_pend].
  - (* PReserve *)
    destruct (lookupP t pend) eqn:El; [exact H|].
    cbn [pop_ok] in Hok. apply N.ltb_lt in Hok.
    rewrite (tryreserve_spec max c pend sz H Hok).
    destruct H as [Hm Hb Hbu Hn Hi]. unfold total, held, reserved in *. cbn [s_c s_pend] in *.
    destruct (N.ltb_spec max (c_total c + sz)); cbn [fst].
    + constructor; assumption.
    + constructor; unfold total, held, reserved; cbn [s_c s_pend c_max c_ents c_total map fst]; try assumption; try lia.
      * unfold outstanding in *. cbn [map snd phase_size sumN fold_right]. unfold sumN in Hb. lia.
      * constructor; [apply lookupP_none; exact El | exact Hi].
  - (* PEnd *)
    destruct (lookupP t pend) as [[name sz|sz]|] eqn:El; [|exact H|exact H].
    pose proof (release_inv max c pend t (Reserved name sz) H El) as [Hrel _]. cbn [phase_size] in Hrel.
    destruct w as [|len]; [exact Hrel|].
    cbn [andb]. destruct (N.eqb_spec len sz) as [->|Hne]; cbn [negb]; [|exact Hrel].
    cbn [cstep]. destruct (findE name (c_ents c)) eqn:Ef; cbn [fst].
    + (* refused Add: still reserved, program counter moves *)
      destruct H as [Hm Hb Hbu Hn Hi]. unfold total, held, reserved in *. cbn [s_c s_pend] in *.
      pose proof (out_delP _ _ _ Hi El) as Ho. cbn [phase_size] in Ho.
      constructor; unfold total, held, reserved; cbn [s_c s_pend map fst]; try assumption.
      * unfold outstanding in *. cbn [map snd phase_size sumN fold_right]. unfold sumN in *. lia.
      * constructor; [apply delP_not_in | apply NoDup_delP; exact Hi].
    + (* Add: the reservation becomes the entry *)
      destruct H as [Hm Hb Hbu Hn Hi]. unfold total, held, reserved in *. cbn [s_c s_pend] in *.
      pose proof (out_delP _ _ _ Hi El) as Ho. cbn [phase_size] in Ho.
      constructor; unfold total, held, reserved; cbn [s_c s_pend c_max c_ents c_total]; try assumption.
      * rewrite map_app, sumN_app. cbn [map e_size sumN fold_right]. lia.
      * rewrite map_app. cbn [map e_name]. apply NoDup_app_snoc; [exact Hn | apply findE_none_notin; exact Ef].
      * apply NoDup_delP. exact Hi.
  - (* PRelease *)
    destruct (lookupP t pend) as [[name sz|sz]|] eqn:El; [exact H| |exact H].
    pose proof (release_inv max c pend t (NeedRelease sz) H El) as [Hrel _]. exact Hrel.
  - (* PRaw *)
    cbn [pop_ok] in Hok.
    destruct r as [sz|sz|name len cr|name|names|now ttl|name]; cbn [raw_ok] in Hok; try discriminate; cbn [cstep fst].
    + apply remove1_inv. exact H.
    + apply remove_batch_inv. exact H.
    + exact H.
    + exact H.
Qed.
