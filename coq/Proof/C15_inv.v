(* C15: the invariant tying the two indexes of the manager model together, and its
   preservation by every operation. *)
From Coq Require Import List NArith ZArith Bool Lia Permutation.
From K.Model Require Import C15.
From K.Proof Require Import C15_base.
Import ListNotations.
Local Open Scope N_scope.

Definition lreq (s : st) (i : N) : list req := aget_list i (requests s).

Lemma deref_lreq s i id : deref s i id = find (fun r => N.eqb (r_id r) id) (lreq s i).
Proof. reflexivity. Qed.

Definition new_req (p : N) (s : st) (i : N) : req := mkreq (next s) i p (now s) SPending.
Definition mark_fn (p : N) (x : status) (r : req) : req := if N.eqb (r_peer r) p then set_status x r else r.

(* ---------- effect of each operation on the per-piece lists *)
Lemma aget_list_aset {V} k (v : list V) l j :
  aget_list j (aset k v l) = if N.eqb k j then v else aget_list j l.
Proof.
  unfold aget_list. destruct (N.eqb k j) eqn:E.
  - apply N.eqb_eq in E. subst. now rewrite aget_aset_same.
  - apply N.eqb_neq in E. now rewrite aget_aset_other.
Qed.

Lemma aget_list_adel {V} k (l : list (N * list V)) j :
  aget_list j (adel k l) = if N.eqb k j then [] else aget_list j l.
Proof.
  unfold aget_list. destruct (N.eqb k j) eqn:E.
  - apply N.eqb_eq in E. subst. now rewrite aget_adel_same.
  - apply N.eqb_neq in E. now rewrite aget_adel_other.
Qed.

Lemma lreq_add p s i j :
  lreq (add_req p s i) j = if N.eqb i j then lreq s i ++ [new_req p s i] else lreq s j.
Proof. unfold lreq, add_req. cbn [requests]. apply aget_list_aset. Qed.

Lemma lreq_mark s p i x j :
  lreq (mark s p i x) j = if N.eqb i j then map (mark_fn p x) (lreq s i) else lreq s j.
Proof.
  unfold lreq, mark. destruct (aget i (requests s)) as [rs|] eqn:E; cbn [requests].
  - rewrite aget_list_aset. unfold aget_list. rewrite E. reflexivity.
  - destruct (N.eqb i j) eqn:E2; auto. apply N.eqb_eq in E2. subst.
    unfold aget_list. now rewrite E.
Qed.

Lemma lreq_clear s i j : lreq (clear s i) j = if N.eqb i j then [] else lreq s j.
Proof. unfold lreq, clear. cbn [requests]. apply aget_list_adel. Qed.

Lemma lreq_clearpeer s p j : lreq (clearpeer s p) j = filter (not_peer p) (lreq s j).
Proof.
  unfold lreq, clearpeer. cbn [requests]. unfold aget_list.
  change (map (fun e : N * list req => (fst e, filter (not_peer p) (snd e))) (requests s))
    with (amap (filter (not_peer p)) (requests s)).
  rewrite aget_amap. destruct (aget j (requests s)); reflexivity.
Qed.

(* ---------- effect on the by-peer index *)
Lemma bp_add p s i p' j :
  bp_get (add_req p s i) p' j = if N.eqb p p' && N.eqb i j then Some (next s) else bp_get s p' j.
Proof.
  unfold bp_get, add_req. cbn [byPeer].
  destruct (N.eqb p p') eqn:E; cbn [andb].
  - apply N.eqb_eq in E. subst p'. rewrite aget_aset_same.
    destruct (N.eqb i j) eqn:E2.
    + apply N.eqb_eq in E2. subst. apply aget_aset_same.
    + apply N.eqb_neq in E2. rewrite aget_aset_other by auto.
      unfold aget_list. destruct (aget p (byPeer s)); reflexivity.
  - apply N.eqb_neq in E. now rewrite aget_aset_other.
Qed.

Lemma bp_mark s p i x p' j : bp_get (mark s p i x) p' j = bp_get s p' j.
Proof. unfold bp_get, mark. destruct (aget i (requests s)); reflexivity. Qed.

Lemma bp_clear s i p j :
  NoDup (keys (byPeer s)) ->
  bp_get (clear s i) p j = if N.eqb i j then None else bp_get s p j.
Proof.
  intros ND. unfold bp_get, clear. cbn [byPeer].
  change (map (fun e : N * list (N * N) => (fst e, adel i (snd e))) (byPeer s))
    with (amap (adel i) (byPeer s)).
  rewrite aget_filter by (now rewrite keys_amap).
  rewrite aget_amap. destruct (aget p (byPeer s)) as [pm|]; cbn [option_map].
  - assert (G : aget j (adel i pm) = if N.eqb i j then None else aget j pm).
    { destruct (N.eqb i j) eqn:E2.
      - apply N.eqb_eq in E2. subst. apply aget_adel_same.
      - apply N.eqb_neq in E2. now apply aget_adel_other. }
    cbn [snd]. destruct (adel i pm) as [|e l] eqn:E.
    + cbn [is_nil negb]. rewrite <- G. reflexivity.
    + cbn [is_nil negb]. exact G.
  - destruct (N.eqb i j); reflexivity.
Qed.

Lemma bp_clearpeer s p p' j :
  bp_get (clearpeer s p) p' j = if N.eqb p p' then None else bp_get s p' j.
Proof.
  unfold bp_get, clearpeer. cbn [byPeer]. destruct (N.eqb p p') eqn:E.
  - apply N.eqb_eq in E. subst. now rewrite aget_adel_same.
  - apply N.eqb_neq in E. now rewrite aget_adel_other.
Qed.

(* ---------- request predicates *)
Lemma expired_mono c t dt r : expired c t r = true -> expired c (t + dt) r = true.
Proof. unfold expired. rewrite !N.ltb_lt. lia. Qed.

Lemma pu_mono c t dt r : pu c t r = false -> pu c (t + dt) r = false.
Proof.
  unfold pu. destruct (is_pending r); cbn; auto.
  rewrite !negb_false_iff. apply expired_mono.
Qed.

Lemma pu_new c p s i : pu c (now s) (new_req p s i) = true.
Proof.
  unfold pu, expired, new_req. cbn. apply negb_true_iff. apply N.ltb_ge. lia.
Qed.

Lemma mark_fn_id p x r : r_id (mark_fn p x r) = r_id r.
Proof. unfold mark_fn. destruct (N.eqb (r_peer r) p); reflexivity. Qed.
Lemma mark_fn_piece p x r : r_piece (mark_fn p x r) = r_piece r.
Proof. unfold mark_fn. destruct (N.eqb (r_peer r) p); reflexivity. Qed.
Lemma mark_fn_peer p x r : r_peer (mark_fn p x r) = r_peer r.
Proof. unfold mark_fn. destruct (N.eqb (r_peer r) p); reflexivity. Qed.
Lemma mark_fn_sent p x r : r_sent (mark_fn p x r) = r_sent r.
Proof. unfold mark_fn. destruct (N.eqb (r_peer r) p); reflexivity. Qed.

Lemma mark_fn_pending p x r :
  x <> SPending -> is_pending (mark_fn p x r) = is_pending r && negb (N.eqb (r_peer r) p).
Proof.
  intros Hx. unfold mark_fn. destruct (N.eqb (r_peer r) p); cbn.
  - unfold is_pending. cbn. destruct x; try congruence; now rewrite andb_false_r.
  - now rewrite andb_true_r.
Qed.

Lemma mark_fn_pu c t p x r :
  x <> SPending -> pu c t (mark_fn p x r) = pu c t r && negb (N.eqb (r_peer r) p).
Proof.
  intros Hx. unfold pu. rewrite mark_fn_pending by auto.
  unfold expired. rewrite mark_fn_sent.
  destruct (is_pending r), (N.eqb (r_peer r) p), (r_sent r + c_timeout c <? t); reflexivity.
Qed.

(* ---------- the invariant *)
Record Inv (c : cfg) (s : st) : Prop := mkInv {
  K1 : NoDup (keys (requests s));
  K2 : NoDup (keys (byPeer s));
  K3 : forall p pm, In (p, pm) (byPeer s) -> NoDup (keys pm);
  (* requests[i] holds requests for piece i, with unique pointers *)
  W2 : forall i r, In r (lreq s i) -> r_piece r = i;
  W3 : forall i r, In r (lreq s i) -> r_id r < next s;
  W3n : forall i, NoDup (map r_id (lreq s i));
  (* requestsByPeer[p][i] points into requests[i], at a request of p *)
  W4 : forall p i id, bp_get s p i = Some id -> exists r, deref s i id = Some r /\ r_peer r = p;
  (* every live request of (p,i) is covered by requestsByPeer[p][i], which points at the newest
     one; the older ones are no longer outstanding, and if one of them still has status
     Pending (it expired) so has the newest *)
  W5 : forall i r, In r (lreq s i) ->
       exists id', bp_get s (r_peer r) i = Some id' /\ r_id r <= id' /\
         (id' = r_id r \/
          (pu c (now s) r = false /\
           (is_pending r = true -> exists r', deref s i id' = Some r' /\ is_pending r' = true)))
}.

Lemma inv_init c : Inv c init.
Proof.
  constructor; cbn; try (intros; contradiction); try constructor.
  - intros p i id H. discriminate.
Qed.

(* the old elements of a list are found as before when a fresh id is appended *)
Lemma find_app_old (l : list req) (rn : req) id r :
  find (fun r => N.eqb (r_id r) id) l = Some r ->
  find (fun r => N.eqb (r_id r) id) (l ++ [rn]) = Some r.
Proof. intros H. rewrite find_app, H. reflexivity. Qed.

Lemma find_app_new (l : list req) (rn : req) :
  (forall r, In r l -> r_id r <> r_id rn) ->
  find (fun r => N.eqb (r_id r) (r_id rn)) (l ++ [rn]) = Some rn.
Proof.
  intros H. rewrite find_app.
  destruct (find (fun r => N.eqb (r_id r) (r_id rn)) l) eqn:F.
  - apply find_some in F. destruct F as [F1 F2]. apply N.eqb_eq in F2. exfalso. eapply H; eauto.
  - cbn. now rewrite N.eqb_refl.
Qed.

Lemma deref_add_old p s i j id r :
  deref s j id = Some r -> deref (add_req p s i) j id = Some r.
Proof.
  rewrite !deref_lreq, lreq_add. destruct (N.eqb i j) eqn:E; auto.
  apply N.eqb_eq in E. subst. apply find_app_old.
Qed.

Lemma inv_add c p s i :
  Inv c s ->
  (forall r, In r (lreq s i) -> r_peer r = p -> pu c (now s) r = false) ->
  Inv c (add_req p s i).
Proof.
  intros I Hv.
  assert (Hfresh : forall r, In r (lreq s i) -> r_id r <> r_id (new_req p s i)).
  { intros r Hr. apply (W3 _ _ I) in Hr. cbn. lia. }
  constructor.
  - cbn [add_req requests]. apply NoDup_keys_aset, (K1 _ _ I).
  - cbn [add_req byPeer]. apply NoDup_keys_aset, (K2 _ _ I).
  - cbn [add_req byPeer]. intros p' pm HIn. apply In_aset in HIn. destruct HIn as [[= -> ->]|HIn].
    + apply NoDup_keys_aset. unfold aget_list.
      destruct (aget p (byPeer s)) eqn:E; [|constructor].
      apply aget_In in E. eapply (K3 _ _ I); eauto.
    + eapply (K3 _ _ I); eauto.
  - intros j r. rewrite lreq_add. destruct (N.eqb i j) eqn:E.
    + apply N.eqb_eq in E. subst j. rewrite in_app_iff. intros [H|[<-|[]]].
      * eapply (W2 _ _ I); eauto.
      * reflexivity.
    + apply (W2 _ _ I).
  - intros j r. rewrite lreq_add. cbn [add_req next]. destruct (N.eqb i j) eqn:E.
    + rewrite in_app_iff. intros [H|[<-|[]]].
      * apply (W3 _ _ I) in H. lia.
      * cbn. lia.
    + intros H. apply (W3 _ _ I) in H. lia.
  - intros j. rewrite lreq_add. destruct (N.eqb i j) eqn:E.
    + rewrite map_app. apply NoDup_app_intro.
      * apply (W3n _ _ I).
      * cbn. constructor; [intros []|constructor].
      * intros x Hx [<-|[]]. apply in_map_iff in Hx. destruct Hx as [r [Hr1 Hr2]].
        apply Hfresh in Hr2. congruence.
    + apply (W3n _ _ I).
  - intros p' j id. rewrite bp_add. destruct (N.eqb p p' && N.eqb i j) eqn:E.
    + apply andb_true_iff in E. destruct E as [E1 E2]. apply N.eqb_eq in E1, E2. subst p' j.
      intros [= <-]. exists (new_req p s i). split; [|reflexivity].
      rewrite deref_lreq, lreq_add, N.eqb_refl.
      apply (find_app_new (lreq s i) (new_req p s i)). exact Hfresh.
    + intros H. apply (W4 _ _ I) in H. destruct H as [r [H1 H2]].
      exists r. split; auto. now apply deref_add_old.
  - intros j r. rewrite lreq_add. cbn [add_req now].
    assert (Hold : In r (lreq s j) ->
      exists id', bp_get (add_req p s i) (r_peer r) j = Some id' /\ r_id r <= id' /\
        (id' = r_id r \/ (pu c (now s) r = false /\
          (is_pending r = true -> exists r', deref (add_req p s i) j id' = Some r' /\ is_pending r' = true)))).
    { intros Hr. rewrite bp_add.
      destruct (N.eqb p (r_peer r) && N.eqb i j) eqn:E.
      - apply andb_true_iff in E. destruct E as [E1 E2]. apply N.eqb_eq in E1, E2. subst j.
        exists (next s). split; auto. split; [apply (W3 _ _ I) in Hr; lia|].
        right. split; [apply Hv; auto|].
        intros _. exists (new_req p s i). split; [|reflexivity].
        rewrite deref_lreq, lreq_add, N.eqb_refl.
        apply (find_app_new (lreq s i) (new_req p s i)). exact Hfresh.
      - destruct (W5 _ _ I _ _ Hr) as [id' [H1 [H2 H3]]].
        exists id'. split; auto. split; auto.
        destruct H3 as [H3|[H3 H4]]; [now left|right]. split; auto.
        intros Hp. destruct (H4 Hp) as [r' [H5 H6]]. exists r'. split; auto.
        now apply deref_add_old. }
    destruct (N.eqb i j) eqn:E.
    + apply N.eqb_eq in E. subst j. rewrite in_app_iff. intros [H|[<-|[]]]; auto.
      exists (next s). cbn [new_req r_peer r_id]. rewrite bp_add, !N.eqb_refl. cbn.
      split; auto. split; [lia|now left].
    + auto.
Qed.

Lemma inv_mark c s p i x : x <> SPending -> Inv c s -> Inv c (mark s p i x).
Proof.
  intros Hx I.
  assert (Hder : forall j id, deref (mark s p i x) j id =
            if N.eqb i j then option_map (mark_fn p x) (deref s j id) else deref s j id).
  { intros j id. rewrite !deref_lreq, lreq_mark. destruct (N.eqb i j) eqn:E; auto.
    apply N.eqb_eq in E. subst j.
    apply (find_map_key r_id (mark_fn p x)). apply mark_fn_id. }
  constructor.
  - unfold mark. destruct (aget i (requests s)); cbn [requests]; [apply NoDup_keys_aset|]; apply (K1 _ _ I).
  - unfold mark. destruct (aget i (requests s)); cbn [byPeer]; apply (K2 _ _ I).
  - unfold mark. destruct (aget i (requests s)); cbn [byPeer]; apply (K3 _ _ I).
  - intros j r. rewrite lreq_mark. destruct (N.eqb i j) eqn:E; [|apply (W2 _ _ I)].
    apply N.eqb_eq in E. subst j. rewrite in_map_iff. intros [r0 [<- H]].
    rewrite mark_fn_piece. eapply (W2 _ _ I); eauto.
  - intros j r. replace (next (mark s p i x)) with (next s)
      by (unfold mark; destruct (aget i (requests s)); reflexivity).
    rewrite lreq_mark. destruct (N.eqb i j) eqn:E; [|apply (W3 _ _ I)].
    rewrite in_map_iff. intros [r0 [<- H]]. rewrite mark_fn_id. eapply (W3 _ _ I); eauto.
  - intros j. rewrite lreq_mark. destruct (N.eqb i j) eqn:E; [|apply (W3n _ _ I)].
    rewrite map_map. erewrite map_ext; [apply (W3n _ _ I)|]. intros a. apply mark_fn_id.
  - intros p' j id. rewrite bp_mark. intros H. apply (W4 _ _ I) in H. destruct H as [r [H1 H2]].
    rewrite Hder. destruct (N.eqb i j).
    + exists (mark_fn p x r). rewrite H1. cbn. split; auto. now rewrite mark_fn_peer.
    + exists r. auto.
  - intros j r. replace (now (mark s p i x)) with (now s)
      by (unfold mark; destruct (aget i (requests s)); reflexivity).
    rewrite lreq_mark. destruct (N.eqb i j) eqn:E.
    + apply N.eqb_eq in E. subst j. rewrite in_map_iff. intros [r0 [<- H]].
      destruct (W5 _ _ I _ _ H) as [id' [H1 [H2 H3]]].
      exists id'. rewrite mark_fn_peer, mark_fn_id, bp_mark. split; auto. split; auto.
      destruct H3 as [H3|[H3 H4]]; [now left|right].
      rewrite mark_fn_pu, mark_fn_pending by auto. rewrite H3. split; auto.
      intros Hp. apply andb_true_iff in Hp. destruct Hp as [Hp1 Hp2].
      destruct (H4 Hp1) as [r' [H5 H6]].
      exists (mark_fn p x r'). rewrite Hder, N.eqb_refl, H5. split; auto.
      rewrite mark_fn_pending by auto. rewrite H6. cbn.
      destruct (W4 _ _ I _ _ _ H1) as [r2 [H7 H8]].
      rewrite H5 in H7. injection H7 as <-. now rewrite H8.
    + intros H. destruct (W5 _ _ I _ _ H) as [id' [H1 [H2 H3]]].
      exists id'. rewrite bp_mark. split; auto. split; auto.
      destruct H3 as [H3|[H3 H4]]; [now left|right]. split; auto.
      intros Hp. destruct (H4 Hp) as [r' [H5 H6]]. exists r'. rewrite Hder, E. auto.
Qed.

Lemma inv_clear c s i : Inv c s -> Inv c (clear s i).
Proof.
  intros I.
  assert (Hder : forall j id, deref (clear s i) j id = if N.eqb i j then None else deref s j id).
  { intros j id. rewrite !deref_lreq, lreq_clear. destruct (N.eqb i j); reflexivity. }
  constructor.
  - cbn [clear requests]. apply NoDup_keys_adel, (K1 _ _ I).
  - cbn [clear byPeer]. apply NoDup_map_filter.
    change (map (fun e : N * list (N * N) => (fst e, adel i (snd e))) (byPeer s))
      with (amap (adel i) (byPeer s)).
    fold (keys (amap (adel i) (byPeer s))). rewrite keys_amap. apply (K2 _ _ I).
  - cbn [clear byPeer]. intros p pm H. apply filter_In in H. destruct H as [H _].
    apply in_map_iff in H. destruct H as [[p0 pm0] [[= <- <-] H]]. cbn.
    apply NoDup_keys_adel. eapply (K3 _ _ I); eauto.
  - intros j r. rewrite lreq_clear. destruct (N.eqb i j); [intros []|apply (W2 _ _ I)].
  - intros j r. rewrite lreq_clear. cbn [clear next]. destruct (N.eqb i j); [intros []|apply (W3 _ _ I)].
  - intros j. rewrite lreq_clear. destruct (N.eqb i j); [constructor|apply (W3n _ _ I)].
  - intros p j id. rewrite bp_clear by apply (K2 _ _ I). rewrite Hder.
    destruct (N.eqb i j); [discriminate|apply (W4 _ _ I)].
  - intros j r. rewrite lreq_clear. cbn [clear now]. destruct (N.eqb i j) eqn:E; [intros []|].
    intros H. destruct (W5 _ _ I _ _ H) as [id' [H1 [H2 H3]]].
    exists id'. rewrite bp_clear by apply (K2 _ _ I). rewrite E. split; auto. split; auto.
    destruct H3 as [H3|[H3 H4]]; [now left|right]. split; auto.
    intros Hp. destruct (H4 Hp) as [r' [H5 H6]]. exists r'. rewrite Hder, E. auto.
Qed.

Lemma inv_clearpeer c s p : Inv c s -> Inv c (clearpeer s p).
Proof.
  intros I.
  assert (Hder : forall j id, deref (clearpeer s p) j id =
            match deref s j id with Some r => if not_peer p r then Some r else None | None => None end).
  { intros j id. rewrite !deref_lreq, lreq_clearpeer.
    apply (find_filter_unique r_id). apply (W3n _ _ I). }
  constructor.
  - cbn [clearpeer requests].
    change (map (fun e : N * list req => (fst e, filter (not_peer p) (snd e))) (requests s))
      with (amap (filter (not_peer p)) (requests s)).
    rewrite keys_amap. apply (K1 _ _ I).
  - cbn [clearpeer byPeer]. apply NoDup_keys_adel, (K2 _ _ I).
  - cbn [clearpeer byPeer]. intros p' pm H. apply filter_In in H. destruct H as [H _].
    eapply (K3 _ _ I); eauto.
  - intros j r. rewrite lreq_clearpeer, filter_In. intros [H _]. eapply (W2 _ _ I); eauto.
  - intros j r. rewrite lreq_clearpeer, filter_In. cbn [clearpeer next]. intros [H _]. eapply (W3 _ _ I); eauto.
  - intros j. rewrite lreq_clearpeer. apply NoDup_map_filter, (W3n _ _ I).
  - intros p' j id. rewrite bp_clearpeer. destruct (N.eqb p p') eqn:E; [discriminate|].
    intros H. apply (W4 _ _ I) in H. destruct H as [r [H1 H2]].
    exists r. rewrite Hder, H1. unfold not_peer. rewrite H2, N.eqb_sym, E. auto.
  - intros j r. rewrite lreq_clearpeer, filter_In. cbn [clearpeer now]. intros [H Hnp].
    destruct (W5 _ _ I _ _ H) as [id' [H1 [H2 H3]]].
    exists id'. rewrite bp_clearpeer.
    unfold not_peer in Hnp. apply negb_true_iff in Hnp. rewrite N.eqb_sym, Hnp.
    split; auto. split; auto.
    destruct H3 as [H3|[H3 H4]]; [now left|right]. split; auto.
    intros Hp. destruct (H4 Hp) as [r' [H5 H6]]. exists r'. rewrite Hder, H5.
    destruct (W4 _ _ I _ _ _ H1) as [r2 [H7 H8]]. rewrite H5 in H7. injection H7 as <-.
    unfold not_peer. rewrite H8, Hnp. auto.
Qed.

Lemma inv_tick c s dt : Inv c s -> Inv c (mkst (now s + dt) (next s) (requests s) (byPeer s)).
Proof.
  intros I. constructor; try apply I.
  intros j r H. destruct (W5 _ _ I _ _ H) as [id' [H1 [H2 H3]]].
  exists id'. split; [exact H1|]. split; auto.
  destruct H3 as [H3|[H3 H4]]; [now left|right]. split; auto.
  cbn [now]. now apply pu_mono.
Qed.
