(* C19: list / map facts and the per-peer invariant. *)
From Coq Require Import List NArith Bool Arith Lia.
From K.Model Require Import C19.
Import ListNotations.

Lemma upd_same : forall A (f : nat -> A) k v, upd f k v k = v.
Proof. intros. unfold upd. now rewrite Nat.eqb_refl. Qed.
Lemma upd_other : forall A (f : nat -> A) k v j, j <> k -> upd f k v j = f j.
Proof. intros. unfold upd. destruct (Nat.eqb j k) eqn:E; auto. apply Nat.eqb_eq in E. contradiction. Qed.

Lemma take_first_split : forall A (f : A -> bool) l w rest,
  take_first f l = Some (w, rest) ->
  exists l1 l2, l = l1 ++ w :: l2 /\ rest = l1 ++ l2 /\ f w = true /\ forall x, In x l1 -> f x = false.
Proof.
  induction l as [|x t IH]; intros w rest H; cbn in H; [discriminate|].
  destruct (f x) eqn:Fx.
  - inversion H; subst. exists [], rest. repeat split; auto. intros ? [].
  - destruct (take_first f t) as [[y t']|] eqn:E; [|discriminate]. inversion H; subst.
    destruct (IH _ _ eq_refl) as (l1 & l2 & -> & -> & Fw & Hl1).
    exists (x :: l1), l2. repeat split; auto. intros z [->|Hz]; auto.
Qed.

Lemma take_first_none : forall A (f : A -> bool) l,
  take_first f l = None -> forall x, In x l -> f x = false.
Proof.
  induction l as [|y t IH]; intros H x Hx; [destruct Hx|]. cbn in H.
  destruct (f y) eqn:Fy; [discriminate|].
  destruct (take_first f t) as [[? ?]|] eqn:E; [discriminate|].
  destruct Hx as [->|Hx]; auto.
Qed.

Lemma take_first_in : forall A (f : A -> bool) l w rest,
  take_first f l = Some (w, rest) -> In w l /\ f w = true /\ forall x, In x rest -> In x l.
Proof.
  intros A f l w rest H. destruct (take_first_split _ _ _ _ _ H) as (l1 & l2 & -> & -> & Fw & _).
  repeat split; auto.
  - apply in_or_app. right. now left.
  - intros x Hx. apply in_app_or in Hx. apply in_or_app. destruct Hx; [left|right; right]; auto.
Qed.

(* the only element satisfying f sits at the end *)
Lemma take_first_snoc : forall A (f : A -> bool) l m,
  (forall x, In x l -> f x = false) -> f m = true -> take_first f (l ++ [m]) = Some (m, l).
Proof.
  induction l as [|y t IH]; intros m Hl Fm; cbn.
  - now rewrite Fm.
  - rewrite (Hl y (or_introl eq_refl)). rewrite IH; auto. intros x Hx. apply Hl. now right.
Qed.

Lemma existsb_false_forall : forall A (f : A -> bool) l, existsb f l = false -> forall x, In x l -> f x = false.
Proof.
  induction l as [|y t IH]; intros H x Hx; [destruct Hx|]. cbn in H. apply orb_false_iff in H as [H1 H2].
  destruct Hx as [->|Hx]; auto.
Qed.

Lemma map_seq_nth : forall A (l : list A) (f : nat -> option A) k,
  (forall i, i < length l -> f (k + i) = nth_error l i) -> map f (seq k (length l)) = map Some l.
Proof.
  induction l as [|x t IH]; intros f k H; cbn; [reflexivity|].
  f_equal.
  - specialize (H 0 (Nat.lt_0_succ _)). now rewrite Nat.add_0_r in H.
  - apply IH. intros i Hi. specialize (H (S i) (proj1 (Nat.succ_lt_mono _ _) Hi)).
    cbn in H. now rewrite <- Nat.add_succ_comm in H.
Qed.

Lemma nodup_app_single : forall (l : list nat) i, NoDup l -> ~ In i l -> NoDup (l ++ [i]).
Proof.
  induction l as [|x t IH]; intros i Hn Hi; cbn.
  - constructor; [intros []|constructor].
  - inversion Hn; subst. constructor.
    + intro Hx. apply in_app_or in Hx as [Hx|[->|[]]]; auto. apply Hi. now left.
    + apply IH; auto. intro. apply Hi. now right.
Qed.

Lemma nodup_remove_mid : forall (l1 l2 : list nat) i, NoDup (l1 ++ i :: l2) -> NoDup (l1 ++ l2) /\ ~ In i (l1 ++ l2).
Proof. intros. split; [eapply NoDup_remove_1|eapply NoDup_remove_2]; eauto. Qed.

Lemma has_conn_in : forall cs p, has_conn cs p = true <-> exists c, In c cs /\ c_peer c = p.
Proof.
  intros. unfold has_conn. rewrite existsb_exists. split; intros (c & Hc & E); exists c; split; auto.
  - now apply Nat.eqb_eq. - now apply Nat.eqb_eq.
Qed.

Lemma has_conn_del : forall cs p, has_conn (del_conn cs p) p = false.
Proof.
  intros. destruct (has_conn (del_conn cs p) p) eqn:E; auto.
  apply has_conn_in in E as (c & Hc & Ec). unfold del_conn in Hc. apply filter_In in Hc as [_ Hc].
  rewrite Ec, Nat.eqb_refl in Hc. discriminate.
Qed.

Lemma has_conn_del_other : forall cs p q, q <> p -> has_conn (del_conn cs p) q = has_conn cs q.
Proof.
  intros cs p q Hq. unfold has_conn, del_conn. induction cs as [|c t IH]; cbn; auto.
  destruct (Nat.eqb (c_peer c) p) eqn:E; cbn.
  - rewrite IH. apply Nat.eqb_eq in E. destruct (Nat.eqb (c_peer c) q) eqn:E2; auto.
    apply Nat.eqb_eq in E2. congruence.
  - now rewrite IH.
Qed.

Lemma del_conn_length : forall cs p, length (del_conn cs p) <= length cs.
Proof.
  intros. unfold del_conn. induction cs as [|c t IH]; cbn; auto.
  destruct (negb (Nat.eqb (c_peer c) p)); cbn; lia.
Qed.

Lemma del_conn_length_lt : forall cs p, has_conn cs p = true -> length (del_conn cs p) < length cs.
Proof.
  induction cs as [|c t IH]; intros p H; cbn in *; [discriminate|].
  unfold del_conn; cbn. destruct (Nat.eqb (c_peer c) p) eqn:E; cbn.
  - pose proof (del_conn_length t p) as H0. unfold del_conn in H0. lia.
  - specialize (IH _ H). unfold del_conn in IH. lia.
Qed.

Lemma has_conn_app : forall cs cs' p, has_conn (cs ++ cs') p = has_conn cs p || has_conn cs' p.
Proof. intros. unfold has_conn. apply existsb_app. Qed.

Lemma has_conn_view_set : forall cs p i q, has_conn (view_set cs p i) q = has_conn cs q.
Proof.
  intros cs p i q. unfold has_conn, view_set. induction cs as [|c t IH]; cbn; auto. rewrite IH. f_equal.
  destruct (Nat.eqb (c_peer c) p); reflexivity.
Qed.

Lemma view_set_length : forall cs p i, length (view_set cs p i) = length cs.
Proof. intros. unfold view_set. apply map_length. Qed.
