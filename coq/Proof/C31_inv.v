(* C31: the invariant behind the safety clause, and the two master lemmas that reduce every
   step to what it does to the threads of its own digest. *)
From Coq Require Import List NArith Bool Lia.
From K.Model Require Import C31.
From K.Proof Require Import C31_base.
Import ListNotations.
Local Open Scope N_scope.

Section Inv.
Variable nsof : N -> N.
Definition kof (d : N) : key := (nsof d, d).

Definition clr_phase (ph : ephase) : bool := match ph with EClr | ERet true => true | _ => false end.
Definition win_thread (th : thread) : bool := match th with TFc _ pc => in_window pc | _ => false end.

(* unconditional part: the thread works for the namespace of its digest *)
Definition thr_wf (th : thread) : Prop :=
  match th with
  | TUp ns d _ => ns = nsof d
  | TEx ns d _ => ns = nsof d
  | TFc d (FSync todo _ _) => Forall (fun h => h = kof d) todo
  | TFc _ _ => True
  end.

(* what a thread on digest d may be doing while (nsof d, d) is not in the backend *)
Definition thr_cond (s : st) (th : thread) : Prop :=
  match th with
  | TUp ns d pc =>
      match pc with
      | UMove | USetP => True
      | UAdd => persisted d (s_files s) = true
      | UMeta | UAck => persisted d (s_files s) = true /\ kmem (kof d) (s_tasks s) = true
      end
  | TEx ns d ph => kmem (kof d) (s_tasks s) = true /\ clr_phase ph = false
  | TFc d pc =>
      match pc with
      | FSync todo ph att =>
          up_at_add d (s_thr s) = false /\
          (todo <> [] -> clr_phase ph = false /\ kmem (kof d) (s_tasks s) = true) /\
          (kmem (kof d) (s_tasks s) = true -> todo <> [])
      | FDelP => up_at_add d (s_thr s) = false /\ kmem (kof d) (s_tasks s) = false
      | _ => True
      end
  end.

Definition thr_ok (s : st) (th : thread) : Prop :=
  thr_wf th /\ (kmem (kof (thr_digest th)) (s_back s) = false -> thr_cond s th).

Definition keys_wf (l : list key) : Prop := Forall (fun k => k = kof (snd k)) l.

Record Inv (s : st) : Prop := mkInv {
  i_thr : forall x, In x (s_thr s) -> thr_ok s (snd x);
  i_tasks : keys_wf (s_tasks s);
  i_acked : keys_wf (s_acked s);
  i_g1 : forall d, kmem (kof d) (s_back s) = false -> kmem (kof d) (s_tasks s) = true ->
                   persisted d (s_files s) = true;
  i_g2 : forall d, kmem (kof d) (s_back s) = false -> kmem (kof d) (s_acked s) = true ->
                   kmem (kof d) (s_tasks s) = true }.

Lemma inv_init : Inv init.
Proof. constructor; cbn; try (intros; contradiction || discriminate); constructor. Qed.

Lemma keys_wf_kmem : forall l k, keys_wf l -> kmem k l = true -> k = kof (snd k).
Proof. intros l k W H; apply kmem_In in H. unfold keys_wf in W; rewrite Forall_forall in W; auto. Qed.

Lemma keys_wf_add : forall l d, keys_wf l -> keys_wf (add_key (kof d) l).
Proof.
  intros l d W; unfold keys_wf in *; rewrite Forall_forall in *; intros x Hx.
  apply In_add_key in Hx; destruct Hx as [Hx| ->]; auto.
Qed.
Lemma keys_wf_remove : forall l k, keys_wf l -> keys_wf (kremove k l).
Proof.
  intros l k W; unfold keys_wf in *; rewrite Forall_forall in *; intros x Hx.
  apply In_kremove in Hx; auto.
Qed.

Lemma clr_phase_stale : forall ph, clr_phase (stale_ph ph) = clr_phase ph.
Proof. destruct ph; auto. Qed.
Lemma thr_digest_stale : forall d th, thr_digest (stale_thread d th) = thr_digest th.
Proof.
  intros d [ns x pc|ns x ph|x pc]; cbn; auto.
  - destruct (x =? d); auto.
  - destruct pc; auto; destruct (x =? d); auto.
Qed.
Lemma thr_wf_stale : forall d th, thr_wf th -> thr_wf (stale_thread d th).
Proof.
  intros d [ns x pc|ns x ph|x pc]; cbn; auto.
  - destruct (x =? d); auto.
  - destruct pc; auto; destruct (x =? d); auto.
Qed.
Lemma thr_cond_stale : forall s d th, thr_cond s th -> thr_cond s (stale_thread d th).
Proof.
  intros s d [ns x pc|ns x ph|x pc]; cbn; auto.
  - destruct (x =? d); cbn; auto. rewrite clr_phase_stale; auto.
  - destruct pc; auto; destruct (x =? d); cbn; auto. rewrite clr_phase_stale; auto.
Qed.
Lemma win_thread_stale : forall d th, win_thread (stale_thread d th) = win_thread th.
Proof.
  intros d [ns x pc|ns x ph|x pc]; cbn; auto.
  - destruct (x =? d); auto.
  - destruct pc; auto; destruct (x =? d); auto.
Qed.

(* a thread's condition survives a change of the shared state that, for its digest, keeps the
   persist flag (or sets it), keeps the row (or adds it, for threads outside the window) and adds
   no upload between set-persist and Add *)
Lemma thr_cond_mono : forall s s' th,
  thr_cond s th ->
  (persisted (thr_digest th) (s_files s) = true -> persisted (thr_digest th) (s_files s') = true) ->
  (win_thread th = true -> kmem (kof (thr_digest th)) (s_tasks s') = kmem (kof (thr_digest th)) (s_tasks s)) ->
  (kmem (kof (thr_digest th)) (s_tasks s) = true -> kmem (kof (thr_digest th)) (s_tasks s') = true) ->
  (win_thread th = true -> up_at_add (thr_digest th) (s_thr s') = true -> up_at_add (thr_digest th) (s_thr s) = true) ->
  thr_cond s' th.
Proof.
  intros s s' [ns d pc|ns d ph|d pc]; cbn [thr_cond thr_digest win_thread].
  - destruct pc; intuition.
  - intuition.
  - destruct pc; cbn [in_window]; auto.
    + intros [U [A B]] _ T _ Up. specialize (T eq_refl). rewrite T. split; [|split; auto].
      destruct (up_at_add d (s_thr s')) eqn:E; auto. rewrite (Up eq_refl eq_refl) in U; discriminate.
    + intros [U A] _ T _ Up. specialize (T eq_refl). rewrite T. split; auto.
      destruct (up_at_add d (s_thr s')) eqn:E; auto. rewrite (Up eq_refl eq_refl) in U; discriminate.
Qed.

Lemma thr_ok_mono : forall s s' th,
  thr_ok s th ->
  (kmem (kof (thr_digest th)) (s_back s') = false -> kmem (kof (thr_digest th)) (s_back s) = false) ->
  (persisted (thr_digest th) (s_files s) = true -> persisted (thr_digest th) (s_files s') = true) ->
  (win_thread th = true -> kmem (kof (thr_digest th)) (s_tasks s') = kmem (kof (thr_digest th)) (s_tasks s)) ->
  (kmem (kof (thr_digest th)) (s_tasks s) = true -> kmem (kof (thr_digest th)) (s_tasks s') = true) ->
  (win_thread th = true -> up_at_add (thr_digest th) (s_thr s') = true -> up_at_add (thr_digest th) (s_thr s) = true) ->
  thr_ok s' th.
Proof.
  intros s s' th [W C] B P T1 T2 U; split; auto. intros Hb. eapply thr_cond_mono; eauto.
Qed.

Lemma thr_ok_inback : forall s th, thr_wf th -> kmem (kof (thr_digest th)) (s_back s) = true -> thr_ok s th.
Proof. intros s th W H; split; auto. intros H2; congruence. Qed.

(* ---- master lemma 1: only the thread list changes, and no upload newly sits between
   set-persist and Add *)
Lemma inv_thr_only : forall s l',
  Inv s ->
  (forall x, In x l' -> In x (s_thr s) \/ thr_ok (with_thr s l') (snd x)) ->
  (forall d, up_at_add d l' = true -> up_at_add d (s_thr s) = true) ->
  Inv (with_thr s l').
Proof.
  intros s l' I New Up. destruct I as [It Ik Ia G1 G2].
  constructor; cbn [with_thr s_thr s_files s_tasks s_back s_acked]; auto.
  intros x Hx. destruct (New x Hx) as [Old|Ok]; auto.
  eapply thr_ok_mono; [apply It; exact Old| | | | |]; cbn [with_thr s_thr s_files s_tasks s_back s_acked]; auto.
Qed.

(* ---- master lemma 2: a step that touches only what belongs to digest d0 *)
Lemma inv_frame : forall s s' d0,
  Inv s ->
  (forall k, kmem k (s_back s) = true -> kmem k (s_back s') = true) ->
  (forall d, d <> d0 -> flook d (s_files s') = flook d (s_files s)) ->
  (forall k, snd k <> d0 -> kmem k (s_tasks s') = kmem k (s_tasks s)) ->
  (forall k, snd k <> d0 -> kmem k (s_acked s') = kmem k (s_acked s)) ->
  (forall d, d <> d0 -> up_at_add d (s_thr s') = true -> up_at_add d (s_thr s) = true) ->
  (forall x, In x (s_thr s') -> thr_digest (snd x) <> d0 -> In x (s_thr s)) ->
  keys_wf (s_tasks s') -> keys_wf (s_acked s') ->
  (forall x, In x (s_thr s') -> thr_digest (snd x) = d0 -> thr_ok s' (snd x)) ->
  (kmem (kof d0) (s_back s') = false -> kmem (kof d0) (s_tasks s') = true -> persisted d0 (s_files s') = true) ->
  (kmem (kof d0) (s_back s') = false -> kmem (kof d0) (s_acked s') = true -> kmem (kof d0) (s_tasks s') = true) ->
  Inv s'.
Proof.
  intros s s' d0 I Bm Ff Ft Fa Fu Fthr Wt Wa Thr0 G10 G20. destruct I as [It Ik Ia G1 G2].
  assert (Bf : forall k, kmem k (s_back s') = false -> kmem k (s_back s) = false).
  { intros k H; destruct (kmem k (s_back s)) eqn:E; auto. rewrite (Bm _ E) in H; discriminate. }
  constructor; auto.
  - intros x Hx. destruct (N.eq_dec (thr_digest (snd x)) d0) as [E|E]; auto.
    specialize (Fthr x Hx E). eapply thr_ok_mono; [apply It; exact Fthr| | | | |].
    + auto.
    + unfold persisted; rewrite Ff; auto.
    + intros _; apply Ft; cbn; auto.
    + rewrite Ft by (cbn; auto); auto.
    + intros _; apply Fu; auto.
  - intros d Hb Ht. destruct (N.eq_dec d d0) as [->|E]; auto.
    unfold persisted; rewrite Ff; auto. apply G1; auto. rewrite <- Ft; cbn; auto.
  - intros d Hb Ha. destruct (N.eq_dec d d0) as [->|E]; auto.
    rewrite Ft by (cbn; auto). apply G2; auto. rewrite <- Fa; cbn; auto.
Qed.

Lemma inv_safe : forall s, Inv s -> safe_state s = true.
Proof.
  intros s [It Ik Ia G1 G2]. unfold safe_state. apply forallb_forall. intros k Hk.
  assert (E : k = kof (snd k)) by (unfold keys_wf in Ia; rewrite Forall_forall in Ia; auto).
  unfold safe_key. destruct (kmem k (s_back s)) eqn:B; auto. cbn.
  apply kmem_In in Hk. rewrite E in B, Hk.
  pose proof (G2 _ B Hk) as T. pose proof (G1 _ B T) as P.
  rewrite (persisted_present _ _ P). rewrite E; cbn. exact T.
Qed.

End Inv.
