(* C05 — the disk invariant of the blob cache and its preservation by every prefix of every
   operation's mutating calls, by restarts, and hence by every multi-crash history. *)
From Coq Require Import List NArith Bool Lia Arith PeanoNat.
From K.Model Require Import C05.
Import ListNotations.
Local Open Scope N_scope.

(* ---------------------------------------------------------------- assumptions on the environment *)
(* SHA-256 is arbitrary.  Of the metainfo codec we assume: what the serialiser produces (for a positive
   piece length) decodes to a valid metainfo of that blob; valid implies decodable; a serialised
   metainfo cut short and/or followed by zero bytes does not decode, nor does a run of zero bytes
   (encoding/json: a JSON document is a complete value with nothing but white space after it); the
   configured piece lengths are positive (metainfogen/config.go). *)
Record env_ok (E : env) : Prop := mk_env_ok {
  ok_ser : forall d c pl, pl <> 0 -> evalid E d c (eser E d c pl) = true;
  ok_dec : forall d c b, evalid E d c b = true -> edec E b = true;
  ok_garb : forall d c pl m z, ((m < length (eser E d c pl))%nat \/ (0 < z)%nat) ->
                               edec E (firstn m (eser E d c pl) ++ repeat 0 z) = false;
  ok_zero : forall z, edec E (repeat 0 z) = false;
  ok_pl : forall n, epl E n <> 0 }.

(* ---------------------------------------------------------------- the invariant *)
(* contents a `_torrentmeta` sidecar of blob (d, c) can have: a prefix of a serialised metainfo of
   this blob (or of nothing), followed by zero bytes *)
Definition msrc (E : env) (d : N) (c s0 : bytes) : Prop := s0 = [] \/ exists pl, pl <> 0 /\ s0 = eser E d c pl.
Definition mshape (E : env) (d : N) (c b : bytes) : Prop :=
  exists s0 m z, msrc E d c s0 /\ b = firstn m s0 ++ repeat 0 z.

Definition dir_inv (E : env) (d : N) (e : edir) : Prop :=
  (forall c, e_data e = Some c -> eH E c = d) /\
  (forall b, e_meta e = Some b -> exists c, e_data e = Some c /\ mshape E d c b).

Definition Inv (E : env) (s : fs) : Prop := forall d e, ca s d = Some e -> dir_inv E d e.

Lemma Inv_fs0 : forall E, Inv E fs0.
Proof. intros E d e H. discriminate H. Qed.

Lemma Inv_ext : forall E s s', (forall d, ca s' d = ca s d) -> Inv E s -> Inv E s'.
Proof. intros E s s' H I d e Hd. rewrite H in Hd. exact (I d e Hd). Qed.

Lemma dir_inv_same : forall E d e e', e_data e' = e_data e -> e_meta e' = e_meta e -> dir_inv E d e -> dir_inv E d e'.
Proof. intros E d e e' H1 H2 [A B]. split; intros x Hx; [rewrite H1 in Hx; auto | rewrite H2 in Hx; rewrite H1; auto]. Qed.

Lemma dir_inv_empty : forall E d, dir_inv E d empty_dir.
Proof. intros E d. split; intros x Hx; discriminate Hx. Qed.

Lemma upd_same : forall V (f : N -> V) k v, upd f k v k = v.
Proof. intros. unfold upd. rewrite N.eqb_refl. reflexivity. Qed.
Lemma upd_other : forall V (f : N -> V) k v y, y <> k -> upd f k v y = f y.
Proof. intros. unfold upd. destruct (y =? k) eqn:Q; [apply N.eqb_eq in Q; contradiction | reflexivity]. Qed.

Lemma Inv_set_ca : forall E s k e', Inv E s -> dir_inv E k e' -> Inv E (dset ACa k (Some e') s).
Proof.
  intros E s k e' I D d e Hd. cbn in Hd. unfold upd in Hd.
  destruct (d =? k) eqn:Q.
  - apply N.eqb_eq in Q. subst d. injection Hd as <-. exact D.
  - exact (I d e Hd).
Qed.

(* ---------------------------------------------------------------- list facts *)
Lemma firstn_repeat : forall (A : Type) (x : A) n k, firstn n (repeat x k) = repeat x (Nat.min n k).
Proof. induction n; destruct k; cbn; try reflexivity. f_equal. apply IHn. Qed.

Lemma write_at_0_short : forall cur b, (length cur <= length b)%nat -> write_at cur 0 b = b.
Proof.
  intros cur b H. unfold write_at. cbn [N.to_nat firstn Nat.sub repeat app Nat.add].
  rewrite skipn_all2 by exact H. apply app_nil_r.
Qed.

Lemma resize_length : forall c n, length (resize c n) = N.to_nat n.
Proof.
  intros c n. unfold resize. rewrite app_length, firstn_length, repeat_length. lia.
Qed.

Lemma resize_shape : forall E d c b n, mshape E d c b -> mshape E d c (resize b n).
Proof.
  intros E d c b n (s0 & m & z & Hs & ->).
  unfold resize. set (k := N.to_nat n).
  rewrite firstn_app, firstn_firstn, firstn_repeat, <- app_assoc, <- repeat_app.
  exists s0, (Nat.min k m). eexists. split; [exact Hs | reflexivity].
Qed.

(* classification of the sidecar contents the invariant allows *)
Lemma mshape_class : forall E d c b, env_ok E -> mshape E d c b -> evalid E d c b = true \/ edec E b = false.
Proof.
  intros E d c b OK (s0 & m & z & Hs & ->).
  destruct Hs as [-> | (pl & Hpl & ->)].
  - right. rewrite firstn_nil. cbn [app]. apply (ok_zero E OK).
  - destruct (lt_dec m (length (eser E d c pl))) as [L | L].
    + right. apply (ok_garb E OK). left. exact L.
    + destruct z as [| z].
      * left. rewrite firstn_all2 by lia. cbn [repeat]. rewrite app_nil_r. apply (ok_ser E OK). exact Hpl.
      * right. apply (ok_garb E OK). right. lia.
Qed.

(* ---------------------------------------------------------------- which calls keep the invariant *)
Definition safe_call (E : env) (s : fs) (c : call) : Prop :=
  match c with
  | CMkRoot _ | CMkShard _ | CMkDir _ _ | CBad _ => True
  | CCreate AUp _ _ | CWrite AUp _ _ _ _ | CTrunc AUp _ _ _ | CUnlink AUp _ _ | CRmDir AUp _ => True
  | CCreate ACa d f =>
      match f with
      | FLat | FPersist => True
      | FMeta => exists c, fileof ACa d FData s = Some c
      | FData => False
      end
  | CWrite ACa d f off b =>
      match f with
      | FLat | FPersist => True
      | FData => False
      | FMeta => off = 0 /\ exists c pl cur, fileof ACa d FData s = Some c /\ pl <> 0 /\ b = eser E d c pl /\
                                             fileof ACa d FMeta s = Some cur /\ (length cur <= length b)%nat
      end
  | CTrunc ACa d f n => match f with FData => False | _ => True end
  | CRename u d => exists c, fileof AUp u FData s = Some c /\ eH E c = d /\ fileof ACa d FData s = None
  | CUnlink ACa _ _ | CRmDir ACa _ => False
  end.

Lemma fileof_ca : forall s d f, fileof ACa d f s = match ca s d with Some e => fget f e | None => None end.
Proof. reflexivity. Qed.

Lemma safe_preserves : forall E s c, Inv E s -> safe_call E s c -> Inv E (apply_call s c).
Proof.
  intros E s c I S. unfold apply_call. destruct (apply_opt s c) as [s' |] eqn:A; [| exact I].
  destruct c as [a | p | a k | a k f | a k f off b | a k f n | u d | a k f | a k | n]; cbn in A.
  - destruct a; [destruct (root_up s) | destruct (root_ca s)]; try discriminate; injection A as <-; exact I.
  - destruct (has_shard p s); try discriminate. injection A as <-. exact I.
  - destruct (dget a k s) eqn:G; try discriminate. injection A as <-.
    destruct a; [exact I | apply Inv_set_ca; [exact I | apply dir_inv_empty]].
  - destruct (dget a k s) as [e |] eqn:G; try discriminate. injection A as <-.
    destruct a; [exact I |]. cbn in G. apply Inv_set_ca; [exact I |].
    pose proof (I k e G) as D.
    destruct f; cbn in S; try contradiction.
    + apply (dir_inv_same E k e); auto.
    + apply (dir_inv_same E k e); auto.
    + destruct S as (c & Hc). rewrite fileof_ca, G in Hc. cbn in Hc.
      destruct D as [D1 D2]. split; cbn; [exact D1 |].
      intros b Hb. injection Hb as <-. exists c. split; [exact Hc |].
      exists [], 0%nat, 0%nat. split; [left; reflexivity | reflexivity].
  - destruct (dget a k s) as [e |] eqn:G; try discriminate.
    destruct (fget f e) as [c0 |] eqn:F; try discriminate. injection A as <-.
    destruct a; [exact I |]. cbn in G. apply Inv_set_ca; [exact I |].
    pose proof (I k e G) as D.
    destruct f; cbn in S; try contradiction.
    + apply (dir_inv_same E k e); auto.
    + apply (dir_inv_same E k e); auto.
    + destruct S as (-> & c & pl & cur & Hc & Hpl & -> & Hcur & Hlen).
      rewrite fileof_ca, G in Hc, Hcur. cbn in Hc, Hcur, F. rewrite F in Hcur. injection Hcur as ->.
      destruct D as [D1 D2]. split; cbn; [exact D1 |].
      intros b Hb. injection Hb as <-. exists c. split; [exact Hc |].
      rewrite skipn_all2 by exact Hlen. rewrite app_nil_r.
      exists (eser E k c pl), (length (eser E k c pl)), 0%nat. split.
      * right. exists pl. split; [exact Hpl | reflexivity].
      * rewrite firstn_all. cbn. symmetry. apply app_nil_r.
  - destruct (dget a k s) as [e |] eqn:G; try discriminate.
    destruct (fget f e) as [c0 |] eqn:F; try discriminate. injection A as <-.
    destruct a; [exact I |]. cbn in G. apply Inv_set_ca; [exact I |].
    pose proof (I k e G) as D.
    destruct f; cbn in S; try contradiction.
    + apply (dir_inv_same E k e); auto.
    + apply (dir_inv_same E k e); auto.
    + destruct D as [D1 D2]. split; cbn; [exact D1 |].
      intros b Hb. injection Hb as <-. cbn in F. destruct (D2 c0 F) as (c & Hc & Sh).
      exists c. split; [exact Hc | apply resize_shape; exact Sh].
  - destruct (up s u) as [eu |] eqn:U; try discriminate.
    destruct (ca s d) as [ed |] eqn:C; try discriminate.
    destruct (e_data eu) as [c |] eqn:DU; try discriminate. injection A as <-.
    destruct S as (c' & Hc' & HH & Hn).
    unfold fileof in Hc'. cbn in Hc'. rewrite U in Hc'. cbn in Hc'. rewrite DU in Hc'. injection Hc' as <-.
    rewrite fileof_ca, C in Hn. cbn in Hn.
    apply Inv_set_ca.
    + apply (Inv_ext E s); [reflexivity | exact I].
    + pose proof (I d ed C) as [D1 D2]. split; cbn.
      * intros x Hx. injection Hx as <-. exact HH.
      * intros b Hb. destruct (D2 b Hb) as (c0 & Hc0 & _). rewrite Hn in Hc0. discriminate.
  - destruct a; cbn in S; [| contradiction].
    destruct (dget AUp k s) as [e |]; try discriminate. destruct (fget f e); try discriminate.
    injection A as <-. exact I.
  - destruct a; cbn in S; [| contradiction].
    destruct (dget AUp k s) as [e |]; try discriminate. destruct (dir_empty e); try discriminate.
    injection A as <-. exact I.
  - discriminate.
Qed.

Fixpoint trace_safe (E : env) (s : fs) (cs : list call) : Prop :=
  match cs with [] => True | c :: t => safe_call E s c /\ trace_safe E (apply_call s c) t end.

Lemma exec_app : forall a b s, exec (a ++ b) s = exec b (exec a s).
Proof. intros. unfold exec. apply fold_left_app. Qed.

Lemma trace_safe_app : forall E a b s, trace_safe E s (a ++ b) <-> trace_safe E s a /\ trace_safe E (exec a s) b.
Proof.
  intros E a. induction a as [| c a IH]; intros b s; cbn.
  - tauto.
  - rewrite IH. cbn. tauto.
Qed.

Lemma trace_safe_inv : forall E cs s, Inv E s -> trace_safe E s cs -> Inv E (exec cs s).
Proof.
  intros E cs. induction cs as [| c t IH]; intros s I T; cbn in *.
  - exact I.
  - destruct T as [S T]. apply IH; [apply safe_preserves; assumption | exact T].
Qed.

Lemma trace_safe_firstn : forall E cs s k, trace_safe E s cs -> trace_safe E s (firstn k cs).
Proof.
  intros E cs. induction cs as [| c t IH]; intros s k T; destruct k; cbn in *; auto.
  destruct T as [S T]. split; [exact S | apply IH; exact T].
Qed.

(* calls that are safe in every state *)
Definition asafe (c : call) : bool :=
  match c with
  | CMkRoot _ | CMkShard _ | CMkDir _ _ | CBad _ => true
  | CCreate AUp _ _ | CWrite AUp _ _ _ _ | CTrunc AUp _ _ _ | CUnlink AUp _ _ | CRmDir AUp _ => true
  | CCreate ACa _ f | CWrite ACa _ f _ _ => match f with FLat | FPersist => true | _ => false end
  | CTrunc ACa _ f _ => match f with FData => false | _ => true end
  | _ => false
  end.

Lemma asafe_safe : forall E s c, asafe c = true -> safe_call E s c.
Proof.
  intros E s c H. destruct c as [a | p | a k | a k f | a k f off b | a k f n | u d | a k f | a k | n]; cbn in *;
    try exact I; try discriminate; destruct a; try exact I; try discriminate; destruct f; try exact I; discriminate.
Qed.

Lemma asafe_trace : forall E cs s, forallb asafe cs = true -> trace_safe E s cs.
Proof.
  intros E cs. induction cs as [| c t IH]; intros s H; cbn in *; [exact I |].
  apply andb_prop in H as [H1 H2]. split; [apply asafe_safe; exact H1 | apply IH; exact H2].
Qed.

(* ---------------------------------------------------------------- blocks *)
Definition block_ok (E : env) (b : block) : Prop := forall s, Inv E s -> trace_safe E s (b s).

Lemma mkdirs_asafe : forall E a k s, forallb asafe (mkdirs E a k s) = true.
Proof.
  intros E a k s. unfold mkdirs. destruct a.
  - destruct (isSome (up s k)); reflexivity.
  - destruct (has_shard (firstn 1 (eshard E k)) s), (has_shard (firstn 2 (eshard E k)) s), (isSome (ca s k)); reflexivity.
Qed.

Lemma wr0_asafe_up : forall k f b, forallb asafe (wr0 AUp k f b) = true.
Proof. intros. destruct b; reflexivity. Qed.

Lemma cawf_asafe : forall E a k f b s,
  (a = AUp \/ f = FLat \/ f = FPersist) -> forallb asafe (cawf E a k f b s) = true.
Proof.
  intros E a k f b s H. unfold cawf.
  assert (W : forallb asafe (wr0 a k f b) = true).
  { destruct b; [reflexivity |]. cbn. destruct a; [reflexivity |]. destruct H as [H | [-> | ->]]; [discriminate | reflexivity | reflexivity]. }
  assert (C : asafe (CCreate a k f) = true).
  { cbn. destruct a; [reflexivity |]. destruct H as [H | [-> | ->]]; [discriminate | reflexivity | reflexivity]. }
  assert (T : forall n, asafe (CTrunc a k f n) = true).
  { intro n. cbn. destruct a; [reflexivity |]. destruct H as [H | [-> | ->]]; [discriminate | reflexivity | reflexivity]. }
  destruct (fileof a k f s) as [c |].
  - destruct (nlist_eqb c b); [reflexivity |].
    destruct (len c =? len b); cbn [app forallb]; [exact W | rewrite T, W; reflexivity].
  - rewrite !forallb_app, mkdirs_asafe, W. cbn [forallb andb]. rewrite C. reflexivity.
Qed.

Lemma lat_init_ok : forall E a k, block_ok E (lat_init E a k).
Proof.
  intros E a k s _. unfold lat_init. destruct (lat_ok (fileof a k FLat s)); [exact I |].
  apply asafe_trace, cawf_asafe. tauto.
Qed.

Lemma create_data_ok : forall E u, block_ok E (create_data u).
Proof. intros E u s _. apply asafe_trace. reflexivity. Qed.

Lemma write_data_ok : forall E u off data, block_ok E (write_data u off data).
Proof. intros E u off data s _. apply asafe_trace. unfold write_data. destruct data; reflexivity. Qed.

Lemma rmall_up_ok : forall E u lf, block_ok E (rmall_up u lf).
Proof.
  intros E u lf s _. apply asafe_trace. unfold rmall_up.
  destruct (up s u) as [e |]; [| reflexivity].
  destruct lf, (isSome (e_lat e)), (isSome (e_data e)); reflexivity.
Qed.

Lemma persist_ok : forall E d b, block_ok E (cawf E ACa d FPersist b).
Proof. intros E d b s _. apply asafe_trace, cawf_asafe. tauto. Qed.

Lemma open_ok : forall E, block_ok E open_b.
Proof. intros E s _. apply asafe_trace. unfold open_b. destruct (root_up s), (root_ca s); reflexivity. Qed.

Lemma rename_ok : forall E u d, block_ok E (rename_b E u d).
Proof.
  intros E u d s _. unfold rename_b.
  destruct (fileof AUp u FData s) as [c |] eqn:F; [| exact I].
  destruct (ca s d) as [ed |] eqn:C; [| exact I].
  destruct ((eH E c =? d) && negb (isSome (e_data ed))) eqn:G; [| exact I].
  apply andb_prop in G as [G1 G2]. apply N.eqb_eq in G1.
  cbn. split; [| exact I]. exists c. split; [exact F |]. split; [exact G1 |].
  rewrite fileof_ca, C. cbn. destruct (e_data ed); [discriminate | reflexivity].
Qed.

(* mkdirs of an existing cache entry only adds shard directories *)
Lemma mkshard_ca : forall s p, ca (apply_call s (CMkShard p)) = ca s.
Proof. intros. unfold apply_call. cbn [apply_opt]. destruct (has_shard p s); reflexivity. Qed.

Lemma mkdirs_ca_exists : forall E k s, isSome (ca s k) = true -> forall y, ca (exec (mkdirs E ACa k s) s) y = ca s y.
Proof.
  intros E k s H y. unfold mkdirs. rewrite H. rewrite app_nil_r.
  destruct (has_shard (firstn 1 (eshard E k)) s), (has_shard (firstn 2 (eshard E k)) s); cbn [app exec fold_left];
    rewrite ?mkshard_ca; reflexivity.
Qed.

Lemma len_eq : forall a b : bytes, len a =? len b = true -> length a = length b.
Proof. intros a b H. apply N.eqb_eq in H. unfold len in H. lia. Qed.

Lemma fileof_dset_same : forall a k f e' s, fileof a k f (dset a k (Some e') s) = fget f e'.
Proof. intros. unfold fileof. destruct a; cbn [dget dset ca up]; rewrite upd_same; reflexivity. Qed.

Lemma apply_trunc : forall s a k f n e c0, dget a k s = Some e -> fget f e = Some c0 ->
  apply_call s (CTrunc a k f n) = dset a k (Some (fset f (Some (resize c0 n)) e)) s.
Proof. intros s a k f n e c0 G F. unfold apply_call. cbn [apply_opt]. rewrite G, F. reflexivity. Qed.

Lemma apply_create : forall s a k f e, dget a k s = Some e ->
  apply_call s (CCreate a k f) = dset a k (Some (fset f (Some []) e)) s.
Proof. intros s a k f e G. unfold apply_call. cbn [apply_opt]. rewrite G. reflexivity. Qed.

Lemma meta_ok : forall E d plf, block_ok E (meta_b E d plf).
Proof.
  intros E d plf s Is. unfold meta_b.
  destruct (fileof ACa d FData s) as [c |] eqn:FD; [| exact I].
  destruct (plf (len c) =? 0) eqn:P; [exact I |]. apply N.eqb_neq in P.
  set (pl := plf (len c)) in *. set (b := eser E d c pl).
  assert (Hdir : isSome (ca s d) = true).
  { rewrite fileof_ca in FD. destruct (ca s d); [reflexivity | discriminate]. }
  unfold cawf. destruct (fileof ACa d FMeta s) as [c0 |] eqn:FM.
  - destruct (nlist_eqb c0 b); [exact I |].
    assert (W : forall cur s', fileof ACa d FData s' = Some c -> fileof ACa d FMeta s' = Some cur ->
                (length cur <= length b)%nat -> trace_safe E s' (wr0 ACa d FMeta b)).
    { intros cur s' H1 H2 H3. unfold wr0. destruct b eqn:Eb; [exact I |]. rewrite <- Eb in *.
      cbn. split; [| exact I]. split; [reflexivity |]. exists c, pl, cur. repeat split; auto. }
    destruct (len c0 =? len b) eqn:L; cbn [app].
    + apply (W c0); auto. apply len_eq in L. lia.
    + cbn. split; [exact I |].
      rewrite fileof_ca in FD, FM. destruct (ca s d) as [e |] eqn:C; [| discriminate]. cbn in FD, FM.
      apply (W (resize c0 (len b))).
      * rewrite (apply_trunc s ACa d FMeta (len b) e c0 C FM), fileof_dset_same. exact FD.
      * rewrite (apply_trunc s ACa d FMeta (len b) e c0 C FM), fileof_dset_same. reflexivity.
      * rewrite resize_length. unfold len. lia.
  - rewrite trace_safe_app. split; [apply asafe_trace, mkdirs_asafe |].
    set (s1 := exec (mkdirs E ACa d s) s).
    assert (C1 : forall y, ca s1 y = ca s y) by (apply mkdirs_ca_exists; exact Hdir).
    assert (FD1 : fileof ACa d FData s1 = Some c) by (rewrite fileof_ca, C1, <- fileof_ca; exact FD).
    clearbody s1. cbn [app]. cbn. split; [exists c; exact FD1 |].
    unfold wr0. destruct b eqn:Eb; [exact I |]. rewrite <- Eb.
    cbn. split; [| exact I]. split; [reflexivity |].
    rewrite fileof_ca in FD1. destruct (ca s1 d) as [e1 |] eqn:Ce; [| discriminate]. cbn in FD1.
    exists c, pl, []. rewrite (apply_create s1 ACa d FMeta e1 Ce), !fileof_dset_same.
    repeat split; auto. cbn. lia.
Qed.

(* ---------------------------------------------------------------- operations, histories, epochs *)
Lemma load_blocks_ok : forall E a k m s, Forall (block_ok E) (fst (fst (load E a k m s))).
Proof.
  intros. unfold load.
  destruct (memb k match a with AUp => m_up m | ACa => m_ca m end); [constructor |].
  destruct (isSome (fileof a k FData s)); [| constructor].
  constructor; [apply lat_init_ok | constructor].
Qed.

Lemma move_in_blocks_ok : forall E u d m s, Forall (block_ok E) (fst (fst (move_in E u d m s))).
Proof.
  intros. unfold move_in. pose proof (load_blocks_ok E ACa d m s) as L.
  destruct (load E ACa d m s) as [[bl m1] [|]]; cbn in *; [exact L |].
  repeat constructor; [apply lat_init_ok | apply rename_ok].
Qed.

Ltac fa := repeat (apply Forall_app; split); repeat constructor;
           auto using lat_init_ok, create_data_ok, write_data_ok, rmall_up_ok, persist_ok, rename_ok, meta_ok.

Lemma prog_blocks_ok : forall E m s o, Forall (block_ok E) (fst (fst (prog E m s o))).
Proof.
  intros E m s o. destruct o as [u d | u d off data | u d lf | d | d | d pl | d c lf | d]; cbn [prog].
  - destruct (memb u (m_up m) || isSome (up s u)); [constructor |].
    pose proof (load_blocks_ok E ACa d m s) as L.
    destruct (load E ACa d m s) as [[bl m1] [|]]; cbn in *; [exact L | fa].
  - pose proof (load_blocks_ok E ACa d m s) as L.
    destruct (load E ACa d m s) as [[bl m1] [|]]; cbn in *; [exact L |].
    pose proof (load_blocks_ok E AUp u m1 s) as L2.
    destruct (load E AUp u m1 s) as [[bl2 m2] [|]]; cbn in *; [fa | exact L].
  - pose proof (load_blocks_ok E AUp u m s) as L.
    destruct (load E AUp u m s) as [[bl m1] [|]]; cbn in *; [| constructor].
    destruct (fileof AUp u FData s) as [c |]; [| exact L].
    destruct (eH E c =? d); [| fa].
    pose proof (move_in_blocks_ok E u d m1 s) as L2.
    destruct (move_in E u d m1 s) as [[bl2 m2] [|]]; cbn in *; fa.
  - pose proof (load_blocks_ok E ACa d m s) as L.
    destruct (load E ACa d m s) as [[bl m1] [|]]; cbn in *; [fa | exact L].
  - pose proof (load_blocks_ok E ACa d m s) as L.
    destruct (load E ACa d m s) as [[bl m1] [|]]; cbn in *; [fa | exact L].
  - pose proof (load_blocks_ok E ACa d m s) as L.
    destruct (load E ACa d m s) as [[bl m1] [|]]; cbn in *; [| exact L].
    destruct (pl =? 0); cbn; [exact L | fa].
  - destruct (eH E c =? d).
    + pose proof (move_in_blocks_ok E (m_tmp m) d (mkmem (m_up m) (m_ca m) (N.succ (m_tmp m))) s) as L2.
      destruct (move_in E (m_tmp m) d (mkmem (m_up m) (m_ca m) (N.succ (m_tmp m))) s) as [[bl2 m2] cr]; cbn in *.
      repeat (apply Forall_cons); auto using lat_init_ok, create_data_ok, write_data_ok. fa.
    + cbn. repeat (apply Forall_cons); auto using lat_init_ok, create_data_ok, write_data_ok, rmall_up_ok.
  - pose proof (load_blocks_ok E ACa d m s) as L.
    destruct (load E ACa d m s) as [[bl m1] [|]]; cbn in *; exact L.
Qed.

Lemma run_blocks_exec : forall bs s, snd (run_blocks bs s) = exec (fst (run_blocks bs s)) s.
Proof.
  induction bs as [| b t IH]; intro s; cbn; [reflexivity |]. rewrite exec_app. apply IH.
Qed.

Lemma run_blocks_safe : forall E bs s, Inv E s -> Forall (block_ok E) bs -> trace_safe E s (fst (run_blocks bs s)).
Proof.
  intros E bs. induction bs as [| b t IH]; intros s Is F; cbn; [exact I |].
  inversion F as [| ? ? Hb Ht]; subst.
  apply trace_safe_app. split; [apply Hb; exact Is |].
  apply IH; [apply trace_safe_inv; [exact Is | apply Hb; exact Is] | exact Ht].
Qed.

Lemma run_safe : forall E ops m s, Inv E s -> trace_safe E s (trace (fst (run E m s ops))).
Proof.
  intros E ops. induction ops as [| o t IH]; intros m s Is; cbn [run]; [exact I |].
  pose proof (prog_blocks_ok E m s o) as P.
  destruct (prog E m s o) as [[bs m'] r]. cbn in P. cbn [fst trace flat_map sr_calls].
  apply trace_safe_app. split; [apply run_blocks_safe; assumption |].
  rewrite <- run_blocks_exec. apply IH. rewrite run_blocks_exec.
  apply trace_safe_inv; [exact Is | apply run_blocks_safe; assumption].
Qed.

Lemma epoch_safe : forall E ns s ops, Inv E s -> trace_safe E s (epoch_calls E ns s ops).
Proof.
  intros E ns s ops Is. unfold epoch_calls. apply trace_safe_app. split; [apply open_ok; exact Is |].
  apply run_safe. apply trace_safe_inv; [exact Is | apply open_ok; exact Is].
Qed.

Theorem crash_inv : forall E ns s ops k, Inv E s -> Inv E (crash k (epoch_calls E ns s ops) s).
Proof.
  intros. unfold crash. apply trace_safe_inv; [assumption |]. apply trace_safe_firstn, epoch_safe. assumption.
Qed.

Lemma recover_inv : forall E s, Inv E s -> Inv E (recover s).
Proof. intros E s Is. apply (Inv_ext E s); [reflexivity | exact Is]. Qed.

(* a life of the origin: epochs, each ended by a crash at an arbitrary point and a restart *)
Record epoch := mkepoch { ep_nslots : N; ep_ops : list op; ep_crash : nat }.
Definition run_epoch (E : env) (s : fs) (ep : epoch) : fs :=
  recover (crash (ep_crash ep) (epoch_calls E (ep_nslots ep) s (ep_ops ep)) s).
Definition run_epochs (E : env) (es : list epoch) : fs := fold_left (run_epoch E) es fs0.

Lemma epochs_inv_from : forall E es s, Inv E s -> Inv E (fold_left (run_epoch E) es s).
Proof.
  intros E es. induction es as [| ep t IH]; intros s Is; cbn; [exact Is |].
  apply IH. unfold run_epoch. apply recover_inv, crash_inv. exact Is.
Qed.

Theorem epochs_inv : forall E es, Inv E (run_epochs E es).
Proof. intros. apply epochs_inv_from, Inv_fs0. Qed.
