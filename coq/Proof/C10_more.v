(* C10, part 5: the TTL/TTI pass with a lower disk-usage threshold (aggressive mode,
   cleanup.go:294): it deletes a subset of what the pass without threshold would delete, and
   never anything else. *)
From Coq Require Import List NArith ZArith Bool Lia.
From K.Gen Require Import C10_consts.
From K.Model Require Import C10.
From K.Proof Require Import C10_base C10_pass C10_policy.
Import ListNotations.
Local Open Scope Z_scope.

(* every file after a pass with any threshold setting: either what the plain pass leaves
   (ttl_after) or the file merely scanned (scan_entry) *)
Theorem ttl_loop_any : forall tti ttl resp used low scan scanned s,
  wf s -> roomy_s s -> NoDup scan ->
  let s' := fst (ttl_loop tti ttl resp used low scan scanned s) in
  (forall m, aget m (dk s') = ttl_after tti ttl scan s m \/ aget m (dk s') = scan_entry scan s m)
  /\ now s' = now s /\ cap s' = cap s.
Proof.
  intros tti ttl resp used low scan. induction scan as [|n t IH]; intros scanned s W R ND.
  - cbn. repeat split; auto.
  - inversion ND as [|? ? Hnt NDt]; subst.
    cbn [ttl_loop]. pose proof (peek_roomy n s W R) as P. pose proof (peek_wf n s W) as W1.
    destruct (peek n s) as [s1 ok]. cbn [fst snd] in P, W1.
    assert (R1 : roomy_s s1).
    { eapply roomy_shrink; [exact R | apply (ps_cap _ _ _ _ P) | rewrite (ps_len _ _ _ _ P); lia]. }
    destruct (if ok then aget n (dk s1) else None) as [f1|] eqn:Ef.
    + assert (Hok : ok = true) by (destruct ok; [auto | discriminate]). subst ok.
      pose proof (ps_dk _ _ _ _ P n) as Hn. rewrite N.eqb_refl, Ef in Hn.
      destruct (aget n (dk s)) as [f|] eqn:Ed; [|discriminate]. cbn in Hn.
      injection Hn as Hf1.
      assert (Hinm : amem n (fm s1) = true).
      { rewrite (ps_fmn _ _ _ _ P). unfold amem. rewrite Ed. reflexivity. }
      set (go := ready tti ttl (now s1) f1 && negb (resp && (to_u64 (used - to_u64 scanned) <=? low))).
      set (s2 := if go then fst (delete_file n s1) else s1).
      assert (W2 : wf s2) by (unfold s2; destruct go; auto; apply delete_file_wf; auto).
      assert (E2 : (forall m, m <> n -> aget m (dk s2) = aget m (dk s) /\ amem m (fm s2) = amem m (fm s))
                   /\ (aget n (dk s2) = ttl_after tti ttl (n :: t) s n \/ aget n (dk s2) = Some f1)
                   /\ now s2 = now s /\ cap s2 = cap s /\ (length (dk s2) <= length (dk s))%nat).
      { unfold s2. destruct go eqn:Eg.
        - unfold go in Eg. apply andb_true_iff in Eg. destruct Eg as [Er _].
          rewrite delete_file_inmap; auto. cbn [fst dk fm now cap].
          assert (Hp : persisted n (dk s1) = is_persisted f).
          { unfold persisted. rewrite Ef, Hf1. apply seen_persisted. }
          rewrite Hp. repeat split.
          + destruct (is_persisted f); [|rewrite aget_arem_neq; auto];
              rewrite (ps_dk _ _ _ _ P m); destruct (N.eqb m n) eqn:E; auto;
              apply N.eqb_eq in E; contradiction.
          + rewrite amem_arem_neq; auto. apply (ps_fm _ _ _ _ P); auto.
          + left. unfold ttl_after, ttl_due. rewrite Ed, memb_cons_eq.
            rewrite (ps_now _ _ _ _ P) in Er. rewrite <- Hf1. rewrite Er, andb_true_r.
            destruct (is_persisted f); cbn.
            * rewrite Ef. reflexivity.
            * apply aget_arem_eq.
          + apply (ps_now _ _ _ _ P).
          + apply (ps_cap _ _ _ _ P).
          + rewrite <- (ps_len _ _ _ _ P). destruct (is_persisted f); auto. apply length_arem_le.
        - repeat split.
          + rewrite (ps_dk _ _ _ _ P m). destruct (N.eqb m n) eqn:E; auto.
            apply N.eqb_eq in E. contradiction.
          + apply (ps_fm _ _ _ _ P); auto.
          + right. exact Ef.
          + apply (ps_now _ _ _ _ P).
          + apply (ps_cap _ _ _ _ P).
          + rewrite (ps_len _ _ _ _ P). lia. }
      destruct E2 as (Eo & En & Enow & Ecap & Elen).
      assert (R2 : roomy_s s2) by (apply (roomy_shrink s s2 R Ecap Elen)).
      specialize (IH (scanned + f_size f1) s2 W2 R2 NDt). cbn zeta in IH.
      destruct IH as (IHd & IHn & IHc). repeat split; try congruence.
      intros m. destruct (N.eq_dec m n) as [->|Ne].
      * (* n is not scanned again: its record stays what this iteration left *)
        assert (Hsame : aget n (dk (fst (ttl_loop tti ttl resp used low t (scanned + f_size f1) s2))) = aget n (dk s2)).
        { destruct (IHd n) as [H|H]; rewrite H.
          - unfold ttl_after. destruct (memb n t) eqn:Emt; [apply memb_In in Emt; contradiction|].
            destruct (aget n (dk s2)); auto.
          - unfold scan_entry. destruct (memb n t) eqn:Emt; [apply memb_In in Emt; contradiction|]. auto. }
        rewrite Hsame. destruct En as [En|En]; [left; exact En|].
        right. rewrite En. unfold scan_entry. rewrite memb_cons_eq, Ed. cbn. rewrite Hf1. reflexivity.
      * destruct (Eo m Ne) as [E1 E2]. destruct (IHd m) as [H|H]; rewrite H; [left|right].
        -- unfold ttl_after. rewrite E1, E2, Enow, memb_cons_neq; auto.
        -- unfold scan_entry. rewrite E1, E2, Enow, memb_cons_neq; auto.
    + assert (Hnone : aget n (dk s) = None).
      { pose proof (ps_dk _ _ _ _ P n) as Hn. rewrite N.eqb_refl in Hn.
        pose proof (ps_ok _ _ _ _ P) as Hok. unfold amem in Hok.
        destruct (aget n (dk s)) as [f|] eqn:Ed; auto. subst ok. rewrite Hn in Ef. discriminate. }
      specialize (IH scanned s1 W1 R1 NDt). cbn zeta in IH. destruct IH as (IHd & IHn & IHc).
      repeat split.
      * intros m.
        assert (Ha : ttl_after tti ttl t s1 m = ttl_after tti ttl (n :: t) s m).
        { unfold ttl_after. rewrite (ps_dk _ _ _ _ P m). destruct (N.eqb m n) eqn:E.
          - apply N.eqb_eq in E. subst m. rewrite Hnone. reflexivity.
          - apply N.eqb_neq in E. rewrite (ps_fm _ _ _ _ P m E), (ps_now _ _ _ _ P), memb_cons_neq; auto. }
        assert (Hb : scan_entry t s1 m = scan_entry (n :: t) s m).
        { unfold scan_entry. rewrite (ps_dk _ _ _ _ P m). destruct (N.eqb m n) eqn:E.
          - apply N.eqb_eq in E. subst m. rewrite Hnone. destruct (memb n t), (memb n (n :: t)); reflexivity.
          - apply N.eqb_neq in E. rewrite (ps_fm _ _ _ _ P m E), (ps_now _ _ _ _ P), memb_cons_neq; auto. }
        rewrite <- Ha, <- Hb. apply IHd.
      * rewrite IHn. apply (ps_now _ _ _ _ P).
      * rewrite IHc. apply (ps_cap _ _ _ _ P).
Qed.

(* whatever the mode (normal, aggressive TTL, with or without lower threshold): a file that
   disappears during a TTL/TTI pass with room in the map was listed, unprotected and due *)
Theorem ttl_pass_removes_only_due : forall tti ttl thr u scan s m f,
  wf s -> roomy_s s -> NoDup scan ->
  aget m (dk s) = Some f ->
  aget m (dk (ttl_pass tti ttl thr u scan s)) = None ->
  memb m scan = true /\ ttl_due tti ttl (now s) (amem m (fm s)) f = true.
Proof.
  intros tti ttl thr u scan s m f W R ND Hf Hnone. unfold ttl_pass in Hnone.
  destruct (if thr =? 0 then (false, 0, 0)
            else match u with
                 | Some u0 => (true, u_used u0, to_u64 (u_total u0 * to_u64 thr) / 100)
                 | None => (false, 0, 0)
                 end) as [[resp used] low].
  destruct (ttl_loop_any tti ttl resp used low scan 0 s W R ND) as (H & _ & _).
  destruct (H m) as [E|E]; rewrite E in Hnone.
  - unfold ttl_after in Hnone. rewrite Hf in Hnone. destruct (memb m scan); [|discriminate].
    destruct (ttl_due tti ttl (now s) (amem m (fm s)) f); [auto | discriminate].
  - unfold scan_entry in Hnone. rewrite Hf in Hnone. destruct (memb m scan); discriminate.
Qed.

Theorem cleanup_removes_only_due : forall c0 t0 ops c u scan order m f,
  let s := fst (run (init c0 t0) ops) in
  roomy (cap s) (dk s) = true -> NoDup scan ->
  aget m (dk s) = Some f ->
  aget m (dk (fst (cleanup c false u scan order s))) = None ->
  let ttl := if should_aggro c u then c_attl c else c_ttl c in
  memb m scan = true /\ is_persisted f = false
  /\ ready (c_tti c) ttl (now s) (seen (amem m (fm s)) (now s) f) = true.
Proof.
  intros c0 t0 ops c u scan order m f s R ND Hf Hn. cbn zeta.
  unfold cleanup in Hn. rewrite andb_false_r in Hn. cbn [andb fst] in Hn.
  assert (W : wf s) by (apply run_wf; apply wf_init).
  apply roomy_iff in R.
  destruct (ttl_pass_removes_only_due _ _ _ _ _ _ _ _ W R ND Hf Hn) as [H1 H2].
  unfold ttl_due in H2. apply andb_true_iff in H2. destruct H2 as [H2 H3].
  apply negb_true_iff in H2. auto.
Qed.

(* the periodic job (addJob): one period later the pass runs with the defaulted configuration *)
Theorem job_exact : forall c0 t0 ops c dt u scan order m,
  let s := fst (run (init c0 t0) ops) in
  let d := apply_defaults c in
  let s1 := mkst (dk s) (fm s) (now s + dt) (cap s) in
  roomy (cap s) (dk s) = true -> NoDup scan -> c_interval d <= dt -> should_aggro d u = false ->
  aget m (dk (fst (step s (Job c false dt u scan order)))) = ttl_after (c_tti d) (c_ttl d) scan s1 m.
Proof.
  intros c0 t0 ops c dt u scan order m s d s1 R ND Hdt Ag. cbn [step].
  unfold job_fires. cbn [negb andb]. fold d. apply Z.leb_le in Hdt. rewrite Hdt. fold s1.
  assert (W : wf s1) by (apply (run_wf ops (init c0 t0)); apply wf_init).
  unfold cleanup. rewrite Ag. cbn [andb fst]. apply ttl_pass_exact; auto.
  apply roomy_iff in R. exact R.
Qed.

Theorem job_not_started : forall s c dis dt u scan order,
  dis = true \/ dt < c_interval (apply_defaults c) ->
  dk (fst (step s (Job c dis dt u scan order))) = dk s.
Proof.
  intros s c dis dt u scan order H. cbn [step]. unfold job_fires.
  destruct H as [->|H]; cbn [negb andb fst dk]; auto.
  apply Z.leb_gt in H. rewrite H, andb_false_r. reflexivity.
Qed.
