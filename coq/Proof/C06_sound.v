(* C06 — soundness of the executable oracle C06_check on the model's own observations. *)
From Coq Require Import List NArith Bool Lia.
From K.Model Require Import C06.
From K.Proof Require Import C06_base C06_inv C06_crash C06_rec C06.
Import ListNotations.
Local Open Scope N_scope.
#[local] Opaque dec.

(* ---------------------------------------------------------------- boolean equalities are reflexive *)
Lemma nlist_eqb_refl : forall l, nlist_eqb l l = true.
Proof. induction l as [|x t IH]; cbn; [reflexivity|]. now rewrite N.eqb_refl, IH. Qed.
Lemma obytes_eqb_refl : forall o, obytes_eqb o o = true.
Proof. intros [b|]; cbn; [apply nlist_eqb_refl|reflexivity]. Qed.
Lemma list_eqb_refl : forall {A} (eq : A -> A -> bool) l, (forall a, eq a a = true) -> list_eqb eq l l = true.
Proof. intros A eq l H. induction l as [|x t IH]; cbn; [reflexivity|]. now rewrite H, IH. Qed.
Lemma kobs_eqb_refl : forall k, kobs_eqb k k = true.
Proof.
  intros k. unfold kobs_eqb. rewrite !Bool.eqb_reflx, N.eqb_refl, nlist_eqb_refl.
  rewrite (list_eqb_refl obytes_eqb) by apply obytes_eqb_refl. reflexivity.
Qed.

(* ---------------------------------------------------------------- what a recovered key shows, as a function of its directories *)
Definition kv_obs (c : cfg) (w : kview) : kobs :=
  match fst (rec_view (c_ri c) w) with
  | None => absent
  | Some e =>
      match vget (area_of e) (snd (rec_view (c_ri c) w)) with
      | Some d => mkkobs true (e_complete e) (e_size e) (e_banned e)
                         (match d_data d with Some b => b | None => [] end)
                         (map (fun sfx => aget sfx (d_md d)) (nrange (c_nsfx c)))
      | None => mkkobs true (e_complete e) 999999 (e_banned e) [] []
      end
  end.

Lemma obs_of_view : forall c f s' x, recover c f = Some s' -> observe_key c s' x = kv_obs c (blobs f x).
Proof.
  intros c f s' x R. destruct (recover_key c f s' x R) as [Hm Hb]. unfold observe_key, kv_obs. now rewrite Hm, Hb.
Qed.

Lemma kv_obs_veq : forall c e v w, di_key c e v -> veq w v -> kv_obs c w = kv_obs c v.
Proof.
  intros c [e|] v w K E.
  - destruct (e_complete e) eqn:C.
    + destruct (rec_complete c e v w K C E) as [d [dw [b [Hv [Hw [Ed [Hd [Hl [Hb R]]]]]]]]].
      destruct (rec_complete c e v v K C (veq_refl v)) as [d2 [dv [b2 [Hv2 [Hw2 [Ed2 [Hd2 [Hl2 [Hb2 R2]]]]]]]]].
      rewrite Hv in Hw2. injection Hw2 as <-. unfold kv_obs. rewrite R, R2. cbn [fst snd area_of e_complete vget].
      destruct Ed as [E1 [E2 [E3 E4]]]. rewrite Hd in E1. rewrite <- E1 in Hd2. injection Hd2 as <-.
      rewrite Hd, <- E1, E3, E4. reflexivity.
    + destruct (rec_incomplete c e v w K C E) as [d [dw [b [Hv [Hw [Ed [Hd [Hl [Hb R]]]]]]]]].
      destruct (rec_incomplete c e v v K C (veq_refl v)) as [d2 [dv [b2 [Hv2 [Hw2 [Ed2 [Hd2 [Hl2 [Hb2 R2]]]]]]]]].
      rewrite Hv in Hw2. injection Hw2 as <-. unfold kv_obs. rewrite R, R2.
      destruct (c_ri c); cbn [fst snd area_of e_complete vget]; [|reflexivity].
      destruct Ed as [E1 [E2 [E3 E4]]]. rewrite Hd in E1. rewrite <- E1, E3, E4, Hd. reflexivity.
  - cbn in K. subst v. apply veq_none in E. now subst w.
Qed.

Lemma expect_of_view : forall c s x, DI c s -> expect c s x = kv_obs c (blobs (disk s) x).
Proof.
  intros c s x D. pose proof (di_keys c s D x) as K. unfold expect, observe_key.
  destruct (mem s x) as [e|] eqn:M.
  - destruct (e_complete e) eqn:C.
    + destruct (rec_complete c e _ _ K C (veq_refl _)) as [d [dw [b [Hv [Hw [Ed [Hd [Hl [Hb R]]]]]]]]].
      rewrite Hv in Hw. injection Hw as <-. unfold kv_obs. rewrite R. cbn [fst snd area_of e_complete vget].
      unfold area_of. rewrite C, Hv. cbn [vget fst o_bytes o_mds]. rewrite Hd, Hb. reflexivity.
    + destruct (rec_incomplete c e _ _ K C (veq_refl _)) as [d [dw [b [Hv [Hw [Ed [Hd [Hl [Hb R]]]]]]]]].
      rewrite Hv in Hw. injection Hw as <-. unfold kv_obs. rewrite R.
      destruct (c_ri c); cbn [fst snd area_of e_complete vget]; [|reflexivity].
      unfold area_of. rewrite C, Hv. cbn [vget snd]. rewrite Hd, Hb. reflexivity.
  - cbn in K. rewrite K. unfold kv_obs. now rewrite rec_absent.
Qed.

(* ---------------------------------------------------------------- every recovered key is allowed by the oracle *)
Lemma list_eqb_map2 : forall {A B} (f : B -> B -> bool) (g1 g2 : A -> B) l,
  (forall a, f (g1 a) (g2 a) = true) -> list_eqb f (map g1 l) (map g2 l) = true.
Proof. intros A B f g1 g2 l H. induction l as [|a t IH]; cbn; [reflexivity|]. now rewrite H, IH. Qed.

Lemma md_sub_of : forall (m' m : list (N * bytes)) s,
  (forall v, aget s m' = Some v -> aget s m = Some v) -> md_sub (aget s m') (aget s m) = true.
Proof.
  intros m' m s H. unfold md_sub. destruct (aget s m') as [v|] eqn:E; [|reflexivity].
  rewrite (H v eq_refl). apply obytes_eqb_refl.
Qed.

Lemma mds_mc_map : forall (m' m : list (N * bytes)) n st,
  (forall s, aget s m' = aget s m \/ (N.even s = true /\ aget s m' = None)) ->
  mds_mc (N.of_nat st) (map (fun sfx => aget sfx m') (map N.of_nat (seq st n)))
                       (map (fun sfx => aget sfx m) (map N.of_nat (seq st n))) = true.
Proof.
  intros m' m n. induction n as [|n IH]; intros st H; [reflexivity|].
  cbn [seq map mds_mc]. rewrite <- Nat2N.inj_succ, IH by exact H. rewrite andb_true_r.
  destruct (H (N.of_nat st)) as [E|[E1 E2]].
  - rewrite E. destruct (N.even (N.of_nat st)); [|apply obytes_eqb_refl].
    unfold md_sub. destruct (aget (N.of_nat st) m); [apply obytes_eqb_refl|reflexivity].
  - rewrite E1, E2. reflexivity.
Qed.

Lemma kv_obs_comp : forall c d b vi, d_data d = Some b -> rec_inc (c_ri c) vi = (None, None) \/ True ->
  kv_obs c (Some d, None) = mkkobs true true (N.of_nat (length b)) (d_ban d) b
                                   (map (fun sfx => aget sfx (d_md d)) (nrange (c_nsfx c))).
Proof.
  intros c d b vi Hd _. unfold kv_obs, rec_view. cbn [fst snd rec_comp]. rewrite Hd, rec_inc_none.
  cbn [fst snd area_of e_complete vget]. rewrite Hd. reflexivity.
Qed.

Lemma degraded_rm : forall c e d d', dir_ok c e d -> dsub d' d ->
  degraded (kv_obs c (vset (area_of e) (Some d) (None, None))) (kv_obs c (vset (area_of e) (Some d') (None, None))) = true.
Proof.
  intros c e d d' [b [Hd [Hl [Hb Hs]]]] [S1 [S2 [S3 S4]]]. unfold area_of.
  assert (MS : list_eqb md_sub (map (fun sfx => aget sfx (d_md d')) (nrange (c_nsfx c)))
                              (map (fun sfx => aget sfx (d_md d)) (nrange (c_nsfx c))) = true).
  { apply list_eqb_map2. intros s. apply md_sub_of. apply S4. }
  assert (IB : implb (d_ban d') (d_ban d) = true).
  { destruct (d_ban d') eqn:B'; [|reflexivity]. now rewrite (S3 eq_refl). }
  destruct (e_complete e) eqn:C; cbn [vset fst snd].
  - rewrite (kv_obs_comp c d b None Hd (or_intror I)).
    destruct S1 as [S1|S1].
    + rewrite (kv_obs_comp c d' b None) by (auto; congruence).
      unfold degraded. cbn [o_present o_complete o_size o_banned o_bytes o_mds negb orb andb].
      now rewrite N.eqb_refl, IB, nlist_eqb_refl, MS.
    + unfold kv_obs, rec_view. cbn [fst snd rec_comp]. rewrite S1, rec_inc_none. reflexivity.
  - unfold kv_obs, rec_view. cbn [fst snd rec_comp]. destruct (c_ri c) eqn:RI; cbn [rec_inc]; [|reflexivity].
    destruct (Hs eq_refl eq_refl) as [sb [T1 T2]]. rewrite Hd, T1, T2. cbn [fst snd area_of e_complete vget]. rewrite Hd.
    destruct S1 as [S1|S1]; rewrite S1, ?Hd; [|reflexivity].
    destruct S2 as [S2|S2]; rewrite S2, ?T1, ?T2; [|reflexivity].
    cbn [fst snd area_of e_complete vget]. rewrite S1, Hd.
    unfold degraded. cbn [o_present o_complete o_size o_banned o_bytes o_mds negb orb andb].
    now rewrite N.eqb_refl, IB, nlist_eqb_refl, MS.
Qed.

Lemma key_allowed_sound : forall c s o k x r, DI c s -> wf_op c s o = true ->
  sr_pre r = s -> sr_op r = o -> sr_post r = post c s o ->
  key_allowed c r x (kv_obs c (blobs (crash c s o k) x)) = true.
Proof.
  intros c s o k x r D W Hpre Hop Hpost. unfold key_allowed. rewrite Hpre, Hop, Hpost.
  pose proof (step_DI c s o D W) as D'. fold (post c s o) in D'.
  rewrite (expect_of_view c s x D), (expect_of_view c _ x D').
  destruct (N.eq_dec x (target o)) as [->|E].
  - destruct (crash_class c s o k D W) as [E|E|e d d' Hr M V Hw S|sz d' Ho M Hw R|e d d' Ho M C V Hw Hd Hb Hmd].
    + rewrite (kv_obs_veq c _ _ _ (di_keys c s D (target o)) E), kobs_eqb_refl. reflexivity.
    + fold (post c s o) in E. rewrite (kv_obs_veq c _ _ _ (di_keys c _ D' (target o)) E), kobs_eqb_refl.
      now rewrite orb_true_r.
    + pose proof (di_keys c s D (target o)) as K. rewrite M in K. destruct K as [d0 [Hv OK]].
      rewrite Hv in V, Hw |- *. rewrite vget_vset in V. injection V as ->. rewrite vset_vset in Hw. rewrite Hw.
      rewrite Hr, (degraded_rm c e d d' OK S). cbn [andb]. now rewrite orb_true_r.
    + assert (A : kv_obs c (blobs (crash c s o k) (target o)) = absent).
      { rewrite Hw. unfold kv_obs, rec_view. cbn [fst snd rec_comp]. now rewrite R. }
      pose proof (di_keys c s D (target o)) as K. rewrite M in K. cbn in K. rewrite A, K.
      unfold kv_obs at 1. rewrite rec_absent. reflexivity.
    + pose proof (di_keys c s D (target o)) as K. rewrite M in K. destruct K as [d0 [Hv [b [Hd0 [Hl [Hb0 _]]]]]].
      unfold area_of in Hv. rewrite C in Hv. cbn in Hv. rewrite V in Hv. injection Hv as <-.
      assert (MC : mid_complete c s o (target o) (kv_obs c (blobs (crash c s o k) (target o))) = true).
      { rewrite Hw, (kv_obs_comp c d' b None) by (auto; congruence).
        unfold mid_complete. rewrite Ho at 1. rewrite M. unfold observe_key. rewrite M. unfold area_of. rewrite C, V.
        cbn [vget snd target o_present o_complete o_size o_banned o_bytes o_mds]. rewrite Hd0, N.eqb_refl, C, N.eqb_refl, nlist_eqb_refl.
        rewrite Hb, Hb0, Bool.eqb_reflx. cbn [negb andb]. unfold nrange. apply (mds_mc_map _ _ _ 0%nat). exact Hmd. }
      rewrite MC. now rewrite !orb_true_r.
  - rewrite crash_other by exact E. rewrite kobs_eqb_refl. reflexivity.
Qed.
