(* C04: list / byte-string facts, piece arithmetic, and the "core" of the disk the invariant reads *)
From Coq Require Import List NArith Bool Arith Lia.
From K.Model Require Import C04.
Import ListNotations.

(* ---- bytes ---- *)
Lemma bytes_eqb_eq : forall a b, bytes_eqb a b = true <-> a = b.
Proof.
  induction a as [|x a IH]; destruct b as [|y b]; simpl; split; intro H; try reflexivity; try discriminate.
  - apply andb_true_iff in H. destruct H as [H1 H2]. apply N.eqb_eq in H1. apply IH in H2. congruence.
  - inversion H; subst. rewrite N.eqb_refl. simpl. apply IH. reflexivity.
Qed.

Lemma bytes_eqb_refl : forall a, bytes_eqb a a = true.
Proof. intro a. apply bytes_eqb_eq. reflexivity. Qed.

Lemma bytes_eqb_neq : forall a b, bytes_eqb a b = false <-> a <> b.
Proof.
  intros a b. split; intro H.
  - intro E. apply bytes_eqb_eq in E. congruence.
  - destruct (bytes_eqb a b) eqn:E; [apply bytes_eqb_eq in E; contradiction | reflexivity].
Qed.

(* ---- firstn / skipn ---- *)
Lemma firstn_add : forall {A} a b (l : list A), firstn (a + b) l = firstn a l ++ firstn b (skipn a l).
Proof.
  induction a as [|a IH]; intros b l; simpl; [reflexivity|].
  destruct l as [|x l]; simpl.
  - rewrite firstn_nil. reflexivity.
  - rewrite IH. reflexivity.
Qed.

Lemma skipn_add : forall {A} a b (l : list A), skipn (a + b) l = skipn b (skipn a l).
Proof.
  induction a as [|a IH]; intros b l; simpl; [reflexivity|].
  destruct l as [|x l]; simpl.
  - rewrite skipn_nil. reflexivity.
  - apply IH.
Qed.

Lemma firstn_app_le : forall {A} n (l1 l2 : list A), n <= length l1 -> firstn n (l1 ++ l2) = firstn n l1.
Proof.
  intros A n l1 l2 H. rewrite firstn_app. replace (n - length l1) with 0 by lia. simpl. apply app_nil_r.
Qed.

Lemma skipn_app_ge : forall {A} n (l1 l2 : list A), length l1 <= n -> skipn n (l1 ++ l2) = skipn (n - length l1) l2.
Proof.
  intros A n l1 l2 H. rewrite skipn_app. rewrite skipn_all2 by lia. reflexivity.
Qed.

Lemma firstn_firstn_le : forall {A} a b (l : list A), a <= b -> firstn a (firstn b l) = firstn a l.
Proof. intros. rewrite firstn_firstn. f_equal. lia. Qed.

Lemma skipn_firstn_window : forall {A} a l b (x : list A),
  a + l <= b -> firstn l (skipn a (firstn b x)) = firstn l (skipn a x).
Proof.
  intros A a l b x H.
  rewrite skipn_firstn_comm. rewrite firstn_firstn. f_equal. lia.
Qed.

(* ---- pwrite / truncate ---- *)
Lemma pwrite_prefix_length : forall (f : bytes) off, length (firstn off f ++ repeat 0%N (off - length f)) = off.
Proof.
  intros f off. rewrite app_length, firstn_length, repeat_length. lia.
Qed.

Lemma length_pwrite : forall f off d, length (pwrite f off d) = Nat.max (length f) (off + length d).
Proof.
  intros f off d. unfold pwrite.
  rewrite app_assoc. rewrite app_length. rewrite pwrite_prefix_length.
  rewrite app_length, skipn_length. lia.
Qed.

Lemma pwrite_nil : forall f off, off <= length f -> pwrite f off [] = f.
Proof.
  intros f off H. unfold pwrite. replace (off - length f) with 0 by lia. simpl.
  rewrite Nat.add_0_r. apply firstn_skipn.
Qed.

(* a window that ends inside the old file and lies before the written range is unchanged *)
Lemma window_pwrite_before : forall f off d a l,
  a + l <= off -> a + l <= length f ->
  firstn l (skipn a (pwrite f off d)) = firstn l (skipn a f).
Proof.
  intros f off d a l H1 H2. unfold pwrite.
  assert (E : firstn l (skipn a (firstn off f ++ (repeat 0%N (off - length f) ++ d ++ skipn (off + length d) f)))
              = firstn l (skipn a (firstn off f))).
  { rewrite skipn_app. rewrite firstn_app.
    rewrite skipn_length, firstn_length.
    replace (l - (Nat.min off (length f) - a)) with 0 by lia. simpl. apply app_nil_r. }
  rewrite E. apply skipn_firstn_window. lia.
Qed.

(* a window that starts after the written range is unchanged *)
Lemma window_pwrite_after : forall f off d a l,
  off + length d <= a ->
  firstn l (skipn a (pwrite f off d)) = firstn l (skipn a f).
Proof.
  intros f off d a l H. f_equal. unfold pwrite.
  rewrite app_assoc. rewrite skipn_app_ge by (rewrite pwrite_prefix_length; lia).
  rewrite pwrite_prefix_length.
  rewrite skipn_app_ge by lia.
  rewrite <- skipn_add. f_equal. lia.
Qed.

(* the written range reads back *)
Lemma window_pwrite_self : forall f off d, firstn (length d) (skipn off (pwrite f off d)) = d.
Proof.
  intros f off d. unfold pwrite.
  rewrite app_assoc. rewrite skipn_app_ge by (rewrite pwrite_prefix_length; lia).
  rewrite pwrite_prefix_length. rewrite Nat.sub_diag. simpl.
  rewrite firstn_app_le by lia. apply firstn_all.
Qed.

(* two consecutive writes are one write *)
Lemma pwrite_pwrite_consecutive : forall f off d1 d2,
  pwrite (pwrite f off d1) (off + length d1) d2 = pwrite f off (d1 ++ d2).
Proof.
  intros f off d1 d2.
  assert (L : length (pwrite f off d1) >= off + length d1) by (rewrite length_pwrite; lia).
  unfold pwrite at 1.
  replace (off + length d1 - length (pwrite f off d1)) with 0 by lia. simpl.
  assert (P : firstn (off + length d1) (pwrite f off d1) = firstn off f ++ repeat 0%N (off - length f) ++ d1).
  { unfold pwrite. rewrite app_assoc. rewrite app_assoc.
    rewrite firstn_app_le by (rewrite app_length, pwrite_prefix_length; lia).
    rewrite firstn_all2 by (rewrite app_length, pwrite_prefix_length; lia).
    rewrite <- app_assoc. reflexivity. }
  rewrite P.
  assert (S : skipn (off + length d1 + length d2) (pwrite f off d1) = skipn (off + length (d1 ++ d2)) f).
  { unfold pwrite. rewrite app_assoc. rewrite app_assoc.
    rewrite skipn_app_ge by (rewrite app_length, pwrite_prefix_length; lia).
    rewrite app_length, pwrite_prefix_length.
    rewrite <- skipn_add. f_equal. rewrite app_length. lia. }
  rewrite S. unfold pwrite. rewrite <- !app_assoc. reflexivity.
Qed.

Lemma truncate_nil : forall n, truncate [] n = repeat 0%N n.
Proof. intro n. unfold truncate. rewrite firstn_nil. simpl. f_equal. lia. Qed.

Lemma length_truncate : forall f n, length (truncate f n) = n.
Proof. intros. unfold truncate. rewrite app_length, firstn_length, repeat_length. lia. Qed.

(* ---- pieces ---- *)
Section Pieces.
  Variable c : cfg.
  Hypothesis Hpl : 0 < c_pl c.

  Lemma npieces_spec : c_pl c * npieces c < blen c + c_pl c /\ blen c <= c_pl c * npieces c.
  Proof.
    unfold npieces.
    pose proof (Nat.div_mod (blen c + c_pl c - 1) (c_pl c)) as D.
    pose proof (Nat.mod_upper_bound (blen c + c_pl c - 1) (c_pl c)) as M.
    lia.
  Qed.

  Lemma poff_plen_bound : forall i, i < npieces c ->
    0 < plen c i /\ poff c i + plen c i <= blen c /\ plen c i <= c_pl c.
  Proof.
    intros i Hi. destruct npieces_spec as [N1 N2]. unfold plen, poff.
    destruct (S i =? npieces c) eqn:E.
    - apply Nat.eqb_eq in E. rewrite <- E in *. nia.
    - apply Nat.eqb_neq in E. assert (S (S i) <= npieces c) by lia. nia.
  Qed.

  Lemma poff_next : forall i, S i < npieces c -> poff c (S i) = poff c i + plen c i.
  Proof.
    intros i Hi. unfold poff, plen.
    destruct (S i =? npieces c) eqn:E; [apply Nat.eqb_eq in E; lia|]. lia.
  Qed.

  Lemma region_blob_length : forall i, i < npieces c -> length (region c (c_blob c) i) = plen c i.
  Proof.
    intros i Hi. destruct (poff_plen_bound i Hi) as [_ [H _]].
    unfold region. rewrite firstn_length, skipn_length. unfold blen in H. lia.
  Qed.

  Lemma region_full_length : forall f i, length (region c f i) = plen c i -> poff c i + plen c i <= length f \/ plen c i = 0.
  Proof.
    intros f i H. unfold region in H. rewrite firstn_length, skipn_length in H. lia.
  Qed.

  (* disjoint pieces *)
  Lemma pieces_disjoint : forall i j, i < npieces c -> j < npieces c -> i <> j ->
    poff c j + plen c j <= poff c i \/ poff c i + plen c i <= poff c j.
  Proof.
    intros i j Hi Hj Hne.
    destruct (poff_plen_bound i Hi) as [_ [_ Pi]]. destruct (poff_plen_bound j Hj) as [_ [_ Pj]].
    unfold poff in *. destruct (Nat.lt_ge_cases j i); [left|right]; nia.
  Qed.

  (* a write inside piece i leaves piece j alone, provided piece j lies inside the old file *)
  Lemma region_pwrite_other : forall f off d i j,
    i < npieces c -> j < npieces c -> i <> j ->
    poff c i <= off -> off + length d <= poff c i + plen c i ->
    poff c j + plen c j <= length f ->
    region c (pwrite f off d) j = region c f j.
  Proof.
    intros f off d i j Hi Hj Hne H1 H2 H3. unfold region.
    destruct (pieces_disjoint i j Hi Hj Hne) as [D|D].
    - apply window_pwrite_before; lia.
    - apply window_pwrite_after; lia.
  Qed.

  Lemma region_pwrite_self : forall f d i, length d = plen c i -> region c (pwrite f (poff c i) d) i = d.
  Proof. intros f d i H. unfold region. rewrite <- H. apply window_pwrite_self. Qed.

  (* a file no longer than the blob all of whose pieces are the blob's pieces is the blob *)
  Lemma prefix_by_pieces : forall f m, m <= npieces c ->
    (forall i, i < npieces c -> region c f i = region c (c_blob c) i) ->
    firstn (Nat.min (c_pl c * m) (blen c)) f = firstn (Nat.min (c_pl c * m) (blen c)) (c_blob c).
  Proof.
    intros f m Hm Hall. induction m as [|m IH].
    - rewrite Nat.mul_0_r. simpl. reflexivity.
    - assert (Hi : m < npieces c) by lia.
      destruct (poff_plen_bound m Hi) as [P0 [P1 P2]].
      destruct npieces_spec as [N1 N2].
      assert (E : Nat.min (c_pl c * S m) (blen c) = Nat.min (c_pl c * m) (blen c) + plen c m).
      { unfold plen, poff in *. destruct (S m =? npieces c) eqn:Q.
        - apply Nat.eqb_eq in Q. rewrite <- Q in *. nia.
        - apply Nat.eqb_neq in Q. assert (S (S m) <= npieces c) by lia. nia. }
      rewrite E. rewrite !firstn_add. rewrite IH by lia.
      f_equal.
      assert (Q : Nat.min (c_pl c * m) (blen c) = poff c m) by (unfold poff in *; lia).
      rewrite Q. apply (Hall m Hi).
  Qed.

  Lemma all_pieces_blob : forall f, length f <= blen c ->
    (forall i, i < npieces c -> region c f i = region c (c_blob c) i) -> f = c_blob c.
  Proof.
    intros f Hlen Hall.
    pose proof (prefix_by_pieces f (npieces c) (le_n _) Hall) as P.
    destruct npieces_spec as [N1 N2].
    replace (Nat.min (c_pl c * npieces c) (blen c)) with (blen c) in P by lia.
    unfold blen in *. rewrite (firstn_all (c_blob c)) in P.
    assert (L : length (firstn (length (c_blob c)) f) = length (c_blob c)) by (rewrite P; reflexivity).
    rewrite firstn_length in L.
    rewrite firstn_all2 in P by lia. exact P.
  Qed.

  Lemma region_nil_neq_blob : forall i, i < npieces c -> region c [] i <> region c (c_blob c) i.
  Proof.
    intros i Hi E. pose proof (region_blob_length i Hi) as L. rewrite <- E in L.
    destruct (poff_plen_bound i Hi) as [P _].
    unfold region in L. rewrite skipn_nil, firstn_nil in L. simpl in L. lia.
  Qed.
End Pieces.
