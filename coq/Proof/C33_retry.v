(* C33 and the persisted-retry manager: the verdicts the manager sees for tag replication tasks
   are the verdicts of Model/C33.exec.  Imports Model/Retry.v and Proof/Retry.v (owner: C30)
   read-only. *)
From Coq Require Import List NArith Bool Lia.
From K.Model Require Import C33.
From K.Model Require Retry.
From K.Proof Require Retry.
From K.Proof Require Import C33.
Import ListNotations.
Local Open Scope N_scope.

Module R := K.Model.Retry.
Module RP := K.Proof.Retry.

(* the executor log grows only by the start of an execution and by the executor's verdict *)
Lemma log_step s o :
  R.s_log (fst (R.step s o)) = R.s_log s \/
  (exists t, R.s_log (fst (R.step s o)) = R.EStart t :: R.s_log s) \/
  (exists t ok, o = R.OpExecRet t ok /\ R.s_log (fst (R.step s o)) = R.ERet t ok :: R.s_log s).
Proof.
  destruct s as [c sto now mg log]. destruct o; unfold R.step; cbn [R.s_mgr R.s_store R.s_log R.s_cfg R.s_now];
    repeat (match goal with
            | |- context [match ?x with _ => _ end] => destruct x
            | |- context [if ?x then _ else _] => destruct x
            end; cbn [fst R.s_log R.with_mgr R.with_sm]); eauto.
  right; right. eexists _, _. split; reflexivity.
Qed.

Lemma ret_in_log ops : forall s t ok,
  In (R.ERet t ok) (R.s_log (fst (R.run s ops))) ->
  In (R.ERet t ok) (R.s_log s) \/ In (R.OpExecRet t ok) ops.
Proof.
  induction ops as [|o ops IH]; intros s t ok; cbn [R.run]; [auto|].
  destruct (R.step s o) as [s1 r] eqn:S. specialize (IH s1 t ok).
  destruct (R.run s1 ops) as [s2 rs]. cbn [fst] in *. intros H.
  destruct (IH H) as [H1|H1]; [|right; right; exact H1].
  pose proof (log_step s o) as L. rewrite S in L. cbn [fst] in L.
  destruct L as [L|[[t' L]|[t' [ok' [-> L]]]]]; rewrite L in H1.
  - left. exact H1.
  - destruct H1 as [H1|H1]; [discriminate|left; exact H1].
  - destruct H1 as [H1|H1]; [inversion H1; subst; right; left; reflexivity|left; exact H1].
Qed.

Lemma last_ev_in t log e : R.last_ev t log = Some e -> In e log.
Proof. unfold R.last_ev. intros H. apply find_some in H. exact (proj1 H). Qed.

(* ---- the combined system: the manager's operations, where the verdict of an execution of a
   tag replication task is what Model/C33.exec returns in the environment of that execution *)
Inductive cop :=
| CExec (t : N) (e : env)        (* Executor.Exec(task t) ran against environment e and returned *)
| CMgr (o : R.op).               (* any other step of the manager, the clock, a crash, a restart *)

Definition lower (c : cop) : R.op :=
  match c with
  | CExec t e => R.OpExecRet t (is_ok (verdict e))
  | CMgr o => o
  end.

(* verdicts are not invented: every executor return goes through CExec *)
Definition honest (c : cop) : bool :=
  match c with CMgr (R.OpExecRet _ _) => false | _ => true end.

(* the remote cluster holds the tag at the end of the execution: its build-index said so, or it
   answered 200 to a put that was preceded by the confirmation of every dependency *)
Definition remote_holds (e : env) : Prop :=
  is200 (e_has e) = true \/
  exists pre, trace e = pre ++ [EPut (RCode 200)] /\
              forall d, In d (deps e) -> exists o, In (ERepl d o (RCode 200)) pre.

Lemma ok_remote_holds e : verdict e = Ok -> remote_holds e.
Proof.
  intros V. unfold remote_holds. destruct (is200 (e_has e)) eqn:Hh; [left; reflexivity|right].
  apply verdict_ok_iff in V as [V|[Vo [Vd Vp]]]; [congruence|].
  unfold trace, exec. rewrite !rq_ok_is200, Hh, Vo.
  pose proof (repl_all_result (e_deps e)) as Rr.
  assert (F : forallb (fun de => snd (replicate de)) (e_deps e) = true) by (apply forallb_forall; exact Vd).
  rewrite F in Rr. destruct (repl_all (e_deps e)) as [t b] eqn:A. cbn [snd] in Rr. subst b. cbn [fst].
  apply is200_eq in Vp. rewrite Vp.
  exists (EHas (e_has e) :: EOrigin (e_origin e) :: t). split; [reflexivity|].
  intros d Hd.
  assert (T : trace e = (EHas (e_has e) :: EOrigin (e_origin e) :: t) ++ EPut (RCode 200) :: []).
  { unfold trace, exec. rewrite !rq_ok_is200, Hh, Vo, A, Vp. reflexivity. }
  exact (order _ _ _ _ T d Hd).
Qed.

(* C33_retried_until_held: whatever the manager, the clock, crashes and restarts do, the row of a
   tag replication task leaves the store only through the worker's Remove after an execution of
   that task which ended with the remote cluster holding the tag *)
Lemma retried_until_held cfg cops c t :
  forallb honest (cops ++ [c]) = true ->
  let s := fst (R.run (R.init cfg) (map lower cops)) in
  R.storedb t (R.s_store s) = true ->
  R.storedb t (R.s_store (fst (R.step s (lower c)))) = false ->
  lower c = R.OpExecFin t /\
  exists e, In (CExec t e) cops /\ verdict e = Ok /\ remote_holds e.
Proof.
  intros Hh s S S'.
  assert (Inv : RP.Inv s). { apply RP.reachable_inv. exists cfg, (map lower cops). reflexivity. }
  destruct (RP.removal_step s (lower c) t Inv S S') as [Ho Hl]. split; [exact Ho|].
  apply last_ev_in in Hl. apply ret_in_log in Hl as [Hl|Hl]; [destruct Hl|].
  apply in_map_iff in Hl as [x [Hx Hin]].
  rewrite forallb_app, andb_true_iff in Hh. destruct Hh as [Hh _]. rewrite forallb_forall in Hh.
  specialize (Hh x Hin). destruct x as [t' e|o]; cbn [lower] in Hx.
  - inversion Hx. subst t'. exists e. split; [exact Hin|].
    assert (V : verdict e = Ok) by (destruct (verdict e); [reflexivity|discriminate]).
    split; [exact V|exact (ok_remote_holds e V)].
  - subst o. discriminate.
Qed.

(* ... and nothing else deletes it: as long as the latest verdict about the task is not a success
   (in particular after a failed execution, whose MarkFailed only updates the row) every step of
   the manager keeps the row, so the poller will hand the task to a worker again (C30) *)
Lemma kept_unless_success cfg cops o t :
  let s := fst (R.run (R.init cfg) (map lower cops)) in
  R.storedb t (R.s_store s) = true ->
  R.last_ev t (R.s_log s) <> Some (R.ERet t true) ->
  R.storedb t (R.s_store (fst (R.step s o))) = true.
Proof.
  intros s S L.
  assert (Inv : RP.Inv s). { apply RP.reachable_inv. exists cfg, (map lower cops). reflexivity. }
  destruct (R.storedb t (R.s_store (fst (R.step s o)))) eqn:E; [reflexivity|].
  destruct (RP.removal_step s o t Inv S E) as [_ Q]. congruence.
Qed.
