(* C06 — what the disk looks like after a crash at any point of any operation: for every key, the
   view is that of the state before, the state after, or a precisely described intermediate. *)
From Coq Require Import List NArith Bool Lia.
From K.Model Require Import C06.
From K.Proof Require Import C06_base C06_inv.
Import ListNotations.
Local Open Scope N_scope.
#[local] Opaque dec.

(* ---------------------------------------------------------------- interrupted RemoveAll *)
Lemma dsub_refl : forall d, dsub d d.
Proof. intros d. repeat split; auto. Qed.
Lemma dsub_trans : forall a b c, dsub a b -> dsub b c -> dsub a c.
Proof.
  intros a b c [A1 [A2 [A3 A4]]] [B1 [B2 [B3 B4]]]. repeat split.
  - destruct A1 as [-> | ->]; auto.
  - destruct A2 as [-> | ->]; auto.
  - auto.
  - auto.
Qed.
Lemma dsub_rm1 : forall f d, dsub (fset f None d) d.
Proof.
  intros [] d; cbn; repeat split; cbn; auto; try discriminate.
  intros s0 v. apply aget_adel_sub.
Qed.
Lemma rm_files_dsub : forall ord d d', rm_files ord d = Some d' -> dsub d' d.
Proof.
  induction ord as [|f t IH]; intros d d' H; cbn in H.
  - injection H as <-. apply dsub_refl.
  - destruct (fget f d); [|discriminate]. eapply dsub_trans; [apply (IH _ _ H)|apply dsub_rm1].
Qed.
Lemma rm_files_app : forall p q d d', rm_files (p ++ q) d = Some d' ->
  exists d'', rm_files p d = Some d'' /\ rm_files q d'' = Some d'.
Proof.
  induction p as [|f t IH]; intros q d d' H; cbn in *.
  - exists d. auto.
  - destruct (fget f d); [|discriminate]. now apply IH.
Qed.

Lemma rm_prefix : forall a x ord d v pk,
  legal_order ord (Some d) = true -> vget a v = Some d -> prefix pk (rm_calls a x ord (Some d)) ->
  kexec pk v = vset a None v \/ exists d', kexec pk v = vset a (Some d') v /\ dsub d' d.
Proof.
  intros a x ord d v pk L V Hp. unfold rm_calls in Hp. apply prefix_app_cases in Hp.
  unfold legal_order in L. destruct (rm_files ord d) as [df|] eqn:R; [|discriminate].
  destruct Hp as [Hp|[p' [-> Hp]]].
  - right. apply prefix_map in Hp. destruct Hp as [l' [-> [q ->]]].
    apply rm_files_app in R. destruct R as [d'' [R1 R2]].
    exists d''. split; [now apply (kexec_unlinks _ _ _ d)|now apply rm_files_dsub in R1].
  - rewrite kexec_app, (kexec_unlinks _ _ _ _ _ _ R V). apply prefix_one in Hp. destruct Hp as [->| ->].
    + right. exists df. split; [reflexivity|now apply rm_files_dsub in R].
    + left. cbn. unfold kapply. cbn [kstep]. rewrite vget_vset, L. apply vset_vset.
Qed.

(* ---------------------------------------------------------------- interrupted MarkComplete *)
Definition rm_mds (l : list N) (d : bdir) : bdir :=
  fold_left (fun d s => match aget s (d_md d) with Some _ => fset (FMd s) None d | None => d end) l d.
Lemma kexec_unlink_mds : forall x l d vi,
  kexec (map (fun sfx => CUnlink AComp x (FMd sfx)) l) (Some d, vi) = (Some (rm_mds l d), vi).
Proof.
  intros x l. induction l as [|s t IH]; intros d vi; [reflexivity|].
  cbn [map]. rewrite kexec_cons. unfold kapply. cbn [kstep vget fst fget].
  unfold rm_mds. cbn [fold_left]. fold (rm_mds t (match aget s (d_md d) with Some _ => fset (FMd s) None d | None => d end)).
  destruct (aget s (d_md d)); cbn [vset snd]; apply IH.
Qed.
Lemma rm_mds_spec : forall l d,
  d_data (rm_mds l d) = d_data d /\ d_sizef (rm_mds l d) = d_sizef d /\ d_ban (rm_mds l d) = d_ban d /\
  forall s, aget s (d_md (rm_mds l d)) = aget s (d_md d) \/ (In s l /\ aget s (d_md (rm_mds l d)) = None).
Proof.
  induction l as [|s0 t IH]; intros d; [cbn; auto|].
  unfold rm_mds. cbn [fold_left]. fold (rm_mds t (match aget s0 (d_md d) with Some _ => fset (FMd s0) None d | None => d end)).
  set (d1 := match aget s0 (d_md d) with Some _ => fset (FMd s0) None d | None => d end).
  destruct (IH d1) as [I1 [I2 [I3 I4]]].
  assert (E : d_data d1 = d_data d /\ d_sizef d1 = d_sizef d /\ d_ban d1 = d_ban d) by (unfold d1; destruct (aget s0 (d_md d)); cbn; auto).
  destruct E as [E1 [E2 E3]]. repeat split; try congruence.
  intros s. destruct (I4 s) as [H|[H1 H2]].
  - rewrite H. unfold d1. destruct (aget s0 (d_md d)) eqn:G; [|now left]. cbn [fset d_md].
    destruct (N.eq_dec s s0) as [->|N0].
    + right. split; [now left|apply aget_adel_eq].
    + left. now apply aget_adel_neq.
  - right. split; [now right|exact H2].
Qed.
Lemma immovables_even : forall c d s, In s (immovables c d) -> N.even s = true.
Proof. intros c d s H. unfold immovables in H. apply filter_In in H. destruct H as [_ H]. apply andb_true_iff in H. tauto. Qed.

(* ---------------------------------------------------------------- the classification *)
Inductive cclass (c : cfg) (s : state) (o : op) (w : kview) : Prop :=
| cc_pre : veq w (blobs (disk s) (target o)) -> cclass c s o w
| cc_post : veq w (blobs (disk (st_of (step c s o))) (target o)) -> cclass c s o w
| cc_rm : forall e d d',
    removes o (target o) = true -> mem s (target o) = Some e ->
    vget (area_of e) (blobs (disk s) (target o)) = Some d ->
    w = vset (area_of e) (Some d') (blobs (disk s) (target o)) -> dsub d' d -> cclass c s o w
| cc_create : forall sz d',
    o = Create (target o) sz -> mem s (target o) = None -> w = (None, Some d') ->
    rec_inc (c_ri c) (Some d') = (None, None) -> cclass c s o w
| cc_mc : forall e d d',
    o = MarkComplete (target o) -> mem s (target o) = Some e -> e_complete e = false ->
    blobs (disk s) (target o) = (None, Some d) -> w = (Some d', None) ->
    d_data d' = d_data d -> d_ban d' = d_ban d ->
    (forall sfx, aget sfx (d_md d') = aget sfx (d_md d) \/ (N.even sfx = true /\ aget sfx (d_md d') = None)) ->
    cclass c s o w.

Lemma crash_other : forall c s o k y, y <> target o -> blobs (crash c s o k) y = blobs (disk s) y.
Proof.
  intros c s o k y H. unfold crash. apply (blobs_exec_other (target o)); [|exact H].
  eapply ckeys_prefix; [apply prefix_firstn|apply step_ckeys].
Qed.

Lemma crash_class : forall c s o k, DI c s -> wf_op c s o = true ->
  cclass c s o (blobs (crash c s o k) (target o)).
Proof.
  intros c s o k D W. unfold crash.
  pose proof (prefix_firstn k (calls_of (step c s o))) as Hp. set (p := firstn k (calls_of (step c s o))) in *.
  destruct (step_shape c s o D W) as
    [Hs Hc | x sz sh Ho M V F Hsh Hc Hst | x e d ord Hr Ht M V L Hc Hst | x e d sh Ho M C V Hsh Hc Hst
     | x e d body e' d1 Ht Hr Hmc M V Hk Hc Hm Hms Hsz Hco Hfin Hpre OK].
  - (* nothing happens *)
    rewrite Hc in Hp. apply prefix_nil in Hp. rewrite Hp. apply cc_pre. apply veq_refl.
  - (* Create *)
    subst o. cbn [target] in *. rewrite Hc in Hp.
    set (body := [CMkBlob AInc x; COpen AInc x FData OExcl]
                 ++ (if c_ri c then [COpen AInc x FSize OExcl; CWrite AInc x FSize 0 (dec sz)] else [])) in *.
    assert (Kb : konly x body) by (unfold body; destruct (c_ri c); repeat constructor).
    destruct (prefix_view x sh body (disk s) p Hsh Kb Hp) as [pk [Hpk ->]].
    rewrite V.
    assert (POST : blobs (disk (st_of (step c s (Create x sz)))) x = kexec body (None, None)).
    { rewrite step_disk, Hc, <- V. now apply blobs_exec_target. }
    unfold body in Hpk, POST.
    apply prefix_cons in Hpk. destruct Hpk as [->|[p1 [-> Hpk]]]; [apply cc_pre; cbn [target]; rewrite V; apply veq_refl|].
    cbn [app] in Hpk. apply prefix_cons in Hpk. destruct Hpk as [->|[p2 [-> Hpk]]].
    { eapply (cc_create c s _ _ sz empty_dir); [reflexivity|exact M|reflexivity|].
      cbn. destruct (c_ri c); reflexivity. }
    destruct (c_ri c) eqn:RI.
    + apply prefix_cons in Hpk. destruct Hpk as [->|[p3 [-> Hpk]]].
      { eapply (cc_create c s _ _ sz (fset FData (Some []) empty_dir)); [reflexivity|exact M|reflexivity|].
        cbn. rewrite RI. reflexivity. }
      apply prefix_one in Hpk. destruct Hpk as [->| ->].
      { eapply (cc_create c s _ _ sz (fset FSize (Some []) (fset FData (Some []) empty_dir))); [reflexivity|exact M|reflexivity|].
        cbn. rewrite RI. reflexivity. }
      apply cc_post. cbn [target]. rewrite POST. apply veq_refl.
    + apply prefix_nil in Hpk. subst p2. apply cc_post. cbn [target]. rewrite POST. apply veq_refl.
  - (* Delete / Evict *)
    rewrite Ht in *. rewrite Hc in Hp.
    assert (Hpk : prefix (filter (touches x) p) (rm_calls (area_of e) x ord (Some d))).
    { rewrite <- (filter_konly x (rm_calls (area_of e) x ord (Some d))) by apply konly_rm_calls. now apply prefix_filter. }
    rewrite blobs_exec. destruct (rm_prefix _ _ _ _ (blobs (disk s) x) _ L V Hpk) as [E|[d' [E S]]].
    + apply cc_post. rewrite E, Ht, step_disk, Hc, blobs_exec.
      rewrite (filter_konly x (rm_calls (area_of e) x ord (Some d))) by apply konly_rm_calls.
      rewrite (kexec_rm_calls _ _ _ _ _ L V). apply veq_refl.
    + rewrite E. eapply cc_rm; eauto; rewrite Ht; eauto.
  - (* MarkComplete *)
    subst o. cbn [target] in *. rewrite Hc in Hp.
    assert (Kb : konly x (CRenDir x :: map (fun sfx => CUnlink AComp x (FMd sfx)) (immovables c d)))
      by (constructor; [reflexivity|apply konly_map_unlink]).
    destruct (prefix_view x sh _ (disk s) p Hsh Kb Hp) as [pk [Hpk ->]].
    rewrite V. apply prefix_cons in Hpk. destruct Hpk as [->|[p1 [-> Hpk]]]; [apply cc_pre; cbn [target]; rewrite V; apply veq_refl|].
    apply prefix_map in Hpk. destruct Hpk as [l' [-> [q Hq]]].
    rewrite kexec_cons. unfold kapply. cbn [kstep snd fst]. rewrite kexec_unlink_mds.
    destruct (rm_mds_spec l' d) as [R1 [R2 [R3 R4]]].
    eapply cc_mc; eauto.
    intros sfx. destruct (R4 sfx) as [H|[H1 H2]]; [now left|right]. split; [|exact H2].
    apply (immovables_even c d). rewrite Hq. apply in_or_app. now left.
  - (* operations inside one directory *)
    rewrite Ht in *. rewrite Hc in Hp.
    assert (Hpk : prefix (filter (touches x) p) body).
    { rewrite <- (filter_konly x body) by exact Hk. now apply prefix_filter. }
    rewrite blobs_exec. destruct (Hpre _ Hpk) as [E|E].
    + apply cc_pre. rewrite Ht. exact E.
    + apply cc_post. rewrite E, Ht, step_disk, Hc, blobs_exec, (filter_konly x body) by exact Hk. apply veq_refl.
Qed.
