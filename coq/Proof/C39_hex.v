(* C39: basic facts — list equality, encoding/hex, 20-byte identifiers *)
From Coq Require Import List NArith ZArith Bool Lia ZifyBool ZifyN ZifyNat.
From K.Model Require Import C39.
Import ListNotations.
Local Open Scope N_scope.

Lemma leqb_refl : forall a, leqb a a = true.
Proof. induction a as [|x a IH]; cbn [leqb]; [reflexivity|]. rewrite N.eqb_refl, IH. reflexivity. Qed.

Lemma leqb_eq : forall a b, leqb a b = true <-> a = b.
Proof.
  induction a as [|x a IH]; destruct b as [|y b]; cbn [leqb]; split; intro H; try reflexivity; try discriminate.
  - apply andb_true_iff in H. destruct H as [H1 H2]. apply N.eqb_eq in H1. apply IH in H2. congruence.
  - inversion H; subst. rewrite N.eqb_refl. cbn. apply IH. reflexivity.
Qed.

Lemma list_ind2 : forall (A : Type) (P : list A -> Prop),
  P [] -> (forall a, P [a]) -> (forall a b t, P t -> P (a :: b :: t)) -> forall l, P l.
Proof.
  intros A P H0 H1 H2.
  assert (H : forall l, P l /\ forall a, P (a :: l)).
  { induction l as [|x l [IHa IHb]]; split; auto. }
  intro l. apply H.
Qed.

(* ---- hex digits ---- *)

Lemma hexval_range : forall c v, hexval c = Some v -> v < 16.
Proof.
  intros c v. unfold hexval.
  destruct ((48 <=? c) && (c <=? 57)) eqn:E1; [intro H; inversion H; lia|].
  destruct ((97 <=? c) && (c <=? 102)) eqn:E2; [intro H; inversion H; lia|].
  destruct ((65 <=? c) && (c <=? 70)) eqn:E3; [intro H; inversion H; lia|].
  discriminate.
Qed.

Lemma hexval_hexdigit : forall v, v < 16 -> hexval (hexdigit v) = Some v.
Proof.
  intros v Hv. unfold hexdigit, hexval.
  destruct (v <? 10) eqn:E.
  - replace ((48 <=? 48 + v) && (48 + v <=? 57)) with true by lia. f_equal. lia.
  - replace ((48 <=? 87 + v) && (87 + v <=? 57)) with false by lia.
    replace ((97 <=? 87 + v) && (87 + v <=? 102)) with true by lia. f_equal. lia.
Qed.

Lemma hexdigit_hexval : forall c v, hexval c = Some v -> hexdigit v = lower c.
Proof.
  intros c v. unfold hexval, hexdigit, lower.
  destruct ((48 <=? c) && (c <=? 57)) eqn:E1.
  { intro H; inversion H; subst. replace (c - 48 <? 10) with true by lia.
    replace ((65 <=? c) && (c <=? 70)) with false by lia. lia. }
  destruct ((97 <=? c) && (c <=? 102)) eqn:E2.
  { intro H; inversion H; subst. replace (c - 87 <? 10) with false by lia.
    replace ((65 <=? c) && (c <=? 70)) with false by lia. lia. }
  destruct ((65 <=? c) && (c <=? 70)) eqn:E3.
  { intro H; inversion H; subst. replace (c - 55 <? 10) with false by lia. lia. }
  discriminate.
Qed.

Lemma is_hex_hexdigit : forall v, v < 16 -> is_hex (hexdigit v) = true.
Proof. intros v Hv. unfold is_hex. rewrite hexval_hexdigit by assumption. reflexivity. Qed.

Lemma is_hex_hexval : forall c, is_hex c = true <-> exists v, hexval c = Some v.
Proof.
  intro c. unfold is_hex. destruct (hexval c) as [v|]; split; intro H; try discriminate; eauto.
  destruct H as [v H]. discriminate.
Qed.

(* the characters of "sha256" and ':' seen by is_hex *)
Lemma colon_not_hex : is_hex colon = false.
Proof. reflexivity. Qed.

(* ---- encode / decode ---- *)

Lemma hex_encode_length : forall b, length (hex_encode b) = (2 * length b)%nat.
Proof. induction b as [|x b IH]; cbn [hex_encode length]; lia. Qed.

Lemma hex_encode_is_hex : forall b, Forall (fun x => x < 256) b -> forallb is_hex (hex_encode b) = true.
Proof.
  induction b as [|x b IH]; intro H; cbn [hex_encode forallb]; [reflexivity|].
  inversion H as [|? ? Hx Hb]; subst.
  rewrite !is_hex_hexdigit, IH; auto.
  - apply N.mod_upper_bound. lia.
  - apply N.div_lt_upper_bound; lia.
Qed.

Lemma hex_decode_cons2 : forall a c t, hex_decode (a :: c :: t) =
  match hexval a, hexval c, hex_decode t with
  | Some x, Some y, Some r => Some (16 * x + y :: r)
  | _, _, _ => None
  end.
Proof. reflexivity. Qed.

(* print then parse: every byte string decodes back from its hex form *)
Theorem hex_roundtrip : forall b, Forall (fun x => x < 256) b -> hex_decode (hex_encode b) = Some b.
Proof.
  induction b as [|x b IH]; intro H; [reflexivity|].
  inversion H as [|? ? Hx Hb]; subst.
  cbn [hex_encode]. rewrite hex_decode_cons2.
  rewrite !hexval_hexdigit.
  - rewrite IH by assumption. f_equal. f_equal.
    pose proof (N.div_mod x 16 ltac:(lia)). lia.
  - apply N.mod_upper_bound. lia.
  - apply N.div_lt_upper_bound; lia.
Qed.

(* parse: what is accepted, and what printing the result gives *)
Theorem hex_decode_sound : forall s b, hex_decode s = Some b ->
  length s = (2 * length b)%nat /\ Forall (fun x => x < 256) b /\ forallb is_hex s = true
  /\ hex_encode b = map lower s.
Proof.
  intro s. induction s as [| a | a c t IH] using list_ind2; intros b H.
  - inversion H; subst. cbn. auto.
  - discriminate.
  - rewrite hex_decode_cons2 in H.
    destruct (hexval a) as [x|] eqn:Ea; [|discriminate].
    destruct (hexval c) as [y|] eqn:Ec; [|discriminate].
    destruct (hex_decode t) as [r|] eqn:Et; [|discriminate].
    assert (Hb : b = 16 * x + y :: r) by congruence. subst b. clear H.
    destruct (IH r eq_refl) as (L & F & X & P).
    pose proof (hexval_range _ _ Ea). pose proof (hexval_range _ _ Ec).
    repeat split.
    + cbn [length]. lia.
    + constructor; [lia|assumption].
    + cbn [forallb]. unfold is_hex at 1 2. rewrite Ea, Ec, X. reflexivity.
    + cbn [hex_encode map].
      replace ((16 * x + y) / 16) with x.
      2:{ apply N.div_unique with (r := y); lia. }
      replace ((16 * x + y) mod 16) with y.
      2:{ apply N.mod_unique with (q := x); lia. }
      rewrite (hexdigit_hexval _ _ Ea), (hexdigit_hexval _ _ Ec), P. reflexivity.
Qed.

(* exactly the even-length all-hex strings are accepted *)
Theorem hex_decode_accepts : forall s,
  (exists b, hex_decode s = Some b) <-> (Nat.even (length s) = true /\ forallb is_hex s = true).
Proof.
  intro s. induction s as [| a | a c t IH] using list_ind2.
  - split; [intros _; auto | intros _; exists []; reflexivity].
  - split; [intros [b H]; discriminate | intros [H _]; discriminate].
  - split.
    + intros [b H]. destruct (hex_decode_sound _ _ H) as (L & _ & X & _). split; [|assumption].
      rewrite L. clear. induction (length b) as [|n IHn]; [reflexivity|].
      replace (2 * S n)%nat with (S (S (2 * n))) by lia. cbn [Nat.even]. exact IHn.
    + intros [E X]. cbn [length Nat.even] in E. cbn [forallb] in X.
      apply andb_true_iff in X. destruct X as [Xa X]. apply andb_true_iff in X. destruct X as [Xc X].
      apply is_hex_hexval in Xa. apply is_hex_hexval in Xc.
      destruct Xa as [x Xa]. destruct Xc as [y Xc].
      destruct (proj2 IH (conj E X)) as [r Hr].
      exists (16 * x + y :: r). rewrite hex_decode_cons2. rewrite Xa, Xc, Hr. reflexivity.
Qed.

Lemma hex_decode_length : forall s b, hex_decode s = Some b -> length s = (2 * length b)%nat.
Proof. intros s b H. apply hex_decode_sound in H. tauto. Qed.

(* lower-case hex text is a fixed point of print . parse *)
Lemma lower_idem : forall c, lower (lower c) = lower c.
Proof. intro c. unfold lower. destruct ((65 <=? c) && (c <=? 70)) eqn:E; [|rewrite E; reflexivity].
  replace ((65 <=? c + 32) && (c + 32 <=? 70)) with false by lia. reflexivity. Qed.

Lemma hexval_lower : forall c, hexval (lower c) = hexval c.
Proof.
  intro c. unfold lower. destruct ((65 <=? c) && (c <=? 70)) eqn:E; [|reflexivity].
  unfold hexval.
  replace ((48 <=? c + 32) && (c + 32 <=? 57)) with false by lia.
  replace ((97 <=? c + 32) && (c + 32 <=? 102)) with true by lia.
  replace ((48 <=? c) && (c <=? 57)) with false by lia.
  replace ((97 <=? c) && (c <=? 102)) with false by lia.
  rewrite E. f_equal. lia.
Qed.

(* ---- Forall / forallb bridge for bytes ---- *)
Lemma forallb_is_byte : forall b, forallb is_byte b = true <-> Forall (fun x => x < 256) b.
Proof.
  induction b as [|x b IH]; cbn [forallb]; split; intro H; auto.
  - apply andb_true_iff in H. destruct H as [Hx Hb]. constructor; [unfold is_byte in Hx; lia | apply IH; assumption].
  - inversion H; subst. apply andb_true_iff. split; [unfold is_byte; lia | apply IH; assumption].
Qed.

(* ---- info hash and peer id (infohash.go, peer_id.go) ---- *)

Theorem infohash_roundtrip : forall b, id20_wfb b = true -> infohash_parse (infohash_print b) = Ok b.
Proof.
  intros b H. unfold id20_wfb in H. apply andb_true_iff in H. destruct H as [L F].
  apply Nat.eqb_eq in L. apply forallb_is_byte in F.
  unfold infohash_parse, infohash_print. rewrite hex_encode_length, L. cbn [Nat.mul Nat.add Nat.eqb].
  rewrite hex_roundtrip by assumption. rewrite L. reflexivity.
Qed.

Theorem peerid_roundtrip : forall b, id20_wfb b = true -> peerid_parse (peerid_print b) = Ok b.
Proof.
  intros b H. unfold id20_wfb in H. apply andb_true_iff in H. destruct H as [L F].
  apply Nat.eqb_eq in L. apply forallb_is_byte in F.
  unfold peerid_parse, peerid_print. rewrite hex_roundtrip by assumption. rewrite L. reflexivity.
Qed.

(* accepted <-> 40 hexadecimal characters; the result is 20 bytes whose print is the lower-cased text *)
Theorem infohash_accepts : forall s,
  (exists b, infohash_parse s = Ok b) <-> id_text_wfb 40 s = true.
Proof.
  intro s. unfold infohash_parse, id_text_wfb. split.
  - intros [b H]. destruct (Nat.eqb (length s) 40) eqn:L; [|discriminate].
    destruct (hex_decode s) as [r|] eqn:D; [|discriminate].
    apply hex_decode_sound in D. cbn. tauto.
  - intro H. apply andb_true_iff in H. destruct H as [L X]. rewrite L.
    apply Nat.eqb_eq in L.
    destruct (proj2 (hex_decode_accepts s)) as [r D]; [rewrite L; split; [reflexivity|assumption]|].
    rewrite D. pose proof (hex_decode_length _ _ D) as L2.
    replace (Nat.eqb (length r) 20) with true by (symmetry; apply Nat.eqb_eq; lia). eauto.
Qed.

Theorem infohash_parse_sound : forall s b, infohash_parse s = Ok b ->
  id20_wfb b = true /\ infohash_print b = map lower s.
Proof.
  intros s b. unfold infohash_parse.
  destruct (Nat.eqb (length s) 40) eqn:L; [|discriminate].
  destruct (hex_decode s) as [r|] eqn:D; [|discriminate].
  destruct (Nat.eqb (length r) 20) eqn:L2; [|discriminate].
  intro H. inversion H; subst. apply hex_decode_sound in D. destruct D as (_ & F & _ & P).
  split; [|exact P]. unfold id20_wfb. rewrite L2. apply forallb_is_byte in F. rewrite F. reflexivity.
Qed.

Theorem peerid_accepts : forall s,
  (exists b, peerid_parse s = Ok b) <-> id_text_wfb 40 s = true.
Proof.
  intro s. unfold peerid_parse, id_text_wfb. split.
  - intros [b H]. destruct (hex_decode s) as [r|] eqn:D; [|discriminate].
    destruct (Nat.eqb (length r) 20) eqn:L2; [|discriminate].
    apply Nat.eqb_eq in L2. apply hex_decode_sound in D. destruct D as (L & _ & X & _).
    rewrite X. replace (Nat.eqb (length s) 40) with true by (symmetry; apply Nat.eqb_eq; lia). reflexivity.
  - intro H. apply andb_true_iff in H. destruct H as [L X]. apply Nat.eqb_eq in L.
    destruct (proj2 (hex_decode_accepts s)) as [r D]; [rewrite L; split; [reflexivity|assumption]|].
    rewrite D. pose proof (hex_decode_length _ _ D) as L2.
    replace (Nat.eqb (length r) 20) with true by (symmetry; apply Nat.eqb_eq; lia). eauto.
Qed.

Theorem peerid_parse_sound : forall s b, peerid_parse s = Ok b ->
  id20_wfb b = true /\ peerid_print b = map lower s.
Proof.
  intros s b. unfold peerid_parse.
  destruct (hex_decode s) as [r|] eqn:D; [|discriminate].
  destruct (Nat.eqb (length r) 20) eqn:L2; [|discriminate].
  intro H. inversion H; subst. apply hex_decode_sound in D. destruct D as (_ & F & _ & P).
  split; [|exact P]. unfold id20_wfb. rewrite L2. apply forallb_is_byte in F. rewrite F. reflexivity.
Qed.

(* printing an accepted text and parsing again gives the same identifier *)
Theorem infohash_parse_print : forall s b, infohash_parse s = Ok b -> infohash_parse (infohash_print b) = Ok b.
Proof. intros s b H. apply infohash_roundtrip. apply (infohash_parse_sound _ _ H). Qed.
Theorem peerid_parse_print : forall s b, peerid_parse s = Ok b -> peerid_parse (peerid_print b) = Ok b.
Proof. intros s b H. apply peerid_roundtrip. apply (peerid_parse_sound _ _ H). Qed.

(* distinct identifiers print differently (used for handshake map keys) *)
Lemma hex_encode_inj : forall a b, Forall (fun x => x < 256) a -> Forall (fun x => x < 256) b ->
  hex_encode a = hex_encode b -> a = b.
Proof.
  intros a b Fa Fb H. apply hex_roundtrip in Fa. apply hex_roundtrip in Fb. congruence.
Qed.
